(* Model/TrackerC14.v — C14: what the two kinds of cases observe, and the property predicates.
   "alias": the observation of C12 (per operation: canonical return value + full query sweep)
            taken while the harness scribbles over EVERYTHING it is handed, followed by one flag
            per operation ("every value obtained in that step still reads the same at the end").
            [C14_alias_ok]: the observation is the plain model's prediction (scribbling changed
            nothing the tracker answers) and every flag is "t" (no later tracker operation
            changed a value handed out earlier).
   "conc":  a timed history of completed calls.  [C14_conc_ok]: it is linearizable w.r.t. the
            plain model [sp_step] from the state the sequential setup produced (LinCheck).
   "hammer": one writer goroutine, several readers; [C14_hammer_ok]: every read equals the query's
            answer after SOME prefix of the writer's calls inside the read's window (a torn
            snapshot matches no prefix).
   "nihammer": several goroutines NickInfo on one nick, two GetNick it; [C14_ni_ok]: every result is
            ONE call's value, compatible with the stamps (necessary conditions of linearizability).
   [al_observe]: the same "alias" experiment run INSIDE the heap model (Model/TrackerAlias.v):
            the model's caller scribbles over everything reachable from every value it gets
            (operation results and sweep results, right after reading them back through the
            heap); at the end every value is read back once more.  Used for agreement (model
            vs. code) on sequences of at most [al_observe_max] operations, not for gating.
   Executable definitions only. *)
From Verif Require Export TrackerObs TrackerAlias.
From Verif Require LinCheck.
Open Scope Z_scope.

Definition C14_alias_predict (me : name) (U : universe) (ops : list op) : list bytes :=
  C12_predict me U ops ++ repeat t_true (length ops).
Definition C14_alias_ok (me : name) (U : universe) (ops : list op) (obs : list bytes) : bool :=
  bool_decide (obs = C14_alias_predict me U ops).

(* ---------- concurrent histories ---------- *)
Definition sp_step_obs (s : tstate) (o : op) : tstate * list bytes :=
  let (s', r) := sp_step s o in (s', enc_result r).
Definition obs_eqb (a b : list bytes) : bool := bool_decide (a = b).
Definition C14_budget : N := 400000%N.
Notation hcall := (LinCheck.hcall op (list bytes)) (only parsing).
Definition C14_conc_start (me : name) (setup : list op) : tstate := fst (sp_run (sp_new me) setup).
Definition C14_conc_ok (me : name) (setup : list op) (h : list hcall) : bool :=
  LinCheck.linearizable tstate op (list bytes) sp_step_obs obs_eqb (C14_conc_start me setup) h C14_budget.

(* ---------- one writer, many readers ("hammer") ---------- *)
(* ONE goroutine applies w_1..w_n; readers run queries concurrently.  A read carries
   lo = number of writer calls that had RETURNED before the read was invoked and
   hi = number of writer calls that had been STARTED when the read returned.  With a single
   writer the history is linearizable iff every read is the query's answer in the state after
   some prefix w_1..w_j, lo <= j <= hi (queries do not change the plain model's state). *)
Definition is_query (o : op) : bool :=
  match o with OGetNick _ | OGetChannel _ | OIsOn _ _ | OMe => true | _ => false end.
Fixpoint prefix_states (s : tstate) (ws : list op) : list tstate :=
  s :: match ws with [] => [] | w :: ws' => prefix_states (fst (sp_step s w)) ws' end.
Record hread := { r_q : op; r_lo : nat; r_hi : nat; r_obs : list bytes }.
Definition read_ok (sts : list tstate) (r : hread) : bool :=
  is_query (r_q r) && Nat.leb (r_lo r) (r_hi r)
  && existsb (fun s => obs_eqb (snd (sp_step_obs s (r_q r))) (r_obs r))
             (take (S (r_hi r - r_lo r)) (drop (r_lo r) sts)).
Definition C14_hammer_ok (me : name) (setup ws : list op) (reads : list hread) : bool :=
  forallb (read_ok (prefix_states (C14_conc_start me setup) ws)) reads.

(* ---------- many writers on ONE nick ("nihammer") ---------- *)
(* Every call is NickInfo n .. or GetNick n for one tracked nick n.  In EVERY sequential order
   (Props/C14.v, C14_ni_sequential) a NickInfo call returns what it returns from the start
   state — a snapshot carrying its own three strings — and a GetNick returns the value written
   by the last NickInfo before it (or the start value).  Hence, if the timed history is
   linearizable:
     (a) every NickInfo result is its result from the start state;
     (b) every GetNick result is the start value, and then no NickInfo had returned before the
         read was invoked; or it is the value of ONE NickInfo call w that was invoked before the
         read returned and is not certainly overwritten (no NickInfo w' with w returned before
         w' was invoked and w' returned before the read was invoked).
   These necessary conditions are the gate: a snapshot mixing the strings of two calls is no
   call's value. *)
Definition ni_shape (n : name) (o : op) : bool :=
  match o with ONickInfo n' _ _ _ | OGetNick n' => bool_decide (n' = n) | _ => false end.
Definition is_ni (o : op) : bool := match o with ONickInfo _ _ _ _ => true | _ => false end.
Definition hc_before (a b : hcall) : bool := (LinCheck.h_ret a <? LinCheck.h_inv b).
Definition C14_ni_ok (me : name) (setup : list op) (n : name) (h : list hcall) : bool :=
  let s0 := C14_conc_start me setup in
  let ws := List.filter (fun c : hcall => is_ni (LinCheck.h_op c)) h in
  let table := map (fun w : hcall => (w, snd (sp_step_obs (fst (sp_step s0 (LinCheck.h_op w))) (OGetNick n)))) ws in
  let init := snd (sp_step_obs s0 (OGetNick n)) in
  forallb (fun c : hcall => ni_shape n (LinCheck.h_op c) && (LinCheck.h_inv c <? LinCheck.h_ret c)) h
  && forallb (fun w : hcall => obs_eqb (snd (sp_step_obs s0 (LinCheck.h_op w))) (LinCheck.h_obs w)) ws
  && forallb (fun g : hcall =>
       if is_ni (LinCheck.h_op g) then true
       else (obs_eqb init (LinCheck.h_obs g) && forallb (fun w' => negb (hc_before w' g)) ws)
            || existsb (fun wr : hcall * list bytes =>
                          obs_eqb (snd wr) (LinCheck.h_obs g) && negb (hc_before g (fst wr))
                          && forallb (fun w' => negb (hc_before (fst wr) w' && hc_before w' g)) ws) table) h.

(* ---------- the alias experiment inside the heap model ---------- *)
Definition al_step_std := al_step enumA_std enumN_std privs_Copy.
Definition rd_enc (s : astate) (v : rvalue) : list bytes :=
  match rd_value s v with Some r => enc_result r | None => [t_panic] end.

(* values held by the caller: step index, value, how it read when the caller last touched it *)
Definition held := (N * rvalue * list bytes)%type.

(* one query sweep: every result is read back (recorded), then scribbled over *)
Fixpoint al_sweep (k : N) (s : astate) (qs : list op) : option (astate * list bytes * list held) :=
  match qs with
  | [] => Some (s, [], [])
  | q :: qs' =>
      x ← al_step_std s q;
      let s1 := fst (fst x) in let v := snd (fst x) in
      let out := rd_enc s1 v in
      let s2 := scribble s1 v in
      y ← al_sweep k s2 qs';
      Some (fst (fst y), out ++ snd (fst y), (k, v, rd_enc s2 v) :: snd y)
  end.

Fixpoint al_observe_aux (U : universe) (k : N) (s : astate) (ops : list op) : option (astate * list bytes * list held) :=
  match ops with
  | [] => Some (s, [], [])
  | o :: ops' =>
      x ← al_step_std s o;
      let s1 := fst (fst x) in let v := snd (fst x) in
      let out := rd_enc s1 v in
      let s2 := scribble s1 v in
      b ← al_sweep k s2 (sweep_ops U);
      y ← al_observe_aux U (N.succ k) (fst (fst b)) ops';
      Some (fst (fst y), out ++ snd (fst b) ++ snd (fst y), ((k, v, rd_enc s2 v) :: snd b) ++ snd y)
  end.

Definition al_observe_max : nat := 120.
Definition al_observe (me : name) (U : universe) (ops : list op) : list bytes :=
  match al_observe_aux U 0%N (al_new me) ops with
  | None => [t_panic]
  | Some (s, out, hs) =>
      let oks := map (fun h : held => (fst (fst h), bool_decide (rd_enc s (snd (fst h)) = snd h))) hs in
      out ++ map (fun k => if forallb (fun p : N * bool => if N.eqb (fst p) (N.of_nat k) then snd p else true) oks
                           then t_true else t_false)
                 (seq 0 (length ops))
  end.
