(* Model/TrackerImpl.v — C12: the object graph of state/tracker.go, nick.go, channel.go over an
   explicit heap.  Transliteration, statement by statement; executable definitions only.

   Go pointers are addresses ([positive], from one allocation counter):
     *nick      -> [h_nick]   objects {nick ident host name; modes; lookup; chans}
     *channel   -> [h_chan]   objects {name topic; modes; lookup; nicks}
     *ChanPrivs -> [h_priv]   the SHARED privilege object of one membership, reachable from
                              nick.chans and from channel.nicks
   (the *NickMode / *ChanMode objects are owned by exactly one nick / channel and never
   aliased inside the package: they are stored inline.)
   A computation is in the [option] monad: [None] = the Go code would panic (nil pointer
   dereference); results that are Go nil are an inner [option].
   Go's [range] over a map has an unspecified order: every loop runs over the list given by an
   enumeration function ([enumA] for maps keyed by pointers, [enumN] for maps keyed by
   strings), a Section variable; entries deleted before they are reached are skipped, as in
   Go.  Proofs/TrackerRefine.v assumes only that the enumeration is a permutation of the map's
   entries. *)
From Verif Require Export TrackerSpec.
Open Scope Z_scope.

Notation addr := positive (only parsing).

Record nickobj := { no_nick : bytes; no_ident : bytes; no_host : bytes; no_name : bytes;
                    no_modes : nickmode;
                    no_lookup : gmap name addr;       (* map[string]*channel *)
                    no_chans : gmap addr addr }.      (* map[*channel]*ChanPrivs *)
Record chanobj := { co_name : bytes; co_topic : bytes;
                    co_modes : chanmode;
                    co_lookup : gmap name addr;       (* map[string]*nick *)
                    co_nicks : gmap addr addr }.      (* map[*nick]*ChanPrivs *)

Record istate := {
  st_nicks : gmap name addr;      (* st.nicks map[string]*nick *)
  st_chans : gmap name addr;      (* st.chans map[string]*channel *)
  st_me : addr;                   (* st.me *)
  h_nick : gmap addr nickobj;
  h_chan : gmap addr chanobj;
  h_priv : gmap addr privs;
  h_next : addr                   (* allocation counter: every address in use is below it *)
}.

(* ---------- field updates ---------- *)
Definition set_st_nicks (s : istate) m := Build_istate m (st_chans s) (st_me s) (h_nick s) (h_chan s) (h_priv s) (h_next s).
Definition set_st_chans (s : istate) m := Build_istate (st_nicks s) m (st_me s) (h_nick s) (h_chan s) (h_priv s) (h_next s).
Definition set_h_nick (s : istate) h := Build_istate (st_nicks s) (st_chans s) (st_me s) h (h_chan s) (h_priv s) (h_next s).
Definition set_h_chan (s : istate) h := Build_istate (st_nicks s) (st_chans s) (st_me s) (h_nick s) h (h_priv s) (h_next s).
Definition set_h_priv (s : istate) h := Build_istate (st_nicks s) (st_chans s) (st_me s) (h_nick s) (h_chan s) h (h_next s).
Definition bump (s : istate) := Build_istate (st_nicks s) (st_chans s) (st_me s) (h_nick s) (h_chan s) (h_priv s) (Pos.succ (h_next s)).
Definition put_nick (s : istate) (a : addr) (o : nickobj) := set_h_nick s (<[a := o]> (h_nick s)).
Definition put_chan (s : istate) (a : addr) (o : chanobj) := set_h_chan s (<[a := o]> (h_chan s)).
Definition put_priv (s : istate) (a : addr) (p : privs) := set_h_priv s (<[a := p]> (h_priv s)).

Definition no_set_maps (o : nickobj) lk ch := Build_nickobj (no_nick o) (no_ident o) (no_host o) (no_name o) (no_modes o) lk ch.
Definition co_set_maps (o : chanobj) lk nk := Build_chanobj (co_name o) (co_topic o) (co_modes o) lk nk.
Definition co_set_lookup (o : chanobj) lk := co_set_maps o lk (co_nicks o).

Fixpoint foldM {A S} (f : S -> A -> option S) (s : S) (l : list A) : option S :=
  match l with
  | [] => Some s
  | x :: l' => match f s x with Some s' => foldM f s' l' | None => None end
  end.

(* newNick / newChannel / NewTracker *)
Definition new_nickobj (n : bytes) : nickobj := Build_nickobj n [] [] [] no_nickmode ∅ ∅.
Definition new_chanobj (c : bytes) : chanobj := Build_chanobj c [] no_chanmode ∅ ∅.
Definition im_new (me : bytes) : istate :=
  {| st_nicks := {[ me := 1%positive ]}; st_chans := ∅; st_me := 1%positive;
     h_nick := {[ 1%positive := new_nickobj me ]}; h_chan := ∅; h_priv := ∅; h_next := 2%positive |}.

Section WithEnum.
(* the order in which [range] visits a map *)
Variable enumA : gmap addr addr -> list (addr * addr).
Variable enumN : gmap name addr -> list (name * addr).

(* ---------- nick.go / channel.go helpers ---------- *)
(* func (nk *nick) addChannel(ch *channel, cp *ChanPrivs) *)
Definition nk_addChannel (s : istate) (nk ch cp : addr) : option istate :=
  o ← h_nick s !! nk; c ← h_chan s !! ch;
  match no_chans o !! ch with
  | None => Some (put_nick s nk (no_set_maps o (<[co_name c := ch]> (no_lookup o)) (<[ch := cp]> (no_chans o))))
  | Some _ => Some s
  end.
(* func (nk *nick) delChannel(ch *channel) *)
Definition nk_delChannel (s : istate) (nk ch : addr) : option istate :=
  o ← h_nick s !! nk; c ← h_chan s !! ch;
  match no_chans o !! ch with
  | Some _ => Some (put_nick s nk (no_set_maps o (delete (co_name c) (no_lookup o)) (delete ch (no_chans o))))
  | None => Some s
  end.
(* func (ch *channel) addNick(nk *nick, cp *ChanPrivs) *)
Definition ch_addNick (s : istate) (ch nk cp : addr) : option istate :=
  c ← h_chan s !! ch; o ← h_nick s !! nk;
  match co_nicks c !! nk with
  | None => Some (put_chan s ch (co_set_maps c (<[no_nick o := nk]> (co_lookup c)) (<[nk := cp]> (co_nicks c))))
  | Some _ => Some s
  end.
(* func (ch *channel) delNick(nk *nick) *)
Definition ch_delNick (s : istate) (ch nk : addr) : option istate :=
  c ← h_chan s !! ch; o ← h_nick s !! nk;
  match co_nicks c !! nk with
  | Some _ => Some (put_chan s ch (co_set_maps c (delete (no_nick o) (co_lookup c)) (delete nk (co_nicks c))))
  | None => Some s
  end.

(* func (nk *nick) Nick() *Nick — the Channels map, then canonicalised *)
Definition nick_chan_map (s : istate) (o : nickobj) : option (gmap name privs) :=
  foldM (fun acc (e : addr * addr) =>
           c ← h_chan s !! fst e; p ← h_priv s !! snd e; Some (<[co_name c := p]> acc))
        ∅ (enumA (no_chans o)).
Definition im_nick_snap (s : istate) (nk : addr) : option nick_snap :=
  o ← h_nick s !! nk; m ← nick_chan_map s o;
  Some {| sn_nick := no_nick o; sn_ident := no_ident o; sn_host := no_host o; sn_name := no_name o;
          sn_modes := no_modes o; sn_chans := sorted_of_map m |}.
(* func (ch *channel) Channel() *Channel *)
Definition chan_nick_map (s : istate) (c : chanobj) : option (gmap name privs) :=
  foldM (fun acc (e : addr * addr) =>
           o ← h_nick s !! fst e; p ← h_priv s !! snd e; Some (<[no_nick o := p]> acc))
        ∅ (enumA (co_nicks c)).
Definition im_chan_snap (s : istate) (ch : addr) : option chan_snap :=
  c ← h_chan s !! ch; m ← chan_nick_map s c;
  Some {| sc_name := co_name c; sc_topic := co_topic c; sc_modes := co_modes c;
          sc_nicks := sorted_of_map m |}.

(* ---------- tracker.go ---------- *)
(* func (st *stateTracker) delNick(nk *nick) *)
Definition st_delNick (s : istate) (nk : addr) : option istate :=
  if decide (nk = st_me s) then Some s
  else
    o ← h_nick s !! nk;
    let s1 := set_st_nicks s (delete (no_nick o) (st_nicks s)) in
    foldM (fun s (e : addr * addr) =>
             let ch := fst e in
             o' ← h_nick s !! nk;
             match no_chans o' !! ch with
             | None => Some s                               (* removed before it was reached *)
             | Some _ => s2 ← nk_delChannel s nk ch; ch_delNick s2 ch nk
             end)
          s1 (enumA (no_chans o)).

(* func (st *stateTracker) delChannel(ch *channel) *)
Definition st_delChannel (s : istate) (ch : addr) : option istate :=
  c ← h_chan s !! ch;
  let s1 := set_st_chans s (delete (co_name c) (st_chans s)) in
  foldM (fun s (e : addr * addr) =>
           let nk := fst e in
           c' ← h_chan s !! ch;
           match co_nicks c' !! nk with
           | None => Some s
           | Some _ =>
               s2 ← ch_delNick s ch nk; s3 ← nk_delChannel s2 nk ch;
               o ← h_nick s3 !! nk;
               if decide (no_chans o = ∅) then
                 if decide (nk = st_me s3) then Some s3 else st_delNick s3 nk
               else Some s3
           end)
        s1 (enumA (co_nicks c)).

(* func (st *stateTracker) Wipe() *)
Definition im_Wipe (s : istate) : option istate :=
  foldM (fun s (e : name * addr) =>
           match st_chans s !! fst e with
           | Some ch => st_delChannel s ch
           | None => Some s
           end)
        s (enumN (st_chans s)).

Definition im_NewNick (s : istate) (n : bytes) : option (istate * option nick_snap) :=
  match n with
  | [] => Some (s, None)
  | _ => match st_nicks s !! n with
         | Some _ => Some (s, None)
         | None => let a := h_next s in
                   let s' := set_st_nicks (put_nick (bump s) a (new_nickobj n)) (<[n := a]> (st_nicks s)) in
                   r ← im_nick_snap s' a; Some (s', Some r)
         end
  end.

Definition im_GetNick (s : istate) (n : bytes) : option (istate * option nick_snap) :=
  match st_nicks s !! n with
  | Some nk => r ← im_nick_snap s nk; Some (s, Some r)
  | None => Some (s, None)
  end.

Definition im_ReNick (s : istate) (old neu : bytes) : option (istate * option nick_snap) :=
  match st_nicks s !! old with
  | None => Some (s, None)
  | Some nk =>
      match st_nicks s !! neu with
      | Some _ => Some (s, None)
      | None =>
          o ← h_nick s !! nk;
          let o1 := Build_nickobj neu (no_ident o) (no_host o) (no_name o) (no_modes o) (no_lookup o) (no_chans o) in
          let s1 := set_st_nicks (put_nick s nk o1) (<[neu := nk]> (delete old (st_nicks s))) in
          s2 ← foldM (fun s (e : addr * addr) =>
                        c ← h_chan s !! fst e;
                        Some (put_chan s (fst e) (co_set_lookup c (<[neu := nk]> (delete old (co_lookup c))))))
                     s1 (enumA (no_chans o1));
          r ← im_nick_snap s2 nk; Some (s2, Some r)
      end
  end.

Definition im_DelNick (s : istate) (n : bytes) : option (istate * option nick_snap) :=
  match st_nicks s !! n with
  | Some nk =>
      if decide (nk = st_me s) then Some (s, None)
      else s' ← st_delNick s nk; r ← im_nick_snap s' nk; Some (s', Some r)
  | None => Some (s, None)
  end.

Definition im_NickInfo (s : istate) (n ident host rname : bytes) : option (istate * option nick_snap) :=
  match st_nicks s !! n with
  | None => Some (s, None)
  | Some nk =>
      o ← h_nick s !! nk;
      let s' := put_nick s nk (Build_nickobj (no_nick o) ident host rname (no_modes o) (no_lookup o) (no_chans o)) in
      r ← im_nick_snap s' nk; Some (s', Some r)
  end.

Definition im_NickModes (s : istate) (n modes : bytes) : option (istate * option nick_snap) :=
  match st_nicks s !! n with
  | None => Some (s, None)
  | Some nk =>
      o ← h_nick s !! nk;
      let s' := put_nick s nk (Build_nickobj (no_nick o) (no_ident o) (no_host o) (no_name o)
                                             (nick_parse_modes modes false (no_modes o)) (no_lookup o) (no_chans o)) in
      r ← im_nick_snap s' nk; Some (s', Some r)
  end.

Definition im_NewChannel (s : istate) (c : bytes) : option (istate * option chan_snap) :=
  match c with
  | [] => Some (s, None)
  | _ => match st_chans s !! c with
         | Some _ => Some (s, None)
         | None => let a := h_next s in
                   let s' := set_st_chans (put_chan (bump s) a (new_chanobj c)) (<[c := a]> (st_chans s)) in
                   r ← im_chan_snap s' a; Some (s', Some r)
         end
  end.

Definition im_GetChannel (s : istate) (c : bytes) : option (istate * option chan_snap) :=
  match st_chans s !! c with
  | Some ch => r ← im_chan_snap s ch; Some (s, Some r)
  | None => Some (s, None)
  end.

Definition im_DelChannel (s : istate) (c : bytes) : option (istate * option chan_snap) :=
  match st_chans s !! c with
  | Some ch => s' ← st_delChannel s ch; r ← im_chan_snap s' ch; Some (s', Some r)
  | None => Some (s, None)
  end.

Definition im_Topic (s : istate) (c topic : bytes) : option (istate * option chan_snap) :=
  match st_chans s !! c with
  | None => Some (s, None)
  | Some ch =>
      o ← h_chan s !! ch;
      let s' := put_chan s ch (Build_chanobj (co_name o) topic (co_modes o) (co_lookup o) (co_nicks o)) in
      r ← im_chan_snap s' ch; Some (s', Some r)
  end.

(* func (ch *channel) parseModes(modes string, modeargs ...string) *)
Definition co_set_modes (o : chanobj) (cm : chanmode) := Build_chanobj (co_name o) (co_topic o) cm (co_lookup o) (co_nicks o).
(* one byte of the mode string; the state is (tracker, modeop, remaining modeargs) *)
Definition ch_parse_char (ch : addr) (st : istate * bool * list bytes) (m : N) : option (istate * bool * list bytes) :=
  let s := fst (fst st) in let op := snd (fst st) in let args := snd st in
  if decide (m = 43%N) then Some (s, true, args)
  else if decide (m = 45%N) then Some (s, false, args)
  else if decide (m = 107%N) then
    o ← h_chan s !! ch;
    match op, args with
    | true, a :: args' => Some (put_chan s ch (co_set_modes o (set_key a (co_modes o))), op, args')
    | true, [] => Some st
    | false, _ => Some (put_chan s ch (co_set_modes o (set_key [] (co_modes o))), op, args)
    end
  else if decide (m = 108%N) then
    o ← h_chan s !! ch;
    match op, args with
    | true, a :: args' => Some (put_chan s ch (co_set_modes o (set_limit (atoi a) (co_modes o))), op, args')
    | true, [] => Some st
    | false, _ => Some (put_chan s ch (co_set_modes o (set_limit 0 (co_modes o))), op, args)
    end
  else if is_list_mode_char m then                 (* case 'b', 'e', 'I': skip the mask *)
    match args with
    | _ :: args' => Some (s, op, args')
    | [] => Some st
    end
  else if is_priv_char m then
    o ← h_chan s !! ch;
    match args with
    | a :: args' =>
        match co_lookup o !! a with
        | Some nk =>
            cp ← co_nicks o !! nk;                 (* cp := ch.nicks[nk]; nil would panic below *)
            p ← h_priv s !! cp;
            match priv_char m op p with
            | Some p' => Some (put_priv s cp p', op, args')
            | None => Some st
            end
        | None => Some st
        end
    | [] => Some st
    end
  else
    o ← h_chan s !! ch;
    match chan_flag_char m op (co_modes o) with
    | Some cm' => Some (put_chan s ch (co_set_modes o cm'), op, args)
    | None => Some st
    end.
Definition ch_parseModes (s : istate) (ch : addr) (modes : bytes) (op : bool) (args : list bytes) : option istate :=
  st ← foldM (ch_parse_char ch) (s, op, args) modes; Some (fst (fst st)).

Definition im_ChannelModes (s : istate) (c modes : bytes) (args : list bytes) : option (istate * option chan_snap) :=
  match st_chans s !! c with
  | None => Some (s, None)
  | Some ch => s' ← ch_parseModes s ch modes false args; r ← im_chan_snap s' ch; Some (s', Some r)
  end.

Definition im_Me (s : istate) : option (istate * option nick_snap) :=
  r ← im_nick_snap s (st_me s); Some (s, Some r).

(* func (nk *nick) isOn(ch *channel) returns (privs copy, ok); cp.Copy() of a nil cp is nil *)
Definition nk_isOn (s : istate) (nk ch : addr) : option (option privs * bool) :=
  o ← h_nick s !! nk;
  match no_chans o !! ch with
  | Some cp => p ← h_priv s !! cp; Some (Some p, true)
  | None => Some (None, false)
  end.

Definition im_IsOn (s : istate) (c n : bytes) : option (istate * (option privs * bool)) :=
  match st_nicks s !! n, st_chans s !! c with
  | Some nk, Some ch => r ← nk_isOn s nk ch; Some (s, r)
  | _, _ => Some (s, (None, false))
  end.

Definition im_Associate (s : istate) (c n : bytes) : option (istate * option privs) :=
  match st_chans s !! c with
  | None => Some (s, None)
  | Some ch =>
      match st_nicks s !! n with
      | None => Some (s, None)
      | Some nk =>
          r ← nk_isOn s nk ch;
          if (snd (r : option privs * bool)) then Some (s, None)
          else let cp := h_next s in
               let s1 := put_priv (bump s) cp no_privs in
               s2 ← ch_addNick s1 ch nk cp; s3 ← nk_addChannel s2 nk ch cp;
               p ← h_priv s3 !! cp; Some (s3, Some p)
      end
  end.

Definition im_Dissociate (s : istate) (c n : bytes) : option istate :=
  match st_chans s !! c with
  | None => Some s
  | Some ch =>
      match st_nicks s !! n with
      | None => Some s
      | Some nk =>
          r ← nk_isOn s nk ch;
          if negb (snd (r : option privs * bool)) then Some s
          else if decide (nk = st_me s) then st_delChannel s ch
          else s1 ← ch_delNick s ch nk; s2 ← nk_delChannel s1 nk ch;
               o ← h_nick s2 !! nk;
               if decide (no_chans o = ∅) then st_delNick s2 nk else Some s2
      end
  end.

Definition im_step (s : istate) (o : op) : option (istate * result) :=
  match o with
  | ONewNick n => x ← im_NewNick s n; Some (fst x, RNick (snd x))
  | OGetNick n => x ← im_GetNick s n; Some (fst x, RNick (snd x))
  | OReNick a b => x ← im_ReNick s a b; Some (fst x, RNick (snd x))
  | ODelNick n => x ← im_DelNick s n; Some (fst x, RNick (snd x))
  | ONickInfo n i h r0 => x ← im_NickInfo s n i h r0; Some (fst x, RNick (snd x))
  | ONickModes n m => x ← im_NickModes s n m; Some (fst x, RNick (snd x))
  | ONewChannel c => x ← im_NewChannel s c; Some (fst x, RChan (snd x))
  | OGetChannel c => x ← im_GetChannel s c; Some (fst x, RChan (snd x))
  | ODelChannel c => x ← im_DelChannel s c; Some (fst x, RChan (snd x))
  | OTopic c t => x ← im_Topic s c t; Some (fst x, RChan (snd x))
  | OChannelModes c m a => x ← im_ChannelModes s c m a; Some (fst x, RChan (snd x))
  | OMe => x ← im_Me s; Some (fst x, RNick (snd x))
  | OIsOn c n => x ← im_IsOn s c n; Some (fst x, RIsOn (fst (snd x)) (snd (snd x)))
  | OAssociate c n => x ← im_Associate s c n; Some (fst x, RPrivs (snd x))
  | ODissociate c n => s' ← im_Dissociate s c n; Some (s', RUnit)
  | OWipe => s' ← im_Wipe s; Some (s', RUnit)
  end.

Fixpoint im_run (s : istate) (ops : list op) : option (istate * list result) :=
  match ops with
  | [] => Some (s, [])
  | o :: ops' => x ← im_step s o; y ← im_run (fst x) ops'; Some (fst y, snd x :: snd y)
  end.

End WithEnum.

(* two concrete enumeration orders for running the model *)
Definition enumA_std (m : gmap addr addr) : list (addr * addr) := map_to_list m.
Definition enumN_std (m : gmap name addr) : list (name * addr) := map_to_list m.
Definition enumA_rev (m : gmap addr addr) : list (addr * addr) := reverse (map_to_list m).
Definition enumN_rev (m : gmap name addr) : list (name * addr) := reverse (map_to_list m).
