(* Model/LinCheck.v — C14, part B: a linearizability checker for timed histories (Wing & Gong's
   search), generic in the sequential object.  A history is a list of completed calls, each
   with its operation, the (rendered) result it returned and its invoke / return stamps from
   ONE global counter.  [lin_search] looks for an order of the calls that
     - respects real time: a call that returned before another was invoked comes first, and
     - replayed one call at a time through [step] yields exactly the results returned.
   Depth-first: among the calls not yet placed, every MINIMAL one (no other unplaced call
   returned before it was invoked) whose replayed result matches is tried in turn.
   [budget] bounds the number of nodes visited; running out is reported as [None]. *)
From Coq Require Import List ZArith Bool.
Import ListNotations.
Open Scope Z_scope.

Section LinCheck.
  Variables (St Op Obs : Type).
  Variable step : St -> Op -> St * Obs.
  Variable obs_eqb : Obs -> Obs -> bool.

  Record hcall := { h_op : Op; h_obs : Obs; h_inv : Z; h_ret : Z }.

  Definition minimal (c : hcall) (calls : list hcall) : bool :=
    forallb (fun d => negb (h_ret d <? h_inv c)) calls.

  Fixpoint lin_search (n : nat) (s : St) (calls : list hcall) (budget : N) : option bool * N :=
    match calls with
    | [] => (Some true, budget)
    | _ :: _ =>
        match n with
        | O => (None, budget)
        | S n' =>
            (fix each (pre post : list hcall) (budget : N) {struct post} : option bool * N :=
               match post with
               | [] => (Some false, budget)
               | c :: post' =>
                   let sr := step s (h_op c) in
                   if minimal c calls && obs_eqb (snd sr) (h_obs c) then
                     if (budget =? 0)%N then (None, 0%N)
                     else match lin_search n' (fst sr) (rev_append pre post') (budget - 1)%N with
                          | (Some true, b) => (Some true, b)
                          | (None, b) => (None, b)
                          | (Some false, b) => each (c :: pre) post' b
                          end
                   else each (c :: pre) post' budget
               end) [] calls budget
        end
    end.

  (* Some true: linearizable; Some false: NOT linearizable (search exhausted); None: budget ran out *)
  Definition linearizable_opt (s : St) (calls : list hcall) (budget : N) : option bool :=
    fst (lin_search (length calls) s calls budget).
  Definition linearizable (s : St) (calls : list hcall) (budget : N) : bool :=
    match linearizable_opt s calls budget with Some true => true | _ => false end.

  (* the witness the search looks for *)
  Fixpoint replay_ok (s : St) (order : list hcall) : Prop :=
    match order with
    | [] => True
    | c :: l => obs_eqb (snd (step s (h_op c))) (h_obs c) = true /\ replay_ok (fst (step s (h_op c))) l
    end.
  Fixpoint rt_ok (order : list hcall) : Prop :=
    match order with
    | [] => True
    | c :: l => (forall d, In d l -> ~ (h_ret d < h_inv c)) /\ rt_ok l
    end.
  Definition lin_witness (s : St) (order : list hcall) : Prop := replay_ok s order /\ rt_ok order.

  (* checking a GIVEN order (the boolean form of [lin_witness]) *)
  Fixpoint linearizable_by (s : St) (order : list hcall) : bool :=
    match order with
    | [] => true
    | c :: l => obs_eqb (snd (step s (h_op c))) (h_obs c)
                && forallb (fun d => negb (h_ret d <? h_inv c)) l
                && linearizable_by (fst (step s (h_op c))) l
    end.
End LinCheck.

Arguments h_op {Op Obs}. Arguments h_obs {Op Obs}. Arguments h_inv {Op Obs}. Arguments h_ret {Op Obs}.
