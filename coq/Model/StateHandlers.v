(* Model/StateHandlers.v — C13: client/state_handlers.go, the 13 handlers that translate
   protocol lines into calls of the state tracker, transliterated statement by statement over
   the plain tracker model (Model/TrackerSpec.v, validated against package state by ./check C12).

   PANICS.  Every handler runs under [defer conn.cfg.Recover] (dispatch.go: hNode.Handle), so a
   panic half-way ends THAT handler and keeps every effect performed before it.  A handler is
   therefore a function [hst -> hres] built from steps in continuation style: [HOk s] = ran
   to its end, [HPanic s] = panicked with the effects so far in [s].  Every [line.Args[i]],
   [a[1]], [nick[0]], [nick[1:]], [line.Args[2:]] of the source is the partial operation of
   Lib/GoBytes.v, evaluated where the source evaluates it (a repeated [line.Args[0]] is a
   repeated index operation); the [argslen] guards are transliterated separately.

   [conn.Me().Equals(nk)] is reflect.DeepEqual of two *state.Nick snapshots: equality of
   [nick_snap] values, false when [nk] is nil (Me() is never nil).
   Emitted lines ([conn.Mode], [conn.Who]) are produced by Model/Commands.v's [emit].

   std++ side (gmap): GoBytes / Line / Commands are Required, not Imported (notation clash).
   Executable definitions only. *)
From Verif Require Export TrackerSpec.
From Verif Require GoBytes LineLib Line Commands.
Open Scope Z_scope.

Notation line := Line.line (only parsing).

(* ---------- decidable equality of snapshots (reflect.DeepEqual) ---------- *)
Global Instance nickmode_eq_dec : EqDecision nickmode.
Proof. solve_decision. Defined.
Global Instance chanmode_eq_dec : EqDecision chanmode.
Proof. solve_decision. Defined.
Global Instance privs_eq_dec : EqDecision privs.
Proof. solve_decision. Defined.
Global Instance nickattr_eq_dec : EqDecision nickattr.
Proof. solve_decision. Defined.
Global Instance chanattr_eq_dec : EqDecision chanattr.
Proof. solve_decision. Defined.
Global Instance nick_snap_eq_dec : EqDecision nick_snap.
Proof. solve_decision. Defined.
Global Instance tstate_eq_dec : EqDecision tstate.
Proof. solve_decision. Defined.

(* conn.Me().Equals(nk) *)
Definition me_equals (t : tstate) (nk : option nick_snap) : bool :=
  match snd (sp_Me t), nk with
  | Some a, Some b => bool_decide (a = b)
  | _, _ => false
  end.

(* ---------- handler state and results ---------- *)
Record hst := { h_trk : tstate; h_out : list bytes }.   (* tracker, lines handed to conn.out *)
Inductive hres := HOk (s : hst) | HPanic (s : hst).
Definition hres_st (r : hres) : hst := match r with HOk s => s | HPanic s => s end.
Definition hres_panicked (r : hres) : bool := match r with HOk _ => false | HPanic _ => true end.

(* one tracker call; the result value is returned beside the new state *)
Definition tr {A} (s : hst) (f : tstate -> tstate * A) : hst * A :=
  let r := f (h_trk s) in ({| h_trk := fst r; h_out := h_out s |}, snd r).
Definition tr_ {A} (s : hst) (f : tstate -> tstate * A) : hst := fst (tr s f).
Definition tru (s : hst) (f : tstate -> tstate) : hst := {| h_trk := f (h_trk s); h_out := h_out s |}.
Definition send (s : hst) (ls : list bytes) : hst := {| h_trk := h_trk s; h_out := h_out s ++ ls |}.

(* partial reads: a panic keeps [s] *)
Definition pget {A} (r : GoBytes.res A) (s : hst) (k : A -> hres) : hres :=
  match r with GoBytes.Ok a => k a | GoBytes.Panic => HPanic s end.
(* line.Args[i] *)
Definition arg (l : line) (i : Z) (s : hst) (k : bytes -> hres) : hres :=
  pget (GoBytes.elem_at (Line.l_args l) i) s k.
(* line.argslen(n): len(line.Args) > n *)
Definition argslen (l : line) (n : Z) : bool := negb (LineLib.llen (Line.l_args l) <=? n).
(* line.Args[len(line.Args)-1] *)
Definition last_arg (l : line) (s : hst) (k : bytes -> hres) : hres :=
  arg l (LineLib.llen (Line.l_args l) - 1) s k.

(* conn.Mode(t) / conn.Who(t): the line handed to the output queue *)
Definition cmd_cfg0 : Commands.cmd_cfg := Commands.Build_cmd_cfg 0 [].
Definition cmd_lines (m : Commands.method) (t : bytes) : list bytes :=
  match Commands.emit (fun x => x) m cmd_cfg0 [t] with GoBytes.Ok ls => ls | GoBytes.Panic => [] end.
Definition mode_lines (t : bytes) : list bytes := cmd_lines Commands.MMode t.
Definition who_lines (t : bytes) : list bytes := cmd_lines Commands.MWho t.

Definition is_some {A} (o : option A) : bool := match o with Some _ => true | None => false end.

(* ---------- func (conn *Conn) h_STNICK ---------- *)
Definition h_STNICK (l : line) (s : hst) : hres :=
  arg l 0 s (fun a0 => HOk (tr_ s (fun t => sp_ReNick t (Line.l_nick l) a0))).

(* ---------- func (conn *Conn) h_JOIN ---------- *)
(* the last statement: conn.st.Associate(line.Args[0], line.Nick) *)
Definition join_assoc (l : line) (s : hst) : hres :=
  arg l 0 s (fun a => HOk (tr_ s (fun t => sp_Associate t a (Line.l_nick l)))).
(* if nk == nil { NewNick; NickInfo; Who }, then the last statement *)
Definition join_nick (l : line) (nk : option nick_snap) (s : hst) : hres :=
  if is_some nk then join_assoc l s
  else let s := tr_ s (fun t => sp_NewNick t (Line.l_nick l)) in
       let s := tr_ s (fun t => sp_NickInfo t (Line.l_nick l) (Line.l_ident l) (Line.l_host l) []) in
       let s := send s (who_lines (Line.l_nick l)) in
       join_assoc l s.
Definition h_JOIN (l : line) (s0 : hst) : hres :=
  (* ch := conn.st.GetChannel(line.Args[0]) *)
  arg l 0 s0 (fun a0 =>
  let ch := snd (sp_GetChannel (h_trk s0) a0) in
  (* nk := conn.st.GetNick(line.Nick) *)
  let nk := snd (sp_GetNick (h_trk s0) (Line.l_nick l)) in
  (* if ch == nil { if !conn.Me().Equals(nk) { return }; NewChannel; Mode; Who } *)
  if is_some ch then join_nick l nk s0
  else if negb (me_equals (h_trk s0) nk) then HOk s0
  else arg l 0 s0 (fun a => let s := tr_ s0 (fun t => sp_NewChannel t a) in
       arg l 0 s (fun a => let s := send s (mode_lines a) in
       arg l 0 s (fun a => let s := send s (who_lines a) in
       join_nick l nk s)))).

(* ---------- func (conn *Conn) h_PART ---------- *)
Definition h_PART (l : line) (s : hst) : hres :=
  arg l 0 s (fun a0 => HOk (tru s (fun t => sp_Dissociate t a0 (Line.l_nick l)))).

(* ---------- func (conn *Conn) h_KICK ---------- *)
Definition h_KICK (l : line) (s : hst) : hres :=
  if negb (argslen l 1) then HOk s
  else arg l 0 s (fun a0 => arg l 1 s (fun a1 => HOk (tru s (fun t => sp_Dissociate t a0 a1)))).

(* ---------- func (conn *Conn) h_QUIT ---------- *)
Definition h_QUIT (l : line) (s : hst) : hres :=
  HOk (tr_ s (fun t => sp_DelNick t (Line.l_nick l))).

(* ---------- func (conn *Conn) h_MODE ---------- *)
Definition h_MODE (l : line) (s : hst) : hres :=
  if negb (argslen l 1) then HOk s
  else
    arg l 0 s (fun a0 =>
    if is_some (snd (sp_GetChannel (h_trk s) a0)) then
      (* conn.st.ChannelModes(line.Args[0], line.Args[1], line.Args[2:]...) *)
      arg l 0 s (fun a => arg l 1 s (fun a1 =>
      pget (GoBytes.elems_from (Line.l_args l) 2) s (fun rest =>
      HOk (tr_ s (fun t => sp_ChannelModes t a a1 rest)))))
    else
      arg l 0 s (fun a0' =>
      let nk := snd (sp_GetNick (h_trk s) a0') in
      if is_some nk then
        if negb (me_equals (h_trk s) nk) then HOk s
        else arg l 0 s (fun a => arg l 1 s (fun a1 => HOk (tr_ s (fun t => sp_NickModes t a a1))))
      else HOk s)).

(* ---------- func (conn *Conn) h_TOPIC ---------- *)
Definition h_TOPIC (l : line) (s : hst) : hres :=
  if negb (argslen l 1) then HOk s
  else
    arg l 0 s (fun a0 =>
    if is_some (snd (sp_GetChannel (h_trk s) a0))
    then arg l 0 s (fun a => arg l 1 s (fun a1 => HOk (tr_ s (fun t => sp_Topic t a a1))))
    else HOk s).

(* ---------- func (conn *Conn) h_311 ---------- *)
Definition h_311 (l : line) (s : hst) : hres :=
  if negb (argslen l 5) then HOk s
  else
    arg l 1 s (fun a1 =>
    let nk := snd (sp_GetNick (h_trk s) a1) in
    if is_some nk && negb (me_equals (h_trk s) nk)
    then arg l 1 s (fun b1 => arg l 2 s (fun b2 => arg l 3 s (fun b3 => arg l 5 s (fun b5 =>
         HOk (tr_ s (fun t => sp_NickInfo t b1 b2 b3 b5))))))
    else HOk s).

(* ---------- func (conn *Conn) h_324 ---------- *)
Definition h_324 (l : line) (s : hst) : hres :=
  if negb (argslen l 2) then HOk s
  else
    arg l 1 s (fun a1 =>
    if is_some (snd (sp_GetChannel (h_trk s) a1))
    then arg l 1 s (fun b1 => arg l 2 s (fun b2 =>
         pget (GoBytes.elems_from (Line.l_args l) 3) s (fun rest =>
         HOk (tr_ s (fun t => sp_ChannelModes t b1 b2 rest)))))
    else HOk s).

(* ---------- func (conn *Conn) h_332 ---------- *)
Definition h_332 (l : line) (s : hst) : hres :=
  if negb (argslen l 2) then HOk s
  else
    arg l 1 s (fun a1 =>
    if is_some (snd (sp_GetChannel (h_trk s) a1))
    then arg l 1 s (fun b1 => arg l 2 s (fun b2 => HOk (tr_ s (fun t => sp_Topic t b1 b2))))
    else HOk s).

(* ---------- func (conn *Conn) h_352 ---------- *)
Definition s_star : bytes := [42]%N.
Definition s_B : bytes := [66]%N.
Definition s_H : bytes := [72]%N.
Definition m_plus_o : bytes := [43; 111]%N.
Definition m_plus_B : bytes := [43; 66]%N.
Definition m_plus_i : bytes := [43; 105]%N.
Definition m_plus_z : bytes := [43; 122]%N.

(* if idx := strings.Index(line.Args[6], x); idx != -1 { conn.st.NickModes(nk.Nick, m) } *)
Definition who_flag (l : line) (n : bytes) (x m : bytes) (s : hst) (k : hst -> hres) : hres :=
  arg l 6 s (fun a6 =>
  if negb (GoBytes.index a6 x =? -1) then k (tr_ s (fun t => sp_NickModes t n m)) else k s).

Definition h_352 (l : line) (s : hst) : hres :=
  if negb (argslen l 5) then HOk s
  else
    arg l 5 s (fun a5 =>
    match snd (sp_GetNick (h_trk s) a5) with
    | None => HOk s
    | Some nk =>
        if me_equals (h_trk s) (Some nk) then HOk s
        else
          (* a := strings.SplitN(line.Args[len(line.Args)-1], " ", 2) *)
          last_arg l s (fun la =>
          let a := GoBytes.split2 la Line.s_space in
          (* conn.st.NickInfo(nk.Nick, line.Args[2], line.Args[3], a[1]) *)
          arg l 2 s (fun a2 => arg l 3 s (fun a3 =>
          pget (GoBytes.elem_at a 1) s (fun real =>
          let s := tr_ s (fun t => sp_NickInfo t (sn_nick nk) a2 a3 real) in
          if negb (argslen l 6) then HOk s
          else who_flag l (sn_nick nk) s_star m_plus_o s (fun s =>
               who_flag l (sn_nick nk) s_B m_plus_B s (fun s =>
               who_flag l (sn_nick nk) s_H m_plus_i s HOk))))))
    end).

(* ---------- func (conn *Conn) h_353 ---------- *)
(* the prefix characters of the outer switch and the mode each stands for in the inner one *)
Definition prefix_mode (c : N) : option bytes :=
  match c with
  | 126%N => Some [43; 113]%N    (* '~' "+q" *)
  | 38%N  => Some [43; 97]%N     (* '&' "+a" *)
  | 64%N  => Some [43; 111]%N    (* '@' "+o" *)
  | 37%N  => Some [43; 104]%N    (* '%' "+h" *)
  | 43%N  => Some [43; 118]%N    (* '+' "+v" *)
  | _ => None
  end.

(* one iteration of [for _, nick := range nicks]; [cn] = ch.Name *)
Definition names_step (cn : bytes) (nick : bytes) (s : hst) : hres :=
  if GoBytes.beq nick [] then HOk s                                        (* continue *)
  else
    pget (GoBytes.byte_at nick 0) s (fun c =>
    let pm := prefix_mode c in
    (* case '~','&','@','%','+': nick = nick[1:]; fallthrough *)
    pget (if is_some pm then GoBytes.slice_from nick 1 else GoBytes.Ok nick) s (fun nick =>
    let s := if is_some (snd (sp_GetNick (h_trk s) nick)) then s
             else tr_ s (fun t => sp_NewNick t nick) in
    let s := if snd (snd (sp_IsOn (h_trk s) cn nick)) then s
             else tr_ s (fun t => sp_Associate t cn nick) in
    match pm with
    | Some m => HOk (tr_ s (fun t => sp_ChannelModes t cn m [nick]))
    | None => HOk s
    end)).

Fixpoint names_loop (cn : bytes) (nicks : list bytes) (s : hst) : hres :=
  match nicks with
  | [] => HOk s
  | nick :: rest => match names_step cn nick s with
                    | HOk s' => names_loop cn rest s'
                    | HPanic s' => HPanic s'
                    end
  end.

Definition h_353 (l : line) (s : hst) : hres :=
  if negb (argslen l 2) then HOk s
  else
    arg l 2 s (fun a2 =>
    match snd (sp_GetChannel (h_trk s) a2) with
    | Some ch =>
        (* nicks := strings.Split(line.Args[len(line.Args)-1], " ") *)
        last_arg l s (fun la => names_loop (sc_name ch) (GoBytes.split_byte la 32%N) s)
    | None => HOk s
    end).

(* ---------- func (conn *Conn) h_671 ---------- *)
Definition h_671 (l : line) (s : hst) : hres :=
  if negb (argslen l 1) then HOk s
  else
    arg l 1 s (fun a1 =>
    match snd (sp_GetNick (h_trk s) a1) with
    | Some nk => HOk (tr_ s (fun t => sp_NickModes t (sn_nick nk) m_plus_z))
    | None => HOk s
    end).

(* ---------- var stHandlers: event name (lower-cased by handlerSet.add) |-> handler ---------- *)
Inductive sth := StJOIN | StKICK | StMODE | StNICK | StPART | StQUIT | StTOPIC
               | St311 | St324 | St332 | St352 | St353 | St671.
Definition all_sth : list sth :=
  [StJOIN; StKICK; StMODE; StNICK; StPART; StQUIT; StTOPIC; St311; St324; St332; St352; St353; St671].
Definition sth_verb (h : sth) : bytes :=
  match h with
  | StJOIN => [74;79;73;78] | StKICK => [75;73;67;75] | StMODE => [77;79;68;69] | StNICK => [78;73;67;75]
  | StPART => [80;65;82;84] | StQUIT => [81;85;73;84] | StTOPIC => [84;79;80;73;67]
  | St311 => [51;49;49] | St324 => [51;50;52] | St332 => [51;51;50] | St352 => [51;53;50]
  | St353 => [51;53;51] | St671 => [54;55;49]
  end%N.
Definition sth_run (h : sth) : line -> hst -> hres :=
  match h with
  | StJOIN => h_JOIN | StKICK => h_KICK | StMODE => h_MODE | StNICK => h_STNICK
  | StPART => h_PART | StQUIT => h_QUIT | StTOPIC => h_TOPIC
  | St311 => h_311 | St324 => h_324 | St332 => h_332 | St352 => h_352 | St353 => h_353 | St671 => h_671
  end.

Section Dispatch.
  (* strings.ToLower (Unicode-aware in Go): every theorem holds for ANY function here *)
  Variable lower_fn : bytes -> bytes.

  (* hSet.dispatch: the handlers registered under ToLower(line.Cmd) *)
  Definition find_sth (cmd : bytes) : option sth :=
    find (fun h => GoBytes.beq (lower_fn (sth_verb h)) (lower_fn cmd)) all_sth.

  Definition handle_state_with (t : tstate) (l : line) : hres :=
    let s := {| h_trk := t; h_out := [] |} in
    match find_sth (Line.l_cmd l) with
    | Some h => sth_run h l s
    | None => HOk s
    end.
End Dispatch.

(* the executable ASCII instance *)
Definition handle_state : tstate -> line -> hres := handle_state_with GoBytes.to_lower.

(* the tracker after a line / a sequence of lines (panics contained: effects kept) *)
Definition step_line (t : tstate) (l : line) : tstate := h_trk (hres_st (handle_state t l)).
Definition run_lines (t : tstate) (ls : list line) : tstate := fold_left step_line ls t.
(* ... with the lines handed to the output queue *)
Definition run_lines_out (t : tstate) (ls : list line) : tstate * list bytes :=
  fold_left (fun acc l => let r := hres_st (handle_state (fst acc) l) in (h_trk r, snd acc ++ h_out r)) ls (t, []).

(* connection.go recv on raw wire lines: Trim + ParseLine; unparsable lines are dropped *)
Definition step_raw (t : tstate) (raw : bytes) : tstate :=
  match Line.recv_one raw with
  | GoBytes.Ok (Some l) => step_line t l
  | _ => t
  end.
Definition run_raw (t : tstate) (raws : list bytes) : tstate := fold_left step_raw raws t.

(* ---------- the second sentence of C13 as a boolean predicate (theorem statement AND oracle) ----------
   (1) the client's own entry is tracked; (2) every tracked channel has the client on it;
   (3) every tracked nick other than the client is on some tracked channel. *)
Definition on_some_chan (t : tstate) (n : name) : bool :=
  bool_decide (~ no_pair (ts_member t) n).
Definition rob_ok (t : tstate) : bool :=
  bool_decide (is_Some (ts_nicks t !! ts_me t))
  && bool_decide (map_Forall (fun c (_ : chanattr) => is_Some (ts_member t !! (c, ts_me t))) (ts_chans t))
  && bool_decide (map_Forall (fun n (_ : nickattr) => n = ts_me t \/ ~ no_pair (ts_member t) n) (ts_nicks t)).
