(* Model/DispatchLts.v — the event-delivery side of one connection, at goroutine granularity
   (client/connection.go recv, runLoop, closeIf; client/dispatch.go Conn.dispatch,
   hSet.dispatch, hNode.Handle, LogPanic; client/handlers.go h_001).  ONE model for
   C03 (one line at a time, wire order, CONNECTED / DISCONNECTED placement),
   C05 (tracker applied before user handlers look) and C16 (misbehaving handlers).

   Executable model and the boolean monitors only; all proofs are in Proofs/DispatchProofs*.v.

   Threads and the source statements behind their program points
     TRecv        recv:  s := rw.ReadString('\n') (rhold := line)  ->  conn.in <- line (blocking,
                  capacity 32).  Parsing and framing are C01's business: a line is its serial.
     TLoop        runLoop:  LIdle  = in the select;
                            `case line := <-conn.in` dequeues k and enters conn.dispatch(line):
                            LInt k = inside conn.intHandlers.dispatch (handlers spawned, in wg.Wait)
                            LFg k  = inside conn.fgHandlers.dispatch  (handlers spawned, in wg.Wait)
                            LDone  = `case <-ctx.Done()` taken: conn.wg.Done(); return
                  (TLoopQuit is the second select case; the schedule resolves the select).
     THandler g i / TPanic g i
                  one goroutine per handler of an hSet.dispatch: `hn.Handle(conn, line.Copy())`
                  = `defer conn.cfg.Recover(conn, line)` + the handler body, then `wg.Done()`:
                  HReady (spawned by `go func`) -Enter-> HRun -Exit-> HRet -wg.Done-> HDone
                                                     HRun -Panic-> HPanicked -Recovered-> HRet
                  (after recovery hNode.Handle returns normally, so wg.Done() is reached exactly
                  as after a normal return; whether a body returns or panics is chosen by the
                  schedule: THandler = it returns, TPanic = it panics).
                  h_001 (internal handler 0 of a welcome line) has `defer conn.dispatch(CONNECTED)`:
                  after its body (returned or panicked: deferred calls run either way, before the
                  outer deferred Recover) HNest p -> spawns the CONNECTED dispatch -> HNestW p
                  (in the nested wg.Wait of the foreground CONNECTED handlers) -> HRet / HPanicked.
     TBgDisp key  `go conn.bgHandlers.dispatch(conn, line)`: spawns the background handlers of
                  that event; nobody ever waits for it or for them.
     TCloser      closeIf as far as the placement of DISCONNECTED needs it:
                  CIdle -> (connected := false; sock.Close(); conn.die()) CWait: the drain loop;
                  TDrain = `case <-conn.in` of that loop (the line is discarded);
                  `case <-done` is enabled once conn.wg.Wait() returned, i.e. (for this model)
                  once runLoop has done wg.Done (LDone) -> conn.dispatch(DISCONNECTED): CDisp -> CDone.
   Reductions (sound because a goroutine that has been spawned but has not run yet cannot be
   told from one that is not spawned yet, and nothing else touches shared state in between):
   the handlers of one hSet.dispatch are spawned in one step; `go bgHandlers.dispatch` and the
   snapshot+spawn of fgHandlers.dispatch are one step; the end of intHandlers.dispatch (its
   wg.Wait returning: ghost event Applied k) is that same step.
   A background handler that blocks forever is simply never scheduled again. *)
From Coq Require Import List Arith Bool.
From Verif Require Import Lts.
Import ListNotations.

(* ---------- sessions ---------- *)
Record linfo := { n_int : nat; n_fg : nat; n_bg : nat; welcome : bool }.
Record session := { lines : list linfo;            (* line k = the k-th line the server sent *)
                    c_fg : nat; c_bg : nat;        (* handlers registered for CONNECTED *)
                    d_fg : nat; d_bg : nat;        (* ... for DISCONNECTED *)
                    can_close : bool }.            (* may the connection end (EOF / Close())? *)

Definition no_line : linfo := {| n_int := 0; n_fg := 0; n_bg := 0; welcome := false |}.
Definition line_of (sess : session) (k : nat) : linfo := nth k (lines sess) no_line.
(* the 001 line always has its internal handler h_001 (instance 0) *)
Definition eff_int (l : linfo) : nat := if welcome l then Nat.max 1 (n_int l) else n_int l.

(* ---------- events ---------- *)
Inductive kind := KInt | KFg | KBg | KConnFg | KConnBg | KDiscFg | KDiscBg.
(* [a] = the value of [applied] sampled at that moment: 1 + the serial of the last line whose
   internal phase has completed (0 if none) — what a handler sees when it asks the tracker *)
Inductive event :=
| EvApplied (k : nat)
| EvEnter (kd : kind) (k i a : nat)
| EvExit (kd : kind) (k i a : nat)
| EvPanic (kd : kind) (k i : nat)
| EvRecovered (kd : kind) (k i : nat).

(* ---------- program points ---------- *)
Inductive hpc := HReady | HRun | HNest (p : bool) | HNestW (p : bool) | HPanicked | HRet | HDone.
Inductive lpc_t := LIdle | LInt (k : nat) | LFg (k : nat) | LDone.
Inductive cpc_t := CIdle | CWait | CDisp | CDone.
Inductive bkey := BLine (k : nat) | BConn (k : nat) | BDisc.
Inductive gid := GInt | GFg | GConnFg | GDiscFg | GBg (key : bkey).
Inductive tid := TRecv | TLoop | TLoopQuit | TCloser | TDrain
               | TBgDisp (key : bkey) | THandler (g : gid) (i : nat) | TPanic (g : gid) (i : nat).

Definition cap_in : nat := 32.     (* make(chan *Line, 32) in initialise; tie_C03 *)

Record st := { rpos : nat; rhold : option nat; inq : list nat; lpc : lpc_t; applied : nat; cancelled : bool; cpc : cpc_t; g_int : list hpc; g_fg : list hpc; g_conn : list hpc; g_disc : list hpc; bgs : list (bkey * option (list hpc)); hist : list event }.

Definition set_rpos (s : st) (v : nat) : st :=
  {| rpos := v; rhold := rhold s; inq := inq s; lpc := lpc s; applied := applied s; cancelled := cancelled s; cpc := cpc s; g_int := g_int s; g_fg := g_fg s; g_conn := g_conn s; g_disc := g_disc s; bgs := bgs s; hist := hist s |}.
Definition set_rhold (s : st) (v : option nat) : st :=
  {| rpos := rpos s; rhold := v; inq := inq s; lpc := lpc s; applied := applied s; cancelled := cancelled s; cpc := cpc s; g_int := g_int s; g_fg := g_fg s; g_conn := g_conn s; g_disc := g_disc s; bgs := bgs s; hist := hist s |}.
Definition set_inq (s : st) (v : list nat) : st :=
  {| rpos := rpos s; rhold := rhold s; inq := v; lpc := lpc s; applied := applied s; cancelled := cancelled s; cpc := cpc s; g_int := g_int s; g_fg := g_fg s; g_conn := g_conn s; g_disc := g_disc s; bgs := bgs s; hist := hist s |}.
Definition set_lpc (s : st) (v : lpc_t) : st :=
  {| rpos := rpos s; rhold := rhold s; inq := inq s; lpc := v; applied := applied s; cancelled := cancelled s; cpc := cpc s; g_int := g_int s; g_fg := g_fg s; g_conn := g_conn s; g_disc := g_disc s; bgs := bgs s; hist := hist s |}.
Definition set_applied (s : st) (v : nat) : st :=
  {| rpos := rpos s; rhold := rhold s; inq := inq s; lpc := lpc s; applied := v; cancelled := cancelled s; cpc := cpc s; g_int := g_int s; g_fg := g_fg s; g_conn := g_conn s; g_disc := g_disc s; bgs := bgs s; hist := hist s |}.
Definition set_cancelled (s : st) (v : bool) : st :=
  {| rpos := rpos s; rhold := rhold s; inq := inq s; lpc := lpc s; applied := applied s; cancelled := v; cpc := cpc s; g_int := g_int s; g_fg := g_fg s; g_conn := g_conn s; g_disc := g_disc s; bgs := bgs s; hist := hist s |}.
Definition set_cpc (s : st) (v : cpc_t) : st :=
  {| rpos := rpos s; rhold := rhold s; inq := inq s; lpc := lpc s; applied := applied s; cancelled := cancelled s; cpc := v; g_int := g_int s; g_fg := g_fg s; g_conn := g_conn s; g_disc := g_disc s; bgs := bgs s; hist := hist s |}.
Definition set_g_int (s : st) (v : list hpc) : st :=
  {| rpos := rpos s; rhold := rhold s; inq := inq s; lpc := lpc s; applied := applied s; cancelled := cancelled s; cpc := cpc s; g_int := v; g_fg := g_fg s; g_conn := g_conn s; g_disc := g_disc s; bgs := bgs s; hist := hist s |}.
Definition set_g_fg (s : st) (v : list hpc) : st :=
  {| rpos := rpos s; rhold := rhold s; inq := inq s; lpc := lpc s; applied := applied s; cancelled := cancelled s; cpc := cpc s; g_int := g_int s; g_fg := v; g_conn := g_conn s; g_disc := g_disc s; bgs := bgs s; hist := hist s |}.
Definition set_g_conn (s : st) (v : list hpc) : st :=
  {| rpos := rpos s; rhold := rhold s; inq := inq s; lpc := lpc s; applied := applied s; cancelled := cancelled s; cpc := cpc s; g_int := g_int s; g_fg := g_fg s; g_conn := v; g_disc := g_disc s; bgs := bgs s; hist := hist s |}.
Definition set_g_disc (s : st) (v : list hpc) : st :=
  {| rpos := rpos s; rhold := rhold s; inq := inq s; lpc := lpc s; applied := applied s; cancelled := cancelled s; cpc := cpc s; g_int := g_int s; g_fg := g_fg s; g_conn := g_conn s; g_disc := v; bgs := bgs s; hist := hist s |}.
Definition set_bgs (s : st) (v : list (bkey * option (list hpc))) : st :=
  {| rpos := rpos s; rhold := rhold s; inq := inq s; lpc := lpc s; applied := applied s; cancelled := cancelled s; cpc := cpc s; g_int := g_int s; g_fg := g_fg s; g_conn := g_conn s; g_disc := g_disc s; bgs := v; hist := hist s |}.
Definition set_hist (s : st) (v : list event) : st :=
  {| rpos := rpos s; rhold := rhold s; inq := inq s; lpc := lpc s; applied := applied s; cancelled := cancelled s; cpc := cpc s; g_int := g_int s; g_fg := g_fg s; g_conn := g_conn s; g_disc := g_disc s; bgs := bgs s; hist := v |}.

Definition bkey_eqb (a b : bkey) : bool :=
  match a, b with
  | BLine x, BLine y => Nat.eqb x y
  | BConn x, BConn y => Nat.eqb x y
  | BDisc, BDisc => true
  | _, _ => false
  end.

Fixpoint hupd {B} (l : list B) (i : nat) (x : B) : list B :=
  match l, i with
  | [], _ => []
  | _ :: l', O => x :: l'
  | y :: l', S i' => y :: hupd l' i' x
  end.

Definition is_done (p : hpc) : bool := match p with HDone => true | _ => false end.
Definition all_done (g : list hpc) : bool := forallb is_done g.

Fixpoint bg_find (key : bkey) (l : list (bkey * option (list hpc))) : option (option (list hpc)) :=
  match l with
  | [] => None
  | (k', g) :: l' => if bkey_eqb key k' then Some g else bg_find key l'
  end.
Fixpoint bg_set (key : bkey) (g : option (list hpc)) (l : list (bkey * option (list hpc))) :=
  match l with
  | [] => []
  | (k', g') :: l' => if bkey_eqb key k' then (k', g) :: l' else (k', g') :: bg_set key g l'
  end.

(* the sequential life of one handler goroutine; [nest] = it is h_001 *)
Inductive etag := TgEnter | TgExit | TgPanic | TgRecovered.
Inductive hact := AStep | APanic.
Definition hstep (nest : bool) (pc : hpc) (a : hact) : option (hpc * option etag) :=
  match pc, a with
  | HReady, AStep => Some (HRun, Some TgEnter)                                   (* body starts *)
  | HRun, AStep => Some (if nest then HNest false else HRet, Some TgExit)        (* body returns *)
  | HRun, APanic => Some (if nest then HNest true else HPanicked, Some TgPanic)  (* body panics *)
  | HPanicked, AStep => Some (HRet, Some TgRecovered)      (* deferred conn.cfg.Recover(conn, line) *)
  | HRet, AStep => Some (HDone, None)                      (* wg.Done() *)
  | _, _ => None
  end.

Definition mk_event (t : etag) (kd : kind) (k i a : nat) : event :=
  match t with
  | TgEnter => EvEnter kd k i a
  | TgExit => EvExit kd k i a
  | TgPanic => EvPanic kd k i
  | TgRecovered => EvRecovered kd k i
  end.

Definition emit (s : st) (o : option etag) (kd : kind) (k i : nat) : st :=
  match o with
  | Some t => set_hist s (hist s ++ [mk_event t kd k i (applied s)])
  | None => s
  end.

Section Step.
  Variable sess : session.

  Definition init : st :=
    {| rpos := 0; rhold := None; inq := []; lpc := LIdle; applied := 0; cancelled := false;
       cpc := CIdle; g_int := []; g_fg := []; g_conn := []; g_disc := []; bgs := []; hist := [] |}.

  Definition bg_count (key : bkey) : nat :=
    match key with
    | BLine k => n_bg (line_of sess k)
    | BConn _ => c_bg sess
    | BDisc => d_bg sess
    end.
  Definition bg_kind (key : bkey) : kind * nat :=
    match key with
    | BLine k => (KBg, k)
    | BConn k => (KConnBg, k)
    | BDisc => (KDiscBg, 0)
    end.

  (* a plain (non-nesting) handler instance i of group g *)
  Definition plain (s : st) (g : list hpc) (setg : st -> list hpc -> st)
             (kd : kind) (k i : nat) (a : hact) : option st :=
    match nth_error g i with
    | Some pc => match hstep false pc a with
                 | Some (pc', o) => Some (emit (setg s (hupd g i pc')) o kd k i)
                 | None => None
                 end
    | None => None
    end.

  Definition step_handler (s : st) (g : gid) (i : nat) (a : hact) : option st :=
    match g with
    | GInt =>
        match lpc s with
        | LInt k =>
            let nest := welcome (line_of sess k) && Nat.eqb i 0 in
            match nth_error (g_int s) i, a with
            | Some (HNest p), AStep =>
                (* h_001's deferred conn.dispatch(CONNECTED): the internal set has no CONNECTED
                   handler; go bgHandlers.dispatch; fgHandlers.dispatch spawns and waits *)
                Some (set_g_int (set_g_conn (set_bgs s (bgs s ++ [(BConn k, None)]))
                                            (repeat HReady (c_fg sess)))
                                (hupd (g_int s) i (HNestW p)))
            | Some (HNestW p), AStep =>
                if all_done (g_conn s)
                then Some (set_g_int s (hupd (g_int s) i (if p then HPanicked else HRet)))
                else None
            | Some pc, _ =>
                match hstep nest pc a with
                | Some (pc', o) => Some (emit (set_g_int s (hupd (g_int s) i pc')) o KInt k i)
                | None => None
                end
            | None, _ => None
            end
        | _ => None
        end
    | GFg => match lpc s with
             | LFg k => plain s (g_fg s) set_g_fg KFg k i a
             | _ => None
             end
    | GConnFg => match lpc s with
                 | LInt k => plain s (g_conn s) set_g_conn KConnFg k i a
                 | _ => None
                 end
    | GDiscFg => plain s (g_disc s) set_g_disc KDiscFg 0 i a
    | GBg key =>
        match bg_find key (bgs s) with
        | Some (Some g) =>
            plain s g (fun s g' => set_bgs s (bg_set key (Some g') (bgs s)))
                  (fst (bg_kind key)) (snd (bg_kind key)) i a
        | _ => None
        end
    end.

  Definition step (s : st) (t : tid) : option st :=
    match t with
    | TRecv =>
        match rhold s with
        | None => if Nat.ltb (rpos s) (length (lines sess))
                  then Some (set_rpos (set_rhold s (Some (rpos s))) (S (rpos s)))   (* ReadString *)
                  else None
        | Some k => if Nat.ltb (length (inq s)) cap_in
                    then Some (set_inq (set_rhold s None) (inq s ++ [k]))           (* conn.in <- line *)
                    else None
        end
    | TLoop =>
        match lpc s with
        | LIdle =>
            match inq s with
            | k :: q =>            (* case line := <-conn.in ; conn.dispatch: intHandlers.dispatch *)
                Some (set_g_int (set_lpc (set_inq s q) (LInt k))
                                (repeat HReady (eff_int (line_of sess k))))
            | [] => None
            end
        | LInt k =>
            if all_done (g_int s)  (* wg.Wait() of the internal set returns *)
            then let s1 := set_applied (set_hist s (hist s ++ [EvApplied k])) (S k) in
                 (* go conn.bgHandlers.dispatch ; conn.fgHandlers.dispatch: snapshot, spawn *)
                 Some (set_lpc (set_g_fg (set_bgs s1 (bgs s1 ++ [(BLine k, None)]))
                                         (repeat HReady (n_fg (line_of sess k))))
                               (LFg k))
            else None
        | LFg k => if all_done (g_fg s) then Some (set_lpc s LIdle) else None   (* wg.Wait() returns *)
        | LDone => None
        end
    | TLoopQuit =>
        match lpc s with
        | LIdle => if cancelled s then Some (set_lpc s LDone) else None   (* case <-ctx.Done() *)
        | _ => None
        end
    | TCloser =>
        match cpc s with
        | CIdle => if can_close sess then Some (set_cpc (set_cancelled s true) CWait) else None
        | CWait =>
            match lpc s with
            | LDone =>   (* case <-done ; conn.mu.Unlock ; conn.dispatch(DISCONNECTED) *)
                Some (set_cpc (set_g_disc (set_bgs s (bgs s ++ [(BDisc, None)]))
                                          (repeat HReady (d_fg sess)))
                              CDisp)
            | _ => None
            end
        | CDisp => if all_done (g_disc s) then Some (set_cpc s CDone) else None
        | CDone => None
        end
    | TDrain =>
        match cpc s, inq s with
        | CWait, _ :: q => Some (set_inq s q)          (* case <-conn.in: of the drain loop *)
        | _, _ => None
        end
    | TBgDisp key =>
        match bg_find key (bgs s) with
        | Some None => Some (set_bgs s (bg_set key (Some (repeat HReady (bg_count key))) (bgs s)))
        | _ => None
        end
    | THandler g i => step_handler s g i AStep
    | TPanic g i => step_handler s g i APanic
    end.
End Step.

(* ====================== the properties as boolean monitors over histories ====================== *)
Definition fold_opt {S E} (f : S -> E -> option S) (h : list E) (o : option S) : option S :=
  fold_left (fun o e => match o with Some m => f m e | None => None end) h o.
Definition is_some {A} (o : option A) : bool := match o with Some _ => true | None => false end.

(* ---------- C03 ---------- *)
(* scan state: m_last = serial of the most recent foreground Enter, m_open = foreground
   invocations entered and not yet finished (Exit, or Recovered after a panic);
   m_clast / m_copen the same for the foreground CONNECTED handlers (their serial = the
   welcome line whose h_001 body has run); m_disc = a DISCONNECTED handler has entered. *)
Record m3 := { m_last : option nat; m_open : nat; m_clast : option nat; m_copen : nat; m_disc : bool }.
Definition m3_init : m3 := {| m_last := None; m_open := 0; m_clast := None; m_copen := 0; m_disc := false |}.

(* may an invocation of serial k start, given the previous one of the same sort was [last]
   and [open] of them are unfinished: a new serial only once nothing is open, never backwards *)
Definition may_start (last : option nat) (open k : nat) : bool :=
  match last with
  | None => true
  | Some c => (Nat.ltb c k && Nat.eqb open 0) || Nat.eqb c k
  end.
Definition is_cur (last : option nat) (open k : nat) : bool :=
  match last with Some c => Nat.eqb c k && Nat.ltb 0 open | None => false end.

Definition scan3 (sess : session) (m : m3) (e : event) : option m3 :=
  match e with
  | EvEnter KFg k _ _ =>
      if negb (m_disc m) && Nat.eqb (m_copen m) 0 && may_start (m_last m) (m_open m) k
         && match m_clast m with Some kc => Nat.leb kc k | None => true end
      then Some {| m_last := Some k; m_open := S (m_open m); m_clast := m_clast m;
                   m_copen := m_copen m; m_disc := m_disc m |}
      else None
  | EvExit KFg k _ _ | EvRecovered KFg k _ =>
      if is_cur (m_last m) (m_open m) k
      then Some {| m_last := m_last m; m_open := pred (m_open m); m_clast := m_clast m;
                   m_copen := m_copen m; m_disc := m_disc m |}
      else None
  | EvPanic KFg k _ => if is_cur (m_last m) (m_open m) k then Some m else None
  | EvEnter KConnFg k _ _ =>
      (* after every foreground invocation of earlier lines, before any of line k or later,
         and k is a welcome line (whose own effect the handler can see: its serial is k) *)
      if negb (m_disc m) && Nat.eqb (m_open m) 0 && welcome (line_of sess k)
         && Nat.ltb k (length (lines sess))
         && match m_last m with Some c => Nat.ltb c k | None => true end
         && may_start (m_clast m) (m_copen m) k
      then Some {| m_last := m_last m; m_open := m_open m; m_clast := Some k;
                   m_copen := S (m_copen m); m_disc := m_disc m |}
      else None
  | EvExit KConnFg k _ _ | EvRecovered KConnFg k _ =>
      if is_cur (m_clast m) (m_copen m) k
      then Some {| m_last := m_last m; m_open := m_open m; m_clast := m_clast m;
                   m_copen := pred (m_copen m); m_disc := m_disc m |}
      else None
  | EvPanic KConnFg k _ => if is_cur (m_clast m) (m_copen m) k then Some m else None
  | EvEnter KDiscFg _ _ _ =>
      if Nat.eqb (m_open m) 0 && Nat.eqb (m_copen m) 0
      then Some {| m_last := m_last m; m_open := m_open m; m_clast := m_clast m;
                   m_copen := m_copen m; m_disc := true |}
      else None
  | _ => Some m
  end.

Definition C03_scan (sess : session) (h : list event) : option m3 :=
  fold_opt (scan3 sess) h (Some m3_init).
Definition C03_ok (sess : session) (h : list event) : bool := is_some (C03_scan sess h).

(* ---------- C05 ---------- *)
(* a user handler for line k runs with the tracker reflecting line k (a >= k+1); a foreground
   one with the tracker reflecting no later line (a = k+1) *)
Definition chk5 (e : event) : bool :=
  match e with
  | EvEnter KFg k _ a | EvExit KFg k _ a => Nat.eqb a (S k)
  | EvEnter KBg k _ a | EvExit KBg k _ a => Nat.leb (S k) a
  | _ => true
  end.
Definition C05_ok (h : list event) : bool := forallb chk5 h.

(* ---------- C16 (safety half, on the history of a session delivered completely) ---------- *)
Definition kind_eqb (a b : kind) : bool :=
  match a, b with
  | KInt, KInt | KFg, KFg | KBg, KBg | KConnFg, KConnFg | KConnBg, KConnBg
  | KDiscFg, KDiscFg | KDiscBg, KDiscBg => true
  | _, _ => false
  end.
Definition is_ev (t : etag) (kd : kind) (k i : nat) (e : event) : bool :=
  match t, e with
  | TgEnter, EvEnter kd' k' i' _ | TgExit, EvExit kd' k' i' _
  | TgPanic, EvPanic kd' k' i' | TgRecovered, EvRecovered kd' k' i' =>
      kind_eqb kd kd' && Nat.eqb k k' && Nat.eqb i i'
  | _, _ => false
  end.
Definition cnt (t : etag) (kd : kind) (k i : nat) (h : list event) : nat :=
  length (filter (is_ev t kd k i) h).

(* the per-invocation scan: nothing / entered / panicked / finished; any other order is an error *)
Inductive ist := INone | IEntered | IPanicked | IFinished.
Definition iscan (kd : kind) (k i : nat) (o : ist) (e : event) : option ist :=
  if is_ev TgEnter kd k i e then match o with INone => Some IEntered | _ => None end
  else if is_ev TgExit kd k i e then match o with IEntered => Some IFinished | _ => None end
  else if is_ev TgPanic kd k i e then match o with IEntered => Some IPanicked | _ => None end
  else if is_ev TgRecovered kd k i e then match o with IPanicked => Some IFinished | _ => None end
  else Some o.
Definition inst_state (kd : kind) (k i : nat) (h : list event) : option ist :=
  fold_opt (iscan kd k i) h (Some INone).
(* a handler the loop waits for: invoked exactly once and finished (returned, or panicked and
   the panic was handed to the recovery function: once, for that line) *)
Definition inst_complete kd k i h : bool :=
  match inst_state kd k i h with Some IFinished => true | _ => false end.
(* a background handler: at most once, in order; it may be unfinished or never have started *)
Definition inst_sane kd k i h : bool := is_some (inst_state kd k i h).

Definition event_in_range (sess : session) (e : event) : bool :=
  match e with
  | EvEnter KFg k i _ | EvExit KFg k i _ | EvPanic KFg k i | EvRecovered KFg k i =>
      Nat.ltb k (length (lines sess)) && Nat.ltb i (n_fg (line_of sess k))
  | EvEnter KBg k i _ | EvExit KBg k i _ | EvPanic KBg k i | EvRecovered KBg k i =>
      Nat.ltb k (length (lines sess)) && Nat.ltb i (n_bg (line_of sess k))
  | _ => true
  end.

Definition C16_line (sess : session) (h : list event) (k : nat) : bool :=
  let hk := filter (fun e => match e with
                             | EvEnter _ k' _ _ | EvExit _ k' _ _ | EvPanic _ k' _ | EvRecovered _ k' _ => Nat.eqb k k'
                             | EvApplied _ => false end) h in
  forallb (fun i => inst_complete KFg k i hk) (seq 0 (n_fg (line_of sess k)))
  && forallb (fun i => inst_sane KBg k i hk) (seq 0 (n_bg (line_of sess k))).

(* every line's foreground handlers (panicking or not, whatever their siblings did) ran exactly
   once to completion, every panic was recovered once; no event of an unknown handler *)
Definition C16_ok (sess : session) (h : list event) : bool :=
  forallb (event_in_range sess) h
  && forallb (C16_line sess h) (seq 0 (length (lines sess))).

(* all lines have been delivered and the connection is still up *)
Definition delivered_all (sess : session) (s : st) : bool :=
  Nat.eqb (rpos s) (length (lines sess))
  && match rhold s with None => true | Some _ => false end
  && match inq s with [] => true | _ => false end
  && match lpc s with LIdle => true | _ => false end
  && negb (cancelled s).
