(* Model/Registry.v — the handler registry of client/dispatch.go (C04).  Executable only.

   CONCRETE layer: hSet as the code has it.  A *hNode is an index [nid] into a node heap
   (a list that only grows: a node is allocated by [add] and never freed); [hs.set] is an
   association list from the LOWER-CASED event name to an hList {start, end} of nullable
   node pointers; [hn.set = nil] after removal is [n_in = false].
   Every pointer dereference is partial ([hget] of an address outside the heap, [l.end.next]
   on a nil [l.end], [hn.set.remove] on a nil [hn.set]) and yields [Panic].
   strings.ToLower is [to_lower] of Lib/GoBytes.v: ASCII only (event names in generated
   cases are ASCII).

   ABSTRACT layer: the registrations in registration order, [add] = append, [remove] = filter.

   HISTORIES: a flat list of ATOMIC steps (registration, removal, snapshot).  Atomicity is a
   source fact (tie_C04): add/remove hold hs.Lock and getHandlers holds hs.RLock for their
   whole bodies.  WHO issues a step (the main goroutine, a free goroutine, the body of a
   running handler) is irrelevant for the registry, so a flat history covers registration and
   removal "from inside handlers" and every interleaving of racing goroutines: it is the
   linearisation of the run. *)
From Verif Require Import GoBytes.
Open Scope Z_scope.

Definition nid := nat.
Definition hid := N.

Record node := {
  n_next : option nid; n_prev : option nid;
  n_ev : bytes;            (* hn.event: the lower-cased name *)
  n_h : hid;               (* hn.handler *)
  n_in : bool              (* hn.set != nil *)
}.
Record hlist := { l_start : option nid; l_end : option nid }.

(* ---------- Go map[string]V as an association list; only lookups are ever observed ---------- *)
Definition amap (V : Type) := list (bytes * V).
Fixpoint alookup {V} (m : amap V) (k : bytes) : option V :=
  match m with
  | [] => None
  | (k', v) :: m' => if beq k' k then Some v else alookup m' k
  end.
Fixpoint adelete {V} (m : amap V) (k : bytes) : amap V :=
  match m with
  | [] => []
  | (k', v) :: m' => if beq k' k then adelete m' k else (k', v) :: adelete m' k
  end.
Definition ainsert {V} (m : amap V) (k : bytes) (v : V) : amap V := (k, v) :: adelete m k.

(* ---------- the node heap ---------- *)
Definition heap := list node.
Definition hget (hp : heap) (i : nid) : res node :=
  match nth_error hp i with Some nd => Ok nd | None => Panic end.
Fixpoint upd (hp : heap) (i : nid) (nd : node) : heap :=
  match hp, i with
  | [], _ => []
  | _ :: hp', O => nd :: hp'
  | x :: hp', S i' => x :: upd hp' i' nd
  end.
Definition set_next (nd : node) (v : option nid) : node :=
  {| n_next := v; n_prev := n_prev nd; n_ev := n_ev nd; n_h := n_h nd; n_in := n_in nd |}.
Definition set_prev (nd : node) (v : option nid) : node :=
  {| n_next := n_next nd; n_prev := v; n_ev := n_ev nd; n_h := n_h nd; n_in := n_in nd |}.
Definition detach (nd : node) : node :=
  {| n_next := None; n_prev := None; n_ev := n_ev nd; n_h := n_h nd; n_in := false |}.

Record hset := { hs_set : amap hlist; hs_heap : heap }.
Definition handler_set : hset := {| hs_set := []; hs_heap := [] |}.     (* handlerSet() *)

(* ---------- func (hs *hSet) add(ev string, h Handler) Remover ---------- *)
Definition hs_add (s : hset) (name : bytes) (h : hid) : res (hset * nid) :=
  let ev := to_lower name in
  let hn := length (hs_heap s) in                       (* hn := &hNode{...}: a fresh address *)
  match alookup (hs_set s) ev with
  | None =>                                             (* !ok: l = &hList{}; l.start = hn *)
      Ok ({| hs_set := ainsert (hs_set s) ev {| l_start := Some hn; l_end := Some hn |};
             hs_heap := hs_heap s ++ [{| n_next := None; n_prev := None; n_ev := ev; n_h := h; n_in := true |}] |},
          hn)
  | Some l =>                                           (* hn.prev = l.end; l.end.next = hn *)
      match l_end l with
      | None => Panic
      | Some e =>
          en <- hget (hs_heap s) e ;;
          Ok ({| hs_set := ainsert (hs_set s) ev {| l_start := l_start l; l_end := Some hn |};
                 hs_heap := upd (hs_heap s) e (set_next en (Some hn))
                            ++ [{| n_next := None; n_prev := Some e; n_ev := ev; n_h := h; n_in := true |}] |},
              hn)
      end
  end.

(* ---------- func (hn *hNode) Remove()  =  hn.set.remove(hn)
              func (hs *hSet) remove(hn *hNode) ---------- *)
Definition hs_remove (s : hset) (r : nid) : res hset :=
  hn <- hget (hs_heap s) r ;;
  if negb (n_in hn) then Panic                          (* hn.set == nil: nil dereference in hs.Lock() *)
  else
  match alookup (hs_set s) (n_ev hn) with
  | None => Ok s                                        (* "Removing node for unknown event": return *)
  | Some l =>
      (* if hn.next == nil { l.end = hn.prev } else { hn.next.prev = hn.prev } *)
      st1 <- match n_next hn with
             | None => Ok (hs_heap s, {| l_start := l_start l; l_end := n_prev hn |})
             | Some nx => nxn <- hget (hs_heap s) nx ;;
                          Ok (upd (hs_heap s) nx (set_prev nxn (n_prev hn)), l)
             end ;;
      let hp1 := fst st1 in let l1 := snd st1 in
      hn1 <- hget hp1 r ;;                              (* the second if re-reads hn's fields *)
      (* if hn.prev == nil { l.start = hn.next } else { hn.prev.next = hn.next } *)
      st2 <- match n_prev hn1 with
             | None => Ok (hp1, {| l_start := n_next hn1; l_end := l_end l1 |})
             | Some pv => pvn <- hget hp1 pv ;;
                          Ok (upd hp1 pv (set_next pvn (n_next hn1)), l1)
             end ;;
      let hp2 := fst st2 in let l2 := snd st2 in
      hn2 <- hget hp2 r ;;
      (* hn.next = nil; hn.prev = nil; hn.set = nil *)
      let hp3 := upd hp2 r (detach hn2) in
      (* if l.start == nil || l.end == nil { delete(hs.set, hn.event) }   (l is a pointer: the
         map entry sees the assignments to l.start / l.end made above) *)
      Ok {| hs_set := match l_start l2, l_end l2 with
                      | Some _, Some _ => ainsert (hs_set s) (n_ev hn) l2
                      | _, _ => adelete (hs_set s) (n_ev hn)
                      end;
            hs_heap := hp3 |}
  end.

(* ---------- func (hs *hSet) getHandlers(ev string) []*hNode ----------
   for hn := list.start; hn != nil; hn = hn.next — fuel = number of nodes in the heap;
   running out of fuel is a [Panic], never a normal-looking value (excluded by dll_ok). *)
Fixpoint walk (hp : heap) (fuel : nat) (cur : option nid) (acc : list nid) : res (list nid) :=
  match cur with
  | None => Ok (rev acc)
  | Some x => match fuel with
              | O => Panic
              | S f => nd <- hget hp x ;; walk hp f (n_next nd) (x :: acc)
              end
  end.
Definition hs_get_handlers (s : hset) (ev : bytes) : res (list nid) :=
  match alookup (hs_set s) ev with
  | None => Ok []
  | Some l => walk (hs_heap s) (length (hs_heap s)) (l_start l) []
  end.
(* hSet.dispatch: ev := strings.ToLower(line.Cmd); range hs.getHandlers(ev) *)
Definition hs_snapshot (s : hset) (cmd : bytes) : res (list nid) := hs_get_handlers s (to_lower cmd).
(* hn.Handle: reads hn.handler when the handler goroutine runs *)
Definition hs_handler_of (s : hset) (i : nid) : res hid := nd <- hget (hs_heap s) i ;; Ok (n_h nd).
Fixpoint hs_handlers_of (s : hset) (l : list nid) : res (list hid) :=
  match l with
  | [] => Ok []
  | i :: l' => h <- hs_handler_of s i ;; t <- hs_handlers_of s l' ;; Ok (h :: t)
  end.

(* ---------- ABSTRACT layer ---------- *)
Record aentry := { a_id : nid; a_h : hid; a_name : bytes (* lower-cased *) }.
Record areg := { ar_next : nid; ar_regs : list aentry }.
Definition areg_empty : areg := {| ar_next := O; ar_regs := [] |}.
Definition abs_add (a : areg) (name : bytes) (h : hid) : areg * nid :=
  ({| ar_next := S (ar_next a);
      ar_regs := ar_regs a ++ [{| a_id := ar_next a; a_h := h; a_name := to_lower name |}] |}, ar_next a).
Definition abs_remove (a : areg) (r : nid) : areg :=
  {| ar_next := ar_next a; ar_regs := filter (fun e => negb (Nat.eqb (a_id e) r)) (ar_regs a) |}.
Definition abs_entries (a : areg) (cmd : bytes) : list aentry :=
  filter (fun e => beq (a_name e) (to_lower cmd)) (ar_regs a).
Definition abs_handlers (a : areg) (cmd : bytes) : list hid := map a_h (abs_entries a cmd).
Definition abs_registered (a : areg) (r : nid) : bool := existsb (fun e => Nat.eqb (a_id e) r) (ar_regs a).

(* the abstraction function: the nodes with hn.set != nil, in allocation (= registration) order *)
Definition ent (hp : heap) (i : nid) : list aentry :=
  match nth_error hp i with
  | Some nd => if n_in nd then [{| a_id := i; a_h := n_h nd; a_name := n_ev nd |}] else []
  | None => []
  end.
Definition abs (s : hset) : areg :=
  {| ar_next := length (hs_heap s); ar_regs := flat_map (ent (hs_heap s)) (seq 0 (length (hs_heap s))) |}.

(* ---------- a Conn has three sets ---------- *)
Inductive kind := KFg | KBg | KInt.
Definition kind_eqb (a b : kind) : bool :=
  match a, b with KFg, KFg | KBg, KBg | KInt, KInt => true | _, _ => false end.
Record tri (A : Type) := { t_fg : A; t_bg : A; t_int : A }.
Arguments t_fg {A} _. Arguments t_bg {A} _. Arguments t_int {A} _.
Definition tri_const {A} (a : A) : tri A := {| t_fg := a; t_bg := a; t_int := a |}.
Definition tget {A} (c : tri A) (k : kind) : A :=
  match k with KFg => t_fg c | KBg => t_bg c | KInt => t_int c end.
Definition tput {A} (c : tri A) (k : kind) (s : A) : tri A :=
  match k with
  | KFg => {| t_fg := s; t_bg := t_bg c; t_int := t_int c |}
  | KBg => {| t_fg := t_fg c; t_bg := s; t_int := t_int c |}
  | KInt => {| t_fg := t_fg c; t_bg := t_bg c; t_int := s |}
  end.
Definition tmap {A B} (f : A -> B) (c : tri A) : tri B :=
  {| t_fg := f (t_fg c); t_bg := f (t_bg c); t_int := f (t_int c) |}.
Definition conn_sets := tri hset.           (* fgHandlers, bgHandlers, intHandlers *)
Definition conn_init : conn_sets := tri_const handler_set.
Definition aconn := tri areg.
Definition aconn_init : aconn := tri_const areg_empty.
Definition abs_conn (c : conn_sets) : aconn := tmap abs c.

(* ---------- histories of atomic steps ----------
   SReg KFg = Conn.Handle / Conn.HandleFunc (HandleFunc is [return conn.Handle(name, hf)]),
   SReg KBg = Conn.HandleBG, SReg KInt = Conn.handle;
   SRemove k r = Remove() on the Remover returned by the r-th registration into set k
                 (the Remover IS the node: nid r);
   SSnap k cmd = the getHandlers call of set k's dispatcher for an incoming event named cmd
                 (for KBg: whenever the [go bgHandlers.dispatch] goroutine gets there). *)
Inductive step :=
| SReg (k : kind) (name : bytes) (h : hid)
| SRemove (k : kind) (r : nid)
| SSnap (k : kind) (cmd : bytes).

(* a recorded snapshot: the []*hNode slice the dispatcher ranges over *)
Record snap := { sn_kind : kind; sn_cmd : bytes; sn_nodes : list nid }.

Definition step_conc (c : conn_sets) (st : step) : res (conn_sets * list snap) :=
  match st with
  | SReg k name h => r <- hs_add (tget c k) name h ;; Ok (tput c k (fst r), [])
  | SRemove k r => s <- hs_remove (tget c k) r ;; Ok (tput c k s, [])
  | SSnap k cmd => l <- hs_snapshot (tget c k) cmd ;;
                   Ok (c, [{| sn_kind := k; sn_cmd := cmd; sn_nodes := l |}])
  end.
Fixpoint run_conc (c : conn_sets) (h : list step) : res (conn_sets * list snap) :=
  match h with
  | [] => Ok (c, [])
  | st :: h' => r <- step_conc c st ;; r' <- run_conc (fst r) h' ;; Ok (fst r', snd r ++ snd r')
  end.
(* the handlers a dispatcher's goroutines invoke, read through the nodes in ANY later state *)
Definition invoked (c : conn_sets) (sn : snap) : res (list hid) :=
  hs_handlers_of (tget c (sn_kind sn)) (sn_nodes sn).

(* the same history on the abstract layer: each snapshot yields the invoked handler ids *)
Definition step_abs (a : aconn) (st : step) : aconn * list (list hid) :=
  match st with
  | SReg k name h => (tput a k (fst (abs_add (tget a k) name h)), [])
  | SRemove k r => (tput a k (abs_remove (tget a k) r), [])
  | SSnap k cmd => (a, [abs_handlers (tget a k) cmd])
  end.
Fixpoint run_abs (a : aconn) (h : list step) : aconn * list (list hid) :=
  match h with
  | [] => (a, [])
  | st :: h' => let r := step_abs a st in let r' := run_abs (fst r) h' in (fst r', snd r ++ snd r')
  end.

(* "each Remover is used at most once" (and it was handed out): the history's removals
   only name registrations that are in the set at that point *)
Fixpoint wf_hist (a : aconn) (h : list step) : bool :=
  match h with
  | [] => true
  | st :: h' =>
      (match st with SRemove k r => abs_registered (tget a k) r | _ => true end)
      && wf_hist (fst (step_abs a st)) h'
  end.

(* ---------- the property predicate C04_ok: the runtime oracle ----------
   Observed from outside, an operation is an INTERVAL of a global clock: a registration
   call [rg_start, rg_ret], a removal [rm_start, rm_ret], a snapshot somewhere in
   [sp_lo, sp_hi] (lo: the event line was handed to the connection; hi: the permanently
   registered sentinel handler of that name was entered).  For every handler id h:
     count h  >=  #registrations of h under a matching name that RETURNED before lo and whose
                  removal (if any) STARTED after hi                      ("must"), and
     count h  <=  #registrations of h under a matching name that STARTED before hi and whose
                  removal (if any) had not RETURNED before lo            ("may").
   When no operation overlaps the snapshot interval, must = may = exactly once per registration. *)
Record regobs := {
  rg_kind : kind; rg_name : bytes; rg_h : hid;
  rg_start : Z; rg_ret : Z;
  rg_rm : option (Z * Z)       (* start, return of the Remove call, if any *)
}.
Record snapobs := {
  sp_kind : kind; sp_cmd : bytes; sp_lo : Z; sp_hi : Z;
  sp_counts : list (hid * Z)   (* invocations per handler id; absent = 0 *)
}.
Definition matches (r : regobs) (s : snapobs) (h : hid) : bool :=
  kind_eqb (rg_kind r) (sp_kind s) && beq (to_lower (rg_name r)) (to_lower (sp_cmd s)) && N.eqb (rg_h r) h.
Definition must_run (r : regobs) (s : snapobs) : bool :=
  (rg_ret r <? sp_lo s) && match rg_rm r with None => true | Some (a, _) => sp_hi s <? a end.
Definition may_run (r : regobs) (s : snapobs) : bool :=
  (rg_start r <? sp_hi s) && match rg_rm r with None => true | Some (_, b) => sp_lo s <? b end.
Definition countb {A} (f : A -> bool) (l : list A) : Z := Z.of_nat (length (filter f l)).
Definition count_of (h : hid) (cs : list (hid * Z)) : Z :=
  fold_right Z.add 0 (map snd (filter (fun p => N.eqb (fst p) h) cs)).
Definition snap_ok (regs : list regobs) (s : snapobs) : bool :=
  forallb (fun h =>
             let c := count_of h (sp_counts s) in
             (countb (fun r => matches r s h && must_run r s) regs <=? c)
             && (c <=? countb (fun r => matches r s h && may_run r s) regs))
          (map rg_h regs ++ map fst (sp_counts s)).
Definition C04_ok (regs : list regobs) (snaps : list snapobs) : bool := forallb (snap_ok regs) snaps.

(* counts of a list of invoked handler ids *)
Definition counts_of (l : list hid) : list (hid * Z) := map (fun h => (h, 1)) l.

(* ---------- stamped histories: what an outside observer records of a linearised run ----------
   Each atomic step carries the interval [ts_start, ts_ret] of the call it belongs to (for a
   snapshot: [lo, hi]).  The list order is the linearisation; [consistent]: a step that is
   linearised earlier cannot have started after a later one returned (real-time order; all
   stamps come from one strictly increasing clock, hence the strict inequality). *)
Record tstep := { ts_step : step; ts_start : Z; ts_ret : Z }.
Fixpoint consistent (h : list tstep) : Prop :=
  match h with
  | [] => True
  | t :: h' => ts_start t <= ts_ret t /\ Forall (fun u => ts_start t < ts_ret u) h' /\ consistent h'
  end.
(* the registration records of a stamped history (per set; index = the Remover's node id) *)
Fixpoint mark (l : list regobs) (r : nat) (x : Z * Z) : list regobs :=
  match l, r with
  | [], _ => []
  | e :: l', O => {| rg_kind := rg_kind e; rg_name := rg_name e; rg_h := rg_h e; rg_start := rg_start e;
                     rg_ret := rg_ret e;
                     rg_rm := match rg_rm e with None => Some x | Some y => Some y end |} :: l'
  | e :: l', S r' => e :: mark l' r' x
  end.
Definition collect_step (g : tri (list regobs)) (t : tstep) : tri (list regobs) :=
  match ts_step t with
  | SReg k n h => tput g k (tget g k ++ [{| rg_kind := k; rg_name := n; rg_h := h; rg_start := ts_start t;
                                           rg_ret := ts_ret t; rg_rm := None |}])
  | SRemove k r => tput g k (mark (tget g k) r (ts_start t, ts_ret t))
  | SSnap _ _ => g
  end.
Definition collect (g : tri (list regobs)) (h : list tstep) : tri (list regobs) := fold_left collect_step h g.
Definition all_regs (g : tri (list regobs)) : list regobs := t_fg g ++ t_bg g ++ t_int g.
(* the snapshot records, given the handler ids each snapshot invoked *)
Fixpoint snap_obs (h : list tstep) (inv : list (list hid)) : list snapobs :=
  match h with
  | [] => []
  | t :: h' =>
      match ts_step t, inv with
      | SSnap k cmd, hs :: inv' =>
          {| sp_kind := k; sp_cmd := cmd; sp_lo := ts_start t; sp_hi := ts_ret t; sp_counts := counts_of hs |}
          :: snap_obs h' inv'
      | SSnap _ _, [] => []
      | _, _ => snap_obs h' inv
      end
  end.
