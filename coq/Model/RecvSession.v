(* Model/RecvSession.v — a SEQUENTIAL model of what happens to the lines a server sends
   (C02, session part): connection.go:recv trims and parses each line; a parsed line is
   handed to dispatch, where every handler invocation runs under
   [defer conn.cfg.Recover(conn, line)] (dispatch.go, hNode.Handle; default LogPanic).
   Handler BODIES are not modelled here (other models do that): a handler is an arbitrary
   function that may panic.  Goroutine structure is not modelled (see Model/ConnLts.v users);
   this file only fixes what "the line was rejected / dispatched / killed the process" means.
   Executable definitions only. *)
From Verif Require Export GoBytes LineLib Line.
Open Scope Z_scope.

(* what a handler invocation amounts to for this property: returns, or panics *)
Definition handler := line -> res unit.

(* hNode.Handle: [defer conn.cfg.Recover(conn, line)] with Recover = LogPanic — a panic of
   the handler is logged and stops there; [true] = the handler panicked (contained) *)
Definition recovering (r : res unit) : res bool :=
  match r with
  | Ok _ => Ok false
  | Panic => Ok true
  end.

(* the same call WITHOUT the deferred Recover (used only to show the wrapper matters) *)
Definition unprotected (r : res unit) : res bool :=
  match r with
  | Ok _ => Ok false
  | Panic => Panic
  end.

Fixpoint map_res {A B} (f : A -> res B) (l : list A) : res (list B) :=
  match l with
  | [] => Ok []
  | a :: l' => b <- f a ;; bs <- map_res f l' ;; Ok (b :: bs)
  end.

Inductive outcome :=
| Rejected                                   (* ParseLine returned nil: logged, next line *)
| Dispatched (l : line) (hp : list bool)     (* handlers ran; hp = which of them panicked (contained) *)
| CRASH.                                     (* a panic escaped: the process dies *)

Definition is_crash (o : outcome) : bool := match o with CRASH => true | _ => false end.

Section Session.
  (* the handlers registered for an event name (internal + state tracking + user), any code *)
  Variable handlers : bytes -> list handler.
  (* how one handler call is wrapped: [recovering] (the real code) or [unprotected] *)
  Variable wrap : res unit -> res bool.

  (* hSet.dispatch: every handler gets its own copy of the line *)
  Definition dispatch_line (l : line) : res (list bool) :=
    map_res (fun h => wrap (h (copy_line l))) (handlers (l_cmd l)).

  (* one iteration of recv + runLoop for one raw line *)
  Definition step_line (raw : bytes) : outcome :=
    match recv_one raw with
    | Panic => CRASH
    | Ok None => Rejected
    | Ok (Some l) =>
        match dispatch_line l with
        | Panic => CRASH
        | Ok hp => Dispatched l hp
        end
    end.

  (* the whole session: a CRASH ends it (nothing after it is processed) *)
  Fixpoint recv_loop (ls : list bytes) : list outcome :=
    match ls with
    | [] => []
    | raw :: ls' =>
        match step_line raw with
        | CRASH => [CRASH]
        | o => o :: recv_loop ls'
        end
    end.
End Session.

Definition classify (raw : bytes) : outcome := step_line (fun _ => []) recovering raw.

(* does a raw line parse? and to what? *)
Definition parses (raw : bytes) : bool :=
  match recv_one raw with Ok (Some _) => true | _ => false end.
Definition parsed (raw : bytes) : option line :=
  match recv_one raw with Ok o => o | Panic => None end.

Fixpoint dispatched (os : list outcome) : list line :=
  match os with
  | [] => []
  | Dispatched l _ :: os' => l :: dispatched os'
  | _ :: os' => dispatched os'
  end.

(* the session part of C02 as a boolean: the client is still alive and answering after the
   batch.  Model side: no CRASH and every line accounted for. *)
Definition session_alive (handlers : bytes -> list handler) (ls : list bytes) : bool :=
  let os := recv_loop handlers recovering ls in
  negb (existsb is_crash os) && Nat.eqb (length os) (length ls).
Definition C02_session_ok (alive : bool) : bool := alive.

(* an example handler with the shape of h_PING: [conn.Pong(line.Args[0])] *)
Definition h_first_arg : handler := fun l => _ <- elem_at (l_args l) 0 ;; Ok tt.
