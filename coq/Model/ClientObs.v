(* Model/ClientObs.v — the "transcript" case kind of check C02: a whole server session through
   the composed client (Model/Client.v).  Case decoding, the model's prediction of the complete
   observation, and C02's claim on a transcript as a boolean.  std++ side.  Executable only.

   INPUT  = "transcript"; mode (decimal: bit 0 state tracking, bit 1 capability negotiation,
            bit 2 SASL PLAIN); nick; ident; name; password; version; split_len (decimal);
            sasl user; sasl password; #W wanted caps..; #N nick universe..; #C channel
            universe..; #K capability universe..; #V observed verbs..; then items:
            "L" raw-line (no CR LF)  |  "M"
            The k-th "M" stands for the server line "PING :m<k+1>" (m1 is sent right after
            Connect, before any item).
   OBS    = records [tag; #fields; fields..]:
            "R" the lines written before "PONG :m1"        (registration)
            "Q" per "M" item: the lines written since the previous marker's PONG, up to
                (not including) this marker's PONG
            "E" Config().Me nil-ness ("ok"/"nil") and Nick read FIRST, then Me() nil-ness and Nick
            "D" tracker dump (NetObs.dump over the universe; empty when tracking is off)
            "H" HasCapability, SupportsCapability ("t"/"f") per capability of the universe
            "X" reason   — the client died / stalled (ends the observation)
   OBSERVER: the harness registers ONE foreground user handler under every verb of #V; it hands
   "OBS <Cmd> <me> <chan bits> <nick bits> <cap bits>" to conn.Raw (StateTracker().Me().Nick or
   "-"; one '0'/'1' per universe name: GetChannel / GetNick non-nil, HasCapability).  Conn.dispatch
   runs the foreground set after ALL internal handlers of the line have returned, so the line
   follows their output and shows the state they left ([observer] below is that handler).
   PROBE TOKENS: a generated line at item index j (0-based, "L" and "M" items alike) may carry
   the token "tk<j>": "PING :tk<j>" is answered "PONG :tk<j>", a CTCP PING "... :\001PING tk<j>\001"
   by "NOTICE <nick> :\001PING tk<j>\001".  C02's claim on a transcript ([C02_transcript_ok]):
   no "X", one record per marker, and every token seen in the output of a marker interval belongs
   to an item of THAT interval, in non-decreasing order; every item that is exactly a tagged probe
   ("PING :tk<j>", CTCP VERSION from pr<j>, 433 for q<j>x) is answered in its interval, and an
   interval with n well-formed ":probe.example CAP * LS|ACK :..." lines shows >= n CAP REQ / CAP END /
   AUTHENTICATE lines ("after a hostile line of verb V a well-formed V is still handled"). *)
From Verif Require Export Client NetObs.
From Verif Require GoBytes LineLib Line Split Commands NickHandlers NewNick Caps.
Open Scope Z_scope.

Definition t_transcript : bytes := [116;114;97;110;115;99;114;105;112;116]%N.
Definition t_R : bytes := [82]%N.
Definition t_E : bytes := [69]%N.
Definition t_H : bytes := [72]%N.
Definition t_X : bytes := [88]%N.
Definition t_M : bytes := [77]%N.
Definition t_ok : bytes := [111;107]%N.

Inductive titem := TLine (raw : bytes) | TMark.

Record tcase := {
  tc_state0 : cstate;
  tc_U : universe;
  tc_capsU : list bytes;
  tc_verbs : list bytes;
  tc_items : list titem
}.

(* a counted list: [#n; x1..xn; rest] *)
Definition take_counted (l : list bytes) : option (list bytes * list bytes) :=
  match l with
  | cnt :: r => k ← nat_of cnt;
                if Nat.leb k (length r) then Some (take k r, drop k r) else None
  | [] => None
  end.

Fixpoint dec_titems (fuel : nat) (l : list bytes) : option (list titem) :=
  match fuel with
  | O => match l with [] => Some [] | _ => None end
  | S f =>
      match l with
      | [] => Some []
      | o :: r =>
          if bool_decide (o = t_M) then x ← dec_titems f r; Some (TMark :: x)
          else if bool_decide (o = t_L) then
            match r with raw :: r' => x ← dec_titems f r'; Some (TLine raw :: x) | [] => None end
          else None
      end
  end.

Definition decode_transcript (i : list bytes) : option tcase :=
  match i with
  | kind :: mode :: nick :: ident :: rname :: pass :: version :: slen :: suser :: spass :: r0 =>
      if negb (bool_decide (kind = t_transcript)) then None else
      m ← GoBytes.Z_of_dec mode;
      sl ← GoBytes.Z_of_dec slen;
      w ← take_counted r0;
      ns ← take_counted (snd w);
      cs ← take_counted (snd ns);
      ks ← take_counted (snd cs);
      vs ← take_counted (snd ks);
      its ← dec_titems (length (snd vs)) (snd vs);
      let sasl := if Z.testbit m 2 then Some (Caps.sasl_plain [] suser spass) else None in
      let k := {| k_new_nick := NewNick.default_new_nick;
                  k_negotiate := Z.testbit m 1;
                  k_pass := pass;
                  k_caps := Caps.Build_caps_cfg (fst w) sasl;
                  k_version := version;
                  k_quit := [];
                  k_split_len := sl |} in
      Some {| tc_state0 := client0 k nick ident rname (Z.testbit m 0);
              tc_U := Build_universe (fst ns) (fst cs);
              tc_capsU := fst ks;
              tc_verbs := fst vs;
              tc_items := its |}
  | _ => None
  end.

(* ---------- the prediction ---------- *)
Definition crlf : bytes := [13;10]%N.
Definition marker_tok (k : nat) : bytes := 109%N :: GoBytes.dec_of_Z (Z.of_nat k).           (* m<k> *)
Definition marker_line (k : nat) : bytes := Commands.s_PING ++ Commands.s_sp_colon ++ marker_tok k.
Definition marker_pong (k : nat) : bytes := Commands.s_PONG ++ Commands.s_sp_colon ++ marker_tok k.
Definition t_nopong : bytes := [60;60;109;111;100;101;108;58;110;111;45;112;111;110;103;62;62]%N.

(* the harness's foreground observer (a USER handler, not part of Model/Client.v) *)
Definition s_OBS : bytes := [79;66;83]%N.
Definition s_minus : bytes := [45]%N.
Definition bit (b : bool) : N := if b then 49%N else 48%N.
Definition obs_line (c : tcase) (s : cstate) (cmd : bytes) : bytes :=
  let sp := Commands.s_sp in
  let me := match c_trk s with Some t => ts_me t | None => s_minus end in
  let cb := match c_trk s with
            | Some t => map (fun n => bit (is_some (snd (sp_GetChannel t n)))) (u_chans (tc_U c))
            | None => s_minus end in
  let nb := match c_trk s with
            | Some t => map (fun n => bit (is_some (snd (sp_GetNick t n)))) (u_nicks (tc_U c))
            | None => s_minus end in
  let kb := map (fun n => bit (Caps.cap_has (Caps.cs_current (c_caps s)) n)) (tc_capsU c) in
  Split.cut_newlines (s_OBS ++ sp ++ cmd ++ sp ++ me ++ sp ++ cb ++ sp ++ nb ++ sp ++ kb).
Definition observer (c : tcase) (s : cstate) (cmd : bytes) : list bytes :=
  if existsb (fun v => verb_matches v cmd) (tc_verbs c) then [obs_line c s cmd] else [].

(* one server line: the internal handlers (Model/Client.v), then the foreground observer *)
Definition line_step (c : tcase) (s : cstate) (raw : bytes) : cstate * list bytes :=
  let r := client_line s raw in
  (fst r, snd r ++ match Line.recv_one raw with
                   | GoBytes.Ok (Some l) => observer c (fst r) (Line.l_cmd l)
                   | _ => []
                   end).

(* the marker is an ordinary server line for the client: its PONG closes the interval; what
   the observer writes for the marker line itself comes after the PONG: next interval *)
Definition mark_step (c : tcase) (s : cstate) (k : nat) (pend : list bytes) : cstate * list bytes * list bytes :=
  let r := client_line s (marker_line k ++ crlf) in
  (fst r, if bool_decide (snd r = [marker_pong k]) then pend else pend ++ snd r ++ [t_nopong],
   observer c (fst r) Commands.s_PING).

Fixpoint predict_t (c : tcase) (s : cstate) (k : nat) (pend : list bytes) (its : list titem) : cstate * list bytes :=
  match its with
  | [] => (s, [])
  | TLine raw :: r =>
      let x := line_step c s (raw ++ crlf) in predict_t c (fst x) k (pend ++ snd x) r
  | TMark :: r =>
      let x := mark_step c s k pend in
      let y := predict_t c (fst (fst x)) (S k) (snd x) r in
      (fst y, rec_ t_Q (snd (fst x)) ++ snd y)
  end.

Definition enc_me (m : option NickHandlers.nickrec) : list bytes :=
  match m with
  | None => [t_nil; []]
  | Some r => [t_ok; NickHandlers.nk_nick r]
  end.

Definition final_obs (c : tcase) (s : cstate) : list bytes :=
  rec_ t_E (enc_me (c_me s) ++ enc_me (snd (client_Me s)))
  ++ rec_ t_D (match c_trk s with Some t => dump (tc_U c) t | None => [] end)
  ++ rec_ t_H (concat (map (fun n => [enc_bool (Caps.cap_has (Caps.cs_current (c_caps s)) n);
                                      enc_bool (Caps.cap_has (Caps.cs_supported (c_caps s)) n)])
                           (tc_capsU c))).

Definition model_transcript (i : list bytes) : list bytes :=
  match decode_transcript i with
  | None => [[98;97;100]%N]
  | Some c =>
      let s0 := tc_state0 c in
      let x := mark_step c s0 1 (client_register s0 ++ observer c s0 s_REGISTER) in
      let y := predict_t c (fst (fst x)) 2 (snd x) (tc_items c) in
      rec_ t_R (snd (fst x)) ++ snd y ++ final_obs c (fst y)
  end.

(* ---------- C02's claim on the IMPLEMENTATION's observation ---------- *)
Definition s_tk : bytes := [116;107]%N.                                        (* "tk" *)
Definition tok_of (j : nat) : bytes := s_tk ++ GoBytes.dec_of_Z (Z.of_nat j).
Definition pre_pong_tk : bytes := Commands.s_PONG ++ Commands.s_sp_colon ++ s_tk.       (* "PONG :tk" *)
Definition pre_ping_tk : bytes := Commands.s_PING ++ Commands.s_sp_colon ++ s_tk.       (* "PING :tk" *)
Definition mid_ctcp_ping : bytes := Commands.s_sp_colon ++ [1%N] ++ Commands.s_PING ++ Commands.s_sp ++ s_tk.

(* further probes (well-formed lines the generator places AFTER hostile ones of the same verb):
     ":pr<j>!u@h PRIVMSG <t> :\001VERSION\001"            -> "NOTICE pr<j> :\001VERSION ..."
     ":irc.example 433 * q<j>x :..."                       -> "NICK q<j>..."
     ":probe.example CAP * LS :a b" / "... CAP * ACK :a"   -> a "CAP REQ :" / "CAP END" / "AUTHENTICATE " line *)
Definition a_ (l : list N) : bytes := l.
Definition pre_notice_pr : bytes := Commands.s_NOTICE ++ Commands.s_sp ++ a_ [112;114]%N.            (* "NOTICE pr" *)
Definition mid_version : bytes := Commands.s_sp_colon ++ [1%N] ++ Commands.s_VERSION.               (* " :\001VERSION" *)
Definition pre_nick_q : bytes := Commands.s_NICK ++ Commands.s_sp ++ a_ [113]%N.                    (* "NICK q" *)
Definition pre_in_pr : bytes := a_ [58;112;114]%N.                                                  (* ":pr" *)
Definition mid_in_pr : bytes := a_ [33;117;64;104;32]%N ++ Commands.s_PRIVMSG ++ Commands.s_sp.       (* "!u@h PRIVMSG " *)
Definition suf_in_version : bytes := mid_version ++ [1%N].                                          (* " :\001VERSION\001" *)
Definition pre_in_433 : bytes :=
  a_ [58;105;114;99;46;101;120;97;109;112;108;101;32;52;51;51;32;42;32;113]%N.                      (* ":irc.example 433 * q" *)
Definition mid_in_433 : bytes := a_ [120;32;58]%N.                                                  (* "x :" *)
Definition pre_in_cap : bytes :=
  a_ [58;112;114;111;98;101;46;101;120;97;109;112;108;101;32]%N ++ Commands.s_CAP ++ a_ [32;42;32]%N. (* ":probe.example CAP * " *)
Definition is_digit (c : N) : bool := (48 <=? c)%N && (c <=? 57)%N.
Fixpoint lead_digits (s : bytes) : bytes * bytes :=
  match s with
  | c :: r => if is_digit c then let x := lead_digits r in (c :: fst x, snd x) else ([], s)
  | [] => ([], [])
  end.
Definition num_then (s : bytes) (p : bytes -> bool) : option nat :=
  let x := lead_digits s in
  match fst x with [] => None | d => if p (snd x) then nat_of d else None end.

(* the probe token an output line carries *)
Definition out_tag (l : bytes) : option nat :=
  match Commands.strip_prefix l pre_pong_tk with
  | Some d => nat_of d
  | None =>
      match Commands.strip_prefix l pre_notice_pr with
      | Some r => num_then r (fun t => GoBytes.has_prefix t mid_version)
      | None =>
          match Commands.strip_prefix l pre_nick_q with
          | Some r => num_then r (fun _ => true)
          | None =>
              if GoBytes.has_prefix l (Commands.s_NOTICE ++ Commands.s_sp) then
                match GoBytes.split2 l mid_ctcp_ping with
                | [_; rest] => match Commands.strip_suffix rest [1%N] with Some d => nat_of d | None => None end
                | _ => None
                end
              else None
          end
      end
  end.

(* an input line that is exactly one of the tagged probes: its index *)
Definition in_ping_tag (raw : bytes) : option nat :=
  match Commands.strip_prefix raw pre_ping_tk with
  | Some d => nat_of d
  | None =>
      match Commands.strip_prefix raw pre_in_pr with
      | Some r => num_then r (fun t => GoBytes.has_prefix t mid_in_pr && GoBytes.has_suffix t suf_in_version)
      | None =>
          match Commands.strip_prefix raw pre_in_433 with
          | Some r => num_then r (fun t => GoBytes.has_prefix t mid_in_433)
          | None => None
          end
      end
  end.
(* a well-formed CAP LS / ACK probe, and the lines that count as its being handled *)
Definition in_cap_probe (raw : bytes) : bool :=
  GoBytes.has_prefix raw (pre_in_cap ++ Caps.s_LS ++ Commands.s_sp_colon)
  || GoBytes.has_prefix raw (pre_in_cap ++ Caps.s_ACK ++ Commands.s_sp_colon).
Definition is_cap_reply (l : bytes) : bool :=
  GoBytes.has_prefix l Caps.line_cap_end || GoBytes.has_prefix l Caps.pre_cap_req || GoBytes.has_prefix l Caps.pre_auth.

(* tags of a group are non-decreasing item indices j with lo <= j < hi (a reply split over
   several lines repeats its tag) *)
Fixpoint tags_ok (lo hi : nat) (tags : list nat) : bool :=
  match tags with
  | [] => true
  | j :: r => Nat.leb lo j && Nat.ltb j hi && tags_ok j hi r
  end.

(* [idx] = index of the current item; [lo] = 1 + index of the previous marker (0 at the start);
   [need] = tagged probes of the current interval that must be answered in it; [ncap] = CAP
   probes of the interval: at least that many CAP REQ / CAP END / AUTHENTICATE lines in it *)
Fixpoint judge_t (its : list titem) (idx lo : nat) (need : list nat) (ncap : nat) (o : list bytes) : option (list bytes) :=
  match its with
  | [] => match need, ncap with [], O => Some o | _, _ => None end
  | TLine raw :: r =>
      let need' := match in_ping_tag raw with
                   | Some j => if Nat.eqb j idx then need ++ [j] else need
                   | None => need
                   end in
      judge_t r (S idx) lo need' (if in_cap_probe raw then S ncap else ncap) o
  | TMark :: r =>
      match next_rec o with
      | Some (tag, ls, o') =>
          let tags := omap out_tag ls in
          if bool_decide (tag = t_Q) && tags_ok lo idx tags
             && forallb (fun j => existsb (Nat.eqb j) tags) need
             && Nat.leb ncap (length (filter (fun l => is_cap_reply l = true) ls))
          then judge_t r (S idx) (S idx) [] O o'
          else None
      | None => None
      end
  end.

Definition C02_transcript_ok (its : list titem) (o : list bytes) : bool :=
  match next_rec o with
  | Some (tr, rl, o1) =>
      bool_decide (tr = t_R)
      && match omap out_tag rl with [] => true | _ => false end
      && match judge_t its 0 0 [] O o1 with
         | Some o2 =>
             match next_rec o2 with
             | Some (te, _, o3) =>
                 match next_rec o3 with
                 | Some (td, _, o4) =>
                     match next_rec o4 with
                     | Some (th, _, o5) =>
                         bool_decide (te = t_E) && bool_decide (td = t_D) && bool_decide (th = t_H)
                         && match o5 with [] => true | _ => false end
                     | None => false
                     end
                 | None => false
                 end
             | None => false
             end
         | None => false
         end
  | None => false
  end.

Definition oracle_transcript (i o : list bytes) : bool :=
  match decode_transcript i with
  | Some c => C02_transcript_ok (tc_items c) o
  | None => false
  end.

(* the oracle holds of the model's own prediction whenever ... (ClientProofs: pong_in_order
   gives the marker part for every session) — evaluated case by case by the check *)
