(* Model/Net.v — C13: a model IRC NETWORK, the ground truth the tracker is compared with.
   Nothing here transliterates goirc code: this is the specification side.

   TRUTH     users (nick |-> user, host, real name), channels (topic, modes incl. key and
             limit), membership (channel, nick) |-> the SET of privileges q a o h v.
   EVENTS    a user connects / joins / parts / is kicked / quits / changes nick; topic change;
             mode change (several changes per line: boolean flags, +k/-k, +l/-l, privileges,
             list modes); the server's replies to the requests a tracking client makes
             (324 to MODE #c, 352*/315 to WHO #c and WHO nick).  The client is the user [n_me].
   LINES     [lines_for net ev]: what a conformant server shows THIS client for the event —
             nothing if the client cannot see it.
   VIEW      [n_view]: what the protocol has REVEALED to the client so far, in the shape of a
             tracker state: its channels, the users sharing them, per membership the highest
             NAMES prefix then every MODE change, user@host from the JOIN line and user@host +
             real name from WHO replies, topics, and channel modes as far as MODE lines and 324
             replies told.  Property C13 = "the tracker equals the view" (Proofs/NetProofs*.v:
             simulation) + "the view is the truth restricted to the client's channels, as far
             as revealed" (Proofs/NetView.v).

   CHOICES ("conformant server", each also made by the Go simulator in harness/c13.go):
   * invalid events (join while on the channel, part/kick of a non-member, nick onto a name in
     use, mode change naming a non-member, ...) change nothing and show nothing (the error
     numeric a real server sends to the offender is not tracked state);
   * a channel exists while it has members; its creator gets +o; topic/modes die with it;
   * own JOIN: echo, 332 iff the topic is non-empty, 353 lines of at most [names_per_line]
     names in bytewise order, each with its HIGHEST prefix among ~ & @ % + (no multi-prefix),
     symbol "=", then 366;
   * 324 lists the boolean flags in the order p s t n m i O z r Z, then k, then l, with the key
     and the limit as arguments; "+" alone when nothing is set; sent for any existing channel;
   * WHO #c: one 352 per member iff the client is on #c (other channels: nobody is visible),
     flags "H" + the highest prefix, trailing "0 <real name>", then 315; WHO nick: one 352
     with channel "*" iff the user exists, then 315;
   * JOIN/PART/KICK/MODE/TOPIC of others only for channels the client is on; NICK/QUIT only
     for users sharing a channel with the client (and the client's own NICK);
   * -k carries the key as argument (RFC 2812), -l carries none.
   OUTSIDE THE CLAIM (property text): user modes derived from WHO flags (the view records what
   the handler derives, the oracle masks them); mode lines in which an argument-taking letter
   follows "-k" — [modes_inclaim].  List modes b e I with their mask are INSIDE the claim (any
   position in a mode line; the view ignores the lists, the tracker skips the mask: D10 fixed).
   Other parametrised, server-specific modes (+f, +j, +L, ...) are not modelled.

   std++ side; LineSend (msg/render/expected) is Required, not Imported.  Executable only. *)
From Verif Require Export TrackerSpec.
From Verif Require GoBytes LineLib Line LineSend.
Open Scope Z_scope.

(* ---------- truth ---------- *)
Record uinfo := { ui_user : bytes; ui_host : bytes; ui_real : bytes }.

Record net := {
  n_users : gmap name uinfo;
  n_chans : gmap name chanattr;
  n_member : gmap (name * name) privs;
  n_view : tstate
}.
Definition n_me (nt : net) : name := ts_me (n_view nt).

Inductive mchange :=
| MFlag (add : bool) (c : N)                 (* one of p s t n m i O z r Z *)
| MKey (add : bool) (k : bytes)              (* +k key / -k key *)
| MLimit (add : bool) (l : Z)                (* +l n / -l (number ignored) *)
| MPriv (add : bool) (c : N) (n : name)      (* q a o h v for a member *)
| MList (add : bool) (c : N) (mask : bytes). (* b e I: list modes; not tracked, mask skipped *)

Inductive event :=
| EConnect (n : name) (u h r : bytes)
| EJoin (n c : name)
| EPart (n c : name) (msg : bytes)
| EKick (actor c victim : name) (msg : bytes)
| EQuit (n : name) (msg : bytes)
| ENick (old neu : name)
| ETopic (actor c : name) (t : bytes)
| EMode (actor c : name) (chs : list mchange)
| EReplyMode (c : name)
| EReplyWhoChan (c : name)
| EReplyWhoNick (n : name).

(* ---------- names ---------- *)
Definition srv_name : bytes := [105;114;99;46;101;120;97;109;112;108;101]%N.   (* "irc.example" *)
Definition first_in (w : bytes) (set : bytes) : bool :=
  match w with c :: _ => GoBytes.mem_byte c set | [] => false end.
(* a nick: a word without '!' '@', not starting with a NAMES prefix, '#' or ':' *)
Definition nick_ok (w : bytes) : bool :=
  LineSend.name_ok w && negb (first_in w [126;38;64;37;43;35;58]%N).
(* a channel: a word starting with '#' *)
Definition chan_ok (w : bytes) : bool :=
  LineSend.word_ok w && first_in w [35]%N.
Definition text_ok (t : bytes) : bool := forallb LineSend.trailing_byte t.

Definition onb (m : gmap (name * name) privs) (c n : name) : bool := bool_decide (is_Some (m !! (c, n))).
Definition chan_names (nt : net) : list name := map fst (map_to_list (n_chans nt)).
(* does user [n] share a channel with the client *)
Definition shares (nt : net) (n : name) : bool :=
  existsb (fun c => onb (n_member nt) c (n_me nt) && onb (n_member nt) c n) (chan_names nt).

(* channel [c] occurs in no pair *)
Definition no_chan_pair (mem : gmap (name * name) privs) (c : name) : Prop :=
  map_Forall (fun (k : name * name) (_ : privs) => fst k <> c) mem.
Global Instance no_chan_pair_dec mem c : Decision (no_chan_pair mem c).
Proof. unfold no_chan_pair. apply map_Forall_dec. intros; apply _. Defined.

(* the members of [c] with their privileges, in bytewise order of the nicks *)
Definition chan_members (nt : net) (c : name) : list (name * privs) :=
  sorted_of_map (map_imap (fun n (_ : uinfo) => n_member nt !! (c, n)) (n_users nt)).

(* ---------- privileges and prefixes ---------- *)
Definition op_privs : privs := Build_privs false false true false false.
(* the letter of the highest privilege held: q > a > o > h > v *)
Definition highest_letter (p : privs) : option N :=
  if cp_q p then Some 113%N else if cp_a p then Some 97%N else if cp_o p then Some 111%N
  else if cp_h p then Some 104%N else if cp_v p then Some 118%N else None.
Definition prefix_of_letter (c : N) : N :=
  match c with 113%N => 126%N | 97%N => 38%N | 111%N => 64%N | 104%N => 37%N | _ => 43%N end.
Definition prefix_bytes (p : privs) : bytes :=
  match highest_letter p with Some c => [prefix_of_letter c] | None => [] end.
(* what a NAMES prefix reveals, on top of what was known *)
Definition with_highest (p known : privs) : privs :=
  match highest_letter p with
  | Some c => match priv_char c true known with Some k' => k' | None => known end
  | None => known
  end.

(* ---------- mode changes ---------- *)
Definition chg_sign (m : mchange) : bool :=
  match m with MFlag a _ | MKey a _ | MLimit a _ | MPriv a _ _ | MList a _ _ => a end.
Definition chg_letter (m : mchange) : N :=
  match m with MFlag _ c => c | MKey _ _ => 107%N | MLimit _ _ => 108%N | MPriv _ c _ => c | MList _ c _ => c end.
Definition chg_arg (m : mchange) : option bytes :=
  match m with
  | MFlag _ _ => None
  | MKey _ k => Some k
  | MLimit true l => Some (GoBytes.dec_of_Z l)
  | MLimit false _ => None
  | MPriv _ _ n => Some n
  | MList _ _ mask => Some mask
  end.
Definition sign_byte (b : bool) : N := if b then 43%N else 45%N.
(* the mode string: a sign is written when it differs from the previous one *)
Fixpoint render_modes (cur : option bool) (chs : list mchange) : bytes :=
  match chs with
  | [] => []
  | m :: r => (if bool_decide (cur = Some (chg_sign m)) then [] else [sign_byte (chg_sign m)])
              ++ chg_letter m :: render_modes (Some (chg_sign m)) r
  end.
Definition mode_args (chs : list mchange) : list bytes := omap chg_arg chs.

(* the meaning of one change for channel [ch]: its modes and the privileges of its members *)
Definition apply_change (ch : name) (st : chanmode * gmap (name * name) privs) (m : mchange)
  : chanmode * gmap (name * name) privs :=
  match m with
  | MFlag add c => match chan_flag_char c add (fst st) with Some cm' => (cm', snd st) | None => st end
  | MKey add k => (set_key (if add then k else []) (fst st), snd st)
  | MLimit add l => (set_limit (if add then l else 0) (fst st), snd st)
  | MPriv add c n =>
      match snd st !! (ch, n) with
      | Some p => match priv_char c add p with
                  | Some p' => (fst st, <[(ch, n) := p']> (snd st))
                  | None => st
                  end
      | None => st
      end
  | MList _ _ _ => st
  end.
Definition apply_changes (ch : name) (chs : list mchange) (st : chanmode * gmap (name * name) privs) :=
  fold_left (apply_change ch) chs st.

Definition is_flag_letter (c : N) : bool :=
  GoBytes.mem_byte c [112;115;116;110;109;105;79;122;114;90]%N.
Definition is_list_letter (c : N) : bool := GoBytes.mem_byte c [98;101;73]%N.
Definition max_limit : Z := 2147483647.
(* can the server have performed this change on channel [c] *)
Definition chg_valid (mem : gmap (name * name) privs) (c : name) (m : mchange) : bool :=
  match m with
  | MFlag _ x => is_flag_letter x
  | MKey _ k => LineSend.middle_ok k
  | MLimit true l => (0 <? l) && (l <=? max_limit)
  | MLimit false _ => true
  | MPriv _ x n => is_priv_char x && onb mem c n
  | MList _ x mask => is_list_letter x && LineSend.middle_ok mask
  end.
(* does the letter take an argument FROM THE TRACKER'S point of view (channel.parseModes):
   +k, +l, the privileges, and — since the D10 fix — the list modes b e I (their mask) *)
Definition chg_consumes (m : mchange) : bool :=
  match m with
  | MKey true _ | MLimit true _ | MPriv _ _ _ | MList _ _ _ => true
  | _ => false
  end.
(* does the change leave an argument behind that the tracker does not consume: only "-k key" *)
Definition chg_leaves (m : mchange) : bool :=
  match m with MKey false _ => true | _ => false end.
(* INSIDE THE CLAIM: no argument-taking letter after "-k" in the same line (property text) *)
Fixpoint modes_inclaim_from (dirty : bool) (chs : list mchange) : bool :=
  match chs with
  | [] => true
  | m :: r => negb (dirty && chg_consumes m) && modes_inclaim_from (dirty || chg_leaves m) r
  end.
Definition modes_inclaim (chs : list mchange) : bool := modes_inclaim_from false chs.

(* the changes a 324 reply lists for modes [cm] *)
Definition flag_changes (cm : chanmode) : list mchange :=
  let f (b : bool) (c : N) := if b then [MFlag true c] else [] in
  f (cm_p cm) 112%N ++ f (cm_s cm) 115%N ++ f (cm_t cm) 116%N ++ f (cm_n cm) 110%N ++ f (cm_m cm) 109%N ++
  f (cm_i cm) 105%N ++ f (cm_O cm) 79%N ++ f (cm_z cm) 122%N ++ f (cm_r cm) 114%N ++ f (cm_Z cm) 90%N.
Definition reply_changes (cm : chanmode) : list mchange :=
  flag_changes cm
  ++ (match cm_key cm with [] => [] | k => [MKey true k] end)
  ++ (if cm_limit cm =? 0 then [] else [MLimit true (cm_limit cm)]).
Definition reply_modestring (chs : list mchange) : bytes :=
  match chs with [] => [43%N] | _ => render_modes None chs end.

(* ---------- validity of an event in a state ---------- *)
Definition ev_valid (nt : net) (e : event) : bool :=
  match e with
  | EConnect n u h r =>
      nick_ok n && LineSend.name_ok u && LineSend.name_ok h && text_ok r
      && LineSend.middle_ok u && LineSend.middle_ok h
      && bool_decide (n_users nt !! n = None)
  | EJoin n c =>
      bool_decide (is_Some (n_users nt !! n)) && chan_ok c && negb (onb (n_member nt) c n)
  | EPart n c msg => onb (n_member nt) c n && text_ok msg
  | EKick a c v msg => onb (n_member nt) c v && bool_decide (is_Some (n_users nt !! a)) && text_ok msg
  | EQuit n msg => bool_decide (is_Some (n_users nt !! n)) && negb (bool_decide (n = n_me nt)) && text_ok msg
  | ENick o w => bool_decide (is_Some (n_users nt !! o)) && bool_decide (n_users nt !! w = None) && nick_ok w
  | ETopic a c t => bool_decide (is_Some (n_chans nt !! c)) && bool_decide (is_Some (n_users nt !! a)) && text_ok t
  | EMode a c chs =>
      bool_decide (is_Some (n_chans nt !! c)) && bool_decide (is_Some (n_users nt !! a))
      && forallb (chg_valid (n_member nt) c) chs
      && Nat.leb 1 (length chs) && Nat.leb (length chs) 8
  | EReplyMode c => true
  | EReplyWhoChan c => chan_ok c          (* a WHO the server can answer names a channel ... *)
  | EReplyWhoNick n => nick_ok n          (* ... or a nick *)
  end.

(* ---------- the view: what each event reveals ---------- *)
Definition v_set_nicks (t : tstate) (m : gmap name nickattr) : tstate :=
  {| ts_me := ts_me t; ts_nicks := m; ts_chans := ts_chans t; ts_member := ts_member t |}.
Definition v_set_chans (t : tstate) (m : gmap name chanattr) : tstate :=
  {| ts_me := ts_me t; ts_nicks := ts_nicks t; ts_chans := m; ts_member := ts_member t |}.
Definition v_set_member (t : tstate) (m : gmap (name * name) privs) : tstate :=
  {| ts_me := ts_me t; ts_nicks := ts_nicks t; ts_chans := ts_chans t; ts_member := m |}.

(* a nick becomes known with attributes [a] unless it is known already *)
Definition v_learn_nick (t : tstate) (n : name) (a : nickattr) : tstate :=
  match ts_nicks t !! n with
  | Some _ => t
  | None => v_set_nicks t (<[n := a]> (ts_nicks t))
  end.
(* another user joins a channel of the client: the JOIN line shows user@host *)
Definition v_other_join (t : tstate) (n c : name) (ui : uinfo) : tstate :=
  let t1 := v_learn_nick t n (Build_nickattr (ui_user ui) (ui_host ui) [] no_nickmode) in
  v_set_member t1 (<[(c, n) := no_privs]> (ts_member t1)).
(* one NAMES entry for channel [c] *)
Definition v_reveal_name (c : name) (t : tstate) (e : name * privs) : tstate :=
  let t1 := v_learn_nick t (fst e) new_nickattr in
  let known := default no_privs (ts_member t1 !! (c, fst e)) in
  v_set_member t1 (<[(c, fst e) := with_highest (snd e) known]> (ts_member t1)).
(* the client joins [c]: channel with its topic, then the NAMES list *)
Definition v_self_join (t : tstate) (c : name) (topic : bytes) (members : list (name * privs)) : tstate :=
  let t1 := v_set_chans t (<[c := Build_chanattr topic no_chanmode]> (ts_chans t)) in
  let t2 := v_set_member t1 (<[(c, ts_me t) := no_privs]> (ts_member t1)) in
  fold_left (v_reveal_name c) members t2.
(* a WHO reply about [n] (the "H" flag makes the handler set +i: outside the claim, recorded) *)
Definition v_reveal_who (t : tstate) (n : name) (ui : uinfo) : tstate :=
  if decide (n = ts_me t) then t
  else match ts_nicks t !! n with
       | Some a => v_set_nicks t (<[n := Build_nickattr (ui_user ui) (ui_host ui) (ui_real ui)
                                                        (nick_mode_char 105%N true (na_modes a))]> (ts_nicks t))
       | None => t
       end.
Definition v_topic (t : tstate) (c : name) (topic : bytes) : tstate :=
  match ts_chans t !! c with
  | Some a => v_set_chans t (<[c := Build_chanattr topic (ca_modes a)]> (ts_chans t))
  | None => t
  end.
Definition v_modes (t : tstate) (c : name) (chs : list mchange) : tstate :=
  match ts_chans t !! c with
  | Some a => let r := apply_changes c chs (ca_modes a, ts_member t) in
              {| ts_me := ts_me t; ts_nicks := ts_nicks t;
                 ts_chans := <[c := Build_chanattr (ca_topic a) (fst r)]> (ts_chans t);
                 ts_member := snd r |}
  | None => t
  end.

(* ---------- the transition ---------- *)
Definition set_view (nt : net) (v : tstate) : net :=
  {| n_users := n_users nt; n_chans := n_chans nt; n_member := n_member nt; n_view := v |}.

(* remove the pair (c, n); the channel dies with its last member *)
Definition leave (nt : net) (c n : name) : net :=
  let mem' := delete (c, n) (n_member nt) in
  {| n_users := n_users nt;
     n_chans := if decide (no_chan_pair mem' c) then delete c (n_chans nt) else n_chans nt;
     n_member := mem';
     n_view := sp_Dissociate (n_view nt) c n |}.

Definition user_or_empty (nt : net) (n : name) : uinfo :=
  default (Build_uinfo [] [] []) (n_users nt !! n).

Definition step (nt : net) (e : event) : net :=
  if negb (ev_valid nt e) then nt
  else
  match e with
  | EConnect n u h r =>
      {| n_users := <[n := Build_uinfo u h r]> (n_users nt); n_chans := n_chans nt;
         n_member := n_member nt; n_view := n_view nt |}
  | EJoin n c =>
      let fresh := bool_decide (n_chans nt !! c = None) in
      let nt1 := {| n_users := n_users nt;
                    n_chans := if fresh then <[c := new_chanattr]> (n_chans nt) else n_chans nt;
                    n_member := <[(c, n) := if fresh then op_privs else no_privs]> (n_member nt);
                    n_view := n_view nt |} in
      if decide (n = n_me nt) then
        set_view nt1 (v_self_join (n_view nt) c (ca_topic (default new_chanattr (n_chans nt1 !! c)))
                                  (chan_members nt1 c))
      else if onb (n_member nt) c (n_me nt) then
        set_view nt1 (v_other_join (n_view nt) n c (user_or_empty nt n))
      else nt1
  | EPart n c _ => leave nt c n
  | EKick _ c v _ => leave nt c v
  | EQuit n _ =>
      let mem' := drop_nick_pairs n (n_member nt) in
      {| n_users := delete n (n_users nt);
         n_chans := filter (fun kv : name * chanattr => ~ no_chan_pair mem' (fst kv)) (n_chans nt);
         n_member := mem';
         n_view := fst (sp_DelNick (n_view nt) n) |}
  | ENick o w =>
      {| n_users := <[w := user_or_empty nt o]> (delete o (n_users nt));
         n_chans := n_chans nt;
         n_member := rekey o w (n_member nt);
         n_view := fst (sp_ReNick (n_view nt) o w) |}
  | ETopic _ c t =>
      {| n_users := n_users nt;
         n_chans := match n_chans nt !! c with
                    | Some a => <[c := Build_chanattr t (ca_modes a)]> (n_chans nt)
                    | None => n_chans nt
                    end;
         n_member := n_member nt;
         n_view := v_topic (n_view nt) c t |}
  | EMode _ c chs =>
      match n_chans nt !! c with
      | Some a =>
          let r := apply_changes c chs (ca_modes a, n_member nt) in
          {| n_users := n_users nt;
             n_chans := <[c := Build_chanattr (ca_topic a) (fst r)]> (n_chans nt);
             n_member := snd r;
             n_view := v_modes (n_view nt) c chs |}
      | None => nt
      end
  | EReplyMode c =>
      match n_chans nt !! c with
      | Some a => set_view nt (v_modes (n_view nt) c (reply_changes (ca_modes a)))
      | None => nt
      end
  | EReplyWhoChan c =>
      if onb (n_member nt) c (n_me nt)
      then set_view nt (fold_left (fun t e => v_reveal_who t (fst e) (user_or_empty nt (fst e)))
                                  (chan_members nt c) (n_view nt))
      else nt
  | EReplyWhoNick n =>
      match n_users nt !! n with
      | Some ui => set_view nt (v_reveal_who (n_view nt) n ui)
      | None => nt
      end
  end.

(* ---------- what the server shows the client ---------- *)
Definition v_JOIN : bytes := [74;79;73;78]%N.
Definition v_PART : bytes := [80;65;82;84]%N.
Definition v_KICK : bytes := [75;73;67;75]%N.
Definition v_QUIT : bytes := [81;85;73;84]%N.
Definition v_NICK : bytes := [78;73;67;75]%N.
Definition v_TOPIC : bytes := [84;79;80;73;67]%N.
Definition v_MODE : bytes := [77;79;68;69]%N.
Definition v_315 : bytes := [51;49;53]%N.
Definition v_324 : bytes := [51;50;52]%N.
Definition v_332 : bytes := [51;51;50]%N.
Definition v_352 : bytes := [51;53;50]%N.
Definition v_353 : bytes := [51;53;51]%N.
Definition v_366 : bytes := [51;54;54]%N.
Definition t_end_names : bytes := [69;110;100;32;111;102;32;47;78;65;77;69;83;32;108;105;115;116;46]%N. (* "End of /NAMES list." *)
Definition t_end_who : bytes := [69;110;100;32;111;102;32;47;87;72;79;32;108;105;115;116;46]%N.          (* "End of /WHO list." *)
Definition s_eqsym : bytes := [61]%N.
Definition s_starsym : bytes := [42]%N.

Definition mk (src : LineSend.source) (verb : bytes) (mids : list bytes) (tr : option bytes) : LineSend.msg :=
  LineSend.Build_msg None (Some src) verb (map (fun p => (0%nat, p)) mids) tr.
Definition srv : LineSend.source := LineSend.SrcServer srv_name.
Definition usrc (nt : net) (n : name) : LineSend.source :=
  match n_users nt !! n with
  | Some ui => LineSend.SrcUser n (ui_user ui) (ui_host ui)
  | None => srv
  end.

Definition names_per_line : nat := 4.
Fixpoint chunks_aux {A} (k : nat) (cur : list A) (room : nat) (l : list A) : list (list A) :=
  match l with
  | [] => match cur with [] => [] | _ => [rev cur] end
  | x :: l' => match room with
               | O => rev cur :: chunks_aux k [x] (k - 1) l'
               | S r => chunks_aux k (x :: cur) r l'
               end
  end.
Definition chunks {A} (k : nat) (l : list A) : list (list A) := chunks_aux k [] k l.

Definition name_token (e : name * privs) : bytes := prefix_bytes (snd e) ++ fst e.
Definition names_msg (me c : name) (es : list (name * privs)) : LineSend.msg :=
  mk srv v_353 [me; s_eqsym; c] (Some (GoBytes.join (map name_token es) [32%N])).
Definition who_msg (me chan n : name) (ui : uinfo) (p : privs) : LineSend.msg :=
  mk srv v_352 [me; chan; ui_user ui; ui_host ui; srv_name; n; 72%N :: prefix_bytes p]
     (Some (48%N :: 32%N :: ui_real ui)).

Definition lines_for (nt : net) (e : event) : list LineSend.msg :=
  if negb (ev_valid nt e) then []
  else
  let me := n_me nt in
  let nt' := step nt e in
  match e with
  | EConnect _ _ _ _ => []
  | EJoin n c =>
      if decide (n = me) then
        let topic := ca_topic (default new_chanattr (n_chans nt' !! c)) in
        [mk (usrc nt n) v_JOIN [c] None]
        ++ (match topic with [] => [] | _ => [mk srv v_332 [me; c] (Some topic)] end)
        ++ map (names_msg me c) (chunks names_per_line (chan_members nt' c))
        ++ [mk srv v_366 [me; c] (Some t_end_names)]
      else if onb (n_member nt) c me then [mk (usrc nt n) v_JOIN [c] None]
      else []
  | EPart n c msg => if onb (n_member nt) c me then [mk (usrc nt n) v_PART [c] (Some msg)] else []
  | EKick a c v msg => if onb (n_member nt) c me then [mk (usrc nt a) v_KICK [c; v] (Some msg)] else []
  | EQuit n msg => if shares nt n then [mk (usrc nt n) v_QUIT [] (Some msg)] else []
  | ENick o w => if bool_decide (o = me) || shares nt o then [mk (usrc nt o) v_NICK [w] None] else []
  | ETopic a c t => if onb (n_member nt) c me then [mk (usrc nt a) v_TOPIC [c] (Some t)] else []
  | EMode a c chs =>
      if onb (n_member nt) c me
      then [mk (usrc nt a) v_MODE ([c; render_modes None chs] ++ mode_args chs) None]
      else []
  | EReplyMode c =>
      match n_chans nt !! c with
      | Some a => let chs := reply_changes (ca_modes a) in
                  [mk srv v_324 ([me; c; reply_modestring chs] ++ mode_args chs) None]
      | None => []
      end
  | EReplyWhoChan c =>
      (if onb (n_member nt) c me
       then map (fun e => who_msg me c (fst e) (user_or_empty nt (fst e)) (snd e)) (chan_members nt c)
       else [])
      ++ [mk srv v_315 [me; c] (Some t_end_who)]
  | EReplyWhoNick n =>
      (match n_users nt !! n with
       | Some ui => [who_msg me s_starsym n ui no_privs]
       | None => []
       end)
      ++ [mk srv v_315 [me; n] (Some t_end_who)]
  end.

(* ---------- sessions ---------- *)
(* the network when the client has just registered as [me]: the client is connected, other
   users may be; no channels.  [attr] = what the client knows about itself (connection.go
   EnableStateTracking + handlers.go h_001: C17's subject). *)
Definition view0 (me : name) (attr : nickattr) : tstate :=
  {| ts_me := me; ts_nicks := {[ me := attr ]}; ts_chans := ∅; ts_member := ∅ |}.
Definition net0 (me : name) (ui : uinfo) (attr : nickattr) : net :=
  {| n_users := {[ me := ui ]}; n_chans := ∅; n_member := ∅; n_view := view0 me attr |}.

Definition run_net (nt : net) (evs : list event) : net := fold_left step evs nt.

(* is the whole event inside the claim (only mode lines can fall outside) *)
Definition ev_inclaim (e : event) : bool :=
  match e with EMode _ _ chs => modes_inclaim chs | _ => true end.
