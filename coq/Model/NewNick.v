(* Model/NewNick.v — client/connection.go DefaultNewNick (used by C17).
   Executable definitions only (no proofs).

     func DefaultNewNick(old string) string {
         if len(old) == 0 { return "_" }
         c := old[len(old)-1]
         switch {
         case c >= '0' && c <= '9': c = '0' + (((c - '0') + 1) % 10)
         case c >= 'A' && c <= '}': c = 'A' + (((c - 'A') + 1) % 61)
         default:                   c = '_'
         }
         return old[:len(old)-1] + string(c)
     }

   [c] is a Go byte (uint8).  Inside the two ranges every intermediate value is at most
   61, so uint8 wrap-around never happens and N arithmetic is exact.  string(c) UTF-8-encodes
   the code point c; every result byte is '0'..'9', 'A'..'}' or '_' (all < 128), i.e. one
   byte.  (NewNickProofs.new_nick_byte_ascii) *)
From Verif Require Import GoBytes.
Open Scope Z_scope.

Definition new_nick_byte (c : N) : N :=
  if (48 <=? c)%N && (c <=? 57)%N then (48 + ((c - 48) + 1) mod 10)%N
  else if (65 <=? c)%N && (c <=? 125)%N then (65 + ((c - 65) + 1) mod 61)%N
  else 95%N.

Definition underscore : bytes := [95%N].

(* statement by statement, index and slice expressions partial *)
Definition default_new_nick_res (old : bytes) : res bytes :=
  if len old =? 0 then Ok underscore
  else
    c <- byte_at old (len old - 1) ;;
    pre <- slice_to old (len old - 1) ;;
    Ok (pre ++ [new_nick_byte c]).

(* total wrapper; NewNickProofs.dnn_no_panic shows the Panic branch is unreachable *)
Definition default_new_nick (old : bytes) : bytes :=
  match default_new_nick_res old with Ok r => r | Panic => [] end.

(* what C17 says about the default generator, as a boolean on (old, new): for a non-empty
   old nick the new one has the same length, is different, and differs only in its last
   byte; the empty nick becomes "_" *)
Definition dnn_ok (old new : bytes) : bool :=
  match old with
  | [] => beq new underscore
  | _ => Nat.eqb (length new) (length old) && negb (beq new old)
         && beq (removelast new) (removelast old)
  end.
