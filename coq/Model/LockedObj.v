(* Model/LockedObj.v — C14, part B: an object whose every method is bracketed by ONE mutex,
   shared by any number of caller threads (Lib/Lts.v style: [step : St -> Tid -> option St],
   arbitrary schedules).  Generic in the sequential object [step : St -> Op -> St * Res];
   Props/C14.v instantiates it with the tracker's plain model (TrackerSpec.sp_step).

   A call by thread i runs through
       invoke          event; stamps the call                      (method entered)
       lock            enabled iff the mutex is free               st.mu.Lock()
       read+compute    reads the shared fields, computes (new fields, result) locally
       write           stores the new fields: the call TAKES EFFECT (entry appended to [blog])
       unlock                                                      deferred st.mu.Unlock()
       return          event; stamps the call, records it in [done]
   Reading and writing are SEPARATE steps: without the mutex two calls can interleave between
   them and an update is lost ([use_lock = false] is that variant, for the counter-example).
   Every step advances a global clock; stamps are clock readings.
   What this model does not contain: Go's memory model (data races as such). *)
From Coq Require Import List Arith Bool.
From Verif Require Import Lts.
Import ListNotations.

Section LockedObj.
  Variables (St Op Res : Type).
  Variable step : St -> Op -> St * Res.
  Variable use_lock : bool.

  Inductive pc :=
  | PIdle
  | PInvoked (inv : nat)
  | PLocked (inv : nat)
  | PComputed (inv : nat) (s' : St) (r : Res)
  | PWritten (inv : nat) (r : Res)
  | PUnlocked (inv : nat) (r : Res).

  Record thread := { th_todo : list Op; th_pc : pc; th_k : nat }.
  (* a call that has taken effect / a call that has returned *)
  Record bentry := { b_t : nat; b_k : nat; b_op : Op; b_res : Res; b_inv : nat; b_at : nat }.
  Record call := { c_t : nat; c_k : nat; c_op : Op; c_res : Res; c_inv : nat; c_ret : nat }.

  Record lst := { shared : St; mutex : option nat; threads : list thread; clock : nat;
                  blog : list bentry;            (* in the order the calls took effect *)
                  done : list call }.            (* in the order the calls returned *)

  Fixpoint upd {B} (l : list B) (i : nat) (x : B) : list B :=
    match l, i with
    | [], _ => []
    | _ :: l', O => x :: l'
    | y :: l', S i' => y :: upd l' i' x
    end.

  Definition set_pc (s : lst) (i : nat) (th : thread) (p : pc) : lst :=
    {| shared := shared s; mutex := mutex s; threads := upd (threads s) i (Build_thread (th_todo th) p (th_k th));
       clock := S (clock s); blog := blog s; done := done s |}.

  Definition lstep (s : lst) (i : nat) : option lst :=
    match nth_error (threads s) i with
    | None => None
    | Some th =>
        match th_pc th, th_todo th with
        | PIdle, _ :: _ => Some (set_pc s i th (PInvoked (clock s)))
        | PInvoked inv, _ =>
            if use_lock
            then match mutex s with
                 | None => Some {| shared := shared s; mutex := Some i;
                                   threads := upd (threads s) i (Build_thread (th_todo th) (PLocked inv) (th_k th));
                                   clock := S (clock s); blog := blog s; done := done s |}
                 | Some _ => None
                 end
            else Some (set_pc s i th (PLocked inv))
        | PLocked inv, o :: _ => let sr := step (shared s) o in Some (set_pc s i th (PComputed inv (fst sr) (snd sr)))
        | PComputed inv s' r, o :: _ =>
            Some {| shared := s'; mutex := mutex s;
                    threads := upd (threads s) i (Build_thread (th_todo th) (PWritten inv r) (th_k th));
                    clock := S (clock s);
                    blog := blog s ++ [Build_bentry i (th_k th) o r inv (clock s)]; done := done s |}
        | PWritten inv r, _ =>
            Some {| shared := shared s; mutex := if use_lock then None else mutex s;
                    threads := upd (threads s) i (Build_thread (th_todo th) (PUnlocked inv r) (th_k th));
                    clock := S (clock s); blog := blog s; done := done s |}
        | PUnlocked inv r, o :: rest =>
            Some {| shared := shared s; mutex := mutex s;
                    threads := upd (threads s) i (Build_thread rest PIdle (S (th_k th)));
                    clock := S (clock s); blog := blog s;
                    done := done s ++ [Build_call i (th_k th) o r inv (clock s)] |}
        | _, _ => None
        end
    end.

  Definition linit (s0 : St) (progs : list (list Op)) : lst :=
    {| shared := s0; mutex := None; threads := map (fun p => Build_thread p PIdle 0) progs;
       clock := 0; blog := []; done := [] |}.

  (* sequential replay *)
  Fixpoint replay (s : St) (ops : list Op) : St * list Res :=
    match ops with
    | [] => (s, [])
    | o :: ops' => let sr := step s o in let sl := replay (fst sr) ops' in (fst sl, snd sr :: snd sl)
    end.

  Definition quiescent (s : lst) : Prop := Forall (fun th => th_todo th = [] /\ th_pc th = PIdle) (threads s).
End LockedObj.

Arguments PIdle {St Res}. Arguments PInvoked {St Res}. Arguments PLocked {St Res}.
Arguments PComputed {St Res}. Arguments PWritten {St Res}. Arguments PUnlocked {St Res}.
Arguments th_todo {St Op Res}. Arguments th_pc {St Op Res}. Arguments th_k {St Op Res}.
Arguments b_t {Op Res}. Arguments b_k {Op Res}. Arguments b_op {Op Res}. Arguments b_res {Op Res}.
Arguments b_inv {Op Res}. Arguments b_at {Op Res}.
Arguments c_t {Op Res}. Arguments c_k {Op Res}. Arguments c_op {Op Res}. Arguments c_res {Op Res}.
Arguments c_inv {Op Res}. Arguments c_ret {Op Res}.
Arguments shared {St Op Res}. Arguments mutex {St Op Res}. Arguments threads {St Op Res}.
Arguments clock {St Op Res}. Arguments blog {St Op Res}. Arguments done {St Op Res}.
