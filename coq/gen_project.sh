#!/bin/sh
# regenerates the file list of _CoqProject (header lines kept) and the Makefile
cd "$(dirname "$0")"
{ grep -E '^-' _CoqProject; ls Lib/*.v Model/*.v Gen/*.v Proofs/*.v Props/*.v Entry/*.v Extract/*.v 2>/dev/null; } > _CoqProject.new
if ! cmp -s _CoqProject.new _CoqProject; then mv _CoqProject.new _CoqProject; coq_makefile -f _CoqProject -o Makefile >/dev/null; else rm _CoqProject.new; [ -f Makefile ] || coq_makefile -f _CoqProject -o Makefile >/dev/null; fi
