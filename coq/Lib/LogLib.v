(* Lib/LogLib.v — generic helpers for Model/LogModel.v (C20): ASCII string literals as bytes,
   sliding windows of a byte string, and executable ASCII instances of the two fmt verbs whose
   rendering the log model leaves abstract (%q of a string, %.2f of a duration in seconds).
   Executable definitions only (no goirc content, no proofs). *)
From Coq Require Import String Ascii.
From Verif Require Export GoBytes.
Open Scope Z_scope.

(* an ASCII literal as a Go string *)
Fixpoint bs (s : string) : bytes :=
  match s with
  | EmptyString => []
  | String c s' => N_of_ascii c :: bs s'
  end.

(* all windows of exactly [n] consecutive bytes of [s], left to right *)
Fixpoint windows (n : nat) (s : bytes) : list bytes :=
  match s with
  | [] => []
  | _ :: s' => if Nat.leb n (length s) then firstn n s :: windows n s' else []
  end.

(* ---------- strconv.Quote restricted to single bytes ----------
   Exact for ASCII input.  A byte >= 0x80 is rendered \xHH, which is what Go prints for a byte
   that is not part of a valid UTF-8 sequence (valid multi-byte runes are printed literally by
   Go; the correspondence harness only ever quotes ASCII). *)
Definition hex_digit (n : N) : N := if (n <? 10)%N then (48 + n)%N else (87 + n)%N.
Definition quote_byte (c : N) : bytes :=
  match c with
  | 34%N => [92; 34]%N | 92%N => [92; 92]%N
  | 7%N => [92; 97]%N | 8%N => [92; 98]%N | 12%N => [92; 102]%N | 10%N => [92; 110]%N
  | 13%N => [92; 114]%N | 9%N => [92; 116]%N | 11%N => [92; 118]%N
  | _ => if (32 <=? c)%N && (c <? 127)%N then [c]
         else [92; 120; hex_digit (c / 16); hex_digit (c mod 16)]%N
  end.
Definition quote_ascii (s : bytes) : bytes := [34%N] ++ concat (map quote_byte s) ++ [34%N].

(* ---------- fmt's %.2f of time.Duration.Seconds() for a non-negative duration ----------
   [fmt_secs_ascii] rounds the exact decimal value half up, [fmt_secs_dn] half down; they
   differ only when the duration is an exact odd multiple of 5 ms, where Go's answer depends
   on the binary float nearest to the value (2.025 prints 2.02 but 2.075 prints 2.08). *)
Definition two_digits (n : Z) : bytes := [Z.to_N (48 + n / 10); Z.to_N (48 + n mod 10)].
Definition fmt_centis (cs : Z) : bytes := dec_of_Z (cs / 100) ++ [46%N] ++ two_digits (cs mod 100).
Definition fmt_secs_ascii (ns : Z) : bytes := fmt_centis ((ns + 5000000) / 10000000).
Definition fmt_secs_dn (ns : Z) : bytes := fmt_centis ((ns + 4999999) / 10000000).
