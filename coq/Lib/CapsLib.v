(* Lib/CapsLib.v — a Go [map[string]bool] as a canonical finite map: an association list whose
   keys are strictly increasing in Go's string order (bytewise lexicographic).  Because the
   representation is a function of the abstract map, Go's randomised iteration order cannot be
   observed through it; [sort.Strings] on the keys in ANY enumeration order is [isort] and
   yields [km_keys] (Proofs/CapsLibFacts.v: isort_enum).  Executable definitions only. *)
From Verif Require Export GoBytes.
Open Scope Z_scope.

(* Go's string comparison *)
Fixpoint bcmp (a b : bytes) : comparison :=
  match a, b with
  | [], [] => Eq
  | [], _ :: _ => Lt
  | _ :: _, [] => Gt
  | x :: a', y :: b' =>
      match N.compare x y with
      | Eq => bcmp a' b'
      | c => c
      end
  end.
Definition bltb (a b : bytes) : bool := match bcmp a b with Lt => true | _ => false end.

Definition kmap := list (bytes * bool).

Definition km_empty : kmap := [].

(* m[k] = v *)
Fixpoint km_set (m : kmap) (k : bytes) (v : bool) : kmap :=
  match m with
  | [] => [(k, v)]
  | (k', v') :: m' =>
      match bcmp k k' with
      | Lt => (k, v) :: m
      | Eq => (k, v) :: m'
      | Gt => (k', v') :: km_set m' k v
      end
  end.

(* v, ok := m[k] *)
Fixpoint km_get (m : kmap) (k : bytes) : option bool :=
  match m with
  | [] => None
  | (k', v') :: m' => if beq k k' then Some v' else km_get m' k
  end.

(* for k := range m { if !keep(k) { delete(m, k) } } *)
Definition km_filter (keep : bytes -> bool) (m : kmap) : kmap :=
  filter (fun kv => keep (fst kv)) m.

Definition km_keys (m : kmap) : list bytes := map fst m.
Definition km_size (m : kmap) : Z := Z.of_nat (length m).

(* sort.Strings *)
Fixpoint insert_sorted (k : bytes) (l : list bytes) : list bytes :=
  match l with
  | [] => [k]
  | k' :: l' => if bltb k' k then k' :: insert_sorted k l' else k :: l
  end.
Definition isort (l : list bytes) : list bytes := fold_right insert_sorted [] l.

(* sorted, duplicate-free list of the given names (specification-side helper) *)
Definition sort_dedup (l : list bytes) : list bytes :=
  km_keys (fold_left (fun m k => km_set m k true) l km_empty).

Fixpoint blist_eqb (a b : list bytes) : bool :=
  match a, b with
  | [], [] => true
  | x :: a', y :: b' => beq x y && blist_eqb a' b'
  | _, _ => false
  end.

Definition mem_bytes (c : bytes) (l : list bytes) : bool := existsb (beq c) l.
