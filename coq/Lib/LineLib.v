(* Lib/LineLib.v — generic helpers used by Model/Line.v (client/line.go) that are not in
   Lib/GoBytes.v.  Executable definitions only (no goirc content, no proofs). *)
From Verif Require Export GoBytes.
Open Scope Z_scope.

(* len of a []string as a Go int *)
Definition llen {A} (l : list A) : Z := Z.of_nat (length l).

(* l[i] = x on a slice: panics when i is out of range *)
Fixpoint set_nth {A} (l : list A) (i : nat) (x : A) : list A :=
  match l, i with
  | [], _ => []
  | _ :: l', O => x :: l'
  | y :: l', S i' => y :: set_nth l' i' x
  end.
Definition set_elem {A} (l : list A) (i : Z) (x : A) : res (list A) :=
  if (0 <=? i) && (i <? llen l) then Ok (set_nth l (Z.to_nat i) x) else Panic.

(* a left fold whose step may panic (a Go [for ... range] loop with indexing in its body) *)
Fixpoint fold_res {A B} (f : A -> B -> res A) (l : list B) (a : A) : res A :=
  match l with
  | [] => Ok a
  | b :: l' => a' <- f a b ;; fold_res f l' a'
  end.

Definition panicked {A} (r : res A) : bool := negb (is_ok r).

(* equality of []string *)
Fixpoint list_beq (a b : list bytes) : bool :=
  match a, b with
  | [], [] => true
  | x :: a', y :: b' => beq x y && list_beq a' b'
  | _, _ => false
  end.

(* lexicographic order on byte strings (Go's string <) *)
Fixpoint bytes_ltb (a b : bytes) : bool :=
  match a, b with
  | _, [] => false
  | [], _ :: _ => true
  | x :: a', y :: b' => if (x <? y)%N then true else if (y <? x)%N then false else bytes_ltb a' b'
  end.

(* ---------- strings.NewReplacer(old1, new1, old2, new2, ...).Replace ----------
   The generic replacer (used by Go whenever some [old] is longer than one byte): scan left
   to right; at each position the pair that comes FIRST in argument order among those whose
   [old] is a prefix of the rest wins; its [new] is emitted and len(old) bytes are skipped;
   if no pair matches one byte is copied.  Keys are assumed non-empty (Go's behaviour for an
   empty [old] — insertion at every position — is not modelled; goirc has no such key). *)
Fixpoint try_pairs (pairs : list (bytes * bytes)) (s : bytes) : option (bytes * nat) :=
  match pairs with
  | [] => None
  | (k, v) :: ps => if has_prefix s k then Some (v, length k) else try_pairs ps s
  end.

(* [skip] = number of bytes of the current match still to be dropped *)
Fixpoint replace_aux (pairs : list (bytes * bytes)) (s : bytes) (skip : nat) : bytes :=
  match s with
  | [] => []
  | c :: s' =>
      match skip with
      | S k => replace_aux pairs s' k
      | O => match try_pairs pairs s with
             | Some (v, klen) => v ++ replace_aux pairs s' (klen - 1)
             | None => c :: replace_aux pairs s' 0
             end
      end
  end.
Definition replace_pairs (pairs : list (bytes * bytes)) (s : bytes) : bytes :=
  replace_aux pairs s 0.

(* strings.TrimSpace restricted to ASCII white space (Go also trims U+0085, U+00A0, ...) *)
Definition ascii_space : bytes := [9; 10; 11; 12; 13; 32]%N.
Definition trim_space (s : bytes) : bytes := trim s ascii_space.

(* ---------- a Go map[string]string as an association list ----------
   [tags_set] REPLACES an existing binding in place (keys stay unique), so insertion order
   of first occurrence is kept but never observable through [tags_get]/[tags_eqb]/[tags_sort]. *)
Definition tagmap := list (bytes * bytes).

Fixpoint tags_set (m : tagmap) (k v : bytes) : tagmap :=
  match m with
  | [] => [(k, v)]
  | (k', v') :: m' => if beq k k' then (k, v) :: m' else (k', v') :: tags_set m' k v
  end.

Fixpoint tags_get (m : tagmap) (k : bytes) : option bytes :=
  match m with
  | [] => None
  | (k', v') :: m' => if beq k k' then Some v' else tags_get m' k
  end.

Definition opt_beq (a b : option bytes) : bool :=
  match a, b with
  | Some x, Some y => beq x y
  | None, None => true
  | _, _ => false
  end.

(* lookup-based (extensional) equality: same answer for every key bound in either *)
Definition tags_sub (a b : tagmap) : bool :=
  forallb (fun kv => opt_beq (tags_get a (fst kv)) (tags_get b (fst kv))) a.
Definition tags_eqb (a b : tagmap) : bool := tags_sub a b && tags_sub b a.

(* canonical form: sorted by key (insertion sort; keys are unique after [tags_set]) *)
Fixpoint tags_insert (kv : bytes * bytes) (m : tagmap) : tagmap :=
  match m with
  | [] => [kv]
  | kv' :: m' => if bytes_ltb (fst kv') (fst kv) then kv' :: tags_insert kv m' else kv :: m
  end.
Definition tags_sort (m : tagmap) : tagmap := fold_right tags_insert [] m.

Definition opt_tags_eqb (a b : option tagmap) : bool :=
  match a, b with
  | Some x, Some y => tags_eqb x y
  | None, None => true
  | _, _ => false
  end.
