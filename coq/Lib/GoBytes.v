(* Lib/GoBytes.v — Go strings / byte slices as [list N], with the partial
   operations goirc uses.  Executable definitions only (no goirc content, no proofs).

   Conventions (DESIGN.md section 3):
   - a Go string or []byte is [bytes := list N], one N per byte;
   - Go [int] values are [Z]; lengths, indices used for recursion and fuel are [nat];
   - an index or slice expression that Go would panic on yields [Panic], never a default. *)
From Coq Require Export List ZArith NArith Bool Lia.
Export ListNotations.
Open Scope Z_scope.

Definition bytes := list N.

(* ---------- panics as values ---------- *)
Inductive res (A : Type) : Type :=
| Ok : A -> res A
| Panic : res A.
Arguments Ok {A} _.
Arguments Panic {A}.

Definition bind {A B} (r : res A) (f : A -> res B) : res B :=
  match r with Ok a => f a | Panic => Panic end.
Notation "x <- r ;; k" := (bind r (fun x => k))
  (at level 61, r at next level, right associativity).

Definition is_ok {A} (r : res A) : bool :=
  match r with Ok _ => true | Panic => false end.

(* ---------- equality on bytes ---------- *)
Fixpoint beq (a b : bytes) : bool :=
  match a, b with
  | [], [] => true
  | x :: a', y :: b' => N.eqb x y && beq a' b'
  | _, _ => false
  end.

Definition len (s : bytes) : Z := Z.of_nat (length s).

(* ---------- slicing: s[:k], s[k:], s[lo:hi], s[i] ---------- *)
Definition slice_to (s : bytes) (k : Z) : res bytes :=
  if (0 <=? k) && (k <=? len s) then Ok (firstn (Z.to_nat k) s) else Panic.

Definition slice_from (s : bytes) (k : Z) : res bytes :=
  if (0 <=? k) && (k <=? len s) then Ok (skipn (Z.to_nat k) s) else Panic.

Definition slice (s : bytes) (lo hi : Z) : res bytes :=
  if (0 <=? lo) && (lo <=? hi) && (hi <=? len s)
  then Ok (firstn (Z.to_nat (hi - lo)) (skipn (Z.to_nat lo) s)) else Panic.

Definition byte_at (s : bytes) (i : Z) : res N :=
  if (0 <=? i) && (i <? len s)
  then match nth_error s (Z.to_nat i) with Some c => Ok c | None => Panic end
  else Panic.

(* element of a []string *)
Definition elem_at {A} (l : list A) (i : Z) : res A :=
  if (0 <=? i) && (i <? Z.of_nat (length l))
  then match nth_error l (Z.to_nat i) with Some c => Ok c | None => Panic end
  else Panic.

(* l[k:] on a slice of strings *)
Definition elems_from {A} (l : list A) (k : Z) : res (list A) :=
  if (0 <=? k) && (k <=? Z.of_nat (length l)) then Ok (skipn (Z.to_nat k) l) else Panic.

(* ---------- prefix / suffix / search ---------- *)
Fixpoint has_prefix (s p : bytes) {struct p} : bool :=
  match p with
  | [] => true
  | y :: p' => match s with
               | [] => false
               | x :: s' => N.eqb x y && has_prefix s' p'
               end
  end.

Definition has_suffix (s p : bytes) : bool :=
  has_prefix (rev s) (rev p).

(* strings.Index: first position where [sep] occurs, -1 if none *)
Fixpoint index_aux (s sep : bytes) (i : nat) : Z :=
  if has_prefix s sep then Z.of_nat i
  else match s with
       | [] => -1
       | _ :: s' => index_aux s' sep (S i)
       end.
Definition index (s sep : bytes) : Z := index_aux s sep 0.

(* strings.LastIndex: last position where [sep] occurs, -1 if none *)
Fixpoint last_index_aux (s sep : bytes) (i : nat) (acc : Z) : Z :=
  let acc' := if has_prefix s sep then Z.of_nat i else acc in
  match s with
  | [] => acc'
  | _ :: s' => last_index_aux s' sep (S i) acc'
  end.
Definition last_index (s sep : bytes) : Z := last_index_aux s sep 0 (-1).

Definition contains (s sep : bytes) : bool := 0 <=? index s sep.

Definition mem_byte (c : N) (set : bytes) : bool := existsb (N.eqb c) set.

(* ---------- splitting ---------- *)
(* strings.SplitN(s, sep, 2) for non-empty sep: [s] if sep absent, else [before; after] *)
Definition split2 (s sep : bytes) : list bytes :=
  let i := index s sep in
  if i <? 0 then [s]
  else [firstn (Z.to_nat i) s; skipn (Z.to_nat i + length sep) s].

(* strings.Split(s, sep) for a one-byte separator *)
Fixpoint split_byte_aux (s : bytes) (c : N) (cur : bytes) : list bytes :=
  match s with
  | [] => [rev cur]
  | x :: s' => if N.eqb x c then rev cur :: split_byte_aux s' c []
               else split_byte_aux s' c (x :: cur)
  end.
Definition split_byte (s : bytes) (c : N) : list bytes := split_byte_aux s c [].

(* strings.Fields restricted to ASCII white space (\t \n \v \f \r space);
   Go additionally treats U+0085, U+00A0 and other Unicode spaces as separators when
   they occur as valid UTF-8 — outside the modelled byte range, see DESIGN.md. *)
Definition is_space (c : N) : bool :=
  match c with
  | 9%N | 10%N | 11%N | 12%N | 13%N | 32%N => true
  | _ => false
  end.

Fixpoint fields_aux (s : bytes) (cur : bytes) : list bytes :=
  match s with
  | [] => match cur with [] => [] | _ => [rev cur] end
  | x :: s' =>
      if is_space x
      then match cur with [] => fields_aux s' [] | _ => rev cur :: fields_aux s' [] end
      else fields_aux s' (x :: cur)
  end.
Definition fields (s : bytes) : list bytes := fields_aux s [].

(* ---------- trimming ---------- *)
Fixpoint trim_left (s cut : bytes) : bytes :=
  match s with
  | x :: s' => if mem_byte x cut then trim_left s' cut else s
  | [] => []
  end.
Definition trim_right (s cut : bytes) : bytes := rev (trim_left (rev s) cut).
Definition trim (s cut : bytes) : bytes := trim_right (trim_left s cut) cut.

(* ---------- case mapping (ASCII) ---------- *)
Definition upper_byte (c : N) : N :=
  if (97 <=? c)%N && (c <=? 122)%N then (c - 32)%N else c.
Definition lower_byte (c : N) : N :=
  if (65 <=? c)%N && (c <=? 90)%N then (c + 32)%N else c.
Definition to_upper (s : bytes) : bytes := map upper_byte s.
Definition to_lower (s : bytes) : bytes := map lower_byte s.

(* ---------- joining ---------- *)
Fixpoint join (l : list bytes) (sep : bytes) : bytes :=
  match l with
  | [] => []
  | [x] => x
  | x :: l' => x ++ sep ++ join l' sep
  end.

(* ---------- decimal rendering of small naturals / integers (for glue and Sprintf %d) ---------- *)
Fixpoint digits_aux (fuel : nat) (n : N) (acc : bytes) : bytes :=
  match fuel with
  | O => acc
  | S f => let acc' := (48 + n mod 10)%N :: acc in
           if (n <? 10)%N then acc' else digits_aux f (n / 10)%N acc'
  end.
Definition dec_of_N (n : N) : bytes := digits_aux (S (N.to_nat (N.log2 n))) n [].
Definition dec_of_Z (z : Z) : bytes :=
  if z <? 0 then 45%N :: dec_of_N (Z.to_N (- z)) else dec_of_N (Z.to_N z).

Fixpoint N_of_dec_aux (s : bytes) (acc : N) : option N :=
  match s with
  | [] => Some acc
  | c :: s' => if (48 <=? c)%N && (c <=? 57)%N then N_of_dec_aux s' (acc * 10 + (c - 48))%N
               else None
  end.
Definition N_of_dec (s : bytes) : option N :=
  match s with [] => None | _ => N_of_dec_aux s 0%N end.
Definition Z_of_dec (s : bytes) : option Z :=
  match s with
  | 45%N :: s' => option_map (fun n => - Z.of_N n) (N_of_dec s')
  | _ => option_map Z.of_N (N_of_dec s)
  end.
