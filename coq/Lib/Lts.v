(* Lib/Lts.v — labelled transition systems with an arbitrary scheduler.
   A system is [step : St -> Tid -> option St] (None = that thread is not enabled in that
   state: blocked, finished or non-existent).  A schedule is an ARBITRARY [list Tid]; picking
   a disabled thread is a stutter, so "for all schedules" covers every interleaving, every
   unfair scheduler and every resolution of a select with several ready cases (encode the
   chosen case in the Tid).  Theorems are invariants over [forall sched]. *)
From Coq Require Import List.
Import ListNotations.

Section LTS.
  Variables (St Tid : Type).
  Variable step : St -> Tid -> option St.

  Definition step' (s : St) (t : Tid) : St :=
    match step s t with Some s' => s' | None => s end.

  Definition run (s : St) (sched : list Tid) : St := fold_left step' sched s.

  Lemma run_app s a b : run s (a ++ b) = run (run s a) b.
  Proof. unfold run. apply fold_left_app. Qed.

  Lemma run_snoc s a t : run s (a ++ [t]) = step' (run s a) t.
  Proof. rewrite run_app. reflexivity. Qed.

  (* the induction principle every invariant proof uses *)
  Theorem invariant_run (Inv : St -> Prop) (s0 : St) :
    Inv s0 ->
    (forall s t s', Inv s -> step s t = Some s' -> Inv s') ->
    forall sched, Inv (run s0 sched).
  Proof.
    intros H0 Hstep sched. revert s0 H0.
    induction sched as [|t sched IH]; intros s0 H0; [exact H0|].
    simpl. apply IH. unfold step'. destruct (step s0 t) as [s'|] eqn:E; [|exact H0].
    eapply Hstep; eauto.
  Qed.

  (* reachability as a relation, for statements that mention intermediate states *)
  Definition reachable (s0 s : St) : Prop := exists sched, run s0 sched = s.

  Lemma reachable_invariant (Inv : St -> Prop) s0 s :
    Inv s0 -> (forall s t s', Inv s -> step s t = Some s' -> Inv s') -> reachable s0 s -> Inv s.
  Proof. intros H0 Hs [sched <-]. apply invariant_run; assumption. Qed.
End LTS.

Arguments step' {St Tid} step s t.
Arguments run {St Tid} step s sched.
Arguments reachable {St Tid} step s0 s.
