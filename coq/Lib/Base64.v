(* Lib/Base64.v — encoding/base64.StdEncoding: EncodeToString and DecodeString, as executable
   Gallina on [bytes] (one N per byte).  Definitions only; the round-trip lemma is in
   Proofs/Base64Facts.v.

   DecodeString as Go implements it (non-strict mode): CR and LF anywhere in the input are
   skipped; what remains must consist of 4-character quanta over the standard alphabet, the
   last quantum may be "xx==" or "xxx=" (the unused low bits are NOT required to be zero),
   nothing may follow padding; anything else is an error ([None]). *)
From Verif Require Export GoBytes.
Open Scope N_scope.

(* A-Z a-z 0-9 + / *)
Definition b64_char (i : N) : N :=
  if i <? 26 then 65 + i
  else if i <? 52 then 97 + (i - 26)
  else if i <? 62 then 48 + (i - 52)
  else if i =? 62 then 43
  else 47.

Definition b64_val (c : N) : option N :=
  if (65 <=? c) && (c <=? 90) then Some (c - 65)
  else if (97 <=? c) && (c <=? 122) then Some (c - 97 + 26)
  else if (48 <=? c) && (c <=? 57) then Some (c - 48 + 52)
  else if c =? 43 then Some 62
  else if c =? 47 then Some 63
  else None.

Definition b64_pad : N := 61.    (* '=' *)

Fixpoint b64_encode (s : bytes) : bytes :=
  match s with
  | [] => []
  | [a] => [b64_char (a / 4); b64_char ((a mod 4) * 16); b64_pad; b64_pad]
  | [a; b] => [b64_char (a / 4); b64_char ((a mod 4) * 16 + b / 16);
               b64_char ((b mod 16) * 4); b64_pad]
  | a :: b :: c :: s' =>
      b64_char (a / 4) :: b64_char ((a mod 4) * 16 + b / 16)
      :: b64_char ((b mod 16) * 4 + c / 64) :: b64_char (c mod 64) :: b64_encode s'
  end.

(* the quanta, after CR/LF have been removed *)
Fixpoint b64_decode_quanta (s : bytes) : option bytes :=
  match s with
  | [] => Some []
  | [c0; c1; c2; c3] =>
      match b64_val c0, b64_val c1 with
      | Some i0, Some i1 =>
          let b0 := i0 * 4 + i1 / 16 in
          if (c2 =? b64_pad) && (c3 =? b64_pad) then Some [b0]
          else match b64_val c2 with
               | Some i2 =>
                   let b1 := (i1 mod 16) * 16 + i2 / 4 in
                   if c3 =? b64_pad then Some [b0; b1]
                   else match b64_val c3 with
                        | Some i3 => Some [b0; b1; (i2 mod 4) * 64 + i3]
                        | None => None
                        end
               | None => None
               end
      | _, _ => None
      end
  | c0 :: c1 :: c2 :: c3 :: s' =>
      match b64_val c0, b64_val c1, b64_val c2, b64_val c3 with
      | Some i0, Some i1, Some i2, Some i3 =>
          match b64_decode_quanta s' with
          | Some r => Some ((i0 * 4 + i1 / 16) :: ((i1 mod 16) * 16 + i2 / 4)
                            :: ((i2 mod 4) * 64 + i3) :: r)
          | None => None
          end
      | _, _, _, _ => None
      end
  | _ => None
  end.

Definition b64_is_nl (c : N) : bool := (c =? 13) || (c =? 10).

Definition b64_decode (s : bytes) : option bytes :=
  b64_decode_quanta (filter (fun c => negb (b64_is_nl c)) s).
