(* Entry/EntryC03.v — C03 on the observed history (format: DispatchDecode.v).
   Every interleaving the monitor accepts is judged by the monitor only: e_agree := e_oracle
   (no separate trace-inclusion search in the model; see notes/design-C03.md).
   * connection up / EOF / Close():  C03_ok on the log; when the connection stayed up every line
     must also have been DELIVERED to its foreground handlers, whole (a handler that gets a cut or
     glued line reports an impossible serial), exactly once: C16_ok (the same predicate as in
     C16_siblings_and_recovery) — "lines received ... are delivered ... in exactly the order".
   * "reconnect while closing" (endmode 3): one Conn, two connections; the lines of connection 2
     continue the serials of connection 1.  Gate only what C03 states, with C03_ok on two projections
     of the log: (a) without the DISCONNECTED events: one line at a time, in order, ACROSS the
     reconnect (no handler of connection 2 may start while a handler of connection 1 runs);
     (b) connection 1 alone (serials below close_at, and DISCONNECTED): DISCONNECTED only after every
     foreground invocation of that connection.  DISCONNECTED is dispatched by the caller of Close()
     after the connection lock is released, so its handlers may legitimately overlap connection 2's
     traffic: not gated. *)
From Verif Require Import EntryBase DispatchLts DispatchDecode.

Definition is_disc (e : event) : bool :=
  match e with
  | EvEnter KDiscFg _ _ _ | EvExit KDiscFg _ _ _ | EvPanic KDiscFg _ _ | EvRecovered KDiscFg _ _
  | EvEnter KDiscBg _ _ _ | EvExit KDiscBg _ _ _ | EvPanic KDiscBg _ _ | EvRecovered KDiscBg _ _ => true
  | _ => false
  end.

Definition ev_serial (e : event) : nat :=
  match e with
  | EvApplied k | EvEnter _ k _ _ | EvExit _ k _ _ | EvPanic _ k _ | EvRecovered _ k _ => k
  end.

Definition judge_C03 (i : list bytes) (sess : session) (h : list event) : bool :=
  match dsp_endmode i with
  | 0%nat => C03_ok sess h && C16_ok sess h
  | 3%nat => C03_ok sess (filter (fun e => negb (is_disc e)) h)
         && C03_ok sess (filter (fun e => is_disc e || Nat.ltb (ev_serial e) (dsp_close_at i)) h)
  | _ => C03_ok sess h
  end.

Definition oracle_C03 (i o : list bytes) : bool := dsp_judge (judge_C03 i) i o.

Definition entry_C03 : entry :=
  {| e_model := fun _ => []; e_agree := oracle_C03; e_oracle := oracle_C03 |}.
