(* Entry/EntryC03.v — C03 on the observed history (format: DispatchDecode.v).
   Every interleaving the monitor accepts is judged by the monitor only: e_agree := e_oracle
   (no separate trace-inclusion search in the model; see notes/design-C03.md). *)
From Verif Require Import EntryBase DispatchLts DispatchDecode.

Definition oracle_C03 (i o : list bytes) : bool := dsp_judge C03_ok i o.

Definition entry_C03 : entry :=
  {| e_model := fun _ => []; e_agree := oracle_C03; e_oracle := oracle_C03 |}.
