(* Entry/EntryC13.v — case format for C13 (described in Model/NetObs.v, where all decoding
   lives because it is on the std++ side; std++ and GoBytes notations clash, so NetObs is
   Required, not Imported).
   e_model  = the model's prediction of the whole observation: the wire lines of
              [render (lines_for net event)] per event (cross-checks the Go simulator against
              Model/Net.v), the client's MODE/WHO requests and the tracker dump predicted by
              folding [handle_state] over [expected] of those lines (Model/StateHandlers.v);
   e_agree  = field-wise equality with the implementation's observation;
   e_oracle = the property predicates evaluated on the IMPLEMENTATION's dumps:
              [C13_ok] (dump, other users' modes masked, = the network's view) at every marker
              of a session that stayed inside the claim, and [C13_rob_ok] (the three
              invariants) at every marker of every session, conformant or hostile. *)
From Verif Require Import EntryBase.
From Verif Require NetObs.

Definition entry_C13 : entry :=
  det_entry NetObs.model_C13 NetObs.oracle_C13.
