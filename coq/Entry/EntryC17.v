(* Entry/EntryC17.v — case format for C17.
   kind "script":
     input = ["script"; tracking ("t"/"f"); generator ("default" | "append" | "rotate");
              nick; ident; name  (arguments of NewConfig);
              dec #others; nicks of users already on the server...;
              dec #events; then 3 fields per event: tag; p1; p2 ]
       tags: coll | welsame tail | weldiff n tail | req y | confirm user@host | ignore | force y user@host |
             other a b | new a |   (tail = "" or user@host: how the welcome text ends)
             track a | forget a | me | raw line
     obs   = per event, taken at the sync marker that follows it:
             "ok"/"nil"; Config().Me.Nick (read BEFORE Me() is called);
             "ok"/"nil"; Me().Nick;
             "ok"/"nil"; Config().Me.Nick read again AFTER Me();
             one byte per CONNECTED event dispatched during the step: 'n' = a foreground handler
               saw Config().Me == nil, 'o' = non-nil (empty field: no CONNECTED);
             dec #lines; the NICK lines the client wrote during the step
   kind "dnn":  input = ["dnn"; old]   obs = [client.DefaultNewNick(old)] *)
From Verif Require Import EntryBase NickHandlers.
Open Scope Z_scope.

Definition k_dnn : bytes := [100;110;110]%N.
Definition g_append : bytes := [97;112;112;101;110;100]%N.
Definition g_rotate : bytes := [114;111;116;97;116;101]%N.

Definition t_coll : bytes := [99;111;108;108]%N.
Definition t_welsame : bytes := [119;101;108;115;97;109;101]%N.
Definition t_weldiff : bytes := [119;101;108;100;105;102;102]%N.
Definition t_req : bytes := [114;101;113]%N.
Definition t_confirm : bytes := [99;111;110;102;105;114;109]%N.
Definition t_ignore : bytes := [105;103;110;111;114;101]%N.
Definition t_force : bytes := [102;111;114;99;101]%N.
Definition t_other : bytes := [111;116;104;101;114]%N.
Definition t_new : bytes := [110;101;119]%N.
Definition t_track : bytes := [116;114;97;99;107]%N.
Definition t_forget : bytes := [102;111;114;103;101;116]%N.
Definition t_me : bytes := [109;101]%N.
Definition t_raw : bytes := [114;97;119]%N.

Definition gen_of (g : bytes) : bytes -> bytes :=
  if beq g g_append then gen_append else if beq g g_rotate then gen_rotate else default_new_nick.

(* "user@host" -> (user, host); without '@' the host is empty (such an event is not enabled) *)
Definition dec_uh (p : bytes) : uhost :=
  match split2 p [64%N] with
  | [u; h] => (u, h)
  | _ => (p, [])
  end.
(* the welcome text's tail: "" = bare nick, otherwise nick!user@host *)
Definition dec_tail (p : bytes) : option uhost := if beq p [] then None else Some (dec_uh p).

Definition decode_event (tag p1 p2 : bytes) : event :=
  if beq tag t_coll then EColl
  else if beq tag t_welsame then EWelcome None (dec_tail p1)
  else if beq tag t_weldiff then EWelcome (Some p1) (dec_tail p2)
  else if beq tag t_req then EReq p1
  else if beq tag t_confirm then EConfirm (dec_uh p1)
  else if beq tag t_ignore then EIgnore
  else if beq tag t_force then EForce p1 (dec_uh p2)
  else if beq tag t_other then EOther p1 p2
  else if beq tag t_new then ENew p1
  else if beq tag t_track then ETrack p1
  else if beq tag t_forget then EForget p1
  else if beq tag t_raw then ERaw p1
  else EMe.

Fixpoint decode_events (n : nat) (l : list bytes) : list event :=
  match n, l with
  | S n', tag :: p1 :: p2 :: l' => decode_event tag p1 p2 :: decode_events n' l'
  | _, _ => []
  end.

Record c17_case := { c17_gen : bytes -> bytes; c17_w0 : world; c17_script : list event }.

Definition decode_C17 (i : list bytes) : c17_case :=
  let no := get_nat i 6 in
  let others := take_from i 7 no in
  let ne := get_nat i (7 + no) in
  {| c17_gen := gen_of (get i 2);
     c17_w0 := world0 (to_bool (get i 1)) (get i 3) (get i 4) (get i 5) others;
     c17_script := decode_events ne (skipn (8 + no) i) |}.

Definition enc_opt (o : option bytes) : list bytes :=
  match o with Some n => [tag_ok; n] | None => [tag_nil; []] end.
(* the CONNECTED samples as ONE field: a byte per CONNECTED event, 'n' = Config().Me was nil, 'o' = not *)
Definition enc_conn (l : list bool) : bytes := map (fun b : bool => if b then 110%N else 111%N) l.
Definition dec_conn (s : bytes) : list bool := map (fun c => N.eqb c 110%N) s.
Definition enc_obs (o : obs) : list bytes :=
  enc_opt (o_cfg o) ++ enc_opt (o_me o) ++ enc_opt (o_cfg2 o) ++ [enc_conn (o_conn o)]
  ++ dec_of_Z (Z.of_nat (length (o_nicks o))) :: o_nicks o.

Definition model_C17 (i : list bytes) : list bytes :=
  if beq (get i 0) k_dnn then [default_new_nick (get i 1)]
  else let c := decode_C17 i in
       concat (map enc_obs (observe (c17_gen c) (c17_w0 c) (c17_script c))).

Definition dec_opt (t n : bytes) : option (option bytes) :=
  if beq t tag_ok then Some (Some n) else if beq t tag_nil then Some None else None.

Fixpoint decode_obs (k : nat) (o : list bytes) : option (list obs) :=
  match k with
  | O => match o with [] => Some [] | _ => None end
  | S k' =>
      match o with
      | ct :: cn :: mt :: mn :: c2t :: c2n :: conn :: cnt :: rest =>
          match dec_opt ct cn, dec_opt mt mn, dec_opt c2t c2n, Z_of_dec cnt with
          | Some c, Some m, Some c2, Some z =>
              let n := Z.to_nat z in
              if (n <=? length rest)%nat then
                match decode_obs k' (skipn n rest) with
                | Some os => Some ({| o_cfg := c; o_me := m; o_cfg2 := c2; o_conn := dec_conn conn;
                                      o_nicks := firstn n rest |} :: os)
                | None => None
                end
              else None
          | _, _, _, _ => None
          end
      | _ => None
      end
  end.

Definition oracle_C17 (i o : list bytes) : bool :=
  if beq (get i 0) k_dnn then
    match o with [new] => dnn_ok (get i 1) new | _ => false end
  else
    let c := decode_C17 i in
    match decode_obs (length (c17_script c)) o with
    | Some os => C17_ok (c17_gen c) (c17_w0 c) (c17_script c) os
    | None => false
    end.

Definition entry_C17 : entry := det_entry model_C17 oracle_C17.
