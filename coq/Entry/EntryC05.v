(* Entry/EntryC05.v — C05 on the observed history (format: DispatchDecode.v); the sample [a]
   of an event is what the handler read from the real tracker.  e_agree := e_oracle. *)
From Verif Require Import EntryBase DispatchLts DispatchDecode.

Definition oracle_C05 (i o : list bytes) : bool :=
  dsp_track i && dsp_judge (fun _ h => C05_ok h) i o.

Definition entry_C05 : entry :=
  {| e_model := fun _ => []; e_agree := oracle_C05; e_oracle := oracle_C05 |}.
