(* Entry/EntryC02.v — case format for C02.
   kind "parse":   input = ["parse"; raw line bytes]
                   obs   = ["panic"]                      ParseLine panicked
                         | ["nil"]                        ParseLine returned nil
                         | "line" :: cT :: cG :: cP       class "ok"/"panic" of Text / Target / Public
                           :: ("nil" | "map") :: dec #tags :: k1 :: v1 :: ... (sorted by key)
                           :: Nick :: Ident :: Host :: Src :: Cmd :: Raw :: dec #Args :: Args...
                           :: Text :: Target :: Public ("t"/"f"; empty when the call panicked)
   kind "session": input = "session" :: mode (decimal; bit 0 = state tracking, bit 1 = chunked
                   delivery — both invisible to the sequential model) :: raw lines sent by the server end
                   obs   = ["alive"] | "dead" :: details
                   The executable model is evaluated on the lines of at most 9000 bytes only (the
                   IRCv3 maximum is 8191+512): Lib/GoBytes.trim reverses lists and the extracted
                   [rev] is quadratic, a 70 000-byte line costs minutes.  The prediction "alive" for
                   ALL lines, of any length, is the theorem C02_session_alive; [parse] has no
                   length-dependent branch.  That the READER hands over a whole line whatever its
                   length (bufio.ReadString) is an assumption of the model that only this dynamic
                   part samples (sessions contain lines up to ~70 000 bytes).
   kind "transcript": a whole session through the COMPOSED client model (Model/Client.v); format,
                   prediction and oracle in Model/ClientObs.v (std++ side: Required, not Imported).
                   e_model = [client_session]'s prediction of every line the client wrote, per marker
                   interval, and of the final Me / tracker dump / capabilities; e_agree = exact
                   equality; e_oracle = C02's claim only ([C02_transcript_ok]: alive, every marker
                   answered, probe replies in their own interval and in order).
   ORACLE (gating): nothing panicked / the client still answers ([C02_ok], [C02_session_ok]).
   AGREEMENT (model drift): for inputs made of bytes < 0x80 the whole observation must equal the
   model's; for inputs containing a byte >= 0x80 (Go's strings.Fields / ToUpper / TrimSpace are
   Unicode-aware there, the model's instances are ASCII) only panicked-or-not is compared. *)
From Verif Require Import EntryBase LineLib Line RecvSession.
From Verif Require ClientObs.
Open Scope Z_scope.

Definition k_parse : bytes := [112; 97; 114; 115; 101]%N.
Definition k_session : bytes := [115; 101; 115; 115; 105; 111; 110]%N.
Definition tag_line : bytes := [108; 105; 110; 101]%N.
Definition tag_map : bytes := [109; 97; 112]%N.
Definition tag_alive : bytes := [97; 108; 105; 118; 101]%N.
Definition tag_dead : bytes := [100; 101; 97; 100]%N.

Definition cls {A} (r : res A) : bytes := match r with Ok _ => tag_ok | Panic => tag_panic end.
Definition val_bytes (r : res bytes) : bytes := match r with Ok x => x | Panic => [] end.
Definition val_bool (r : res bool) : bytes := match r with Ok b => of_bool b | Panic => [] end.

Definition tags_fields (t : option tagmap) : list bytes :=
  match t with
  | None => [tag_nil; dec_of_Z 0]
  | Some m => tag_map :: dec_of_Z (llen m)
              :: flat_map (fun kv => [fst kv; snd kv]) (tags_sort m)
  end.

Definition line_fields (l : line) : list bytes :=
  tags_fields (l_tags l)
  ++ [l_nick l; l_ident l; l_host l; l_src l; l_cmd l; l_raw l; dec_of_Z (llen (l_args l))]
  ++ l_args l.

Definition model_parse (raw : bytes) : list bytes :=
  match parse raw with
  | Panic => [tag_panic]
  | Ok None => [tag_nil]
  | Ok (Some l) =>
      [tag_line; cls (text l); cls (target l); cls (public l)]
      ++ line_fields l
      ++ [val_bytes (text l); val_bytes (target l); val_bool (public l)]
  end.

Definition short_line (l : bytes) : bool := len l <=? 9000.
Definition model_session (lines : list bytes) : list bytes :=
  [if session_alive (fun _ => []) (filter short_line lines) then tag_alive else tag_dead].

Definition model_C02 (i : list bytes) : list bytes :=
  if beq (get i 0) k_parse then model_parse (get i 1)
  else if beq (get i 0) k_session then model_session (skipn 2 i)
  else if beq (get i 0) ClientObs.t_transcript then ClientObs.model_transcript i
  else [tag_bad].

(* decode the panic flags out of an observation; a malformed observation counts as a panic *)
Definition obs_flags (o : list bytes) : list bool :=
  match o with
  | t :: rest =>
      if beq t tag_panic then [true]
      else if beq t tag_nil then [false]
      else if beq t tag_line then
        match rest with
        | cT :: cG :: cP :: _ => [false; negb (beq cT tag_ok); negb (beq cG tag_ok); negb (beq cP tag_ok)]
        | _ => [true]
        end
      else [true]
  | [] => [true]
  end.

Definition has_high (s : bytes) : bool := existsb (fun c => (128 <=? c)%N) s.

Definition oracle_C02 (i o : list bytes) : bool :=
  if beq (get i 0) k_parse then C02_ok (obs_flags o)
  else if beq (get i 0) k_session then C02_session_ok (beq (get o 0) tag_alive)
  else if beq (get i 0) ClientObs.t_transcript then ClientObs.oracle_transcript i o
  else false.

Definition agree_C02 (i o : list bytes) : bool :=
  if beq (get i 0) k_parse then
    if has_high (get i 1)
    then Bool.eqb (C02_ok (obs_flags (model_C02 i))) (C02_ok (obs_flags o))
    else fields_eqb (model_C02 i) o
  else if beq (get i 0) k_session then beq (get (model_C02 i) 0) (get o 0)
  else if beq (get i 0) ClientObs.t_transcript then fields_eqb (model_C02 i) o
  else false.

Definition entry_C02 : entry :=
  {| e_model := model_C02; e_agree := agree_C02; e_oracle := oracle_C02 |}.
