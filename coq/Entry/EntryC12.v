(* Entry/EntryC12.v — case format for C12.
   input = [me; dec #N; nick names...; dec #C; channel names...; then per operation
            opcode; dec #args; args...]
     opcodes: NN NewNick(n)  GN GetNick(n)  RN ReNick(old,neu)  DN DelNick(n)
              NI NickInfo(n,ident,host,name)  NM NickModes(n,modes)
              NC NewChannel(c)  GC GetChannel(c)  DC DelChannel(c)  TO Topic(c,topic)
              CM ChannelModes(c,modes,args...)  ME Me()  IO IsOn(c,n)  AS Associate(c,n)
              DI Dissociate(c,n)  WI Wipe()
   obs   = per operation: the canonicalised return value, then the query sweep over the
           universe (Model/TrackerObs.v describes the rendering).
   e_model  = the plain model's prediction (TrackerSpec);
   e_oracle = C12_ok: the implementation's observation equals that prediction;
   e_agree  = additionally the object-graph model (TrackerImpl), run with two different map
              enumeration orders, predicts the same — tells a model fault from a code change.
   (std++ and GoBytes notations clash, hence the Tracker* modules are Required, not Imported.) *)
From Verif Require Import EntryBase.
From Verif Require TrackerSpec TrackerImpl TrackerObs.
Open Scope Z_scope.

Definition opc (a b : N) : bytes := [a; b].

Definition mk_op (o : bytes) (a : list bytes) : option TrackerSpec.op :=
  let g := get a in
  let n := length a in
  if beq o (opc 78 78) && Nat.eqb n 1 then Some (TrackerSpec.ONewNick (g 0%nat))
  else if beq o (opc 71 78) && Nat.eqb n 1 then Some (TrackerSpec.OGetNick (g 0%nat))
  else if beq o (opc 82 78) && Nat.eqb n 2 then Some (TrackerSpec.OReNick (g 0%nat) (g 1%nat))
  else if beq o (opc 68 78) && Nat.eqb n 1 then Some (TrackerSpec.ODelNick (g 0%nat))
  else if beq o (opc 78 73) && Nat.eqb n 4 then Some (TrackerSpec.ONickInfo (g 0%nat) (g 1%nat) (g 2%nat) (g 3%nat))
  else if beq o (opc 78 77) && Nat.eqb n 2 then Some (TrackerSpec.ONickModes (g 0%nat) (g 1%nat))
  else if beq o (opc 78 67) && Nat.eqb n 1 then Some (TrackerSpec.ONewChannel (g 0%nat))
  else if beq o (opc 71 67) && Nat.eqb n 1 then Some (TrackerSpec.OGetChannel (g 0%nat))
  else if beq o (opc 68 67) && Nat.eqb n 1 then Some (TrackerSpec.ODelChannel (g 0%nat))
  else if beq o (opc 84 79) && Nat.eqb n 2 then Some (TrackerSpec.OTopic (g 0%nat) (g 1%nat))
  else if beq o (opc 67 77) && Nat.leb 2 n then Some (TrackerSpec.OChannelModes (g 0%nat) (g 1%nat) (skipn 2 a))
  else if beq o (opc 77 69) && Nat.eqb n 0 then Some TrackerSpec.OMe
  else if beq o (opc 73 79) && Nat.eqb n 2 then Some (TrackerSpec.OIsOn (g 0%nat) (g 1%nat))
  else if beq o (opc 65 83) && Nat.eqb n 2 then Some (TrackerSpec.OAssociate (g 0%nat) (g 1%nat))
  else if beq o (opc 68 73) && Nat.eqb n 2 then Some (TrackerSpec.ODissociate (g 0%nat) (g 1%nat))
  else if beq o (opc 87 73) && Nat.eqb n 0 then Some TrackerSpec.OWipe
  else None.

(* a small state machine over the field list: opcode, count, then that many arguments *)
Inductive dstate :=
| DOp | DCnt (o : bytes) | DArgs (o : bytes) (k : nat) (acc : list bytes).

Definition nat_of (f : bytes) : option nat :=
  match N_of_dec f with Some n => Some (N.to_nat n) | None => None end.

Fixpoint dec_ops (l : list bytes) (st : dstate) : option (list TrackerSpec.op) :=
  match l with
  | [] => match st with DOp => Some [] | _ => None end
  | f :: l' =>
      match st with
      | DOp => dec_ops l' (DCnt f)
      | DCnt o =>
          match nat_of f with
          | Some O => match mk_op o [], dec_ops l' DOp with
                      | Some x, Some r => Some (x :: r) | _, _ => None end
          | Some k => dec_ops l' (DArgs o k [])
          | None => None
          end
      | DArgs o k acc =>
          match k with
          | S O => match mk_op o (rev (f :: acc)), dec_ops l' DOp with
                   | Some x, Some r => Some (x :: r) | _, _ => None end
          | S k' => dec_ops l' (DArgs o k' (f :: acc))
          | O => None
          end
      end
  end.

Record c12case := { cc_me : bytes; cc_U : TrackerObs.universe; cc_ops : list TrackerSpec.op }.

Definition decode_C12 (i : list bytes) : option c12case :=
  match i with
  | me :: r1 =>
      match r1 with
      | cn :: r2 =>
          match nat_of cn with
          | Some kn =>
              let ns := firstn kn r2 in
              match skipn kn r2 with
              | cc :: r3 =>
                  match nat_of cc with
                  | Some kc =>
                      let cs := firstn kc r3 in
                      match dec_ops (skipn kc r3) DOp with
                      | Some ops =>
                          if Nat.eqb (length ns) kn && Nat.eqb (length cs) kc
                          then Some {| cc_me := me; cc_U := TrackerObs.Build_universe ns cs; cc_ops := ops |}
                          else None
                      | None => None
                      end
                  | None => None
                  end
              | [] => None
              end
          | None => None
          end
      | [] => None
      end
  | [] => None
  end.

Definition model_C12 (i : list bytes) : list bytes :=
  match decode_C12 i with
  | Some c => TrackerObs.C12_predict (cc_me c) (cc_U c) (cc_ops c)
  | None => [tag_bad]
  end.

Definition oracle_C12 (i o : list bytes) : bool :=
  match decode_C12 i with
  | Some c => TrackerObs.C12_ok (cc_me c) (cc_U c) (cc_ops c) o
  | None => false
  end.

(* the object-graph model under two enumeration orders *)
Definition impl_C12 (rev_order : bool) (i : list bytes) : list bytes :=
  match decode_C12 i with
  | Some c =>
      if rev_order
      then TrackerObs.im_observe TrackerImpl.enumA_rev TrackerImpl.enumN_rev (cc_U c)
                                 (TrackerImpl.im_new (cc_me c)) (cc_ops c)
      else TrackerObs.im_observe TrackerImpl.enumA_std TrackerImpl.enumN_std (cc_U c)
                                 (TrackerImpl.im_new (cc_me c)) (cc_ops c)
  | None => [tag_bad]
  end.

Definition entry_C12 : entry :=
  {| e_model := model_C12;
     e_agree := fun i o => let m := model_C12 i in
                           fields_eqb m o && fields_eqb m (impl_C12 false i) && fields_eqb m (impl_C12 true i);
     e_oracle := oracle_C12 |}.
