(* Entry/DispatchDecode.v — case format shared by C03 / C05 / C16 (harness/dispatch_common.go).
   input = [procs; track; recmode; endmode; close_at; c_fg; c_bg; d_fg; d_bg; seed; panic%; park%;
            V; (n_fg n_bg) x V; L; code x L; arg x L]   (arg: harness only)
           code mod 1000 = verb index (0 = the 001 line) | 900 JOIN | 901 short PING | 902 "433 a"
   obs   = one 7-byte field per event (tag kind k_hi k_lo i a_hi a_lo), then "end:<status>";
           or ["dead"; crash report] when the client process died (C16 runs sessions in a child) *)
From Verif Require Import EntryBase DispatchLts.
Open Scope Z_scope.

(* track: 0 off | 1 EnableStateTracking() before Connect() | 2 after Connect(), before the traffic *)
Definition dsp_track (i : list bytes) : bool := Nat.leb 1 (get_nat i 1).
(* endmode: 0 up | 1 EOF | 2 Close() | 3 Close() and Connect() during a slow foreground handler of
   line close_at - 1; lines close_at.. arrive on connection 2 *)
Definition dsp_endmode (i : list bytes) : nat := get_nat i 3.
Definition dsp_close_at (i : list bytes) : nat := get_nat i 4.
Definition dsp_nverbs (i : list bytes) : nat := get_nat i 12.
Definition dsp_nlines (i : list bytes) : nat := get_nat i (13 + 2 * dsp_nverbs i).

Definition dsp_code (i : list bytes) (k : nat) : nat :=
  Nat.modulo (get_nat i (14 + 2 * dsp_nverbs i + k)) 1000.

(* internal handlers behind a line: h_001 / h_PING / h_433 / h_CAP; with tracking the pool is
   every verb of stHandlers (TOPIC 332 MODE 324 JOIN PART KICK QUIT NICK 353 352 311 671 = index
   1..13); without tracking PING, PRIVMSG, CTCP, NICK, NOTICE, 372, V7 (index 1..7) of which PING,
   CTCP and NICK have a built-in handler.  n_int is not observable and no monitor depends on it.
   Codes >= 900 are our own JOIN (900) and the short lines whose built-in handler panics; the
   user handlers registered on the verb of such a line still run: PING = verb 1 without tracking
   (901), JOIN = verb 5 with tracking (900, 905). *)
Definition dsp_line (i : list bytes) (k : nat) : linfo :=
  let c := dsp_code i k in
  if Nat.ltb c (dsp_nverbs i)
  then {| n_int := if Nat.eqb c 0 then 1 else if dsp_track i then 1
                   else match Nat.modulo (c - 1) 7 with 0%nat | 2%nat | 3%nat => 1 | _ => 0 end;
          n_fg := get_nat i (13 + 2 * c); n_bg := get_nat i (14 + 2 * c);
          welcome := Nat.eqb c 0 |}
  else if Nat.eqb c 901 && negb (dsp_track i)
  then {| n_int := 1; n_fg := get_nat i 15; n_bg := get_nat i 16; welcome := false |}
  else if (Nat.eqb c 900 || Nat.eqb c 905) && dsp_track i
  then {| n_int := 1; n_fg := get_nat i 23; n_bg := get_nat i 24; welcome := false |}
  else {| n_int := 1; n_fg := 0; n_bg := 0; welcome := false |}.

Definition dsp_session (i : list bytes) : session :=
  {| lines := map (dsp_line i) (seq 0 (dsp_nlines i));
     c_fg := get_nat i 5; c_bg := get_nat i 6; d_fg := get_nat i 7; d_bg := get_nat i 8;
     can_close := negb (Nat.eqb (dsp_endmode i) 0) |}.

(* lines whose built-in handler panics *)
Definition dsp_shorts (i : list bytes) : nat :=
  length (filter (fun k => Nat.leb 901 (dsp_code i k)) (seq 0 (dsp_nlines i))).

Definition dsp_kind (n : N) : option kind :=
  match n with
  | 0%N => Some KInt | 1%N => Some KFg | 2%N => Some KBg | 3%N => Some KConnFg
  | 4%N => Some KConnBg | 5%N => Some KDiscFg | 6%N => Some KDiscBg | _ => None
  end.

Definition dsp_event (f : bytes) : option event :=
  match f with
  | [t; kd; k1; k0; i; a1; a0] =>
      match dsp_kind kd with
      | Some kd' =>
          let k := N.to_nat (k1 * 256 + k0) in
          let a := N.to_nat (a1 * 256 + a0) in
          let i' := N.to_nat i in
          match t with
          | 0%N => Some (EvEnter kd' k i' a)
          | 1%N => Some (EvExit kd' k i' a)
          | 2%N => Some (EvPanic kd' k i')
          | 3%N => Some (EvRecovered kd' k i')
          | _ => None
          end
      | None => None
      end
  | _ => None
  end.

Fixpoint dsp_events (o : list bytes) : option (list event) :=
  match o with
  | [] => None                                   (* the status field is missing *)
  | [st] => if beq st [101; 110; 100; 58; 111; 107]%N then Some [] else None   (* "end:ok" *)
  | f :: o' => match dsp_event f, dsp_events o' with
               | Some e, Some r => Some (e :: r)
               | _, _ => None
               end
  end.

Definition dsp_judge (p : session -> list event -> bool) (i o : list bytes) : bool :=
  match dsp_events o with
  | Some h => p (dsp_session i) h
  | None => false
  end.
