(* Entry/EntryC11.v — case format for C11.
   kind "split":  input = ["split"; msg; dec SplitLen]           obs = "ok" :: pieces | ["panic"]
   kind "wire":   input = ["wire"; method; target; ctcp; text; dec SplitLen]
                  obs   = lines received by the server end (after CRLF framing) *)
From Verif Require Import EntryBase Split Commands.
Open Scope Z_scope.

Definition k_split : bytes := [115; 112; 108; 105; 116]%N.
Definition k_wire : bytes := [119; 105; 114; 101]%N.

Definition wire_args (m : method) (t ctcp text : bytes) : list bytes :=
  match msg_kind m with
  | Some (_, true) => [t; ctcp; text]
  | _ => [t; text]
  end.

Definition model_C11 (i : list bytes) : list bytes :=
  if beq (get i 0) k_split then
    match split_message (get i 1) (getZ i 2) with
    | Ok ps => tag_ok :: ps
    | Panic => [tag_panic]
    end
  else if beq (get i 0) k_wire then
    match method_of_name (get i 1) with
    | Some m =>
        match emit to_upper m {| cc_split_len := getZ i 5; cc_quit_message := [] |}
                   (wire_args m (get i 2) (get i 3) (get i 4)) with
        | Ok ls => ls
        | Panic => [tag_panic]
        end
    | None => [tag_bad]
    end
  else [tag_bad].

Definition oracle_C11 (i o : list bytes) : bool :=
  if beq (get i 0) k_split then
    match o with
    | t :: ps => beq t tag_ok && C11_ok (get i 1) (getZ i 2) ps
    | [] => false
    end
  else if beq (get i 0) k_wire then
    match method_of_name (get i 1) with
    | Some m => C11_wire_ok m (get i 2) (to_upper (get i 3)) (get i 4) (getZ i 5) o
    | None => false
    end
  else false.

Definition entry_C11 : entry := det_entry model_C11 oracle_C11.
