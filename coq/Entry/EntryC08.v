(* Entry/EntryC08.v — case format for C08.
   input = [method; dec SplitLen; QuitMessage; arg0; arg1; ...]   (CTCP verb arguments ASCII)
   obs   = [wire]  — the exact bytes the server end received for that one call *)
From Verif Require Import EntryBase Split Commands.
Open Scope Z_scope.

Definition model_C08 (i : list bytes) : list bytes :=
  match method_of_name (get i 0) with
  | Some m =>
      match emit to_upper m {| cc_split_len := getZ i 1; cc_quit_message := get i 2 |} (skipn 3 i) with
      | Ok ls => [wire_of ls]
      | Panic => [tag_panic]
      end
  | None => [tag_bad]
  end.

Definition oracle_C08 (i o : list bytes) : bool :=
  match method_of_name (get i 0), o with
  | Some m, [w] => C08_ok m (skipn 3 i) w
  | _, _ => false
  end.

Definition entry_C08 : entry := det_entry model_C08 oracle_C08.
