(* Entry/EntryC19.v — case format for C19 (capability negotiation / SASL dialogues).
   input = [sasl kind ("none" | "plain" | "external"); identity; username; password;
            dec #wanted; wanted names...; dec #universe; queried names...;
            dec #script; raw server lines...]
   obs   = for step 0 (registration) and then for every script line:  dec #lines; the lines the
           client wrote during that step (CRLF-framed, before the PONG that answers the server's
           sentinel PING);  then for every queried name: HasCapability ("t"/"f"),
           SupportsCapability ("t"/"f") after the whole script.
   The client is created by the harness with nick "vbot", ident "vident", name "v name",
   EnableCapabilityNegotiation, no password.

   [parse_ev] is decoding glue: ParseLine restricted to what the generator sends (optional tags
   are skipped, optional ":source", command, middle arguments, optional " :trailing"); the
   parser itself is C01's subject. *)
From Verif Require Import EntryBase Split Commands CapsLib Base64 Caps.
Open Scope Z_scope.

Definition k_plain : bytes := [112;108;97;105;110]%N.
Definition k_external : bytes := [101;120;116;101;114;110;97;108]%N.
Definition c19_nick : bytes := [118;98;111;116]%N.
Definition c19_ident : bytes := [118;105;100;101;110;116]%N.
Definition c19_name : bytes := [118;32;110;97;109;101]%N.

(* after the first space *)
Definition after_space (s : bytes) : option bytes :=
  let i := index s [32%N] in
  if i <? 0 then None else Some (skipn (Z.to_nat i + 1) s).

Definition parse_ev (s0 : bytes) : option event :=
  let s1 := match s0 with
            | 64%N :: _ => after_space s0
            | _ => Some s0
            end in
  match s1 with
  | None => None
  | Some s1 =>
      let s2 := match s1 with
                | 58%N :: _ => after_space s1
                | _ => Some s1
                end in
      match s2 with
      | None | Some [] => None
      | Some s2 =>
          let parts := split2 s2 [32; 58]%N in
          match fields (hd [] parts), parts with
          | [], _ => None
          | cmd :: mid, [_; trailing] => Some {| ev_cmd := to_upper cmd; ev_args := mid ++ [trailing] |}
          | cmd :: mid, _ => Some {| ev_cmd := to_upper cmd; ev_args := mid |}
          end
      end
  end.

(* an unparsable line is dispatched to nobody *)
Definition ev_of_line (s : bytes) : event :=
  match parse_ev s with Some e => e | None => {| ev_cmd := []; ev_args := [] |} end.

Record c19_case := {
  cc_cfg : caps_cfg; cc_universe : list bytes; cc_script : list bytes
}.

Definition decode_C19 (i : list bytes) : c19_case :=
  let kind := get i 0 in
  let sasl := if beq kind k_plain then Some (sasl_plain (get i 1) (get i 2) (get i 3))
              else if beq kind k_external then Some (sasl_external (get i 1))
              else None in
  let nw := get_nat i 4 in
  let wanted := take_from i 5 nw in
  let nu := get_nat i (5 + nw) in
  let universe := take_from i (6 + nw) nu in
  let ns := get_nat i (6 + nw + nu) in
  let script := take_from i (7 + nw + nu) ns in
  {| cc_cfg := {| cf_wanted := wanted; cf_sasl := sasl |}; cc_universe := universe; cc_script := script |}.

Definition group_fields (ls : list bytes) : list bytes := dec_of_Z (Z.of_nat (length ls)) :: ls.

Definition model_C19 (i : list bytes) : list bytes :=
  let c := decode_C19 i in
  match register c19_nick c19_ident c19_name with
  | Panic => [tag_panic]
  | Ok reg =>
      let '(st, tr) := run fields (cc_cfg c) cstate0 (map ev_of_line (cc_script c)) in
      group_fields reg ++ concat (map (fun el => group_fields (snd el)) tr)
      ++ concat (map (fun a => [of_bool (a_has a); of_bool (a_supports a)])
                     (answers_of st (cc_universe c)))
  end.

(* read [k] groups "dec n; n fields" *)
Fixpoint take_groups (k : nat) (o : list bytes) : option (list (list bytes) * list bytes) :=
  match k with
  | O => Some ([], o)
  | S k' =>
      match o with
      | [] => None
      | n :: o' =>
          match Z_of_dec n with
          | None => None
          | Some z =>
              let m := Z.to_nat z in
              if (m <=? length o')%nat then
                match take_groups k' (skipn m o') with
                | Some (gs, rest) => Some (firstn m o' :: gs, rest)
                | None => None
                end
              else None
          end
      end
  end.

Fixpoint decode_answers (names : list bytes) (o : list bytes) : option (list answer) :=
  match names, o with
  | [], [] => Some []
  | c :: names', h :: s :: o' =>
      match decode_answers names' o' with
      | Some r => Some ({| a_name := c; a_has := to_bool h; a_supports := to_bool s |} :: r)
      | None => None
      end
  | _, _ => None
  end.

Definition oracle_C19 (i o : list bytes) : bool :=
  let c := decode_C19 i in
  match take_groups (S (length (cc_script c))) o with
  | Some (reg :: groups, rest) =>
      match decode_answers (cc_universe c) rest with
      | Some answers =>
          C19_ok fields (cc_cfg c) (combine (map ev_of_line (cc_script c)) groups) answers
      | None => false
      end
  | _ => false
  end.

Definition entry_C19 : entry := det_entry model_C19 oracle_C19.
