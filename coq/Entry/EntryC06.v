(* Entry/EntryC06.v — C06 judged on the event history the lifecycle harness observed
   (format: Entry/LifecycleDecode.v).  Every interleaving is left to the Go scheduler, so the
   model does not predict ONE history; agreement = the history satisfies the predicate the
   theorems of Props/C06.v establish for every history of the model. *)
From Verif Require Import EntryBase LifecycleLts LifecycleDecode.

Definition oracle_C06 (i o : list bytes) : bool :=
  match decode_obs o with
  | Some ob => C06_ok true (o_hist ob)
      (* the harness ends every connection it establishes and waits (10 s budget) for the
         events: the observation is always judged as a COMPLETE run, so a connection whose
         ender fired but whose DISCONNECTED never came ("hung") fails C06_final *)
  | None => false
  end.

Definition entry_C06 : entry :=
  {| e_model := fun _ => []; e_agree := oracle_C06; e_oracle := oracle_C06 |}.
