(* Entry/EntryC04.v — case format for C04 (handler registry).

   INPUT  = mode :: records of 4 fields [op; name; a; b]          (decimal numbers)
     top level, executed in order by the main goroutine:
       H / HF / B  name hid rid   Handle / HandleFunc / HandleBG; the returned Remover is number rid
       R  - rid -                 Remove() on Remover rid (skipped when not yet handed out / already used)
       E  name - -                the server sends ":srv <name> <serial>" (serial = number of this E, from 1)
       N  - hid serial            the records nH / nHF / nB / nR that follow are the script handler hid
                                  performs the first time it is invoked for event <serial>
       G  - gid -                 the records gH / gHF / gB / gR that follow run in a free goroutine
       J  - - -                   join all free goroutines
   OBS    = records of 6 fields
       r rid start ret rmstart rmret     a registration that happened (global clock stamps; rm* = 0: never removed)
       s kind serial lo hi 0             snapshot of set kind (0 fg, 1 bg) for event serial: the event line was
                                         handed to the socket at lo; hi = first entry of a handler of that set for
                                         that event (bg: the sentinel pins it), else the time the sync completed
       c kind serial hid count 0         handler hid was invoked count (>0) times by that dispatch
     or ["hung"; description]: a registry call, or the handlers of an event, did not complete within the
       harness's budget (3 s; normal is microseconds) — the description names the calls in flight.
       "Registering or removing handlers from within a handler neither deadlocks ..." is part of the
       property: the oracle is FALSE.  ["notrun"]: the run was stopped after 3 hung cases (not judged).
   e_oracle: C04_ok on the stamped registrations and snapshots (must <= count <= may).
   e_model / e_agree: the CONCRETE pointer model run on the linearisation that puts every call at
   its return stamp and every snapshot at hi; compared with the observed counts wherever the
   intervals leave no latitude (must = may). *)
From Verif Require Import EntryBase Registry.
Open Scope Z_scope.

Definition znum (b : bytes) : Z := match Z_of_dec b with Some z => z | None => 0 end.
Fixpoint chunk (fuel n : nat) (l : list bytes) : list (list bytes) :=
  match fuel with
  | O => []
  | S f => match l with [] => [] | _ => firstn n l :: chunk f n (skipn n l) end
  end.
Definition recs (n : nat) (l : list bytes) := chunk (length l) n l.

Definition reg_kind_of_op (op : bytes) : option kind :=
  let is := fun s => beq op s in
  if is [72]%N || is [72;70]%N || is [110;72]%N || is [110;72;70]%N || is [103;72]%N || is [103;72;70]%N then Some KFg
  else if is [66]%N || is [110;66]%N || is [103;66]%N then Some KBg
  else None.
Definition is_E (op : bytes) : bool := beq op [69]%N.

(* static facts from the input *)
Definition find_reg (inp : list (list bytes)) (rid : Z) : option (kind * bytes * hid) :=
  match find (fun r => match reg_kind_of_op (get r 0) with Some _ => znum (get r 3) =? rid | None => false end) inp with
  | Some r => match reg_kind_of_op (get r 0) with
              | Some k => Some (k, get r 1, Z.to_N (znum (get r 2)))
              | None => None
              end
  | None => None
  end.
Definition event_names (inp : list (list bytes)) : list bytes :=
  map (fun r => get r 1) (filter (fun r => is_E (get r 0)) inp).
Definition kind_of_code (z : Z) : kind := if z =? 0 then KFg else KBg.
Definition code_of_kind (k : kind) : Z := match k with KFg => 0 | KBg => 1 | KInt => 2 end.

Definition tag_r : bytes := [114]%N.
Definition tag_s : bytes := [115]%N.
Definition tag_c : bytes := [99]%N.

Definition obs_regs (inp obs : list (list bytes)) : option (list (Z * regobs)) :=
  fold_right (fun r acc =>
                if beq (get r 0) tag_r then
                  match acc, find_reg inp (znum (get r 1)) with
                  | Some l, Some (k, name, h) =>
                      Some ((znum (get r 1),
                             {| rg_kind := k; rg_name := name; rg_h := h; rg_start := znum (get r 2);
                                rg_ret := znum (get r 3);
                                rg_rm := if znum (get r 4) =? 0 then None else Some (znum (get r 4), znum (get r 5)) |}) :: l)
                  | _, _ => None
                  end
                else acc) (Some []) obs.
Definition obs_counts (obs : list (list bytes)) (kc serial : Z) : list (hid * Z) :=
  map (fun r => (Z.to_N (znum (get r 3)), znum (get r 4)))
      (filter (fun r => beq (get r 0) tag_c && (znum (get r 1) =? kc) && (znum (get r 2) =? serial)) obs).
Definition obs_snaps (inp obs : list (list bytes)) : list (Z * snapobs) :=
  let names := event_names inp in
  map (fun r => (znum (get r 2),
                 {| sp_kind := kind_of_code (znum (get r 1));
                    sp_cmd := nth (Z.to_nat (znum (get r 2) - 1)) names [];
                    sp_lo := znum (get r 3); sp_hi := znum (get r 4);
                    sp_counts := obs_counts obs (znum (get r 1)) (znum (get r 2)) |}))
      (filter (fun r => beq (get r 0) tag_s) obs).
(* every count record belongs to a reported snapshot, every event has its two snapshots *)
Definition obs_shape_ok (inp obs : list (list bytes)) : bool :=
  let ss := filter (fun r => beq (get r 0) tag_s) obs in
  let n := Z.of_nat (length (event_names inp)) in
  forallb (fun r => negb (beq (get r 0) tag_c)
                    || existsb (fun s => (znum (get s 1) =? znum (get r 1)) && (znum (get s 2) =? znum (get r 2))) ss) obs
  && forallb (fun s => (1 <=? znum (get s 2)) && (znum (get s 2) <=? n)) ss
  && (Z.of_nat (length ss) =? 2 * n)
  && forallb (fun r => beq (get r 0) tag_r || beq (get r 0) tag_s || beq (get r 0) tag_c) obs.

Definition tag_hung : bytes := [104;117;110;103]%N.
Definition tag_notrun : bytes := [110;111;116;114;117;110]%N.

Definition oracle_C04 (i o : list bytes) : bool :=
  let inp := recs 4 (tl i) in let obs := recs 6 o in
  if beq (get o 0) tag_hung then false else
  if beq (get o 0) tag_notrun then true else
  match obs_regs inp obs with
  | Some regs => obs_shape_ok inp obs && C04_ok (map snd regs) (map snd (obs_snaps inp obs))
  | None => false
  end.

(* ---------- the concrete model on one linearisation ---------- *)
Inductive litem := LReg (rid : Z) (r : regobs) | LRm (rid : Z) | LSnap (serial : Z) (s : snapobs).
Fixpoint ins_item (x : Z * litem) (l : list (Z * litem)) : list (Z * litem) :=
  match l with
  | [] => [x]
  | y :: l' => if fst x <? fst y then x :: l else y :: ins_item x l'
  end.
Definition linearise (regs : list (Z * regobs)) (snaps : list (Z * snapobs)) : list litem :=
  let items :=
    flat_map (fun p => (rg_ret (snd p), LReg (fst p) (snd p))
                       :: match rg_rm (snd p) with Some (_, b) => [(b, LRm (fst p))] | None => [] end) regs
    ++ map (fun p => (sp_hi (snd p), LSnap (fst p) (snd p))) snaps in
  map snd (fold_right ins_item [] items).
(* rid -> (kind, node id): the node id is the number of earlier registrations into that set *)
Fixpoint to_steps (l : list litem) (nfg nbg : nat) (tbl : list (Z * (kind * nid))) : list step :=
  match l with
  | [] => []
  | LReg rid r :: l' =>
      match rg_kind r with
      | KBg => SReg KBg (rg_name r) (rg_h r) :: to_steps l' nfg (S nbg) ((rid, (KBg, nbg)) :: tbl)
      | k => SReg KFg (rg_name r) (rg_h r) :: to_steps l' (S nfg) nbg ((rid, (KFg, nfg)) :: tbl)
      end
  | LRm rid :: l' =>
      match find (fun p => fst p =? rid) tbl with
      | Some (_, (k, n)) => SRemove k n :: to_steps l' nfg nbg tbl
      | None => to_steps l' nfg nbg tbl
      end
  | LSnap _ s :: l' => SSnap (sp_kind s) (sp_cmd s) :: to_steps l' nfg nbg tbl
  end.
Definition lin_snaps (l : list litem) : list (Z * snapobs) :=
  flat_map (fun it => match it with LSnap k s => [(k, s)] | _ => [] end) l.

Fixpoint all_invoked (c : conn_sets) (sns : list snap) : res (list (list hid)) :=
  match sns with
  | [] => Ok []
  | sn :: t => h <- invoked c sn ;; r <- all_invoked c t ;; Ok (h :: r)
  end.
Definition predict (inp obs : list (list bytes)) : option (list ((Z * snapobs) * list hid)) :=
  match obs_regs inp obs with
  | Some regs =>
      let lin := linearise regs (obs_snaps inp obs) in
      match run_conc conn_init (to_steps lin O O []) with
      | Ok (c, sns) => match all_invoked c sns with
                       | Ok hs => Some (combine (lin_snaps lin) hs)
                       | Panic => None
                       end
      | Panic => None
      end
  | None => None
  end.

(* agreement wherever the intervals leave no latitude *)
Definition agree_C04 (i o : list bytes) : bool :=
  let inp := recs 4 (tl i) in let obs := recs 6 o in
  if beq (get o 0) tag_hung then false else     (* the model has no deadlock: C04_no_deadlock *)
  if beq (get o 0) tag_notrun then true else
  match obs_regs inp obs, predict inp obs with
  | Some regs, Some p =>
      let rs := map snd regs in
      forallb (fun x =>
                 let s := snd (fst x) in
                 forallb (fun h =>
                            let lo := countb (fun r => matches r s h && must_run r s) rs in
                            let hi := countb (fun r => matches r s h && may_run r s) rs in
                            negb (lo =? hi)
                            || (count_of h (counts_of (snd x)) =? count_of h (sp_counts s)))
                         (map rg_h rs ++ map fst (sp_counts s) ++ snd x)) p
      && (Z.of_nat (length p) =? Z.of_nat (length (obs_snaps inp obs)))
  | _, _ => false
  end.

Definition entry_C04 : entry :=
  {| e_model := fun _ => [];      (* no prediction without the observed stamps: see agree_C04 *)
     e_agree := agree_C04;
     e_oracle := oracle_C04 |}.
