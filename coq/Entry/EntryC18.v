(* Entry/EntryC18.v — case format for C18.
   kind "reg":   input = ["reg"; nick; ident; name (arguments of NewConfig); password;
                          negotiation "t"/"f"; SSL "t"/"f"; Config.Server; dec PingFreq (ns);
                          proxy dialer variant "ctx" (has DialContext) | "dial" (Dial only) — not read by the model]
                 obs   = [address handed to the dialer; dec #lines; the first lines on the wire up
                          to and including USER]      (SSL: no handshake is performed, #lines = 0)
   kind "pong":  input = ["pong"; dec #items; then 2 fields per item: form; payload]
                   forms: "t" PING :payload | "m" PING payload | "s" :irc.example PING :payload |
                          "u" :nick!user@host.example PING :payload | "r" payload is a whole line
                 obs   = per item: dec #lines; the PONG lines the client wrote before the marker's PONG
   kind "pings": input = ["pings"; dec PingFreq (ns); dec window (ms)]
                 obs   = [client PING seen within the window "t"/"f"; all payloads digits "t"/"f"; dec count;
                          dec measured length of the window (ms)] *)
From Verif Require Import EntryBase NickHandlers Register.
Open Scope Z_scope.

Definition k_reg : bytes := [114;101;103]%N.
Definition k_pong : bytes := [112;111;110;103]%N.
Definition k_pings : bytes := [112;105;110;103;115]%N.
Definition k_busy : bytes := [98;117;115;121]%N.
Definition f_t : bytes := [116]%N.
Definition f_m : bytes := [109]%N.
Definition f_s : bytes := [115]%N.
Definition f_u : bytes := [117]%N.
Definition f_r : bytes := [114]%N.

(* ---------- reg ---------- *)
Definition reg_cfg_of (i : list bytes) : reg_cfg :=
  {| rc_negotiate := to_bool (get i 5); rc_pass := get i 4;
     rc_me := cfg_me (client_init (get i 1) (get i 2) (get i 3));
     rc_server := get i 7; rc_ssl := to_bool (get i 6); rc_ping_freq := getZ i 8 |}.

Definition group (ls : list bytes) : list bytes := dec_of_Z (Z.of_nat (length ls)) :: ls.

Definition model_reg (i : list bytes) : list bytes :=
  let c := reg_cfg_of i in
  dial_addr c :: group (if rc_ssl c then [] else fst (emit_register c)).

Definition oracle_reg (i o : list bytes) : bool :=
  let c := reg_cfg_of i in
  match o, rc_me c with
  | addr :: cnt :: lines, Some me =>
      C18_dial_ok (rc_server c) (rc_ssl c) addr
      && (if rc_ssl c then true
          else Nat.eqb (get_nat [cnt] 0) (length lines) && C18_reg_ok (rc_negotiate c) (rc_pass c) me lines)
  | _, _ => false
  end.

(* ---------- pong ---------- *)
Definition srv_src : option source := Some (SrcServer srv_name).
Definition usr_src : option source := Some (SrcUser [110;105;99;107]%N [117;115;101;114]%N s_host).

Definition item_raw (form payload : bytes) : bytes :=
  if beq form f_t then render (ping_trailing None payload)
  else if beq form f_m then render (ping_middle None payload)
  else if beq form f_s then render (ping_trailing srv_src payload)
  else if beq form f_u then render (ping_trailing usr_src payload)
  else payload.

Fixpoint items_of (n : nat) (l : list bytes) : list (bytes * bytes) :=
  match n, l with
  | S n', f :: p :: l' => (f, p) :: items_of n' l'
  | _, _ => []
  end.

Definition model_pong (i : list bytes) : list bytes :=
  concat (map (fun it => group (fst (pong_of_raw (item_raw (fst it) (snd it) ++ s_crlf))))
              (items_of (get_nat i 1) (skipn 2 i))).

(* the token the property speaks about for this item: Some tok = must be answered by PONG :tok;
   None = must not be answered; [gated] false = outside the claim (agreement with the model only) *)
Definition item_claim (form payload : bytes) : bool * option bytes :=
  if beq form f_t || beq form f_s || beq form f_u then (forallb trailing_byte payload, Some payload)
  else if beq form f_m then (middle_ok payload, Some payload)
  else match recv_one (payload ++ s_crlf) with
       | Ok (Some l) => if beq (l_cmd l) c_PING then (false, None) else (true, None)
       | _ => (true, None)
       end.

Fixpoint oracle_items (its : list (bytes * bytes)) (o : list bytes) : bool :=
  match its with
  | [] => match o with [] => true | _ => false end
  | (f, p) :: its' =>
      match o with
      | cnt :: rest =>
          let n := get_nat [cnt] 0 in
          (n <=? length rest)%nat
          && (let '(gated, tok) := item_claim f p in if gated then C18_pong_ok tok (firstn n rest) else true)
          && oracle_items its' (skipn n rest)
      | [] => false
      end
  end.

Definition oracle_pong (i o : list bytes) : bool :=
  oracle_items (items_of (get_nat i 1) (skipn 2 i)) o.

(* ---------- busy: input = ["busy"; dec #tokens; tokens...]: a foreground handler blocks the event
   loop, the server writes "PING :tok" for every token, the handler is released;
   obs = [dec #lines; the PONG lines written before the final marker's PONG] ---------- *)
Definition busy_toks (i : list bytes) : list bytes := take_from i 2 (get_nat i 1).
Definition model_busy (i : list bytes) : list bytes :=
  group (flat_map (fun t => fst (pong_of_raw (wire (ping_trailing None t)))) (busy_toks i)).
Definition oracle_busy (i o : list bytes) : bool :=
  match o with
  | cnt :: lines => Nat.eqb (get_nat [cnt] 0) (length lines) && C18_busy_ok (busy_toks i) lines
  | [] => false
  end.

(* ---------- pings ---------- *)
Definition reg_cfg_pings (freq : Z) : reg_cfg :=
  {| rc_negotiate := false; rc_pass := []; rc_me := None; rc_server := []; rc_ssl := false; rc_ping_freq := freq |}.
Definition model_pings (i : list bytes) : list bytes :=
  [of_bool (pings_enabled (reg_cfg_pings (getZ i 1))); tag_true; [48%N]].

(* a ticker cannot tick more often than once per period: count <= window / freq + 2 *)
Definition oracle_pings (i o : list bytes) : bool :=
  match o with
  | [p; w; cnt; elapsed] =>
      let freq := getZ i 1 in
      C18_pings_ok freq (to_bool p) (to_bool w)
      && (if freq >? 0 then getZ [cnt] 0 * freq <=? getZ [elapsed] 0 * 1000000 + 2 * freq else getZ [cnt] 0 =? 0)
  | _ => false
  end.

(* ---------- the entry ---------- *)
Definition model_C18 (i : list bytes) : list bytes :=
  let k := get i 0 in
  if beq k k_reg then model_reg i
  else if beq k k_pong then model_pong i
  else if beq k k_pings then model_pings i
  else if beq k k_busy then model_busy i
  else [tag_bad].

Definition oracle_C18 (i o : list bytes) : bool :=
  let k := get i 0 in
  if beq k k_reg then oracle_reg i o
  else if beq k k_pong then oracle_pong i o
  else if beq k k_pings then oracle_pings i o
  else if beq k k_busy then oracle_busy i o
  else false.

(* timing is not predicted: for "pings" only presence and well-formedness are compared *)
Definition agree_C18 (i o : list bytes) : bool :=
  if beq (get i 0) k_pings then fields_eqb (firstn 2 (model_C18 i)) (firstn 2 o)
  else fields_eqb (model_C18 i) o.

Definition entry_C18 : entry :=
  {| e_model := model_C18; e_agree := agree_C18; e_oracle := oracle_C18 |}.
