(* Entry/EntryC10.v — case format for C10 (all numbers decimal ASCII, durations in ns).
   kind "rule":  input = ["rule"; chars; bad; gap]
                 obs   = [ret; bad'; slack; lastoff]
     one call VerifRateLimit(chars, bad, t0 - gap) bracketed by the harness's own clock
     readings t0 (before) and t1 = t0 + slack (after); lastoff = new lastsent - t0.
     slack/lastoff are MEASUREMENTS (that is why they are observation fields, not input).
   kind "burst": input = ["burst"; flood "t"/"f"; len_1; pause_1; ...; len_m; pause_m]
                 (pause_k = idle time in ms the harness waits before submitting line k)
                 obs   = [nreg; L_1; t_1; q_1; ...; L_n; t_n; q_n]
     every line the server end received from a fresh client, registration lines first
     (nreg of them): L = length without CRLF, t = arrival time, q = time the harness
     submitted it (= t for registration lines), ns since the client was created.
   kind "fresh": input = ["fresh"; line_1; ...; line_m]      (line CONTENT; it must not matter)
                 obs   = as for "burst"
     a brand-new client whose counters are never touched, Flood=false: registration lines,
     then line_1..line_m submitted at once; stamps in ns since a clock reading taken just
     before client.Client(cfg).
   kind "hold":  input = ["hold"; line1; bad; line2]         (c1, c2 = the lines' lengths)
                 obs   = [lo1; b1; m1; r1; b2; lo2; m2]     (ns since t0)
     a connected client (Flood=false) whose counters are set to (bad, lastsent = t0) at the
     harness's clock reading t0; line 1 (c1 bytes) is submitted; on its arrival at the
     server end (m1) the counters are read (b1, lastsent = lo1) at harness time r1; then line
     2 (c2 bytes): arrival m2, counters (b2, lo2).  See Flood.C10_hold_ok. *)
From Verif Require Import EntryBase Flood.
Open Scope Z_scope.

Definition k_rule : bytes := [114; 117; 108; 101]%N.
Definition k_burst : bytes := [98; 117; 114; 115; 116]%N.
Definition k_hold : bytes := [104; 111; 108; 100]%N.
Definition k_fresh : bytes := [102; 114; 101; 115; 104]%N.

(* measured arrival times are late by at most the server goroutine's read latency, never
   early: a tolerance in the safe direction only (FloodProofs.window_spec_measured) *)
Definition burst_tol : Z := 50000000.          (* 50 ms *)
(* "no line is ever delayed" with Flood set: generous bound on submit -> arrival *)
Definition flood_bound : Z := 1000000000.      (* 1 s *)

Fixpoint triples (l : list bytes) : list (Z * Z * Z) :=
  match l with
  | a :: b :: c :: l' =>
      (match Z_of_dec a with Some z => z | None => -1 end,
       match Z_of_dec b with Some z => z | None => -1 end,
       match Z_of_dec c with Some z => z | None => -1 end) :: triples l'
  | _ => []
  end.

Fixpoint pairs (l : list bytes) : list (Z * Z) :=
  match l with
  | a :: b :: l' =>
      (match Z_of_dec a with Some z => z | None => -1 end,
       match Z_of_dec b with Some z => z | None => -1 end) :: pairs l'
  | _ => []
  end.

Definition all_dec (l : list bytes) : bool :=
  forallb (fun f => match Z_of_dec f with Some z => 0 <=? z | None => false end) l.

Fixpoint zlist_eqb (a b : list Z) : bool :=
  match a, b with
  | [], [] => true
  | x :: a', y :: b' => (x =? y) && zlist_eqb a' b'
  | _, _ => false
  end.

Definition rule_ok (i o : list bytes) : bool :=
  all_dec (skipn 1 i) && all_dec o && (length i =? 4)%nat && (length o =? 4)%nat
  && C10_ok (getZ i 1) (getZ i 2) (getZ i 3) (getZ o 2) (getZ o 0) (getZ o 1) (getZ o 3).

Definition burst_ok (i o : list bytes) : bool :=
  let ts := triples (skipn 1 o) in
  all_dec o && (Nat.eqb (1 + 3 * length ts) (length o))
  && if to_bool (get i 1)
     then forallb (fun x => match x with (_, t, q) => t - q <=? flood_bound end)
                  (skipn (get_nat o 0) ts)
     else C10_window_ok burst_tol (map (fun x => match x with (c, t, _) => (c, t) end) ts).

Definition fresh_ok (i o : list bytes) : bool :=
  let ts := triples (skipn 1 o) in
  let ws := map (fun x => match x with (c, t, _) => (c, t) end) ts in
  all_dec o && (Nat.eqb (1 + 3 * length ts) (length o))
  && C10_window_ok burst_tol ws && C10_fresh_ok ws.

(* registration lines first, then exactly the submitted lines (by length) *)
Definition fresh_faithful (i o : list bytes) : bool :=
  zlist_eqb (map len (skipn 1 i))
            (map (fun x => fst (fst x)) (skipn (get_nat o 0) (triples (skipn 1 o))))
  && (2 <=? getZ o 0).

Definition hold_ok (i o : list bytes) : bool :=
  all_dec [get i 2] && all_dec o && (length i =? 4)%nat && (length o =? 7)%nat
  && C10_hold_ok (len (get i 1)) (getZ i 2) (len (get i 3))
                 (getZ o 0) (getZ o 1) (getZ o 2) (getZ o 3) (getZ o 4) (getZ o 5) (getZ o 6).

(* what the harness sent is what arrived: the burst lines have the requested lengths.  Flag "c"
   (the client is closed 300 ms after the last line was submitted, while flood protection
   still holds lines back): what arrived is a PREFIX of what was submitted — Close drops the
   rest, it must not push it out. *)
Fixpoint zlist_prefixb (a b : list Z) : bool :=
  match a, b with
  | [], _ => true
  | x :: a', y :: b' => (x =? y) && zlist_prefixb a' b'
  | _ :: _, [] => false
  end.
Definition k_closeflag : bytes := [99%N].
Definition burst_faithful (i o : list bytes) : bool :=
  let requested := map fst (pairs (skipn 2 i)) in
  let arrived := map (fun x => fst (fst x)) (skipn (get_nat o 0) (triples (skipn 1 o))) in
  if beq (get i 1) k_closeflag then zlist_prefixb arrived requested
  else zlist_eqb requested arrived.

(* the model's prediction for display: the rule evaluated at the lower end of the elapsed
   interval (elapsed = gap, both clock readings = t0); nothing can be predicted for a burst *)
Definition model_C10 (i : list bytes) : list bytes :=
  if beq (get i 0) k_rule then
    let r := rate_limit {| fs_bad := getZ i 2; fs_last := - getZ i 3 |} 0 0 (getZ i 1) in
    [dec_of_Z (snd r); dec_of_Z (fs_bad (fst r))]
  else if beq (get i 0) k_burst then []
  else if beq (get i 0) k_fresh then []
  else if beq (get i 0) k_hold then
    (* ideal run: no latency at all, each sleep exactly as requested *)
    let r1 := rate_limit {| fs_bad := getZ i 2; fs_last := 0 |} 0 0 (len (get i 1)) in
    let w1 := snd r1 in
    let r2 := rate_limit (fst r1) w1 w1 (len (get i 3)) in
    [dec_of_Z 0; dec_of_Z (fs_bad (fst r1)); dec_of_Z w1; dec_of_Z w1;
     dec_of_Z (fs_bad (fst r2)); dec_of_Z w1; dec_of_Z (w1 + snd r2)]
  else [tag_bad].

Definition oracle_C10 (i o : list bytes) : bool :=
  if beq (get i 0) k_rule then rule_ok i o
  else if beq (get i 0) k_burst then burst_ok i o
  else if beq (get i 0) k_hold then hold_ok i o
  else if beq (get i 0) k_fresh then fresh_ok i o
  else false.

Definition agree_C10 (i o : list bytes) : bool :=
  if beq (get i 0) k_rule then rule_ok i o
  else if beq (get i 0) k_burst then burst_ok i o && burst_faithful i o
  else if beq (get i 0) k_hold then hold_ok i o
  else if beq (get i 0) k_fresh then fresh_ok i o && fresh_faithful i o
  else false.

Definition entry_C10 : entry :=
  {| e_model := model_C10; e_agree := agree_C10; e_oracle := oracle_C10 |}.
