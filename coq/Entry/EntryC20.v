(* Entry/EntryC20.v — case format for C20 (harness/c20.go).
   input = [scen; neg; track; flood; ctxd; nick; ident; name; server; p1; p2; bad0; errtext;
            failAt; viaConnectTo; n; line_1 .. line_n]
     scen     "sess" | "dialerr" | "wfail";  booleans "t"/"f";  bad0 = preset flood penalty (ns)
     errtext  dialerr: the dial error; wfail: the write error; sess: the read error ("" = EOF)
     failAt   wfail: index of the failing write
   obs   = [n1; lvl; msg; ... (n1 records of the run with p1); n2; lvl; msg; ... (run with p2)]
     lvl "D" | "I" | "W" | "E" (anything else, e.g. the harness's own "X" marker, decodes to E).
   The SAME session is run twice, once per password.
   e_oracle = C20_ok p1 p2 stream1 stream2 (Model/LogModel.v).
   e_agree  = each observed stream equals the model's stream for that password up to the
              interleaving of the three logging goroutines (per-thread subsequences equal); the
              "%.2f" of a flood message is accepted with either rounding of an exact tie. *)
From Coq Require Import String.
From Verif Require Import EntryBase LogModel.
Open Scope Z_scope.

Definition k_sess : bytes := Eval vm_compute in bs "sess".
Definition k_dialerr : bytes := Eval vm_compute in bs "dialerr".
Definition k_wfail : bytes := Eval vm_compute in bs "wfail".
Definition proxy_ctx : bytes := Eval vm_compute in bs "c20mem://c20".
Definition proxy_noctx : bytes := Eval vm_compute in bs "c20memnc://c20".
Definition end_ping : bytes := Eval vm_compute in bs "PING :c20end".
Definition closed_pipe : bytes := Eval vm_compute in bs "io: read/write on closed pipe".

Definition lvl_D : bytes := [68%N].
Definition lvl_I : bytes := [73%N].
Definition lvl_W : bytes := [87%N].
Definition lvl_E : bytes := [69%N].
Definition level_of (s : bytes) : level :=
  if beq s lvl_D then LDebug else if beq s lvl_I then LInfo else if beq s lvl_W then LWarn else LError.
Definition level_tag (l : level) : bytes :=
  match l with LDebug => lvl_D | LInfo => lvl_I | LWarn => lvl_W | LError => lvl_E end.

Fixpoint recs_of (n : nat) (l : list bytes) : list logrec * list bytes :=
  match n with
  | O => ([], l)
  | S n' => match l with
            | lv :: m :: l' => let r := recs_of n' l' in ((level_of lv, m) :: fst r, snd r)
            | _ => ([], [])
            end
  end.

(* the two observed streams *)
Definition obs_streams (o : list bytes) : list logrec * list logrec :=
  let r1 := recs_of (get_nat o 0) (skipn 1 o) in
  let rest := snd r1 in
  let r2 := recs_of (get_nat rest 0) (skipn 1 rest) in
  (fst r1, fst r2).

Definition flat (l : list logrec) : list bytes :=
  dec_of_Z (Z.of_nat (length l)) :: concat (map (fun r => [level_tag (fst r); snd r]) l).

Definition cfg_of (i : list bytes) (p : bytes) : lcfg :=
  {| lc_pub := {| pc_nick := get i 5; pc_ident := get i 6; pc_name := get i 7;
                  pc_server := get i 8;
                  pc_proxy := if to_bool (get i 4) then proxy_ctx else proxy_noctx;
                  pc_ssl := false;
                  pc_neg := to_bool (get i 1); pc_track := to_bool (get i 2);
                  pc_flood := to_bool (get i 3) |};
     lc_pass := p |}.

Definition env_of (i : list bytes) : env :=
  let scen := get i 0 in
  let ctxd := to_bool (get i 4) in
  let err := get i 12 in
  {| ev_dial := DDial ctxd (if beq scen k_dialerr then Some err else None);
     ev_tls := None;
     ev_fs0 := {| fs_bad := getZ i 11; fs_last := 0 |};
     ev_clock := eager_clock;
     ev_wfail := if beq scen k_wfail then Some (get_nat i 13, err) else None;
     ev_lines := if beq scen k_sess then take_from i 16 (get_nat i 15) ++ [end_ping] else [];
     ev_end := if beq scen k_wfail then Some closed_pipe
               else if beq err [] then None else Some err |}.

Definition model_stream (fs : Z -> bytes) (i : list bytes) (p : bytes) : list logrec :=
  run_concrete fs (cfg_of i p) (env_of i).

Definition model_C20 (i : list bytes) : list bytes :=
  flat (model_stream fmt_secs_ascii i (get i 9)) ++ flat (model_stream fmt_secs_ascii i (get i 10)).

Definition agree_one (i : list bytes) (p : bytes) (o : list logrec) : bool :=
  streams_eqb o (model_stream fmt_secs_ascii i p) || streams_eqb o (model_stream fmt_secs_dn i p).

Definition agree_C20 (i o : list bytes) : bool :=
  let s := obs_streams o in
  agree_one i (get i 9) (fst s) && agree_one i (get i 10) (snd s).

Definition oracle_C20 (i o : list bytes) : bool :=
  let s := obs_streams o in
  C20_ok (get i 9) (get i 10) (fst s) (snd s).

Definition entry_C20 : entry :=
  {| e_model := model_C20; e_agree := agree_C20; e_oracle := oracle_C20 |}.
