(* Entry/EntryC20.v — case format for C20 (harness/c20.go).
   input = [scen; neg; track; flood; ctxd; nick; ident; name; server; p1; p2; bad0; errtext;
            failAt; viaConnectTo; n; line_1 .. line_n]
     scen     "sess" | "dialerr" | "wfail";  booleans "t"/"f";  bad0 = preset flood penalty (ns)
     errtext  dialerr: the dial error; wfail: the write error; sess: the read error ("" = EOF)
     failAt   wfail: index of the failing write
   obs   = [n1; lvl; msg; ... (n1 records of the run with p1); n2; lvl; msg; ... (run with p2)]
     lvl "D" | "I" | "W" | "E" (anything else, e.g. the harness's own "X" marker, decodes to E).
   The SAME session is run twice, once per password.
   e_oracle = C20_ok p1 p2 stream1 stream2 (Model/LogModel.v).
   e_agree  = the model's prediction is CONTAINED in what was observed; records the model does
              not know about are allowed (the property does not say which other records exist).
              Precisely, for each of the two runs and each logging goroutine t (send, recv, other;
              LogModel.thread_of), with M = proj t (model stream) and O = proj t (observed stream):
                (1) the wire records — those whose text starts with "-> " or "<- ", which only
                    write and recv produce — are EXACTLY the model's: filter is_wire O = filter
                    is_wire M (none missing, altered, added or reordered);
                (2) M is a subsequence of O (every predicted record occurs, in order);
                (3) the EXTRA records O \ M (leftmost matching; by (1) independent of the
                    matching for wire records) contain no wire record, in particular none
                    starting with "-> PASS";
              and (4) the extra records of the run with p1 equal those of the run with p2, thread
              by thread and in order (also implied by clause (c) of the oracle).
              The "%.2f" of a flood message is accepted with either rounding of an exact tie. *)
From Coq Require Import String.
From Verif Require Import EntryBase LogModel.
Open Scope Z_scope.

Definition k_sess : bytes := Eval vm_compute in bs "sess".
Definition k_dialerr : bytes := Eval vm_compute in bs "dialerr".
Definition k_wfail : bytes := Eval vm_compute in bs "wfail".
Definition proxy_ctx : bytes := Eval vm_compute in bs "c20mem://c20".
Definition proxy_noctx : bytes := Eval vm_compute in bs "c20memnc://c20".
Definition end_ping : bytes := Eval vm_compute in bs "PING :c20end".
Definition closed_pipe : bytes := Eval vm_compute in bs "io: read/write on closed pipe".

Definition lvl_D : bytes := [68%N].
Definition lvl_I : bytes := [73%N].
Definition lvl_W : bytes := [87%N].
Definition lvl_E : bytes := [69%N].
Definition level_of (s : bytes) : level :=
  if beq s lvl_D then LDebug else if beq s lvl_I then LInfo else if beq s lvl_W then LWarn else LError.
Definition level_tag (l : level) : bytes :=
  match l with LDebug => lvl_D | LInfo => lvl_I | LWarn => lvl_W | LError => lvl_E end.

Fixpoint recs_of (n : nat) (l : list bytes) : list logrec * list bytes :=
  match n with
  | O => ([], l)
  | S n' => match l with
            | lv :: m :: l' => let r := recs_of n' l' in ((level_of lv, m) :: fst r, snd r)
            | _ => ([], [])
            end
  end.

(* the two observed streams *)
Definition obs_streams (o : list bytes) : list logrec * list logrec :=
  let r1 := recs_of (get_nat o 0) (skipn 1 o) in
  let rest := snd r1 in
  let r2 := recs_of (get_nat rest 0) (skipn 1 rest) in
  (fst r1, fst r2).

Definition flat (l : list logrec) : list bytes :=
  dec_of_Z (Z.of_nat (length l)) :: concat (map (fun r => [level_tag (fst r); snd r]) l).

Definition cfg_of (i : list bytes) (p : bytes) : lcfg :=
  {| lc_pub := {| pc_nick := get i 5; pc_ident := get i 6; pc_name := get i 7;
                  pc_server := get i 8;
                  pc_proxy := if to_bool (get i 4) then proxy_ctx else proxy_noctx;
                  pc_ssl := false;
                  pc_neg := to_bool (get i 1); pc_track := to_bool (get i 2);
                  pc_flood := to_bool (get i 3) |};
     lc_pass := p |}.

Definition env_of (i : list bytes) : env :=
  let scen := get i 0 in
  let ctxd := to_bool (get i 4) in
  let err := get i 12 in
  {| ev_dial := DDial ctxd (if beq scen k_dialerr then Some err else None);
     ev_tls := None;
     ev_fs0 := {| fs_bad := getZ i 11; fs_last := 0 |};
     ev_clock := eager_clock;
     ev_wfail := if beq scen k_wfail then Some (get_nat i 13, err) else None;
     ev_lines := if beq scen k_sess then take_from i 16 (get_nat i 15) ++ [end_ping] else [];
     ev_end := if beq scen k_wfail then Some closed_pipe
               else if beq err [] then None else Some err |}.

Definition model_stream (fs : Z -> bytes) (i : list bytes) (p : bytes) : list logrec :=
  run_concrete fs (cfg_of i p) (env_of i).

Definition model_C20 (i : list bytes) : list bytes :=
  flat (model_stream fmt_secs_ascii i (get i 9)) ++ flat (model_stream fmt_secs_ascii i (get i 10)).

(* a record that only write ("-> %s") or recv ("<- %s") can produce *)
Definition is_wire (r : logrec) : bool := has_prefix (snd r) m_out || has_prefix (snd r) m_in.

(* [extras m o] = Some (the records of o left over by the leftmost embedding of m into o), or
   None when m is not a subsequence of o *)
Fixpoint extras (m o : list logrec) : option (list logrec) :=
  match o with
  | [] => match m with [] => Some [] | _ :: _ => None end
  | y :: o' =>
      match m with
      | x :: m' => if rec_eqb x y then extras m' o'
                   else option_map (cons y) (extras m o')
      | [] => option_map (cons y) (extras [] o')
      end
  end.

(* clauses (1)-(3) for one goroutine; returns the extra records *)
Definition agree_thread (t : thread) (m o : list logrec) : option (list logrec) :=
  let mt := proj t m in
  let ot := proj t o in
  if recs_eqb (filter is_wire ot) (filter is_wire mt) then
    match extras mt ot with
    | Some ex =>
        if forallb (fun r => negb (is_wire r) && negb (has_prefix (snd r) m_out_pass)) ex
        then Some ex else None
    | None => None
    end
  else None.

Definition agree_stream (m o : list logrec) : option (list logrec) :=
  match agree_thread TSend m o, agree_thread TRecv m o, agree_thread TOther m o with
  | Some a, Some b, Some c => Some (a ++ b ++ c)
  | _, _, _ => None
  end.

Definition agree_one (i : list bytes) (p : bytes) (o : list logrec) : option (list logrec) :=
  match agree_stream (model_stream fmt_secs_ascii i p) o with
  | Some ex => Some ex
  | None => agree_stream (model_stream fmt_secs_dn i p) o
  end.

Definition agree_C20 (i o : list bytes) : bool :=
  let s := obs_streams o in
  match agree_one i (get i 9) (fst s), agree_one i (get i 10) (snd s) with
  | Some e1, Some e2 => recs_eqb e1 e2                    (* clause (4) *)
  | _, _ => false
  end.

Definition oracle_C20 (i o : list bytes) : bool :=
  let s := obs_streams o in
  C20_ok (get i 9) (get i 10) (fst s) (snd s).

Definition entry_C20 : entry :=
  {| e_model := model_C20; e_agree := agree_C20; e_oracle := oracle_C20 |}.
