(* Entry/EntryC16.v — C16 on the observed history.  Sessions that stayed up until every line
   was delivered (format: DispatchDecode.v): C16_ok (every foreground invocation complete, every
   panic recovered once for its line, background ones sane), the panics of built-in handlers
   (short PING / 433 lines) all reached the recovery function, and later lines were still
   delivered one at a time in order (C03_ok, since C16 claims delivery goes on).  e_agree := e_oracle. *)
From Verif Require Import EntryBase DispatchLts DispatchDecode.

Definition is_int_recovered (e : event) : bool :=
  match e with EvRecovered KInt _ _ => true | _ => false end.

(* the connection stays up: everything is delivered *)
Definition judge_up (i : list bytes) (sess : session) (h : list event) : bool :=
  C16_ok sess h && C03_ok sess h
  && Nat.eqb (length (filter is_int_recovered h)) (dsp_shorts i).

(* the connection ENDS (EOF / Close()) while background handlers may be parked for ever: lines
   received around the end may be discarded, so completeness of the lines is not claimed, but the
   DISCONNECTED event is still delivered — each of its foreground handlers ran to completion
   (the harness reports "hung" instead of "ok" when Close() does not return, which does not decode) —
   after every foreground invocation (C03_ok), and no event of an unknown handler *)
Definition judge_ended (sess : session) (h : list event) : bool :=
  C03_ok sess h && forallb (event_in_range sess) h
  && forallb (fun j => inst_complete KDiscFg 0 j h) (seq 0 (d_fg sess)).

Definition oracle_C16 (i o : list bytes) : bool :=
  dsp_judge (fun sess h => if Nat.eqb (dsp_endmode i) 0 then judge_up i sess h else judge_ended sess h) i o.

Definition entry_C16 : entry :=
  {| e_model := fun _ => []; e_agree := oracle_C16; e_oracle := oracle_C16 |}.
