(* Entry/EntryC16.v — C16 on the observed history of a session that stayed up until every line
   was delivered (format: DispatchDecode.v): C16_ok (every foreground invocation complete, every
   panic recovered once for its line, background ones sane), the panics of built-in handlers
   (short PING / 433 lines) all reached the recovery function, and later lines were still
   delivered one at a time in order (C03_ok, since C16 claims delivery goes on).  e_agree := e_oracle. *)
From Verif Require Import EntryBase DispatchLts DispatchDecode.

Definition is_int_recovered (e : event) : bool :=
  match e with EvRecovered KInt _ _ => true | _ => false end.

Definition oracle_C16 (i o : list bytes) : bool :=
  Nat.eqb (dsp_endmode i) 0
  && dsp_judge (fun sess h => C16_ok sess h && C03_ok sess h
                              && Nat.eqb (length (filter is_int_recovered h)) (dsp_shorts i)) i o.

Definition entry_C16 : entry :=
  {| e_model := fun _ => []; e_agree := oracle_C16; e_oracle := oracle_C16 |}.
