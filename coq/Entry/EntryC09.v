(* Entry/EntryC09.v — case format for C09.
   input = [dec nsenders; dec gomaxprocs; dec pace;  then per sender: dec count; its lines ...]
           every line is "<sender>:<seq>:<payload>" (ASCII decimal sender index first)
   obs   = [wire]  — all bytes the server received for the run (sentinel removed) *)
From Verif Require Import EntryBase OutPipe Commands.
Open Scope Z_scope.

Fixpoint decode_senders (fuel : nat) (n : nat) (fs : list bytes) : list (list bytes) :=
  match fuel, n with
  | S f, S n' =>
      let c := Z.to_nat (match Z_of_dec (nth 0 fs []) with Some z => z | None => 0 end) in
      firstn c (skipn 1 fs) :: decode_senders f n' (skipn (S c) fs)
  | _, _ => []
  end.

Definition issued_of (i : list bytes) : list (list bytes) :=
  decode_senders (length i) (get_nat i 0) (skipn 3 i).

(* senders with index = 3 mod 4 issue every other line through Conn.Pong: the wire line is
   then "PONG :" ++ line (which verb a method puts in front is C08's business, not C09's).  [unwrap] removes that prefix so that tags and contents are compared
   with what the sender issued. *)
Definition pong_prefix : bytes := [80; 79; 78; 71; 32; 58]%N.
Definition unwrap (l : bytes) : bytes :=
  if has_prefix l pong_prefix then skipn 6 l else l.

(* the sender tag of a wire line: the decimal number before the first ':' *)
Definition tag_of (l0 : bytes) : option nat :=
  let l := unwrap l0 in
  let k := index l [58%N] in
  if k <? 0 then None
  else match N_of_dec (firstn (Z.to_nat k) l) with Some n => Some (N.to_nat n) | None => None end.

Fixpoint tag_all (ls : list bytes) : option (list tagged) :=
  match ls with
  | [] => Some []
  | l :: ls' => match tag_of l, tag_all ls' with
                | Some t, Some r => Some ((t, unwrap l) :: r)
                | _, _ => None
                end
  end.

Definition oracle_C09 (i o : list bytes) : bool :=
  match o with
  | [w] => match frames w with
           | Some ls => match tag_all ls with
                        | Some tl => C09_ok (issued_of i) tl
                        | None => false
                        end
           | None => false
           end
  | _ => false
  end.

(* every interleaving is a behaviour of the model (any schedule is allowed), so agreement
   with the model coincides with the property predicate here *)
Definition entry_C09 : entry :=
  {| e_model := fun _ => []; e_agree := oracle_C09; e_oracle := oracle_C09 |}.
