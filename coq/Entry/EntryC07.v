(* Entry/EntryC07.v — C07 judged on the observation of the lifecycle harness: event history
   (no stale close, every Close returned, every connection got its DISCONNECTED) + leaked
   library goroutines + hung + fresh (format: Entry/LifecycleDecode.v). *)
From Verif Require Import EntryBase LifecycleLts LifecycleDecode.

Definition oracle_C07 (i o : list bytes) : bool :=
  match decode_obs o with
  | Some ob => C07_ok (o_complete ob) (o_hist ob) (o_leaked ob) (o_hung ob) (o_fresh ob)
  | None => false
  end.

Definition entry_C07 : entry :=
  {| e_model := fun _ => []; e_agree := oracle_C07; e_oracle := oracle_C07 |}.
