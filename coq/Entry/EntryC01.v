(* Entry/EntryC01.v — case format for C01.
   The harness generates a STRUCTURED message (mirroring LineSend.msg), renders it itself and
   runs the real code on the rendered bytes; the input carries both, so that the Go renderer
   is cross-checked against [render] on every case.

   input  = kind :: rendered :: <msg>      kind = "parse" (client.ParseLine(rendered))
                                                | "conn"  (rendered CR LF sent over a connection,
                                                           line seen by a foreground handler)
     <msg> = tagflag("0"|"1") :: dec ntags :: (key :: vflag("0"|"1") :: value){ntags}
             :: srckind("0" none|"1" server|"2" user) :: a :: b :: c      (server: a; user: nick user host)
             :: verb :: dec nmid :: (dec extra :: param){nmid} :: tflag("0"|"1") :: trailing
     kind "cbig" (long lines over a connection): input = "cbig" :: rendered :: dec chunk :: serial :: <msg>
       the in-memory server writes rendered CR LF follow CR LF (chunk = 0: one Write; else in pieces
       of [chunk] bytes), where follow = render (follow_msg serial), a short ordinary PRIVMSG;
       obs = the first two lines the foreground handlers received, in order (each encoded as below,
       concatenated), ["timeout"] when none arrived.  Both must be C01_ok: the long message intact
       and the follow-up intact, in that order.  The model's prediction for this kind is computed
       with [parse] on the un-trimmed bytes: recv_one (wire m) = parse (render m) by C01_recv, and
       LineLib.trim (two list reversals) is quadratic once extracted.
   obs    = ["nil"] | ["panic"] | ["timeout"]
          | "line" :: tags("nil"|"map") :: dec n :: (k :: v){n, sorted by key}
            :: Nick :: Ident :: Host :: Src :: Cmd :: Raw :: dec nargs :: arg{nargs}
            :: ("ok"|"panic") :: Text() :: ("ok"|"panic") :: Target() :: ("ok"|"panic") :: Public()("t"|"f") *)
From Verif Require Import EntryBase LineSend.
Open Scope Z_scope.

Definition k_parse : bytes := [112; 97; 114; 115; 101]%N.
Definition k_conn : bytes := [99; 111; 110; 110]%N.
Definition f_0 : bytes := [48]%N.
Definition f_1 : bytes := [49]%N.
Definition f_2 : bytes := [50]%N.
Definition t_line : bytes := [108; 105; 110; 101]%N.
Definition t_map : bytes := [109; 97; 112]%N.
Definition t_timeout : bytes := [116; 105; 109; 101; 111; 117; 116]%N.

Definition nat_of_field (f : bytes) : nat :=
  match Z_of_dec f with Some z => Z.to_nat z | None => O end.
Definition dec_nat (n : nat) : bytes := dec_of_Z (Z.of_nat n).

(* ---------- decoding the structured message ---------- *)
Fixpoint take_tags (n : nat) (l : list bytes) : option (list (bytes * option bytes) * list bytes) :=
  match n with
  | O => Some ([], l)
  | S n' =>
      match l with
      | k :: f :: v :: l' =>
          match take_tags n' l' with
          | Some (ts, r) => Some ((k, if beq f f_1 then Some v else None) :: ts, r)
          | None => None
          end
      | _ => None
      end
  end.

Fixpoint take_mids (n : nat) (l : list bytes) : option (list (nat * bytes) * list bytes) :=
  match n with
  | O => Some ([], l)
  | S n' =>
      match l with
      | e :: p :: l' =>
          match take_mids n' l' with
          | Some (ms, r) => Some ((nat_of_field e, p) :: ms, r)
          | None => None
          end
      | _ => None
      end
  end.

Definition decode_msg (l : list bytes) : option msg :=
  match l with
  | tf :: nt :: l1 =>
      match take_tags (nat_of_field nt) l1 with
      | Some (ts, sk :: a :: b :: c :: v :: nm :: l2) =>
          match take_mids (nat_of_field nm) l2 with
          | Some (ms, [trf; tr]) =>
              Some {| mtags := if beq tf f_1 then Some ts else None;
                      msrc := if beq sk f_1 then Some (SrcServer a)
                              else if beq sk f_2 then Some (SrcUser a b c) else None;
                      verb := v; middles := ms;
                      trailing := if beq trf f_1 then Some tr else None |}
          | _ => None
          end
      | _ => None
      end
  | _ => None
  end.

(* ---------- encoding / decoding observations ---------- *)
Definition enc_res_bytes (r : res bytes) : list bytes :=
  match r with Ok s => [tag_ok; s] | Panic => [tag_panic; []] end.
Definition enc_res_bool (r : res bool) : list bytes :=
  match r with Ok b => [tag_ok; of_bool b] | Panic => [tag_panic; []] end.

Definition enc_tags (ot : option tagmap) : list bytes :=
  match ot with
  | None => [tag_nil; dec_nat 0]
  | Some m => let s := tags_sort m in
              t_map :: dec_nat (length s) :: flat_map (fun kv => [fst kv; snd kv]) s
  end.

Definition enc_line (l : line) : list bytes :=
  t_line :: enc_tags (l_tags l)
  ++ [l_nick l; l_ident l; l_host l; l_src l; l_cmd l; l_raw l; dec_nat (length (l_args l))]
  ++ l_args l
  ++ enc_res_bytes (text l) ++ enc_res_bytes (target l) ++ enc_res_bool (public l).

Definition enc_result (r : res (option line)) : list bytes :=
  match r with
  | Panic => [tag_panic]
  | Ok None => [tag_nil]
  | Ok (Some l) => enc_line l
  end.

Fixpoint take_pairs (n : nat) (l : list bytes) : option (tagmap * list bytes) :=
  match n with
  | O => Some ([], l)
  | S n' =>
      match l with
      | k :: v :: l' =>
          match take_pairs n' l' with
          | Some (m, r) => Some ((k, v) :: m, r)
          | None => None
          end
      | _ => None
      end
  end.

Definition dec_res_bytes (st v : bytes) : res bytes := if beq st tag_ok then Ok v else Panic.
Definition dec_res_bool (st v : bytes) : res bool := if beq st tag_ok then Ok (to_bool v) else Panic.

(* (line, Text, Target, Public) out of the front of an observation, and what follows it *)
Definition decode_line (o : list bytes)
  : option ((line * res bytes * res bytes * res bool) * list bytes) :=
  match o with
  | st :: tf :: nt :: o1 =>
      if beq st t_line then
        match take_pairs (nat_of_field nt) o1 with
        | Some (m, nick :: ident :: host :: src :: cmd :: raw :: na :: o2) =>
            let n := nat_of_field na in
            match skipn n o2 with
            | s1 :: txt :: s2 :: tgt :: s3 :: pub :: rest =>
                if Nat.eqb (length (firstn n o2)) n then
                  Some (({| l_tags := if beq tf t_map then Some m else None;
                            l_nick := nick; l_ident := ident; l_host := host; l_src := src;
                            l_cmd := cmd; l_raw := raw; l_args := firstn n o2 |},
                         dec_res_bytes s1 txt, dec_res_bytes s2 tgt, dec_res_bool s3 pub), rest)
                else None
            | _ => None
            end
        | _ => None
        end
      else None
  | _ => None
  end.

Definition decode_obs (o : list bytes) : option (line * res bytes * res bytes * res bool) :=
  match decode_line o with
  | Some (x, []) => Some x
  | _ => None
  end.

(* exactly two lines *)
Definition decode_obs2 (o : list bytes)
  : option ((line * res bytes * res bytes * res bool) * (line * res bytes * res bytes * res bool)) :=
  match decode_line o with
  | Some (x, o') => match decode_line o' with
                    | Some (y, []) => Some (x, y)
                    | _ => None
                    end
  | None => None
  end.

(* the short ordinary message sent after a long one: ":fnick!fuser@fhost PRIVMSG #c01follow :serial <serial>" *)
Definition follow_msg (serial : bytes) : msg :=
  {| mtags := None;
     msrc := Some (SrcUser [102;110;105;99;107] [102;117;115;101;114] [102;104;111;115;116])%N;
     verb := cmd_PRIVMSG;
     middles := [(0%nat, [35;99;48;49;102;111;108;108;111;119]%N)];
     trailing := Some ([115;101;114;105;97;108;32]%N ++ serial) |}.

(* ---------- the entry ---------- *)
Definition k_cbig : bytes := [99; 98; 105; 103]%N.

Definition run_model (kind rendered : bytes) : list bytes :=
  if beq kind k_parse then enc_result (parse rendered)
  else if beq kind k_conn then enc_result (recv_one (rendered ++ [b_cr; b_lf]))
  else [tag_bad].

Definition model_C01 (i : list bytes) : list bytes :=
  match i with
  | kind :: rendered :: rest =>
      if beq kind k_cbig then
        match rest with
        | _ :: serial :: _ => enc_result (parse rendered) ++ enc_result (parse (render (follow_msg serial)))
        | _ => [tag_bad]
        end
      else run_model kind rendered
  | _ => [tag_bad]
  end.

(* the generator must only produce in-claim messages, and its renderer must be [render] *)
Definition case_in_claim (i : list bytes) : option msg :=
  match i with
  | kind :: rendered :: rest =>
      let big := beq kind k_cbig in
      match decode_msg (if big then skipn 2 rest else rest) with
      | Some m => if wf_msg m && beq (render m) rendered
                     && (beq kind k_parse || beq kind k_conn
                         || (big && wf_msg (follow_msg (nth 1 rest []))))
                  then Some m else None
      | None => None
      end
  | _ => None
  end.

Definition agree_C01 (i o : list bytes) : bool :=
  match case_in_claim i with
  | Some _ => fields_eqb (model_C01 i) o
  | None => false            (* generator / renderer defect: reported, never silently skipped *)
  end.

Definition oracle_C01 (i o : list bytes) : bool :=
  match case_in_claim i with
  | Some m =>
      if beq (get i 0) k_cbig then
        match decode_obs2 o with
        | Some ((l, txt, tgt, pub), (l2, txt2, tgt2, pub2)) =>
            C01_ok m l txt tgt pub && C01_ok (follow_msg (get i 3)) l2 txt2 tgt2 pub2
        | None => false      (* fewer than two lines, or not lines: something was not delivered *)
        end
      else
      match decode_obs o with
      | Some (l, txt, tgt, pub) => C01_ok m l txt tgt pub
      | None => false        (* nil, panic, timeout or undecodable: the line was not delivered *)
      end
  | None => true             (* not a claim of the property; [agree_C01] flags it *)
  end.

Definition entry_C01 : entry :=
  {| e_model := model_C01; e_agree := agree_C01; e_oracle := oracle_C01 |}.
