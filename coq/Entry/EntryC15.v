(* Entry/EntryC15.v — case format for C15 (per-invocation line copies).
   INPUT = [line; verb; dec nfg; dec nbg; dec seed; mode; gomaxprocs1]
     line : what the server sends (without CRLF); verb: the name the handlers are registered under;
     nfg / nbg foreground / background handlers; seed: scribbling.
     mode "": free running, plus one late background handler;
     mode "lonefg" / "lonebg": that set has exactly ONE handler, which scribbles over everything as soon
       as it has recorded its snapshot; the handlers of the other set record only after it has finished
       (channel synchronisation in the harness); no late handler.  gomaxprocs1 = "1": GOMAXPROCS(1).
     mode "first": any set sizes; handler 0 scribbles (ADDS tags), all others record afterwards.
     mode "laterbg" / "laterfg" (field 7 = a SECOND line of the same verb): one registration invoked for
       both events; obs = a0 (entry snapshot of invocation 1), a1 (what invocation 1's line looks like
       after invocation 2 has scribbled over its own), b (entry snapshot of invocation 2):
       a0 = a1 = ParseLine(line), b = ParseLine(line 2).
     mode "burst" (field 0 and fields 7.. = >= 300 distinct lines of the verb, written in one go; nbg
       background handlers): obs = per handler its entry snapshots sorted by Raw (= sending order);
       the j-th snapshot of every handler = ParseLine(j-th line), each line once per handler.
   OBS   = one record per handler in the order f0.. b0.. late:
     [who; nick; ident; host; src; cmd; raw; dec nargs; arg...; "nil" | dec ntags; key; value; ...]
     — the deep snapshot the handler took of its *Line BEFORE scribbling over it (tags sorted by key).
   e_model : every handler sees ParseLine(line) (coq/Model/Line.v [parse]).
   e_oracle: C15_ok (parsed value) (observed entry snapshots), and every handler reported. *)
From Verif Require Import EntryBase LineLib Line LineCopy.
Open Scope Z_scope.

Definition lval_of_line (l : line) : lval :=
  {| v_scal := [l_nick l; l_ident l; l_host l; l_src l; l_cmd l; l_raw l];
     v_args := l_args l; v_tags := l_tags l |}.

Definition who_f : N := 102%N.  Definition who_b : N := 98%N.
Definition who_late : bytes := [108;97;116;101]%N.
Definition whos (nfg nbg : nat) (late : bool) : list bytes :=
  map (fun i => who_f :: dec_of_N (N.of_nat i)) (seq 0 nfg)
  ++ map (fun i => who_b :: dec_of_N (N.of_nat i)) (seq 0 nbg) ++ (if late then [who_late] else []).
Definition has_late (i : list bytes) : bool := match get i 5 with [] => true | _ => false end.

Fixpoint flat_tags (m : tagmap) : list bytes :=
  match m with [] => [] | (k, v) :: m' => k :: v :: flat_tags m' end.
Definition render (who : bytes) (v : lval) : list bytes :=
  who :: v_scal v ++ [dec_of_N (N.of_nat (length (v_args v)))] ++ v_args v
  ++ match v_tags v with
     | None => [tag_nil]
     | Some m => dec_of_N (N.of_nat (length m)) :: flat_tags (tags_sort m)
     end.

Definition expected (i : list bytes) : option lval :=
  match parse (get i 0) with
  | Ok (Some l) => Some (lval_of_line l)
  | _ => None
  end.
Definition mode_later (i : list bytes) : bool :=
  beq (get i 5) [108;97;116;101;114;98;103]%N || beq (get i 5) [108;97;116;101;114;102;103]%N.
Definition expected2 (i : list bytes) : option lval :=
  match parse (get i 7) with
  | Ok (Some l) => Some (lval_of_line l)
  | _ => None
  end.
Definition who_a0 : bytes := [97;48]%N.  Definition who_a1 : bytes := [97;49]%N.  Definition who_b1 : bytes := [98]%N.
Definition mode_burst (i : list bytes) : bool := beq (get i 5) [98;117;114;115;116]%N.
Definition burst_lines (i : list bytes) : list bytes := get i 0 :: skipn 7 i.
Fixpoint expected_all (ls : list bytes) : option (list lval) :=
  match ls with
  | [] => Some []
  | l :: ls' => match parse l, expected_all ls' with
                | Ok (Some x), Some t => Some (lval_of_line x :: t)
                | _, _ => None
                end
  end.
(* k handlers, each with one snapshot per expected value, in order *)
Fixpoint all2 (vs ss : list lval) : bool :=
  match vs, ss with
  | [], [] => true
  | v :: vs', s :: ss' => C15_ok v [s] && all2 vs' ss'
  | _, _ => false
  end.
Fixpoint burst_ok (vs : list lval) (k : nat) (ss : list lval) : bool :=
  match k with
  | O => match ss with [] => true | _ => false end
  | S k' => all2 vs (firstn (length vs) ss) && burst_ok vs k' (skipn (length vs) ss)
  end.
Definition model_C15 (i : list bytes) : list bytes :=
  if mode_burst i then
    match expected_all (burst_lines i) with
    | Some vs => flat_map (fun k => flat_map (render (who_b :: dec_of_N (N.of_nat k))) vs) (seq 0 (get_nat i 3))
    | None => [tag_bad]
    end
  else
  if mode_later i then
    match expected i, expected2 i with
    | Some v1, Some v2 => render who_a0 v1 ++ render who_a1 v1 ++ render who_b1 v2
    | _, _ => [tag_bad]
    end
  else
  match expected i with
  | Some v => flat_map (fun w => render w v) (whos (get_nat i 2) (get_nat i 3) (has_late i))
  | None => [tag_bad]
  end.

Fixpoint unflat_tags (n : nat) (l : list bytes) : tagmap :=
  match n, l with
  | S n', k :: v :: l' => (k, v) :: unflat_tags n' l'
  | _, _ => []
  end.
Fixpoint dec_snaps (fuel : nat) (o : list bytes) : option (list lval) :=
  match fuel with
  | O => None
  | S f =>
      match o with
      | [] => Some []
      | _who :: n :: i :: h :: s :: c :: r :: na :: rest =>
          let nargs := Z.to_nat (match Z_of_dec na with Some z => z | None => 0 end) in
          let args := firstn nargs rest in
          match skipn nargs rest with
          | nt :: rest' =>
              let ntags := Z.to_nat (match Z_of_dec nt with Some z => z | None => 0 end) in
              let '(tags, rest'') := if beq nt tag_nil then (None, rest')
                                     else (Some (unflat_tags ntags rest'), skipn (2 * ntags) rest') in
              if (length args =? nargs)%nat then
                match dec_snaps f rest'' with
                | Some t => Some ({| v_scal := [n; i; h; s; c; r]; v_args := args; v_tags := tags |} :: t)
                | None => None
                end
              else None
          | [] => None
          end
      | _ => None
      end
  end.

Definition oracle_C15 (i o : list bytes) : bool :=
  if mode_burst i then
    match expected_all (burst_lines i), dec_snaps (S (length o)) o with
    | Some vs, Some ss => burst_ok vs (get_nat i 3) ss
    | _, _ => false
    end
  else
  if mode_later i then
    match expected i, expected2 i, dec_snaps (S (length o)) o with
    | Some v1, Some v2, Some [a0; a1; b] => C15_ok v1 [a0; a1] && C15_ok v2 [b]
    | _, _, _ => false
    end
  else
  match expected i, dec_snaps (S (length o)) o with
  | Some v, Some snaps =>
      (length snaps =? get_nat i 2 + get_nat i 3 + (if has_late i then 1 else 0))%nat && C15_ok v snaps
  | _, _ => false
  end.

Definition entry_C15 : entry := det_entry model_C15 oracle_C15.
