(* Entry/EntryBase.v — the uniform interface between the Coq development and the
   correspondence harness.  A case is a list of byte-string fields (the input) and the
   implementation's observation is another list of fields.  Per property:
     e_model  : the model's prediction of the gating observables for this input;
     e_agree  : does the model agree with what the implementation did (for a deterministic
                core: field-wise equality with e_model; for a concurrent one: "is this
                history a behaviour of the model");
     e_oracle : the property's predicate, evaluated on the IMPLEMENTATION's observation —
                the same boolean the theorems in Props/ are stated with.
   All decoding glue lives here, in Gallina, so the OCaml driver is property-independent. *)
From Verif Require Export GoBytes.
Open Scope Z_scope.

Record entry := {
  e_model  : list bytes -> list bytes;
  e_agree  : list bytes -> list bytes -> bool;
  e_oracle : list bytes -> list bytes -> bool
}.

Fixpoint fields_eqb (a b : list bytes) : bool :=
  match a, b with
  | [], [] => true
  | x :: a', y :: b' => beq x y && fields_eqb a' b'
  | _, _ => false
  end.

Definition det_entry (model : list bytes -> list bytes)
           (oracle : list bytes -> list bytes -> bool) : entry :=
  {| e_model := model;
     e_agree := fun i o => fields_eqb (model i) o;
     e_oracle := oracle |}.

(* ASCII tags used in observations *)
Definition tag_ok : bytes := [111; 107]%N.                    (* "ok" *)
Definition tag_panic : bytes := [112; 97; 110; 105; 99]%N.    (* "panic" *)
Definition tag_bad : bytes := [98; 97; 100]%N.                (* "bad": undecodable case *)
Definition tag_nil : bytes := [110; 105; 108]%N.              (* "nil" *)
Definition tag_true : bytes := [116]%N.                       (* "t" *)
Definition tag_false : bytes := [102]%N.                      (* "f" *)
Definition of_bool (b : bool) : bytes := if b then tag_true else tag_false.
Definition to_bool (s : bytes) : bool := beq s tag_true.

Definition get (l : list bytes) (i : nat) : bytes := nth i l [].
Definition getZ (l : list bytes) (i : nat) : Z :=
  match Z_of_dec (nth i l []) with Some z => z | None => 0 end.
Definition get_nat (l : list bytes) (i : nat) : nat := Z.to_nat (getZ l i).

(* take [n] fields starting at [i] *)
Definition take_from {A} (l : list A) (i n : nat) : list A := firstn n (skipn i l).
