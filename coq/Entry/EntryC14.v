(* Entry/EntryC14.v — case formats for C14 (operation encoding as in Entry/EntryC12.v).
   kind "alias": input = ["alias"; me; dec #N; nicks...; dec #C; chans...; (opcode; dec #args; args...)*]
                 obs   = the C12 observation (taken while the harness scribbles over everything it
                         is handed) ++ one flag per operation.
     e_model  = plain model's prediction ++ "t" flags;   e_oracle = C14_alias_ok (equality with it);
     e_agree  = additionally the heap model of Model/TrackerAlias.v, running the same experiment
                with its own scribbling caller, predicts the same (sequences of at most
                al_observe_max operations; the heap model keeps every object ever allocated).
   kind "conc":  input = ["conc"; me; dec #setup fields; setup ops...; dec T; (dec #fields; ops...) x T]
                 obs   = per goroutine, per call: dec inv; dec ret; dec #fields; rendered result.
     e_oracle = e_agree = C14_conc_ok: the history is linearizable w.r.t. TrackerSpec.sp_step
                (no deterministic prediction exists; e_model returns ["lin"]).
   kind "hammer": input = ["hammer"; note; me; dec #fields; setup; dec #fields; writer ops; dec R;
                           dec #fields; query ops; dec cap]
                 obs   = per recorded read: dec query index; dec lo; dec hi; dec #fields; rendered result.
     e_oracle = e_agree = C14_hammer_ok (at least one read; every read matches some prefix of the
                writer's calls within [lo, hi]).
   kind "nihammer": input = ["nihammer"; note; then as "conc"]; obs as "conc".  e_oracle = e_agree =
                 C14_ni_ok on the nick named by the first call.
   (std++ and GoBytes notations clash, hence the Tracker* modules are Required, not Imported.) *)
From Verif Require Import EntryBase.
From Verif Require TrackerSpec TrackerImpl TrackerObs TrackerAlias TrackerC14 LinCheck.
Open Scope Z_scope.

Definition c14_opc (a b : N) : bytes := [a; b].

Definition c14_mk_op (o : bytes) (a : list bytes) : option TrackerSpec.op :=
  let g := get a in
  let n := length a in
  if beq o (c14_opc 78 78) && Nat.eqb n 1 then Some (TrackerSpec.ONewNick (g 0%nat))
  else if beq o (c14_opc 71 78) && Nat.eqb n 1 then Some (TrackerSpec.OGetNick (g 0%nat))
  else if beq o (c14_opc 82 78) && Nat.eqb n 2 then Some (TrackerSpec.OReNick (g 0%nat) (g 1%nat))
  else if beq o (c14_opc 68 78) && Nat.eqb n 1 then Some (TrackerSpec.ODelNick (g 0%nat))
  else if beq o (c14_opc 78 73) && Nat.eqb n 4 then Some (TrackerSpec.ONickInfo (g 0%nat) (g 1%nat) (g 2%nat) (g 3%nat))
  else if beq o (c14_opc 78 77) && Nat.eqb n 2 then Some (TrackerSpec.ONickModes (g 0%nat) (g 1%nat))
  else if beq o (c14_opc 78 67) && Nat.eqb n 1 then Some (TrackerSpec.ONewChannel (g 0%nat))
  else if beq o (c14_opc 71 67) && Nat.eqb n 1 then Some (TrackerSpec.OGetChannel (g 0%nat))
  else if beq o (c14_opc 68 67) && Nat.eqb n 1 then Some (TrackerSpec.ODelChannel (g 0%nat))
  else if beq o (c14_opc 84 79) && Nat.eqb n 2 then Some (TrackerSpec.OTopic (g 0%nat) (g 1%nat))
  else if beq o (c14_opc 67 77) && Nat.leb 2 n then Some (TrackerSpec.OChannelModes (g 0%nat) (g 1%nat) (skipn 2 a))
  else if beq o (c14_opc 77 69) && Nat.eqb n 0 then Some TrackerSpec.OMe
  else if beq o (c14_opc 73 79) && Nat.eqb n 2 then Some (TrackerSpec.OIsOn (g 0%nat) (g 1%nat))
  else if beq o (c14_opc 65 83) && Nat.eqb n 2 then Some (TrackerSpec.OAssociate (g 0%nat) (g 1%nat))
  else if beq o (c14_opc 68 73) && Nat.eqb n 2 then Some (TrackerSpec.ODissociate (g 0%nat) (g 1%nat))
  else if beq o (c14_opc 87 73) && Nat.eqb n 0 then Some TrackerSpec.OWipe
  else None.

Inductive c14_dstate :=
| C14DOp | C14DCnt (o : bytes) | C14DArgs (o : bytes) (k : nat) (acc : list bytes).

Definition c14_nat_of (f : bytes) : option nat :=
  match N_of_dec f with Some n => Some (N.to_nat n) | None => None end.

Fixpoint c14_dec_ops (l : list bytes) (st : c14_dstate) : option (list TrackerSpec.op) :=
  match l with
  | [] => match st with C14DOp => Some [] | _ => None end
  | f :: l' =>
      match st with
      | C14DOp => c14_dec_ops l' (C14DCnt f)
      | C14DCnt o =>
          match c14_nat_of f with
          | Some O => match c14_mk_op o [], c14_dec_ops l' C14DOp with
                      | Some x, Some r => Some (x :: r) | _, _ => None end
          | Some k => c14_dec_ops l' (C14DArgs o k [])
          | None => None
          end
      | C14DArgs o k acc =>
          match k with
          | S O => match c14_mk_op o (rev (f :: acc)), c14_dec_ops l' C14DOp with
                   | Some x, Some r => Some (x :: r) | _, _ => None end
          | S k' => c14_dec_ops l' (C14DArgs o k' (f :: acc))
          | O => None
          end
      end
  end.

Definition t_alias : bytes := [97; 108; 105; 97; 115]%N.
Definition t_conc : bytes := [99; 111; 110; 99]%N.
Definition t_lin : bytes := [108; 105; 110]%N.
Definition t_hammer : bytes := [104; 97; 109; 109; 101; 114]%N.
Definition t_nihammer : bytes := [110; 105; 104; 97; 109; 109; 101; 114]%N.

(* ---------- alias ---------- *)
Record c14alias := { ca_me : bytes; ca_U : TrackerObs.universe; ca_ops : list TrackerSpec.op }.

Definition decode_alias (i : list bytes) : option c14alias :=
  match i with
  | me :: cn :: r2 =>
      match c14_nat_of cn with
      | Some kn =>
          let ns := firstn kn r2 in
          match skipn kn r2 with
          | cc :: r3 =>
              match c14_nat_of cc with
              | Some kc =>
                  let cs := firstn kc r3 in
                  match c14_dec_ops (skipn kc r3) C14DOp with
                  | Some ops =>
                      if Nat.eqb (length ns) kn && Nat.eqb (length cs) kc
                      then Some {| ca_me := me; ca_U := TrackerObs.Build_universe ns cs; ca_ops := ops |}
                      else None
                  | None => None
                  end
              | None => None
              end
          | [] => None
          end
      | None => None
      end
  | _ => None
  end.

(* ---------- conc ---------- *)
(* the goroutines' programs: a list of (#fields; ops...) sections; [fuel] bounds the number of sections *)
Fixpoint dec_progs (fuel : nat) (l : list bytes) : option (list (list TrackerSpec.op)) :=
  match fuel with
  | O => match l with [] => Some [] | _ => None end
  | S fuel' =>
      match l with
      | [] => None
      | nf :: rest =>
          match c14_nat_of nf with
          | Some k =>
              if Nat.leb k (length rest) then
                match c14_dec_ops (firstn k rest) C14DOp, dec_progs fuel' (skipn k rest) with
                | Some p, Some ps => Some (p :: ps)
                | _, _ => None
                end
              else None
          | None => None
          end
      end
  end.

Record c14conc := { cn_me : bytes; cn_setup : list TrackerSpec.op; cn_progs : list (list TrackerSpec.op) }.

Definition decode_conc (i : list bytes) : option c14conc :=
  match i with
  | me :: ns :: r =>
      match c14_nat_of ns with
      | Some k =>
          if Nat.leb k (length r) then
            match c14_dec_ops (firstn k r) C14DOp, skipn k r with
            | Some setup, tf :: r2 =>
                match c14_nat_of tf with
                | Some T => if Nat.leb T 64 then
                              match dec_progs T r2 with
                              | Some ps => Some {| cn_me := me; cn_setup := setup; cn_progs := ps |}
                              | None => None
                              end
                            else None
                | None => None
                end
            | _, _ => None
            end
          else None
      | None => None
      end
  | _ => None
  end.

(* the history: the calls in program order (goroutine-major), each with [inv; ret; #fields; fields...] *)
Fixpoint dec_hist (ops : list TrackerSpec.op) (o : list bytes) : option (list (LinCheck.hcall TrackerSpec.op (list bytes))) :=
  match ops with
  | [] => match o with [] => Some [] | _ => None end
  | op :: ops' =>
      match o with
      | fi :: fr :: fn :: rest =>
          match Z_of_dec fi, Z_of_dec fr, c14_nat_of fn with
          | Some inv, Some ret, Some k =>
              if Nat.leb k (length rest) && (inv <? ret) then
                match dec_hist ops' (skipn k rest) with
                | Some h => Some (LinCheck.Build_hcall _ _ op (firstn k rest) inv ret :: h)
                | None => None
                end
              else None
          | _, _, _ => None
          end
      | _ => None
      end
  end.

(* the search tries candidates in list order: sorted by return stamp, its first choice is almost
   always the order in which the mutex was taken (a heuristic only: the verdict does not depend
   on the order of the list, see C14_checker_sound) *)
Fixpoint ins_by_ret (c : LinCheck.hcall TrackerSpec.op (list bytes)) (l : list (LinCheck.hcall TrackerSpec.op (list bytes))) :=
  match l with
  | [] => [c]
  | d :: l' => if (LinCheck.h_ret c <=? LinCheck.h_ret d) then c :: l else d :: ins_by_ret c l'
  end.
Definition sort_by_ret (l : list (LinCheck.hcall TrackerSpec.op (list bytes))) := fold_right ins_by_ret [] l.

Definition conc_ok (c : c14conc) (o : list bytes) : bool :=
  match dec_hist (concat (cn_progs c)) o with
  | Some h => TrackerC14.C14_conc_ok (cn_me c) (cn_setup c) (sort_by_ret h)
  | None => false
  end.

(* ---------- hammer ---------- *)
(* input (after the tag): note; me; #fields; setup; #fields; writer; R; #fields; queries; cap *)
Definition take_section (l : list bytes) : option (list TrackerSpec.op * list bytes) :=
  match l with
  | nf :: rest =>
      match c14_nat_of nf with
      | Some k => if Nat.leb k (length rest)
                  then match c14_dec_ops (firstn k rest) C14DOp with
                       | Some ops => Some (ops, skipn k rest)
                       | None => None
                       end
                  else None
      | None => None
      end
  | [] => None
  end.

Record c14hammer := { ch_me : bytes; ch_setup : list TrackerSpec.op; ch_writer : list TrackerSpec.op;
                      ch_queries : list TrackerSpec.op }.
Definition decode_hammer (i : list bytes) : option c14hammer :=
  match i with
  | _note :: me :: r =>
      match take_section r with
      | Some (setup, r1) =>
          match take_section r1 with
          | Some (w, _R :: r2) =>
              match take_section r2 with
              | Some (qs, [_cap]) => Some {| ch_me := me; ch_setup := setup; ch_writer := w; ch_queries := qs |}
              | _ => None
              end
          | _ => None
          end
      | None => None
      end
  | _ => None
  end.

(* reads: [query index; lo; hi; #fields; fields...]*; [fuel] >= number of reads *)
Fixpoint dec_reads (fuel : nat) (qs : list TrackerSpec.op) (o : list bytes) : option (list TrackerC14.hread) :=
  match o with
  | [] => Some []
  | fq :: flo :: fhi :: fn :: rest =>
      match fuel with
      | O => None
      | S fuel' =>
          match c14_nat_of fq, c14_nat_of flo, c14_nat_of fhi, c14_nat_of fn with
          | Some qi, Some lo, Some hi, Some k =>
              match nth_error qs qi with
              | Some q =>
                  if Nat.leb k (length rest) then
                    match dec_reads fuel' qs (skipn k rest) with
                    | Some rs => Some (TrackerC14.Build_hread q lo hi (firstn k rest) :: rs)
                    | None => None
                    end
                  else None
              | None => None
              end
          | _, _, _, _ => None
          end
      end
  | _ => None
  end.

Definition hammer_ok (c : c14hammer) (o : list bytes) : bool :=
  match dec_reads (length o) (ch_queries c) o with
  | Some rs => negb (Nat.eqb (length rs) 0)
               && TrackerC14.C14_hammer_ok (ch_me c) (ch_setup c) (ch_writer c) rs
  | None => false
  end.

(* ---------- nihammer: the format of conc after a note field; the last program is the epilogue ---------- *)
Definition ni_nick (c : c14conc) : bytes :=
  match concat (cn_progs c) with
  | TrackerSpec.ONickInfo n _ _ _ :: _ => n
  | TrackerSpec.OGetNick n :: _ => n
  | _ => []
  end.
Definition nihammer_ok (c : c14conc) (o : list bytes) : bool :=
  match dec_hist (concat (cn_progs c)) o with
  | Some h => negb (Nat.eqb (length h) 0) && TrackerC14.C14_ni_ok (cn_me c) (cn_setup c) (ni_nick c) h
  | None => false
  end.

(* ---------- the entry ---------- *)
Definition model_C14 (i : list bytes) : list bytes :=
  match i with
  | k :: r =>
      if beq k t_alias then
        match decode_alias r with
        | Some c => TrackerC14.C14_alias_predict (ca_me c) (ca_U c) (ca_ops c)
        | None => [tag_bad]
        end
      else if beq k t_conc then [t_lin]
      else if beq k t_hammer then [t_lin]
      else if beq k t_nihammer then [t_lin]
      else [tag_bad]
  | [] => [tag_bad]
  end.

Definition oracle_C14 (i o : list bytes) : bool :=
  match i with
  | k :: r =>
      if beq k t_alias then
        match decode_alias r with
        | Some c => TrackerC14.C14_alias_ok (ca_me c) (ca_U c) (ca_ops c) o
        | None => false
        end
      else if beq k t_conc then
        match decode_conc r with
        | Some c => conc_ok c o
        | None => false
        end
      else if beq k t_hammer then
        match decode_hammer r with
        | Some c => hammer_ok c o
        | None => false
        end
      else if beq k t_nihammer then
        match r with
        | _note :: r' => match decode_conc r' with
                         | Some c => nihammer_ok c o
                         | None => false
                         end
        | [] => false
        end
      else false
  | [] => false
  end.

Definition agree_C14 (i o : list bytes) : bool :=
  match i with
  | k :: r =>
      if beq k t_alias then
        match decode_alias r with
        | Some c => let m := TrackerC14.C14_alias_predict (ca_me c) (ca_U c) (ca_ops c) in
                    fields_eqb m o
                    && (Nat.ltb TrackerC14.al_observe_max (length (ca_ops c))
                        || fields_eqb m (TrackerC14.al_observe (ca_me c) (ca_U c) (ca_ops c)))
        | None => false
        end
      else oracle_C14 i o
  | [] => false
  end.

Definition entry_C14 : entry :=
  {| e_model := model_C14; e_agree := agree_C14; e_oracle := oracle_C14 |}.
