(* Entry/LifecycleDecode.v — decoding of the observation of the lifecycle harness
   (harness/lifecycle_common.go), shared by EntryC06 and EntryC07.
   obs = [complete t/f; leaked (decimal); hung t/f; fresh t/f; note (free text); event ...]
   event fields (ASCII, ':'-separated; n = id of the calling goroutine of the harness):
     cc:n  es:g:n  rg:g  cr:n:g | cr:n:-  xc:n  xr:n  dc:g  en:g  sm:{R,L,D}:g:{t,f} *)
From Verif Require Import EntryBase LifecycleLts.
Open Scope N_scope.

Definition nat_of_field (s : bytes) : option nat :=
  match N_of_dec s with Some n => Some (N.to_nat n) | None => None end.

Definition decode_ev (f : bytes) : option Ev :=
  match split_byte f 58 with
  | [[99; 99]; n] => option_map (fun n => EConnCall (User n)) (nat_of_field n)
  | [[101; 115]; g; n] =>
      match nat_of_field g, nat_of_field n with
      | Some g, Some n => Some (EEstab g (User n)) | _, _ => None end
  | [[114; 103]; g] => option_map EReg (nat_of_field g)
  | [[99; 114]; n; g] =>
      match nat_of_field n with
      | Some n => if beq g [45] then Some (EConnRet (User n) None)
                  else option_map (fun g => EConnRet (User n) (Some g)) (nat_of_field g)
      | None => None end
  | [[120; 99]; n] => option_map (fun n => ECloseCall (User n)) (nat_of_field n)
  | [[120; 114]; n] => option_map (fun n => ECloseRet (User n)) (nat_of_field n)
  | [[100; 99]; g] => option_map EDisc (nat_of_field g)
  | [[101; 110]; g] => option_map EEnder (nat_of_field g)
  | [[115; 109]; [k]; g; [b]] =>
      let kind := if k =? 82 then Some SReg else if k =? 76 then Some SLine
                  else if k =? 68 then Some SDisc else None in
      match kind, nat_of_field g with
      | Some kind, Some g => Some (ESample kind g (b =? 116))
      | _, _ => None end
  | _ => None
  end.

Fixpoint decode_evs (fs : list bytes) : option (list Ev) :=
  match fs with
  | [] => Some []
  | f :: r => match decode_ev f, decode_evs r with
              | Some e, Some l => Some (e :: l)
              | _, _ => None end
  end.

Record lc_obs := { o_complete : bool; o_leaked : nat; o_hung : bool; o_fresh : bool; o_hist : list Ev }.

Definition decode_obs (o : list bytes) : option lc_obs :=
  match o with
  | c :: l :: h :: f :: _note :: evs =>
      match nat_of_field l, decode_evs evs with
      | Some l, Some evs => Some {| o_complete := to_bool c; o_leaked := l; o_hung := to_bool h;
                                    o_fresh := to_bool f; o_hist := evs |}
      | _, _ => None end
  | _ => None
  end.
