(* Proofs/GenEqSplit.v — the Gallina TRANSLATION of client/commands.go cutNewLines,
   indexFragment, splitMessage, splitArgs (Gen/GoFuncs.v, regenerated from the Go source on
   every run) is extensionally equal to the hand-written model of Model/Split.v — for all
   inputs, panics included. *)
From Verif Require Import GoBytes LineLib Split GoBytesFacts SplitProofs GoFuncs GenEqTac.
Open Scope Z_scope.

(* ---------- cutNewLines ---------- *)
Lemma go_cutNewLines_eq s : go_client_cutNewLines s = Ok (cut_newlines s).
Proof.
  go_unfold go_client_cutNewLines. unfold cut_newlines. cbv zeta.
  repeat (rewrite elem_at_split2_0; cbn [bind]). reflexivity.
Qed.

(* ---------- indexFragment ---------- *)
Lemma go_indexFragment_eq s : go_client_indexFragment s = Ok (index_fragment s).
Proof.
  go_unfold go_client_indexFragment. go_lets loop.
  assert (Hloop : forall l acc, loop l acc =
            fold_left (fun mx sep => let idx := last_index s sep in
                                     if idx >? mx then idx else mx) l acc).
  { induction l as [|x l IH]; intros acc; [reflexivity|].
    cbn [fold_left]. rewrite <- IH. unfold loop at 1; fold loop. cbv zeta.
    first [reflexivity | f_equal; go_cases]. }
  rewrite !Hloop. clear Hloop loop.
  unfold index_fragment, sentence_seps, sp. cbv zeta.
  set (m := fold_left _ _ _). go_cases.
Qed.

(* ---------- splitMessage ---------- *)
Lemma go_splitMessage_eq msg n : go_client_splitMessage msg n = split_message msg n.
Proof.
  go_unfold go_client_splitMessage. repeat go_let_any. go_name_loop loop.
  (* the effective split length, whatever way the source computes it *)
  match goal with n' := _ : Z |- _ =>
    assert (Hn : n' = eff_split n)
      by (subst n'; unfold eff_split, min_split, default_split; go_cases);
    clearbody n'; subst n'
  end.
  go_subst_lets.
  assert (Hloop : forall fuel m ms,
            (p <- loop fuel m ms ;; let '(m', ms') := p in Ok (ms' ++ [m']))
            = (tl <- split_loop fuel m (eff_split n) ;; Ok (ms ++ tl))).
  { induction fuel as [|f IH]; intros m ms.
    - cbn [split_loop]. unfold loop. go_cases.
    - cbn [split_loop]. unfold loop at 1; fold loop. unfold marker_len, marker.
      go_ifs2; [|reflexivity].
      rewrite !bind_assoc. go_same2 slice_to.
      destruct (slice_to m (eff_split n - 3)) as [pre|] eqn:Hpre; [|reflexivity]. cbn [bind].
      rewrite go_indexFragment_eq. cbn [bind]. cbv zeta.
      go_same2 slice_to.
      match goal with |- (x <- slice_to m ?idx ;; _) = _ =>
        destruct (slice_to m idx) as [hd|]; [|reflexivity]; cbn [bind];
        destruct (slice_from m idx) as [rest|]; [|reflexivity]; cbn [bind]
      end.
      rewrite IH. rewrite !bind_assoc.
      destruct (split_loop f rest (eff_split n)) as [tl|]; [|reflexivity]. cbn [bind].
      rewrite <- app_assoc. reflexivity. }
  rewrite Hloop. unfold split_message.
  destruct (split_loop _ _ _); reflexivity.
Qed.

(* ---------- splitArgs ----------
   The Go code walks [args] with an index; the model recurses on the list.  The invariant:
   at index [llen pre] of [args = pre ++ rest] the loops behave like the model on [rest]. *)
Lemma split_args_inner_suffix maxlen : forall rest cur c r,
  split_args_inner cur rest maxlen = (c, r) -> exists mid, rest = mid ++ r.
Proof.
  induction rest as [|a rest IH]; intros cur c r H; cbn [split_args_inner] in H.
  - inversion H. exists []. reflexivity.
  - destruct (len cur + len a + 1 <? maxlen).
    + destruct (IH _ _ _ H) as [mid ->]. exists (a :: mid). reflexivity.
    + inversion H. exists []. reflexivity.
Qed.

Lemma split_args_fuel_nil k maxlen : split_args_fuel k [] maxlen = [].
Proof. destruct k; reflexivity. Qed.

Lemma go_splitArgs_eq args maxLen : go_client_splitArgs args maxLen = Ok (split_args args maxLen).
Proof.
  go_unfold go_client_splitArgs.
  set_loop_of_type inner (nat -> Z -> bytes -> res (Z * bytes)).
  go_lets loop.
  (* the inner loop: extend currArg while the next argument fits *)
  assert (Hinner : forall rest pre cur fuel, args = pre ++ rest -> (length rest < fuel)%nat ->
            inner fuel (llen pre) cur
            = let '(c, r) := split_args_inner cur rest maxLen in Ok (llen args - llen r, c)).
  { induction rest as [|a rest IH]; intros pre cur fuel Hargs Hfuel.
    - rewrite app_nil_r in Hargs. subst pre. cbn [split_args_inner].
      destruct fuel; unfold inner; rewrite Z.ltb_irrefl; cbn [bind];
        (repeat f_equal; unfold llen; cbn [length]; lia).
    - destruct fuel as [|f]; [cbn [length] in Hfuel; lia|].
      cbn [split_args_inner]. unfold inner at 1; fold inner.
      assert (Hi : llen pre <? llen args = true).
      { subst args. rewrite ge_llen_app. unfold llen at 3. cbn [length]. lia. }
      assert (Hel : elem_at args (llen pre) = Ok a) by (rewrite Hargs at 1; apply ge_elem_at_mid).
      rewrite Hi, Hel. cbn [bind].
      destruct (len cur + len a + 1 <? maxLen) eqn:Hfit.
      + cbv zeta.
        rewrite <- (IH (pre ++ [a]) (cur ++ [sp] ++ a) f).
        * f_equal; first [rewrite ge_llen_app; reflexivity | unfold sp; rewrite <- ?app_assoc; reflexivity].
        * rewrite <- app_assoc. exact Hargs.
        * cbn [length] in Hfuel. lia.
      + f_equal. f_equal. rewrite Hargs, ge_llen_app. lia. }
  (* the outer loop: one result per iteration *)
  assert (Houter : forall k rest pre acc fuel, args = pre ++ rest ->
            (length rest <= k)%nat -> (k < fuel)%nat ->
            loop fuel acc (llen pre) = Ok (acc ++ split_args_fuel k rest maxLen, llen args)).
  { induction k as [|k IH]; intros rest pre acc fuel Hargs Hk Hfuel.
    - destruct rest; [|cbn [length] in Hk; lia]. rewrite app_nil_r in Hargs. subst pre.
      cbn [split_args_fuel]. rewrite app_nil_r.
      destruct fuel; unfold loop; rewrite Z.ltb_irrefl; reflexivity.
    - destruct rest as [|a rest].
      + rewrite app_nil_r in Hargs. subst pre. rewrite split_args_fuel_nil, app_nil_r.
        destruct fuel; unfold loop; rewrite Z.ltb_irrefl; reflexivity.
      + destruct fuel as [|f]; [lia|].
        cbn [split_args_fuel]. unfold loop at 1; fold loop.
        assert (Hi : llen pre <? llen args = true).
        { subst args. rewrite ge_llen_app. unfold llen at 3. cbn [length]. lia. }
        assert (Hel : elem_at args (llen pre) = Ok a) by (rewrite Hargs at 1; apply ge_elem_at_mid).
        rewrite Hi, Hel. cbn [bind]. cbv zeta.
        replace (llen pre + 1) with (llen (pre ++ [a])) by (rewrite ge_llen_app; reflexivity).
        rewrite (Hinner rest (pre ++ [a]) a).
        * destruct (split_args_inner a rest maxLen) as [c r] eqn:Hin. cbn [bind].
          destruct (split_args_inner_suffix _ _ _ _ _ Hin) as [mid Hmid].
          assert (Hargs' : args = (pre ++ [a] ++ mid) ++ r).
          { rewrite Hargs, Hmid, <- !app_assoc. reflexivity. }
          assert (Hlen : llen args = llen (pre ++ [a] ++ mid) + llen r)
            by (rewrite Hargs' at 1; apply ge_llen_app).
          replace (llen args - llen r) with (llen (pre ++ [a] ++ mid)) by lia.
          rewrite (IH r (pre ++ [a] ++ mid) (acc ++ [c]) f Hargs').
          -- rewrite <- app_assoc. reflexivity.
          -- cbn [length] in Hk. subst rest. rewrite app_length in Hk. lia.
          -- lia.
        * rewrite <- app_assoc. exact Hargs.
        * rewrite Hargs, !app_length. cbn [length]. lia. }
  change 0 with (llen (@nil bytes)).
  rewrite (Houter (length args) args [] [] (S (length args)) eq_refl (le_n _) (Nat.lt_succ_diag_r _)).
  reflexivity.
Qed.
