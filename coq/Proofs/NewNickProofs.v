(* Proofs/NewNickProofs.v — lemmas about Model/NewNick.v (DefaultNewNick, for C17). *)
From Verif Require Import GoBytes GoBytesFacts NewNick.
Open Scope Z_scope.

(* ---------- the byte map has no fixed point: exhaustive over 0..255, then all of N ---------- *)
Definition all_bytes : list N := map N.of_nat (seq 0 256).

Lemma all_bytes_complete c : (c < 256)%N -> In c all_bytes.
Proof.
  intros H. unfold all_bytes. rewrite <- (N2Nat.id c). apply in_map. apply in_seq. lia.
Qed.

Lemma new_nick_byte_sweep :
  forallb (fun c => negb (N.eqb (new_nick_byte c) c)
                    && (new_nick_byte c <? 128)%N
                    && ((48 <=? new_nick_byte c)%N && (new_nick_byte c <=? 57)%N
                        || (65 <=? new_nick_byte c)%N && (new_nick_byte c <=? 125)%N)) all_bytes = true.
Proof. vm_compute. reflexivity. Qed.

Lemma new_nick_byte_large c : (256 <= c)%N -> new_nick_byte c = 95%N.
Proof.
  intros H. unfold new_nick_byte.
  destruct ((48 <=? c)%N && (c <=? 57)%N) eqn:E1; [lia|].
  destruct ((65 <=? c)%N && (c <=? 125)%N) eqn:E2; [lia|]. reflexivity.
Qed.

Lemma new_nick_byte_neq c : new_nick_byte c <> c.
Proof.
  destruct (N.lt_ge_cases c 256) as [H|H].
  - pose proof new_nick_byte_sweep as S. rewrite forallb_forall in S.
    specialize (S c (all_bytes_complete c H)).
    rewrite !andb_true_iff, negb_true_iff, N.eqb_neq in S. tauto.
  - rewrite (new_nick_byte_large c H). lia.
Qed.

(* the new last byte is a digit, or in 'A'..'}' (which contains '_'): one byte under string(c) *)
Lemma new_nick_byte_ascii c :
  (48 <= new_nick_byte c <= 57)%N \/ (65 <= new_nick_byte c <= 125)%N.
Proof.
  destruct (N.lt_ge_cases c 256) as [H|H].
  - pose proof new_nick_byte_sweep as S. rewrite forallb_forall in S.
    specialize (S c (all_bytes_complete c H)).
    rewrite !andb_true_iff, orb_true_iff, !andb_true_iff, !N.leb_le in S. tauto.
  - rewrite (new_nick_byte_large c H). lia.
Qed.

(* ---------- shape of the result ---------- *)
Lemma byte_at_last s c : byte_at (s ++ [c]) (len (s ++ [c]) - 1) = Ok c.
Proof.
  unfold byte_at. rewrite len_app. change (len [c]) with 1. pose proof (len_nonneg s).
  replace (len s + 1 - 1) with (len s) by lia.
  destruct ((0 <=? len s) && (len s <? len s + 1)) eqn:E; [|lia].
  unfold len. rewrite Nat2Z.id, nth_error_app2 by lia. rewrite Nat.sub_diag. reflexivity.
Qed.

Lemma slice_to_last s c : slice_to (s ++ [c]) (len (s ++ [c]) - 1) = Ok s.
Proof.
  unfold slice_to. rewrite len_app. change (len [c]) with 1. pose proof (len_nonneg s).
  replace (len s + 1 - 1) with (len s) by lia.
  destruct ((0 <=? len s) && (len s <=? len s + 1)) eqn:E; [|lia].
  unfold len. rewrite Nat2Z.id, firstn_app, Nat.sub_diag, firstn_all. cbn [firstn].
  rewrite app_nil_r. reflexivity.
Qed.

Lemma dnn_res_snoc s c : default_new_nick_res (s ++ [c]) = Ok (s ++ [new_nick_byte c]).
Proof.
  unfold default_new_nick_res.
  destruct (len (s ++ [c]) =? 0) eqn:E.
  - rewrite len_app in E. change (len [c]) with 1 in E. pose proof (len_nonneg s). lia.
  - rewrite byte_at_last, slice_to_last. reflexivity.
Qed.

(* DefaultNewNick never panics *)
Lemma dnn_no_panic old : exists r, default_new_nick_res old = Ok r.
Proof.
  destruct old as [|x old'] using rev_ind; [exists underscore; reflexivity|].
  rewrite dnn_res_snoc. eauto.
Qed.

Lemma dnn_empty : default_new_nick [] = underscore.
Proof. reflexivity. Qed.

Lemma dnn_snoc s c : default_new_nick (s ++ [c]) = s ++ [new_nick_byte c].
Proof. unfold default_new_nick. rewrite dnn_res_snoc. reflexivity. Qed.

(* the whole function in one line *)
Lemma dnn_shape old : old <> [] ->
  default_new_nick old = removelast old ++ [new_nick_byte (last old 0%N)].
Proof.
  intros H. destruct (exists_last H) as (s & c & ->).
  rewrite dnn_snoc, removelast_last, last_last. reflexivity.
Qed.

(* C17_default_new_nick: same length, different, same prefix — for EVERY non-empty old
   (the hypothesis "all bytes < 256" turns out not to be needed: values >= 256, which no Go
   string contains, fall into the default branch) *)
Lemma dnn_spec old : old <> [] ->
  length (default_new_nick old) = length old
  /\ default_new_nick old <> old
  /\ removelast (default_new_nick old) = removelast old.
Proof.
  intros H. destruct (exists_last H) as (s & c & ->). rewrite dnn_snoc.
  split; [rewrite !app_length; reflexivity|]. split.
  - intros E. apply app_inj_tail in E as [_ E]. exact (new_nick_byte_neq c E).
  - rewrite !removelast_last. reflexivity.
Qed.

(* the form asked for, with the byte-range hypothesis *)
Lemma dnn_spec_bytes old : old <> [] -> Forall (fun c => (c < 256)%N) old ->
  length (default_new_nick old) = length old
  /\ default_new_nick old <> old
  /\ removelast (default_new_nick old) = removelast old.
Proof. intros H _. exact (dnn_spec old H). Qed.

(* the boolean the C17 entry will use holds of the model's own output, and says the above *)
Lemma dnn_ok_model old : dnn_ok old (default_new_nick old) = true.
Proof.
  destruct old as [|x old'] eqn:E; [reflexivity|]. rewrite <- E.
  assert (H : old <> []) by (rewrite E; discriminate).
  destruct (dnn_spec old H) as (Hl & Hn & Hp).
  unfold dnn_ok. rewrite E at 1. rewrite Hl, Nat.eqb_refl, Hp, beq_refl.
  apply beq_neq in Hn. rewrite Hn. reflexivity.
Qed.

Lemma dnn_ok_meaning old new : old <> [] -> dnn_ok old new = true ->
  length new = length old /\ new <> old /\ removelast new = removelast old.
Proof.
  intros H. unfold dnn_ok. destruct old as [|x old']; [contradiction|].
  rewrite !andb_true_iff, negb_true_iff, Nat.eqb_eq, beq_neq, beq_eq. tauto.
Qed.

(* examples: "nick9" -> "nick0", "nick}" -> "nickA", "nick_" -> "nick`", "nick~" -> "nick_",
   "nick\xff" -> "nick_" *)
Example dnn_examples :
  map default_new_nick [[110;105;99;107;57]; [110;105;99;107;125]; [110;105;99;107;95];
                        [110;105;99;107;126]; [110;105;99;107;255]; []]%N
  = [[110;105;99;107;48]; [110;105;99;107;65]; [110;105;99;107;96];
     [110;105;99;107;95]; [110;105;99;107;95]; [95]]%N.
Proof. vm_compute. reflexivity. Qed.

(* For whoever assembles Props/C17.v — the tie to the source (checked against the current
   Gen/Consts.v; the literals are: 0, "_", 1, '0', '9', '0', '0', 1, 10, 'A', '}', 'A', 'A', 1, 61, '_', 1):

   Lemma tie_dnn : lits_client_DefaultNewNick =
     [LInt 0; LStr underscore; LInt 1; LInt 48; LInt 57; LInt 48; LInt 48; LInt 1; LInt 10;
      LInt 65; LInt 125; LInt 65; LInt 65; LInt 1; LInt 61; LInt 95; LInt 1].
   Proof. vm_compute. reflexivity. Qed. *)
