(* Proofs/RegisterProofs.v — lemmas about Model/Register.v (C18). *)
From Verif Require Import GoBytes LineLib Line LineSend Split Commands NickHandlers Register.
From Verif Require Import GoBytesFacts LineSendFacts LineTotal LineRoundTrip LineDeliver CommandsProofs NickProofs.
Open Scope Z_scope.

(* ================= cutNewLines on the registration lines ================= *)
Lemma no_nl_clean s : no_nl s = true <-> clean s.
Proof.
  unfold no_nl, clean. rewrite forallb_forall, Forall_forall. unfold is_nl.
  split; intros H c Hc; specialize (H c Hc).
  - now apply negb_true_iff in H.
  - now apply negb_true_iff.
Qed.

Lemma raw_pre_shape pre s : clean pre -> raw (pre ++ s) = pre ++ cut_nl s.
Proof. intros H. unfold raw. rewrite cut_newlines_cut_nl. now apply cut_nl_app. Qed.

Lemma raw_clean s : clean s -> raw s = s.
Proof. intros H. unfold raw. rewrite cut_newlines_cut_nl. now apply cut_nl_id. Qed.
Lemma raw_pre2 a b s : clean (a ++ b) -> raw (a ++ b ++ s) = a ++ b ++ cut_nl s.
Proof. intros H. rewrite app_assoc, (raw_pre_shape _ _ H). now rewrite <- app_assoc. Qed.

Lemma clean_lit_CAP_LS : clean (s_CAP ++ s_sp ++ s_LS). Proof. repeat constructor. Qed.
Lemma clean_PASS_sp : clean (s_PASS ++ s_sp). Proof. repeat constructor. Qed.
Lemma clean_NICK_sp' : clean (s_NICK ++ s_sp). Proof. repeat constructor. Qed.
Lemma clean_USER_sp : clean (s_USER ++ s_sp). Proof. repeat constructor. Qed.
Lemma clean_user_mid : clean s_user_mid. Proof. repeat constructor. Qed.
Lemma clean_PONG_colon : clean (s_PONG ++ s_sp_colon). Proof. repeat constructor. Qed.
Lemma clean_PING_colon : clean (s_PING ++ s_sp_colon). Proof. repeat constructor. Qed.

(* the lines of h_REGISTER, whatever the configuration contains: the four commands with
   cutNewLines applied to each whole line *)
Lemma emit_register_shape c me : rc_me c = Some me ->
  emit_register c =
  ((if rc_negotiate c then [s_CAP ++ s_sp ++ s_LS] else [])
   ++ (if beq (rc_pass c) [] then [] else [s_PASS ++ s_sp ++ cut_nl (rc_pass c)])
   ++ [s_NICK ++ s_sp ++ cut_nl (nk_nick me);
       s_USER ++ s_sp ++ cut_nl (nk_ident me ++ s_user_mid ++ nk_name me)], false).
Proof.
  intros Hm. unfold emit_register. rewrite Hm. unfold cmd_lines. cbn [emit arg nth skipn].
  rewrite (raw_clean _ clean_lit_CAP_LS), !raw_pre2 by (repeat constructor).
  destruct (rc_negotiate c); destruct (beq (rc_pass c) []); reflexivity.
Qed.

(* the USER line when the ident is free of CR/LF *)
Lemma user_line_clean_ident ident name : clean ident ->
  s_USER ++ s_sp ++ cut_nl (ident ++ s_user_mid ++ name)
  = s_USER ++ s_sp ++ ident ++ s_user_mid ++ cut_nl name.
Proof.
  intros H. rewrite cut_nl_app by exact H. rewrite cut_nl_app by exact clean_user_mid. reflexivity.
Qed.

(* C18_registration, exact form: no CR/LF in password, nick, ident, name *)
Lemma emit_register_exact c me : rc_me c = Some me ->
  clean (rc_pass c) -> clean (nk_nick me) -> clean (nk_ident me) -> clean (nk_name me) ->
  emit_register c = (reg_exact (rc_negotiate c) (rc_pass c) (nk_nick me) (nk_ident me) (nk_name me), false).
Proof.
  intros Hm Hp Hn Hi Ha. rewrite (emit_register_shape c me Hm). unfold reg_exact.
  rewrite (cut_nl_id _ Hp), (cut_nl_id _ Hn), cut_nl_app by exact Hi.
  rewrite cut_nl_app by exact clean_user_mid. now rewrite (cut_nl_id _ Ha).
Qed.

(* a nil Config.Me: CAP LS and PASS go out, then the handler panics (contained by Recover) *)
Lemma emit_register_nil c : rc_me c = None ->
  emit_register c =
  ((if rc_negotiate c then [s_CAP ++ s_sp ++ s_LS] else [])
   ++ (if beq (rc_pass c) [] then [] else [s_PASS ++ s_sp ++ cut_nl (rc_pass c)]), true).
Proof.
  intros Hm. unfold emit_register. rewrite Hm. unfold cmd_lines. cbn [emit arg nth skipn].
  rewrite (raw_clean _ clean_lit_CAP_LS), !raw_pre2 by (repeat constructor).
  destruct (rc_negotiate c); destruct (beq (rc_pass c) []); reflexivity.
Qed.

(* ---------- first words: once each, in this order ---------- *)
Lemma first_word_pre v rest : ~ In 32%N v -> first_word (v ++ s_sp ++ rest) = v.
Proof. intros H. unfold first_word, s_sp. cbn [app]. now rewrite split2_byte_found. Qed.

Lemma register_verbs c me : rc_me c = Some me ->
  map first_word (fst (emit_register c)) = reg_verbs (rc_negotiate c) (rc_pass c).
Proof.
  intros Hm. rewrite (emit_register_shape c me Hm). cbn [fst]. unfold reg_verbs.
  assert (Hsp : forall v, In v [s_CAP; s_PASS; s_NICK; s_USER] -> ~ In 32%N v).
  { intros v Hv H. repeat (destruct Hv as [<-|Hv]; [repeat (destruct H as [H|H]; [discriminate|]); exact H|]). exact Hv. }
  destruct (rc_negotiate c); destruct (beq (rc_pass c) []); cbn [map app];
    rewrite !first_word_pre by (apply Hsp; cbn; tauto); reflexivity.
Qed.

(* the predicate of the check holds of the model's own lines *)
Lemma list_beq_refl' l : list_beq l l = true.
Proof. induction l as [|x l IH]; [reflexivity|]. cbn. now rewrite beq_refl. Qed.

Lemma reg_ok_model c me : rc_me c = Some me ->
  C18_reg_ok (rc_negotiate c) (rc_pass c) me (fst (emit_register c)) = true.
Proof.
  intros Hm. unfold C18_reg_ok. rewrite (register_verbs c me Hm), list_beq_refl'. cbn [andb].
  apply andb_true_iff. split.
  - rewrite (emit_register_shape c me Hm). cbn [fst]. destruct (rc_negotiate c); [|reflexivity].
    cbn [app]. apply beq_refl.
  - destruct (no_nl (rc_pass c) && no_nl (nk_nick me) && no_nl (nk_ident me) && no_nl (nk_name me)) eqn:E; [|reflexivity].
    apply andb_true_iff in E as [E E4]. apply andb_true_iff in E as [E E3]. apply andb_true_iff in E as [E1 E2].
    apply no_nl_clean in E1, E2, E3, E4.
    rewrite (emit_register_exact c me Hm E1 E2 E3 E4). cbn [fst]. apply list_beq_refl'.
Qed.

(* ================= the dial address ================= *)
Lemma has_prefix_byte x s c : has_prefix (x :: s) [c] = N.eqb x c.
Proof. cbn [has_prefix]. now rewrite andb_true_r. Qed.

Lemma last_index_aux_notin s c : forall i acc, ~ In c s -> last_index_aux s [c] i acc = acc.
Proof.
  induction s as [|x s IH]; intros i acc H; [reflexivity|].
  cbn [last_index_aux]. rewrite has_prefix_byte.
  destruct (N.eqb x c) eqn:E; [apply N.eqb_eq in E; subst; exfalso; apply H; now left|].
  apply IH. intros Hin. apply H. now right.
Qed.

Lemma last_index_aux_lb s c lb : forall i acc, lb <= acc -> lb <= Z.of_nat i -> lb <= last_index_aux s [c] i acc.
Proof.
  induction s as [|x s IH]; intros i acc H1 H2.
  - cbn [last_index_aux has_prefix]. exact H1.
  - cbn [last_index_aux]. rewrite has_prefix_byte. apply IH; [|lia]. destruct (N.eqb x c); lia.
Qed.

Lemma last_index_aux_in s c : forall i acc, In c s -> Z.of_nat i <= last_index_aux s [c] i acc.
Proof.
  induction s as [|x s IH]; intros i acc H; [destruct H|].
  cbn [last_index_aux]. rewrite has_prefix_byte. destruct (N.eqb x c) eqn:E.
  - apply last_index_aux_lb; lia.
  - destruct H as [->|H]; [rewrite N.eqb_refl in E; discriminate|]. specialize (IH (S i) acc H). lia.
Qed.

Lemma last_index_notin s c : ~ In c s -> last_index s [c] = -1.
Proof. apply last_index_aux_notin. Qed.
Lemma last_index_in s c : In c s -> 0 <= last_index s [c].
Proof. intros H. exact (last_index_aux_in s c 0 (-1) H). Qed.

(* no ':' in the configured server: the default port is appended *)
Lemma dial_default c : ~ In 58%N (rc_server c) ->
  dial_addr c = rc_server c ++ s_colon ++ (if rc_ssl c then port_ssl else port_plain).
Proof.
  intros H. unfold dial_addr, has_port.
  change (last_index (rc_server c) s_colon) with (last_index (rc_server c) [58%N]).
  rewrite (last_index_notin _ _ H).
  assert (E : (-1 >? last_index (rc_server c) s_rbracket) = false).
  { pose proof (last_index_range (rc_server c) s_rbracket). lia. }
  rewrite E. cbn [negb]. unfold join_host_port.
  assert (Ei : index (rc_server c) s_colon = -1) by (apply index_none_iff_byte; exact H).
  rewrite Ei. destruct (rc_ssl c); reflexivity.
Qed.

(* hasPort says a port was given: the address is used as it is *)
Lemma dial_has_port c : has_port (rc_server c) = true -> dial_addr c = rc_server c.
Proof. intros H. unfold dial_addr. now rewrite H. Qed.

(* a ':' and no ']' — in particular host:port — counts as "port given" *)
Lemma has_port_colon s : In 58%N s -> ~ In 93%N s -> has_port s = true.
Proof.
  intros H1 H2. unfold has_port.
  change (last_index s s_rbracket) with (last_index s [93%N]). change (last_index s s_colon) with (last_index s [58%N]).
  rewrite (last_index_notin s 93%N H2).
  pose proof (last_index_in s 58%N H1). lia.
Qed.

Lemma dial_ok_model c : C18_dial_ok (rc_server c) (rc_ssl c) (dial_addr c) = true.
Proof.
  unfold C18_dial_ok. destruct (mem_byte 58%N (rc_server c)) eqn:E1; cbn [negb].
  - destruct (negb (mem_byte 93%N (rc_server c)) && negb (mem_byte 91%N (rc_server c))
              && Nat.eqb (length (filter (N.eqb 58%N) (rc_server c))) 1) eqn:E2; [|reflexivity].
    apply andb_true_iff in E2 as [E2 _]. apply andb_true_iff in E2 as [E2 _]. apply negb_true_iff in E2.
    apply mem_byte_In in E1. apply mem_byte_not_In in E2.
    rewrite dial_has_port by (apply has_port_colon; assumption). apply beq_refl.
  - apply mem_byte_not_In in E1. rewrite (dial_default c E1). apply beq_refl.
Qed.

(* ================= PING from the server ================= *)
Lemma trailing_clean tok : forallb trailing_byte tok = true -> clean tok.
Proof.
  intros H. apply Forall_forall. intros c Hc. pose proof (forallb_In _ _ _ H Hc) as T.
  unfold trailing_byte in T. apply andb_true_iff in T as [T T3]. apply andb_true_iff in T as [_ T2].
  unfold is_nl. apply negb_true_iff in T2, T3. unfold b_cr, b_lf in *. now rewrite T2, T3.
Qed.

Lemma pong_lines tok : clean tok -> cmd_lines MPong [tok] = Ok [s_PONG ++ s_sp_colon ++ tok].
Proof.
  intros H. unfold cmd_lines. cbn [emit arg nth]. rewrite app_assoc, (raw_pre_shape _ _ clean_PONG_colon).
  now rewrite (cut_nl_id _ H), <- app_assoc.
Qed.

Lemma wf_ping_trailing src tok : src_ok src = true -> forallb trailing_byte tok = true ->
  wf_msg (ping_trailing src tok) = true.
Proof. intros H1 H2. unfold wf_msg, ping_trailing. cbn. now rewrite H1, H2. Qed.

Lemma wf_ping_middle src tok : src_ok src = true -> middle_ok tok = true ->
  wf_msg (ping_middle src tok) = true.
Proof. intros H1 H2. unfold wf_msg, ping_middle. cbn. now rewrite H1, H2. Qed.

Lemma exp_ping_trailing src tok :
  l_cmd (expected (ping_trailing src tok)) = c_PING /\ l_args (expected (ping_trailing src tok)) = [tok].
Proof. destruct src as [[n|n u h]|]; split; reflexivity. Qed.
Lemma exp_ping_middle src tok :
  l_cmd (expected (ping_middle src tok)) = c_PING /\ l_args (expected (ping_middle src tok)) = [tok].
Proof. destruct src as [[n|n u h]|]; split; reflexivity. Qed.

(* C18_pong: "PING :tok" (with or without a source), any token the wire can carry *)
Theorem pong_trailing src tok : src_ok src = true -> forallb trailing_byte tok = true ->
  pong_of_raw (wire (ping_trailing src tok)) = ([s_PONG ++ s_sp_colon ++ tok], false).
Proof.
  intros H1 H2. unfold pong_of_raw. rewrite (recv_roundtrip _ (wf_ping_trailing src tok H1 H2)).
  destruct (exp_ping_trailing src tok) as [Ec Ea]. rewrite Ec, beq_refl.
  unfold h_PING. rewrite Ea, elem_at_0, (pong_lines tok (trailing_clean tok H2)). reflexivity.
Qed.

Lemma middle_trailing tok : middle_ok tok = true -> forallb trailing_byte tok = true.
Proof.
  unfold middle_ok, word_ok. intros H. apply andb_true_iff in H as [H _]. apply andb_true_iff in H as [_ H].
  apply forallb_forall. intros c Hc. apply word_byte_trailing. exact (forallb_In _ _ _ H Hc).
Qed.

(* ... and the one-word form "PING tok" *)
Theorem pong_middle src tok : src_ok src = true -> middle_ok tok = true ->
  pong_of_raw (wire (ping_middle src tok)) = ([s_PONG ++ s_sp_colon ++ tok], false).
Proof.
  intros H1 H2. unfold pong_of_raw. rewrite (recv_roundtrip _ (wf_ping_middle src tok H1 H2)).
  destruct (exp_ping_middle src tok) as [Ec Ea]. rewrite Ec, beq_refl.
  unfold h_PING. rewrite Ea, elem_at_0, (pong_lines tok (trailing_clean tok (middle_trailing tok H2))). reflexivity.
Qed.

(* a PING without any argument: line.Args[0] panics, nothing is sent (contained by Recover) *)
Lemma ping_no_args l : l_args l = [] -> h_PING l = ([], true).
Proof. intros H. unfold h_PING. now rewrite H. Qed.

Lemma is_pong_line_pong tok : is_pong_line (s_PONG ++ s_sp_colon ++ tok) = true.
Proof.
  unfold is_pong_line. change (s_PONG ++ s_sp_colon ++ tok) with (s_PONG ++ s_sp ++ ([58%N] ++ tok)).
  rewrite first_word_pre; [apply beq_refl|].
  intros H. repeat (destruct H as [H|H]; [discriminate|]). exact H.
Qed.

Lemma pong_ok_model tok : C18_pong_ok (Some tok) [s_PONG ++ s_sp_colon ++ tok] = true.
Proof. unfold C18_pong_ok. cbn [filter]. rewrite is_pong_line_pong. cbn [list_beq]. now rewrite beq_refl. Qed.

(* a sequence of PINGs, of any length: one PONG each, in order *)
Lemma busy_ok_model toks : Forall (fun t => forallb trailing_byte t = true) toks ->
  C18_busy_ok toks (flat_map (fun t => fst (pong_of_raw (wire (ping_trailing None t)))) toks) = true.
Proof.
  intros H. unfold C18_busy_ok.
  assert (E : filter is_pong_line (flat_map (fun t => fst (pong_of_raw (wire (ping_trailing None t)))) toks)
              = map (fun t => s_PONG ++ s_sp_colon ++ t) toks).
  { induction H as [|t toks Ht _ IH]; [reflexivity|].
    cbn [flat_map map]. rewrite (pong_trailing None t eq_refl Ht). cbn [fst app filter].
    rewrite is_pong_line_pong. now rewrite IH. }
  rewrite E. apply list_beq_refl'.
Qed.

(* ================= PING from the client ================= *)
Lemma digits_aux_digits fuel : forall n acc,
  Forall (fun c => is_digit_b c = true) acc -> Forall (fun c => is_digit_b c = true) (digits_aux fuel n acc).
Proof.
  induction fuel as [|f IH]; intros n acc H; [exact H|].
  cbn [digits_aux].
  assert (Hd : is_digit_b (48 + n mod 10)%N = true).
  { unfold is_digit_b. pose proof (N.mod_upper_bound n 10 ltac:(discriminate)).
    apply andb_true_iff. split; apply N.leb_le; lia. }
  destruct (n <? 10)%N; [constructor; assumption|]. apply IH. constructor; assumption.
Qed.

Lemma dec_of_N_digits n : Forall (fun c => is_digit_b c = true) (dec_of_N n).
Proof. apply digits_aux_digits. constructor. Qed.

Lemma digit_clean c : is_digit_b c = true -> is_nl c = false.
Proof.
  unfold is_digit_b, is_nl. intros H. apply andb_true_iff in H as [H1 H2]. apply N.leb_le in H1, H2.
  destruct (N.eqb c 13) eqn:E1; [apply N.eqb_eq in E1; lia|].
  destruct (N.eqb c 10) eqn:E2; [apply N.eqb_eq in E2; lia|]. reflexivity.
Qed.

Lemma dec_of_Z_clean z : clean (dec_of_Z z).
Proof.
  unfold dec_of_Z. destruct (z <? 0).
  - constructor; [reflexivity|]. eapply Forall_impl; [|apply dec_of_N_digits]. apply digit_clean.
  - eapply Forall_impl; [|apply dec_of_N_digits]. apply digit_clean.
Qed.

(* one tick of the ping goroutine: exactly "PING :<decimal>"; for a clock after 1970 all digits *)
Theorem ping_tick_shape nanos : ping_tick nanos = [s_PING ++ s_sp_colon ++ dec_of_Z nanos].
Proof.
  unfold ping_tick, cmd_lines. cbn [emit arg nth]. rewrite app_assoc, (raw_pre_shape _ _ clean_PING_colon).
  now rewrite (cut_nl_id _ (dec_of_Z_clean nanos)), <- app_assoc.
Qed.

Lemma ping_tick_digits nanos : 0 <= nanos -> Forall (fun c => is_digit_b c = true) (dec_of_Z nanos).
Proof.
  intros H. unfold dec_of_Z. destruct (nanos <? 0) eqn:E; [lia|]. apply dec_of_N_digits.
Qed.
