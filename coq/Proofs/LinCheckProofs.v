(* Proofs/LinCheckProofs.v — soundness of the linearizability checker: a "yes" comes with a
   real-time-respecting order whose sequential replay gives the returned results. *)
From Coq Require Import List ZArith Bool Lia Permutation.
From Verif Require Import LinCheck.
Import ListNotations.
Open Scope Z_scope.

Section Proofs.
  Variables (St Op Obs : Type).
  Variable step : St -> Op -> St * Obs.
  Variable obs_eqb : Obs -> Obs -> bool.
  Notation hcall := (hcall Op Obs).
  Notation lin_search := (lin_search St Op Obs step obs_eqb).
  Notation lin_witness := (lin_witness St Op Obs step obs_eqb).

  Lemma minimal_spec (c : hcall) calls : minimal Op Obs c calls = true -> forall d, In d calls -> ~ (h_ret d < h_inv c).
  Proof.
    unfold minimal. rewrite forallb_forall. intros H d Hd L. specialize (H d Hd).
    apply negb_true_iff, Z.ltb_ge in H. lia.
  Qed.

  Lemma rt_ok_perm_head (c : hcall) rest calls :
    Permutation (c :: rest) calls -> (forall d, In d calls -> ~ (h_ret d < h_inv c)) ->
    forall d, In d rest -> ~ (h_ret d < h_inv c).
  Proof. intros P H d Hd. apply H. eapply Permutation_in; [exact P|]. right. exact Hd. Qed.

  Theorem lin_search_sound n : forall s calls budget b,
    lin_search n s calls budget = (Some true, b) ->
    exists order, Permutation order calls /\ lin_witness s order.
  Proof.
    induction n as [|n IH]; intros s calls budget b H.
    - destruct calls; simpl in H; [|discriminate]. exists []. split; [constructor|]. split; exact I.
    - destruct calls as [|c0 calls0]; [exists []; split; [constructor|split; exact I]|].
      simpl in H. set (calls := c0 :: calls0) in *.
      (* generalise over the inner loop *)
      assert (forall post pre budget b,
                 (fix each (pre post : list hcall) (budget : N) {struct post} : option bool * N :=
                    match post with
                    | [] => (Some false, budget)
                    | c :: post' =>
                        let sr := step s (h_op c) in
                        if minimal Op Obs c calls && obs_eqb (snd sr) (h_obs c) then
                          if (budget =? 0)%N then (None, 0%N)
                          else match lin_search n (fst sr) (rev_append pre post') (budget - 1)%N with
                               | (Some true, b) => (Some true, b)
                               | (None, b) => (None, b)
                               | (Some false, b) => each (c :: pre) post' b
                               end
                        else each (c :: pre) post' budget
                    end) pre post budget = (Some true, b) ->
                 Permutation (rev_append pre post) calls ->
                 exists order, Permutation order calls /\ lin_witness s order) as Hloop.
      { clear H. induction post as [|c post' IHp]; intros pre bud b' H P; [discriminate|].
        cbv zeta in H.
        destruct (minimal Op Obs c calls && obs_eqb (snd (step s (h_op c))) (h_obs c)) eqn:Hc.
        - apply andb_true_iff in Hc as [Hmin Hobs].
          destruct (bud =? 0)%N; [discriminate|].
          destruct (lin_search n (fst (step s (h_op c))) (rev_append pre post') (bud - 1)%N) as [[[|]|] b2] eqn:Hrec.
          + destruct (IH _ _ _ _ Hrec) as (order & Po & Hrep & Hrt).
            assert (Permutation (c :: rev_append pre post') calls) as Pc.
            { rewrite <- P. rewrite !rev_append_rev. apply Permutation_middle. }
            exists (c :: order). split; [rewrite <- Pc; constructor; exact Po|].
            split; simpl; [split; assumption|]. split; [|assumption].
            intros d Hd. apply (minimal_spec c calls Hmin). eapply Permutation_in; [exact Pc|]. right.
            eapply Permutation_in; [exact Po|exact Hd].
          + apply (IHp (c :: pre) _ _ H). exact P.
          + discriminate.
        - apply (IHp (c :: pre) _ _ H). exact P. }
      apply (Hloop calls [] budget b H). simpl. reflexivity.
  Qed.

  Corollary linearizable_sound s calls budget :
    linearizable St Op Obs step obs_eqb s calls budget = true ->
    exists order, Permutation order calls /\ lin_witness s order.
  Proof.
    unfold linearizable, linearizable_opt. destruct (lin_search (length calls) s calls budget) as [[[|]|] b] eqn:E; simpl; try discriminate.
    intros _. eapply lin_search_sound; eauto.
  Qed.

  Lemma linearizable_by_spec s order : linearizable_by St Op Obs step obs_eqb s order = true <-> lin_witness s order.
  Proof.
    revert s. induction order as [|c l IH]; intros s; simpl.
    - split; [intros _; split; exact I|reflexivity].
    - rewrite !andb_true_iff, forallb_forall, IH. unfold LinCheck.lin_witness. simpl. split.
      + intros [[H1 H2] [H3 H4]]. repeat split; auto. intros d Hd L. specialize (H2 d Hd).
        apply negb_true_iff, Z.ltb_ge in H2. lia.
      + intros [[H1 H3] [H2 H4]]. repeat split; auto. intros d Hd. apply negb_true_iff, Z.ltb_ge.
        specialize (H2 d Hd). lia.
  Qed.
End Proofs.
