(* Proofs/GenEqTac.v — tactics and small facts shared by the GenEq*.v files, which prove
   the functions GENERATED from the Go source (Gen/GoFuncs.v) equal to the hand-written
   models.  The scripts follow the generated terms only loosely (naming lets, case analysis
   on whatever conditions occur, lia/congruence to close the branches) so that a
   behaviour-preserving rewrite of the Go source usually leaves them valid, while any
   change of behaviour leaves an unprovable branch. *)
From Verif Require Import GoBytes LineLib GoBytesFacts.
Open Scope Z_scope.

Lemma bind_assoc {A B C} (r : res A) (f : A -> res B) (g : B -> res C) :
  (y <- (x <- r ;; f x) ;; g y) = (x <- r ;; y <- f x ;; g y).
Proof. destruct r; reflexivity. Qed.

(* [go_unfold f]: replace the generated function by its body without reducing it *)
Ltac go_unfold f := cbv beta delta [f].

(* the left-hand side is [let x := v in B]: name [v] in the context, no substitution *)
Ltac go_let name :=
  lazymatch goal with
  | |- (let x := ?v in @?B x) = ?R => pose (name := v); change (B name = R); cbv beta
  end.

(* case analysis on every [if] / [match] scrutinee in the goal, then close the branches *)
Ltac go_case1 :=
  match goal with
  | |- context [if ?c then _ else _] => destruct c eqn:?
  | |- context [match ?x with Ok _ => _ | Panic => _ end] => destruct x eqn:?
  | |- context [bind ?r _] =>
      lazymatch r with
      | Ok _ => fail
      | Panic => fail
      | bind _ _ => fail
      | (if _ then _ else _) => fail
      | _ => destruct r eqn:?
      end
  end.
Lemma ge_beq_nil s : beq s [] = (len s =? 0).
Proof. destruct s; [reflexivity|]. cbn [beq]. unfold len. cbn [length]. symmetry. apply Z.eqb_neq. lia. Qed.

Lemma ge_len_pos s : (len s >? 0) = negb (beq s []).
Proof. rewrite ge_beq_nil. pose proof (len_nonneg s). destruct (len s =? 0) eqn:E; cbn [negb]; lia. Qed.

(* an equation between two booleans: compare their truth values arithmetically *)
Ltac go_booleq :=
  lazymatch goal with
  | |- ?a = ?b =>
      lazymatch type of a with
      | bool => destruct a eqn:?; destruct b eqn:?; try reflexivity; exfalso;
                unfold llen, len in *; lia
      end
  end.
(* equal data built from the same constructors with arithmetically equal numbers *)
Ltac go_data_eq :=
  repeat match goal with
  | |- Ok _ = Ok _ => apply f_equal
  | |- Some _ = Some _ => apply f_equal
  | |- (_, _) = (_, _) => apply f_equal2
  | |- _ :: _ = _ :: _ => apply f_equal2
  end; try reflexivity; try lia.
Ltac go_close :=
  try reflexivity; try solve [go_booleq]; try solve [go_data_eq]; try congruence; try (f_equal; lia); try (exfalso; lia);
  try (repeat f_equal; lia); try (rewrite <- ?app_assoc; reflexivity);
  try (exfalso; unfold llen, len in *; lia).
(* bounded: a diverging case analysis (after a source change) must fail, not hang *)
Ltac go_cases :=
  timeout 60 (repeat (cbn [bind]; rewrite ?ge_beq_nil; try go_case1)); go_close.

(* destruct the first partial operation the left-hand side is waiting for *)
Ltac go_head r :=
  lazymatch r with
  | bind ?r' _ => go_head r'
  | if ?c then _ else _ => destruct c eqn:?
  | Ok _ => fail "value"
  | Panic => fail "panic"
  | _ => destruct r eqn:?
  end.
Ltac go_step :=
  cbn [bind]; cbv zeta;
  lazymatch goal with |- ?l = _ => go_head l end; cbn [bind].

(* all leading lets of the left-hand side become context definitions; the (first) local
   fixpoint is called [loopname], the other definitions are substituted again *)
Ltac go_let_any :=
  lazymatch goal with
  | |- (let x := ?v in @?B x) = ?R =>
      let n := fresh "v" in pose (n := v); change (B n = R); cbv beta
  end.
Ltac go_name_loop loopname :=
  match goal with L := ?b |- _ => is_fix b; rename L into loopname end.
Ltac go_subst_lets :=
  repeat match goal with x := ?b |- _ => tryif is_fix b then fail else subst x end.
Ltac go_lets loopname := repeat go_let_any; go_name_loop loopname; go_subst_lets.

(* both sides wait for an [if]: split on both conditions, drop the inconsistent cases *)
Ltac go_head_cond t :=
  lazymatch t with
  | bind ?r _ => go_head_cond r
  | if ?c then _ else _ => c
  end.
Ltac go_ifs2 :=
  rewrite ?ge_beq_nil;
  lazymatch goal with |- ?l = ?r =>
    let c1 := go_head_cond l in let c2 := go_head_cond r in
    destruct c1 eqn:?; destruct c2 eqn:?; try (exfalso; lia); cbn [bind]
  end.

(* both sides wait for the same partial operation [f a _]: make the last argument equal *)
Ltac go_same2 f :=
  rewrite ?bind_assoc;
  lazymatch goal with
  | |- (x <- f ?a ?X ;; _) = (y <- f ?a ?Y ;; _) =>
      first [constr_eq X Y | replace X with Y by (repeat go_case1; go_close)]
  end.

Lemma ge_elem_at_0 {A} (x : A) l : elem_at (x :: l) 0 = Ok x.
Proof. reflexivity. Qed.

Lemma elem_at_split2_0 s sep : elem_at (split2 s sep) 0 = Ok (hd [] (split2 s sep)).
Proof. unfold split2. destruct (index s sep <? 0); reflexivity. Qed.

Lemma bind_ok_r {A} (r : res A) : (x <- r ;; Ok x) = r.
Proof. destruct r; reflexivity. Qed.


Lemma llen_length {A} (l : list A) : llen l = Z.of_nat (length l).
Proof. reflexivity. Qed.

Lemma ge_elem_at_mid {A} (pre : list A) a rest : elem_at (pre ++ a :: rest) (llen pre) = Ok a.
Proof.
  unfold elem_at, llen. rewrite app_length. cbn [length].
  replace ((0 <=? Z.of_nat (length pre)) && (Z.of_nat (length pre) <? Z.of_nat (length pre + S (length rest))))
    with true by (symmetry; apply andb_true_iff; split; lia).
  rewrite Nat2Z.id, nth_error_app2 by lia. rewrite Nat.sub_diag. reflexivity.
Qed.

Lemma ge_llen_app {A} (a b : list A) : llen (a ++ b) = llen a + llen b.
Proof. unfold llen. rewrite app_length. lia. Qed.

Lemma ge_llen_nonneg {A} (a : list A) : 0 <= llen a.
Proof. unfold llen. lia. Qed.

(* find a local fixpoint of the given type in the goal and name it *)
Ltac set_loop_of_type name T :=
  match goal with
  | |- context [?L] => is_fix L; let t := type of L in unify t T; set (name := L)
  end.
