(* Proofs/CommandsProofs.v — C08 (every method writes only whole CRLF-framed lines of its
   own verb) and the wire half of C11 (the four splitting methods embed the pieces). *)
From Verif Require Import GoBytes GoBytesFacts Split SplitProofs Commands.
Open Scope Z_scope.

(* ---------- cutNewLines, characterised by a one-pass scan ---------- *)
Definition is_nl (c : N) : bool := N.eqb c 13 || N.eqb c 10.

Fixpoint take_until (c : N) (s : bytes) : bytes :=
  match s with
  | [] => []
  | x :: s' => if N.eqb x c then [] else x :: take_until c s'
  end.

Fixpoint cut_nl (s : bytes) : bytes :=
  match s with
  | [] => []
  | x :: s' => if is_nl x then [] else x :: cut_nl s'
  end.

Lemma index_aux_byte s c i :
  let r := index_aux s [c] i in
  (r = -1 /\ take_until c s = s) \/
  (Z.of_nat i <= r /\ firstn (Z.to_nat (r - Z.of_nat i)) s = take_until c s).
Proof.
  revert i; induction s as [|x s IH]; intros i; cbn [index_aux has_prefix take_until].
  - left; split; reflexivity.
  - destruct (N.eqb x c) eqn:E; cbn [andb].
    + right. split; [lia|]. replace (Z.of_nat i - Z.of_nat i) with 0 by lia. reflexivity.
    + destruct (IH (S i)) as [[H1 H2]|[H1 H2]].
      * left. split; [exact H1|]. now rewrite H2.
      * right. split; [lia|].
        replace (Z.to_nat (index_aux s [c] (S i) - Z.of_nat i))
          with (S (Z.to_nat (index_aux s [c] (S i) - Z.of_nat (S i)))) by lia.
        cbn [firstn]. now rewrite H2.
Qed.

Lemma split2_hd_take_until s c : hd [] (split2 s [c]) = take_until c s.
Proof.
  unfold split2, index. pose proof (index_aux_byte s c 0) as H. cbv zeta in H.
  destruct H as [[H1 H2]|[H1 H2]].
  - rewrite H1. simpl. now rewrite H2.
  - destruct (index_aux s [c] 0 <? 0) eqn:E; [lia|]. simpl.
    rewrite <- H2. f_equal. simpl. lia.
Qed.

Lemma take_until_10_13 s : take_until 10 (take_until 13 s) = cut_nl s.
Proof.
  induction s as [|x s IH]; [reflexivity|]. cbn [take_until cut_nl]. unfold is_nl.
  destruct (N.eqb x 13) eqn:E13; [reflexivity|]. cbn [take_until orb].
  destruct (N.eqb x 10) eqn:E10; [reflexivity|]. now rewrite IH.
Qed.

Lemma cut_newlines_cut_nl s : cut_newlines s = cut_nl s.
Proof. unfold cut_newlines. rewrite !split2_hd_take_until. apply take_until_10_13. Qed.

Definition clean (s : bytes) : Prop := Forall (fun c => is_nl c = false) s.

Lemma clean_no_crlf s : clean s <-> no_crlf s.
Proof.
  unfold clean, no_crlf. rewrite Forall_forall. split.
  - intros H; split; intros Hin; apply H in Hin; discriminate.
  - intros [H1 H2] c Hin. unfold is_nl.
    destruct (N.eqb c 13) eqn:E1; [apply N.eqb_eq in E1; subst; contradiction|].
    destruct (N.eqb c 10) eqn:E2; [apply N.eqb_eq in E2; subst; contradiction|reflexivity].
Qed.

Lemma cut_nl_clean s : clean (cut_nl s).
Proof.
  induction s as [|x s IH]; simpl; [constructor|].
  destruct (is_nl x) eqn:E; constructor; assumption.
Qed.

Lemma cut_nl_app a r : clean a -> cut_nl (a ++ r) = a ++ cut_nl r.
Proof.
  induction 1 as [|x a Hx Ha IH]; [reflexivity|]. simpl. rewrite Hx. now rewrite IH.
Qed.

Lemma cut_nl_id a : clean a -> cut_nl a = a.
Proof. intros H. rewrite <- (app_nil_r a) at 1. rewrite cut_nl_app by exact H. apply app_nil_r. Qed.

Lemma clean_app a b : clean a -> clean b -> clean (a ++ b).
Proof. apply Forall_app_2 || (intros; apply Forall_app; split; assumption). Qed.

Lemma clean_app_inv a b : clean (a ++ b) -> clean a /\ clean b.
Proof. intros H; apply Forall_app in H; exact H. Qed.

(* ---------- framing ---------- *)
Lemma frames_aux_line l w cur :
  clean l -> frames_aux (l ++ crlf ++ w) cur =
             match frames_aux w [] with Some ls => Some ((rev cur ++ l) :: ls) | None => None end.
Proof.
  intros Hl; revert cur; induction Hl as [|x l Hx Hl IH]; intros cur.
  - cbn [app crlf frames_aux N.eqb Pos.eqb]. rewrite app_nil_r. reflexivity.
  - cbn [app frames_aux]. unfold is_nl in Hx. apply orb_false_iff in Hx as [H13 H10].
    rewrite H13, H10, IH. cbn [rev]. now rewrite <- app_assoc.
Qed.

Lemma frames_wire_of ls : Forall clean ls -> frames (wire_of ls) = Some ls.
Proof.
  unfold frames, wire_of. induction 1 as [|l ls Hl Hls IH]; [reflexivity|].
  cbn [map concat]. rewrite <- app_assoc, frames_aux_line by exact Hl. now rewrite IH.
Qed.

(* ---------- verbs ---------- *)
Lemma verb_clean m v : verb_of m = Some v -> clean v.
Proof. destruct m; intros H; inversion H; subst; repeat constructor. Qed.

(* a line built as verb ++ r, where r is empty or starts with a space, begins with the verb
   after the newline cut *)
Lemma verb_prefixed_cut v r :
  clean v -> (r = [] \/ exists r', r = 32%N :: r') ->
  verb_prefixed v (cut_nl (v ++ r)) = true.
Proof.
  intros Hv [->|[r' ->]]; unfold verb_prefixed.
  - rewrite app_nil_r, cut_nl_id by exact Hv. now rewrite beq_refl.
  - rewrite cut_nl_app by exact Hv. change (cut_nl (32%N :: r')) with (32%N :: cut_nl r').
    change (v ++ 32%N :: cut_nl r') with (v ++ s_sp ++ cut_nl r').
    rewrite app_assoc, has_prefix_app. apply orb_true_r.
Qed.

Lemma opt_trailing_shape pre msg :
  (exists p', pre = 32%N :: p') ->
  opt_trailing pre msg = [] \/ exists r', opt_trailing pre msg = 32%N :: r'.
Proof.
  intros [p' ->]. unfold opt_trailing. destruct (beq msg []); [now left|right; eexists; reflexivity].
Qed.

(* the per-line obligation of C08 *)
Definition line_ok (m : method) (l : bytes) : Prop :=
  clean l /\ match verb_of m with Some v => verb_prefixed v l = true | None => True end.

Lemma raw_line_ok m v r :
  verb_of m = Some v -> (r = [] \/ exists r', r = 32%N :: r') -> line_ok m (raw (v ++ r)).
Proof.
  intros Hv Hr. unfold line_ok, raw. rewrite cut_newlines_cut_nl, Hv.
  split; [apply cut_nl_clean|]. apply verb_prefixed_cut; [eapply verb_clean; eauto|exact Hr].
Qed.

Section WithUpper.
  Variable upper : bytes -> bytes.

  Ltac sp_shape := right; eexists; reflexivity.

  Lemma emit_lines_ok m cfg args :
    exists ls, emit upper m cfg args = Ok ls /\ Forall (line_ok m) ls
               /\ (m = MRaw -> ls = [cut_newlines (nth 0 args [])]).
  Proof.
    destruct m; cbn [emit];
      try (eexists; split; [reflexivity|]; split; [|intros; try discriminate; reflexivity];
           constructor; [|constructor]).
    (* single-line methods *)
    all: try (eapply raw_line_ok; [reflexivity|]; first [sp_shape | apply opt_trailing_shape; eexists; reflexivity]).
    - (* Raw *) unfold line_ok, raw. rewrite cut_newlines_cut_nl. split; [apply cut_nl_clean|exact I].
    - (* Privmsg *) unfold msg_lines.
      destruct (split_message_correct (arg args 1) (cc_split_len cfg)) as (ps & Hps & _).
      rewrite Hps. cbn [bind]. eexists; split; [reflexivity|]. split; [|discriminate].
      apply Forall_forall. intros l Hl. apply in_map_iff in Hl as (s & <- & _).
      eapply raw_line_ok; [reflexivity|sp_shape].
    - unfold msg_lines.
      destruct (split_message_correct (arg args 1) (cc_split_len cfg)) as (ps & Hps & _).
      rewrite Hps. cbn [bind]. eexists; split; [reflexivity|]. split; [|discriminate].
      apply Forall_forall. intros l Hl. apply in_map_iff in Hl as (s & <- & _).
      eapply raw_line_ok; [reflexivity|sp_shape].
    - unfold msg_lines.
      destruct (split_message_correct (arg args 1) (cc_split_len cfg)) as (ps & Hps & _).
      rewrite Hps. cbn [bind]. eexists; split; [reflexivity|]. split; [|discriminate].
      apply Forall_forall. intros l Hl. apply in_map_iff in Hl as (s & <- & _).
      eapply raw_line_ok; [reflexivity|sp_shape].
    - (* Notice *) unfold msg_lines.
      destruct (split_message_correct (arg args 1) (cc_split_len cfg)) as (ps & Hps & _).
      rewrite Hps. cbn [bind]. eexists; split; [reflexivity|]. split; [|discriminate].
      apply Forall_forall. intros l Hl. apply in_map_iff in Hl as (s & <- & _).
      eapply raw_line_ok; [reflexivity|sp_shape].
    - (* Ctcp *) unfold ctcp_lines.
      destruct (split_message_correct (join (skipn 2 args) s_sp) (cc_split_len cfg)) as (ps & Hps & _).
      rewrite Hps. cbn [bind]. eexists; split; [reflexivity|]. split; [|discriminate].
      apply Forall_forall. intros l Hl. apply in_map_iff in Hl as (s & <- & _).
      eapply raw_line_ok; [reflexivity|sp_shape].
    - (* CtcpReply *) unfold ctcp_lines.
      destruct (split_message_correct (join (skipn 2 args) s_sp) (cc_split_len cfg)) as (ps & Hps & _).
      rewrite Hps. cbn [bind]. eexists; split; [reflexivity|]. split; [|discriminate].
      apply Forall_forall. intros l Hl. apply in_map_iff in Hl as (s & <- & _).
      eapply raw_line_ok; [reflexivity|sp_shape].
    - (* Version *) unfold ctcp_lines.
      destruct (split_message_correct (join [] s_sp) (cc_split_len cfg)) as (ps & Hps & _).
      rewrite Hps. cbn [bind]. eexists; split; [reflexivity|]. split; [|discriminate].
      apply Forall_forall. intros l Hl. apply in_map_iff in Hl as (s & <- & _).
      eapply raw_line_ok; [reflexivity|sp_shape].
    - (* Action *) unfold ctcp_lines.
      destruct (split_message_correct (join [arg args 1] s_sp) (cc_split_len cfg)) as (ps & Hps & _).
      rewrite Hps. cbn [bind]. eexists; split; [reflexivity|]. split; [|discriminate].
      apply Forall_forall. intros l Hl. apply in_map_iff in Hl as (s & <- & _).
      eapply raw_line_ok; [reflexivity|sp_shape].
    - (* Cap *) destruct (skipn 1 args) as [|c caps] eqn:E.
      + eexists; split; [reflexivity|]. split; [|discriminate]. constructor; [|constructor].
        eapply raw_line_ok; [reflexivity|sp_shape].
      + eexists; split; [reflexivity|]. split; [|discriminate].
        apply Forall_forall. intros l Hl. apply in_map_iff in Hl as (s & <- & _).
        rewrite <- !app_assoc.
        eapply raw_line_ok; [reflexivity|sp_shape].
  Qed.

  (* C08 on the model: for every method, configuration and argument list *)
  Theorem C08_model m cfg args :
    exists ls, emit upper m cfg args = Ok ls /\ C08_ok m args (wire_of ls) = true.
  Proof.
    destruct (emit_lines_ok m cfg args) as (ls & He & Hok & Hraw).
    exists ls; split; [exact He|]. unfold C08_ok.
    rewrite frames_wire_of by (eapply Forall_impl; [|exact Hok]; intros l [H _]; exact H).
    destruct (verb_of m) as [v|] eqn:Ev.
    - apply forallb_forall. intros l Hl. rewrite Forall_forall in Hok.
      destruct (Hok l Hl) as [_ H]. rewrite Ev in H. exact H.
    - destruct m; try discriminate. rewrite (Hraw eq_refl). apply beq_refl.
  Qed.

  Theorem emit_never_panics m cfg args : emit upper m cfg args <> Panic.
  Proof. destruct (C08_model m cfg args) as (ls & H & _); congruence. Qed.
End WithUpper.

(* what C08_ok says, in words: the wire is a sequence of CRLF-terminated lines free of CR
   and LF, each beginning with the method's verb *)
Lemma frames_aux_sound w : forall cur ls,
  frames_aux w cur = Some ls -> clean cur ->
  match ls with
  | [] => w = [] /\ cur = []
  | l :: ls' => exists l2 w', l = rev cur ++ l2 /\ w = l2 ++ crlf ++ w' /\ clean l
                              /\ frames_aux w' [] = Some ls'
  end.
Proof.
  induction w as [|c w IH]; intros cur ls H Hc.
  - simpl in H. destruct cur; inversion H; subst. split; reflexivity.
  - cbn [frames_aux] in H. destruct (N.eqb c 13) eqn:E13.
    + apply N.eqb_eq in E13; subst c. destruct w as [|d w]; [discriminate|].
      destruct (N.eqb d 10) eqn:E10; [|discriminate]. apply N.eqb_eq in E10; subst d.
      destruct (frames_aux w []) as [ls'|] eqn:E; [|discriminate].
      inversion H; subst. exists [], w. rewrite app_nil_r.
      repeat split; auto. apply Forall_rev; exact Hc.
    + destruct (N.eqb c 10) eqn:E10; [discriminate|].
      apply IH in H; [|constructor; [unfold is_nl; now rewrite E13, E10|exact Hc]].
      destruct ls as [|l ls'].
      * destruct H as [_ H]; discriminate.
      * destruct H as (l2 & w' & Hl & Hw & Hcl & Hf).
        exists (c :: l2), w'. cbn [rev] in Hl. rewrite <- app_assoc in Hl.
        repeat split; auto. rewrite Hw. reflexivity.
Qed.

Theorem frames_meaning w ls :
  frames w = Some ls -> w = wire_of ls /\ Forall no_crlf ls.
Proof.
  unfold frames. revert w. induction ls as [|l ls IH]; intros w H.
  - apply frames_aux_sound in H; [|constructor]. destruct H as [-> _]. split; [reflexivity|constructor].
  - apply frames_aux_sound in H; [|constructor].
    destruct H as (l2 & w' & Hl & Hw & Hcl & Hf). simpl in Hl. subst l2.
    apply IH in Hf as [Hw' Hall]. split.
    + rewrite Hw, Hw'. unfold wire_of. cbn [map concat]. now rewrite <- app_assoc.
    + constructor; [apply clean_no_crlf; exact Hcl|exact Hall].
Qed.

(* ---------- C11 on the wire ---------- *)
Lemma strip_prefix_app p s : strip_prefix (p ++ s) p = Some s.
Proof.
  unfold strip_prefix. rewrite has_prefix_app. f_equal.
  rewrite skipn_app, Nat.sub_diag, skipn_all. reflexivity.
Qed.

Lemma strip_suffix_app s p : strip_suffix (s ++ p) p = Some s.
Proof.
  unfold strip_suffix. rewrite has_suffix_app. f_equal.
  rewrite app_length, Nat.add_sub, firstn_app, Nat.sub_diag, firstn_all. simpl. apply app_nil_r.
Qed.

Lemma all_some_map_some {A B} (f : A -> option B) (g : A -> B) l :
  (forall x, In x l -> f x = Some (g x)) -> all_some (map f l) = Some (map g l).
Proof.
  induction l as [|x l IH]; intros H; [reflexivity|]. cbn [map all_some].
  rewrite (H x (or_introl eq_refl)), IH; [reflexivity|]. intros y Hy; apply H; right; exact Hy.
Qed.

(* every piece of a split of a clean text is clean *)
Lemma split_spec_clean n msg ps : split_spec n msg ps -> clean msg -> Forall clean ps.
Proof.
  induction 1 as [msg H|head rest ps H1 H2 H3 H4 IH]; intros Hc.
  - constructor; [exact Hc|constructor].
  - apply clean_app_inv in Hc as [Hh Hr]. constructor; [|apply IH; exact Hr].
    apply clean_app; [exact Hh|repeat constructor].
Qed.

Lemma split_message_clean msg n ps :
  split_message msg n = Ok ps -> clean msg -> Forall clean ps.
Proof.
  intros H Hc. unfold split_message in H.
  destruct (split_loop_spec (eff_split n) (S (length msg)) (eff_split_min n) msg) as (ps' & Hps & Hspec); [lia|].
  rewrite H in Hps. inversion Hps; subst. eapply split_spec_clean; eauto.
Qed.

Section Wire.
  Variable upper : bytes -> bytes.

  (* Privmsg / Privmsgln / Privmsgf / Notice: one line per piece, same target, piece unchanged *)
  Theorem C11_wire_msg m verb t text n :
    msg_kind m = Some (verb, false) -> clean t -> clean text ->
    exists ls, emit upper m {| cc_split_len := n; cc_quit_message := [] |} [t; text] = Ok ls
               /\ C11_wire_ok m t (upper []) text n ls = true.
  Proof.
    intros Hk Ht Htext.
    destruct (split_message_correct text n) as (ps & Hps & Hok).
    pose proof (split_message_clean _ _ _ Hps Htext) as Hcl.
    assert (Hv : clean verb) by (destruct m; inversion Hk; subst; repeat constructor).
    exists (map (fun s => verb ++ s_sp ++ t ++ s_sp_colon ++ s) ps). split.
    - assert (He : emit upper m {| cc_split_len := n; cc_quit_message := [] |} [t; text]
                   = msg_lines verb t text n)
        by (destruct m; inversion Hk; subst; reflexivity).
      rewrite He. unfold msg_lines. rewrite Hps. cbn [bind]. f_equal.
      apply map_ext_in. intros s Hs. unfold raw. rewrite cut_newlines_cut_nl. apply cut_nl_id.
      rewrite Forall_forall in Hcl.
      repeat apply clean_app; auto; repeat constructor.
    - unfold C11_wire_ok. rewrite Hk.
      rewrite map_map.
      rewrite (all_some_map_some _ (fun s => s)).
      + rewrite map_id. exact Hok.
      + intros s _. unfold piece_of_msg.
        replace (verb ++ s_sp ++ t ++ s_sp_colon ++ s) with ((verb ++ s_sp ++ t ++ s_sp_colon) ++ s)
          by (now rewrite <- !app_assoc).
        apply strip_prefix_app.
  Qed.

  (* Ctcp / CtcpReply: the piece sits after "VERB" and one space, before the closing \001 *)
  Theorem C11_wire_ctcp m verb t ctcp text n :
    msg_kind m = Some (verb, true) -> clean t -> clean (upper ctcp) -> clean text ->
    exists ls, emit upper m {| cc_split_len := n; cc_quit_message := [] |} [t; ctcp; text] = Ok ls
               /\ C11_wire_ok m t (upper ctcp) text n ls = true.
  Proof.
    intros Hk Ht Hu Htext.
    destruct (split_message_correct text n) as (ps & Hps & Hok).
    pose proof (split_message_clean _ _ _ Hps Htext) as Hcl.
    assert (Hv : clean verb) by (destruct m; inversion Hk; subst; repeat constructor).
    set (line := fun s : bytes => let s' := if beq s [] then [] else s_sp ++ s in
                       verb ++ s_sp ++ t ++ s_sp_colon ++ [soh] ++ upper ctcp ++ s' ++ [soh]).
    exists (map line ps). split.
    - assert (He : emit upper m {| cc_split_len := n; cc_quit_message := [] |} [t; ctcp; text]
                   = ctcp_lines upper verb t ctcp [text] n)
        by (destruct m; inversion Hk; subst; reflexivity).
      rewrite He. unfold ctcp_lines. cbn [join]. rewrite Hps. cbn [bind]. f_equal.
      apply map_ext_in. intros s Hs. unfold raw. rewrite cut_newlines_cut_nl. apply cut_nl_id.
      rewrite Forall_forall in Hcl.
      repeat apply clean_app; auto; try (repeat constructor).
      destruct (beq s []); [constructor|]. apply clean_app; auto. repeat constructor.
    - unfold C11_wire_ok. rewrite Hk.
      rewrite map_map.
      rewrite (all_some_map_some _ (fun s => s)).
      + rewrite map_id. exact Hok.
      + intros s _. unfold piece_of_ctcp, line. cbv zeta.
        replace (verb ++ s_sp ++ t ++ s_sp_colon ++ [soh] ++ upper ctcp ++ (if beq s [] then [] else s_sp ++ s) ++ [soh])
          with (((verb ++ s_sp ++ t ++ s_sp_colon) ++ [soh] ++ upper ctcp)
                  ++ ((if beq s [] then [] else s_sp ++ s) ++ [soh]))
          by (now rewrite <- !app_assoc).
        rewrite strip_prefix_app, strip_suffix_app.
        destruct (beq s []) eqn:E; [apply beq_eq in E; subst; reflexivity|reflexivity].
  Qed.
End Wire.
