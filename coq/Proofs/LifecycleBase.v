(* Proofs/LifecycleBase.v — basic facts about the lifecycle LTS: thread equality, updates,
   and the case analysis of one step of the CURRENT (repaired) shape of the code. *)
From Coq Require Import List Arith Bool Lia.
From Verif Require Import Lts LifecycleLts.
Import ListNotations.

Lemma thr_eqb_spec a b : reflect (a = b) (thr_eqb a b).
Proof.
  destruct a, b; simpl; try (constructor; congruence);
    destruct (Nat.eqb_spec g g0) || destruct (Nat.eqb_spec i i0); constructor; congruence.
Qed.
Lemma thr_eqb_refl a : thr_eqb a a = true.
Proof. destruct (thr_eqb_spec a a); congruence. Qed.

Lemma updt_same f t v : updt f t v t = v.
Proof. unfold updt. now rewrite thr_eqb_refl. Qed.
Lemma updt_other f t v x : x <> t -> updt f t v x = f x.
Proof. unfold updt. destruct (thr_eqb_spec x t); congruence. Qed.
Lemma updf_same {A} (f : gen -> A) g v : updf f g v g = v.
Proof. unfold updf. now rewrite Nat.eqb_refl. Qed.
Lemma updf_other {A} (f : gen -> A) g v x : x <> g -> updf f g v x = f x.
Proof. unfold updf. destruct (Nat.eqb_spec x g); congruence. Qed.

(* the step function of the code as it is today *)
Definition fstep (hm : nat) (hl : bool) : St -> Tid -> option St :=
  lstep {| sh := fixed_shape; hmax := hm; hlock := hl |}.

(* brute-force inversion of [lstep .. s tid = Some s']: one goal per transition *)
Ltac destr_in H :=
  repeat match type of H with
         | context [match ?x with _ => _ end] =>
             (is_var x; destruct x) || (let E := fresh "E" in destruct x eqn:E); try discriminate H
         | context [if ?x then _ else _] =>
             let E := fresh "E" in destruct x eqn:E; try discriminate H
         end.

Ltac bprop :=
  repeat match goal with
         | H : (_ && _) = true |- _ => apply andb_true_iff in H as [? ?]
         | H : (_ || _) = false |- _ => apply orb_false_iff in H as [? ?]
         | H : negb _ = true |- _ => apply negb_true_iff in H
         | H : negb _ = false |- _ => apply negb_false_iff in H
         | H : (_ <=? _) = true |- _ => apply Nat.leb_le in H
         | H : (_ <? _) = true |- _ => apply Nat.ltb_lt in H
         | H : (_ <? _) = false |- _ => apply Nat.ltb_ge in H
         | H : (_ =? _) = true |- _ => apply Nat.eqb_eq in H
         | H : (_ =? _) = false |- _ => apply Nat.eqb_neq in H
         end.

Ltac step_inv H :=
  unfold fstep, lstep in H;
  cbv beta iota zeta delta [close_step conn_step post_connect push_out wg_done sh init_first drain_once no_ident no_watch sample_mu can_sample fixed_shape hmax hlock] in H;
  destr_in H;
  match type of H with Some _ = Some _ => injection H as H; subst end;
  repeat match goal with
         | E : (if ?c then Some _ else None) = Some _ |- _ =>
             let E' := fresh "E" in destruct c eqn:E'; [injection E as E; subst|discriminate E]
         end;
  bprop.


(* ---------- histories ---------- *)
Lemma memg_In g l : memg g l = true <-> In g l.
Proof.
  unfold memg. rewrite existsb_exists. split.
  - intros (x & Hx & E). apply Nat.eqb_eq in E. now subst.
  - intros H. exists g. split; [exact H|apply Nat.eqb_refl].
Qed.
Lemma memg_false g l : memg g l = false <-> ~ In g l.
Proof. rewrite <- memg_In. destruct (memg g l); split; congruence. Qed.

Lemma check_from_app ok pre a b :
  check_from ok pre (a ++ b) = check_from ok pre a && check_from ok (pre ++ a) b.
Proof.
  revert pre. induction a as [|e a IH]; intros pre; simpl.
  - now rewrite app_nil_r.
  - rewrite IH, <- app_assoc. simpl. now rewrite andb_assoc.
Qed.
Lemma check_snoc ok h e : check_from ok [] (h ++ [e]) = check_from ok [] h && ok h e.
Proof. rewrite check_from_app. simpl. now rewrite andb_true_r. Qed.

Lemma last_conn_snoc t h e :
  last_conn t (h ++ [e]) = if conn_ev_of t e then Some e else last_conn t h.
Proof. unfold last_conn. now rewrite fold_left_app. Qed.

Lemma open_closes_snoc t h e :
  open_closes t (h ++ [e]) =
  match e with
  | ECloseCall t' => if thr_eqb t t' then S (open_closes t h) else open_closes t h
  | ECloseRet t' => if thr_eqb t t' then pred (open_closes t h) else open_closes t h
  | _ => open_closes t h end.
Proof. unfold open_closes. rewrite fold_left_app. reflexivity. Qed.

Lemma ests_snoc h e : ests (h ++ [e]) = ests h ++ match e with EEstab g _ => [g] | _ => [] end.
Proof. unfold ests. rewrite flat_map_app. simpl. now rewrite app_nil_r. Qed.
Lemma regs_snoc h e : regs (h ++ [e]) = regs h ++ match e with EReg g => [g] | _ => [] end.
Proof. unfold regs. rewrite flat_map_app. simpl. now rewrite app_nil_r. Qed.
Lemma discs_snoc h e : discs (h ++ [e]) = discs h ++ match e with EDisc g => [g] | _ => [] end.
Proof. unfold discs. rewrite flat_map_app. simpl. now rewrite app_nil_r. Qed.
Lemma tds_snoc h e : tds (h ++ [e]) = tds h ++ match e with ETeardown g _ => [g] | _ => [] end.
Proof. unfold tds. rewrite flat_map_app. simpl. now rewrite app_nil_r. Qed.
Lemma enders_snoc h e : enders (h ++ [e]) = enders h ++ match e with EEnder g => [g] | _ => [] end.
Proof. unfold enders. rewrite flat_map_app. simpl. now rewrite app_nil_r. Qed.
Lemma retoks_snoc h e :
  retoks (h ++ [e]) = retoks h ++ match e with EConnRet _ (Some g) => [g] | _ => [] end.
Proof. unfold retoks. rewrite flat_map_app. simpl. now rewrite app_nil_r. Qed.

Lemma NoDup_snoc {A} (l : list A) x : NoDup l -> ~ In x l -> NoDup (l ++ [x]).
Proof.
  intros Hn Hx. induction Hn as [|y l Hy Hn IH]; simpl.
  - constructor; [intros []|constructor].
  - constructor.
    + rewrite in_app_iff. intros [H|[H|[]]]; [auto|subst; apply Hx; now left].
    + apply IH. intros H. apply Hx. now right.
Qed.

Lemma in_ests h g : In g (ests h) <-> exists t, In (EEstab g t) h.
Proof.
  unfold ests. rewrite in_flat_map. split.
  - intros (e & He & Hg). destruct e; try contradiction. destruct Hg as [<-|[]]. eauto.
  - intros (t & Ht). exists (EEstab g t). split; [exact Ht|now left].
Qed.
Lemma in_tds h g : In g (tds h) <-> exists t, In (ETeardown g t) h.
Proof.
  unfold tds. rewrite in_flat_map. split.
  - intros (e & He & Hg). destruct e; try contradiction. destruct Hg as [<-|[]]. eauto.
  - intros (t & Ht). exists (ETeardown g t). split; [exact Ht|now left].
Qed.

(* with at most one EEstab g in the history, the thread that established g is unique *)
Lemma estab_unique h g t t' :
  NoDup (ests h) -> In (EEstab g t) h -> In (EEstab g t') h -> t = t'.
Proof.
  induction h as [|e h IH]; intros Hn H1 H2; [destruct H1|].
  change (e :: h) with ([e] ++ h) in Hn. unfold ests in Hn. rewrite flat_map_app in Hn.
  fold (ests h) in Hn. simpl in Hn. rewrite app_nil_r in Hn.
  destruct H1 as [->|H1], H2 as [E|H2].
  - congruence.
  - simpl in Hn. apply NoDup_cons_iff in Hn as [Hx _]. exfalso. apply Hx. apply in_ests. eauto.
  - subst e. simpl in Hn. apply NoDup_cons_iff in Hn as [Hx _]. exfalso. apply Hx. apply in_ests. eauto.
  - apply IH; auto. destruct e; simpl in Hn; auto. now apply NoDup_cons_iff in Hn as [_ Hn].
Qed.
Lemma teardown_unique h g t t' :
  NoDup (tds h) -> In (ETeardown g t) h -> In (ETeardown g t') h -> t = t'.
Proof.
  induction h as [|e h IH]; intros Hn H1 H2; [destruct H1|].
  change (e :: h) with ([e] ++ h) in Hn. unfold tds in Hn. rewrite flat_map_app in Hn.
  fold (tds h) in Hn. simpl in Hn. rewrite app_nil_r in Hn.
  destruct H1 as [->|H1], H2 as [E|H2].
  - congruence.
  - simpl in Hn. apply NoDup_cons_iff in Hn as [Hx _]. exfalso. apply Hx. apply in_tds. eauto.
  - subst e. simpl in Hn. apply NoDup_cons_iff in Hn as [Hx _]. exfalso. apply Hx. apply in_tds. eauto.
  - apply IH; auto. destruct e; simpl in Hn; auto. now apply NoDup_cons_iff in Hn as [_ Hn].
Qed.

Lemma is_estab_in g t h : is_estab g (last_conn t h) = true -> In (EEstab g t) h.
Proof.
  induction h as [|e h IH] using rev_ind; [discriminate|].
  rewrite last_conn_snoc. destruct (conn_ev_of t e) eqn:E.
  - simpl. destruct e; try discriminate. simpl in E. intros H. apply Nat.eqb_eq in H. subst.
    destruct (thr_eqb_spec t t0); [subst|discriminate]. apply in_or_app. right. now left.
  - intros H. apply in_or_app. left. auto.
Qed.
