(* Proofs/GenEqChanModesHeap.v — stage 5: the Gallina TRANSLATION (Gen/GoFuncs.v) of
   channel.parseModes, instantiated on HEAP stores, is the fold of a step function [hstep] on
   (modeop, modeargs, ch.modes, the ChanPrivs heap); Proofs/GenEqTracker.v relates that fold to
   Model/TrackerImpl.v ch_parseModes.

   The generated function takes ch.lookup and ch.nicks as abstract stores.  Here: a *nick is an
   address, ch.lookup is the object's gmap from names to addresses, the store behind ch.nicks is
   the pair (the object's gmap from nick addresses to privilege addresses, the ChanPrivs heap):
   ch.nicks[nk] reads the heap at the address found, a write through that pointer updates the
   heap there.  A missing entry or a dangling address is Go's nil: the generated code panics on
   the field write, [hstep] is None.  std++ side (GoBytes / GoFuncs are Required, not Imported). *)
From Verif Require Import TrackerSpec TrackerSpecFacts TrackerImpl.
From Verif Require GoBytes LineLib GoBytesFacts GoFuncs GenEqModes GenEqChanModes.
Import GenEqChanModes.
Open Scope Z_scope.

Notation pheap := (gmap addr privs).

Definition HLget (lk : gmap name addr) (x : bytes) : option addr := lk !! x.
Definition HNget (N : gmap addr addr * pheap) (k : option addr) : option GoFuncs.go_state_ChanPrivs :=
  match k with Some n => match N.1 !! n with Some cp => option_map pv (N.2 !! cp) | None => None end | None => None end.
Definition HNset (N : gmap addr addr * pheap) (k : option addr) (v : GoFuncs.go_state_ChanPrivs) : gmap addr addr * pheap :=
  match k with Some n => match N.1 !! n with Some cp => (N.1, <[cp := pv_inv v]> N.2) | None => N end | None => N end.

Notation hst := (bool * list bytes * chanmode * pheap)%type.

Definition hstep (lk : gmap name addr) (nks : gmap addr addr) (st : hst) (m : N) : option hst :=
  let '(op, args, cm, ph) := st in
  if decide (m = 43%N) then Some (true, args, cm, ph)
  else if decide (m = 45%N) then Some (false, args, cm, ph)
  else if decide (m = 107%N) then
    match op, args with
    | true, a :: args' => Some (op, args', set_key a cm, ph)
    | true, [] => Some st
    | false, _ => Some (op, args, set_key [] cm, ph)
    end
  else if decide (m = 108%N) then
    match op, args with
    | true, a :: args' => Some (op, args', set_limit (atoi a) cm, ph)
    | true, [] => Some st
    | false, _ => Some (op, args, set_limit 0 cm, ph)
    end
  else if is_list_mode_char m then
    match args with
    | _ :: args' => Some (op, args', cm, ph)
    | [] => Some st
    end
  else if is_priv_char m then
    match args with
    | a :: args' =>
        match lk !! a with
        | Some nk =>
            cp ← nks !! nk; p ← ph !! cp;
            match priv_char m op p with
            | Some p' => Some (op, args', cm, <[cp := p']> ph)
            | None => Some st
            end
        | None => Some st
        end
    | [] => Some st
    end
  else match chan_flag_char m op cm with
       | Some cm' => Some (op, args, cm', ph)
       | None => Some st
       end.

Section Heap.
  Variable lk : gmap name addr.
  Variable nks : gmap addr addr.
  Notation parse := (GoFuncs.go_state_channel_parseModes HLget HNget HNset atoi').

  Ltac dpos := do 8 (try (match goal with q : positive |- _ => destruct q end; try reflexivity)).
  Lemma hother_letter st m :
    (m =? 43)%N = false -> (m =? 45)%N = false -> (m =? 105)%N = false -> (m =? 109)%N = false ->
    (m =? 110)%N = false -> (m =? 112)%N = false -> (m =? 114)%N = false -> (m =? 115)%N = false ->
    (m =? 116)%N = false -> (m =? 122)%N = false -> (m =? 90)%N = false -> (m =? 79)%N = false ->
    (m =? 107)%N = false -> (m =? 108)%N = false -> (m =? 98)%N = false -> (m =? 101)%N = false ->
    (m =? 73)%N = false -> (m =? 113)%N = false -> (m =? 97)%N = false -> (m =? 111)%N = false ->
    (m =? 104)%N = false -> (m =? 118)%N = false ->
    hstep lk nks st m = Some st.
  Proof.
    intros. destruct st as [[[op args] cm] ph]. unfold hstep.
    repeat (case_decide; [subst m; discriminate|]).
    assert (is_list_mode_char m = false) as ->.
    { destruct m as [|q]; [reflexivity|]. dpos. all: cbv in *; discriminate. }
    assert (is_priv_char m = false) as ->.
    { destruct m as [|q]; [reflexivity|]. dpos. all: cbv in *; discriminate. }
    assert (chan_flag_char m op cm = None) as ->.
    { destruct m as [|q]; [reflexivity|]. dpos. all: cbv in *; discriminate. }
    reflexivity.
  Qed.

  Definition hout (r : option hst) : GoBytes.res (option GoFuncs.go_state_ChanMode * (gmap addr addr * pheap)) :=
    match r with
    | Some (_, _, cm, ph) => rOk (Some (cm_tuple cm), (nks, ph))
    | None => GoBytes.Panic
    end.

  Lemma go_channel_parseModes_heap_eq cm cname ph modes args :
    parse lk (Some (cm_tuple cm)) cname (nks, ph) modes args
    = hout (foldM (hstep lk nks) (false, args, cm, ph) modes).
  Proof.
    cbv beta delta [GoFuncs.go_state_channel_parseModes].
    match goal with |- context [?F] => is_fix F; set (loop := F) end.
    cbv zeta.
    assert (Hloop : forall rest pre op args cm ph str fuel, modes = pre ++ rest -> (length rest < fuel)%nat ->
      loop fuel args op str (GoBytes.len pre) (Some (cm_tuple cm)) (nks, ph)
        = match foldM (hstep lk nks) (op, args, cm, ph) rest with
          | Some (op', args', cm', ph') =>
              rOk (args', op', fold_left str_step rest str, GoBytes.len modes, Some (cm_tuple cm'), (nks, ph'))
          | None => GoBytes.Panic
          end).
    { induction rest as [|m rest IH]; intros pre op args0 cm0 ph0 str fuel Hm Hf.
      - rewrite app_nil_r in Hm. subst pre.
        destruct fuel; unfold loop; rewrite Z.ltb_irrefl; reflexivity.
      - destruct fuel as [|f]; [simpl in Hf; lia|].
        unfold loop at 1; fold loop.
        replace (GoBytes.len pre <? GoBytes.len modes) with true.
        2:{ symmetry. subst modes. rewrite GoBytesFacts.len_app, GoBytesFacts.len_cons.
            pose proof (GoBytesFacts.len_nonneg rest). lia. }
        rewrite Hm at 1. rewrite GenEqModes.byte_at_mid. cbn [GoBytes.bind foldM fold_left].
        match goal with |- rbind ?P1 _ = _ =>
          assert (Hstep : P1 = match hstep lk nks (op, args0, cm0, ph0) m with
                               | Some (op1, args1, cm1, ph1) => rOk (args1, op1, str_step str m, Some (cm_tuple cm1), (nks, ph1))
                               | None => GoBytes.Panic
                               end)
        end.
        { destruct cm0 as [f1 f2 f3 f4 f5 f6 f7 f8 f9 f10 key lim].
          timeout 300 (repeat match goal with
          | |- context [(m =? ?K)%N] =>
              let E := fresh "E" in
              destruct (m =? K)%N eqn:E;
              [ apply N.eqb_eq in E; subst m; unfold hstep, str_step, HLget, HNget, HNset;
                destruct op; destruct args0 as [|a0 args0];
                rewrite ?elems_from_cons1, ?elem_at_cons0, ?llen_cons_nz;
                cbn [GoBytes.bind orb negb andb N.eqb Pos.eqb]; try reflexivity
              | cbv iota ]
          end).
          all: try (rewrite hother_letter by assumption; unfold str_step;
                    repeat match goal with H : (?x =? _)%N = false |- _ => rewrite H; clear H end;
                    cbn [orb]; reflexivity).
          all: change GoBytes.bytes with (list N) in *.
          all: destruct (lk !! a0) eqn:EL; rewrite ?EL; cbn [GoBytes.bind GoFuncs.go_is_some fst snd]; try reflexivity.
          all: match goal with EL : lk !! _ = Some ?x |- _ => destruct (nks !! x) eqn:EN end; rewrite ?EN;
               cbn [GoBytes.bind option_map mbind option_bind fst snd]; try reflexivity.
          all: match goal with EN : nks !! _ = Some ?x |- _ => destruct (ph0 !! x) as [[q a o h v]|] eqn:EP end; rewrite ?EP;
               cbn [GoBytes.bind option_map pv pv_inv mbind option_bind]; try reflexivity.
          all: rewrite ?EN; timeout 30 reflexivity.
          }
        rewrite Hstep.
        destruct (hstep lk nks (op, args0, cm0, ph0) m) as [[[[op1 args1] cm1] ph1]|]; cbn [GoBytes.bind]; [|reflexivity].
        replace (GoBytes.len pre + 1) with (GoBytes.len (pre ++ [m]))
          by (rewrite GoBytesFacts.len_app; reflexivity).
        apply IH.
        + rewrite <- app_assoc. exact Hm.
        + simpl in Hf. lia. }
    pose proof (Hloop modes [] false args cm ph [] (S (length modes)) eq_refl (Nat.lt_succ_diag_r _)) as Hs'.
    change (GoBytes.len []) with 0 in Hs'.
    rewrite Hs'. unfold hout.
    destruct (foldM (hstep lk nks) (false, args, cm, ph) modes) as [[[[op1 args1] cm1] ph1]|]; reflexivity.
  Qed.
End Heap.
