(* Proofs/RegLockProofs.v — C04_no_deadlock on the lock-level LTS of Model/RegLockLts.v:
   the lock discipline invariant, deadlock freedom for every schedule, and the deadlocking
   schedule of the alternative shape (dispatcher keeps RLock across its handlers). *)
From Coq Require Import List Arith Bool Lia.
From Verif Require Import GoBytes Lts Registry RegLockLts.
Import ListNotations.
Open Scope nat_scope.

(* ================= lists ================= *)
Lemma length_tupd {A} (l : list A) i x : length (tupd l i x) = length l.
Proof. revert i. induction l as [|y l IH]; intros [|i]; cbn; auto. Qed.
Lemma nth_tupd_eq {A} (l : list A) i x : i < length l -> nth_error (tupd l i x) i = Some x.
Proof. revert i. induction l as [|y l IH]; intros [|i] H; cbn in *; try lia; auto. apply IH. lia. Qed.
Lemma nth_tupd_ne {A} (l : list A) i j x : i <> j -> nth_error (tupd l i x) j = nth_error l j.
Proof. revert i j. induction l as [|y l IH]; intros [|i] [|j] H; cbn; auto; congruence. Qed.
Lemma nth_lt' {A} (l : list A) i x : nth_error l i = Some x -> i < length l.
Proof. intros H. apply nth_error_Some. congruence. Qed.
Lemma nth_tupd_case {A} (l : list A) t x j y :
  nth_error (tupd l t x) j = Some y -> (j = t /\ y = x) \/ (j <> t /\ nth_error l j = Some y).
Proof.
  intros H. destruct (Nat.eq_dec t j) as [<-|Hne].
  - left. split; [reflexivity|]. rewrite nth_tupd_eq in H; [congruence|].
    pose proof (nth_lt' _ _ _ H) as HL. rewrite length_tupd in HL. exact HL.
  - right. rewrite nth_tupd_ne in H by exact Hne. split; [congruence|exact H].
Qed.

(* ================= three locks ================= *)
Lemma tg_tp_eq {A} (c : tri A) k s : tget (tput c k s) k = s.
Proof. destruct k; reflexivity. Qed.
Lemma tg_tp_ne {A} (c : tri A) k k' s : k <> k' -> tget (tput c k s) k' = tget c k'.
Proof. destruct k, k'; intros H; try reflexivity; congruence. Qed.
Lemma tp_tg {A} (c : tri A) k : tput c k (tget c k) = c.
Proof. destruct c, k; reflexivity. Qed.
Lemma kind_dec (a b : kind) : {a = b} + {a <> b}.
Proof. decide equality. Qed.
Lemma kind_eqb_true a b : kind_eqb a b = true <-> a = b.
Proof. destruct a, b; cbn; split; congruence. Qed.
Lemma kind_eqb_refl' a : kind_eqb a a = true.
Proof. destruct a; reflexivity. Qed.

(* ================= the lock discipline ================= *)
Definition kid_shape (x : tstate) : Prop :=
  kids_of x = [] \/ match x with TDisp _ (DWait | DDone) _ _ => True | _ => False end.
Record linv (s : lst) : Prop := {
  li_w : forall k t, writer (tget (locks s) k) = Some t ->
                     exists x, nth_error (threads s) t = Some x /\ holds_w x k = true;
  li_r : forall k t, In t (readers (tget (locks s) k)) ->
                     exists x, nth_error (threads s) t = Some x /\ holds_r x k = true;
  li_k : forall t x, nth_error (threads s) t = Some x ->
                     (forall c, In c (kids_of x) -> t < c < length (threads s)) /\ kid_shape x
}.

Lemma linit_inv l : linv (linit l).
Proof.
  split; cbn [linit locks threads].
  - intros k t H. destruct k; discriminate.
  - intros k t H. destruct k; contradiction.
  - intros t x H. apply nth_error_In in H. apply in_map_iff in H. destruct H as (i & <- & _).
    destruct i; cbn; split; try (intros c []); left; reflexivity.
Qed.

(* one goroutine changes its pc and (possibly) the state of ONE lock *)
Lemma inv_update s t x x' k1 l' :
  linv s -> nth_error (threads s) t = Some x ->
  (forall k, k <> k1 -> holds_w x' k = holds_w x k /\ holds_r x' k = holds_r x k) ->
  (forall t0, writer l' = Some t0 ->
      (t0 = t /\ holds_w x' k1 = true) \/ (t0 <> t /\ writer (tget (locks s) k1) = Some t0)) ->
  (forall t0, In t0 (readers l') ->
      (t0 = t /\ holds_r x' k1 = true) \/ (t0 <> t /\ In t0 (readers (tget (locks s) k1)))) ->
  kids_of x' = kids_of x -> kid_shape x' ->
  linv {| locks := tput (locks s) k1 l'; threads := tupd (threads s) t x' |}.
Proof.
  intros I Hx Hoth Hw Hr Hk Hs. pose proof (nth_lt' _ _ _ Hx) as Hlt.
  split; cbn [locks threads].
  - intros k t0 H. destruct (kind_dec k1 k) as [<-|Hne].
    + rewrite tg_tp_eq in H. destruct (Hw t0 H) as [[-> Hh]|[Hne' Ho]].
      * exists x'. split; [apply nth_tupd_eq; exact Hlt|exact Hh].
      * destruct (li_w _ I k1 t0 Ho) as (y & Hy & Hh). exists y. rewrite nth_tupd_ne by congruence. auto.
    + rewrite tg_tp_ne in H by exact Hne. destruct (li_w _ I k t0 H) as (y & Hy & Hh).
      destruct (Nat.eq_dec t t0) as [<-|Hne'].
      * exists x'. split; [apply nth_tupd_eq; exact Hlt|]. rewrite Hx in Hy. inversion Hy; subst y.
        destruct (Hoth k (not_eq_sym Hne)) as [E _]. rewrite E. exact Hh.
      * exists y. rewrite nth_tupd_ne by exact Hne'. auto.
  - intros k t0 H. destruct (kind_dec k1 k) as [<-|Hne].
    + rewrite tg_tp_eq in H. destruct (Hr t0 H) as [[-> Hh]|[Hne' Ho]].
      * exists x'. split; [apply nth_tupd_eq; exact Hlt|exact Hh].
      * destruct (li_r _ I k1 t0 Ho) as (y & Hy & Hh). exists y. rewrite nth_tupd_ne by congruence. auto.
    + rewrite tg_tp_ne in H by exact Hne. destruct (li_r _ I k t0 H) as (y & Hy & Hh).
      destruct (Nat.eq_dec t t0) as [<-|Hne'].
      * exists x'. split; [apply nth_tupd_eq; exact Hlt|]. rewrite Hx in Hy. inversion Hy; subst y.
        destruct (Hoth k (not_eq_sym Hne)) as [_ E]. rewrite E. exact Hh.
      * exists y. rewrite nth_tupd_ne by exact Hne'. auto.
  - intros t0 y H. rewrite length_tupd. apply nth_tupd_case in H. destruct H as [[-> ->]|[Hne H]].
    + rewrite Hk. split; [apply (li_k _ I t x Hx)|exact Hs].
    + apply (li_k _ I t0 y H).
Qed.

(* the same when no lock changes *)
Lemma inv_set_thread s t x x' :
  linv s -> nth_error (threads s) t = Some x ->
  (forall k, holds_w x' k = holds_w x k /\ holds_r x' k = holds_r x k) ->
  kids_of x' = kids_of x -> kid_shape x' ->
  linv (set_thread s t x').
Proof.
  intros I Hx Hh Hk Hs. unfold set_thread. rewrite <- (tp_tg (locks s) KFg) at 1.
  eapply inv_update; eauto.
  - intros t0 H. destruct (Nat.eq_dec t0 t) as [->|Hne]; [left|right; auto]. split; [reflexivity|].
    destruct (li_w _ I KFg t H) as (y & Hy & Hyh). rewrite Hx in Hy. inversion Hy; subst y.
    destruct (Hh KFg) as [E _]. rewrite E. exact Hyh.
  - intros t0 H. destruct (Nat.eq_dec t0 t) as [->|Hne]; [left|right; auto]. split; [reflexivity|].
    destruct (li_r _ I KFg t H) as (y & Hy & Hyh). rewrite Hx in Hy. inversion Hy; subst y.
    destruct (Hh KFg) as [_ E]. rewrite E. exact Hyh.
Qed.

Lemma inv_spawn s t k b kids :
  linv s -> nth_error (threads s) t = Some (TDisp k DUnlocked b kids) ->
  linv (spawn s (locks s) t k b).
Proof.
  intros I Hx. pose proof (nth_lt' _ _ _ Hx) as Hlt. unfold spawn.
  set (x' := TDisp k DWait [] (seq (length (threads s)) (length b))).
  assert (Hold : forall j y, j <> t -> nth_error (threads s) j = Some y ->
                             nth_error (tupd (threads s) t x' ++ map (fun b0 => TScript b0 0) b) j = Some y).
  { intros j y Hne Hy. rewrite nth_error_app1 by (rewrite length_tupd; eapply nth_lt'; eauto).
    rewrite nth_tupd_ne by congruence. exact Hy. }
  split; cbn [locks threads].
  - intros k0 t0 H. destruct (li_w _ I k0 t0 H) as (y & Hy & Hh). destruct (Nat.eq_dec t0 t) as [->|Hne].
    + rewrite Hx in Hy. inversion Hy; subst y. discriminate.
    + exists y. auto.
  - intros k0 t0 H. destruct (li_r _ I k0 t0 H) as (y & Hy & Hh). destruct (Nat.eq_dec t0 t) as [->|Hne].
    + rewrite Hx in Hy. inversion Hy; subst y. discriminate.
    + exists y. auto.
  - intros t0 y H. rewrite app_length, length_tupd, map_length.
    destruct (Nat.lt_ge_cases t0 (length (threads s))) as [Hl|Hg].
    + rewrite nth_error_app1 in H by (rewrite length_tupd; exact Hl).
      apply nth_tupd_case in H. destruct H as [[-> ->]|[Hne H]].
      * cbn [kids_of x']. split; [|right; exact Logic.I]. intros c Hc. apply in_seq in Hc. lia.
      * destruct (li_k _ I t0 y H) as [A B]. split; [|exact B]. intros c Hc. apply A in Hc. lia.
    + rewrite nth_error_app2 in H by (rewrite length_tupd; exact Hg).
      apply nth_error_In in H. apply in_map_iff in H. destruct H as (b0 & <- & _).
      split; [intros c []|left; reflexivity].
Qed.

Lemma filter_neq_in (l : list nat) t t0 : In t0 (filter (fun x => negb (Nat.eqb x t)) l) -> t0 <> t /\ In t0 l.
Proof.
  intros H. apply filter_In in H. destruct H as [H1 H2]. split; [|exact H1].
  intros ->. rewrite Nat.eqb_refl in H2. discriminate.
Qed.

Lemma lstep_inv s t s' : linv s -> lstep true s t = Some s' -> linv s'.
Proof.
  intros I H. unfold lstep in H. destruct (nth_error (threads s) t) as [x|] eqn:Hx; [|discriminate].
  destruct x as [ops ph|k pc b kids].
  - destruct ops as [|[k|] r]; [discriminate| |].
    + destruct ph as [|[|ph]].
      * (* Lock *)
        destruct (writer (tget (locks s) k)) eqn:Hw; [discriminate|].
        destruct (readers (tget (locks s) k)) eqn:Hr; [|discriminate]. inversion H; subst s'. clear H.
        eapply inv_update; [exact I|exact Hx| | | | |].
        -- intros k0 Hne. cbn. destruct (kind_eqb k k0) eqn:E; [apply kind_eqb_true in E; congruence|auto].
        -- intros t0 E. cbn in E. inversion E; subst t0. left. split; [reflexivity|]. cbn. apply kind_eqb_refl'.
        -- intros t0 [].
        -- reflexivity.
        -- left. reflexivity.
      * (* body *)
        inversion H; subst s'. clear H. eapply inv_set_thread; [exact I|exact Hx| |reflexivity|left; reflexivity].
        intros k0. cbn. auto.
      * (* Unlock *)
        inversion H; subst s'. clear H. eapply inv_update; [exact I|exact Hx| | | | |].
        -- intros k0 Hne. cbn. destruct (kind_eqb k k0) eqn:E; [apply kind_eqb_true in E; congruence|].
           destruct r as [|[k1|] r']; cbn; auto.
        -- intros t0 E. discriminate.
        -- intros t0 Hin. cbn [readers] in Hin. right. split; [|exact Hin]. intros ->.
           destruct (li_r _ I k t Hin) as (y & Hy & Hh). rewrite Hx in Hy. inversion Hy; subst y. discriminate.
        -- destruct r as [|[k1|] r']; reflexivity.
        -- left. destruct r as [|[k1|] r']; reflexivity.
    + (* plain *)
      inversion H; subst s'. clear H. eapply inv_set_thread; [exact I|exact Hx| | |].
      * intros k0. destruct r as [|[k1|] r']; cbn; destruct ph; auto.
      * destruct r as [|[k1|] r']; reflexivity.
      * left. destruct r as [|[k1|] r']; reflexivity.
  - destruct pc.
    + (* RLock *)
      destruct (writer (tget (locks s) k)) eqn:Hw; [discriminate|]. inversion H; subst s'. clear H.
      eapply inv_update; [exact I|exact Hx| | | | |].
      * intros k0 Hne. cbn. destruct (kind_eqb k k0) eqn:E; [apply kind_eqb_true in E; congruence|auto].
      * intros t0 E. discriminate.
      * intros t0 Hin. cbn [readers] in Hin. destruct Hin as [<-|Hin].
        -- left. split; [reflexivity|]. cbn. apply kind_eqb_refl'.
        -- destruct (Nat.eq_dec t0 t) as [->|Hne]; [|right; auto].
           destruct (li_r _ I k t Hin) as (y & Hy & Hh). rewrite Hx in Hy. inversion Hy; subst y. discriminate.
      * reflexivity.
      * destruct (li_k _ I t _ Hx) as [_ [E|[]]]. left. exact E.
    + (* copy the list *)
      inversion H; subst s'. clear H. eapply inv_set_thread; [exact I|exact Hx| |reflexivity|].
      * intros k0. cbn. auto.
      * destruct (li_k _ I t _ Hx) as [_ [E|[]]]. left. exact E.
    + (* RUnlock *)
      inversion H; subst s'. clear H. eapply inv_update; [exact I|exact Hx| | | | |].
      * intros k0 Hne. cbn. destruct (kind_eqb k k0) eqn:E; [apply kind_eqb_true in E; congruence|auto].
      * intros t0 E. cbn [runlock writer] in E. right. split; [|exact E]. intros ->.
        destruct (li_w _ I k t E) as (y & Hy & Hh). rewrite Hx in Hy. inversion Hy; subst y. discriminate.
      * intros t0 Hin. cbn [runlock readers] in Hin. apply filter_neq_in in Hin. right. exact Hin.
      * reflexivity.
      * destruct (li_k _ I t _ Hx) as [_ [E|[]]]. left. exact E.
    + (* spawn *)
      inversion H; subst s'. clear H. eapply inv_spawn; eauto.
    + (* wg.Wait *)
      destruct (forallb (kid_done s) kids); [|discriminate]. inversion H; subst s'. clear H.
      eapply inv_set_thread; [exact I|exact Hx| |reflexivity|right; exact Logic.I]. intros k0. cbn. auto.
    + (* DRelease: not reachable in the source's shape, still harmless *)
      inversion H; subst s'. clear H. eapply inv_update; [exact I|exact Hx| | | | |].
      * intros k0 Hne. cbn. auto.
      * intros t0 E. cbn [runlock writer] in E. right. split; [|exact E]. intros ->.
        destruct (li_w _ I k t E) as (y & Hy & Hh). rewrite Hx in Hy. inversion Hy; subst y. discriminate.
      * intros t0 Hin. cbn [runlock readers] in Hin. apply filter_neq_in in Hin. right. exact Hin.
      * reflexivity.
      * right. exact Logic.I.
    + discriminate.
Qed.

Lemma run_inv l sched : linv (run (lstep true) (linit l) sched).
Proof. apply invariant_run; [apply linit_inv|]. intros s t s' I H. eapply lstep_inv; eauto. Qed.

(* ================= holders never wait ================= *)
Lemma enabled_nonwaiting s t x :
  nth_error (threads s) t = Some x -> fin x = false -> waiting_pc x = false -> enabled true s t = true.
Proof.
  intros Hx Hf Hw. unfold enabled, lstep. rewrite Hx.
  destruct x as [ops ph|k pc b kids].
  - destruct ops as [|[k|] r]; [discriminate| |reflexivity]. destruct ph as [|[|ph]]; [discriminate|reflexivity|reflexivity].
  - destruct pc; try reflexivity; discriminate.
Qed.

Theorem holder_facts s k t :
  linv s -> (writer (tget (locks s) k) = Some t \/ In t (readers (tget (locks s) k))) ->
  exists x, nth_error (threads s) t = Some x /\ waiting_pc x = false /\ fin x = false
            /\ kids_of x = [] /\ enabled true s t = true.
Proof.
  intros I [H|H].
  - destruct (li_w _ I k t H) as (x & Hx & Hh). exists x.
    assert (A : waiting_pc x = false /\ fin x = false /\ kids_of x = []).
    { destruct x as [[|[k0|] r] [|ph]|]; try discriminate. auto. }
    destruct A as (A1 & A2 & A3). repeat split; auto. eapply enabled_nonwaiting; eauto.
  - destruct (li_r _ I k t H) as (x & Hx & Hh). exists x.
    assert (A : waiting_pc x = false /\ fin x = false).
    { destruct x as [|k0 [] b kids]; try discriminate; auto. }
    destruct A as (A1 & A2). destruct (li_k _ I t x Hx) as [_ [E|Hs]].
    + repeat split; auto. eapply enabled_nonwaiting; eauto.
    + destruct x as [|k0 [] b kids]; try discriminate; contradiction.
Qed.

(* ================= progress ================= *)
Lemma forallb_false_ex {A} (p : A -> bool) l : forallb p l = false -> exists x, In x l /\ p x = false.
Proof.
  induction l as [|x l IH]; cbn; [discriminate|]. destruct (p x) eqn:E; cbn.
  - intros H. destruct (IH H) as (y & Hy & Hp). eauto.
  - intros _. eauto.
Qed.
Lemma last_unfinished (l : list tstate) :
  forallb fin l = false ->
  exists i x, nth_error l i = Some x /\ fin x = false /\ forall j y, i < j -> nth_error l j = Some y -> fin y = true.
Proof.
  induction l as [|a l IH] using rev_ind; [discriminate|]. rewrite forallb_app. cbn [forallb]. rewrite andb_true_r.
  destruct (fin a) eqn:Fa.
  - rewrite andb_true_r. intros H. destruct (IH H) as (i & x & Hi & Hf & Hlast). exists i, x.
    pose proof (nth_lt' _ _ _ Hi) as Hlt. split; [rewrite nth_error_app1 by exact Hlt; exact Hi|]. split; [exact Hf|].
    intros j y Hj Hy. destruct (Nat.lt_ge_cases j (length l)) as [Hl|Hg].
    + rewrite nth_error_app1 in Hy by exact Hl. eapply Hlast; eauto.
    + rewrite nth_error_app2 in Hy by exact Hg. destruct (j - length l) as [|n]; cbn in Hy; [congruence|destruct n; discriminate].
  - intros _. exists (length l), a. split; [rewrite nth_error_app2 by lia; rewrite Nat.sub_diag; reflexivity|].
    split; [exact Fa|]. intros j y Hj Hy. pose proof (nth_lt' _ _ _ Hy) as Hlt. rewrite app_length in Hlt. cbn in Hlt. lia.
Qed.

Definition at_wait (x : tstate) : bool := match x with TDisp _ DWait _ _ => true | _ => false end.

Theorem progress s : linv s -> all_done s = false -> exists t, enabled true s t = true.
Proof.
  intros I Hnd.
  destruct (forallb (fun x => fin x || waiting_pc x) (threads s)) eqn:A.
  2:{ (* some goroutine is neither finished nor at a waiting pc *)
      destruct (forallb_false_ex _ _ A) as (x & Hin & Hp). apply orb_false_iff in Hp. destruct Hp as [Hf Hw].
      apply In_nth_error in Hin. destruct Hin as (t & Ht). exists t. eapply enabled_nonwaiting; eauto. }
  rewrite forallb_forall in A.
  (* every unfinished goroutine waits, so nobody holds any lock *)
  assert (Free : forall k, writer (tget (locks s) k) = None /\ readers (tget (locks s) k) = []).
  { intros k. split.
    - destruct (writer (tget (locks s) k)) as [t|] eqn:Hw; [|reflexivity].
      destruct (holder_facts s k t I (or_introl Hw)) as (x & Hx & W & F & _).
      apply nth_error_In in Hx. specialize (A x Hx). rewrite W, F in A. discriminate.
    - destruct (readers (tget (locks s) k)) as [|t l] eqn:Hr; [reflexivity|].
      destruct (holder_facts s k t I) as (x & Hx & W & F & _); [right; rewrite Hr; left; reflexivity|].
      apply nth_error_In in Hx. specialize (A x Hx). rewrite W, F in A. discriminate. }
  destruct (forallb (fun x => fin x || at_wait x) (threads s)) eqn:B.
  2:{ (* some goroutine is at Lock or RLock: the lock is free *)
      destruct (forallb_false_ex _ _ B) as (x & Hin & Hp). apply orb_false_iff in Hp. destruct Hp as [Hf Hw].
      pose proof (A x Hin) as Ax. rewrite Hf in Ax. cbn in Ax.
      apply In_nth_error in Hin. destruct Hin as (t & Ht). exists t. unfold enabled, lstep. rewrite Ht.
      destruct x as [[|[k|] r] [|ph]|k [] b kids]; try discriminate.
      - destruct (Free k) as [-> ->]. reflexivity.
      - destruct (Free k) as [-> _]. reflexivity. }
  rewrite forallb_forall in B.
  (* all unfinished goroutines are in wg.Wait: the one with the largest id has no live child *)
  destruct (last_unfinished _ Hnd) as (t & x & Ht & Hf & Hlast). exists t.
  pose proof (B x (nth_error_In _ _ Ht)) as Bx. rewrite Hf in Bx. cbn in Bx.
  destruct x as [|k [] b kids]; try discriminate.
  unfold enabled, lstep. rewrite Ht.
  replace (forallb (kid_done s) kids) with true; [reflexivity|]. symmetry. apply forallb_forall. intros c Hc.
  destruct (li_k _ I t _ Ht) as [Hk _]. specialize (Hk c Hc). unfold kid_done.
  destruct (nth_error (threads s) c) as [y|] eqn:Hy.
  - eapply Hlast; [|exact Hy]. lia.
  - apply nth_error_None in Hy. lia.
Qed.

(* ================= the theorems over all schedules ================= *)
Theorem no_deadlock l sched :
  let s := run (lstep true) (linit l) sched in
  all_done s = false -> exists t, enabled true s t = true.
Proof. intros s. apply progress. apply run_inv. Qed.

Theorem lock_discipline l sched k t :
  let s := run (lstep true) (linit l) sched in
  (writer (tget (locks s) k) = Some t \/ In t (readers (tget (locks s) k))) ->
  exists x, nth_error (threads s) t = Some x /\ waiting_pc x = false /\ fin x = false
            /\ kids_of x = [] /\ enabled true s t = true.
Proof. intros s. apply holder_facts. apply run_inv. Qed.

(* a goroutine that waits for the lock of set k is held up only by goroutines that can run *)
Theorem blocked_lock_has_running_holder l sched t k r :
  let s := run (lstep true) (linit l) sched in
  nth_error (threads s) t = Some (TScript (OReg k :: r) 0) -> enabled true s t = false ->
  exists t', t' <> t /\ enabled true s t' = true
             /\ (writer (tget (locks s) k) = Some t' \/ In t' (readers (tget (locks s) k))).
Proof.
  intros s Ht Hd. pose proof (run_inv l sched) as I. fold s in I.
  unfold enabled, lstep in Hd. rewrite Ht in Hd.
  destruct (writer (tget (locks s) k)) as [w|] eqn:Hw.
  - destruct (holder_facts s k w I (or_introl Hw)) as (x & Hx & W & _ & _ & E).
    exists w. split; [|split; [exact E|left; reflexivity]]. intros ->. rewrite Ht in Hx. inversion Hx; subst x. discriminate.
  - destruct (readers (tget (locks s) k)) as [|w rs] eqn:Hr; [discriminate|].
    destruct (holder_facts s k w I) as (x & Hx & W & _ & _ & E); [right; rewrite Hr; left; reflexivity|].
    exists w. split; [|split; [exact E|right; left; reflexivity]]. intros ->. rewrite Ht in Hx. inversion Hx; subst x. discriminate.
Qed.

(* ================= the alternative shape deadlocks ================= *)
(* dispatcher of the foreground set with ONE handler whose body calls Handle on the same set;
   the dispatcher keeps RLock across wg.Wait *)
Definition bad_init : list ispec := [IDisp KFg [[OReg KFg]]].
Definition bad_sched : list tid := [0; 0; 0; 1].
Lemma enabled_out_of_range g s t : length (threads s) <= t -> enabled g s t = false.
Proof. intros H. unfold enabled, lstep. apply nth_error_None in H. rewrite H. reflexivity. Qed.
Theorem hold_across_refuted :
  let s := run (lstep false) (linit bad_init) bad_sched in
  all_done s = false /\ forall t, enabled false s t = false.
Proof.
  intros s. split; [vm_compute; reflexivity|]. intros [|[|t]]; [vm_compute; reflexivity|vm_compute; reflexivity|].
  apply enabled_out_of_range. assert (L : length (threads s) = 2) by (vm_compute; reflexivity). rewrite L. lia.
Qed.
(* ... while the source's shape runs the same system to completion *)
Example good_shape_completes :
  all_done (run (lstep true) (linit bad_init) [0; 0; 0; 0; 1; 1; 1; 0]) = true.
Proof. vm_compute. reflexivity. Qed.
