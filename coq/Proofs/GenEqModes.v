(* Proofs/GenEqModes.v — stage 3: the Gallina TRANSLATION (Gen/GoFuncs.v) of package state's
   nick.parseModes (state/nick.go) is equal to Model/TrackerSpec.v nick_parse_modes, started with
   modeop = false, on the six booleans of NickMode (Bot, Invisible, Oper, WallOps, HiddenHost, SSL);
   nk.modes is a pointer: [Some] of the tuple here (a nil nk.modes would panic at the first flag).
   The Go loop walks the string by index; the model folds over the bytes: the invariant is "at
   index len pre of modes = pre ++ rest the loop does what the fold does on rest". *)
From Verif Require Import GoBytes LineLib GoBytesFacts.
From Verif Require Import GoFuncs GenEqTac.
From Verif Require TrackerSpec.
Open Scope Z_scope.

Definition nm_tuple (nm : TrackerSpec.nickmode) : go_state_NickMode :=
  (TrackerSpec.nm_B nm, TrackerSpec.nm_i nm, TrackerSpec.nm_o nm,
   TrackerSpec.nm_w nm, TrackerSpec.nm_x nm, TrackerSpec.nm_z nm).

Lemma byte_at_mid (pre : bytes) m rest : byte_at (pre ++ m :: rest) (len pre) = Ok m.
Proof.
  unfold byte_at, len. rewrite app_length. cbn [length].
  replace ((0 <=? Z.of_nat (length pre)) && (Z.of_nat (length pre) <? Z.of_nat (length pre + S (length rest))))
    with true by (symmetry; apply andb_true_iff; split; lia).
  rewrite Nat2Z.id, nth_error_app2 by lia. rewrite Nat.sub_diag. reflexivity.
Qed.

(* one character: the generated if-chain = the model's nick_parse_char *)
Lemma nick_mode_char_other m op nm :
  (m =? 66)%N = false -> (m =? 105)%N = false -> (m =? 111)%N = false ->
  (m =? 119)%N = false -> (m =? 120)%N = false -> (m =? 122)%N = false ->
  TrackerSpec.nick_mode_char m op nm = nm.
Proof.
  intros H1 H2 H3 H4 H5 H6. destruct m as [|p]; [reflexivity|].
  do 8 (try (match goal with q : positive |- _ => destruct q end; try reflexivity)).
  all: try (cbv in H1, H2, H3, H4, H5, H6; discriminate).
Qed.

Lemma go_nick_parseModes_eq modes nm :
  go_state_nick_parseModes (Some (nm_tuple nm)) modes
  = Ok (Some (nm_tuple (TrackerSpec.nick_parse_modes modes false nm))).
Proof.
  go_unfold go_state_nick_parseModes. go_lets loop.
  assert (Hloop : forall rest pre op nm0 fuel, modes = pre ++ rest -> (length rest < fuel)%nat ->
            loop fuel op (len pre) (Some (nm_tuple nm0))
            = Ok (fst (fold_left TrackerSpec.nick_parse_char rest (op, nm0)), len modes,
                  Some (nm_tuple (snd (fold_left TrackerSpec.nick_parse_char rest (op, nm0)))))).
  { induction rest as [|m rest IH]; intros pre op nm0 fuel Hm Hf.
    - rewrite app_nil_r in Hm. subst pre. destruct fuel; unfold loop; rewrite Z.ltb_irrefl; reflexivity.
    - destruct fuel as [|f]; [cbn [length] in Hf; lia|].
      unfold loop at 1; fold loop.
      replace (len pre <? len modes) with true
        by (symmetry; subst modes; rewrite len_app, len_cons; pose proof (len_nonneg rest); lia).
      rewrite Hm at 1. rewrite byte_at_mid. cbn [bind fold_left].
      replace (len pre + 1) with (len (pre ++ [m])) by (rewrite len_app; reflexivity).
      assert (Hrest : modes = (pre ++ [m]) ++ rest) by (rewrite <- app_assoc; exact Hm).
      assert (Hf' : (length rest < f)%nat) by (cbn [length] in Hf; lia).
      unfold TrackerSpec.nick_parse_char at 2 4. cbn [fst snd].
      destruct (m =? 43)%N eqn:E43.
      { apply N.eqb_eq in E43. subst m. cbn [bind]. rewrite (IH _ true nm0 f Hrest Hf'). reflexivity. }
      destruct (m =? 45)%N eqn:E45.
      { apply N.eqb_eq in E45. subst m. cbn [bind]. rewrite (IH _ false nm0 f Hrest Hf'). reflexivity. }
      destruct (stdpp.base.decide (m = 43%N)) as [->|_]; [discriminate|].
      destruct (stdpp.base.decide (m = 45%N)) as [->|_]; [discriminate|].
      destruct nm0 as [b1 b2 b3 b4 b5 b6].
      destruct (m =? 66)%N eqn:E1; [apply N.eqb_eq in E1; subst m|
      destruct (m =? 105)%N eqn:E2; [apply N.eqb_eq in E2; subst m|
      destruct (m =? 111)%N eqn:E3; [apply N.eqb_eq in E3; subst m|
      destruct (m =? 119)%N eqn:E4; [apply N.eqb_eq in E4; subst m|
      destruct (m =? 120)%N eqn:E5; [apply N.eqb_eq in E5; subst m|
      destruct (m =? 122)%N eqn:E6; [apply N.eqb_eq in E6; subst m|
      rewrite (nick_mode_char_other m op _ E1 E2 E3 E4 E5 E6)]]]]]];
        cbn [bind nm_tuple go_state_NickMode_set_Bot go_state_NickMode_set_Invisible
             go_state_NickMode_set_Oper go_state_NickMode_set_WallOps go_state_NickMode_set_HiddenHost
             go_state_NickMode_set_SSL TrackerSpec.nick_mode_char
             TrackerSpec.nm_B TrackerSpec.nm_i TrackerSpec.nm_o TrackerSpec.nm_w TrackerSpec.nm_x TrackerSpec.nm_z];
        match goal with
        | |- _ = Ok (fst (fold_left _ rest (op, ?X)), _, _) =>
            etransitivity; [exact (IH (pre ++ [_]) op X f Hrest Hf')|reflexivity]
        end. }
  change 0 with (len (@nil N)).
  rewrite (Hloop modes [] false nm (S (length modes)) eq_refl (Nat.lt_succ_diag_r _)).
  reflexivity.
Qed.
