(* Proofs/DispatchProofsA.v — structural invariants of Model/DispatchLts.v (no history yet):
   the receive pipeline is strictly increasing above the line being dispatched, the handler
   groups are quiescent outside their phase, background groups exist only for applied lines. *)
From Coq Require Import List Arith Bool Lia.
From Verif Require Import Lts DispatchLts.
Import ListNotations.
Local Open Scope nat_scope.

(* ---------- lists of program points ---------- *)
Lemma hupd_length {B} (l : list B) i x : length (hupd l i x) = length l.
Proof. revert i; induction l as [|y l IH]; intros [|i]; simpl; auto. Qed.

Lemma nth_hupd_same {B} (l : list B) i x y :
  nth_error l i = Some y -> nth_error (hupd l i x) i = Some x.
Proof. revert i; induction l as [|z l IH]; intros [|i]; simpl; try discriminate; auto. Qed.

Lemma nth_hupd_other {B} (l : list B) i j x :
  i <> j -> nth_error (hupd l i x) j = nth_error l j.
Proof. revert i j; induction l as [|z l IH]; intros [|i] [|j] H; simpl; auto; congruence. Qed.

Lemma nth_repeat {B} (x y : B) n i : nth_error (repeat x n) i = Some y -> y = x /\ i < n.
Proof.
  revert i; induction n as [|n IH]; intros [|i]; simpl; try discriminate.
  - intros H; inversion H; split; [reflexivity|lia].
  - intros H. apply IH in H as [H1 H2]. split; [exact H1|lia].
Qed.

Lemma nth_repeat_lt {B} (x : B) n i : i < n -> nth_error (repeat x n) i = Some x.
Proof. revert i; induction n as [|n IH]; intros [|i] H; simpl; try lia; auto. apply IH; lia. Qed.

Lemma all_done_nth g i pc : all_done g = true -> nth_error g i = Some pc -> pc = HDone.
Proof.
  intros H Hn. unfold all_done in H. rewrite forallb_forall in H.
  specialize (H pc (nth_error_In _ _ Hn)). destruct pc; simpl in H; congruence.
Qed.

Definition is_open (p : hpc) : bool := match p with HRun | HPanicked => true | _ => false end.
Definition nopen (g : list hpc) : nat := length (filter is_open g).
Definition b2n (b : bool) : nat := if b then 1 else 0.

Lemma nopen_hupd g i pc pc' :
  nth_error g i = Some pc -> nopen (hupd g i pc') + b2n (is_open pc) = nopen g + b2n (is_open pc').
Proof.
  unfold nopen. revert i; induction g as [|p g IH]; intros [|i]; simpl; try discriminate.
  - intros H; inversion H; subst. destruct (is_open pc), (is_open pc'); simpl; lia.
  - intros H. specialize (IH i H). destruct (is_open p); simpl; lia.
Qed.

Lemma nopen_pos g i pc : nth_error g i = Some pc -> is_open pc = true -> 0 < nopen g.
Proof.
  unfold nopen. revert i; induction g as [|p g IH]; intros [|i]; simpl; try discriminate.
  - intros H Ho; inversion H; subst. rewrite Ho. simpl. lia.
  - intros H Ho. specialize (IH i H Ho). destruct (is_open p); simpl; lia.
Qed.

Lemma nopen_done g : all_done g = true -> nopen g = 0.
Proof.
  unfold nopen, all_done. induction g as [|p g IH]; simpl; auto.
  intros H. apply andb_true_iff in H as [H1 H2]. destruct p; simpl in *; try discriminate. auto.
Qed.

Lemma nopen_repeat n : nopen (repeat HReady n) = 0.
Proof. unfold nopen. induction n; simpl; auto. Qed.

(* ---------- one handler goroutine ---------- *)
Inductive hstep_spec (nest : bool) : hpc -> hact -> hpc -> option etag -> Prop :=
| hs_enter : hstep_spec nest HReady AStep HRun (Some TgEnter)
| hs_exit : hstep_spec nest HRun AStep (if nest then HNest false else HRet) (Some TgExit)
| hs_panic : hstep_spec nest HRun APanic (if nest then HNest true else HPanicked) (Some TgPanic)
| hs_rec : hstep_spec nest HPanicked AStep HRet (Some TgRecovered)
| hs_done : hstep_spec nest HRet AStep HDone None.

Lemma hstep_inv nest pc a pc' o : hstep nest pc a = Some (pc', o) -> hstep_spec nest pc a pc' o.
Proof.
  destruct pc, a; simpl; intros H; inversion H; subst; constructor.
Qed.

Lemma plain_inv s g setg kd k i a s' :
  plain s g setg kd k i a = Some s' ->
  exists pc pc' o, nth_error g i = Some pc /\ hstep_spec false pc a pc' o
                   /\ s' = emit (setg s (hupd g i pc')) o kd k i.
Proof.
  unfold plain. destruct (nth_error g i) as [pc|] eqn:En; [|discriminate].
  destruct (hstep false pc a) as [[pc' o]|] eqn:Eh; [|discriminate].
  intros H; inversion H; subst. exists pc, pc', o. repeat split; auto. now apply hstep_inv.
Qed.

(* ---------- the background table ---------- *)
Lemma bkey_eqb_eq a b : bkey_eqb a b = true -> a = b.
Proof. destruct a, b; simpl; try discriminate; auto; intros H; apply Nat.eqb_eq in H; now subst. Qed.

Lemma bg_find_In key l g : bg_find key l = Some g -> In (key, g) l.
Proof.
  induction l as [|[k' g'] l IH]; simpl; [discriminate|].
  destruct (bkey_eqb key k') eqn:E.
  - intros H; inversion H; subst. apply bkey_eqb_eq in E. subst. now left.
  - intros H. right. auto.
Qed.

Lemma bg_set_In key x l k' g' : In (k', g') (bg_set key x l) -> (exists g'', In (k', g'') l).
Proof.
  induction l as [|[k1 g1] l IH]; simpl; [tauto|].
  destruct (bkey_eqb key k1) eqn:E; simpl.
  - intros [H|H]; [inversion H; subst; exists g1; now left|exists g'; now right].
  - intros [H|H]; [inversion H; subst; exists g'; now left|].
    destruct (IH H) as [g'' Hg]. exists g''. now right.
Qed.

(* ---------- the receive pipeline ---------- *)
Fixpoint chain (lo : nat) (l : list nat) (hi : nat) : Prop :=
  match l with
  | [] => lo <= hi
  | x :: l' => lo <= x /\ chain (S x) l' hi
  end.

Lemma chain_le lo l hi : chain lo l hi -> lo <= hi.
Proof. revert lo; induction l as [|x l IH]; simpl; intros lo H; [exact H|]. destruct H as [H1 H2]. apply IH in H2. lia. Qed.

Lemma chain_weaken lo lo' l hi : lo' <= lo -> chain lo l hi -> chain lo' l hi.
Proof. destruct l; simpl; intros; [lia|]. destruct H0; split; [lia|auto]. Qed.

Lemma chain_snoc lo l hi : chain lo l hi -> chain lo (l ++ [hi]) (S hi).
Proof.
  revert lo; induction l as [|x l IH]; simpl; intros lo H; [split; lia|].
  destruct H as [H1 H2]. split; auto.
Qed.

Lemma chain_tail lo x l hi : chain lo (x :: l) hi -> chain lo l hi.
Proof. simpl. intros [H1 H2]. eapply chain_weaken; [|exact H2]. lia. Qed.

Definition optl {A} (o : option A) : list A := match o with Some x => [x] | None => [] end.

(* lob: the serial being dispatched, or the first one not dispatched yet *)
Definition lob (s : st) : nat := match lpc s with LInt k | LFg k => k | _ => applied s end.
Definition lob' (s : st) : nat := match lpc s with LInt k | LFg k => S k | _ => applied s end.

Section Inv.
  Variable sess : session.

  Record InvA (s : st) : Prop := {
    A_pipe : chain (lob' s) (inq s ++ optl (rhold s)) (rpos s);
    A_rpos : rpos s <= length (lines sess);
    A_app : match lpc s with LInt k => applied s <= k | LFg k => applied s = S k | _ => True end;
    A_int : match lpc s with LInt _ => True | _ => all_done (g_int s) = true end;
    A_fg : match lpc s with LFg _ => True | _ => all_done (g_fg s) = true end;
    A_conn : match lpc s with LInt _ => True | _ => all_done (g_conn s) = true end;
    A_nest : all_done (g_conn s) = true \/ exists i p, nth_error (g_int s) i = Some (HNestW p);
    A_nestw : forall i p, nth_error (g_int s) i = Some (HNest p) \/ nth_error (g_int s) i = Some (HNestW p) ->
                          i = 0 /\ exists k, lpc s = LInt k /\ welcome (line_of sess k) = true;
    A_disc : match cpc s with
             | CDisp => lpc s = LDone
             | CDone => lpc s = LDone /\ all_done (g_disc s) = true
             | _ => all_done (g_disc s) = true
             end;
    A_cancel : lpc s = LDone -> cancelled s = true;
    A_bg : forall k g, In (BLine k, g) (bgs s) -> S k <= applied s
  }.

  Lemma InvA_init : InvA (init).
  Proof. constructor; simpl; auto; try lia; try discriminate; try tauto.
    intros i p [H|H]; destruct i; discriminate. Qed.

  Ltac inv H := inversion H; subst; clear H.
  Ltac sdisc Hdisc := match goal with
    | |- match cpc ?s with _ => _ end =>
        destruct (cpc s); auto; try discriminate; try (destruct Hdisc; try discriminate; auto)
    end.

  (* a handler step inside a group leaves all fields but that group and the history alone *)
  Lemma emit_fields s o kd k i :
    let s' := emit s o kd k i in
    rpos s' = rpos s /\ rhold s' = rhold s /\ inq s' = inq s /\ lpc s' = lpc s /\ applied s' = applied s
    /\ cancelled s' = cancelled s /\ cpc s' = cpc s /\ g_int s' = g_int s /\ g_fg s' = g_fg s
    /\ g_conn s' = g_conn s /\ g_disc s' = g_disc s /\ bgs s' = bgs s.
  Proof. destruct o; simpl; repeat split. Qed.

  Lemma hspec_not_done nest pc a pc' o : hstep_spec nest pc a pc' o -> pc <> HDone.
  Proof. intros H; inversion H; discriminate. Qed.

  Lemma InvA_plain_fields s g setg kd k i a s' :
    plain s g setg kd k i a = Some s' ->
    exists pc pc' o, nth_error g i = Some pc /\ hstep_spec false pc a pc' o /\ pc <> HDone
                     /\ s' = emit (setg s (hupd g i pc')) o kd k i.
  Proof.
    intros H. apply plain_inv in H as (pc & pc' & o & H1 & H2 & H3).
    exists pc, pc', o. repeat split; auto. eapply hspec_not_done; eauto.
  Qed.

  Lemma InvA_handler s g i a s' : InvA s -> step_handler sess s g i a = Some s' -> InvA s'.
  Proof.
    intros HI Hs. destruct HI as [Hpipe Hrpos Happ Hint Hfg Hconn Hnest Hnestw Hdisc Hcan Hbg].
    destruct g as [| | | |key]; simpl in Hs.
    - (* GInt *)
      destruct (lpc s) as [|k|k|] eqn:El; try discriminate.
      destruct (nth_error (g_int s) i) as [pc|] eqn:En; [|destruct a; discriminate].
      assert (Hother : forall j q, j <> i -> forall x, nth_error (hupd (g_int s) i x) j = Some q ->
                                   nth_error (g_int s) j = Some q).
      { intros j q Hj x Hx. rewrite nth_hupd_other in Hx; auto. }
      assert (Hnest_keep : forall x, (forall p, pc <> HNestW p) ->
                 all_done (g_conn s) = true \/ exists i0 p, nth_error (hupd (g_int s) i x) i0 = Some (HNestW p)).
      { intros x Hne. destruct Hnest as [H|(i0 & p0 & H)]; [now left|right].
        exists i0, p0. destruct (Nat.eq_dec i i0) as [->|Hd].
        - rewrite En in H. inv H. exfalso. eapply Hne; eauto.
        - rewrite nth_hupd_other; auto. }
      assert (Hnestw_keep : forall x, (forall p, x <> HNest p) -> (forall p, x <> HNestW p) ->
                 forall j p, nth_error (hupd (g_int s) i x) j = Some (HNest p) \/
                             nth_error (hupd (g_int s) i x) j = Some (HNestW p) ->
                             j = 0 /\ exists k0, LInt k = LInt k0 /\ welcome (line_of sess k0) = true).
      { intros x Hx1 Hx2 j p Hj. destruct (Nat.eq_dec i j) as [<-|Hd].
        - rewrite (nth_hupd_same _ _ _ _ En) in Hj. destruct Hj as [Hj|Hj]; inv Hj; exfalso; [eapply Hx1|eapply Hx2]; reflexivity.
        - rewrite nth_hupd_other in Hj by auto. eauto. }
      destruct pc, a; simpl in Hs; try discriminate.
      + (* Enter *) inv Hs. constructor; simpl; try rewrite El; auto.
        * apply Hnest_keep. discriminate.
        * apply Hnestw_keep; discriminate.
      + (* Exit *) inv Hs. constructor; simpl; try rewrite El; auto.
        * apply Hnest_keep. discriminate.
        * intros j p Hj. destruct (Nat.eq_dec i j) as [<-|Hd].
          -- rewrite (nth_hupd_same _ _ _ _ En) in Hj.
             destruct (welcome (line_of sess k) && Nat.eqb i 0) eqn:Ew.
             ++ apply andb_true_iff in Ew as [Ew Ei]. apply Nat.eqb_eq in Ei. eauto.
             ++ destruct Hj as [Hj|Hj]; discriminate.
          -- rewrite nth_hupd_other in Hj by auto. eauto.
      + (* Panic *) inv Hs. constructor; simpl; try rewrite El; auto.
        * apply Hnest_keep. discriminate.
        * intros j p Hj. destruct (Nat.eq_dec i j) as [<-|Hd].
          -- rewrite (nth_hupd_same _ _ _ _ En) in Hj.
             destruct (welcome (line_of sess k) && Nat.eqb i 0) eqn:Ew.
             ++ apply andb_true_iff in Ew as [Ew Ei]. apply Nat.eqb_eq in Ei. eauto.
             ++ destruct Hj as [Hj|Hj]; discriminate.
          -- rewrite nth_hupd_other in Hj by auto. eauto.
      + (* HNest: spawn the CONNECTED dispatch *) inv Hs. constructor; simpl; try rewrite El; auto.
        * right. exists i, p. eapply nth_hupd_same; eauto.
        * intros j q Hj. destruct (Nat.eq_dec i j) as [<-|Hd].
          -- eapply Hnestw. left. exact En.
          -- rewrite nth_hupd_other in Hj by auto. eauto.
        * intros k' g' Hin. apply in_app_or in Hin as [Hin|[Hin|[]]]; [eauto|discriminate].
      + (* HNestW: the nested wg.Wait returns *)
        destruct (all_done (g_conn s)) eqn:Ed; inv Hs. constructor; simpl; try rewrite El; auto.
        apply Hnestw_keep; destruct p; discriminate.
      + (* Recovered *) inv Hs. constructor; simpl; try rewrite El; auto.
        * apply Hnest_keep. discriminate.
        * apply Hnestw_keep; discriminate.
      + (* wg.Done *) inv Hs. constructor; simpl; try rewrite El; auto.
        * apply Hnest_keep. discriminate.
        * apply Hnestw_keep; discriminate.
    - (* GFg *)
      destruct (lpc s) as [|k|k|] eqn:El; try discriminate.
      apply InvA_plain_fields in Hs as (pc & pc' & o & Hn & Hsp & Hnd & ->).
      destruct Hsp; constructor; simpl; try rewrite El; auto.
    - (* GConnFg *)
      destruct (lpc s) as [|k|k|] eqn:El; try discriminate.
      apply InvA_plain_fields in Hs as (pc & pc' & o & Hn & Hsp & Hnd & ->).
      assert (Hr : forall x, all_done (hupd (g_conn s) i x) = true \/
                             exists i0 p, nth_error (g_int s) i0 = Some (HNestW p)).
      { intros x. destruct Hnest as [H|H]; [|now right].
        exfalso. apply Hnd. eapply all_done_nth; eauto. }
      destruct Hsp; constructor; simpl; try rewrite El; auto.
    - (* GDiscFg *)
      apply InvA_plain_fields in Hs as (pc & pc' & o & Hn & Hsp & Hnd & ->).
      assert (Hr : forall x, match cpc s with
             | CDisp => lpc s = LDone
             | CDone => lpc s = LDone /\ all_done (hupd (g_disc s) i x) = true
             | _ => all_done (hupd (g_disc s) i x) = true
             end).
      { intros x. destruct (cpc s); auto; try (exfalso; apply Hnd; eapply all_done_nth; eauto; fail).
        destruct Hdisc as [_ Hd]. exfalso; apply Hnd; eapply all_done_nth; eauto. }
      destruct Hsp; constructor; simpl; auto; apply Hr.
    - (* GBg *)
      destruct (bg_find key (bgs s)) as [[g|]|] eqn:Ef; try discriminate.
      apply InvA_plain_fields in Hs as (pc & pc' & o & Hn & Hsp & Hnd & ->).
      assert (Hr : forall x k' g', In (BLine k', g') (bg_set key x (bgs s)) -> S k' <= applied s).
      { intros x k' g' Hin. apply bg_set_In in Hin as [g'' Hin]. eauto. }
      destruct Hsp; constructor; simpl; eauto.
  Qed.

  Lemma InvA_step s t s' : InvA s -> step sess s t = Some s' -> InvA s'.
  Proof.
    intros HI Hs. pose proof HI as HI0. destruct HI as [Hpipe Hrpos Happ Hint Hfg Hconn Hnest Hnestw Hdisc Hcan Hbg].
    destruct t as [| | | | |key|g i|g i]; simpl in Hs.
    - (* TRecv *)
      destruct (rhold s) as [k|] eqn:Eh.
      + destruct (Nat.ltb (length (inq s)) cap_in); inv Hs.
        constructor; simpl; auto. unfold lob' in *; simpl. rewrite app_nil_r.
        simpl in Hpipe. exact Hpipe.
      + destruct (Nat.ltb (rpos s) (length (lines sess))) eqn:El; inv Hs.
        apply Nat.ltb_lt in El.
        constructor; simpl; auto; try lia. unfold lob' in *; simpl.
        simpl in Hpipe. rewrite app_nil_r in Hpipe. now apply chain_snoc.
    - (* TLoop *)
      destruct (lpc s) as [|k|k|] eqn:El.
      + destruct (inq s) as [|k q] eqn:Eq; inv Hs.
        unfold lob' in Hpipe; rewrite El in Hpipe. simpl in Hpipe. destruct Hpipe as [Hp1 Hp2].
        constructor; simpl; auto; try discriminate; try sdisc Hdisc.
        * intros i p [H|H]; apply nth_repeat in H as [H _]; discriminate.
      + destruct (all_done (g_int s)) eqn:Ed; inv Hs.
        constructor; simpl; auto; try discriminate; try sdisc Hdisc.
        * unfold lob' in *; simpl. now rewrite El in Hpipe.
        * destruct Hnest as [H|(i & p & H)]; [exact H|].
          apply (all_done_nth _ _ _ Ed) in H. discriminate.
        * intros i p [H|H]; apply (all_done_nth _ _ _ Ed) in H; discriminate.
        * intros k' g' Hin. apply in_app_or in Hin as [Hin|[Hin|[]]].
          -- apply Hbg in Hin. lia.
          -- inv Hin. lia.
      + destruct (all_done (g_fg s)) eqn:Ed; inv Hs.
        constructor; simpl; auto; try discriminate; try sdisc Hdisc.
        * unfold lob' in *; simpl. rewrite El in Hpipe. now rewrite Happ.
        * intros i p Hx. destruct (Hnestw i p Hx) as (_ & k' & Hk & _). discriminate.
      + discriminate.
    - (* TLoopQuit *)
      destruct (lpc s) eqn:El; try discriminate.
      destruct (cancelled s) eqn:Ec; inv Hs.
      constructor; simpl; auto; try sdisc Hdisc.
      + unfold lob' in *; simpl. now rewrite El in Hpipe.
      + intros i p Hx. destruct (Hnestw i p Hx) as (_ & k' & Hk & _). discriminate.
    - (* TCloser *)
      destruct (cpc s) eqn:Ec.
      + destruct (can_close sess); inv Hs. constructor; simpl; auto.
      + destruct (lpc s) eqn:El; inv Hs.
        constructor; simpl; try rewrite El; auto.
        * intros k' g' Hin. apply in_app_or in Hin as [Hin|[Hin|[]]]; [eauto|discriminate].
      + destruct (all_done (g_disc s)) eqn:Ed; inv Hs. constructor; simpl; auto.
      + discriminate.
    - (* TDrain *)
      destruct (cpc s) eqn:Ec; try discriminate.
      destruct (inq s) as [|k q] eqn:Eq; inv Hs.
      constructor; simpl; auto.
      + unfold lob' in *; simpl. simpl in Hpipe. eapply chain_tail; eauto.
      + now rewrite Ec.
    - (* TBgDisp *)
      destruct (bg_find key (bgs s)) as [[g|]|] eqn:Ef; inv Hs.
      constructor; simpl; auto.
      intros k' g' Hin. apply bg_set_In in Hin as [g'' Hin]. eauto.
    - eapply InvA_handler; [exact HI0|exact Hs].
    - eapply InvA_handler; [exact HI0|exact Hs].
  Qed.

  Theorem InvA_run sched : InvA (run (step sess) init sched).
  Proof. apply invariant_run; [apply InvA_init|]. intros s t s'. apply InvA_step. Qed.
End Inv.
