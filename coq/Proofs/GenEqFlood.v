(* Proofs/GenEqFlood.v — the Gallina TRANSLATION (Gen/GoFuncs.v) of client/connection.go
   Conn.rateLimit is equal to the hand-written model Model/Flood.v rate_limit.
   The translation passes the receiver fields the method touches (conn.badness,
   conn.lastsent) in and out, and the two time.Now() calls become the clock readings
   now1, now2 in order of evaluation; time.Duration arithmetic is Z (no overflow). *)
From Verif Require Import GoBytes LineLib GoBytesFacts Flood GoFuncs GenEqTac.
Open Scope Z_scope.

Lemma go_rateLimit_eq bad last chars a a' :
  go_client_Conn_rateLimit bad last chars a a'
  = (let '(st', t) := rate_limit {| fs_bad := bad; fs_last := last |} a a' chars in
     Ok (fs_bad st', fs_last st', t)).
Proof.
  go_unfold go_client_Conn_rateLimit.
  unfold rate_limit, linetime, line_base, second, per_char_div, threshold.
  cbn [fs_bad fs_last]. cbv zeta. go_cases.
Qed.
