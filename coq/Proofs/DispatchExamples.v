(* Proofs/DispatchExamples.v — concrete runs of Model/DispatchLts.v (vm_compute), used as
   non-vacuity witnesses by Props/C03.v C05.v C16.v: a session of three lines (the second is
   the 001 line), two foreground and one background handler per line, one CONNECTED and one
   DISCONNECTED handler; one foreground handler panics, one background handler never returns. *)
From Coq Require Import List Arith Bool.
From Verif Require Import Lts DispatchLts.
Import ListNotations.

Definition sess0 : session :=
  {| lines := [ {| n_int := 0; n_fg := 2; n_bg := 1; welcome := false |};
                {| n_int := 1; n_fg := 2; n_bg := 1; welcome := true |};
                {| n_int := 1; n_fg := 2; n_bg := 1; welcome := false |} ];
     c_fg := 1; c_bg := 1; d_fg := 1; d_bg := 0; can_close := true |}.

Definition sched0 : list tid :=
  [TRecv; TRecv; TLoop; TRecv; TLoop;                      (* line 0: no internal handler; fg spawned *)
   TBgDisp (BLine 0); THandler (GBg (BLine 0)) 0;          (* its background handler enters ... and never returns *)
   THandler GFg 1; THandler GFg 0; TPanic GFg 1; TRecv; TRecv; TRecv;
   TLoop;                                                  (* stutter: fg of line 0 not finished *)
   THandler GFg 0; THandler GFg 1; THandler GFg 1; THandler GFg 0; TLoop;
   TLoop; THandler GInt 0; THandler GInt 0;                (* line 1 = 001: h_001's body *)
   THandler GInt 0;                                        (* its deferred dispatch(CONNECTED) *)
   TBgDisp (BConn 1); THandler GConnFg 0; THandler (GBg (BConn 1)) 0; THandler GConnFg 0; THandler GConnFg 0;
   THandler GInt 0; THandler GInt 0; TLoop;
   THandler GFg 0; THandler GFg 1; THandler GFg 1; THandler GFg 0; THandler GFg 1; THandler GFg 0; TLoop;
   TLoop; THandler GInt 0; THandler GInt 0; THandler GInt 0; TLoop;
   TBgDisp (BLine 2); THandler (GBg (BLine 2)) 0;
   THandler GFg 1; THandler GFg 1; THandler GFg 1; THandler GFg 0; THandler GFg 0; THandler GFg 0; TLoop].

(* then a user thread calls Close() *)
Definition sched1 : list tid :=
  [TCloser; TLoopQuit; TCloser; THandler GDiscFg 0; THandler (GBg (BLine 2)) 0;
   THandler GDiscFg 0; THandler GDiscFg 0; TCloser].

Definition hist0 : list event :=
  [EvApplied 0; EvEnter KBg 0 0 1; EvEnter KFg 0 1 1; EvEnter KFg 0 0 1; EvPanic KFg 0 1;
   EvExit KFg 0 0 1; EvRecovered KFg 0 1; EvEnter KInt 1 0 1; EvExit KInt 1 0 1;
   EvEnter KConnFg 1 0 1; EvEnter KConnBg 1 0 1; EvExit KConnFg 1 0 1; EvApplied 1;
   EvEnter KFg 1 0 2; EvEnter KFg 1 1 2; EvExit KFg 1 1 2; EvExit KFg 1 0 2;
   EvEnter KInt 2 0 2; EvExit KInt 2 0 2; EvApplied 2; EvEnter KBg 2 0 3;
   EvEnter KFg 2 1 3; EvExit KFg 2 1 3; EvEnter KFg 2 0 3; EvExit KFg 2 0 3].
Definition hist1 : list event :=
  hist0 ++ [EvEnter KDiscFg 0 0 3; EvExit KBg 2 0 3; EvExit KDiscFg 0 0 3].

Lemma run0 : let s := run (step sess0) init sched0 in
             hist s = hist0 /\ delivered_all sess0 s = true.
Proof. vm_compute. split; reflexivity. Qed.

Lemma run1 : let s := run (step sess0) init (sched0 ++ sched1) in
             hist s = hist1 /\ lpc s = LDone /\ cpc s = CDone.
Proof. vm_compute. repeat split; reflexivity. Qed.

(* the monitors are not trivially true: histories a broken implementation would produce *)
(* line 1's handler starts while line 0's is still running (go conn.fgHandlers.dispatch) *)
Lemma C03_rejects_overlap :
  C03_ok sess0 [EvEnter KFg 0 0 1; EvEnter KFg 1 0 2; EvExit KFg 0 0 1; EvExit KFg 1 0 2] = false.
Proof. reflexivity. Qed.
Lemma C03_rejects_reorder :
  C03_ok sess0 [EvEnter KFg 1 0 2; EvExit KFg 1 0 2; EvEnter KFg 0 0 1; EvExit KFg 0 0 1] = false.
Proof. reflexivity. Qed.
(* CONNECTED after the foreground handlers of the 001 line / of a later line *)
Lemma C03_rejects_late_connected :
  C03_ok sess0 [EvEnter KFg 1 0 2; EvExit KFg 1 0 2; EvEnter KConnFg 1 0 2; EvExit KConnFg 1 0 2] = false.
Proof. reflexivity. Qed.
(* CONNECTED seeing a line that is not a welcome line *)
Lemma C03_rejects_early_connected :
  C03_ok sess0 [EvEnter KConnFg 0 0 1; EvExit KConnFg 0 0 1] = false.
Proof. reflexivity. Qed.
(* DISCONNECTED while a foreground handler is running; a foreground handler after it *)
Lemma C03_rejects_early_disconnected :
  C03_ok sess0 [EvEnter KFg 0 0 1; EvEnter KDiscFg 0 0 1; EvExit KFg 0 0 1] = false.
Proof. reflexivity. Qed.
Lemma C03_rejects_fg_after_disconnected :
  C03_ok sess0 [EvEnter KDiscFg 0 0 1; EvEnter KFg 0 0 1] = false.
Proof. reflexivity. Qed.
(* user handler before the tracker saw the line; foreground handler seeing a later line *)
Lemma C05_rejects_unapplied : C05_ok [EvEnter KBg 2 0 2] = false.
Proof. reflexivity. Qed.
Lemma C05_rejects_ahead : C05_ok [EvEnter KFg 1 0 2; EvExit KFg 1 0 3] = false.
Proof. reflexivity. Qed.
(* a sibling of the panicking handler lost; a panic that never reached the recovery function *)
Lemma C16_rejects_lost_sibling :
  C16_ok sess0 (filter (fun e => negb (is_ev TgExit KFg 0 0 e)) hist0) = false.
Proof. vm_compute. reflexivity. Qed.
Lemma C16_rejects_unrecovered :
  C16_ok sess0 (filter (fun e => negb (is_ev TgRecovered KFg 0 1 e)) hist0) = false.
Proof. vm_compute. reflexivity. Qed.
Lemma C16_rejects_lost_line :
  C16_ok sess0 (firstn 17 hist0) = false.
Proof. vm_compute. reflexivity. Qed.
