(* Proofs/TrackerRefine3.v — C12 refinement, part 3: ReNick, and the theorems for all
   operations and all operation sequences.
   ReNick's loop edits a DIFFERENT channel object per iteration, so for any enumeration without
   repeated keys the result is the pointwise update.  In the result every name-keyed map that
   points to nicks (st.nicks and the lookup of every tracked channel) is the old one with the
   two names exchanged — which is how the plain model defines the rename ([rekey]). *)
From Verif Require Import TrackerSpec TrackerImpl TrackerObs TrackerSpecFacts TrackerSpecLoops
     TrackerRefine TrackerRefine2.
Open Scope Z_scope.

Definition rn_co (old neu : name) (nk : addr) (c : chanobj) : chanobj :=
  co_set_lookup c (<[neu := nk]> (delete old (co_lookup c))).
Definition rn_body (old neu : name) (nk : addr) (s : istate) (e : addr * addr) : option istate :=
  h_chan s !! fst e ≫= fun c => Some (put_chan s (fst e) (rn_co old neu nk c)).

(* a fold whose body rewrites only the object named by the key: the pointwise update *)
Lemma rn_loop old neu nk l : forall s, NoDup l.*1 -> (forall e, e ∈ l -> is_Some (h_chan s !! fst e)) ->
  exists s', foldM (rn_body old neu nk) s l = Some s'
    /\ st_nicks s' = st_nicks s /\ st_chans s' = st_chans s /\ st_me s' = st_me s
    /\ h_nick s' = h_nick s /\ h_priv s' = h_priv s /\ h_next s' = h_next s
    /\ forall a, h_chan s' !! a = if decide (a ∈ l.*1) then rn_co old neu nk <$> h_chan s !! a else h_chan s !! a.
Proof.
  induction l as [|[ch cp] l IH]; intros s ND Hl.
  - exists s. simpl. repeat (split; [done|]). intros a. done.
  - destruct (Hl (ch, cp)) as [co Hco]; [by left|]. simpl in Hco.
    simpl in ND. apply NoDup_cons in ND as [NI ND].
    set (s1 := put_chan s ch (rn_co old neu nk co)).
    destruct (IH s1 ND) as (s' & F & E1 & E2 & E3 & E4 & E5 & E6 & E7).
    { intros e He. simpl. destruct (decide (e.1 = ch)) as [->|N]; [rewrite lookup_insert; eauto|].
      rewrite lookup_insert_ne by done. apply Hl. by right. }
    exists s'. split; [simpl; unfold rn_body at 1; simpl; rewrite Hco; exact F|].
    repeat (split; [done|]). intros a. rewrite E7. simpl.
    destruct (decide (a = ch)) as [->|N].
    + rewrite decide_False by done. rewrite lookup_insert. rewrite decide_True by (by left). by rewrite Hco.
    + rewrite lookup_insert_ne by done.
      destruct (decide (a ∈ l.*1)) as [D|D].
      * rewrite decide_True by (by right). done.
      * rewrite decide_False; [done|]. rewrite not_elem_of_cons. done.
Qed.

Section Refine3.
Variable enumA : gmap addr addr -> list (addr * addr).
Variable enumN : gmap name addr -> list (name * addr).
Hypothesis enumA_perm : forall m, enumA m ≡ₚ map_to_list m.
Hypothesis enumN_perm : forall m, enumN m ≡ₚ map_to_list m.

Section ReNick.
Variables (s s2 : istate) (old neu : name) (nk : addr) (o : nickobj).
Hypothesis I : rep_inv s.
Hypothesis Hold : st_nicks s !! old = Some nk.
Hypothesis Hneu : st_nicks s !! neu = None.
Hypothesis Ho : h_nick s !! nk = Some o.

Let o1 := Build_nickobj neu (no_ident o) (no_host o) (no_name o) (no_modes o) (no_lookup o) (no_chans o).
Let sw := swap_name old neu.

(* the state after the loop, described field by field *)
Hypothesis S_nicks : st_nicks s2 = <[neu := nk]> (delete old (st_nicks s)).
Hypothesis S_chans : st_chans s2 = st_chans s.
Hypothesis S_me : st_me s2 = st_me s.
Hypothesis S_hnick : h_nick s2 = <[nk := o1]> (h_nick s).
Hypothesis S_hpriv : h_priv s2 = h_priv s.
Hypothesis S_hnext : h_next s2 = h_next s.
Hypothesis S_hchan : forall a, h_chan s2 !! a =
  if decide (is_Some (no_chans o !! a)) then rn_co old neu nk <$> h_chan s !! a else h_chan s !! a.

Lemma rn_ne : old <> neu.
Proof using Hold Hneu. congruence. Qed.

Lemma rn_st_nicks k : st_nicks s2 !! k = st_nicks s !! sw k.
Proof using S_nicks Hold Hneu.
  pose proof rn_ne as NE. rewrite S_nicks. unfold sw, swap_name.
  destruct (decide (k = old)) as [->|N1].
  - rewrite lookup_insert_ne by done. by rewrite lookup_delete, Hneu.
  - destruct (decide (k = neu)) as [->|N2]; [by rewrite lookup_insert|].
    rewrite lookup_insert_ne by done. by rewrite lookup_delete_ne.
Qed.

Lemma sw_invol k : sw (sw k) = k.
Proof. apply swap_name_invol. Qed.

(* a tracked name other than [old] is untouched by the exchange *)
Lemma sw_tracked k nk' : st_nicks s !! k = Some nk' -> nk' <> nk -> sw k = k.
Proof using Hold Hneu.
  intros H N. unfold sw, swap_name. rewrite decide_False by congruence. rewrite decide_False by congruence. done.
Qed.

Lemma rn_h_nick a : h_nick s2 !! a = if decide (a = nk) then Some o1 else h_nick s !! a.
Proof using S_hnick. rewrite S_hnick. case_decide; [subst; by rewrite lookup_insert|by rewrite lookup_insert_ne]. Qed.

(* every tracked channel: same name, attributes and members; lookup with the names exchanged *)
Lemma rn_chan c ch co : st_chans s !! c = Some ch -> h_chan s !! ch = Some co ->
  exists co2, h_chan s2 !! ch = Some co2 /\ co_name co2 = co_name co /\ chan_attr co2 = chan_attr co
              /\ co_nicks co2 = co_nicks co /\ forall k, co_lookup co2 !! k = co_lookup co !! sw k.
Proof using All.
  intros Hc Hco. pose proof rn_ne as NE. rewrite S_hchan, Hco.
  assert (NEU : co_lookup co !! neu = None).
  { destruct (co_lookup co !! neu) eqn:L; [|done]. apply (ri_ch_lookup s I _ _ _ _ _ Hc Hco) in L as [L _]. congruence. }
  case_decide as D.
  - destruct D as [cp Hon]. destruct (ri_nk_chans s I _ _ _ _ _ Hold Ho Hon) as (co' & Hco' & _ & Hnk).
    assert (co' = co) as -> by congruence.
    assert (OLD : co_lookup co !! old = Some nk) by (apply (ri_ch_lookup s I _ _ _ _ _ Hc Hco); eauto).
    eexists. split; [done|]. simpl. repeat split; try done. intros k. unfold sw, swap_name.
    destruct (decide (k = old)) as [->|N1].
    + rewrite lookup_insert_ne by done. by rewrite lookup_delete, NEU.
    + destruct (decide (k = neu)) as [->|N2]; [by rewrite lookup_insert, OLD|].
      rewrite lookup_insert_ne by done. by rewrite lookup_delete_ne.
  - exists co. repeat split; try done. intros k. unfold sw, swap_name.
    assert (OLD : co_lookup co !! old = None).
    { destruct (co_lookup co !! old) as [x|] eqn:L; [|done]. exfalso.
      apply (ri_ch_lookup s I _ _ _ _ _ Hc Hco) in L as [L [cp Hnk]]. assert (x = nk) as -> by congruence.
      destruct (ri_ch_nicks s I _ _ _ _ _ Hc Hco Hnk) as (o' & Ho' & _ & Hon & _).
      apply D. assert (o' = o) as -> by congruence. eauto. }
    destruct (decide (k = old)) as [->|N1]; [by rewrite OLD, NEU|].
    destruct (decide (k = neu)) as [->|N2]; [by rewrite OLD, NEU|]. done.
Qed.

Lemma rep_inv_renick : rep_inv s2.
Proof using All.
  pose proof rn_ne as NE.
  split.
  - intros k nk' H. rewrite rn_st_nicks in H. destruct (ri_nicks s I _ _ H) as (o0 & Ho0 & Hname).
    rewrite rn_h_nick. case_decide as E.
    + subst nk'. eexists; split; [done|]. simpl. assert (sw k = old) as X by (eapply st_nicks_inj; eauto).
      rewrite <- (sw_invol k), X. unfold sw, swap_name. by rewrite decide_True.
    + exists o0. split; [done|]. rewrite Hname. pose proof (sw_tracked _ nk' H E) as X. rewrite sw_invol in X. congruence.
  - intros c ch H. rewrite S_chans in H. destruct (ri_chans s I _ _ H) as (co & Hco & Hname).
    destruct (rn_chan c ch co H Hco) as (co2 & H2 & N2 & _). exists co2. split; [done|]. congruence.
  - destruct (ri_me s I) as (k & Hk). exists (sw k). by rewrite rn_st_nicks, sw_invol, S_me.
  - intros k nk' o' ch cp H1 H2 H3. rewrite rn_st_nicks in H1. rewrite S_chans.
    assert (exists o0, h_nick s !! nk' = Some o0 /\ no_chans o0 !! ch = Some cp) as (o0 & Ho0 & Hch0).
    { rewrite rn_h_nick in H2. case_decide as E; [|eauto]. subst. inversion H2; subst o'. simpl in H3. eauto. }
    destruct (ri_nk_chans s I _ _ _ _ _ H1 Ho0 Hch0) as (co & Hco & G1 & G2).
    destruct (rn_chan _ ch co G1 Hco) as (co2 & K1 & K2 & _ & K4 & _).
    exists co2. rewrite K2, K4. done.
  - intros k nk' o' c ch H1 H2. rewrite rn_st_nicks in H1. rewrite S_chans.
    assert (exists o0, h_nick s !! nk' = Some o0 /\ no_chans o' = no_chans o0 /\ no_lookup o' = no_lookup o0)
      as (o0 & Ho0 & -> & ->).
    { rewrite rn_h_nick in H2. case_decide as E; [|eauto]. subst. inversion H2; subst o'. simpl. eauto. }
    apply (ri_nk_lookup s I _ _ _ _ _ H1 Ho0).
  - intros c ch co2 nk' cp H1 H2 H3. rewrite S_chans in H1. rewrite S_hpriv.
    destruct (ri_chans s I _ _ H1) as (co & Hco & _).
    destruct (rn_chan c ch co H1 Hco) as (co2' & K1 & _ & _ & K4 & _).
    assert (co2' = co2) as -> by congruence. rewrite K4 in H3.
    destruct (ri_ch_nicks s I _ _ _ _ _ H1 Hco H3) as (o0 & Ho0 & G1 & G2 & G3).
    rewrite rn_h_nick. case_decide as E.
    + subst nk'. assert (o0 = o) as -> by congruence. eexists; split; [done|]. simpl.
      rewrite rn_st_nicks. unfold sw, swap_name. rewrite decide_False by done. rewrite decide_True by done. done.
    + exists o0. split; [done|]. rewrite rn_st_nicks. rewrite (sw_tracked _ nk') by done. done.
  - intros c ch co2 k nk' H1 H2. rewrite S_chans in H1.
    destruct (ri_chans s I _ _ H1) as (co & Hco & _).
    destruct (rn_chan c ch co H1 Hco) as (co2' & K1 & _ & _ & K4 & K5).
    assert (co2' = co2) as -> by congruence. rewrite K5, K4, rn_st_nicks.
    apply (ri_ch_lookup s I _ _ _ _ _ H1 Hco).
  - intros c1 ch1 co1 nk1 c2 ch2 co2 nk2 cp H1 H2 H3 H4 H5 H6. rewrite S_chans in H1, H4.
    destruct (ri_chans s I _ _ H1) as (co1' & Hco1 & _). destruct (ri_chans s I _ _ H4) as (co2' & Hco2 & _).
    destruct (rn_chan c1 ch1 co1' H1 Hco1) as (x1 & K1 & _ & _ & K4 & _).
    destruct (rn_chan c2 ch2 co2' H4 Hco2) as (x2 & L1 & _ & _ & L4 & _).
    assert (x1 = co1) as -> by congruence. assert (x2 = co2) as -> by congruence.
    rewrite K4 in H3. rewrite L4 in H6.
    apply (ri_unshared s I _ _ _ _ _ _ _ _ _ H1 Hco1 H3 H4 Hco2 H6).
  - intros a H. rewrite S_hnext. apply (ri_fresh s I). rewrite S_hpriv in H.
    rewrite rn_h_nick, S_hchan in H.
    destruct H as [H|[H|H]]; [left|right; left|by right; right].
    + case_decide; subst; eauto.
    + case_decide; [|done]. destruct (h_chan s !! a); [eauto|]. by destruct H.
Qed.

Lemma abs_renick :
  abs s2 = {| ts_me := if decide (old = ts_me (abs s)) then neu else ts_me (abs s);
              ts_nicks := <[neu := nick_attr o]> (delete old (ts_nicks (abs s)));
              ts_chans := ts_chans (abs s);
              ts_member := rekey old neu (ts_member (abs s)) |}.
Proof using All.
  pose proof rn_ne as NE. apply tstate_ext; simpl.
  - rewrite abs_me_eq, S_me, rn_h_nick. pose proof (me_name s old nk I Hold) as ME.
    case_decide as E.
    + rewrite decide_True by (by apply ME). done.
    + rewrite decide_False by (intros X; apply E; symmetry; by apply ME). by rewrite abs_me_eq.
  - apply map_eq. intros k. rewrite abs_nicks, rn_st_nicks. unfold sw, swap_name.
    destruct (decide (k = old)) as [->|N1].
    + rewrite Hneu. rewrite lookup_insert_ne by done. by rewrite lookup_delete.
    + destruct (decide (k = neu)) as [->|N2].
      * rewrite Hold. simpl. rewrite rn_h_nick, decide_True by done. simpl. by rewrite lookup_insert.
      * rewrite lookup_insert_ne by done. rewrite lookup_delete_ne by done. rewrite abs_nicks.
        destruct (st_nicks s !! k) as [nk'|] eqn:Hk; [|done]. simpl. rewrite rn_h_nick. case_decide as E; [|done].
        subst nk'. exfalso. apply N1. eapply st_nicks_inj; eauto.
  - apply map_eq. intros c. rewrite !abs_chans, S_chans.
    destruct (st_chans s !! c) as [ch|] eqn:Hc; [|done]. simpl.
    destruct (ri_chans s I _ _ Hc) as (co & Hco & _).
    destruct (rn_chan c ch co Hc Hco) as (co2 & K1 & _ & K3 & _). rewrite K1, Hco. simpl. by rewrite K3.
  - apply map_eq. intros [c k]. rewrite rekey_lookup, !abs_member, S_chans, S_hpriv.
    destruct (st_chans s !! c) as [ch|] eqn:Hc; [|done]. simpl.
    destruct (ri_chans s I _ _ Hc) as (co & Hco & _).
    destruct (rn_chan c ch co Hc Hco) as (co2 & K1 & _ & _ & K4 & K5). rewrite K1, Hco. simpl.
    by rewrite K5, K4.
Qed.
End ReNick.

Lemma refines_ReNick old neu : refines_op enumA enumN (OReNick old neu).
Proof.
  intros s I. simpl. unfold im_ReNick, sp_ReNick, with_res.
  destruct (st_nicks s !! old) as [nk|] eqn:Hold; [|rewrite abs_nicks_None by done; simpl; eauto 10].
  destruct (ri_nicks s I _ _ Hold) as (o & Ho & Hname).
  rewrite (abs_nicks_Some s old nk o) by done.
  destruct (st_nicks s !! neu) as [nk'|] eqn:Hneu.
  { destruct (ri_nicks s I _ _ Hneu) as (o' & Ho' & _). rewrite (abs_nicks_Some s neu nk' o') by done. simpl. eauto 10. }
  rewrite abs_nicks_None by done. rewrite Ho. simpl.
  set (o1 := Build_nickobj neu (no_ident o) (no_host o) (no_name o) (no_modes o) (no_lookup o) (no_chans o)).
  set (s1 := set_st_nicks (put_nick s nk o1) (<[neu:=nk]> (delete old (st_nicks s)))).
  destruct (rn_loop old neu nk (enumA (no_chans o)) s1 (enumA_nodup enumA enumA_perm _)) as
    (s2 & F & E1 & E2 & E3 & E4 & E5 & E6 & E7).
  { intros [ch cp] He. apply (enumA_elem enumA enumA_perm) in He. simpl.
    destruct (ri_nk_chans s I _ _ _ _ _ Hold Ho He) as (co & Hco & _). eauto. }
  change (foldM _ s1 (enumA (no_chans o))) with (foldM (rn_body old neu nk) s1 (enumA (no_chans o))).
  rewrite F. simpl.
  assert (S_hchan : forall a, h_chan s2 !! a =
            if decide (is_Some (no_chans o !! a)) then rn_co old neu nk <$> h_chan s !! a else h_chan s !! a).
  { intros a. rewrite E7. simpl.
    destruct (decide (a ∈ (enumA (no_chans o)).*1)) as [D|D].
    - rewrite decide_True; [done|]. apply elem_of_list_fmap in D as ([a' cp] & -> & D).
      apply (enumA_elem enumA enumA_perm) in D. eauto.
    - rewrite decide_False; [done|]. intros [cp D']. apply D. apply elem_of_list_fmap. exists (a, cp).
      split; [done|]. by apply (enumA_elem enumA enumA_perm). }
  pose proof (rep_inv_renick s s2 old neu nk o I Hold Hneu Ho E1 E2 E3 E4 E5 E6 S_hchan) as I2.
  pose proof (abs_renick s s2 old neu nk o I Hold Hneu Ho E1 E2 E3 E4 E5 E6 S_hchan) as A2.
  assert (Hn2 : st_nicks s2 !! neu = Some nk) by (rewrite E1; simpl; by rewrite lookup_insert).
  destruct (nick_snap_ok enumA enumA_perm s2 neu nk I2 Hn2) as (r & H1 & H2). rewrite H1. simpl.
  eexists _, _. split; [done|]. split; [done|]. rewrite A2 in H2. split; [exact A2|]. symmetry; f_equal; exact H2.
Qed.

(* ---------- every operation, every sequence ---------- *)
Theorem refines_all o : refines_op enumA enumN o.
Proof.
  destruct o; try (apply (refines_covered enumA enumN enumA_perm enumN_perm); exact Logic.I).
  - apply refines_ReNick.
  - apply (refines_DelNick enumA enumN enumA_perm).
  - apply (refines_DelChannel enumA enumN enumA_perm).
  - apply (refines_Dissociate enumA enumN enumA_perm).
  - apply (refines_Wipe enumA enumN enumA_perm enumN_perm).
Qed.

Theorem run_refines ops : forall s, rep_inv s ->
  exists s' rs, im_run enumA enumN s ops = Some (s', rs) /\ rep_inv s'
                /\ abs s' = fst (sp_run (abs s) ops) /\ rs = snd (sp_run (abs s) ops).
Proof.
  induction ops as [|o ops IH]; intros s I.
  - simpl. eauto 10.
  - destruct (refines_all o s I) as (s1 & r & E1 & I1 & A1 & R1).
    destruct (IH s1 I1) as (s2 & rs & E2 & I2 & A2 & R2).
    simpl. rewrite E1. simpl. rewrite E2. simpl.
    destruct (sp_step (abs s) o) as [t1 r1] eqn:S1. simpl in A1, R1. subst t1 r1.
    destruct (sp_run (abs s1) ops) as [t2 rs2] eqn:S2. simpl in A2, R2. subst t2 rs2.
    eexists _, _. split; [done|]. split; [done|]. split; done.
Qed.

(* ---------- the observation of the object graph satisfies the runtime oracle ---------- *)
Lemma sweep_refines s qs : rep_inv s ->
  im_sweep_aux enumA enumN s qs = Some (concat (map (fun q => enc_result (snd (sp_step (abs s) q))) qs)).
Proof.
  intros I. induction qs as [|q qs IH]; [done|]. simpl.
  destruct (refines_all q s I) as (s1 & r & E1 & _ & _ & R1). rewrite E1. simpl. rewrite IH. simpl. by rewrite R1.
Qed.

Lemma observe_refines U ops : forall s, rep_inv s ->
  im_observe enumA enumN U s ops = sp_observe U (abs s) ops.
Proof.
  induction ops as [|o ops IH]; intros s I; [done|]. simpl.
  destruct (refines_all o s I) as (s1 & r & E1 & I1 & A1 & R1). rewrite E1.
  unfold im_sweep. rewrite (sweep_refines s1 _ I1).
  destruct (sp_step (abs s) o) as [t1 r1] eqn:S1. simpl in A1, R1. subst t1 r1.
  rewrite (IH s1 I1). done.
Qed.

Theorem impl_observation_ok me U ops :
  C12_ok me U ops (im_observe enumA enumN U (im_new me) ops) = true.
Proof.
  unfold C12_ok, C12_predict. rewrite (observe_refines U ops (im_new me) (rep_inv_new me)), abs_new.
  by apply bool_decide_eq_true.
Qed.

End Refine3.
