(* Proofs/NetDec.v — decimal rendering ([GoBytes.dec_of_N], [dec_of_Z]) and reading
   ([GoBytes.N_of_dec], the tracker's [atoi]) are inverse: N_of_dec (dec_of_N n) = Some n. *)
From Verif Require Import TrackerSpec.
From Verif Require GoBytes.
From Coq Require Import ZifyN ZifyNat ZifyBool.
Open Scope N_scope.

Definition is_dig (c : N) : bool := (48 <=? c) && (c <=? 57).
Definition valf (s : list N) (a : N) : N := fold_left (fun x c => x * 10 + (c - 48)) s a.

Lemma N_of_dec_aux_digits s : forall a, forallb is_dig s = true -> GoBytes.N_of_dec_aux s a = Some (valf s a).
Proof.
  induction s as [|c s IH]; intros a H; [done|]. simpl in H. apply andb_prop in H. destruct H as [Hc Hs].
  simpl. unfold is_dig in Hc. rewrite Hc. by apply IH.
Qed.

Lemma digits_aux_app fuel : forall n acc, GoBytes.digits_aux fuel n acc = GoBytes.digits_aux fuel n [] ++ acc.
Proof.
  induction fuel as [|f IH]; intros n acc; [done|]. simpl. destruct (n <? 10); [done|].
  rewrite (IH _ (_ :: acc)), (IH _ [_]). by rewrite <- app_assoc.
Qed.

Lemma digits_aux_dig fuel : forall n acc, forallb is_dig acc = true -> forallb is_dig (GoBytes.digits_aux fuel n acc) = true.
Proof.
  induction fuel as [|f IH]; intros n acc H; [done|]. simpl.
  assert (D : forallb is_dig ((48 + n mod 10) :: acc) = true).
  { simpl. rewrite H, andb_true_r. unfold is_dig. assert (Hm : n mod 10 < 10) by (by apply N.mod_upper_bound).
    set (m := n mod 10) in *. apply andb_true_intro. split; apply N.leb_le; lia. }
  destruct (n <? 10); [exact D|by apply IH].
Qed.
Lemma digits_aux_ne fuel : forall n acc, acc <> [] -> GoBytes.digits_aux fuel n acc <> [].
Proof.
  induction fuel as [|f IH]; intros n acc H; [done|]. simpl. destruct (n <? 10); [done|]. by apply IH.
Qed.

Lemma digits_aux_val fuel : forall n, n < 10 ^ N.of_nat fuel -> valf (GoBytes.digits_aux fuel n []) 0 = n.
Proof.
  induction fuel as [|f IH]; intros n H.
  - change (10 ^ N.of_nat 0) with 1 in H. assert (n = 0) by lia. by subst.
  - cbn [GoBytes.digits_aux]. destruct (n <? 10) eqn:E.
    + apply N.ltb_lt in E. unfold valf. simpl. rewrite N.mod_small by done. lia.
    + apply N.ltb_ge in E. rewrite digits_aux_app. unfold valf. rewrite fold_left_app. simpl.
      fold (valf (GoBytes.digits_aux f (n / 10) []) 0). rewrite IH.
      * pose proof (N.div_mod' n 10). lia.
      * rewrite Nat2N.inj_succ, N.pow_succ_r' in H. apply N.div_lt_upper_bound; lia.
Qed.

Lemma dec_of_N_ne n : GoBytes.dec_of_N n <> [].
Proof. unfold GoBytes.dec_of_N. simpl. destruct (n <? 10); [done|]. by apply digits_aux_ne. Qed.
Lemma dec_of_N_dig n : forallb is_dig (GoBytes.dec_of_N n) = true.
Proof. by apply digits_aux_dig. Qed.

Theorem N_of_dec_dec_of_N n : GoBytes.N_of_dec (GoBytes.dec_of_N n) = Some n.
Proof.
  pose proof (dec_of_N_ne n) as Hne. pose proof (dec_of_N_dig n) as Hd.
  unfold GoBytes.N_of_dec. destruct (GoBytes.dec_of_N n) as [|c r] eqn:E; [done|]. rewrite <- E in *.
  rewrite (N_of_dec_aux_digits _ 0 Hd). f_equal. unfold GoBytes.dec_of_N. apply digits_aux_val.
  rewrite Nat2N.inj_succ, N2Nat.id.
  destruct (decide (n = 0)) as [->|Hn]; [done|].
  pose proof (N.log2_spec n ltac:(lia)) as [_ H2].
  eapply N.lt_le_trans; [exact H2|]. apply N.pow_le_mono_l. lia.
Qed.

(* the tracker's Atoi on the rendering of a limit in range *)
Theorem atoi_dec_of_Z l : (0 < l <= 2147483647)%Z -> atoi (GoBytes.dec_of_Z l) = l.
Proof.
  intros H. unfold GoBytes.dec_of_Z. replace (l <? 0)%Z with false by (symmetry; apply Z.ltb_ge; lia).
  pose proof (N_of_dec_dec_of_N (Z.to_N l)) as R. pose proof (dec_of_N_dig (Z.to_N l)) as Hd.
  unfold atoi. destruct (GoBytes.dec_of_N (Z.to_N l)) as [|c r] eqn:E; [done|].
  simpl in Hd. apply andb_prop in Hd. destruct Hd as [Hc _]. unfold is_dig in Hc. apply andb_prop in Hc.
  destruct Hc as [H1 H2]. apply N.leb_le in H1, H2.
  assert (R' : GoBytes.N_of_dec (c :: r) = Some (Z.to_N l)) by exact R.
  destruct c as [|p]; [lia|].
  assert (Hp : Npos p <> 45 /\ Npos p <> 43) by lia. destruct Hp as [Hp1 Hp2].
  assert (G : match GoBytes.N_of_dec (Npos p :: r) with Some n => clamp_int (Z.of_N n) | None => 0%Z end = l).
  { rewrite R'. rewrite Z2N.id by lia. unfold clamp_int, max_int, min_int.
    destruct (l >? 9223372036854775807)%Z eqn:X; [apply Z.gtb_lt in X; lia|].
    destruct (l <? -9223372036854775808)%Z eqn:Y; [apply Z.ltb_lt in Y; lia|]. done. }
  do 6 (destruct p as [p|p|]; try exact G; try (exfalso; lia)).
Qed.
