(* Proofs/LifecycleInvE.v — the history of every run satisfies the prefix-closed parts of the
   C06 / C07 predicates; initial state; the invariant holds along every schedule. *)
From Coq Require Import List Arith Bool Lia.
From Verif Require Import Lts LifecycleLts LifecycleBase LifecycleInv LifecycleInvB LifecycleInvC LifecycleInvD.
Import ListNotations.

Lemma memg_true g l : In g l -> memg g l = true.
Proof. apply memg_In. Qed.
Lemma memg_false' g l : ~ In g l -> memg g l = false.
Proof. apply memg_false. Qed.

Section Steps.
  Variables (hm : nat) (hl : bool).
  Notation step := (fstep hm hl).

  Ltac begin Hinv H :=
    match type of H with step _ (?t, _) = _ => facts Hinv t end;
    step_inv H; try use_Ht; psimpl.

  Lemma step_ok6 s tid s' : Inv s -> step s tid = Some s' -> C06_safe (hist s') = true.
  Proof.
    intros Hinv H. destruct tid as [t ch]. pose proof (i_ok6 _ Hinv) as Hold.
    pose proof (i_tds _ Hinv) as Htds. pose proof (i_ests _ Hinv) as Hests. pose proof (i_live _ Hinv) as Hlive.
    begin Hinv H; try exact Hold; unfold C06_safe in *; rewrite check_snoc, Hold; cbn [andb ok6]; try reflexivity.
    - (* a line's handler samples Connected() *)
      destruct (Hlive g) as [[Hc1 _]|Htd]; [apply Hgt; discriminate|rewrite Hc1; reflexivity|].
      rewrite (memg_true _ _ Htd). now rewrite orb_true_r.
    - rewrite (memg_true g (ests (hist s))) by (apply Htds; assumption).
      rewrite (memg_false' _ _ Hnd). reflexivity.
    - destruct (connected s) eqn:Hcn; [|reflexivity]. cbn [negb orb].
      destruct (Hconn eq_refl) as [Hcur Hin]. apply existsb_exists. exists (nq s). split; [exact Hin|].
      apply Nat.ltb_lt. destruct (Htds g H) as [Hge Hneq]. pose proof (Hests g Hge).
      assert (g <> nq s) by (intros e; specialize (Hneq e); congruence). lia.
    - exact Hk.
    - destruct Hk as (A & _ & _ & _ & _ & B). rewrite Hri, (memg_false' _ _ B), A. reflexivity.
    - destruct Hk as (A & _ & _ & _ & _ & B). rewrite Hri, (memg_false' _ _ B), A. reflexivity.
    - apply Hk.
    - apply Hk.
    - destruct Hk as (A & B). rewrite (memg_true g (ests (hist s))) by eauto with lc.
      rewrite (memg_false' _ _ B). reflexivity.
    - destruct Hk as (A & B & C). destruct (Hlive g) as [[Hc1 _]|Htd]; [eauto with lc|rewrite Hc1; reflexivity|].
      rewrite (memg_true _ _ Htd). now rewrite orb_true_r.
    - destruct Hk as (A & B & C). rewrite A, (memg_true _ _ B), (memg_false' _ _ C). reflexivity.
  Qed.

  Lemma step_ok7 s tid s' : Inv s -> step s tid = Some s' -> C07_safe (hist s') = true.
  Proof.
    intros Hinv H. destruct tid as [t ch]. pose proof (i_ok7 _ Hinv) as Hold.
    pose proof (i_tds _ Hinv) as Htds.
    begin Hinv H; try exact Hold; unfold C07_safe in *; rewrite check_snoc, Hold; cbn [andb ok7]; try reflexivity.
    - destruct (Hconn H) as [Hcur Hin]. rewrite Hcur in *.
      rewrite (memg_true _ _ Hin).
      assert (Hnt : ~ In (nq s) (tds (hist s))).
      { intros Hx. destruct (Htds _ Hx) as [_ Hy]. specialize (Hy eq_refl). congruence. }
      rewrite (memg_false' _ _ Hnt). cbn [negb andb].
      destruct t; cbn [wf_pc close_wf own_gen] in *; try contradiction; try discriminate Hwf; try reflexivity;
        destruct Hwf as (Hid & _ & _); rewrite (Hid (or_intror eq_refl)) in H0;
        apply negb_false_iff in H0; exact H0.
    - rewrite (memg_true _ _ H). reflexivity.
  Qed.

  (* ---------- the invariant holds initially and is preserved by every step ---------- *)
  Lemma Inv_step s tid s' : Inv s -> step s tid = Some s' -> Inv s'.
  Proof.
    intros Hinv H. constructor.
    - eapply step_t; eauto.
    - eapply step_mu; eauto.
    - eapply step_c3; eauto.
    - eapply step_wt; eauto.
    - eapply step_wd; eauto.
    - eapply step_refs; eauto.
    - eapply step_conn; eauto.
    - eapply step_ests; eauto.
    - eapply step_live; eauto.
    - eapply step_tds; eauto.
    - eapply step_tdp; eauto.
    - eapply step_discs; eauto.
    - eapply step_regs; eauto.
    - eapply step_rets; eauto.
    - eapply step_nd; eauto.
    - eapply step_wg; eauto.
    - eapply step_wg0; eauto.
    - eapply step_wgl; eauto.
    - eapply step_fresh; eauto.
    - eapply step_ok6; eauto.
    - eapply step_ok7; eauto.
  Qed.
End Steps.

Lemma Inv_init w : Inv (init w).
Proof.
  constructor; cbn; try tauto; try (intros; discriminate); try (intros; contradiction); auto.
  - intros t. unfold tinv. destruct t; cbn; repeat split; auto; try discriminate; try tauto;
      destruct (nth_error (w_progs w) i); cbn; auto; try discriminate; tauto.
  - intros t g id ret. destruct t; try discriminate. destruct (nth_error (w_progs w) i); discriminate.
  - repeat split; constructor.
  - intros. lia.
Qed.

Theorem Inv_run hm hl w sched : Inv (run (fstep hm hl) (init w) sched).
Proof. apply invariant_run; [apply Inv_init|]. intros s t s'. apply Inv_step. Qed.

