(* Proofs/ClientLineFacts.v — facts about Model/Line.v needed by the composition
   (Proofs/ClientProofs.v): ParseLine's Cmd is upper-cased, so the dispatcher's
   ToLower(name) = ToLower(line.Cmd) lookup finds exactly the handlers of THAT verb.
   Plain-stdlib side (GoBytes imported). *)
From Verif Require Import GoBytes LineLib Line GoBytesFacts.
Open Scope Z_scope.

Lemma upper_byte_idem c : upper_byte (upper_byte c) = upper_byte c.
Proof.
  unfold upper_byte.
  destruct ((97 <=? c)%N && (c <=? 122)%N) eqn:E; [|now rewrite E].
  apply andb_true_iff in E as [E1 E2]. apply N.leb_le in E1. apply N.leb_le in E2.
  destruct ((97 <=? c - 32)%N && (c - 32 <=? 122)%N) eqn:F; [|reflexivity].
  apply andb_true_iff in F as [F1 F2]. apply N.leb_le in F1. lia.
Qed.

Lemma upper_lower_byte c : upper_byte (lower_byte c) = upper_byte c.
Proof.
  unfold upper_byte, lower_byte.
  destruct ((65 <=? c)%N && (c <=? 90)%N) eqn:E.
  - apply andb_true_iff in E as [E1 E2]. apply N.leb_le in E1. apply N.leb_le in E2.
    replace ((97 <=? c + 32)%N && (c + 32 <=? 122)%N) with true
      by (symmetry; apply andb_true_iff; split; apply N.leb_le; lia).
    replace ((97 <=? c)%N && (c <=? 122)%N) with false
      by (symmetry; apply andb_false_iff; left; apply N.leb_gt; lia).
    lia.
  - reflexivity.
Qed.

Lemma to_upper_idem s : to_upper (to_upper s) = to_upper s.
Proof. unfold to_upper. rewrite map_map. apply map_ext. intros c. apply upper_byte_idem. Qed.
Lemma to_upper_lower s : to_upper (to_lower s) = to_upper s.
Proof. unfold to_upper, to_lower. rewrite map_map. apply map_ext. intros c. apply upper_lower_byte. Qed.

(* [upper s]: s is a fixed point of ToUpper (no ASCII lower-case letter) *)
Definition upper (s : bytes) : Prop := to_upper s = s.

(* the dispatcher's lookup on upper-case names is equality *)
Lemma lower_eq_upper v c : upper v -> upper c -> to_lower v = to_lower c -> v = c.
Proof.
  intros Hv Hc H. apply (f_equal to_upper) in H. rewrite !to_upper_lower in H.
  unfold upper in *. congruence.
Qed.

Ltac bd :=
  repeat match goal with
  | H : bind ?r _ = Ok _ |- _ => destruct r eqn:?; cbn [bind] in H; [|discriminate H]
  | H : (if ?b then _ else _) = Ok _ |- _ => destruct b eqn:?
  | H : match ?x with _ => _ end = Ok _ |- _ => destruct x eqn:?
  | H : Ok _ = Ok _ |- _ => inversion H; subst; clear H
  | H : Panic = Ok _ |- _ => discriminate H
  | H : Some _ = Some _ |- _ => inversion H; subst; clear H
  | H : None = Some _ |- _ => discriminate H
  | H : (_, _) = (_, _) |- _ => inversion H; subst; clear H
  end.

Lemma parse_args_stage_upper s cmd largs :
  parse_args_stage fields to_upper s = Ok (Some (cmd, largs)) -> upper cmd.
Proof. unfold parse_args_stage. intros H. bd; apply to_upper_idem. Qed.

Lemma ctcp_rewrite_upper cmd largs c' a' :
  ctcp_rewrite to_upper cmd largs = Ok (c', a') -> upper c'.
Proof.
  unfold ctcp_rewrite. intros H. bd; try apply to_upper_idem; destruct (beq cmd cmd_PRIVMSG); reflexivity.
Qed.

Theorem parse_cmd_upper s l : parse s = Ok (Some l) -> upper (l_cmd l).
Proof.
  unfold parse, parse_with. intros H. bd; cbn [l_cmd fst].
  - destruct p5 as [c' a']. eapply ctcp_rewrite_upper; eassumption.
  - eapply parse_args_stage_upper; eassumption.
Qed.

Theorem recv_one_cmd_upper raw l : recv_one raw = Ok (Some l) -> upper (l_cmd l).
Proof. unfold recv_one, recv_one_with. apply parse_cmd_upper. Qed.

(* Line.Copy() keeps everything the internal handlers read *)
Lemma copy_line_args l : l_args (copy_line l) = l_args l.
Proof. unfold copy_line. cbn. apply map_id. Qed.
Lemma copy_line_cmd l : l_cmd (copy_line l) = l_cmd l. Proof. reflexivity. Qed.
Lemma copy_line_nick l : l_nick (copy_line l) = l_nick l. Proof. reflexivity. Qed.
