(* Proofs/GenEqHandlers.v — stage 2 of the generated-code tie: the Gallina TRANSLATION
   (Gen/GoFuncs.v) of the internal handlers h_PING, h_REGISTER (Model/Register.v), Conn.Me,
   h_NICK, h_433, h_001 (Model/NickHandlers.v) and h_410 is equal to the hand-written models.

   Shape of the statements.  A generated handler takes the receiver / line fields it uses and
   returns, in the res monad, the fields it wrote and the lines it sent; a panic is [Panic] and
   carries nothing.  The hand models return the state as modified so far, the lines sent so far
   and a panic flag.  So:   generated = if the model panicked then Panic else Ok (its state, lines).
   (What was written or sent BEFORE a panic is tied by the differential run only.)

   conn.cfg.Me is an [option] of the tuple (Nick, Ident, Host, Name) on the generated side and
   an [option nickrec] in the models: [nick_tuple] / [nick_untuple] are inverse bijections.
   conn.st is an [option] of an abstract tracker state with a record of the Tracker interface
   methods; the statements hold for EVERY such record whose Me / NickInfo / ReNick are the
   model tracker's (hypotheses of the section, instantiated in the examples). *)
From Verif Require Import GoBytes LineLib GoBytesFacts Line Split Commands NewNick NickHandlers Register.
From Verif Require Import GoFuncs GenEqTac GenEqSplit GenEqLine GenEqCmd.
Open Scope Z_scope.

(* ---------- state.Nick: tuple <-> record ---------- *)
(* the fields of state.Nick that are not modelled (Modes, Channels) are one abstract component of
   the generated tuple; the nick handlers' model has none: it is [unit] here *)
Notation gnick := (@go_state_Nick unit).
Definition nick_tuple (r : nickrec) : gnick := (nk_nick r, nk_ident r, nk_host r, nk_name r, tt).
Definition nick_untuple (t : gnick) : nickrec :=
  let '(a, b, c, d, _) := t in {| nk_nick := a; nk_ident := b; nk_host := c; nk_name := d |}.
Lemma nick_untuple_tuple r : nick_untuple (nick_tuple r) = r.
Proof. destruct r; reflexivity. Qed.
Lemma nick_tuple_untuple t : nick_tuple (nick_untuple t) = t.
Proof. destruct t as [[[[a b] c] d] []]; reflexivity. Qed.
Definition onick (o : option nickrec) : option gnick := option_map nick_tuple o.
Lemma onick_inj a b : onick a = onick b -> a = b.
Proof.
  destruct a as [[a1 a2 a3 a4]|], b as [[b1 b2 b3 b4]|]; cbn; try congruence.
  intros H. inversion H. reflexivity.
Qed.

(* destruct whatever the goal is matching on (not already a constructor) *)
Ltac hd_scrut x :=
  lazymatch x with
  | Some _ => fail | None => fail | Ok _ => fail | Panic => fail
  | (_, _) => fail | true => fail | false => fail | [] => fail | _ :: _ => fail
  | Build_nickrec _ _ _ _ => fail
  | _ => destruct x eqn:?
  end.
Ltac hd_case :=
  match goal with
  | |- context [if ?c then _ else _] => hd_scrut c
  | |- context [match ?x with _ => _ end] => hd_scrut x
  | |- context [bind ?r _] => hd_scrut r
  end.

(* ---------- h_PING, h_REGISTER (C18) ---------- *)
Lemma go_h_PING_eq l :
  go_client_Conn_h_PING (l_args l)
  = if snd (h_PING l) then Panic else Ok (fst (h_PING l)).
Proof.
  go_unfold go_client_Conn_h_PING. unfold h_PING, cmd_lines. cbv zeta.
  destruct (elem_at (l_args l) 0) as [tok|]; [|reflexivity]. cbn [bind fst snd].
  rewrite (go_Pong_eq no_cmd_cfg). unfold emit. reflexivity.
Qed.

Lemma go_h_REGISTER_eq c :
  go_client_Conn_h_REGISTER (rc_negotiate c) (onick (rc_me c)) (rc_pass c)
  = if snd (emit_register c) then Panic else Ok (fst (emit_register c)).
Proof.
  go_unfold @go_client_Conn_h_REGISTER. unfold emit_register, cmd_lines. cbv zeta.
  rewrite ?ge_len_pos.
  rewrite (go_Cap_eq no_cmd_cfg), (go_Pass_eq no_cmd_cfg).
  destruct (rc_negotiate c); destruct (negb (beq (rc_pass c) []));
    unfold emit at 1 2, arg; cbn [skipn nth bind app];
    (destruct (rc_me c) as [[n i h nm]|];
       cbn [onick option_map nick_tuple nk_nick nk_ident nk_name bind fst snd
            go_state_Nick_get_Nick go_state_Nick_get_Ident go_state_Nick_get_Name];
       [|reflexivity]);
    rewrite (go_Nick_eq no_cmd_cfg); unfold emit at 1, arg; cbn [nth bind];
    rewrite (go_User_eq no_cmd_cfg); unfold emit, arg; cbn [nth bind app];
    rewrite <- ?app_assoc; reflexivity.
Qed.

(* ---------- h_410 (only evaluates line.Args[1] for the log line) ---------- *)
Lemma go_h_410_eq args : go_client_Conn_h_410 args = (_ <- elem_at args 1 ;; Ok tt).
Proof. reflexivity. Qed.

(* ---------- the nick handlers (C17) ---------- *)
Section NickHandlersTie.
  Variable trk : @go_state_Tracker unit unit tracker.
  Hypothesis Hme : forall t, go_state_Tracker_Me trk t = (t, onick (tk_Me t)).
  Hypothesis Hinfo : forall t n i h nm,
    go_state_Tracker_NickInfo trk t n i h nm
    = (fst (tk_NickInfo t n i h nm), onick (snd (tk_NickInfo t n i h nm))).
  Hypothesis Hrenick : forall t o n,
    go_state_Tracker_ReNick trk t o n = (fst (tk_ReNick t o n), onick (snd (tk_ReNick t o n))).

  (* the generated result for a model outcome *)
  Definition of_hout (r : hout) : res (option gnick * option tracker) :=
    if ho_panic r then Panic else Ok (onick (cfg_me (ho_st r)), c_st (ho_st r)).

  Lemma go_Me_eq s :
    go_client_Conn_Me trk (onick (cfg_me s)) (c_st s)
    = Ok (onick (cfg_me (fst (do_Me s))), c_st (fst (do_Me s)), onick (snd (do_Me s))).
  Proof.
    go_unfold @go_client_Conn_Me. unfold do_Me.
    destruct s as [me [t|]]; cbn [c_st cfg_me go_is_some bind fst snd]; [|reflexivity].
    rewrite Hme. reflexivity.
  Qed.

  Lemma go_h_NICK_eq s l :
    (r <- go_client_Conn_h_NICK (onick (cfg_me s)) (c_st s) (l_args l) (l_nick l) ;; Ok (r, c_st s))
    = of_hout (h_NICK s l).
  Proof.
    go_unfold @go_client_Conn_h_NICK. unfold h_NICK, of_hout.
    destruct s as [[[n i h nm]|] [t|]];
      cbn [c_st cfg_me go_is_some negb bind onick option_map nick_tuple nk_nick
           go_state_Nick_get_Nick ho_panic ho_st done panic]; try reflexivity.
    destruct (beq (l_nick l) n); cbn [bind]; [|reflexivity].
    destruct (elem_at (l_args l) 0); reflexivity.
  Qed.

  Ltac nh_crunch :=
    repeat first
      [ progress cbn [bind fst snd c_st cfg_me go_is_some negb onick option_map nick_tuple
                      nk_nick nk_ident nk_host nk_name set_nick set_info
                      go_state_Nick_get_Nick go_state_Nick_get_Name
                      go_state_Nick_set_Nick go_state_Nick_set_Ident go_state_Nick_set_Host
                      ho_panic ho_st done panic user_host_results tk_Me tr_me]
      | rewrite Hrenick | rewrite Hinfo | rewrite Hme
      | match goal with |- context [tk_NickInfo ?a ?b ?c ?d ?e] =>
          destruct (tk_NickInfo a b c d e) as [? ?] eqn:? end
      | match goal with |- context [tk_ReNick ?a ?b ?c] =>
          destruct (tk_ReNick a b c) as [? [?|]] eqn:? end
      | hd_case ];
    try reflexivity; try congruence.

  Lemma go_h_001_eq s l :
    go_client_Conn_h_001 trk (onick (cfg_me s)) (c_st s) (l_args l) (l_cmd l) (l_nick l)
    = of_hout (h_001 s l).
  Proof.
    go_unfold @go_client_Conn_h_001. rewrite go_Me_eq. cbn [bind]. cbv beta iota zeta.
    rewrite go_Line_Target_eq, go_Line_Text_eq.
    unfold h_001, h_001_with, welcome_pre, of_hout, renick_keep, do_Me, s_space.
    destruct (target l) as [nick|]; [|destruct s as [? [?|]]; reflexivity]. cbn [bind].
    destruct (text l) as [t|]; [|destruct s as [? [?|]]; reflexivity]. cbn [bind].
    cbv zeta.
    destruct (negb (last_index t [32%N] =? -1));
      [destruct (slice_from t (last_index t [32%N] + 1)) as [t'|];
         [|destruct s as [? [?|]]; reflexivity]|];
      cbn [bind]; rewrite go_parseUserHost_eq; unfold parse_user_host;
      (destruct (parse_user_host_with trim_space _) as [[[[? ?] ?]|]|];
         [| |destruct s as [? [?|]]; reflexivity]);
      destruct s as [[[n i h nm]|] [tr|]]; timeout 60 nh_crunch.
  Qed.

  Section With433.
    Variable new_nick : bytes -> bytes.
    Definition of_hout_out (r : hout) : res (option gnick * option tracker * list bytes) :=
      if ho_panic r then Panic else Ok (onick (cfg_me (ho_st r)), c_st (ho_st r), ho_out r).

    Lemma go_h_433_eq s l :
      go_client_Conn_h_433 trk (onick (cfg_me s)) new_nick (c_st s) (l_args l)
      = of_hout_out (h_433 new_nick s l).
    Proof.
      go_unfold @go_client_Conn_h_433. rewrite go_Me_eq. cbn [bind]. cbv beta iota zeta.
      unfold h_433, h_433_with, of_hout_out, renick_keep, do_Me, nick_lines, argslen.
      destruct (elem_at (l_args l) 1) as [a1|]; [|destruct s as [? [?|]]; reflexivity]. cbn [bind].
      rewrite (go_Nick_eq {| cc_split_len := 0; cc_quit_message := [] |}).
      go_unfold go_client_Line_argslen.
      destruct (emit to_upper MNick _ _) as [ls|] eqn:Hemit;
        [|unfold emit in Hemit; discriminate].
      cbn [bind app].
      destruct (llen (l_args l) <=? 1); cbn [bind negb];
        destruct s as [[[n i h nm]|] [tr|]]; timeout 60 nh_crunch.
    Qed.
  End With433.
End NickHandlersTie.

(* ---------- the hypotheses are satisfiable: the model tracker as a Tracker record ----------
   (the methods the nick handlers never call are filled with functions that do nothing) *)
Definition lift_nick (r : tracker * option nickrec) : tracker * option gnick :=
  (fst r, onick (snd r)).
Definition nh_tracker : @go_state_Tracker unit unit tracker :=
  {| go_state_Tracker_Associate := fun t _ _ => (t, None);
     go_state_Tracker_ChannelModes := fun t _ _ _ => (t, None);
     go_state_Tracker_DelChannel := fun t _ => (t, None);
     go_state_Tracker_DelNick := fun t n => lift_nick (tk_DelNick t n);
     go_state_Tracker_Dissociate := fun t _ _ => t;
     go_state_Tracker_GetChannel := fun t _ => (t, None);
     go_state_Tracker_GetNick := fun t _ => (t, None);
     go_state_Tracker_IsOn := fun t _ _ => (t, (None, false));
     go_state_Tracker_Me := fun t => (t, onick (tk_Me t));
     go_state_Tracker_NewChannel := fun t _ => (t, None);
     go_state_Tracker_NewNick := fun t n => lift_nick (tk_NewNick t n);
     go_state_Tracker_NickInfo := fun t n i h nm => lift_nick (tk_NickInfo t n i h nm);
     go_state_Tracker_NickModes := fun t _ _ => (t, None);
     go_state_Tracker_ReNick := fun t o n => lift_nick (tk_ReNick t o n);
     go_state_Tracker_String := fun t => (t, []);
     go_state_Tracker_Topic := fun t _ _ => (t, None);
     go_state_Tracker_Wipe := fun t => t |}.

Lemma nh_tracker_ok :
  (forall t, go_state_Tracker_Me nh_tracker t = (t, onick (tk_Me t)))
  /\ (forall t n i h nm, go_state_Tracker_NickInfo nh_tracker t n i h nm
        = (fst (tk_NickInfo t n i h nm), onick (snd (tk_NickInfo t n i h nm))))
  /\ (forall t o n, go_state_Tracker_ReNick nh_tracker t o n
        = (fst (tk_ReNick t o n), onick (snd (tk_ReNick t o n)))).
Proof. repeat split. Qed.
