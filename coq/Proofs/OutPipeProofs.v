(* Proofs/OutPipeProofs.v — C09: for EVERY schedule, what is on the wire, in flight and
   queued is an order-preserving interleaving of what the senders issued. *)
From Coq Require Import List Arith Bool Lia Permutation.
From Verif Require Import GoBytes GoBytesFacts Lts OutPipe.
Import ListNotations.
Local Open Scope nat_scope.

Section Shuffle.
  Variable A : Type.

  (* [shuffle ls l]: l is an interleaving of the lists ls that keeps each list's order *)
  Inductive shuffle : list (list A) -> list A -> Prop :=
  | sh_nil ls : Forall (fun l => l = []) ls -> shuffle ls []
  | sh_cons ls i x rest l :
      nth_error ls i = Some (x :: rest) -> shuffle (upd ls i rest) l -> shuffle ls (x :: l).

  Lemma upd_length {B} (l : list B) i x : length (upd l i x) = length l.
  Proof. revert i; induction l as [|y l IH]; intros [|i]; simpl; auto. Qed.

  Lemma nth_error_upd_same {B} (l : list B) i x y :
    nth_error l i = Some y -> nth_error (upd l i x) i = Some x.
  Proof. revert i; induction l as [|z l IH]; intros [|i]; simpl; try discriminate; auto. Qed.

  Lemma nth_error_upd_other {B} (l : list B) i j x :
    i <> j -> nth_error (upd l i x) j = nth_error l j.
  Proof.
    revert i j; induction l as [|z l IH]; intros [|i] [|j] H; simpl; auto; try congruence.
  Qed.

  Lemma upd_upd_same {B} (l : list B) i x y : upd (upd l i x) i y = upd l i y.
  Proof. revert i; induction l as [|z l IH]; intros [|i]; simpl; auto. now rewrite IH. Qed.

  Lemma upd_upd_comm {B} (l : list B) i j x y :
    i <> j -> upd (upd l i x) j y = upd (upd l j y) i x.
  Proof.
    revert i j; induction l as [|z l IH]; intros [|i] [|j] H; simpl; auto; try congruence.
    rewrite IH; auto.
  Qed.

  Variable cap : nat.
  Notation st := (ost A).
  Notation step := (ostep A cap).

  (* continuation-style invariant: whatever the senders still do, the whole is a shuffle *)
  Definition Inv (orig : list (list A)) (s : st) : Prop :=
    forall R, shuffle (todo s) R ->
              shuffle orig (wire s ++ opt_list A (infl s) ++ outq s ++ R).

  Lemma Inv_init orig : Inv orig (oinit A orig).
  Proof. intros R H. exact H. Qed.

  Lemma Inv_step orig s t s' : Inv orig s -> step s t = Some s' -> Inv orig s'.
  Proof.
    intros HI Hs R HR. destruct t as [|i]; cbn [ostep] in Hs.
    - destruct (infl s) as [l|] eqn:Ei.
      + inversion Hs; subst s'; clear Hs. cbn [todo wire infl outq opt_list] in *.
        specialize (HI R HR). rewrite Ei in HI. cbn [opt_list] in HI.
        rewrite <- app_assoc. exact HI.
      + destruct (outq s) as [|l q] eqn:Eq; [discriminate|].
        inversion Hs; subst s'; clear Hs. cbn [todo wire infl outq opt_list] in *.
        specialize (HI R HR). rewrite Ei, Eq in HI. exact HI.
    - destruct (nth_error (todo s) i) as [[|l rest]|] eqn:En; try discriminate.
      destruct (Nat.ltb (length (outq s)) cap); [|discriminate].
      inversion Hs; subst s'; clear Hs. cbn [todo wire infl outq opt_list] in *.
      assert (HR' : shuffle (todo s) (l :: R)) by (eapply sh_cons; eauto).
      specialize (HI _ HR').
      rewrite <- (app_assoc (outq s)). exact HI.
  Qed.

  Theorem pipeline_invariant orig sched : Inv orig (run step (oinit A orig) sched).
  Proof. apply invariant_run; [apply Inv_init|]. intros s t s'. apply Inv_step. Qed.

  (* when every sender has issued everything: wire ++ in flight ++ queue is a shuffle *)
  Corollary pipeline_all_issued orig sched :
    let s := run step (oinit A orig) sched in
    Forall (fun l => l = []) (todo s) ->
    shuffle orig (wire s ++ opt_list A (infl s) ++ outq s).
  Proof.
    intros s H. pose proof (pipeline_invariant orig sched [] (sh_nil _ H)) as HI.
    fold s in HI. now rewrite app_nil_r in HI.
  Qed.

  Corollary pipeline_quiescent orig sched :
    let s := run step (oinit A orig) sched in
    quiescent A s -> shuffle orig (wire s).
  Proof.
    intros s (H1 & H2 & H3). pose proof (pipeline_all_issued orig sched H1) as H.
    fold s in H. rewrite H2, H3 in H. cbn in H. now rewrite app_nil_r in H.
  Qed.

  (* a shuffle exists for any remaining work: the senders can always be run to completion *)
  Lemma shuffle_exists ls : exists R, shuffle ls R.
  Proof.
    remember (length (concat ls)) as n eqn:Hn. revert ls Hn.
    induction n as [|n IH]; intros ls Hn.
    - exists []. apply sh_nil. apply Forall_forall. intros l Hl.
      destruct l as [|x l]; [reflexivity|exfalso].
      apply in_split in Hl as (a & b & ->). rewrite concat_app in Hn. cbn in Hn.
      rewrite app_length in Hn. simpl in Hn. lia.
    - assert (Hex : exists i x rest, nth_error ls i = Some (x :: rest)).
      { clear IH. induction ls as [|l ls IHl]; [simpl in Hn; lia|].
        destruct l as [|x rest].
        - simpl in Hn. destruct (IHl Hn) as (i & x & rest & H). exists (S i), x, rest. exact H.
        - exists 0, x, rest. reflexivity. }
      destruct Hex as (i & x & rest & Hi).
      destruct (IH (upd ls i rest)) as [R HR].
      { clear IH. revert i Hi Hn. induction ls as [|l ls IHl]; intros [|i] Hi Hn; simpl in *; try discriminate.
        - inversion Hi; subst. simpl in Hn. rewrite !app_length in *. simpl in Hn. lia.
        - rewrite !app_length in *. specialize (IHl i Hi).
          assert (length (concat ls) = S (length (concat (upd ls i rest)))).
          { clear IHl Hn. revert i Hi. induction ls as [|l' ls IH2]; intros [|i] Hi; simpl in *; try discriminate.
            - inversion Hi; subst. simpl. rewrite !app_length. simpl. lia.
            - rewrite !app_length. rewrite (IH2 i Hi). lia. }
          lia. }
      exists (x :: R). eapply sh_cons; eauto.
  Qed.

  (* every prefix property: the wire is always the beginning of some shuffle of the issue lists *)
  Corollary pipeline_wire_prefix orig sched :
    let s := run step (oinit A orig) sched in
    exists rest, shuffle orig (wire s ++ rest).
  Proof.
    intros s. destruct (shuffle_exists (todo s)) as [R HR].
    exists (opt_list A (infl s) ++ outq s ++ R). apply (pipeline_invariant orig sched R HR).
  Qed.
End Shuffle.

(* ---------- consequences for tagged lines: per-sender order, exactly once ---------- *)
Section Tagged.
  (* sender i issues lines i_1, i_2, ...; on the wire they carry the tag i *)
  Definition tag_lines (issued : list (list bytes)) : list (list tagged) :=
    map (fun p => map (fun l => (fst p, l)) (snd p)) (combine (seq 0 (length issued)) issued).

  Lemma lines_eqb_refl l : lines_eqb l l = true.
  Proof. induction l as [|x l IH]; simpl; [reflexivity|]. now rewrite beq_refl, IH. Qed.

  Definition tags_ok (ls : list (list tagged)) : Prop :=
    forall i l x, nth_error ls i = Some l -> In x l -> fst x = i.

  Lemma tags_ok_upd ls i x rest :
    tags_ok ls -> nth_error ls i = Some (x :: rest) -> tags_ok (upd ls i rest).
  Proof.
    intros H Hi j l y Hj Hy. destruct (Nat.eq_dec i j) as [<-|Hne].
    - rewrite (nth_error_upd_same _ _ _ _ Hi) in Hj. inversion Hj; subst.
      eapply H; eauto. right; exact Hy.
    - rewrite nth_error_upd_other in Hj by exact Hne. eapply H; eauto.
  Qed.

  Lemma of_sender_cons_same i l w : of_sender i ((i, l) :: w) = l :: of_sender i w.
  Proof. unfold of_sender. simpl. now rewrite Nat.eqb_refl. Qed.

  Lemma of_sender_cons_other i j l w : i <> j -> of_sender i ((j, l) :: w) = of_sender i w.
  Proof.
    intros H. unfold of_sender. simpl.
    destruct (Nat.eqb j i) eqn:E; [apply Nat.eqb_eq in E; congruence|reflexivity].
  Qed.

  (* in a shuffle of correctly tagged lists, the lines of sender i are exactly list i, in order *)
  Lemma shuffle_of_sender ls w :
    shuffle tagged ls w -> tags_ok ls ->
    forall i, of_sender i w = map snd (nth i ls []) /\ (forall x, In x w -> fst x < length ls).
  Proof.
    induction 1 as [ls Hall|ls j x rest l Hj Hsh IH]; intros Hok i.
    - split; [|intros x []]. unfold of_sender. simpl.
      destruct (nth_error ls i) as [li|] eqn:E.
      + rewrite (nth_error_nth _ _ _ E). rewrite Forall_forall in Hall.
        rewrite (Hall li (nth_error_In _ _ E)). reflexivity.
      + rewrite nth_overflow by (apply nth_error_None; exact E). reflexivity.
    - pose proof (tags_ok_upd _ _ _ _ Hok Hj) as Hok'.
      destruct (IH Hok' i) as [IH1 IH2].
      assert (Hx : fst x = j) by (eapply Hok; [exact Hj|left; reflexivity]).
      assert (Hjlt : j < length ls) by (apply nth_error_Some; congruence).
      split.
      + destruct x as [t l0]. simpl in Hx. subst t.
        destruct (Nat.eq_dec i j) as [->|Hne].
        * rewrite of_sender_cons_same, IH1.
          rewrite (nth_error_nth _ _ _ (nth_error_upd_same _ _ _ _ Hj)).
          rewrite (nth_error_nth _ _ _ Hj). reflexivity.
        * rewrite of_sender_cons_other by exact Hne. rewrite IH1.
          f_equal. destruct (nth_error ls i) as [li|] eqn:E.
          -- rewrite (nth_error_nth _ _ _ E).
             assert (E' : nth_error (upd ls j rest) i = Some li)
               by (rewrite nth_error_upd_other; auto).
             now rewrite (nth_error_nth _ _ _ E').
          -- rewrite !nth_overflow; auto.
             ++ apply nth_error_None; exact E.
             ++ rewrite upd_length. apply nth_error_None; exact E.
      + intros y [<-|Hy]; [lia|]. specialize (IH2 y Hy). now rewrite upd_length in IH2.
  Qed.

  Lemma tag_lines_length issued : length (tag_lines issued) = length issued.
  Proof. unfold tag_lines. rewrite map_length, combine_length, seq_length. lia. Qed.

  Lemma tag_lines_nth issued i :
    nth_error (tag_lines issued) i =
    option_map (fun ls => map (fun l => (i, l)) ls) (nth_error issued i).
  Proof.
    unfold tag_lines.
    assert (G : forall k l i, nth_error (map (fun p : nat * list bytes => map (fun l0 => (fst p, l0)) (snd p))
                                     (combine (seq k (length l)) l)) i
                        = option_map (fun ls => map (fun l0 => (k + i, l0)) ls) (nth_error l i)).
    { intros k l. revert k. induction l as [|x l IH]; intros k [|j]; simpl; auto.
      - now rewrite Nat.add_0_r.
      - rewrite IH. destruct (nth_error l j); simpl; [|reflexivity]. f_equal.
        apply map_ext. intros. f_equal. lia. }
    apply (G 0).
  Qed.

  Lemma tag_lines_ok issued : tags_ok (tag_lines issued).
  Proof.
    intros i l x Hi Hx. rewrite tag_lines_nth in Hi.
    destruct (nth_error issued i) as [ls|]; [|discriminate]. simpl in Hi. inversion Hi; subst.
    apply in_map_iff in Hx as (y & <- & _). reflexivity.
  Qed.

  Lemma tag_lines_untag issued i : map snd (nth i (tag_lines issued) []) = nth i issued [].
  Proof.
    destruct (nth_error issued i) as [ls|] eqn:E.
    - assert (E' := tag_lines_nth issued i). rewrite E in E'. simpl in E'.
      rewrite (nth_error_nth _ _ _ E'), (nth_error_nth _ _ _ E).
      rewrite map_map. simpl. apply map_id.
    - rewrite !nth_overflow; auto.
      + apply nth_error_None; exact E.
      + rewrite tag_lines_length. apply nth_error_None; exact E.
  Qed.

  (* the model satisfies the property predicate at every quiescent state, for every schedule *)
  Theorem C09_model cap issued sched :
    let s := run (ostep tagged cap) (oinit tagged (tag_lines issued)) sched in
    quiescent tagged s -> C09_ok issued (wire s) = true.
  Proof.
    intros s Hq. pose proof (pipeline_quiescent tagged cap (tag_lines issued) sched Hq) as Hsh.
    fold s in Hsh. unfold C09_ok. apply andb_true_iff. split.
    - apply forallb_forall. intros x Hx. apply Nat.ltb_lt.
      destruct (shuffle_of_sender _ _ Hsh (tag_lines_ok issued) 0) as [_ H].
      specialize (H x Hx). now rewrite tag_lines_length in H.
    - apply forallb_forall. intros i _.
      destruct (shuffle_of_sender _ _ Hsh (tag_lines_ok issued) i) as [H _].
      rewrite H, tag_lines_untag. apply lines_eqb_refl.
  Qed.

  (* at EVERY state (not only quiescent ones): no loss so far, no duplicate, no invention,
     per-sender order — the lines of sender i on the wire are a prefix of what it issued *)
  Theorem C09_prefix cap issued sched i :
    let s := run (ostep tagged cap) (oinit tagged (tag_lines issued)) sched in
    exists later, of_sender i (wire s) ++ later = nth i issued []
                  /\ (forall x, In x (wire s) -> fst x < length issued).
  Proof.
    intros s. destruct (pipeline_wire_prefix tagged cap (tag_lines issued) sched) as [rest Hsh].
    fold s in Hsh.
    destruct (shuffle_of_sender _ _ Hsh (tag_lines_ok issued) i) as [H1 H2].
    exists (of_sender i rest). split.
    - rewrite <- tag_lines_untag, <- H1. unfold of_sender. now rewrite filter_app, map_app.
    - intros x Hx. rewrite <- (tag_lines_length issued). apply H2. apply in_or_app; left; exact Hx.
  Qed.
End Tagged.

(* what C09_ok says, read back: exactly the issued lines, once each (as a permutation), and
   per-sender order *)
Lemma lines_eqb_eq a b : lines_eqb a b = true -> a = b.
Proof.
  revert b; induction a as [|x a IH]; intros [|y b]; simpl; try discriminate; auto.
  intros H. apply andb_true_iff in H as [H1 H2]. apply beq_eq in H1. subst. f_equal. auto.
Qed.

Theorem C09_ok_meaning issued w :
  C09_ok issued w = true ->
  (forall i, i < length issued -> of_sender i w = nth i issued [])
  /\ (forall x, In x w -> fst x < length issued).
Proof.
  unfold C09_ok. intros H. apply andb_true_iff in H as [H1 H2]. split.
  - intros i Hi. rewrite forallb_forall in H2. apply lines_eqb_eq, H2. apply in_seq. lia.
  - intros x Hx. rewrite forallb_forall in H1. apply Nat.ltb_lt, H1, Hx.
Qed.
