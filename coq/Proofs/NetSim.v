(* Proofs/NetSim.v — C13: what the tracker does with each line a conformant server sends
   ([LineSend.expected] of the messages built by Model/Net.v's [mk]), line by line. *)
From Verif Require Import TrackerSpec TrackerSpecFacts StateHandlers Net NetObs NetProofs NetHandlers.
From Verif Require GoBytes LineLib Line LineSend LineSendFacts.
Open Scope Z_scope.

Definition src_nick (s : LineSend.source) : bytes :=
  match s with LineSend.SrcUser n _ _ => n | LineSend.SrcServer _ => [] end.
Definition src_ident (s : LineSend.source) : bytes :=
  match s with LineSend.SrcUser _ u _ => u | LineSend.SrcServer _ => [] end.
Definition src_host (s : LineSend.source) : bytes :=
  match s with LineSend.SrcUser _ _ h => h | LineSend.SrcServer n => n end.
Definition opt_list {A} (o : option A) : list A := match o with Some x => [x] | None => [] end.

Lemma map_snd_mids (mids : list bytes) : map snd (map (fun p : bytes => (0%nat, p)) mids) = mids.
Proof. induction mids as [|x r IH]; [done|]. simpl. by rewrite IH. Qed.

Lemma expected_mk src verb mids tr :
  LineSend.is_msg_cmd (GoBytes.to_upper verb) = false ->
  let l := LineSend.expected (mk src verb mids tr) in
  Line.l_cmd l = GoBytes.to_upper verb
  /\ Line.l_args l = mids ++ opt_list tr
  /\ Line.l_nick l = src_nick src /\ Line.l_ident l = src_ident src /\ Line.l_host l = src_host src.
Proof.
  intros H. unfold LineSend.expected, mk, LineSend.msg_args, LineSend.exp_ctcp. simpl.
  rewrite H, map_snd_mids. destruct src, tr; simpl; done.
Qed.

Lemma step_line_verb t l h :
  find_sth GoBytes.to_lower (Line.l_cmd l) = Some h -> step_line t l = h_trk (hres_st (sth_run h l (st0 t))).
Proof. intros H. unfold step_line. by rewrite (handle_verb t l h H). Qed.

Ltac verb_line src verb mids tr h :=
  let Ec := fresh "Ec" in let Ea := fresh "Ea" in let En := fresh "En" in
  let Ei := fresh "Ei" in let Eh := fresh "Eh" in
  destruct (expected_mk src verb mids tr eq_refl) as (Ec & Ea & En & Ei & Eh);
  rewrite (step_line_verb _ _ h) by (rewrite Ec; reflexivity); cbn [sth_run].

(* ---------- one lemma per kind of line ---------- *)
Lemma line_PART t src c msg :
  step_line t (LineSend.expected (mk src v_PART [c] (Some msg))) = sp_Dissociate t c (src_nick src).
Proof. verb_line src v_PART [c] (Some msg) StPART. rewrite (h_PART_spec _ _ c [msg]) by (by rewrite Ea). simpl. by rewrite En. Qed.

Lemma line_KICK t src c v msg :
  step_line t (LineSend.expected (mk src v_KICK [c; v] (Some msg))) = sp_Dissociate t c v.
Proof. verb_line src v_KICK [c; v] (Some msg) StKICK. by rewrite (h_KICK_spec _ _ c v [msg]) by (by rewrite Ea). Qed.

Lemma line_QUIT t src msg :
  step_line t (LineSend.expected (mk src v_QUIT [] (Some msg))) = fst (sp_DelNick t (src_nick src)).
Proof. verb_line src v_QUIT (@nil bytes) (Some msg) StQUIT. unfold h_QUIT. simpl. by rewrite En. Qed.

Lemma line_NICK t src w :
  step_line t (LineSend.expected (mk src v_NICK [w] None)) = fst (sp_ReNick t (src_nick src) w).
Proof. verb_line src v_NICK [w] (@None bytes) StNICK. rewrite (h_STNICK_spec _ _ w []) by (by rewrite Ea). simpl. by rewrite En. Qed.

Lemma topic_view t c tp :
  h_trk (if is_some (snd (sp_GetChannel (h_trk (st0 t)) c)) then tr_ (st0 t) (fun t0 => sp_Topic t0 c tp) else st0 t)
  = v_topic t c tp.
Proof.
  unfold v_topic, sp_GetChannel, chan_snapshot, tr_, tr, st0, sp_Topic. simpl.
  destruct (ts_chans t !! c); done.
Qed.

Lemma line_TOPIC t src c tp :
  step_line t (LineSend.expected (mk src v_TOPIC [c] (Some tp))) = v_topic t c tp.
Proof.
  verb_line src v_TOPIC [c] (Some tp) StTOPIC. rewrite (h_TOPIC_spec _ _ c tp []) by (by rewrite Ea).
  apply topic_view.
Qed.

Lemma line_332 t src me c tp :
  step_line t (LineSend.expected (mk src v_332 [me; c] (Some tp))) = v_topic t c tp.
Proof.
  verb_line src v_332 [me; c] (Some tp) St332. rewrite (h_332_spec _ _ me c tp []) by (by rewrite Ea).
  apply topic_view.
Qed.

(* lines no state handler is registered for *)
Lemma line_other t src verb mids tr :
  LineSend.is_msg_cmd (GoBytes.to_upper verb) = false ->
  find_sth GoBytes.to_lower (GoBytes.to_upper verb) = None ->
  step_line t (LineSend.expected (mk src verb mids tr)) = t.
Proof.
  intros H1 H2. destruct (expected_mk src verb mids tr H1) as (Ec & _).
  unfold step_line, handle_state, handle_state_with. by rewrite Ec, H2.
Qed.
Lemma line_366 t src mids tr : step_line t (LineSend.expected (mk src v_366 mids tr)) = t.
Proof. by apply line_other. Qed.
Lemma line_315 t src mids tr : step_line t (LineSend.expected (mk src v_315 mids tr)) = t.
Proof. by apply line_other. Qed.

(* MODE on a tracked channel / 324: the tracker's own parser on the string and arguments *)
Lemma line_MODE t src c ms args :
  is_Some (ts_chans t !! c) ->
  step_line t (LineSend.expected (mk src v_MODE ([c; ms] ++ args) None)) = fst (sp_ChannelModes t c ms args).
Proof.
  intros Hc. verb_line src v_MODE ([c; ms] ++ args) (@None bytes) StMODE.
  rewrite (h_MODE_chan_spec _ _ c ms args); [done|by rewrite Ea, app_nil_r|].
  apply GetChannel_some. exact Hc.
Qed.
Lemma line_MODE_unknown t src c ms args :
  ts_chans t !! c = None -> ts_nicks t !! c = None ->
  step_line t (LineSend.expected (mk src v_MODE ([c; ms] ++ args) None)) = t.
Proof.
  intros Hc Hn. verb_line src v_MODE ([c; ms] ++ args) (@None bytes) StMODE.
  unfold h_MODE. rewrite (argslen_Z _ 1) by (rewrite Ea; simpl; lia). cbn [negb].
  assert (E : Line.l_args (LineSend.expected (mk src v_MODE ([c; ms] ++ args) None)) = c :: ms :: args ++ [])
    by (by rewrite Ea).
  args_shape E.
  replace (is_some (snd (sp_GetChannel (st0 t).(h_trk) c))) with false
    by (unfold sp_GetChannel, chan_snapshot; simpl; by rewrite Hc).
  args_shape E.
  replace (is_some (snd (sp_GetNick (st0 t).(h_trk) c))) with false
    by (unfold sp_GetNick, nick_snapshot; simpl; by rewrite Hn).
  done.
Qed.

Lemma line_324 t src me c ms args :
  step_line t (LineSend.expected (mk src v_324 ([me; c; ms] ++ args) None))
  = match ts_chans t !! c with Some _ => fst (sp_ChannelModes t c ms args) | None => t end.
Proof.
  verb_line src v_324 ([me; c; ms] ++ args) (@None bytes) St324.
  rewrite (h_324_spec _ _ me c ms args) by (by rewrite Ea, app_nil_r).
  unfold sp_GetChannel, chan_snapshot, tr_, tr, st0. simpl. by destruct (ts_chans t !! c).
Qed.

(* 352 *)
Lemma me_equals_snap t n a :
  ts_nicks t !! n = Some a -> me_equals t (nick_snapshot t n) = bool_decide (n = ts_me t).
Proof.
  intros H. unfold me_equals, sp_Me. simpl. unfold nick_snapshot. rewrite H.
  destruct (decide (n = ts_me t)) as [E|N].
  - rewrite <- E, H. rewrite !bool_decide_eq_true_2; done.
  - rewrite (bool_decide_eq_false_2 (n = ts_me t)) by done.
    destruct (ts_nicks t !! ts_me t); [|done]. apply bool_decide_eq_false_2. intros X. inversion X. congruence.
Qed.

Lemma who_flags_H p :
  (GoBytes.index (72%N :: prefix_bytes p) s_star =? -1) = true
  /\ (GoBytes.index (72%N :: prefix_bytes p) s_B =? -1) = true
  /\ (GoBytes.index (72%N :: prefix_bytes p) s_H =? -1) = false.
Proof. unfold prefix_bytes, highest_letter. destruct (cp_q p), (cp_a p), (cp_o p), (cp_h p), (cp_v p); done. Qed.

Lemma line_352 t src me chan n ui p :
  step_line t (LineSend.expected (mk src v_352 [me; chan; ui_user ui; ui_host ui; srv_name; n; 72%N :: prefix_bytes p]
                                     (Some (48%N :: 32%N :: ui_real ui))))
  = v_reveal_who t n ui.
Proof.
  verb_line src v_352 [me; chan; ui_user ui; ui_host ui; srv_name; n; 72%N :: prefix_bytes p] (Some (48%N :: 32%N :: ui_real ui)) St352.
  rewrite (h_352_spec _ _ me chan (ui_user ui) (ui_host ui) srv_name n (72%N :: prefix_bytes p) (48%N :: 32%N :: ui_real ui) (ui_real ui));
    [|by rewrite Ea|reflexivity].
  unfold v_reveal_who. change (h_trk (st0 t)) with t. unfold sp_GetNick. cbn [snd].
  destruct (ts_nicks t !! n) as [a|] eqn:Ln.
  - assert (Es : nick_snapshot t n = Some {| sn_nick := n; sn_ident := na_ident a; sn_host := na_host a; sn_name := na_name a;
                                            sn_modes := na_modes a; sn_chans := sorted_of_map (chans_of t n) |})
      by (unfold nick_snapshot; by rewrite Ln).
    rewrite Es. rewrite <- Es at 1. rewrite (me_equals_snap t n a Ln).
    case_decide as E; [by rewrite bool_decide_eq_true_2|]. rewrite bool_decide_eq_false_2 by done.
    cbn [sn_nick tru h_trk st0]. unfold who_modes.
    destruct (who_flags_H p) as (F1 & F2 & F3). rewrite F1, F2, F3. cbn [negb].
    cbn [h_trk hres_st tru st0].
    unfold sp_NickInfo. rewrite Ln. cbn [fst]. unfold sp_NickModes. cbn [ts_nicks]. rewrite lookup_insert.
    cbn [fst ts_me ts_nicks ts_chans ts_member na_ident na_host na_name na_modes].
    unfold v_set_nicks. rewrite insert_insert. reflexivity.
  - unfold nick_snapshot. rewrite Ln. by case_decide.
Qed.

(* ---------- 353: one NAMES token = one [v_reveal_name] ---------- *)
Definition name_good (n : name) : Prop := n <> [] /\ first_in n [126;38;64;37;43]%N = false.

Lemma tstate_eta t : {| ts_me := ts_me t; ts_nicks := ts_nicks t; ts_chans := ts_chans t; ts_member := ts_member t |} = t.
Proof. by destruct t. Qed.

Lemma learn_step t n :
  n <> [] -> (if is_some (snd (sp_GetNick t n)) then t else fst (sp_NewNick t n)) = v_learn_nick t n new_nickattr.
Proof.
  intros Hn. unfold sp_GetNick, nick_snapshot, sp_NewNick, v_learn_nick. simpl.
  destruct (ts_nicks t !! n) eqn:L; simpl; [done|]. by destruct n.
Qed.

Lemma assoc_step t cn n :
  chanT t cn -> nickT t n ->
  (if snd (snd (sp_IsOn t cn n)) then t else fst (sp_Associate t cn n))
  = v_set_member t (<[(cn, n) := default no_privs (ts_member t !! (cn, n))]> (ts_member t)).
Proof.
  intros [a Ha] [b Hb]. unfold sp_IsOn, sp_Associate, v_set_member. rewrite Ha, Hb.
  destruct (ts_member t !! (cn, n)) as [p|] eqn:L; simpl.
  - rewrite insert_id by done. by rewrite tstate_eta.
  - done.
Qed.

Lemma learn_step_h s n :
  n <> [] ->
  (if is_some (snd (sp_GetNick (h_trk s) n)) then s else tr_ s (fun t => sp_NewNick t n))
  = {| h_trk := v_learn_nick (h_trk s) n new_nickattr; h_out := h_out s |}.
Proof.
  intros Hn. rewrite <- (learn_step _ n Hn). destruct s as [t out]. unfold tr_, tr. simpl.
  by destruct (is_some _).
Qed.
Lemma assoc_step_h s cn n :
  chanT (h_trk s) cn -> nickT (h_trk s) n ->
  (if snd (snd (sp_IsOn (h_trk s) cn n)) then s else tr_ s (fun t => sp_Associate t cn n))
  = {| h_trk := v_set_member (h_trk s) (<[(cn, n) := default no_privs (ts_member (h_trk s) !! (cn, n))]> (ts_member (h_trk s)));
       h_out := h_out s |}.
Proof.
  intros Hc Hn. rewrite <- (assoc_step _ cn n Hc Hn). destruct s as [t out]. unfold tr_, tr. simpl.
  by destruct (snd (snd _)).
Qed.

Lemma priv_letter_cases p x : highest_letter p = Some x ->
  x = 113%N \/ x = 97%N \/ x = 111%N \/ x = 104%N \/ x = 118%N.
Proof. unfold highest_letter. destruct (cp_q p), (cp_a p), (cp_o p), (cp_h p), (cp_v p); intros H; inversion H; auto. Qed.

Lemma mode_step t cn x n p0 a :
  ts_chans t !! cn = Some a -> ts_member t !! (cn, n) = Some p0 ->
  x = 113%N \/ x = 97%N \/ x = 111%N \/ x = 104%N \/ x = 118%N ->
  fst (sp_ChannelModes t cn [43%N; x] [n])
  = v_set_member t (<[(cn, n) := default p0 (priv_char x true p0)]> (ts_member t)).
Proof.
  intros Ha Hp Hx. unfold sp_ChannelModes. rewrite Ha. unfold chan_parse_modes.
  assert (E : fold_left (chan_parse_char cn) [43%N; x] (Build_pstate false [n] (ca_modes a) (ts_member t))
              = Build_pstate true [] (ca_modes a) (<[(cn, n) := default p0 (priv_char x true p0)]> (ts_member t))).
  { destruct Hx as [->|[->|[->|[-> | ->]]]]; simpl; unfold chan_parse_char; simpl; rewrite Hp; reflexivity. }
  rewrite E. simpl. unfold v_set_member. f_equal. destruct a. simpl. by apply insert_id.
Qed.

Lemma slice_from_1 (c : N) (n : bytes) : GoBytes.slice_from (c :: n) 1 = GoBytes.Ok n.
Proof.
  unfold GoBytes.slice_from, GoBytes.len.
  replace ((0 <=? 1) && (1 <=? Z.of_nat (length (c :: n)))) with true; [done|].
  symmetry. apply andb_true_intro. split; [done|]. apply Z.leb_le. simpl length. lia.
Qed.
Lemma byte_at_0 (c : N) (n : bytes) : GoBytes.byte_at (c :: n) 0 = GoBytes.Ok c.
Proof.
  unfold GoBytes.byte_at, GoBytes.len.
  replace ((0 <=? 0) && (0 <? Z.of_nat (length (c :: n)))) with true; [done|].
  symmetry. apply andb_true_intro. split; [done|]. apply Z.ltb_lt. simpl length. lia.
Qed.

Lemma learn_chans t n a : ts_chans (v_learn_nick t n a) = ts_chans t.
Proof. unfold v_learn_nick. by destruct (ts_nicks t !! n). Qed.
Lemma learn_member t n a : ts_member (v_learn_nick t n a) = ts_member t.
Proof. unfold v_learn_nick. by destruct (ts_nicks t !! n). Qed.
Lemma learn_known t n a : nickT (v_learn_nick t n a) n.
Proof.
  unfold v_learn_nick, nickT. destruct (ts_nicks t !! n) eqn:L; [rewrite L; eauto|]. simpl. rewrite lookup_insert; eauto.
Qed.

Lemma names_step_reveal cn s e :
  chanT (h_trk s) cn -> name_good (fst e) ->
  names_step cn (name_token e) s = HOk {| h_trk := v_reveal_name cn (h_trk s) e; h_out := h_out s |}.
Proof.
  intros Hc [Hne Hfirst]. destruct e as [n p]. cbn [fst snd] in Hne, Hfirst.
  unfold name_token, prefix_bytes, v_reveal_name. cbn [fst snd].
  pose proof (learn_known (h_trk s) n new_nickattr) as Hk.
  assert (Hc1 : chanT (v_learn_nick (h_trk s) n new_nickattr) cn) by (unfold chanT; by rewrite learn_chans).
  set (s1 := {| h_trk := v_learn_nick (h_trk s) n new_nickattr; h_out := h_out s |}).
  destruct (highest_letter p) as [x|] eqn:Hx.
  - (* a prefix: stripped, then "+x nick" *)
    pose proof (priv_letter_cases p x Hx) as Cx.
    unfold names_step. cbn [app].
    replace (GoBytes.beq (prefix_of_letter x :: n) []) with false by done.
    rewrite byte_at_0. cbn [pget].
    assert (Pm : prefix_mode (prefix_of_letter x) = Some [43%N; x])
      by (destruct Cx as [->|[->|[->|[-> | ->]]]]; reflexivity).
    rewrite Pm. cbn [is_some]. rewrite slice_from_1. cbn [pget]. cbv zeta.
    rewrite (learn_step_h s n Hne). fold s1.
    rewrite (assoc_step_h s1 cn n Hc1 Hk). cbn [h_trk h_out s1].
    set (t1 := v_learn_nick (h_trk s) n new_nickattr) in *.
    set (p0 := default no_privs (ts_member t1 !! (cn, n))).
    destruct Hc1 as [a Ha].
    unfold tr_, tr. cbn [h_trk h_out fst].
    rewrite (mode_step _ cn x n p0 a); [|exact Ha|simpl; by rewrite lookup_insert|exact Cx].
    f_equal. f_equal. unfold v_set_member. simpl. rewrite insert_insert.
    unfold with_highest. rewrite Hx. by destruct (priv_char x true p0).
  - (* no prefix *)
    unfold names_step. cbn [app].
    destruct n as [|c0 n']; [done|].
    replace (GoBytes.beq (c0 :: n') []) with false by done.
    rewrite byte_at_0. cbn [pget].
    assert (Pm : prefix_mode c0 = None).
    { simpl in Hfirst. unfold GoBytes.mem_byte in Hfirst. simpl in Hfirst.
      rewrite !orb_false_iff, !N.eqb_neq in Hfirst. destruct Hfirst as (H1 & H2 & H3 & H4 & H5 & _).
      unfold prefix_mode. destruct c0 as [|q]; [done|].
      do 7 (destruct q as [q|q|]; try done). }
    rewrite Pm. cbn [is_some pget]. cbv zeta.
    rewrite (learn_step_h s (c0 :: n') Hne). fold s1.
    rewrite (assoc_step_h s1 cn (c0 :: n') Hc1 Hk).
    cbn [h_trk h_out s1]. f_equal. f_equal. unfold with_highest. by rewrite Hx.
Qed.

Lemma reveal_chans cn t e : ts_chans (v_reveal_name cn t e) = ts_chans t.
Proof. unfold v_reveal_name. simpl. by rewrite learn_chans. Qed.

Lemma names_loop_reveal cn es : forall s,
  chanT (h_trk s) cn -> Forall (fun e => name_good (fst e)) es ->
  names_loop cn (map name_token es) s
  = HOk {| h_trk := fold_left (v_reveal_name cn) es (h_trk s); h_out := h_out s |}.
Proof.
  induction es as [|e r IH]; intros s Hc Hg; [by destruct s|].
  inversion Hg as [|? ? Hg1 Hg2]; subst. simpl. rewrite names_step_reveal by done.
  rewrite IH; [done| |done]. simpl. unfold chanT. by rewrite reveal_chans.
Qed.

Lemma name_token_nospace e : ~ In 32%N (fst e) -> ~ In 32%N (name_token e).
Proof.
  intros H. unfold name_token, prefix_bytes. destruct (highest_letter (snd e)) as [x|] eqn:Hx; [|done].
  simpl. intros [E|E]; [|done]. destruct (priv_letter_cases _ _ Hx) as [->|[->|[->|[-> | ->]]]]; done.
Qed.

Lemma line_353 t me c es :
  es <> [] -> Forall (fun e => name_good (fst e) /\ ~ In 32%N (fst e)) es ->
  step_line t (LineSend.expected (names_msg me c es))
  = match ts_chans t !! c with Some _ => fold_left (v_reveal_name c) es t | None => t end.
Proof.
  intros Hne Hg. unfold names_msg.
  verb_line srv v_353 [me; s_eqsym; c] (Some (GoBytes.join (map name_token es) [32%N])) St353.
  rewrite (h_353_spec _ _ me s_eqsym c (GoBytes.join (map name_token es) [32%N])) by (by rewrite Ea).
  unfold sp_GetChannel, chan_snapshot. cbn [snd h_trk st0].
  destruct (ts_chans t !! c) as [a|] eqn:L; [|done]. cbn [sc_name].
  rewrite LineSendFacts.split_byte_join.
  - rewrite names_loop_reveal; [done|unfold chanT; simpl; rewrite L; eauto|].
    eapply Forall_impl; [exact Hg|]. by intros e [? ?].
  - destruct es; [done|]. done.
  - rewrite List.Forall_map. rewrite List.Forall_forall. intros e He.
    rewrite Forall_forall in Hg. apply name_token_nospace. apply (Hg e). by apply elem_of_list_In.
Qed.

(* ---------- JOIN ---------- *)
Lemma line_JOIN_other t n u h c :
  chanT t c -> n <> [] -> ts_member t !! (c, n) = None ->
  step_line t (LineSend.expected (mk (LineSend.SrcUser n u h) v_JOIN [c] None))
  = v_other_join t n c (Build_uinfo u h []).
Proof.
  intros Hc Hn Hp. verb_line (LineSend.SrcUser n u h) v_JOIN [c] (@None bytes) StJOIN.
  pose proof (h_JOIN_spec _ (st0 t) c [] ltac:(by rewrite Ea)) as HJ. cbv zeta in HJ. rewrite HJ. clear HJ.
  rewrite En, Ei, Eh. cbn [src_nick src_ident src_host h_trk st0].
  replace (is_some (snd (sp_GetChannel t c))) with true by (symmetry; by apply GetChannel_some).
  unfold v_other_join, v_learn_nick, sp_GetNick, nick_snapshot. cbn [snd ui_user ui_host].
  destruct Hc as [a Ha].
  destruct (ts_nicks t !! n) as [b|] eqn:Ln; cbn [is_some hres_st h_trk tr_ tr fst send]; change (h_trk (st0 t)) with t.
  - unfold sp_Associate. rewrite Ha, Ln, Hp. done.
  - unfold sp_NewNick. destruct n as [|x n']; [done|]. rewrite Ln. cbn [fst].
    unfold sp_NickInfo. cbn [ts_nicks]. rewrite lookup_insert. cbn [fst].
    unfold sp_Associate. cbn [ts_chans ts_nicks ts_member ts_me]. rewrite Ha, lookup_insert, Hp. cbn [fst].
    unfold v_set_member, v_set_nicks. cbn. by rewrite insert_insert.
Qed.

Lemma line_JOIN_self t u h c :
  nickT t (ts_me t) -> ts_chans t !! c = None -> c <> [] -> ts_member t !! (c, ts_me t) = None ->
  step_line t (LineSend.expected (mk (LineSend.SrcUser (ts_me t) u h) v_JOIN [c] None))
  = {| ts_me := ts_me t; ts_nicks := ts_nicks t; ts_chans := <[c := new_chanattr]> (ts_chans t);
       ts_member := <[(c, ts_me t) := no_privs]> (ts_member t) |}.
Proof.
  intros [ma Hm] Hc Hne Hp. verb_line (LineSend.SrcUser (ts_me t) u h) v_JOIN [c] (@None bytes) StJOIN.
  pose proof (h_JOIN_spec _ (st0 t) c [] ltac:(by rewrite Ea)) as HJ. cbv zeta in HJ. rewrite HJ. clear HJ.
  rewrite En. cbn [src_nick h_trk st0].
  replace (is_some (snd (sp_GetChannel t c))) with false
    by (unfold sp_GetChannel, chan_snapshot; simpl; by rewrite Hc).
  unfold sp_GetNick. cbn [snd].
  rewrite (me_equals_snap t (ts_me t) ma Hm). rewrite bool_decide_eq_true_2 by done. cbn [negb].
  unfold nick_snapshot. rewrite Hm. cbn [is_some hres_st h_trk tr_ tr fst send]. change (h_trk (st0 t)) with t.
  unfold sp_NewChannel. destruct c as [|x c']; [done|]. rewrite Hc. cbn [fst].
  unfold sp_Associate. cbn [ts_chans ts_nicks ts_member ts_me]. rewrite lookup_insert, Hm, Hp. done.
Qed.

(* ---------- chunks ---------- *)
Lemma chunks_aux_concat {A} k (l : list A) : forall cur room,
  concat (chunks_aux k cur room l) = rev cur ++ l.
Proof.
  induction l as [|x l IH]; intros cur room; simpl.
  - destruct cur; simpl; [done|]. by rewrite !app_nil_r.
  - destruct room; simpl; rewrite IH; simpl; by rewrite <- ?app_assoc.
Qed.
Lemma chunks_concat {A} k (l : list A) : concat (chunks k l) = l.
Proof. unfold chunks. by rewrite chunks_aux_concat. Qed.
Lemma chunks_aux_nonempty {A} k (l : list A) : forall cur room,
  (room = 0%nat -> cur <> []) -> Forall (fun ch => ch <> []) (chunks_aux k cur room l).
Proof.
  induction l as [|x l IH]; intros cur room H; simpl.
  - destruct cur as [|y cur]; [constructor|]. constructor; [|constructor].
    intros E. apply (f_equal (@length A)) in E. rewrite rev_length in E. done.
  - destruct room.
    + constructor; [|by apply IH].
      intros E. apply (f_equal (@length A)) in E. rewrite rev_length in E. destruct cur; [by apply H|done].
    + by apply IH.
Qed.
Lemma chunks_nonempty {A} k (l : list A) : k <> 0%nat -> Forall (fun ch => ch <> []) (chunks k l).
Proof. intros H. apply chunks_aux_nonempty. done. Qed.

(* feeding several lines *)
Lemma feed_nil t : feed t [] = t.
Proof. done. Qed.
Lemma feed_cons t m ms : feed t (m :: ms) = feed (step_line t (LineSend.expected m)) ms.
Proof. done. Qed.
Lemma feed_app t a b : feed t (a ++ b) = feed (feed t a) b.
Proof. unfold feed, run_lines. by rewrite map_app, fold_left_app. Qed.

(* all NAMES lines of a channel *)
Lemma feed_names t me c (chs : list (list (name * privs))) :
  is_Some (ts_chans t !! c) ->
  Forall (fun ch => ch <> []) chs ->
  Forall (fun e => name_good (fst e) /\ ~ In 32%N (fst e)) (concat chs) ->
  feed t (map (names_msg me c) chs) = fold_left (v_reveal_name c) (concat chs) t.
Proof.
  revert t. induction chs as [|ch r IH]; intros t Hc Hne Hg; [done|].
  inversion Hne as [|? ? Hne1 Hne2]; subst. simpl concat in *. apply Forall_app in Hg. destruct Hg as [Hg1 Hg2].
  simpl map. rewrite feed_cons, line_353 by done.
  destruct (ts_chans t !! c) as [a|] eqn:Ha; [|by destruct Hc].
  rewrite fold_left_app. apply IH; [|done|done].
  clear -Ha. revert t a Ha. induction ch as [|e ch IHc]; intros t a Ha; [simpl; rewrite Ha; eauto|].
  simpl. assert (is_Some (ts_chans (v_reveal_name c t e) !! c)) as [a' Ha'] by (rewrite reveal_chans, Ha; eauto).
  by apply (IHc _ a').
Qed.
