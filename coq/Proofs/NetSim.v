(* Proofs/NetSim.v — C13: what the tracker does with each line a conformant server sends
   ([LineSend.expected] of the messages built by Model/Net.v's [mk]), line by line. *)
From Verif Require Import TrackerSpec TrackerSpecFacts StateHandlers Net NetObs NetProofs NetHandlers.
From Verif Require GoBytes LineLib Line LineSend.
Open Scope Z_scope.

Definition src_nick (s : LineSend.source) : bytes :=
  match s with LineSend.SrcUser n _ _ => n | LineSend.SrcServer _ => [] end.
Definition src_ident (s : LineSend.source) : bytes :=
  match s with LineSend.SrcUser _ u _ => u | LineSend.SrcServer _ => [] end.
Definition src_host (s : LineSend.source) : bytes :=
  match s with LineSend.SrcUser _ _ h => h | LineSend.SrcServer n => n end.
Definition opt_list {A} (o : option A) : list A := match o with Some x => [x] | None => [] end.

Lemma map_snd_mids (mids : list bytes) : map snd (map (fun p : bytes => (0%nat, p)) mids) = mids.
Proof. induction mids as [|x r IH]; [done|]. simpl. by rewrite IH. Qed.

Lemma expected_mk src verb mids tr :
  LineSend.is_msg_cmd (GoBytes.to_upper verb) = false ->
  let l := LineSend.expected (mk src verb mids tr) in
  Line.l_cmd l = GoBytes.to_upper verb
  /\ Line.l_args l = mids ++ opt_list tr
  /\ Line.l_nick l = src_nick src /\ Line.l_ident l = src_ident src /\ Line.l_host l = src_host src.
Proof.
  intros H. unfold LineSend.expected, mk, LineSend.msg_args, LineSend.exp_ctcp. simpl.
  rewrite H, map_snd_mids. destruct src, tr; simpl; done.
Qed.

Lemma step_line_verb t l h :
  find_sth GoBytes.to_lower (Line.l_cmd l) = Some h -> step_line t l = h_trk (hres_st (sth_run h l (st0 t))).
Proof. intros H. unfold step_line. by rewrite (handle_verb t l h H). Qed.

Ltac verb_line src verb mids tr h :=
  let Ec := fresh "Ec" in let Ea := fresh "Ea" in let En := fresh "En" in
  let Ei := fresh "Ei" in let Eh := fresh "Eh" in
  destruct (expected_mk src verb mids tr eq_refl) as (Ec & Ea & En & Ei & Eh);
  rewrite (step_line_verb _ _ h) by (rewrite Ec; reflexivity); cbn [sth_run].

(* ---------- one lemma per kind of line ---------- *)
Lemma line_PART t src c msg :
  step_line t (LineSend.expected (mk src v_PART [c] (Some msg))) = sp_Dissociate t c (src_nick src).
Proof. verb_line src v_PART [c] (Some msg) StPART. rewrite (h_PART_spec _ _ c [msg]) by (by rewrite Ea). simpl. by rewrite En. Qed.

Lemma line_KICK t src c v msg :
  step_line t (LineSend.expected (mk src v_KICK [c; v] (Some msg))) = sp_Dissociate t c v.
Proof. verb_line src v_KICK [c; v] (Some msg) StKICK. by rewrite (h_KICK_spec _ _ c v [msg]) by (by rewrite Ea). Qed.

Lemma line_QUIT t src msg :
  step_line t (LineSend.expected (mk src v_QUIT [] (Some msg))) = fst (sp_DelNick t (src_nick src)).
Proof. verb_line src v_QUIT (@nil bytes) (Some msg) StQUIT. unfold h_QUIT. simpl. by rewrite En. Qed.

Lemma line_NICK t src w :
  step_line t (LineSend.expected (mk src v_NICK [w] None)) = fst (sp_ReNick t (src_nick src) w).
Proof. verb_line src v_NICK [w] (@None bytes) StNICK. rewrite (h_STNICK_spec _ _ w []) by (by rewrite Ea). simpl. by rewrite En. Qed.

Lemma topic_view t c tp :
  h_trk (if is_some (snd (sp_GetChannel (h_trk (st0 t)) c)) then tr_ (st0 t) (fun t0 => sp_Topic t0 c tp) else st0 t)
  = v_topic t c tp.
Proof.
  unfold v_topic, sp_GetChannel, chan_snapshot, tr_, tr, st0, sp_Topic. simpl.
  destruct (ts_chans t !! c); done.
Qed.

Lemma line_TOPIC t src c tp :
  step_line t (LineSend.expected (mk src v_TOPIC [c] (Some tp))) = v_topic t c tp.
Proof.
  verb_line src v_TOPIC [c] (Some tp) StTOPIC. rewrite (h_TOPIC_spec _ _ c tp []) by (by rewrite Ea).
  apply topic_view.
Qed.

Lemma line_332 t src me c tp :
  step_line t (LineSend.expected (mk src v_332 [me; c] (Some tp))) = v_topic t c tp.
Proof.
  verb_line src v_332 [me; c] (Some tp) St332. rewrite (h_332_spec _ _ me c tp []) by (by rewrite Ea).
  apply topic_view.
Qed.

(* lines no state handler is registered for *)
Lemma line_other t src verb mids tr :
  LineSend.is_msg_cmd (GoBytes.to_upper verb) = false ->
  find_sth GoBytes.to_lower (GoBytes.to_upper verb) = None ->
  step_line t (LineSend.expected (mk src verb mids tr)) = t.
Proof.
  intros H1 H2. destruct (expected_mk src verb mids tr H1) as (Ec & _).
  unfold step_line, handle_state, handle_state_with. by rewrite Ec, H2.
Qed.
Lemma line_366 t src mids tr : step_line t (LineSend.expected (mk src v_366 mids tr)) = t.
Proof. by apply line_other. Qed.
Lemma line_315 t src mids tr : step_line t (LineSend.expected (mk src v_315 mids tr)) = t.
Proof. by apply line_other. Qed.

(* MODE on a tracked channel / 324: the tracker's own parser on the string and arguments *)
Lemma line_MODE t src c ms args :
  is_Some (ts_chans t !! c) ->
  step_line t (LineSend.expected (mk src v_MODE ([c; ms] ++ args) None)) = fst (sp_ChannelModes t c ms args).
Proof.
  intros Hc. verb_line src v_MODE ([c; ms] ++ args) (@None bytes) StMODE.
  rewrite (h_MODE_chan_spec _ _ c ms args); [done|by rewrite Ea, app_nil_r|].
  apply GetChannel_some. exact Hc.
Qed.
Lemma line_MODE_unknown t src c ms args :
  ts_chans t !! c = None -> ts_nicks t !! c = None ->
  step_line t (LineSend.expected (mk src v_MODE ([c; ms] ++ args) None)) = t.
Proof.
  intros Hc Hn. verb_line src v_MODE ([c; ms] ++ args) (@None bytes) StMODE.
  unfold h_MODE. rewrite (argslen_Z _ 1) by (rewrite Ea; simpl; lia). cbn [negb].
  assert (E : Line.l_args (LineSend.expected (mk src v_MODE ([c; ms] ++ args) None)) = c :: ms :: args ++ [])
    by (by rewrite Ea).
  args_shape E.
  replace (is_some (snd (sp_GetChannel (st0 t).(h_trk) c))) with false
    by (unfold sp_GetChannel, chan_snapshot; simpl; by rewrite Hc).
  args_shape E.
  replace (is_some (snd (sp_GetNick (st0 t).(h_trk) c))) with false
    by (unfold sp_GetNick, nick_snapshot; simpl; by rewrite Hn).
  done.
Qed.

Lemma line_324 t src me c ms args :
  step_line t (LineSend.expected (mk src v_324 ([me; c; ms] ++ args) None))
  = match ts_chans t !! c with Some _ => fst (sp_ChannelModes t c ms args) | None => t end.
Proof.
  verb_line src v_324 ([me; c; ms] ++ args) (@None bytes) St324.
  rewrite (h_324_spec _ _ me c ms args) by (by rewrite Ea, app_nil_r).
  unfold sp_GetChannel, chan_snapshot, tr_, tr, st0. simpl. by destruct (ts_chans t !! c).
Qed.

(* 352 *)
Lemma me_equals_snap t n a :
  ts_nicks t !! n = Some a -> me_equals t (nick_snapshot t n) = bool_decide (n = ts_me t).
Proof.
  intros H. unfold me_equals, sp_Me. simpl. unfold nick_snapshot. rewrite H.
  destruct (decide (n = ts_me t)) as [E|N].
  - rewrite <- E, H. rewrite !bool_decide_eq_true_2; done.
  - rewrite (bool_decide_eq_false_2 (n = ts_me t)) by done.
    destruct (ts_nicks t !! ts_me t); [|done]. apply bool_decide_eq_false_2. intros X. inversion X. congruence.
Qed.

Lemma who_flags_H p :
  (GoBytes.index (72%N :: prefix_bytes p) s_star =? -1) = true
  /\ (GoBytes.index (72%N :: prefix_bytes p) s_B =? -1) = true
  /\ (GoBytes.index (72%N :: prefix_bytes p) s_H =? -1) = false.
Proof. unfold prefix_bytes, highest_letter. destruct (cp_q p), (cp_a p), (cp_o p), (cp_h p), (cp_v p); done. Qed.

Lemma line_352 t src me chan n ui p :
  step_line t (LineSend.expected (mk src v_352 [me; chan; ui_user ui; ui_host ui; srv_name; n; 72%N :: prefix_bytes p]
                                     (Some (48%N :: 32%N :: ui_real ui))))
  = v_reveal_who t n ui.
Proof.
  verb_line src v_352 [me; chan; ui_user ui; ui_host ui; srv_name; n; 72%N :: prefix_bytes p] (Some (48%N :: 32%N :: ui_real ui)) St352.
  rewrite (h_352_spec _ _ me chan (ui_user ui) (ui_host ui) srv_name n (72%N :: prefix_bytes p) (48%N :: 32%N :: ui_real ui) (ui_real ui));
    [|by rewrite Ea|reflexivity].
  unfold v_reveal_who. change (h_trk (st0 t)) with t. unfold sp_GetNick. cbn [snd].
  destruct (ts_nicks t !! n) as [a|] eqn:Ln.
  - assert (Es : nick_snapshot t n = Some {| sn_nick := n; sn_ident := na_ident a; sn_host := na_host a; sn_name := na_name a;
                                            sn_modes := na_modes a; sn_chans := sorted_of_map (chans_of t n) |})
      by (unfold nick_snapshot; by rewrite Ln).
    rewrite Es. rewrite <- Es at 1. rewrite (me_equals_snap t n a Ln).
    case_decide as E; [by rewrite bool_decide_eq_true_2|]. rewrite bool_decide_eq_false_2 by done.
    cbn [sn_nick tru h_trk st0]. unfold who_modes.
    destruct (who_flags_H p) as (F1 & F2 & F3). rewrite F1, F2, F3. cbn [negb].
    cbn [h_trk hres_st tru st0].
    unfold sp_NickInfo. rewrite Ln. cbn [fst]. unfold sp_NickModes. cbn [ts_nicks]. rewrite lookup_insert.
    cbn [fst ts_me ts_nicks ts_chans ts_member na_ident na_host na_name na_modes].
    unfold v_set_nicks. rewrite insert_insert. reflexivity.
  - unfold nick_snapshot. rewrite Ln. by case_decide.
Qed.
