(* Proofs/FloodProofs.v — lemmas about Model/Flood.v (C10). *)
From Verif Require Import GoBytes GoBytesFacts Flood.
Open Scope Z_scope.

(* ---------- linetime ---------- *)
Lemma linetime_div c : 0 <= c -> linetime c = line_base + c * second / per_char_div.
Proof.
  intros H. unfold linetime. rewrite Z.quot_div_nonneg; [reflexivity| |];
    unfold second, per_char_div; lia.
Qed.

(* "2 s plus 1/120 s per character", the division truncating: linetime c - 2 s is the
   largest whole number of nanoseconds not above c/120 s *)
Lemma linetime_charge c : 0 <= c ->
  120 * (linetime c - 2 * second) <= c * second < 120 * (linetime c - 2 * second) + 120.
Proof.
  intros H. rewrite (linetime_div c H). unfold line_base, second, per_char_div.
  pose proof (Z.div_mod (c * 1000000000) 120 ltac:(lia)) as E.
  pose proof (Z.mod_pos_bound (c * 1000000000) 120 ltac:(lia)) as B. lia.
Qed.

Lemma linetime_lower c : 0 <= c -> line_base <= linetime c.
Proof. intros H. pose proof (linetime_charge c H). unfold line_base, second in *. lia. Qed.

Lemma linetime_pos c : 0 <= c -> 0 < linetime c.
Proof. intros H. pose proof (linetime_lower c H). unfold line_base in *. lia. Qed.

Lemma linetime_mono c d : 0 <= c <= d -> linetime c <= linetime d.
Proof.
  intros H. rewrite !linetime_div by lia. unfold second, per_char_div.
  pose proof (Z.div_le_mono (c * 1000000000) (d * 1000000000) 120 ltac:(lia) ltac:(lia)). lia.
Qed.

Lemma linetime_510 : linetime 510 = 6250000000.
Proof. vm_compute. reflexivity. Qed.

(* the arithmetic the model performs stays far inside int64 (so ignoring wrap-around is
   sound) for every line shorter than 9*10^9 bytes and every penalty the invariant allows *)
Lemma no_overflow c : 0 <= c < 9000000000 ->
  0 <= c * second < 2 ^ 63 /\ 0 < linetime c < 2 ^ 62 /\ threshold + linetime c < 2 ^ 62.
Proof.
  intros H. pose proof (linetime_charge c ltac:(lia)) as B. pose proof (linetime_pos c ltac:(lia)).
  unfold second, threshold in *. change (2 ^ 63) with 9223372036854775808.
  change (2 ^ 62) with 4611686018427387904. lia.
Qed.

(* ---------- rateLimit: the defining equations ---------- *)
Lemma rate_limit_eq st a a' c :
  rate_limit st a a' c =
  let bad' := Z.max 0 (fs_bad st + linetime c - (a - fs_last st)) in
  ({| fs_bad := bad'; fs_last := a' |}, if threshold <? bad' then linetime c else 0).
Proof.
  unfold rate_limit. cbv zeta.
  destruct (Z.ltb_spec (fs_bad st + (linetime c - (a - fs_last st))) 0) as [Hn|Hn].
  - replace (Z.max 0 (fs_bad st + linetime c - (a - fs_last st))) with 0 by lia. reflexivity.
  - replace (Z.max 0 (fs_bad st + linetime c - (a - fs_last st)))
      with (fs_bad st + (linetime c - (a - fs_last st))) by lia.
    rewrite Z.gtb_ltb. reflexivity.
Qed.

Lemma rate_limit_bad st a a' c :
  fs_bad (fst (rate_limit st a a' c)) = Z.max 0 (fs_bad st + linetime c - (a - fs_last st)).
Proof. rewrite rate_limit_eq. reflexivity. Qed.

Lemma rate_limit_last st a a' c : fs_last (fst (rate_limit st a a' c)) = a'.
Proof. rewrite rate_limit_eq. reflexivity. Qed.

Lemma rate_limit_ret st a a' c :
  snd (rate_limit st a a' c) =
  if threshold <? fs_bad (fst (rate_limit st a a' c)) then linetime c else 0.
Proof. rewrite rate_limit_eq. reflexivity. Qed.

Lemma rate_limit_floor st a a' c : 0 <= fs_bad (fst (rate_limit st a a' c)).
Proof. rewrite rate_limit_bad. lia. Qed.

Lemma rate_limit_held st a a' c : 0 <= c ->
  (threshold < fs_bad (fst (rate_limit st a a' c)) -> snd (rate_limit st a a' c) = linetime c)
  /\ (fs_bad (fst (rate_limit st a a' c)) <= threshold -> snd (rate_limit st a a' c) = 0)
  /\ (0 < snd (rate_limit st a a' c) <-> threshold < fs_bad (fst (rate_limit st a a' c))).
Proof.
  intros Hc. rewrite rate_limit_ret. pose proof (linetime_pos c Hc).
  destruct (Z.ltb_spec threshold (fs_bad (fst (rate_limit st a a' c)))); repeat split; lia.
Qed.

Lemma rate_limit_ret_nonneg st a a' c : 0 <= c -> 0 <= snd (rate_limit st a a' c).
Proof.
  intros Hc. rewrite rate_limit_ret. pose proof (linetime_pos c Hc).
  destruct (threshold <? _); lia.
Qed.

(* the rule, in one statement *)
Lemma rule st a a' c : 0 <= c ->
  let r := rate_limit st a a' c in
  let bad' := fs_bad (fst r) in
  bad' = Z.max 0 (fs_bad st + (2 * second + c * second / 120) - (a - fs_last st))
  /\ 0 <= bad'
  /\ fs_last (fst r) = a'
  /\ (threshold < bad' -> snd r = 2 * second + c * second / 120)
  /\ (bad' <= threshold -> snd r = 0).
Proof.
  intros Hc r bad'. subst r bad'.
  assert (E : linetime c = 2 * second + c * second / 120)
    by (rewrite linetime_div by exact Hc; reflexivity).
  rewrite <- E.
  split; [apply rate_limit_bad|]. split; [apply rate_limit_floor|].
  split; [apply rate_limit_last|]. pose proof (rate_limit_held st a a' c Hc). tauto.
Qed.

Lemma write_delay_flood st a a' c : write_delay true st a a' c = (st, 0).
Proof. reflexivity. Qed.

Lemma write_delay_noflood st a a' c : write_delay false st a a' c = rate_limit st a a' c.
Proof. reflexivity. Qed.

(* ---------- histories: the invariant carried by a client whose sleeps are honoured ---------- *)
(* "the penalty, decayed to the moment of the last write, is at most 10 s":
   bad - (pw - last) <= 10 s *)
Definition inv (st : flood_state) (pw : Z) : Prop :=
  fs_last st <= pw /\ fs_bad st + fs_last st <= threshold + pw.

Definition phi (st : flood_state) : Z := fs_bad st + fs_last st.

Lemma inv_start st : fs_bad st <= threshold -> inv st (fs_last st).
Proof. unfold inv. lia. Qed.

Lemma step_inv st pw e : inv st pw -> honoured1 st pw e -> inv (fst (step st e)) (s_w e).
Proof.
  unfold inv, honoured1, step. intros [Hl Hb] (Hc & Hpa & Haa & Hw).
  pose proof (linetime_pos _ Hc) as HL. revert Hw. rewrite rate_limit_eq. cbn [fst snd fs_bad fs_last].
  destruct (Z.ltb_spec threshold (Z.max 0 (fs_bad st + linetime (s_chars e) - (s_a e - fs_last st))));
    intros Hw; unfold threshold in *; split; lia.
Qed.

Lemma step_phi st pw e : honoured1 st pw e ->
  phi st + linetime (s_chars e) <= phi (fst (step st e)).
Proof.
  unfold honoured1, step, phi. intros (Hc & Hpa & Haa & _).
  rewrite rate_limit_eq. cbn [fst fs_bad fs_last]. lia.
Qed.

Lemma step_bad_bound st pw e : inv st pw -> honoured1 st pw e ->
  0 <= fs_bad (fst (step st e)) <= threshold + linetime (s_chars e).
Proof.
  unfold inv, honoured1, step. intros [Hl Hb] (Hc & Hpa & Haa & _).
  pose proof (linetime_pos _ Hc). rewrite rate_limit_bad. unfold threshold in *. lia.
Qed.

Lemma final_app l1 l2 : forall st pw,
  final st pw (l1 ++ l2) = final (fst (final st pw l1)) (snd (final st pw l1)) l2.
Proof. induction l1 as [|e l1 IH]; intros st pw; cbn [app final fst snd]; [reflexivity|apply IH]. Qed.

Lemma honoured_app l1 l2 : forall st pw,
  honoured st pw (l1 ++ l2) <->
  honoured st pw l1 /\ honoured (fst (final st pw l1)) (snd (final st pw l1)) l2.
Proof.
  induction l1 as [|e l1 IH]; intros st pw; cbn [app honoured final fst snd]; [tauto|].
  rewrite IH. tauto.
Qed.

Lemma honouredb_spec l : forall st pw, honouredb st pw l = true <-> honoured st pw l.
Proof.
  induction l as [|e l IH]; intros st pw; cbn [honouredb honoured]; [tauto|].
  unfold honoured1. rewrite !andb_true_iff, !Z.leb_le, IH. tauto.
Qed.

Lemma final_inv l : forall st pw, inv st pw -> honoured st pw l ->
  inv (fst (final st pw l)) (snd (final st pw l)).
Proof.
  induction l as [|e l IH]; intros st pw Hi Hh; cbn [final fst snd]; [exact Hi|].
  destruct Hh as [H1 Hh]. apply IH; [eapply step_inv; eassumption|exact Hh].
Qed.

Lemma final_phi l : forall st pw, honoured st pw l ->
  phi st + charge l <= phi (fst (final st pw l)).
Proof.
  induction l as [|e l IH]; intros st pw Hh; cbn [final charge fst]; [lia|].
  destruct Hh as [H1 Hh]. pose proof (step_phi st pw e H1). pose proof (IH _ _ Hh). lia.
Qed.

Lemma final_snoc l e : forall st pw, snd (final st pw (l ++ [e])) = s_w e.
Proof. intros st pw. rewrite final_app. reflexivity. Qed.

Lemma charge_app l1 l2 : charge (l1 ++ l2) = charge l1 + charge l2.
Proof. induction l1 as [|e l1 IH]; cbn [app charge]; lia. Qed.

(* every penalty ever computed lies in [0, 10 s + that line's charge] *)
Lemma bad_bounds st0 pre e :
  fs_bad st0 <= threshold ->
  honoured st0 (fs_last st0) (pre ++ [e]) ->
  0 <= fs_bad (fst (step (fst (final st0 (fs_last st0) pre)) e)) <= threshold + linetime (s_chars e).
Proof.
  intros Hb Hh. apply honoured_app in Hh as [Hp [H1 _]].
  eapply step_bad_bound; [|exact H1]. apply final_inv; [apply inv_start; exact Hb|exact Hp].
Qed.

(* ... but only because the sleep is performed: a caller that ignores the returned delay
   drives the penalty up without bound (n empty lines at the same instant: n * 2 s) *)
Definition instant_line : send := {| s_chars := 0; s_a := 0; s_a2 := 0; s_w := 0 |}.

Lemma bad_without_sleep n : forall b, 0 <= b ->
  fs_bad (fst (final {| fs_bad := b; fs_last := 0 |} 0 (repeat instant_line n)))
  = b + Z.of_nat n * line_base.
Proof.
  induction n as [|n IH]; intros b Hb; [cbn; lia|].
  cbn [repeat final]. unfold step. rewrite rate_limit_eq.
  cbn [fst snd fs_bad fs_last instant_line s_chars s_a s_a2 s_w].
  change (linetime 0) with line_base.
  replace (Z.max 0 (b + line_base - (0 - 0))) with (b + line_base) by (unfold line_base; lia).
  rewrite IH by (unfold line_base; lia). lia.
Qed.

Lemma bad_unbounded_if_sleep_ignored : forall B, exists l,
  (forall e, In e l -> s_a e <= s_a2 e <= s_w e) /\ B < fs_bad (fst (final (fresh 0) 0 l)).
Proof.
  intros B. exists (repeat instant_line (S (Z.to_nat B))). split.
  - intros e He. apply repeat_spec in He. subst e. cbn. lia.
  - unfold fresh. rewrite bad_without_sleep by lia. unfold line_base. lia.
Qed.

(* ---------- the window bound ---------- *)
(* core: from any state satisfying the invariant, for lines e1, e2, rest... the charge of
   [rest] is covered by the time between the write of e1 and the last write, plus 10 s *)
Lemma window_core st pw e1 e2 rest :
  inv st pw -> honoured st pw (e1 :: e2 :: rest) ->
  charge rest <= (snd (final st pw (e1 :: e2 :: rest)) - s_w e1) + threshold.
Proof.
  intros Hi (H1 & H2 & Hr). cbn [final].
  pose proof (step_inv _ _ _ Hi H1) as Hi1.
  pose proof (step_inv _ _ _ Hi1 H2) as Hi2.
  pose proof (final_inv _ _ _ Hi2 Hr) as [_ Hj].
  pose proof (final_phi _ _ _ Hr) as Hphi.
  assert (Hlow : s_w e1 <= phi (fst (step (fst (step st e1)) e2))).
  { destruct H2 as (_ & Hpa & Haa & _). generalize dependent (fst (step st e1)). intros st1 _ _ _ _ _.
    unfold phi, step.
    pose proof (rate_limit_floor st1 (s_a e2) (s_a2 e2) (s_chars e2)).
    rewrite rate_limit_last. lia. }
  unfold phi in *. lia.
Qed.

Lemma cons_mid_app {A} (e1 : A) mid ej post : e1 :: mid ++ ej :: post = (e1 :: mid ++ [ej]) ++ post.
Proof. cbn [app]. rewrite <- app_assoc. reflexivity. Qed.

(* strong form: lines i+2..j *)
Lemma window_strong st0 pre e1 mid ej post :
  fs_bad st0 <= threshold ->
  honoured st0 (fs_last st0) (pre ++ e1 :: mid ++ ej :: post) ->
  charge (tl (mid ++ [ej])) <= (s_w ej - s_w e1) + threshold.
Proof.
  intros Hb Hh. apply honoured_app in Hh as [Hp Hh].
  pose proof (final_inv _ _ _ (inv_start _ Hb) Hp) as Hi.
  rewrite cons_mid_app in Hh. apply honoured_app in Hh as [Hh _].
  set (st := fst (final st0 (fs_last st0) pre)) in *.
  set (pw := snd (final st0 (fs_last st0) pre)) in *.
  destruct mid as [|e2 mid]; cbn [app tl] in *.
  - destruct Hh as (H1 & (Hc & Hpa & Haa & Hw) & _).
    pose proof (rate_limit_ret_nonneg (fst (step st e1)) (s_a ej) (s_a2 ej) (s_chars ej) Hc).
    unfold step in Hw at 1. cbn [charge]. unfold threshold. lia.
  - pose proof (window_core st pw e1 e2 (mid ++ [ej]) Hi Hh) as Hc.
    cbn [final] in Hc. rewrite final_snoc in Hc. exact Hc.
Qed.

(* the property's form: lines i..j against the time between their writes, 10 s and the
   charges of lines i and i+1 *)
Lemma window_bound st0 pre e1 mid ej post :
  fs_bad st0 <= threshold ->
  honoured st0 (fs_last st0) (pre ++ e1 :: mid ++ ej :: post) ->
  charge (e1 :: mid ++ [ej])
  <= (s_w ej - s_w e1) + threshold + linetime (s_chars e1) + linetime (s_chars (hd ej mid)).
Proof.
  intros Hb Hh. pose proof (window_strong _ _ _ _ _ _ Hb Hh) as Hs.
  destruct mid as [|e2 mid]; cbn [app tl hd charge] in *; lia.
Qed.

(* in the property's words: lengths up to 510, "10 s plus two lines' charges" <= 22.5 s *)
Lemma window_sentence st0 pre e1 mid ej post :
  fs_bad st0 <= threshold ->
  honoured st0 (fs_last st0) (pre ++ e1 :: mid ++ ej :: post) ->
  Forall (fun e => s_chars e <= 510) (e1 :: mid ++ [ej]) ->
  charge (e1 :: mid ++ [ej]) <= (s_w ej - s_w e1) + 10 * second + 2 * linetime 510.
Proof.
  intros Hb Hh Hf. pose proof (window_bound _ _ _ _ _ _ Hb Hh) as Hw.
  assert (Hc : forall e, In e (e1 :: mid ++ [ej]) -> 0 <= s_chars e).
  { apply honoured_app in Hh as [_ Hh]. rewrite cons_mid_app in Hh.
    apply honoured_app in Hh as [Hh _]. revert Hh.
    generalize (fst (final st0 (fs_last st0) pre)) (snd (final st0 (fs_last st0) pre)).
    generalize (e1 :: mid ++ [ej]). intros l. induction l as [|x l IH]; intros st pw Hh e He; [destruct He|].
    destruct Hh as [(Hx & _) Hh]. destruct He as [<-|He]; [exact Hx|eapply IH; eassumption]. }
  rewrite Forall_forall in Hf.
  assert (H1 : linetime (s_chars e1) <= linetime 510).
  { apply linetime_mono. split; [apply Hc|apply Hf]; left; reflexivity. }
  assert (H2 : linetime (s_chars (hd ej mid)) <= linetime 510).
  { assert (Hin : In (hd ej mid) (e1 :: mid ++ [ej])).
    { right. destruct mid; cbn; auto. }
    apply linetime_mono. split; [apply Hc|apply Hf]; exact Hin. }
  unfold threshold, second in *. lia.
Qed.

(* ---------- the one-call oracle C10_ok is exactly "some admissible pair of clock
   readings makes the rule produce this observation" ---------- *)
Lemma C10_ok_iff t0 c b g s ret b' lo :
  C10_ok c b g s ret b' lo = true <->
  exists a, t0 <= a /\ a <= t0 + lo /\ lo <= s
            /\ rate_limit {| fs_bad := b; fs_last := t0 - g |} a (t0 + lo) c
               = ({| fs_bad := b'; fs_last := t0 + lo |}, ret).
Proof.
  unfold C10_ok. cbv zeta. rewrite !andb_true_iff, !Z.leb_le, Z.eqb_eq, !Z.gtb_ltb.
  split.
  - intros (((((H0 & Hg) & Hs) & Hl) & Hlo) & Hr).
    destruct (Z.ltb_spec 0 b') as [Hp|Hp].
    + exists (t0 - g + (b + linetime c - b')). rewrite rate_limit_eq. cbn [fs_bad fs_last].
      repeat split; try lia.
      replace (Z.max 0 _) with b' by lia. rewrite Hr. reflexivity.
    + exists (t0 - g + Z.max g (b + linetime c)). rewrite rate_limit_eq. cbn [fs_bad fs_last].
      repeat split; try lia.
      replace (Z.max 0 _) with b' by lia. rewrite Hr. reflexivity.
  - intros (a & Ha & Hal & Hls & E). rewrite rate_limit_eq in E. cbn [fs_bad fs_last] in E.
    injection E as Eb Er. rewrite <- Er.
    destruct (Z.ltb_spec 0 b') as [Hp|Hp]; rewrite Eb; repeat split; try lia.
Qed.

(* ---------- the window oracle ---------- *)
Fixpoint wcharge (l : list (Z * Z)) : Z :=
  match l with [] => 0 | x :: l' => linetime (fst x) + wcharge l' end.

(* for every window x1, x2, mid of consecutive lines: the charge of [mid] (= lines i+2..j)
   is at most (w_j - w_i) + 10 s + tol *)
Definition window_spec (tol : Z) (ws : list (Z * Z)) : Prop :=
  forall pre x1 x2 mid post, ws = pre ++ x1 :: x2 :: mid ++ post ->
    wcharge mid <= (snd (last mid x2) - snd x1) + threshold + tol.

Lemma wcharge_app l1 l2 : wcharge (l1 ++ l2) = wcharge l1 + wcharge l2.
Proof. induction l1 as [|x l1 IH]; cbn [app wcharge]; lia. Qed.

Lemma last_cons_default {A} (y : A) mid d : last (y :: mid) d = last mid y.
Proof.
  revert y d. induction mid as [|z mid IHm]; intros y d; [reflexivity|].
  change (last (y :: z :: mid) d) with (last (z :: mid) d). rewrite !IHm. reflexivity.
Qed.

Lemma window_from_spec wi tol rest : forall acc,
  window_from wi tol acc rest = true <->
  (forall x mid post, rest = x :: mid ++ post ->
     acc + wcharge (x :: mid) <= (snd (last mid x) - wi) + threshold + tol).
Proof.
  induction rest as [|[c w] rest IH]; intros acc; cbn [window_from].
  - split; [intros _ x mid post E; discriminate E|reflexivity].
  - rewrite andb_true_iff, Z.leb_le, IH. split.
    + intros [H0 H] x mid post E. injection E as <- E.
      destruct mid as [|y mid].
      * cbn [last wcharge fst snd]. lia.
      * specialize (H y mid post E). rewrite last_cons_default.
        cbn [wcharge fst] in *. lia.
    + intros H. split.
      * specialize (H (c, w) [] rest eq_refl). cbn [last wcharge fst snd] in H. lia.
      * intros x mid post E. specialize (H (c, w) (x :: mid) post).
        cbn [app] in H. specialize (H (f_equal _ E)). rewrite last_cons_default in H.
        cbn [wcharge fst] in *. lia.
Qed.

Lemma C10_window_ok_spec tol ws : C10_window_ok tol ws = true <-> window_spec tol ws.
Proof.
  unfold window_spec. induction ws as [|[c1 w1] ws IH]; cbn [C10_window_ok].
  - split; [intros _ pre x1 x2 mid post E; destruct pre; discriminate E|reflexivity].
  - rewrite andb_true_iff, IH. clear IH. split.
    + intros [Hh Ht] pre x1 x2 mid post E. destruct pre as [|p pre]; cbn [app] in E.
      * injection E as <- E. subst ws. destruct x2 as [c2 w2].
        rewrite andb_true_iff, Z.leb_le, window_from_spec in Hh. destruct Hh as [H0 Hh].
        destruct mid as [|y mid].
        -- cbn [last wcharge snd]. lia.
        -- specialize (Hh y mid post eq_refl). rewrite last_cons_default.
           cbn [wcharge snd] in *. lia.
      * injection E as _ E. exact (Ht pre x1 x2 mid post E).
    + intros H. split.
      * destruct ws as [|[c2 w2] rest]; [reflexivity|].
        rewrite andb_true_iff, Z.leb_le, window_from_spec. split.
        -- specialize (H [] (c1, w1) (c2, w2) [] rest eq_refl). cbn [last wcharge snd] in H. lia.
        -- intros x mid post E. specialize (H [] (c1, w1) (c2, w2) (x :: mid) post).
           cbn [app] in H. rewrite E in H. specialize (H eq_refl).
           rewrite last_cons_default in H. cbn [wcharge snd] in *. lia.
      * intros pre x1 x2 mid post E. apply (H ((c1, w1) :: pre) x1 x2 mid post).
        cbn [app]. rewrite E. reflexivity.
Qed.

(* what is observable of a history: length and write time of each line *)
Definition wire_obs (l : list send) : list (Z * Z) := map (fun e => (s_chars e, s_w e)) l.

Lemma wcharge_obs l : wcharge (wire_obs l) = charge l.
Proof. induction l as [|e l IH]; cbn [wire_obs map wcharge charge fst]; [reflexivity|]. unfold wire_obs in IH. lia. Qed.

Lemma last_map_default {A B} (f : A -> B) l d : last (map f l) (f d) = f (last l d).
Proof.
  induction l as [|x l IH]; [reflexivity|]. cbn [map]. destruct l as [|y l]; [reflexivity|].
  change (last (f x :: map f (y :: l)) (f d)) with (last (map f (y :: l)) (f d)).
  rewrite IH. reflexivity.
Qed.

(* every history in which sleeps are honoured passes the window oracle with tolerance 0 *)
Lemma window_oracle_holds st0 l :
  fs_bad st0 <= threshold -> honoured st0 (fs_last st0) l ->
  C10_window_ok 0 (wire_obs l) = true.
Proof.
  intros Hb Hh. apply C10_window_ok_spec. intros pre x1 x2 mid post E.
  unfold wire_obs in E.
  apply map_eq_app in E as (lpre & l1 & -> & <- & E).
  apply map_eq_cons in E as (e1 & l2 & -> & <- & E).
  apply map_eq_cons in E as (e2 & l3 & -> & <- & E).
  apply map_eq_app in E as (lmid & lpost & -> & <- & <-).
  cbn [snd]. fold (wire_obs lmid). rewrite wcharge_obs.
  destruct (exists_last (l := e2 :: lmid) ltac:(discriminate)) as (m & ej & Em).
  assert (El : snd (last (map (fun e => (s_chars e, s_w e)) lmid) (s_chars e2, s_w e2)) = s_w ej).
  { change (s_chars e2, s_w e2) with ((fun e => (s_chars e, s_w e)) e2).
    rewrite last_map_default. cbn [snd].
    rewrite <- (last_cons_default e2 lmid e2), Em, last_last. reflexivity. }
  unfold wire_obs. rewrite El.
  replace (lpre ++ e1 :: e2 :: lmid ++ lpost) with (lpre ++ e1 :: m ++ ej :: lpost) in Hh.
  2:{ f_equal. f_equal. change (e2 :: lmid ++ lpost) with ((e2 :: lmid) ++ lpost).
      rewrite Em, <- app_assoc. reflexivity. }
  pose proof (window_strong _ _ _ _ _ _ Hb Hh) as Hs.
  rewrite <- Em in Hs. cbn [tl] in Hs. lia.
Qed.

(* measured write times that are late by at most [tol] (never early) cannot turn a run
   that satisfies the bound into an alarm: the tolerance is in the safe direction only *)
Lemma window_spec_measured tol tws mws :
  0 <= tol ->
  Forall2 (fun t m => fst t = fst m /\ snd t <= snd m <= snd t + tol) tws mws ->
  window_spec 0 tws -> window_spec tol mws.
Proof.
  intros Ht HF Hs pre x1 x2 mid post E. subst mws.
  apply Forall2_app_inv_r in HF as (tpre & t1 & _ & HF & ->).
  inversion HF as [|tx1 ? t2 ? Hx1 HF2]; subst. clear HF.
  inversion HF2 as [|tx2 ? t3 ? Hx2 HF3]; subst. clear HF2.
  apply Forall2_app_inv_r in HF3 as (tmid & tpost & Hmid & _ & ->).
  specialize (Hs tpre tx1 tx2 tmid tpost eq_refl).
  assert (Hc : wcharge tmid = wcharge mid).
  { clear - Hmid. induction Hmid as [|t m tl ml [Hf _] _ IH]; cbn [wcharge]; [reflexivity|]. rewrite Hf, IH. reflexivity. }
  assert (Hl : snd (last mid x2) <= snd (last tmid tx2) + tol /\ snd (last tmid tx2) <= snd (last mid x2)).
  { clear - Hmid Hx2. revert tx2 x2 Hx2. induction Hmid as [|t m tl ml Htm Hr IH]; intros tx2 x2 Hx2.
    - cbn. lia.
    - cbn [last]. destruct Hr as [|t' m' tl' ml' Htm' Hr'].
      + lia.
      + apply (IH tx2 x2 Hx2). }
  lia.
Qed.

(* ---------- a whole write(): counters untouched by the sleep; anchored bound ---------- *)
(* the state write leaves behind is the one rateLimit computed, whatever the delay *)
Lemma write_counters st a a' c :
  fst (write_delay false st a a' c) = fst (rate_limit st a a' c)
  /\ fst (write_delay true st a a' c) = st.
Proof. split; reflexivity. Qed.

(* from a known state: its penalty plus everything charged since is covered by the time
   since its lastsent plus 10 s *)
Lemma anchored_bound st0 l e :
  fs_bad st0 <= threshold -> honoured st0 (fs_last st0) (l ++ [e]) ->
  fs_bad st0 + charge (l ++ [e]) <= (s_w e - fs_last st0) + threshold.
Proof.
  intros Hb Hh.
  pose proof (final_phi _ _ _ Hh) as Hp.
  pose proof (final_inv _ _ _ (inv_start _ Hb) Hh) as [_ Hi].
  rewrite final_snoc in Hi. unfold phi in Hp. lia.
Qed.

(* every honoured two-line history from (bad, lastsent = 0), observed as harness/c10.go does
   (arrival stamps m late never early, the harness's clock reading r1 between the first
   write and the second submission), passes the hold oracle: noise cannot alarm *)
Lemma hold_oracle_holds bad e1 e2 m1 r1 m2 :
  fs_bad {| fs_bad := bad; fs_last := 0 |} <= threshold ->
  honoured {| fs_bad := bad; fs_last := 0 |} 0 [e1; e2] ->
  s_w e1 <= m1 -> s_w e1 <= r1 <= s_a e2 -> s_w e2 <= m2 ->
  let st1 := fst (step {| fs_bad := bad; fs_last := 0 |} e1) in
  let st2 := fst (step st1 e2) in
  C10_hold_ok (s_chars e1) bad (s_chars e2) (s_a2 e1) (fs_bad st1) m1 r1 (fs_bad st2) (s_a2 e2) m2 = true.
Proof.
  intros Hb Hh Hm1 Hr1 Hm2 st1 st2.
  pose proof (anchored_bound {| fs_bad := bad; fs_last := 0 |} [] e1 Hb) as A1.
  pose proof (anchored_bound {| fs_bad := bad; fs_last := 0 |} [e1] e2 Hb Hh) as A2.
  cbn [app charge fs_bad fs_last] in A1, A2.
  destruct Hh as (H1 & H2 & _). specialize (A1 (conj H1 I)).
  destruct H1 as (Hc1 & Hp1 & Ha1 & Hw1). destruct H2 as (Hc2 & Hp2 & Ha2 & Hw2).
  fold st1 in Hw2. unfold step in Hw1, Hw2.
  rewrite rate_limit_ret in Hw1, Hw2. fold (step {| fs_bad := bad; fs_last := 0 |} e1) in Hw1.
  fold st1 in Hw1. fold (step st1 e2) in Hw2. fold st2 in Hw2.
  assert (E1 : fs_bad st1 = Z.max 0 (bad + linetime (s_chars e1) - (s_a e1 - 0))).
  { unfold st1, step. rewrite rate_limit_bad. reflexivity. }
  assert (L1 : fs_last st1 = s_a2 e1) by (unfold st1, step; apply rate_limit_last).
  assert (E2 : fs_bad st2 = Z.max 0 (fs_bad st1 + linetime (s_chars e2) - (s_a e2 - s_a2 e1))).
  { unfold st2, step. rewrite rate_limit_bad, L1. reflexivity. }
  pose proof (linetime_pos _ Hc1). pose proof (linetime_pos _ Hc2).
  unfold C10_hold_ok, C10_ok. cbv zeta.
  rewrite !Z.gtb_ltb in *.
  generalize dependent (fs_bad st1). generalize dependent (fs_bad st2).
  intros b2 Hw2 b1 Hw1 E1 E2. clear st1 st2 L1.
  generalize dependent (linetime (s_chars e1)). generalize dependent (linetime (s_chars e2)).
  intros l2 A2 Hw2 Hl2 l1 A1 Hw1 E1 E2 Hl1.
  unfold threshold in *.
  rewrite !andb_true_iff, !Z.leb_le, !Z.eqb_eq.
  destruct (Z.ltb_spec 10000000000 b1); destruct (Z.ltb_spec 10000000000 b2);
    destruct (Z.ltb_spec 0 b1); destruct (Z.ltb_spec 0 b2); repeat split; lia.
Qed.


(* ---------- a genuinely fresh client ---------- *)
Lemma fresh_from_holds l : forall st pw acc,
  inv st pw -> acc <= phi st -> honoured st pw l -> fresh_from acc (wire_obs l) = true.
Proof.
  induction l as [|e l IH]; intros st pw acc Hi Ha Hh; [reflexivity|].
  destruct Hh as [H1 Hh]. cbn [wire_obs map fresh_from]. fold (wire_obs l).
  pose proof (step_phi _ _ _ H1) as Hp. pose proof (step_inv _ _ _ Hi H1) as Hi1.
  apply andb_true_iff. split.
  - destruct Hi1 as [_ Hb]. unfold phi in *. apply Z.leb_le. lia.
  - apply (IH _ _ _ Hi1); [lia|exact Hh].
Qed.

(* every honoured history of a client created at or after the origin of the stamps passes *)
Lemma fresh_oracle_holds created l :
  0 <= created -> honoured (fresh created) created l -> C10_fresh_ok (wire_obs l) = true.
Proof.
  intros Hc Hh. unfold C10_fresh_ok. apply (fresh_from_holds l (fresh created) created 0).
  - unfold inv, fresh, threshold. cbn [fs_bad fs_last]. lia.
  - unfold phi, fresh. cbn [fs_bad fs_last]. lia.
  - exact Hh.
Qed.

(* arrival stamps that are late (never early) cannot turn a passing run into an alarm *)
Lemma fresh_from_late tws : forall mws acc,
  Forall2 (fun t m => fst t = fst m /\ snd t <= snd m) tws mws ->
  fresh_from acc tws = true -> fresh_from acc mws = true.
Proof.
  induction tws as [|[c w] tws IH]; intros mws acc HF H; inversion HF as [|? [c' w'] ? mws' [Hc Hw] HF']; subst;
    [reflexivity|].
  cbn [fst snd] in *. subst c'. cbn [fresh_from] in *.
  apply andb_true_iff in H as [H1 H2]. apply andb_true_iff. split.
  - apply Z.leb_le in H1. apply Z.leb_le. lia.
  - exact (IH _ _ HF' H2).
Qed.
