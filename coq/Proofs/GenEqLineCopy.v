(* Proofs/GenEqLineCopy.v — stage 6 (b): the Gallina TRANSLATION (Gen/GoLineCopy.v, translator/go2heap.go)
   of Line.Copy (client/line.go) against Model/LineCopy.v copy_line, the model used by the C15
   theorems.

   The generated code has three heaps (Line objects, the backing arrays of []string, string maps)
   and ONE allocation counter; Model/LineCopy.v has one list heap holding the three kinds of
   objects (address = index).  With the single counter the generated code allocates in the model's
   order (the Args array, then the Tags map, then the Line), so address pn i corresponds to index
   i: [sim g hp] says the counter is pn (length hp) and each of the three heaps is the view of the
   list at the objects of its kind.  Copy preserves it and returns the corresponding address, for
   every run on which the model does not panic (the model reads the Args array even when the
   length is 0 and panics on a dangling index; Go's copy of 0 elements reads nothing).
   The abstract map type of the class is LineLib.tagmap (empty = [], set = tags_set), the order of
   range is the model's [enum]; Time is not modelled (unit).
   std++ side; LineCopy / GoBytes are Required, not Imported (notation clash). *)
From stdpp Require Import gmap.
From Verif Require GoLineCopy.
From Verif Require GoBytes LineLib LineCopy RegistryProofs.
Open Scope Z_scope.

Notation rOk := GoBytes.Ok.
Notation rPanic := GoBytes.Panic.

Record lobj := { ln_tags : option positive; ln_nick : list N; ln_ident : list N; ln_host : list N;
                 ln_src : list N; ln_cmd : list N; ln_raw : list N; ln_args : option positive * Z; ln_time : unit }.
Record cstate := { c_lines : gmap positive lobj; c_arrs : gmap positive (list (list N));
                   c_maps : gmap positive LineLib.tagmap; c_next : positive }.

Definition impl_ops (enum : LineLib.tagmap -> LineLib.tagmap) : GoLineCopy.heap_ops := {|
  GoLineCopy.HS := cstate;
  GoLineCopy.Line_obj := lobj;
  GoLineCopy.StrMap_val := LineLib.tagmap;
  GoLineCopy.Time_val := unit;
  GoLineCopy.hs_next := c_next;
  GoLineCopy.hs_bump := fun g => Build_cstate (c_lines g) (c_arrs g) (c_maps g) (Pos.succ (c_next g));
  GoLineCopy.heap_Line := c_lines;
  GoLineCopy.put_Line := fun g a o => Build_cstate (<[a := o]> (c_lines g)) (c_arrs g) (c_maps g) (c_next g);
  GoLineCopy.Line_get_Tags := ln_tags;
  GoLineCopy.Line_set_Tags := fun o v => Build_lobj v (ln_nick o) (ln_ident o) (ln_host o) (ln_src o) (ln_cmd o) (ln_raw o) (ln_args o) (ln_time o);
  GoLineCopy.Line_get_Nick := ln_nick;
  GoLineCopy.Line_set_Nick := fun o v => Build_lobj (ln_tags o) v (ln_ident o) (ln_host o) (ln_src o) (ln_cmd o) (ln_raw o) (ln_args o) (ln_time o);
  GoLineCopy.Line_get_Ident := ln_ident;
  GoLineCopy.Line_set_Ident := fun o v => Build_lobj (ln_tags o) (ln_nick o) v (ln_host o) (ln_src o) (ln_cmd o) (ln_raw o) (ln_args o) (ln_time o);
  GoLineCopy.Line_get_Host := ln_host;
  GoLineCopy.Line_set_Host := fun o v => Build_lobj (ln_tags o) (ln_nick o) (ln_ident o) v (ln_src o) (ln_cmd o) (ln_raw o) (ln_args o) (ln_time o);
  GoLineCopy.Line_get_Src := ln_src;
  GoLineCopy.Line_set_Src := fun o v => Build_lobj (ln_tags o) (ln_nick o) (ln_ident o) (ln_host o) v (ln_cmd o) (ln_raw o) (ln_args o) (ln_time o);
  GoLineCopy.Line_get_Cmd := ln_cmd;
  GoLineCopy.Line_set_Cmd := fun o v => Build_lobj (ln_tags o) (ln_nick o) (ln_ident o) (ln_host o) (ln_src o) v (ln_raw o) (ln_args o) (ln_time o);
  GoLineCopy.Line_get_Raw := ln_raw;
  GoLineCopy.Line_set_Raw := fun o v => Build_lobj (ln_tags o) (ln_nick o) (ln_ident o) (ln_host o) (ln_src o) (ln_cmd o) v (ln_args o) (ln_time o);
  GoLineCopy.Line_get_Args := ln_args;
  GoLineCopy.Line_set_Args := fun o v => Build_lobj (ln_tags o) (ln_nick o) (ln_ident o) (ln_host o) (ln_src o) (ln_cmd o) (ln_raw o) v (ln_time o);
  GoLineCopy.Line_get_Time := ln_time;
  GoLineCopy.Line_set_Time := fun o v => Build_lobj (ln_tags o) (ln_nick o) (ln_ident o) (ln_host o) (ln_src o) (ln_cmd o) (ln_raw o) (ln_args o) v;
  GoLineCopy.Line_mk := Build_lobj;
  GoLineCopy.heap_StrArr := c_arrs;
  GoLineCopy.put_StrArr := fun g a o => Build_cstate (c_lines g) (<[a := o]> (c_arrs g)) (c_maps g) (c_next g);
  GoLineCopy.heap_StrMap := c_maps;
  GoLineCopy.put_StrMap := fun g a o => Build_cstate (c_lines g) (c_arrs g) (<[a := o]> (c_maps g)) (c_next g);
  GoLineCopy.StrMap_empty := [];
  GoLineCopy.StrMap_set := LineLib.tags_set;
  GoLineCopy.enumS := enum
|}.

(* ---------- the simulation relation ---------- *)
Definition pn (i : nat) : positive := Pos.of_succ_nat i.
Lemma pn_inj i j : pn i = pn j -> i = j.
Proof. apply SuccNat2Pos.inj. Qed.

(* the six scalar fields are the model's list lo_scal, in the order Nick, Ident, Host, Src, Cmd, Raw *)
Definition conv (l : LineCopy.lineobj) : lobj :=
  let sc := LineCopy.lo_scal l in
  {| ln_tags := option_map pn (LineCopy.lo_tags_at l);
     ln_nick := nth 0 sc []; ln_ident := nth 1 sc []; ln_host := nth 2 sc []; ln_src := nth 3 sc [];
     ln_cmd := nth 4 sc []; ln_raw := nth 5 sc [];
     ln_args := (Some (pn (LineCopy.lo_args_at l)), Z.of_nat (LineCopy.lo_args_len l));
     ln_time := tt |}.
Definition view_line (o : option LineCopy.obj) : option lobj :=
  match o with Some (LineCopy.OLine l) => Some (conv l) | _ => None end.
Definition view_args (o : option LineCopy.obj) : option (list (list N)) :=
  match o with Some (LineCopy.OArgs a) => Some a | _ => None end.
Definition view_tags (o : option LineCopy.obj) : option LineLib.tagmap :=
  match o with Some (LineCopy.OTags m) => Some m | _ => None end.
Record sim (g : cstate) (hp : LineCopy.lheap) : Prop := {
  sim_next : c_next g = pn (length hp);
  sim_lines : forall i, c_lines g !! pn i = view_line (nth_error hp i);
  sim_arrs : forall i, c_arrs g !! pn i = view_args (nth_error hp i);
  sim_maps : forall i, c_maps g !! pn i = view_tags (nth_error hp i)
}.

Lemma nth_snoc {A} (l : list A) x i :
  nth_error (l ++ [x]) i = if decide (i = length l) then Some x else nth_error l i.
Proof.
  destruct (decide (i = length l)) as [->|Hne]; [apply RegistryProofs.nth_snoc_new|].
  destruct (decide (i < length l)%nat); [by apply RegistryProofs.nth_snoc_old|].
  assert (nth_error l i = None) as -> by (apply nth_error_None; lia).
  apply nth_error_None. rewrite app_length. simpl. lia.
Qed.

Lemma sim_snoc g hp o :
  sim g hp ->
  sim {| c_lines := match view_line (Some o) with Some x => <[c_next g := x]> (c_lines g) | None => c_lines g end;
         c_arrs := match view_args (Some o) with Some x => <[c_next g := x]> (c_arrs g) | None => c_arrs g end;
         c_maps := match view_tags (Some o) with Some x => <[c_next g := x]> (c_maps g) | None => c_maps g end;
         c_next := Pos.succ (c_next g) |} (hp ++ [o]).
Proof.
  intros [Hn HL HA HM]. split; simpl.
  - rewrite Hn, app_length. simpl. by rewrite Nat.add_1_r.
  - intros i. rewrite nth_snoc, Hn. destruct (decide (i = length hp)) as [->|Hne].
    + destruct o; simpl; rewrite ?lookup_insert; try done; by rewrite HL, (proj2 (nth_error_None hp (length hp))) by lia.
    + destruct o; simpl; rewrite ?lookup_insert_ne by (intros E; by apply pn_inj in E); apply HL.
  - intros i. rewrite nth_snoc, Hn. destruct (decide (i = length hp)) as [->|Hne].
    + destruct o; simpl; rewrite ?lookup_insert; try done; by rewrite HA, (proj2 (nth_error_None hp (length hp))) by lia.
    + destruct o; simpl; rewrite ?lookup_insert_ne by (intros E; by apply pn_inj in E); apply HA.
  - intros i. rewrite nth_snoc, Hn. destruct (decide (i = length hp)) as [->|Hne].
    + destruct o; simpl; rewrite ?lookup_insert; try done; by rewrite HM, (proj2 (nth_error_None hp (length hp))) by lia.
    + destruct o; simpl; rewrite ?lookup_insert_ne by (intros E; by apply pn_inj in E); apply HM.
Qed.

(* the loop  for k, v := range l.Tags { nl.Tags[k] = v }  on the fresh map at address b *)
Lemma fold_tags enum b (l : list (list N * list N)) : forall g m0,
  c_maps g !! b = Some m0 ->
  GoLineCopy.go_foldM (fun (acc_ : cstate) (e : list N * list N) =>
      c_maps acc_ !! b ≫= (fun m15 =>
        Some (@GoLineCopy.put_StrMap (impl_ops enum) acc_ b (LineLib.tags_set m15 e.1 e.2)))) g l
  = Some (Build_cstate (c_lines g) (c_arrs g)
            (<[b := fold_left (fun acc kv => LineLib.tags_set acc (fst kv) (snd kv)) l m0]> (c_maps g)) (c_next g)).
Proof.
  induction l as [|e l IH]; intros g m0 Hb; simpl.
  - rewrite insert_id by done. by destruct g.
  - rewrite Hb. simpl. rewrite (IH _ (LineLib.tags_set m0 e.1 e.2)) by (simpl; apply lookup_insert).
    simpl. by rewrite insert_insert.
Qed.

Lemma make_eq enum g (n : nat) :
  @GoLineCopy.go_make_strs (impl_ops enum) g (Z.of_nat n)
  = Some (Build_cstate (c_lines g) (<[c_next g := replicate n []]> (c_arrs g)) (c_maps g) (Pos.succ (c_next g)),
          (Some (c_next g), Z.of_nat n)).
Proof.
  unfold GoLineCopy.go_make_strs. simpl. destruct (Z.of_nat n <? 0) eqn:E; [lia|]. by rewrite Nat2Z.id.
Qed.
Lemma copy_eq enum g (n : nat) dst src arr :
  c_arrs g !! dst = Some (replicate n []) -> c_arrs g !! src = Some arr -> (n <= length arr)%nat ->
  @GoLineCopy.go_copy_strs (impl_ops enum) g (Some dst, Z.of_nat n) (Some src, Z.of_nat n)
  = Some (Build_cstate (c_lines g) (<[dst := take n arr]> (c_arrs g)) (c_maps g) (c_next g)).
Proof.
  intros Hd Hs Hn. unfold GoLineCopy.go_copy_strs. simpl. rewrite Z.min_id.
  destruct (Z.of_nat n <=? 0) eqn:E.
  - assert (n = 0)%nat as -> by lia. simpl. rewrite insert_id; [by destruct g|]. by rewrite Hd.
  - rewrite Hd, Hs. simpl. rewrite replicate_length.
    destruct ((Z.of_nat (length arr) <? Z.of_nat n) || (Z.of_nat n <? Z.of_nat n)) eqn:E'.
    { apply orb_true_iff in E' as [E'|E']; lia. }
    rewrite Nat2Z.id. rewrite drop_replicate, Nat.sub_diag. simpl. by rewrite app_nil_r.
Qed.

Theorem go_Line_Copy_sim enum g hp a hp' a' : sim g hp ->
  LineCopy.copy_line enum hp a = rOk (hp', a') ->
  exists g', @GoLineCopy.go_Line_Copy (impl_ops enum) g (Some (pn a)) = Some (g', Some (pn a')) /\ sim g' hp'.
Proof.
  intros Hsim. pose proof Hsim as [Hn HL HA HM].
  unfold LineCopy.copy_line, GoLineCopy.go_Line_Copy. simpl.
  unfold LineCopy.get_line. rewrite (HL a).
  destruct (nth_error hp a) as [[l|?|?]|] eqn:Ea; simpl; try done.
  unfold LineCopy.get_args.
  destruct (nth_error hp (LineCopy.lo_args_at l)) as [[?|arr|?]|] eqn:Earr; simpl; try done.
  destruct (length arr <? LineCopy.lo_args_len l)%nat eqn:Elen; [done|].
  apply Nat.ltb_ge in Elen.
  rewrite make_eq. simpl. rewrite (HL a), Ea. simpl.
  assert (Hne : pn (LineCopy.lo_args_at l) <> c_next g).
  { rewrite Hn. intros E. apply pn_inj in E. apply RegistryProofs.nth_some_lt in Earr. lia. }
  rewrite (copy_eq enum _ _ _ _ arr); simpl;
    [|by rewrite lookup_insert|rewrite lookup_insert_ne by done; by rewrite (HA (LineCopy.lo_args_at l)), Earr|done].
  rewrite insert_insert. rewrite (HL a), Ea. simpl.
  pose proof (sim_snoc g hp (LineCopy.OArgs (take (LineCopy.lo_args_len l) arr)) Hsim) as Hsim1. simpl in Hsim1.
  destruct (LineCopy.lo_tags_at l) as [ta|] eqn:Et; simpl.
  - unfold LineCopy.get_tags.
    destruct (nth_error hp ta) as [[?|?|m]|] eqn:Eta; simpl; try done.
    intros [= <- <-].
    assert (Hta : pn ta <> Pos.succ (c_next g)).
    { rewrite Hn. change (Pos.succ (pn (length hp))) with (pn (S (length hp))). intros E. apply pn_inj in E.
      apply RegistryProofs.nth_some_lt in Eta. lia. }
    rewrite lookup_insert_ne by done. rewrite (HM ta), Eta. simpl.
    pose proof (fold_tags enum (Pos.succ (c_next g)) (enum m)
      (Build_cstate (c_lines g) (<[c_next g:=take (LineCopy.lo_args_len l) arr]> (c_arrs g))
                    (<[Pos.succ (c_next g):=[]]> (c_maps g)) (Pos.succ (Pos.succ (c_next g)))) []) as Hf.
    specialize (Hf (lookup_insert _ _ _)). simpl in Hf.
    match goal with |- context [GoLineCopy.go_foldM ?f ?g0 ?l0] =>
      match type of Hf with _ = ?rhs => assert (Hf' : GoLineCopy.go_foldM f g0 l0 = rhs) by exact Hf end end.
    rewrite Hf'. clear Hf Hf'. simpl. rewrite insert_insert.
    eexists. split.
    { do 3 f_equal. rewrite Hn, !app_length. simpl. rewrite !Nat.add_1_r. reflexivity. }
    pose proof (sim_snoc _ _ (LineCopy.OTags (LineCopy.copy_tags_enum (enum m))) Hsim1) as Hsim2. simpl in Hsim2.
    match goal with |- sim _ (_ ++ [?o]) => pose proof (sim_snoc _ _ o Hsim2) as Hsim3 end. simpl in Hsim3.
    rewrite Hn in *. rewrite !app_length in *. simpl in *. rewrite !Nat.add_1_r in *.
    exact Hsim3.
  - intros [= <- <-]. eexists. split.
    { do 3 f_equal. rewrite Hn, !app_length. simpl. rewrite !Nat.add_1_r. reflexivity. }
    match goal with |- sim _ (_ ++ [?o]) => pose proof (sim_snoc _ _ o Hsim1) as Hsim3 end. simpl in Hsim3.
    unfold conv in Hsim3. simpl in Hsim3. rewrite <- Hn in Hsim3. exact Hsim3.
Qed.
