(* Proofs/GenEqState.v — stage 2, state handlers: the Gallina TRANSLATION (Gen/GoFuncs.v) of
   client/state_handlers.go h_STNICK, h_PART, h_KICK, h_QUIT, h_TOPIC, h_324, h_332, h_671 is
   equal to Model/StateHandlers.v over the tracker model of Model/TrackerSpec.v: for EVERY Tracker
   record [trk] whose methods are TrackerSpec's sp_* (results projected to the modelled fields of
   *state.Nick / *state.Channel, which these handlers only test for nil or read .Nick of), a
   generated handler started with tracking on returns the model's final tracker state when the
   model finishes, and Panic exactly when the model panics.
   Not covered: h_JOIN, h_MODE, h_311, h_352 (they call Nick.Equals = reflect.DeepEqual over
   fields the value representation does not carry) and h_353 (fallthrough inside a loop): the
   translator refuses them (go_..._UNSUPPORTED is not even requested).
   std++ side (TrackerSpec, StateHandlers): Required, not Imported. *)
From Verif Require Import GoBytes LineLib GoBytesFacts Line.
From Verif Require Import GoFuncs GenEqTac.
From Verif Require Commands GenEqCmd.
From Verif Require TrackerSpec StateHandlers LineTotal.
Open Scope Z_scope.

(* the unmodelled fields of state.Nick / state.Channel (Modes, Channels / Modes, Nicks) are ONE
   abstract component of the generated tuples; here it is the rest of TrackerSpec's snapshots *)
Notation nrest := (TrackerSpec.nickmode * list (TrackerSpec.name * TrackerSpec.privs))%type.
Notation crest := (TrackerSpec.chanmode * list (TrackerSpec.name * TrackerSpec.privs))%type.
Notation gnick := (@go_state_Nick nrest).
Notation gchan := (@go_state_Channel crest).
Definition nrest_eqb (a b : nrest) : bool := stdpp.decidable.bool_decide (a = b).
Definition nsnap (n : TrackerSpec.nick_snap) : gnick :=
  (TrackerSpec.sn_nick n, TrackerSpec.sn_ident n, TrackerSpec.sn_host n, TrackerSpec.sn_name n,
   (TrackerSpec.sn_modes n, TrackerSpec.sn_chans n)).
Definition csnap (c : TrackerSpec.chan_snap) : gchan :=
  (TrackerSpec.sc_name c, TrackerSpec.sc_topic c, (TrackerSpec.sc_modes c, TrackerSpec.sc_nicks c)).
Definition psnap (p : TrackerSpec.privs) : go_state_ChanPrivs :=
  (TrackerSpec.cp_q p, TrackerSpec.cp_a p, TrackerSpec.cp_o p, TrackerSpec.cp_h p, TrackerSpec.cp_v p).
Definition liftn (r : TrackerSpec.tstate * option TrackerSpec.nick_snap) := (fst r, option_map nsnap (snd r)).
Definition liftc (r : TrackerSpec.tstate * option TrackerSpec.chan_snap) := (fst r, option_map csnap (snd r)).
Definition liftp (r : TrackerSpec.tstate * option TrackerSpec.privs) := (fst r, option_map psnap (snd r)).
Definition liftpb (r : TrackerSpec.tstate * (option TrackerSpec.privs * bool)) :=
  (fst r, (option_map psnap (fst (snd r)), snd (snd r))).

(* Nick.Equals = reflect.DeepEqual on the generated side is snapshot equality on the model side *)
Lemma nsnap_eqb a b :
  go_state_Nick_eqb nrest_eqb (Some (nsnap a)) (Some (nsnap b)) = stdpp.decidable.bool_decide (a = b).
Proof.
  destruct a as [a1 a2 a3 a4 a5 a6], b as [b1 b2 b3 b4 b5 b6].
  cbn [go_state_Nick_eqb nsnap TrackerSpec.sn_nick TrackerSpec.sn_ident TrackerSpec.sn_host
       TrackerSpec.sn_name TrackerSpec.sn_modes TrackerSpec.sn_chans]. unfold nrest_eqb.
  apply Bool.eq_iff_eq_true.
  rewrite !andb_true_iff, !beq_eq, !stdpp.decidable.bool_decide_eq_true. split.
  - intros [[[[-> ->] ->] ->] H]. inversion H. reflexivity.
  - intros H. inversion H. repeat split; reflexivity.
Qed.

Definition of_hres (r : StateHandlers.hres) : res (option TrackerSpec.tstate) :=
  match r with
  | StateHandlers.HOk s => Ok (Some (StateHandlers.h_trk s))
  | StateHandlers.HPanic _ => Panic
  end.
Definition of_hres_out (r : StateHandlers.hres) : res (option TrackerSpec.tstate * list bytes) :=
  match r with
  | StateHandlers.HOk s => Ok (Some (StateHandlers.h_trk s), StateHandlers.h_out s)
  | StateHandlers.HPanic _ => Panic
  end.
Definition hst0 (t : TrackerSpec.tstate) : StateHandlers.hst :=
  {| StateHandlers.h_trk := t; StateHandlers.h_out := [] |}.

Section StateTie.
  Variable trk : @go_state_Tracker nrest crest TrackerSpec.tstate.
  Hypothesis HReNick : forall t a b, go_state_Tracker_ReNick trk t a b = liftn (TrackerSpec.sp_ReNick t a b).
  Hypothesis HDelNick : forall t a, go_state_Tracker_DelNick trk t a = liftn (TrackerSpec.sp_DelNick t a).
  Hypothesis HGetNick : forall t a, go_state_Tracker_GetNick trk t a = liftn (TrackerSpec.sp_GetNick t a).
  Hypothesis HNewNick : forall t a, go_state_Tracker_NewNick trk t a = liftn (TrackerSpec.sp_NewNick t a).
  Hypothesis HNickInfo : forall t a b c d,
    go_state_Tracker_NickInfo trk t a b c d = liftn (TrackerSpec.sp_NickInfo t a b c d).
  Hypothesis HNickModes : forall t a b, go_state_Tracker_NickModes trk t a b = liftn (TrackerSpec.sp_NickModes t a b).
  Hypothesis HMe : forall t, go_state_Tracker_Me trk t = liftn (TrackerSpec.sp_Me t).
  Hypothesis HGetChannel : forall t a, go_state_Tracker_GetChannel trk t a = liftc (TrackerSpec.sp_GetChannel t a).
  Hypothesis HNewChannel : forall t a, go_state_Tracker_NewChannel trk t a = liftc (TrackerSpec.sp_NewChannel t a).
  Hypothesis HTopic : forall t a b, go_state_Tracker_Topic trk t a b = liftc (TrackerSpec.sp_Topic t a b).
  Hypothesis HChannelModes : forall t a b c,
    go_state_Tracker_ChannelModes trk t a b c = liftc (TrackerSpec.sp_ChannelModes t a b c).
  Hypothesis HIsOn : forall t a b, go_state_Tracker_IsOn trk t a b = liftpb (TrackerSpec.sp_IsOn t a b).
  Hypothesis HAssociate : forall t a b, go_state_Tracker_Associate trk t a b = liftp (TrackerSpec.sp_Associate t a b).
  Hypothesis HDissociate : forall t a b, go_state_Tracker_Dissociate trk t a b = TrackerSpec.sp_Dissociate t a b.

  Lemma go_Me_spec me t :
    go_client_Conn_Me trk me (Some t)
    = Ok (option_map nsnap (snd (TrackerSpec.sp_Me t)), Some t, option_map nsnap (snd (TrackerSpec.sp_Me t))).
  Proof.
    cbv beta delta [go_client_Conn_Me]. cbn [go_is_some bind]. rewrite HMe.
    unfold liftn, TrackerSpec.sp_Me. reflexivity.
  Qed.

  Lemma me_equals_eqb t nk :
    go_state_Nick_eqb nrest_eqb (option_map nsnap (snd (TrackerSpec.sp_Me t))) (Some (nsnap nk))
    = StateHandlers.me_equals t (Some nk).
  Proof.
    unfold StateHandlers.me_equals. destruct (snd (TrackerSpec.sp_Me t)) as [m|]; cbn [option_map].
    - apply nsnap_eqb.
    - reflexivity.
  Qed.

  Ltac st_scrut x :=
    lazymatch x with
    | Some _ => fail | None => fail | Ok _ => fail | Panic => fail
    | (_, _) => fail | true => fail | false => fail
    | StateHandlers.HOk _ => fail | StateHandlers.HPanic _ => fail
    | _ => destruct x eqn:?
    end.
  Ltac st_crunch :=
    unfold StateHandlers.last_arg; unfold StateHandlers.arg, StateHandlers.pget, StateHandlers.tr_, StateHandlers.tr, StateHandlers.tru,
      StateHandlers.argslen, StateHandlers.is_some, StateHandlers.last_arg, StateHandlers.send,
      of_hres, of_hres_out, hst0, liftn, liftc, liftp, liftpb;
    cbv beta delta [go_client_Line_argslen];
    repeat first
      [ progress cbn [bind fst snd negb go_is_some option_map StateHandlers.h_trk StateHandlers.h_out
                      nsnap csnap go_state_Nick_get_Nick go_state_Channel_get_Name app
                      TrackerSpec.sn_nick TrackerSpec.sc_name]
      | rewrite HReNick | rewrite HDelNick | rewrite HGetNick | rewrite HNickModes
      | rewrite HGetChannel | rewrite HTopic | rewrite HChannelModes | rewrite HDissociate
      | rewrite HNewNick | rewrite HNickInfo | rewrite HMe | rewrite HNewChannel
      | rewrite HIsOn | rewrite HAssociate | rewrite go_Me_spec | rewrite me_equals_eqb | rewrite nsnap_eqb
      | progress unfold liftn, liftc, liftp, liftpb, TrackerSpec.sp_GetChannel, TrackerSpec.sp_GetNick
      | match goal with
        | |- context [elem_at ?a ?b] => destruct (elem_at a b) eqn:?
        | |- context [elems_from ?a ?b] => destruct (elems_from a b) eqn:?
        | |- context [byte_at ?a ?b] => destruct (byte_at a b) eqn:?
        | |- context [slice_from ?a ?b] => destruct (slice_from a b) eqn:?
        | |- context [llen ?a <=? ?b] => destruct (llen a <=? b) eqn:?
        | |- context [StateHandlers.me_equals ?a ?b] => destruct (StateHandlers.me_equals a b) eqn:?
        end
      | match goal with
        | |- context [TrackerSpec.chan_snapshot ?a ?b] => destruct (TrackerSpec.chan_snapshot a b) eqn:?
        | |- context [TrackerSpec.nick_snapshot ?a ?b] => destruct (TrackerSpec.nick_snapshot a b) eqn:?
        end
      | match goal with
        | |- context [if ?c then _ else _] => st_scrut c
        | |- context [match ?x with _ => _ end] => st_scrut x
        | |- context [bind ?r _] => st_scrut r
        end ];
    try reflexivity; try congruence; try (cbn [andb orb negb] in *; congruence);
    try (exfalso; match goal with
         | H : elem_at ?l ?i = Panic, G : (llen ?l <=? ?n) = false |- _ =>
             destruct (LineTotal.elem_at_ok l i) as (? & ? & _); [lia | congruence]
         end);
    try (match goal with H : StateHandlers.HOk _ = _ |- _ => inversion H; subst; reflexivity end);
    try (match goal with H : StateHandlers.HPanic _ = _ |- _ => inversion H; subst; reflexivity end).

  Lemma go_h_STNICK_eq t l :
    go_client_Conn_h_STNICK trk (Some t) (l_args l) (l_nick l) = of_hres (StateHandlers.h_STNICK l (hst0 t)).
  Proof. cbv beta delta [go_client_Conn_h_STNICK StateHandlers.h_STNICK]. timeout 60 st_crunch. Qed.

  Lemma go_h_PART_eq t l :
    go_client_Conn_h_PART trk (Some t) (l_args l) (l_nick l) = of_hres (StateHandlers.h_PART l (hst0 t)).
  Proof. cbv beta delta [go_client_Conn_h_PART StateHandlers.h_PART]. timeout 60 st_crunch. Qed.

  Lemma go_h_KICK_eq t l :
    go_client_Conn_h_KICK trk (Some t) (l_args l) = of_hres (StateHandlers.h_KICK l (hst0 t)).
  Proof. cbv beta delta [go_client_Conn_h_KICK StateHandlers.h_KICK]. timeout 60 st_crunch. Qed.

  Lemma go_h_QUIT_eq t l :
    go_client_Conn_h_QUIT trk (Some t) (l_nick l) = of_hres (StateHandlers.h_QUIT l (hst0 t)).
  Proof. cbv beta delta [go_client_Conn_h_QUIT StateHandlers.h_QUIT]. timeout 60 st_crunch. Qed.

  Lemma go_h_TOPIC_eq t l :
    go_client_Conn_h_TOPIC trk (Some t) (l_args l) = of_hres (StateHandlers.h_TOPIC l (hst0 t)).
  Proof. cbv beta delta [go_client_Conn_h_TOPIC StateHandlers.h_TOPIC]. timeout 60 st_crunch. Qed.

  Lemma go_h_324_eq t l :
    go_client_Conn_h_324 trk (Some t) (l_args l) = of_hres (StateHandlers.h_324 l (hst0 t)).
  Proof. cbv beta delta [go_client_Conn_h_324 StateHandlers.h_324]. timeout 60 st_crunch. Qed.

  Lemma go_h_332_eq t l :
    go_client_Conn_h_332 trk (Some t) (l_args l) = of_hres (StateHandlers.h_332 l (hst0 t)).
  Proof. cbv beta delta [go_client_Conn_h_332 StateHandlers.h_332]. timeout 60 st_crunch. Qed.

  Lemma go_h_671_eq t l :
    go_client_Conn_h_671 trk (Some t) (l_args l) = of_hres (StateHandlers.h_671 l (hst0 t)).
  Proof.
    cbv beta delta [go_client_Conn_h_671 StateHandlers.h_671]. unfold StateHandlers.m_plus_z.
    timeout 60 st_crunch.
  Qed.

  (* ---------- the handlers that call conn.Me().Equals(nk) ----------
     conn.Me() also assigns conn.cfg.Me; the state handlers' model (hst) does not carry cfg.Me
     (Client.v's st_calls_me does), so the statements project the generated result to the
     tracker (and the lines sent). *)
  Ltac me_crunch :=
    repeat first
      [ rewrite go_Me_spec | rewrite me_equals_eqb
      | progress cbn [bind fst snd negb go_is_some option_map]
      | progress st_crunch ].

  Lemma go_h_MODE_eq me t l :
    (r <- go_client_Conn_h_MODE nrest_eqb trk me (Some t) (l_args l) ;; Ok (snd r))
    = of_hres (StateHandlers.h_MODE l (hst0 t)).
  Proof.
    cbv beta delta [go_client_Conn_h_MODE StateHandlers.h_MODE]. timeout 120 me_crunch.
  Qed.

  Lemma go_h_311_eq me t l :
    (r <- go_client_Conn_h_311 nrest_eqb trk me (Some t) (l_args l) ;; Ok (snd r))
    = of_hres (StateHandlers.h_311 l (hst0 t)).
  Proof.
    cbv beta delta [go_client_Conn_h_311 StateHandlers.h_311]. timeout 120 me_crunch.
  Qed.

  Lemma go_h_352_eq me t l :
    (r <- go_client_Conn_h_352 nrest_eqb trk me (Some t) (l_args l) ;; Ok (snd r))
    = of_hres (StateHandlers.h_352 l (hst0 t)).
  Proof.
    cbv beta delta [go_client_Conn_h_352 StateHandlers.h_352 StateHandlers.who_flag].
    unfold StateHandlers.s_star, StateHandlers.s_B, StateHandlers.s_H, StateHandlers.m_plus_o,
      StateHandlers.m_plus_B, StateHandlers.m_plus_i, Line.s_space.
    timeout 120 me_crunch.
  Qed.


  (* ---------- h_JOIN: also sends MODE / WHO lines ---------- *)
  Lemma go_Mode1 x : go_client_Conn_Mode x [] = Ok (StateHandlers.mode_lines x).
  Proof. rewrite (GenEqCmd.go_Mode_eq StateHandlers.cmd_cfg0). reflexivity. Qed.
  Lemma go_Who1 x : go_client_Conn_Who x = Ok (StateHandlers.who_lines x).
  Proof. rewrite (GenEqCmd.go_Who_eq StateHandlers.cmd_cfg0). reflexivity. Qed.

  (* DeepEqual(nil, nil) is true while the model's me_equals is false when Me() is nil: they
     agree as soon as the tracker knows its own nick (always, for a tracker made by NewTracker) *)
  Lemma me_equals_eqb_opt t nk : StateHandlers.is_some (snd (TrackerSpec.sp_Me t)) = true ->
    go_state_Nick_eqb nrest_eqb (option_map nsnap (snd (TrackerSpec.sp_Me t))) (option_map nsnap nk)
    = StateHandlers.me_equals t nk.
  Proof.
    intros Hme. destruct nk as [n|]; [apply me_equals_eqb|].
    unfold StateHandlers.me_equals. destruct (snd (TrackerSpec.sp_Me t)); [reflexivity|discriminate].
  Qed.

  Lemma me_equals_eqb_none t : StateHandlers.is_some (snd (TrackerSpec.sp_Me t)) = true ->
    go_state_Nick_eqb nrest_eqb (option_map nsnap (snd (TrackerSpec.sp_Me t))) None
    = StateHandlers.me_equals t None.
  Proof. exact (me_equals_eqb_opt t None). Qed.

  Lemma go_h_JOIN_eq me t l : StateHandlers.is_some (snd (TrackerSpec.sp_Me t)) = true ->
    (r <- go_client_Conn_h_JOIN nrest_eqb trk me (Some t) (l_args l) (l_host l) (l_ident l) (l_nick l) ;;
     Ok (snd (fst r), snd r))
    = of_hres_out (StateHandlers.h_JOIN l (hst0 t)).
  Proof.
    intros Hme.
    cbv beta delta [go_client_Conn_h_JOIN StateHandlers.h_JOIN StateHandlers.join_nick StateHandlers.join_assoc].
    cbv zeta.
    unfold StateHandlers.arg, StateHandlers.pget. cbn [hst0 StateHandlers.h_trk].
    destruct (elem_at (l_args l) 0) as [a0|]; [|reflexivity]. cbn [bind].
    repeat first [ rewrite HGetChannel | rewrite HGetNick | progress cbn [bind fst snd]
                 | progress unfold liftc, liftn, TrackerSpec.sp_GetChannel, TrackerSpec.sp_GetNick ].
    cbv zeta. rewrite ?go_Me_spec.
    destruct (TrackerSpec.chan_snapshot t a0) as [ch|], (TrackerSpec.nick_snapshot t (l_nick l)) as [nk|] eqn:Hnk;
      cbn [option_map go_is_some negb bind StateHandlers.is_some];
      rewrite ?(me_equals_eqb_none t Hme), ?me_equals_eqb;
      unfold hst0;
      try (destruct (StateHandlers.me_equals t _); cbn [negb bind]);
      repeat first
        [ progress cbn [bind fst snd app negb StateHandlers.h_trk StateHandlers.h_out]
        | rewrite HNewNick | rewrite HNickInfo | rewrite HNewChannel | rewrite HAssociate
        | rewrite go_Mode1 | rewrite go_Who1
        | progress unfold liftn, liftc, liftp, StateHandlers.tr_, StateHandlers.tr, StateHandlers.send, of_hres_out ];
      reflexivity.
  Qed.


  (* ---------- h_353: the loop over the names, with the fallthrough switch ---------- *)
  Lemma prefix_mode_none c :
    (c =? 126)%N = false -> (c =? 38)%N = false -> (c =? 64)%N = false -> (c =? 37)%N = false ->
    (c =? 43)%N = false -> StateHandlers.prefix_mode c = None.
  Proof.
    intros H1 H2 H3 H4 H5. destruct c as [|p]; [reflexivity|].
    do 8 (try (match goal with q : positive |- _ => destruct q end; try reflexivity)).
    all: try (cbv in H1, H2, H3, H4, H5; discriminate).
  Qed.

  Lemma fst_IsOn t c n : fst (TrackerSpec.sp_IsOn t c n) = t.
  Proof.
    unfold TrackerSpec.sp_IsOn.
    repeat (match goal with |- context [match ?x with _ => _ end] => destruct x end); reflexivity.
  Qed.

  Definition hst_of (t : TrackerSpec.tstate) : StateHandlers.hst :=
    {| StateHandlers.h_trk := t; StateHandlers.h_out := [] |}.

  Lemma go_h_353_eq t l :
    go_client_Conn_h_353 trk (Some t) (l_args l) = of_hres (StateHandlers.h_353 l (hst0 t)).
  Proof.
    cbv beta delta [go_client_Conn_h_353 StateHandlers.h_353]. cbv zeta.
    unfold StateHandlers.last_arg; unfold StateHandlers.arg, StateHandlers.pget, StateHandlers.argslen.
    cbv beta delta [go_client_Line_argslen]. cbn [hst0 StateHandlers.h_trk].
    destruct (llen (l_args l) <=? 2); cbn [bind negb]; [reflexivity|].
    destruct (elem_at (l_args l) 2) as [a2|]; [|reflexivity]. cbn [bind].
    rewrite HGetChannel. unfold liftc, TrackerSpec.sp_GetChannel. cbn [bind fst snd].
    destruct (TrackerSpec.chan_snapshot t a2) as [ch|]; cbn [option_map go_is_some]; [|reflexivity].
    destruct (elem_at (l_args l) (llen (l_args l) - 1)) as [la|]; [|reflexivity]. cbn [bind].
    match goal with |- context [?F] => is_fix F; set (loop := F) end.
    assert (Hloop : forall nicks t',
              loop nicks (Some t') = of_hres (StateHandlers.names_loop (TrackerSpec.sc_name ch) nicks (hst_of t'))).
    { induction nicks as [|nick nicks IH]; intros t'; [reflexivity|].
      cbn [StateHandlers.names_loop]. unfold loop at 1; fold loop.
      unfold StateHandlers.names_step, StateHandlers.pget, StateHandlers.is_some, hst_of.
      rewrite ?ge_beq_nil. destruct (len nick =? 0); [apply IH|].
      destruct (byte_at nick 0) as [c|]; [|reflexivity]. cbn [bind].
      destruct (c =? 126)%N eqn:E1; [apply N.eqb_eq in E1; subst c|
      destruct (c =? 38)%N eqn:E2; [apply N.eqb_eq in E2; subst c|
      destruct (c =? 64)%N eqn:E3; [apply N.eqb_eq in E3; subst c|
      destruct (c =? 37)%N eqn:E4; [apply N.eqb_eq in E4; subst c|
      destruct (c =? 43)%N eqn:E5; [apply N.eqb_eq in E5; subst c|
      rewrite (prefix_mode_none c E1 E2 E3 E4 E5)]]]]];
        cbn [orb StateHandlers.prefix_mode N.eqb Pos.eqb bind];
        try (destruct (slice_from nick 1) as [nick'|]; [|reflexivity]; cbn [bind]);
        cbv zeta; unfold StateHandlers.tr_, StateHandlers.tr, hst_of in *;
        repeat first
          [ progress cbn [bind fst snd negb go_is_some option_map csnap go_state_Channel_get_Name
                          TrackerSpec.sc_name N.eqb Pos.eqb StateHandlers.h_trk StateHandlers.h_out]
          | rewrite HGetNick | rewrite HNewNick | rewrite HIsOn | rewrite HAssociate | rewrite HChannelModes
          | rewrite fst_IsOn
          | progress unfold liftn, liftc, liftp, liftpb, StateHandlers.is_some, TrackerSpec.sp_GetNick
          | match goal with
            | |- context [TrackerSpec.nick_snapshot ?a ?b] => destruct (TrackerSpec.nick_snapshot a b) eqn:?
            | |- context [snd (snd (TrackerSpec.sp_IsOn ?a ?b ?c))] => destruct (snd (snd (TrackerSpec.sp_IsOn a b c))) eqn:?
            end ];
        try apply IH. }
    rewrite bind_ok_r. apply Hloop.
  Qed.

End StateTie.

(* the hypotheses as one predicate, and the thirteen equalities together *)
Definition spec_tracker (trk : @go_state_Tracker nrest crest TrackerSpec.tstate) : Prop :=
  (forall t a b, go_state_Tracker_ReNick trk t a b = liftn (TrackerSpec.sp_ReNick t a b))
  /\ (forall t a, go_state_Tracker_DelNick trk t a = liftn (TrackerSpec.sp_DelNick t a))
  /\ (forall t a, go_state_Tracker_GetNick trk t a = liftn (TrackerSpec.sp_GetNick t a))
  /\ (forall t a, go_state_Tracker_NewNick trk t a = liftn (TrackerSpec.sp_NewNick t a))
  /\ (forall t a b c d, go_state_Tracker_NickInfo trk t a b c d = liftn (TrackerSpec.sp_NickInfo t a b c d))
  /\ (forall t a b, go_state_Tracker_NickModes trk t a b = liftn (TrackerSpec.sp_NickModes t a b))
  /\ (forall t, go_state_Tracker_Me trk t = liftn (TrackerSpec.sp_Me t))
  /\ (forall t a, go_state_Tracker_GetChannel trk t a = liftc (TrackerSpec.sp_GetChannel t a))
  /\ (forall t a, go_state_Tracker_NewChannel trk t a = liftc (TrackerSpec.sp_NewChannel t a))
  /\ (forall t a b, go_state_Tracker_Topic trk t a b = liftc (TrackerSpec.sp_Topic t a b))
  /\ (forall t a b c, go_state_Tracker_ChannelModes trk t a b c = liftc (TrackerSpec.sp_ChannelModes t a b c))
  /\ (forall t a b, go_state_Tracker_IsOn trk t a b = liftpb (TrackerSpec.sp_IsOn t a b))
  /\ (forall t a b, go_state_Tracker_Associate trk t a b = liftp (TrackerSpec.sp_Associate t a b))
  /\ (forall t a b, go_state_Tracker_Dissociate trk t a b = TrackerSpec.sp_Dissociate t a b).

(* handlers that only touch the tracker *)
Lemma go_state_handlers_eq trk : spec_tracker trk -> forall t l,
  go_client_Conn_h_STNICK trk (Some t) (l_args l) (l_nick l) = of_hres (StateHandlers.h_STNICK l (hst0 t))
  /\ go_client_Conn_h_PART trk (Some t) (l_args l) (l_nick l) = of_hres (StateHandlers.h_PART l (hst0 t))
  /\ go_client_Conn_h_KICK trk (Some t) (l_args l) = of_hres (StateHandlers.h_KICK l (hst0 t))
  /\ go_client_Conn_h_QUIT trk (Some t) (l_nick l) = of_hres (StateHandlers.h_QUIT l (hst0 t))
  /\ go_client_Conn_h_TOPIC trk (Some t) (l_args l) = of_hres (StateHandlers.h_TOPIC l (hst0 t))
  /\ go_client_Conn_h_324 trk (Some t) (l_args l) = of_hres (StateHandlers.h_324 l (hst0 t))
  /\ go_client_Conn_h_332 trk (Some t) (l_args l) = of_hres (StateHandlers.h_332 l (hst0 t))
  /\ go_client_Conn_h_671 trk (Some t) (l_args l) = of_hres (StateHandlers.h_671 l (hst0 t))
  /\ go_client_Conn_h_353 trk (Some t) (l_args l) = of_hres (StateHandlers.h_353 l (hst0 t)).
Proof.
  intros (H1 & H2 & H3 & H4 & H5 & H6 & H7 & H8 & H9 & H10 & H11 & H12 & H13 & H14) t l.
  split; [apply go_h_STNICK_eq; assumption|]. split; [apply go_h_PART_eq; assumption|].
  split; [apply go_h_KICK_eq; assumption|]. split; [apply go_h_QUIT_eq; assumption|].
  split; [apply go_h_TOPIC_eq; assumption|]. split; [apply go_h_324_eq; assumption|].
  split; [apply go_h_332_eq; assumption|]. split; [apply go_h_671_eq; assumption|].
  apply go_h_353_eq; assumption.
Qed.

(* handlers that call conn.Me() (it also assigns conn.cfg.Me: projected away here, Client.v's
   st_calls_me describes it) and compare with Nick.Equals; h_JOIN also sends lines *)
Lemma go_state_handlers_me_eq trk : spec_tracker trk -> forall me t l,
  (r <- go_client_Conn_h_MODE nrest_eqb trk me (Some t) (l_args l) ;; Ok (snd r))
    = of_hres (StateHandlers.h_MODE l (hst0 t))
  /\ (r <- go_client_Conn_h_311 nrest_eqb trk me (Some t) (l_args l) ;; Ok (snd r))
    = of_hres (StateHandlers.h_311 l (hst0 t))
  /\ (r <- go_client_Conn_h_352 nrest_eqb trk me (Some t) (l_args l) ;; Ok (snd r))
    = of_hres (StateHandlers.h_352 l (hst0 t))
  /\ (StateHandlers.is_some (snd (TrackerSpec.sp_Me t)) = true ->
      (r <- go_client_Conn_h_JOIN nrest_eqb trk me (Some t) (l_args l) (l_host l) (l_ident l) (l_nick l) ;;
       Ok (snd (fst r), snd r))
      = of_hres_out (StateHandlers.h_JOIN l (hst0 t))).
Proof.
  intros (H1 & H2 & H3 & H4 & H5 & H6 & H7 & H8 & H9 & H10 & H11 & H12 & H13 & H14) me t l.
  split; [apply go_h_MODE_eq; assumption|]. split; [apply go_h_311_eq; assumption|].
  split; [apply go_h_352_eq; assumption|]. intros Hme. apply go_h_JOIN_eq; assumption.
Qed.

(* satisfiable: TrackerSpec itself as a Tracker record *)
Definition spec_as_tracker : @go_state_Tracker nrest crest TrackerSpec.tstate :=
  {| go_state_Tracker_Associate := fun t a b => liftp (TrackerSpec.sp_Associate t a b);
     go_state_Tracker_ChannelModes := fun t a b c => liftc (TrackerSpec.sp_ChannelModes t a b c);
     go_state_Tracker_DelChannel := fun t a => liftc (TrackerSpec.sp_DelChannel t a);
     go_state_Tracker_DelNick := fun t a => liftn (TrackerSpec.sp_DelNick t a);
     go_state_Tracker_Dissociate := fun t a b => TrackerSpec.sp_Dissociate t a b;
     go_state_Tracker_GetChannel := fun t a => liftc (TrackerSpec.sp_GetChannel t a);
     go_state_Tracker_GetNick := fun t a => liftn (TrackerSpec.sp_GetNick t a);
     go_state_Tracker_IsOn := fun t a b => liftpb (TrackerSpec.sp_IsOn t a b);
     go_state_Tracker_Me := fun t => liftn (TrackerSpec.sp_Me t);
     go_state_Tracker_NewChannel := fun t a => liftc (TrackerSpec.sp_NewChannel t a);
     go_state_Tracker_NewNick := fun t a => liftn (TrackerSpec.sp_NewNick t a);
     go_state_Tracker_NickInfo := fun t a b c d => liftn (TrackerSpec.sp_NickInfo t a b c d);
     go_state_Tracker_NickModes := fun t a b => liftn (TrackerSpec.sp_NickModes t a b);
     go_state_Tracker_ReNick := fun t a b => liftn (TrackerSpec.sp_ReNick t a b);
     go_state_Tracker_String := fun t => (t, []);
     go_state_Tracker_Topic := fun t a b => liftc (TrackerSpec.sp_Topic t a b);
     go_state_Tracker_Wipe := fun t => TrackerSpec.sp_Wipe t |}.
Lemma spec_as_tracker_ok : spec_tracker spec_as_tracker.
Proof. repeat split. Qed.
