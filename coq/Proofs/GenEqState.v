(* Proofs/GenEqState.v — stage 2, state handlers: the Gallina TRANSLATION (Gen/GoFuncs.v) of
   client/state_handlers.go h_STNICK, h_PART, h_KICK, h_QUIT, h_TOPIC, h_324, h_332, h_671 is
   equal to Model/StateHandlers.v over the tracker model of Model/TrackerSpec.v: for EVERY Tracker
   record [trk] whose methods are TrackerSpec's sp_* (results projected to the modelled fields of
   *state.Nick / *state.Channel, which these handlers only test for nil or read .Nick of), a
   generated handler started with tracking on returns the model's final tracker state when the
   model finishes, and Panic exactly when the model panics.
   Not covered: h_JOIN, h_MODE, h_311, h_352 (they call Nick.Equals = reflect.DeepEqual over
   fields the value representation does not carry) and h_353 (fallthrough inside a loop): the
   translator refuses them (go_..._UNSUPPORTED is not even requested).
   std++ side (TrackerSpec, StateHandlers): Required, not Imported. *)
From Verif Require Import GoBytes LineLib GoBytesFacts Line.
From Verif Require Import GoFuncs GenEqTac.
From Verif Require TrackerSpec StateHandlers.
Open Scope Z_scope.

Definition nsnap (n : TrackerSpec.nick_snap) : go_state_Nick :=
  (TrackerSpec.sn_nick n, TrackerSpec.sn_ident n, TrackerSpec.sn_host n, TrackerSpec.sn_name n).
Definition csnap (c : TrackerSpec.chan_snap) : go_state_Channel :=
  (TrackerSpec.sc_name c, TrackerSpec.sc_topic c).
Definition liftn (r : TrackerSpec.tstate * option TrackerSpec.nick_snap) := (fst r, option_map nsnap (snd r)).
Definition liftc (r : TrackerSpec.tstate * option TrackerSpec.chan_snap) := (fst r, option_map csnap (snd r)).

Definition of_hres (r : StateHandlers.hres) : res (option TrackerSpec.tstate) :=
  match r with
  | StateHandlers.HOk s => Ok (Some (StateHandlers.h_trk s))
  | StateHandlers.HPanic _ => Panic
  end.
Definition hst0 (t : TrackerSpec.tstate) : StateHandlers.hst :=
  {| StateHandlers.h_trk := t; StateHandlers.h_out := [] |}.

Section StateTie.
  Variable trk : go_state_Tracker TrackerSpec.tstate.
  Hypothesis HReNick : forall t a b, go_state_Tracker_ReNick trk t a b = liftn (TrackerSpec.sp_ReNick t a b).
  Hypothesis HDelNick : forall t a, go_state_Tracker_DelNick trk t a = liftn (TrackerSpec.sp_DelNick t a).
  Hypothesis HGetNick : forall t a, go_state_Tracker_GetNick trk t a = liftn (TrackerSpec.sp_GetNick t a).
  Hypothesis HNickModes : forall t a b, go_state_Tracker_NickModes trk t a b = liftn (TrackerSpec.sp_NickModes t a b).
  Hypothesis HGetChannel : forall t a, go_state_Tracker_GetChannel trk t a = liftc (TrackerSpec.sp_GetChannel t a).
  Hypothesis HTopic : forall t a b, go_state_Tracker_Topic trk t a b = liftc (TrackerSpec.sp_Topic t a b).
  Hypothesis HChannelModes : forall t a b c,
    go_state_Tracker_ChannelModes trk t a b c = liftc (TrackerSpec.sp_ChannelModes t a b c).
  Hypothesis HDissociate : forall t a b, go_state_Tracker_Dissociate trk t a b = TrackerSpec.sp_Dissociate t a b.

  Ltac st_scrut x :=
    lazymatch x with
    | Some _ => fail | None => fail | Ok _ => fail | Panic => fail
    | (_, _) => fail | true => fail | false => fail
    | StateHandlers.HOk _ => fail | StateHandlers.HPanic _ => fail
    | _ => destruct x eqn:?
    end.
  Ltac st_crunch :=
    unfold StateHandlers.arg, StateHandlers.pget, StateHandlers.tr_, StateHandlers.tr, StateHandlers.tru,
      StateHandlers.argslen, StateHandlers.is_some, of_hres, hst0, liftn, liftc;
    cbv beta delta [go_client_Line_argslen];
    repeat first
      [ progress cbn [bind fst snd negb go_is_some option_map StateHandlers.h_trk StateHandlers.h_out
                      nsnap go_state_Nick_get_Nick]
      | rewrite HReNick | rewrite HDelNick | rewrite HGetNick | rewrite HNickModes
      | rewrite HGetChannel | rewrite HTopic | rewrite HChannelModes | rewrite HDissociate
      | progress unfold liftn, liftc, TrackerSpec.sp_GetChannel, TrackerSpec.sp_GetNick
      | match goal with
        | |- context [TrackerSpec.chan_snapshot ?a ?b] => destruct (TrackerSpec.chan_snapshot a b) eqn:?
        | |- context [TrackerSpec.nick_snapshot ?a ?b] => destruct (TrackerSpec.nick_snapshot a b) eqn:?
        end
      | match goal with
        | |- context [if ?c then _ else _] => st_scrut c
        | |- context [match ?x with _ => _ end] => st_scrut x
        | |- context [bind ?r _] => st_scrut r
        end ];
    try reflexivity; try congruence;
    try (match goal with H : StateHandlers.HOk _ = _ |- _ => inversion H; subst; reflexivity end);
    try (match goal with H : StateHandlers.HPanic _ = _ |- _ => inversion H; subst; reflexivity end).

  Lemma go_h_STNICK_eq t l :
    go_client_Conn_h_STNICK trk (Some t) (l_args l) (l_nick l) = of_hres (StateHandlers.h_STNICK l (hst0 t)).
  Proof. cbv beta delta [go_client_Conn_h_STNICK StateHandlers.h_STNICK]. timeout 60 st_crunch. Qed.

  Lemma go_h_PART_eq t l :
    go_client_Conn_h_PART trk (Some t) (l_args l) (l_nick l) = of_hres (StateHandlers.h_PART l (hst0 t)).
  Proof. cbv beta delta [go_client_Conn_h_PART StateHandlers.h_PART]. timeout 60 st_crunch. Qed.

  Lemma go_h_KICK_eq t l :
    go_client_Conn_h_KICK trk (Some t) (l_args l) = of_hres (StateHandlers.h_KICK l (hst0 t)).
  Proof. cbv beta delta [go_client_Conn_h_KICK StateHandlers.h_KICK]. timeout 60 st_crunch. Qed.

  Lemma go_h_QUIT_eq t l :
    go_client_Conn_h_QUIT trk (Some t) (l_nick l) = of_hres (StateHandlers.h_QUIT l (hst0 t)).
  Proof. cbv beta delta [go_client_Conn_h_QUIT StateHandlers.h_QUIT]. timeout 60 st_crunch. Qed.

  Lemma go_h_TOPIC_eq t l :
    go_client_Conn_h_TOPIC trk (Some t) (l_args l) = of_hres (StateHandlers.h_TOPIC l (hst0 t)).
  Proof. cbv beta delta [go_client_Conn_h_TOPIC StateHandlers.h_TOPIC]. timeout 60 st_crunch. Qed.

  Lemma go_h_324_eq t l :
    go_client_Conn_h_324 trk (Some t) (l_args l) = of_hres (StateHandlers.h_324 l (hst0 t)).
  Proof. cbv beta delta [go_client_Conn_h_324 StateHandlers.h_324]. timeout 60 st_crunch. Qed.

  Lemma go_h_332_eq t l :
    go_client_Conn_h_332 trk (Some t) (l_args l) = of_hres (StateHandlers.h_332 l (hst0 t)).
  Proof. cbv beta delta [go_client_Conn_h_332 StateHandlers.h_332]. timeout 60 st_crunch. Qed.

  Lemma go_h_671_eq t l :
    go_client_Conn_h_671 trk (Some t) (l_args l) = of_hres (StateHandlers.h_671 l (hst0 t)).
  Proof.
    cbv beta delta [go_client_Conn_h_671 StateHandlers.h_671]. unfold StateHandlers.m_plus_z.
    timeout 60 st_crunch.
  Qed.
End StateTie.

(* the hypotheses as one predicate, and the eight equalities together *)
Definition spec_tracker (trk : go_state_Tracker TrackerSpec.tstate) : Prop :=
  (forall t a b, go_state_Tracker_ReNick trk t a b = liftn (TrackerSpec.sp_ReNick t a b))
  /\ (forall t a, go_state_Tracker_DelNick trk t a = liftn (TrackerSpec.sp_DelNick t a))
  /\ (forall t a, go_state_Tracker_GetNick trk t a = liftn (TrackerSpec.sp_GetNick t a))
  /\ (forall t a b, go_state_Tracker_NickModes trk t a b = liftn (TrackerSpec.sp_NickModes t a b))
  /\ (forall t a, go_state_Tracker_GetChannel trk t a = liftc (TrackerSpec.sp_GetChannel t a))
  /\ (forall t a b, go_state_Tracker_Topic trk t a b = liftc (TrackerSpec.sp_Topic t a b))
  /\ (forall t a b c, go_state_Tracker_ChannelModes trk t a b c = liftc (TrackerSpec.sp_ChannelModes t a b c))
  /\ (forall t a b, go_state_Tracker_Dissociate trk t a b = TrackerSpec.sp_Dissociate t a b).

Lemma go_state_handlers_eq trk : spec_tracker trk -> forall t l,
  go_client_Conn_h_STNICK trk (Some t) (l_args l) (l_nick l) = of_hres (StateHandlers.h_STNICK l (hst0 t))
  /\ go_client_Conn_h_PART trk (Some t) (l_args l) (l_nick l) = of_hres (StateHandlers.h_PART l (hst0 t))
  /\ go_client_Conn_h_KICK trk (Some t) (l_args l) = of_hres (StateHandlers.h_KICK l (hst0 t))
  /\ go_client_Conn_h_QUIT trk (Some t) (l_nick l) = of_hres (StateHandlers.h_QUIT l (hst0 t))
  /\ go_client_Conn_h_TOPIC trk (Some t) (l_args l) = of_hres (StateHandlers.h_TOPIC l (hst0 t))
  /\ go_client_Conn_h_324 trk (Some t) (l_args l) = of_hres (StateHandlers.h_324 l (hst0 t))
  /\ go_client_Conn_h_332 trk (Some t) (l_args l) = of_hres (StateHandlers.h_332 l (hst0 t))
  /\ go_client_Conn_h_671 trk (Some t) (l_args l) = of_hres (StateHandlers.h_671 l (hst0 t)).
Proof.
  intros (H1 & H2 & H3 & H4 & H5 & H6 & H7 & H8) t l.
  split; [apply go_h_STNICK_eq; assumption|]. split; [apply go_h_PART_eq; assumption|].
  split; [apply go_h_KICK_eq; assumption|]. split; [apply go_h_QUIT_eq; assumption|].
  split; [apply go_h_TOPIC_eq; assumption|]. split; [apply go_h_324_eq; assumption|].
  split; [apply go_h_332_eq; assumption|apply go_h_671_eq; assumption].
Qed.

(* satisfiable: TrackerSpec itself as a Tracker record (the methods these eight handlers do not
   call are filled with functions that do nothing) *)
Definition spec_as_tracker : go_state_Tracker TrackerSpec.tstate :=
  {| go_state_Tracker_Associate := fun t _ _ => (t, None);
     go_state_Tracker_ChannelModes := fun t a b c => liftc (TrackerSpec.sp_ChannelModes t a b c);
     go_state_Tracker_DelChannel := fun t _ => (t, None);
     go_state_Tracker_DelNick := fun t a => liftn (TrackerSpec.sp_DelNick t a);
     go_state_Tracker_Dissociate := fun t a b => TrackerSpec.sp_Dissociate t a b;
     go_state_Tracker_GetChannel := fun t a => liftc (TrackerSpec.sp_GetChannel t a);
     go_state_Tracker_GetNick := fun t a => liftn (TrackerSpec.sp_GetNick t a);
     go_state_Tracker_IsOn := fun t _ _ => (t, (None, false));
     go_state_Tracker_Me := fun t => liftn (TrackerSpec.sp_Me t);
     go_state_Tracker_NewChannel := fun t _ => (t, None);
     go_state_Tracker_NewNick := fun t _ => (t, None);
     go_state_Tracker_NickInfo := fun t _ _ _ _ => (t, None);
     go_state_Tracker_NickModes := fun t a b => liftn (TrackerSpec.sp_NickModes t a b);
     go_state_Tracker_ReNick := fun t a b => liftn (TrackerSpec.sp_ReNick t a b);
     go_state_Tracker_String := fun t => (t, []);
     go_state_Tracker_Topic := fun t a b => liftc (TrackerSpec.sp_Topic t a b);
     go_state_Tracker_Wipe := fun t => t |}.
Lemma spec_as_tracker_ok : spec_tracker spec_as_tracker.
Proof. repeat split. Qed.
