(* Proofs/RecvSessionProofs.v — C02, session part: with every handler call wrapped by the
   deferred Recover, no server line makes the sequential receive loop crash, every line is
   accounted for, and the parsable lines are dispatched in wire order. *)
From Verif Require Import GoBytes LineLib Line RecvSession GoBytesFacts LineTotal.
Open Scope Z_scope.

Lemma map_res_total {A B} (f : A -> res B) (l : list A) :
  (forall a, f a <> Panic) -> map_res f l <> Panic.
Proof.
  intros Hf. induction l as [|a l IH]; simpl; [discriminate|].
  apply bind_not_panic; [apply Hf|]. intros b _.
  apply bind_not_panic; [exact IH|]. intros; discriminate.
Qed.

Lemma recovering_total r : recovering r <> Panic.
Proof. destruct r; discriminate. Qed.

(* C02_handlers_contained: whatever the handlers do, dispatch does not propagate a panic *)
Lemma dispatch_recovering_total (hs : bytes -> list handler) l :
  dispatch_line hs recovering l <> Panic.
Proof. unfold dispatch_line. apply map_res_total. intros h. apply recovering_total. Qed.

Lemma step_line_cases (hs : bytes -> list handler) raw :
  (recv_one raw = Ok None /\ step_line hs recovering raw = Rejected)
  \/ (exists l hp, recv_one raw = Ok (Some l) /\ step_line hs recovering raw = Dispatched l hp).
Proof.
  unfold step_line. pose proof (recv_one_total raw) as Hp.
  destruct (recv_one raw) as [[l|]|]; [|left; split; reflexivity|congruence].
  pose proof (dispatch_recovering_total hs l) as Hd.
  destruct (dispatch_line hs recovering l) as [hp|]; [|congruence].
  right; exists l, hp; split; reflexivity.
Qed.

Lemma step_line_no_crash (hs : bytes -> list handler) raw : step_line hs recovering raw <> CRASH.
Proof.
  destruct (step_line_cases hs raw) as [[_ H]|(l & hp & _ & H)]; rewrite H; discriminate.
Qed.

Lemma recv_loop_cons (hs : bytes -> list handler) raw ls :
  recv_loop hs recovering (raw :: ls) = step_line hs recovering raw :: recv_loop hs recovering ls.
Proof.
  simpl. pose proof (step_line_no_crash hs raw) as H.
  destruct (step_line hs recovering raw); [reflexivity|reflexivity|congruence].
Qed.

Lemma recv_loop_map (hs : bytes -> list handler) ls :
  recv_loop hs recovering ls = map (step_line hs recovering) ls.
Proof. induction ls as [|raw ls IH]; [reflexivity|]. rewrite recv_loop_cons, IH. reflexivity. Qed.

Theorem recv_loop_no_crash (hs : bytes -> list handler) ls : ~ In CRASH (recv_loop hs recovering ls).
Proof.
  rewrite recv_loop_map. intros Hin. apply in_map_iff in Hin as (raw & H & _).
  exact (step_line_no_crash hs raw H).
Qed.

Theorem classify_no_crash ls : ~ In CRASH (map classify ls).
Proof.
  intros Hin. apply in_map_iff in Hin as (raw & H & _).
  exact (step_line_no_crash _ raw H).
Qed.

Theorem recv_loop_length (hs : bytes -> list handler) ls :
  length (recv_loop hs recovering ls) = length ls.
Proof. rewrite recv_loop_map. apply map_length. Qed.

(* later lines are still processed, in order: the dispatched lines are exactly the parses of
   the lines that parse, in wire order *)
Theorem recv_loop_in_order (hs : bytes -> list handler) ls :
  map Some (dispatched (recv_loop hs recovering ls)) = map parsed (filter parses ls).
Proof.
  induction ls as [|raw ls IH]; [reflexivity|].
  rewrite recv_loop_cons. cbn [filter].
  destruct (step_line_cases hs raw) as [[Hr H]|(l & hp & Hr & H)]; rewrite H.
  - assert (Hp : parses raw = false) by (unfold parses; rewrite Hr; reflexivity).
    rewrite Hp. cbn [dispatched]. exact IH.
  - assert (Hp : parses raw = true) by (unfold parses; rewrite Hr; reflexivity).
    assert (Hq : parsed raw = Some l) by (unfold parsed; rewrite Hr; reflexivity).
    rewrite Hp. cbn [dispatched map]. rewrite Hq, IH. reflexivity.
Qed.

Theorem session_alive_true (hs : bytes -> list handler) ls : session_alive hs ls = true.
Proof.
  unfold session_alive. rewrite recv_loop_length, Nat.eqb_refl, andb_true_r.
  apply negb_true_iff. apply not_true_is_false. intros H.
  apply existsb_exists in H as (o & Hin & Ho).
  destruct o; try discriminate. exact (recv_loop_no_crash hs ls Hin).
Qed.

(* the Recover wrapper is what contains a handler panic: a handler of the shape of h_PING
   ([line.Args[0]]) called without it on the line "PING" kills the process *)
Lemma recover_needed :
  step_line (fun _ => [h_first_arg]) unprotected [80; 73; 78; 71]%N = CRASH
  /\ exists l, step_line (fun _ => [h_first_arg]) recovering [80; 73; 78; 71]%N = Dispatched l [true].
Proof. split; [vm_compute; reflexivity|eexists; vm_compute; reflexivity]. Qed.
