(* Proofs/GenEqChanModes.v — stage 4: the Gallina TRANSLATION (Gen/GoFuncs.v) of package state's
   channel.parseModes (state/channel.go) is equal to Model/TrackerSpec.v chan_parse_modes.

   The generated function takes the receiver's fields: ch.modes (an option of the tuple of the ten
   booleans, Key, Limit), ch.name (only logged), and the two maps ch.lookup : map[string]*nick and
   ch.nicks : map[*nick]*ChanPrivs as ABSTRACT STORES with a get (and, for ch.nicks, the write
   through the pointer read from it); *nick is an abstract reference; strconv.Atoi is a variable.
   Here they are instantiated with the spec's membership map for the channel [c] at hand: a
   reference is the nick's name, ch.lookup[x] is x when (c, x) is a member, ch.nicks[n] the
   privileges of (c, n), a write through it an insert; Atoi is the spec's atoi (its agreement with
   Go's is the dynamic assumption of C12).  std++ side: GoBytes / GoFuncs are Required, not
   Imported (notation clash). *)
From Verif Require Import TrackerSpec TrackerSpecFacts.
From Verif Require GoBytes LineLib GoBytesFacts GoFuncs GenEqModes.
Open Scope Z_scope.

Notation rOk := GoBytes.Ok.
Notation rbind := GoBytes.bind.

Definition cm_tuple (cm : chanmode) : GoFuncs.go_state_ChanMode :=
  (cm_p cm, cm_s cm, cm_t cm, cm_n cm, cm_m cm, cm_i cm, cm_O cm, cm_z cm, cm_r cm, cm_Z cm,
   cm_key cm, cm_limit cm).
Definition pv (p : privs) : GoFuncs.go_state_ChanPrivs := (cp_q p, cp_a p, cp_o p, cp_h p, cp_v p).
Definition pv_inv (t : GoFuncs.go_state_ChanPrivs) : privs :=
  let '(q, a, o, h, v) := t in {| cp_q := q; cp_a := a; cp_o := o; cp_h := h; cp_v := v |}.
Lemma pv_inv_pv p : pv_inv (pv p) = p.
Proof. by destruct p. Qed.
Lemma pv_pv_inv t : pv (pv_inv t) = t.
Proof. by destruct t as [[[[? ?] ?] ?] ?]. Qed.

Lemma elems_from_cons1 {A} (a : A) l : GoBytes.elems_from (a :: l) 1 = rOk l.
Proof.
  unfold GoBytes.elems_from. simpl length.
  destruct ((0 <=? 1) && (1 <=? Z.of_nat (S (length l)))) eqn:E; [reflexivity|]. lia.
Qed.

Lemma elem_at_cons0 {A} (a : A) l : GoBytes.elem_at (a :: l) 0 = rOk a.
Proof. reflexivity. Qed.
Lemma llen_cons_nz {A} (a : A) l : (LineLib.llen (a :: l) =? 0) = false.
Proof. unfold LineLib.llen. simpl length. lia. Qed.

Section ChanModes.
  Variable c : name.
  Notation memt := (gmap (name * name) privs).

  (* the member-privileges interface, instantiated by the spec's membership map *)
  Definition Lget (L : memt) (x : bytes) : option bytes :=
    match L !! (c, x) with Some _ => Some x | None => None end.
  Definition Nget (N : memt) (k : option bytes) : option GoFuncs.go_state_ChanPrivs :=
    match k with Some n => option_map pv (N !! (c, n)) | None => None end.
  Definition Nset (N : memt) (k : option bytes) (v : GoFuncs.go_state_ChanPrivs) : memt :=
    match k with Some n => <[(c, n) := pv_inv v]> N | None => N end.
  Definition atoi' (s : bytes) : Z * bool := (atoi s, false).

  (* the laws of the interface: get after set *)
  Lemma Nget_Nset_same N n v : Nget (Nset N (Some n) v) (Some n) = Some v.
  Proof. unfold Nget, Nset. rewrite lookup_insert. simpl. by rewrite pv_pv_inv. Qed.
  Lemma Nget_Nset_other N n n' v : n <> n' -> Nget (Nset N (Some n) v) (Some n') = Nget N (Some n').
  Proof. intros H. unfold Nget, Nset. rewrite lookup_insert_ne; [done|congruence]. Qed.

  Notation parse := (GoFuncs.go_state_channel_parseModes Lget Nget Nset atoi').

  (* a byte that is none of the 22 mode letters changes nothing *)
  Ltac dpos := do 8 (try (match goal with q : positive |- _ => destruct q end; try reflexivity)).
  Lemma other_letter st m :
    (m =? 43)%N = false -> (m =? 45)%N = false -> (m =? 105)%N = false -> (m =? 109)%N = false ->
    (m =? 110)%N = false -> (m =? 112)%N = false -> (m =? 114)%N = false -> (m =? 115)%N = false ->
    (m =? 116)%N = false -> (m =? 122)%N = false -> (m =? 90)%N = false -> (m =? 79)%N = false ->
    (m =? 107)%N = false -> (m =? 108)%N = false -> (m =? 98)%N = false -> (m =? 101)%N = false ->
    (m =? 73)%N = false -> (m =? 113)%N = false -> (m =? 97)%N = false -> (m =? 111)%N = false ->
    (m =? 104)%N = false -> (m =? 118)%N = false ->
    chan_parse_char c st m = st.
  Proof.
    intros. unfold chan_parse_char.
    repeat (case_decide; [subst m; discriminate|]).
    assert (is_list_mode_char m = false) as ->.
    { destruct m as [|q]; [reflexivity|]. dpos. all: cbv in *; discriminate. }
    assert (is_priv_char m = false) as ->.
    { destruct m as [|q]; [reflexivity|]. dpos. all: cbv in *; discriminate. }
    assert (chan_flag_char m (ps_op st) (ps_cm st) = None) as ->.
    { destruct m as [|q]; [reflexivity|]. dpos. all: cbv in *; discriminate. }
    reflexivity.
  Qed.

  (* modestr (only used in log messages): the last '+' or '-' seen *)
  Definition str_step (str : bytes) (m : N) : bytes :=
    if (m =? 43)%N || (m =? 45)%N then GoFuncs.go_string_of_byte m else str.

  Lemma go_channel_parseModes_eq L cm cname mem modes args :
    (forall x, is_Some (L !! (c, x)) <-> is_Some (mem !! (c, x))) ->
    parse L (Some (cm_tuple cm)) cname mem modes args
    = rOk (Some (cm_tuple (fst (chan_parse_modes c modes false args cm mem))),
           snd (chan_parse_modes c modes false args cm mem)).
  Proof.
    intros Hdom0. cbv beta delta [GoFuncs.go_state_channel_parseModes].
    match goal with |- context [?F] => is_fix F; set (loop := F) end.
    cbv zeta.
    assert (Hloop : forall rest pre st str fuel, modes = pre ++ rest -> (length rest < fuel)%nat ->
      (forall x, is_Some (L !! (c, x)) <-> is_Some (ps_mem st !! (c, x))) ->
      loop fuel (ps_args st) (ps_op st) str (GoBytes.len pre) (Some (cm_tuple (ps_cm st))) (ps_mem st)
        = rOk (ps_args (fold_left (chan_parse_char c) rest st), ps_op (fold_left (chan_parse_char c) rest st),
               fold_left str_step rest str, GoBytes.len modes, Some (cm_tuple (ps_cm (fold_left (chan_parse_char c) rest st))),
               ps_mem (fold_left (chan_parse_char c) rest st))).
    { induction rest as [|m rest IH]; intros pre st str fuel Hm Hf Hdom.
      - rewrite app_nil_r in Hm. subst pre.
        destruct fuel; unfold loop; rewrite Z.ltb_irrefl; reflexivity.
      - destruct fuel as [|f]; [simpl in Hf; lia|].
        unfold loop at 1; fold loop.
        replace (GoBytes.len pre <? GoBytes.len modes) with true.
        2:{ symmetry. subst modes. rewrite GoBytesFacts.len_app, GoBytesFacts.len_cons.
            pose proof (GoBytesFacts.len_nonneg rest). lia. }
        rewrite Hm at 1. rewrite GenEqModes.byte_at_mid. cbn [GoBytes.bind fold_left].
        set (st1 := chan_parse_char c st m).
        match goal with |- rbind ?P1 _ = _ =>
          assert (Hstep : P1 = rOk (ps_args st1, ps_op st1, str_step str m, Some (cm_tuple (ps_cm st1)), ps_mem st1))
        end.
        { subst st1. destruct st as [op args0 cm0 mem0].
          destruct cm0 as [f1 f2 f3 f4 f5 f6 f7 f8 f9 f10 key lim]. cbn [ps_args ps_op ps_cm ps_mem] in *.
          timeout 200 (repeat match goal with
          | |- context [(m =? ?K)%N] =>
              let E := fresh "E" in
              destruct (m =? K)%N eqn:E;
              [ apply N.eqb_eq in E; subst m; unfold chan_parse_char, str_step, Lget, Nget, Nset;
                cbn [ps_args ps_op ps_cm ps_mem];
                destruct op; destruct args0 as [|a0 args0];
                rewrite ?elems_from_cons1, ?elem_at_cons0, ?llen_cons_nz;
                cbn [GoBytes.bind orb negb andb N.eqb Pos.eqb]; try reflexivity
              | cbv iota ]
          end).
          all: try (rewrite other_letter by assumption; unfold str_step;
                    repeat match goal with H : (?x =? _)%N = false |- _ => rewrite H; clear H end;
                    cbn [orb ps_args ps_op ps_cm ps_mem]; reflexivity).
          all: destruct (Hdom a0) as [Hd1 Hd2].
          all: destruct (L !! (c, a0)) eqn:EL, (mem0 !! (c, a0)) as [[q a o h v]|] eqn:EM;
            cbn [GoBytes.bind option_map pv pv_inv GoFuncs.go_is_some];
            try (exfalso; first [ destruct (Hd1 (ex_intro _ _ eq_refl)) as [? ?]; discriminate
                                | destruct (Hd2 (ex_intro _ _ eq_refl)) as [? ?]; discriminate ]).
          all: timeout 30 reflexivity. }
        rewrite Hstep. cbn [GoBytes.bind].
        replace (GoBytes.len pre + 1) with (GoBytes.len (pre ++ [m]))
          by (rewrite GoBytesFacts.len_app; reflexivity).
        apply IH.
        + rewrite <- app_assoc. exact Hm.
        + simpl in Hf. lia.
        + intros x. rewrite Hdom. subst st1. symmetry. apply chan_parse_char_dom. }
    pose proof (Hloop modes [] (Build_pstate false args cm mem) [] (S (length modes)) eq_refl
                  (Nat.lt_succ_diag_r _) Hdom0) as Hs'.
    cbn [ps_args ps_op ps_cm ps_mem] in Hs'. change (GoBytes.len []) with 0 in Hs'.
    rewrite Hs'. reflexivity.
  Qed.
End ChanModes.
