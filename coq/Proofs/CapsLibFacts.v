(* Proofs/CapsLibFacts.v — facts about Lib/CapsLib.v: Go's string order, the canonical finite
   map, insertion sort.  In particular [isort_enum]: sorting the keys in ANY enumeration order
   (Go randomises map iteration) yields the same list. *)
From Coq Require Import Permutation.
From Verif Require Import GoBytes GoBytesFacts CapsLib.
Open Scope Z_scope.

Lemma beq_sym a b : beq a b = beq b a.
Proof.
  destruct (beq a b) eqn:E.
  - apply beq_eq in E; subst. symmetry; apply beq_refl.
  - symmetry. apply beq_neq. apply beq_neq in E. congruence.
Qed.

(* ---------- bcmp: a strict total order ---------- *)
Lemma bcmp_refl a : bcmp a a = Eq.
Proof. induction a as [|x a IH]; simpl; [reflexivity|]. now rewrite N.compare_refl. Qed.

Lemma bcmp_eq a b : bcmp a b = Eq <-> a = b.
Proof.
  split; [|intros ->; apply bcmp_refl].
  revert b; induction a as [|x a IH]; intros [|y b]; simpl; try congruence.
  destruct (N.compare x y) eqn:E; try discriminate.
  apply N.compare_eq in E; subst. intros H; f_equal; auto.
Qed.

Lemma bcmp_antisym a b : bcmp b a = CompOpp (bcmp a b).
Proof.
  revert b; induction a as [|x a IH]; intros [|y b]; simpl; try reflexivity.
  rewrite (N.compare_antisym x y). destruct (N.compare x y); simpl; auto.
Qed.

Lemma bcmp_lt_trans a b c : bcmp a b = Lt -> bcmp b c = Lt -> bcmp a c = Lt.
Proof.
  revert b c; induction a as [|x a IH]; intros [|y b] [|z c]; simpl; try congruence.
  destruct (N.compare x y) eqn:E1; destruct (N.compare y z) eqn:E2; try discriminate; intros H1 H2.
  - apply N.compare_eq in E1, E2; subst. rewrite N.compare_refl. eauto.
  - apply N.compare_eq in E1; subst. now rewrite E2.
  - apply N.compare_eq in E2; subst. now rewrite E1.
  - assert (E : N.compare x z = Lt).
    { apply N.compare_lt_iff. apply N.compare_lt_iff in E1. apply N.compare_lt_iff in E2.
      eapply N.lt_trans; eassumption. }
    now rewrite E.
Qed.

Definition blt (a b : bytes) : Prop := bcmp a b = Lt.

Lemma blt_irrefl a : ~ blt a a.
Proof. unfold blt; rewrite bcmp_refl; discriminate. Qed.

Lemma blt_asym a b : blt a b -> ~ blt b a.
Proof. unfold blt; intros H H'. rewrite bcmp_antisym, H in H'. discriminate. Qed.

Lemma bltb_true a b : bltb a b = true <-> blt a b.
Proof. unfold bltb, blt. destruct (bcmp a b); split; congruence. Qed.

Lemma bcmp_gt_lt a b : bcmp a b = Gt -> blt b a.
Proof. unfold blt; intros H. rewrite bcmp_antisym, H. reflexivity. Qed.

(* ---------- strictly increasing lists ---------- *)
Fixpoint ssorted (l : list bytes) : Prop :=
  match l with
  | [] => True
  | k :: l' => (forall k', In k' l' -> blt k k') /\ ssorted l'
  end.

Lemma ssorted_filter f l : ssorted l -> ssorted (filter f l).
Proof.
  induction l as [|k l IH]; simpl; [auto|]. intros [H1 H2].
  destruct (f k); simpl; [split|]; auto.
  intros k' Hin. apply filter_In in Hin as [Hin _]. auto.
Qed.

Lemma ssorted_unique l1 : forall l2,
  ssorted l1 -> ssorted l2 -> (forall x, In x l1 <-> In x l2) -> l1 = l2.
Proof.
  induction l1 as [|a l1 IH]; intros [|b l2] S1 S2 H.
  - reflexivity.
  - exfalso. apply (proj2 (H b)). now left.
  - exfalso. apply (proj1 (H a)). now left.
  - destruct S1 as [A1 S1], S2 as [B1 S2].
    assert (a = b) as ->.
    { destruct (proj1 (H a) (or_introl eq_refl)) as [E|Hin]; [congruence|].
      destruct (proj2 (H b) (or_introl eq_refl)) as [E|Hin']; [congruence|].
      exfalso. apply (blt_asym a b); auto. }
    f_equal. apply IH; auto. intros x; split; intros Hin.
    + destruct (proj1 (H x) (or_intror Hin)) as [E|Hin']; [|exact Hin'].
      subst. exfalso. exact (blt_irrefl _ (A1 _ Hin)).
    + destruct (proj2 (H x) (or_intror Hin)) as [E|Hin']; [|exact Hin'].
      subst. exfalso. exact (blt_irrefl _ (B1 _ Hin)).
Qed.

(* ---------- the finite map ---------- *)
Lemma km_get_set m k v k' :
  km_get (km_set m k v) k' = if beq k' k then Some v else km_get m k'.
Proof.
  induction m as [|[k0 v0] m IH]; simpl; [reflexivity|].
  destruct (bcmp k k0) eqn:E; simpl.
  - apply bcmp_eq in E; subst. destruct (beq k' k0); reflexivity.
  - reflexivity.
  - rewrite IH. destruct (beq k' k0) eqn:E0; [|reflexivity].
    apply beq_eq in E0; subst. destruct (beq k0 k) eqn:E1; [|reflexivity].
    apply beq_eq in E1; subst. rewrite bcmp_refl in E. discriminate.
Qed.

Lemma km_keys_set_in m k v x :
  In x (km_keys (km_set m k v)) <-> x = k \/ In x (km_keys m).
Proof.
  unfold km_keys. induction m as [|[k0 v0] m IH]; simpl.
  - intuition congruence.
  - destruct (bcmp k k0) eqn:E; simpl.
    + apply bcmp_eq in E; subst. intuition congruence.
    + intuition congruence.
    + rewrite IH. intuition congruence.
Qed.

Lemma km_keys_set_sorted m k v :
  ssorted (km_keys m) -> ssorted (km_keys (km_set m k v)).
Proof.
  unfold km_keys. induction m as [|[k0 v0] m IH]; simpl.
  { intros _. split; [intros ? []|exact I]. }
  intros [H1 H2]. destruct (bcmp k k0) eqn:E; simpl.
  - apply bcmp_eq in E; subst. auto.
  - split; [|split; auto]. intros k' [<-|Hin]; [exact E|].
    eapply bcmp_lt_trans; [exact E|]. apply H1, Hin.
  - split; [|auto]. intros k' Hin. apply (km_keys_set_in m k v k') in Hin as [->|Hin].
    + apply bcmp_gt_lt, E.
    + auto.
Qed.

Lemma km_keys_filter f m : km_keys (km_filter f m) = filter f (km_keys m).
Proof.
  unfold km_keys, km_filter. induction m as [|[k v] m IH]; simpl; [reflexivity|].
  destruct (f k); simpl; now rewrite IH.
Qed.

Lemma km_size_pos m : (km_size m >? 0) = match m with [] => false | _ => true end.
Proof. unfold km_size. destruct m; simpl; [reflexivity|]. lia. Qed.

(* ---------- sort.Strings ---------- *)
Lemma insert_sorted_in k l x : In x (insert_sorted k l) <-> x = k \/ In x l.
Proof.
  induction l as [|k' l IH]; simpl; [intuition congruence|].
  destruct (bltb k' k); simpl; [rewrite IH|]; intuition congruence.
Qed.

Lemma isort_in l x : In x (isort l) <-> In x l.
Proof.
  induction l as [|k l IH]; simpl; [tauto|]. rewrite insert_sorted_in, IH. intuition congruence.
Qed.

Lemma isort_sorted_id l : ssorted l -> isort l = l.
Proof.
  induction l as [|k l IH]; simpl; [reflexivity|]. intros [H1 H2]. rewrite IH by exact H2.
  destruct l as [|k' l']; simpl; [reflexivity|].
  destruct (bltb k' k) eqn:E; [|reflexivity].
  apply bltb_true in E. exfalso. apply (blt_asym k k'); auto. apply H1. now left.
Qed.

(* inserting a key that is not present into a strictly increasing list keeps it so *)
Lemma insert_sorted_ssorted k l : ssorted l -> ~ In k l -> ssorted (insert_sorted k l).
Proof.
  induction l as [|k' l IH]; simpl.
  { intros _ _. split; [intros ? []|exact I]. }
  intros [H1 H2] Hn.
  destruct (bltb k' k) eqn:E; simpl.
  - split; [|apply IH; tauto]. intros x Hin. apply insert_sorted_in in Hin as [->|Hin]; [|auto].
    apply bltb_true, E.
  - assert (Hlt : blt k k').
    { unfold bltb in E. destruct (bcmp k' k) eqn:E'; try discriminate.
      - apply bcmp_eq in E'; subst. tauto.
      - apply bcmp_gt_lt, E'. }
    split; [|split; auto]. intros x [<-|Hin]; [exact Hlt|].
    eapply bcmp_lt_trans; [exact Hlt|]. apply H1, Hin.
Qed.

Lemma isort_ssorted l : NoDup l -> ssorted (isort l).
Proof.
  induction 1 as [|k l Hn Hnd IH]; simpl; [exact I|].
  apply insert_sorted_ssorted; [exact IH|]. rewrite isort_in. exact Hn.
Qed.

Lemma ssorted_NoDup l : ssorted l -> NoDup l.
Proof.
  induction l as [|k l IH]; simpl; [constructor|]. intros [H1 H2]. constructor; auto.
  intros Hin. exact (blt_irrefl _ (H1 _ Hin)).
Qed.

(* Go ranges over the map in an unspecified order [enum] (a permutation of the keys), then
   sort.Strings: the result does not depend on that order *)
Theorem isort_enum keys enum : ssorted keys -> Permutation enum keys -> isort enum = keys.
Proof.
  intros Hs Hp. apply ssorted_unique; [|exact Hs|].
  - apply isort_ssorted. eapply Permutation_NoDup; [apply Permutation_sym, Hp|].
    apply ssorted_NoDup, Hs.
  - intros x. rewrite isort_in. split; apply Permutation_in; [exact Hp|apply Permutation_sym, Hp].
Qed.

(* ---------- sort_dedup ---------- *)
Lemma fold_set_sorted_in (l : list bytes) : forall m,
  ssorted (km_keys m) ->
  ssorted (km_keys (fold_left (fun m k => km_set m k true) l m))
  /\ forall x, In x (km_keys (fold_left (fun m k => km_set m k true) l m)) <-> In x l \/ In x (km_keys m).
Proof.
  induction l as [|k l IH]; simpl; intros m Hm; [tauto|].
  destruct (IH (km_set m k true) (km_keys_set_sorted m k true Hm)) as [H1 H2]. split; [exact H1|].
  intros x. rewrite H2, km_keys_set_in. intuition congruence.
Qed.

Lemma sort_dedup_sorted l : ssorted (sort_dedup l).
Proof. apply (fold_set_sorted_in l km_empty). exact I. Qed.

Lemma sort_dedup_in l x : In x (sort_dedup l) <-> In x l.
Proof.
  unfold sort_dedup. rewrite (proj2 (fold_set_sorted_in l km_empty I)). simpl. tauto.
Qed.

Lemma sort_dedup_id l : ssorted l -> sort_dedup l = l.
Proof.
  intros H. apply ssorted_unique; [apply sort_dedup_sorted|exact H|apply sort_dedup_in].
Qed.

Lemma blist_eqb_refl l : blist_eqb l l = true.
Proof. induction l as [|x l IH]; simpl; [reflexivity|]. now rewrite beq_refl. Qed.

Lemma blist_eqb_eq a b : blist_eqb a b = true <-> a = b.
Proof.
  split; [|intros ->; apply blist_eqb_refl].
  revert b; induction a as [|x a IH]; intros [|y b]; simpl; try congruence.
  intros H. apply andb_true_iff in H as [H1 H2]. apply beq_eq in H1. subst. f_equal. auto.
Qed.

Lemma mem_bytes_in c l : mem_bytes c l = true <-> In c l.
Proof.
  unfold mem_bytes. rewrite existsb_exists. split.
  - intros [x [Hin E]]. apply beq_eq in E. now subst.
  - intros Hin. exists c. split; [exact Hin|apply beq_refl].
Qed.
