(* Proofs/GenEqWrite.v — stage 6 (c): the Gallina TRANSLATION (Gen/GoFuncs.v) of Conn.write
   (client/connection.go) against the models of its three aspects: Flood.write_delay (the sleep
   requested and the flood state), Commands.wire_of (the bytes written: the line and CRLF, then a
   flush), LogModel.mask / out_rec (the Debug record, with a PASS line masked).

   The generated function takes the receiver fields it reads (badness, cfg.Flood, lastsent), the
   line, the two clock readings of rateLimit (clock readings of a callee are clock readings of the
   caller, in order) and two ORACLES, the results of conn.io.WriteString and conn.io.Flush; it
   returns the fields written and three effect channels: the durations waited for
   (<-time.After(t)), the I/O calls in order ((s, false) for WriteString(s), ([], true) for Flush),
   and the OBSERVED logging calls (level, format, string arguments): in this function a logging
   call with at least one string argument is recorded with its string arguments (what it could
   leak) — logging.Debug("-> %s", line) is; the Info call about flooding has only a float
   argument and is dropped as before — and the error returned (true = non-nil). *)
From Verif Require Import GoBytes LineLib GoFuncs Flood Commands LogModel GenEqTac GenEqFlood.
Open Scope Z_scope.

Definition lv_Debug : bytes := [68; 101; 98; 117; 103]%N.      (* "Debug" *)
Definition fmt_out : bytes := [45; 62; 32; 37; 115]%N.        (* "-> %s" *)

Definition write_spec (flood : bool) (bad last : Z) (line : bytes) (a a' : Z) (iow : Z * bool) (ioe : bool)
  : Z * Z * list Z * list (bytes * bool) * list (bytes * bytes * list bytes) * bool :=
  let '(st', t) := write_delay flood {| fs_bad := bad; fs_last := last |} a a' (len line) in
  let sleeps := if t =? 0 then [] else [t] in
  let w := (line ++ crlf, false) in
  if snd iow then (fs_bad st', fs_last st', sleeps, [w], [], true)
  else if ioe then (fs_bad st', fs_last st', sleeps, [w; ([], true)], [], true)
  else (fs_bad st', fs_last st', sleeps, [w; ([], true)], [(lv_Debug, fmt_out, [mask line])], false).

Lemma go_write_eq flood bad last line a a' iow ioe :
  go_client_Conn_write bad flood last line a a' iow ioe = Ok (write_spec flood bad last line a a' iow ioe).
Proof.
  unfold go_client_Conn_write, write_spec, write_delay.
  destruct flood; cbn [negb bind].
  - destruct iow as [n e]; cbn [snd]. destruct e; [reflexivity|]. destruct ioe; reflexivity.
  - rewrite go_rateLimit_eq. destruct (rate_limit _ a a' (len line)) as [st' t]. cbn [bind].
    destruct iow as [n e]; cbn [snd]. destruct (t =? 0); cbn [negb app].
    + destruct e; [reflexivity|]. destruct ioe; reflexivity.
    + destruct e; [reflexivity|]. destruct ioe; reflexivity.
Qed.

(* the three aspects, each for EVERY outcome of the two I/O calls unless stated *)
Definition ws_state (r : Z * Z * list Z * list (bytes * bool) * list (bytes * bytes * list bytes) * bool) :=
  let '(b, l, _, _, _, _) := r in (b, l).
Definition ws_sleeps (r : Z * Z * list Z * list (bytes * bool) * list (bytes * bytes * list bytes) * bool) :=
  let '(_, _, s, _, _, _) := r in s.
Definition ws_io (r : Z * Z * list Z * list (bytes * bool) * list (bytes * bytes * list bytes) * bool) :=
  let '(_, _, _, io, _, _) := r in io.
Definition ws_logs (r : Z * Z * list Z * list (bytes * bool) * list (bytes * bytes * list bytes) * bool) :=
  let '(_, _, _, _, lg, _) := r in lg.
Definition ws_err (r : Z * Z * list Z * list (bytes * bool) * list (bytes * bytes * list bytes) * bool) :=
  let '(_, _, _, _, _, e) := r in e.

(* flood control: the state written back and the single sleep, before any I/O, whatever the I/O does *)
Lemma write_spec_flood flood bad last line a a' iow ioe :
  let r := write_spec flood bad last line a a' iow ioe in
  let '(st', t) := write_delay flood {| fs_bad := bad; fs_last := last |} a a' (len line) in
  ws_state r = (fs_bad st', fs_last st') /\ ws_sleeps r = (if t =? 0 then [] else [t]).
Proof.
  unfold write_spec. destruct (write_delay _ _ _ _ _) as [st' t]. destruct iow as [n e]; cbn [snd].
  destruct e; [split; reflexivity|]. destruct ioe; split; reflexivity.
Qed.
(* the bytes: exactly one WriteString of line ++ CRLF, first; when it succeeds exactly one Flush
   follows; with no I/O error the bytes written are wire_of [line] *)
Definition written (io : list (bytes * bool)) : bytes := concat (map fst io).
Lemma write_spec_io flood bad last line a a' iow ioe :
  let r := write_spec flood bad last line a a' iow ioe in
  written (ws_io r) = wire_of [line]
  /\ ws_io r = (if snd iow then [(line ++ crlf, false)] else [(line ++ crlf, false); ([], true)])
  /\ ws_err r = (snd iow || ioe).
Proof.
  unfold write_spec, written, wire_of. destruct (write_delay _ _ _ _ _) as [st' t]. destruct iow as [n e]; cbn [snd].
  destruct e; [repeat split; cbn; rewrite ?app_nil_r; reflexivity|].
  destruct ioe; repeat split; cbn; rewrite ?app_nil_r; reflexivity.
Qed.
(* the log: one Debug record "-> %s" with the MASKED line, only when both I/O calls succeeded *)
Lemma write_spec_log flood bad last line a a' iow ioe :
  ws_logs (write_spec flood bad last line a a' iow ioe)
  = (if snd iow || ioe then [] else [(lv_Debug, fmt_out, [mask line])]).
Proof.
  unfold write_spec. destruct (write_delay _ _ _ _ _) as [st' t]. destruct iow as [n e]; cbn [snd].
  destruct e; [reflexivity|]. destruct ioe; reflexivity.
Qed.
