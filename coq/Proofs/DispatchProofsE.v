(* Proofs/DispatchProofsE.v — what the C03 monitor's verdict means, in terms of counting:
   if C03_ok accepts a history then, at every foreground Enter for line k', every foreground
   invocation of every earlier line has finished (as many Exit/Recovered as Enter) and no
   invocation of a later line has started. *)
From Coq Require Import List Arith Bool Lia.
From Verif Require Import DispatchLts.
Import ListNotations.
Local Open Scope nat_scope.

Definition is_fg_enter (k : nat) (e : event) : bool :=
  match e with EvEnter KFg k' _ _ => Nat.eqb k k' | _ => false end.
Definition is_fg_close (k : nat) (e : event) : bool :=
  match e with EvExit KFg k' _ _ | EvRecovered KFg k' _ => Nat.eqb k k' | _ => false end.
Definition ne (k : nat) (h : list event) : nat := length (filter (is_fg_enter k) h).
Definition nc (k : nat) (h : list event) : nat := length (filter (is_fg_close k) h).

Lemma ne_snoc k h e : ne k (h ++ [e]) = ne k h + (if is_fg_enter k e then 1 else 0).
Proof. unfold ne. rewrite filter_app, app_length. simpl. destruct (is_fg_enter k e); simpl; lia. Qed.
Lemma nc_snoc k h e : nc k (h ++ [e]) = nc k h + (if is_fg_close k e then 1 else 0).
Proof. unfold nc. rewrite filter_app, app_length. simpl. destruct (is_fg_close k e); simpl; lia. Qed.

Definition J (p : list event) (m : m3) : Prop :=
  match m_last m with
  | None => m_open m = 0 /\ forall k, ne k p = 0 /\ nc k p = 0
  | Some c => ne c p = nc c p + m_open m
              /\ (forall k, k <> c -> ne k p = nc k p) /\ (forall k, c < k -> ne k p = 0)
  end.

Lemma fold_opt_none {S E} (f : S -> E -> option S) h : fold_opt f h None = None.
Proof. induction h; simpl; auto. Qed.

Lemma scan_snoc sess h e :
  C03_scan sess (h ++ [e]) = match C03_scan sess h with Some m => scan3 sess m e | None => None end.
Proof. unfold C03_scan, fold_opt. rewrite fold_left_app. reflexivity. Qed.

Lemma scan_prefix sess p q : C03_ok sess (p ++ q) = true -> exists m, C03_scan sess p = Some m.
Proof.
  unfold C03_ok, C03_scan, fold_opt. rewrite fold_left_app.
  destruct (fold_left _ p (Some m3_init)) as [m|]; [eauto|].
  fold (@fold_opt m3 event (scan3 sess) q None). rewrite fold_opt_none. discriminate.
Qed.

Lemma J_scan sess p : forall m, C03_scan sess p = Some m -> J p m.
Proof.
  induction p as [|e p IH] using rev_ind; intros m Hm.
  - inversion Hm; subst. unfold J; simpl. split; [reflexivity|]. intros k. split; reflexivity.
  - rewrite scan_snoc in Hm. destruct (C03_scan sess p) as [m0|]; [|discriminate].
    specialize (IH m0 eq_refl). unfold J in *.
    assert (Hkeep : m_last m = m_last m0 -> m_open m = m_open m0 ->
                    (forall k, is_fg_enter k e = false) -> (forall k, is_fg_close k e = false) ->
                    match m_last m with
                    | None => m_open m = 0 /\ forall k, ne k (p ++ [e]) = 0 /\ nc k (p ++ [e]) = 0
                    | Some c => ne c (p ++ [e]) = nc c (p ++ [e]) + m_open m
                                /\ (forall k, k <> c -> ne k (p ++ [e]) = nc k (p ++ [e]))
                                /\ (forall k, c < k -> ne k (p ++ [e]) = 0)
                    end).
    { intros H1 H2 H3 H4. rewrite H1, H2.
      destruct (m_last m0) as [c|].
      - destruct IH as (I1 & I2 & I3). repeat split; intros; rewrite ?ne_snoc, ?nc_snoc, ?H3, ?H4, ?Nat.add_0_r; auto.
      - destruct IH as (I1 & I2). split; [exact I1|]. intros k. rewrite ne_snoc, nc_snoc, H3, H4, !Nat.add_0_r. apply I2. }
    destruct e as [k0|kd k0 i0 a0|kd k0 i0 a0|kd k0 i0|kd k0 i0]; simpl in Hm.
    + inversion Hm; subst. apply Hkeep; auto.
    + destruct kd; try (inversion Hm; subst; apply Hkeep; auto; fail).
      * (* Enter KFg *)
        destruct (negb (m_disc m0) && Nat.eqb (m_copen m0) 0 && may_start (m_last m0) (m_open m0) k0
                  && match m_clast m0 with Some kc => Nat.leb kc k0 | None => true end) eqn:G; [|discriminate].
        inversion Hm; subst; clear Hm. simpl.
        apply andb_true_iff in G as [G _]. apply andb_true_iff in G as [_ G]. unfold may_start in G.
        assert (Hs : forall k, ne k (p ++ [EvEnter KFg k0 i0 a0]) = ne k p + (if Nat.eqb k k0 then 1 else 0))
          by (intros; apply ne_snoc).
        assert (Hc : forall k, nc k (p ++ [EvEnter KFg k0 i0 a0]) = nc k p)
          by (intros; rewrite nc_snoc; simpl; lia).
        destruct (m_last m0) as [c|].
        -- destruct IH as (I1 & I2 & I3). apply orb_true_iff in G as [G|G].
           ++ apply andb_true_iff in G as [G1 G2]. apply Nat.ltb_lt in G1. apply Nat.eqb_eq in G2.
              repeat split.
              ** rewrite Hs, Hc, Nat.eqb_refl. pose proof (I3 k0 G1) as X1.
                 assert (X2 : ne k0 p = nc k0 p) by (apply I2; lia). lia.
              ** intros k Hk. rewrite Hs, Hc. assert (E : Nat.eqb k k0 = false) by (apply Nat.eqb_neq; exact Hk).
                 rewrite E, Nat.add_0_r. destruct (Nat.eq_dec k c) as [->|Hn]; [lia|auto].
              ** intros k Hk. rewrite Hs. assert (E : Nat.eqb k k0 = false) by (apply Nat.eqb_neq; lia).
                 rewrite E, Nat.add_0_r. apply I3. lia.
           ++ apply Nat.eqb_eq in G. subst c. repeat split.
              ** rewrite Hs, Hc, Nat.eqb_refl. lia.
              ** intros k Hk. rewrite Hs, Hc. assert (E : Nat.eqb k k0 = false) by (apply Nat.eqb_neq; exact Hk).
                 rewrite E, Nat.add_0_r. auto.
              ** intros k Hk. rewrite Hs. assert (E : Nat.eqb k k0 = false) by (apply Nat.eqb_neq; lia).
                 rewrite E, Nat.add_0_r. auto.
        -- destruct IH as (I1 & I2). repeat split.
           ++ rewrite Hs, Hc, Nat.eqb_refl. destruct (I2 k0) as [-> ->]. lia.
           ++ intros k Hk. rewrite Hs, Hc. assert (E : Nat.eqb k k0 = false) by (apply Nat.eqb_neq; exact Hk).
              rewrite E, Nat.add_0_r. destruct (I2 k) as [-> ->]. reflexivity.
           ++ intros k Hk. rewrite Hs. assert (E : Nat.eqb k k0 = false) by (apply Nat.eqb_neq; lia).
              rewrite E, Nat.add_0_r. apply I2.
      * (* Enter KConnFg *)
        match type of Hm with (if ?g then _ else _) = _ => destruct g; [|discriminate] end.
        inversion Hm; subst. apply Hkeep; auto.
      * (* Enter KDiscFg *)
        match type of Hm with (if ?g then _ else _) = _ => destruct g; [|discriminate] end.
        inversion Hm; subst. apply Hkeep; auto.
    + destruct kd; try (inversion Hm; subst; apply Hkeep; auto; fail).
      * (* Exit KFg *)
        destruct (is_cur (m_last m0) (m_open m0) k0) eqn:G; [|discriminate].
        inversion Hm; subst; clear Hm. simpl. unfold is_cur in G.
        destruct (m_last m0) as [c|]; [|discriminate].
        apply andb_true_iff in G as [G1 G2]. apply Nat.eqb_eq in G1. apply Nat.ltb_lt in G2. subst c.
        destruct IH as (I1 & I2 & I3).
        assert (Hs : forall k, ne k (p ++ [EvExit KFg k0 i0 a0]) = ne k p) by (intros; rewrite ne_snoc; simpl; lia).
        assert (Hc : forall k, nc k (p ++ [EvExit KFg k0 i0 a0]) = nc k p + (if Nat.eqb k k0 then 1 else 0))
          by (intros; apply nc_snoc).
        repeat split.
        -- rewrite Hs, Hc, Nat.eqb_refl. lia.
        -- intros k Hk. rewrite Hs, Hc. assert (E : Nat.eqb k k0 = false) by (apply Nat.eqb_neq; exact Hk).
           rewrite E, Nat.add_0_r. auto.
        -- intros k Hk. rewrite Hs. auto.
      * match type of Hm with (if ?g then _ else _) = _ => destruct g; [|discriminate] end.
        inversion Hm; subst. apply Hkeep; auto.
    + destruct kd; try (inversion Hm; subst; apply Hkeep; auto; fail).
      * match type of Hm with (if ?g then _ else _) = _ => destruct g; [|discriminate] end.
        inversion Hm; subst. apply Hkeep; auto.
      * match type of Hm with (if ?g then _ else _) = _ => destruct g; [|discriminate] end.
        inversion Hm; subst. apply Hkeep; auto.
    + destruct kd; try (inversion Hm; subst; apply Hkeep; auto; fail).
      * (* Recovered KFg *)
        destruct (is_cur (m_last m0) (m_open m0) k0) eqn:G; [|discriminate].
        inversion Hm; subst; clear Hm. simpl. unfold is_cur in G.
        destruct (m_last m0) as [c|]; [|discriminate].
        apply andb_true_iff in G as [G1 G2]. apply Nat.eqb_eq in G1. apply Nat.ltb_lt in G2. subst c.
        destruct IH as (I1 & I2 & I3).
        assert (Hs : forall k, ne k (p ++ [EvRecovered KFg k0 i0]) = ne k p) by (intros; rewrite ne_snoc; simpl; lia).
        assert (Hc : forall k, nc k (p ++ [EvRecovered KFg k0 i0]) = nc k p + (if Nat.eqb k k0 then 1 else 0))
          by (intros; apply nc_snoc).
        repeat split.
        -- rewrite Hs, Hc, Nat.eqb_refl. lia.
        -- intros k Hk. rewrite Hs, Hc. assert (E : Nat.eqb k k0 = false) by (apply Nat.eqb_neq; exact Hk).
           rewrite E, Nat.add_0_r. auto.
        -- intros k Hk. rewrite Hs. auto.
      * match type of Hm with (if ?g then _ else _) = _ => destruct g; [|discriminate] end.
        inversion Hm; subst. apply Hkeep; auto.
Qed.

(* the reading of C03_ok: one line at a time, in wire order *)
Theorem C03_ok_meaning sess p k' i' a' rest :
  C03_ok sess (p ++ EvEnter KFg k' i' a' :: rest) = true ->
  (forall k, k < k' -> ne k p = nc k p) /\ (forall k, k' < k -> ne k p = 0).
Proof.
  intros H. change (p ++ EvEnter KFg k' i' a' :: rest) with (p ++ [EvEnter KFg k' i' a'] ++ rest) in H.
  rewrite app_assoc in H. destruct (scan_prefix _ _ _ H) as [m1 Hm1].
  rewrite scan_snoc in Hm1. destruct (C03_scan sess p) as [m|] eqn:Hm; [|discriminate].
  pose proof (J_scan sess p m Hm) as HJ. unfold J in HJ. simpl in Hm1.
  destruct (negb (m_disc m) && Nat.eqb (m_copen m) 0 && may_start (m_last m) (m_open m) k'
            && match m_clast m with Some kc => Nat.leb kc k' | None => true end) eqn:G; [|discriminate].
  apply andb_true_iff in G as [G _]. apply andb_true_iff in G as [_ G]. unfold may_start in G.
  destruct (m_last m) as [c|].
  - destruct HJ as (I1 & I2 & I3). apply orb_true_iff in G as [G|G].
    + apply andb_true_iff in G as [G1 G2]. apply Nat.ltb_lt in G1. apply Nat.eqb_eq in G2. split.
      * intros k Hk. destruct (Nat.eq_dec k c) as [->|Hn]; [lia|auto].
      * intros k Hk. apply I3. lia.
    + apply Nat.eqb_eq in G. subst c. split.
      * intros k Hk. apply I2. lia.
      * intros k Hk. auto.
  - destruct HJ as (I1 & I2). split; intros k Hk; destruct (I2 k) as [E1 E2]; lia.
Qed.
