(* Proofs/TrackerAliasProofs.v — C14, part A: returned values are private snapshots.
   One reachability/frame argument:
     (G) a tracker method only makes the tracker point to objects it pointed to before or to
         objects it allocates itself                                          [grow]
     (F) it reads ChanPrivs objects only through the tracker's own pointers, and writes only
         those or fresh ones                                                   [im_step_rel]
     (R) the value it returns is built from freshly allocated objects only    [al_step_fresh]
   hence the caller's addresses [K] (everything reachable from the values it was given) and
   the tracker's own addresses [owns] stay disjoint for ever                  [sep]
   and neither side can see what the other does.
   No representation invariant of the tracker is needed: the statements hold from EVERY state
   in which the allocation counter is above everything the tracker points to. *)
From Verif Require Import TrackerSpec TrackerImpl TrackerAlias.
Open Scope Z_scope.

Ltac inv_opt := repeat (simplify_option_eq || case_match).

(* ---------- the tracker's own addresses under heap updates ---------- *)
Lemma oown_put_nick t nk o' a : oown (put_nick t nk o') a -> oown t a \/ a = nk.
Proof.
  unfold oown; simpl. intros [H|H]; [|by auto].
  destruct (decide (a = nk)) as [->|Hne]; [by auto|]. rewrite lookup_insert_ne in H by done. auto.
Qed.
Lemma oown_put_chan t ch co' a : oown (put_chan t ch co') a -> oown t a \/ a = ch.
Proof.
  unfold oown; simpl. intros [H|H]; [by auto|].
  destruct (decide (a = ch)) as [->|Hne]; [by auto|]. rewrite lookup_insert_ne in H by done. auto.
Qed.
Lemma pown_put_nick t nk o' a : pown (put_nick t nk o') a -> pown t a \/ exists ch, no_chans o' !! ch = Some a.
Proof.
  unfold pown; simpl. intros [(nk' & o & ch & H & Hc)|H]; [|by auto].
  destruct (decide (nk' = nk)) as [->|Hne].
  - rewrite lookup_insert in H. inversion H; subst. eauto.
  - rewrite lookup_insert_ne in H by done. left. left. eauto.
Qed.
Lemma pown_put_chan t ch co' a : pown (put_chan t ch co') a -> pown t a \/ exists nk, co_nicks co' !! nk = Some a.
Proof.
  unfold pown; simpl. intros [H|(ch' & co & nk & H & Hc)]; [by auto|].
  destruct (decide (ch' = ch)) as [->|Hne].
  - rewrite lookup_insert in H. inversion H; subst. eauto.
  - rewrite lookup_insert_ne in H by done. left. right. eauto.
Qed.
Lemma oown_nick_obj t nk o : h_nick t !! nk = Some o -> oown t nk.
Proof. intros H. left. eauto. Qed.
Lemma oown_chan_obj t ch co : h_chan t !! ch = Some co -> oown t ch.
Proof. intros H. right. eauto. Qed.
Lemma pown_nick_priv t nk o ch cp : h_nick t !! nk = Some o -> no_chans o !! ch = Some cp -> pown t cp.
Proof. intros H1 H2. left. eauto. Qed.
Lemma pown_chan_priv t ch co nk cp : h_chan t !! ch = Some co -> co_nicks co !! nk = Some cp -> pown t cp.
Proof. intros H1 H2. right. eauto. Qed.

(* (G) *)
Definition shrink (t t' : istate) : Prop :=
  h_next t' = h_next t /\ (forall a, oown t' a -> oown t a) /\ (forall a, pown t' a -> pown t a).
Definition fresh_in (t t' : istate) (a : addr) : Prop := (h_next t <= a < h_next t')%positive.
Definition grow (t t' : istate) : Prop :=
  (h_next t <= h_next t')%positive
  /\ (forall a, oown t' a -> oown t a \/ fresh_in t t' a) /\ (forall a, pown t' a -> pown t a \/ fresh_in t t' a).
Lemma shrink_refl t : shrink t t. Proof. by repeat split. Qed.
Lemma shrink_trans t1 t2 t3 : shrink t1 t2 -> shrink t2 t3 -> shrink t1 t3.
Proof. intros (E1 & H1 & P1) (E2 & H2 & P2). split; [congruence|split; auto]. Qed.
Lemma shrink_grow t t' : shrink t t' -> grow t t'.
Proof. intros (E & H & P). split; [rewrite E; reflexivity|]. split; auto. Qed.
Lemma grow_refl t : grow t t. Proof. apply shrink_grow, shrink_refl. Qed.
Lemma grow_trans t1 t2 t3 : grow t1 t2 -> grow t2 t3 -> grow t1 t3.
Proof.
  unfold grow, fresh_in. intros (E1 & H1 & P1) (E2 & H2 & P2). split; [etrans; eauto|]. split; intros a Ha.
  - destruct (H2 a Ha) as [Ha2|Ha2]; [|right; lia]. destruct (H1 a Ha2) as [?|?]; [by left|right; lia].
  - destruct (P2 a Ha) as [Ha2|Ha2]; [|right; lia]. destruct (P1 a Ha2) as [?|?]; [by left|right; lia].
Qed.
Lemma grow_owns t t' a : grow t t' -> owns t' a -> owns t a \/ fresh_in t t' a.
Proof. intros (_ & H & P) [Ha|Ha]; [destruct (H a Ha)|destruct (P a Ha)]; unfold owns; auto. Qed.

Lemma foldM_rel {A S} (R : S -> S -> Prop) (f : S -> A -> option S) :
  (forall s, R s s) -> (forall a b c, R a b -> R b c -> R a c) ->
  forall l, (forall s x s', x ∈ l -> f s x = Some s' -> R s s') ->
  forall s s', foldM f s l = Some s' -> R s s'.
Proof.
  intros Hr Ht. induction l as [|x l IH]; intros Hf s s' H; simpl in H.
  - inversion H; subst. apply Hr.
  - destruct (f s x) as [s1|] eqn:E; [|done].
    eapply Ht; [eapply Hf; [left|exact E]|]. eapply IH; [|exact H]. intros. eapply Hf; [by right|done].
Qed.

Lemma shrink_put_nick t nk o o' : h_nick t !! nk = Some o ->
  (forall ch cp, no_chans o' !! ch = Some cp -> no_chans o !! ch = Some cp) -> shrink t (put_nick t nk o').
Proof.
  intros Ho Hsub. split; [done|]. split; intros a Ha.
  - apply oown_put_nick in Ha as [?| ->]; [done|]. eapply oown_nick_obj; eauto.
  - apply pown_put_nick in Ha as [?|(ch & Hc)]; [done|]. eapply pown_nick_priv; eauto.
Qed.
Lemma shrink_put_chan t ch co co' : h_chan t !! ch = Some co ->
  (forall nk cp, co_nicks co' !! nk = Some cp -> co_nicks co !! nk = Some cp) -> shrink t (put_chan t ch co').
Proof.
  intros Ho Hsub. split; [done|]. split; intros a Ha.
  - apply oown_put_chan in Ha as [?| ->]; [done|]. eapply oown_chan_obj; eauto.
  - apply pown_put_chan in Ha as [?|(nk & Hc)]; [done|]. eapply pown_chan_priv; eauto.
Qed.
Lemma shrink_set_st_nicks t m : shrink t (set_st_nicks t m). Proof. by repeat split. Qed.
Lemma shrink_set_st_chans t m : shrink t (set_st_chans t m). Proof. by repeat split. Qed.
Lemma shrink_put_priv t a p : shrink t (put_priv t a p). Proof. by repeat split. Qed.

Lemma nk_delChannel_shrink t nk ch t' : nk_delChannel t nk ch = Some t' -> shrink t t'.
Proof.
  unfold nk_delChannel. intros H. inv_opt; try apply shrink_refl.
  eapply shrink_put_nick; [done|]. simpl. intros ch' cp' Hl. apply lookup_delete_Some in Hl. tauto.
Qed.
Lemma ch_delNick_shrink t ch nk t' : ch_delNick t ch nk = Some t' -> shrink t t'.
Proof.
  unfold ch_delNick. intros H. inv_opt; try apply shrink_refl.
  eapply shrink_put_chan; [done|]. simpl. intros ch' cp' Hl. apply lookup_delete_Some in Hl. tauto.
Qed.

Section Frame.
Variable enumA : gmap addr addr -> list (addr * addr).
Variable enumN : gmap name addr -> list (name * addr).
Hypothesis enumA_perm : forall m, enumA m ≡ₚ map_to_list m.
Hypothesis enumN_perm : forall m, enumN m ≡ₚ map_to_list m.

Lemma enumA_elem m a b : (a, b) ∈ enumA m <-> m !! a = Some b.
Proof. rewrite enumA_perm. apply elem_of_map_to_list. Qed.

Lemma st_delNick_shrink t nk t' : st_delNick enumA t nk = Some t' -> shrink t t'.
Proof.
  unfold st_delNick. intros H. case_decide; [inversion H; apply shrink_refl|].
  destruct (h_nick t !! nk) as [o|] eqn:Ho; [|done]. simpl in H.
  eapply shrink_trans; [apply (shrink_set_st_nicks t)|].
  eapply (foldM_rel shrink); [apply shrink_refl|apply shrink_trans| |exact H].
  intros s x s' _ Hf. simpl in Hf. inv_opt; try apply shrink_refl.
  eapply shrink_trans; [eapply nk_delChannel_shrink|eapply ch_delNick_shrink]; eauto.
Qed.

Lemma st_delChannel_shrink t ch t' : st_delChannel enumA t ch = Some t' -> shrink t t'.
Proof.
  unfold st_delChannel. intros H.
  destruct (h_chan t !! ch) as [c|] eqn:Hc; [|done]. simpl in H.
  eapply shrink_trans; [apply (shrink_set_st_chans t)|].
  eapply (foldM_rel shrink); [apply shrink_refl|apply shrink_trans| |exact H].
  intros s x s' _ Hf. simpl in Hf.
  destruct (h_chan s !! ch) as [c'|]; [|done]. simpl in Hf.
  destruct (co_nicks c' !! x.1); [|inversion Hf; apply shrink_refl].
  destruct (ch_delNick s ch x.1) as [s2|] eqn:E2; [|done]. simpl in Hf.
  destruct (nk_delChannel s2 x.1 ch) as [s3|] eqn:E3; [|done]. simpl in Hf.
  assert (shrink s s3) as S3.
  { eapply shrink_trans; [eapply ch_delNick_shrink|eapply nk_delChannel_shrink]; eauto. }
  destruct (h_nick s3 !! x.1); [|done]. simpl in Hf.
  repeat case_decide; try (inversion Hf; subst; exact S3).
  eapply shrink_trans; [exact S3|]. eapply st_delNick_shrink; eauto.
Qed.

Lemma im_Wipe_shrink t t' : im_Wipe enumA enumN t = Some t' -> shrink t t'.
Proof.
  unfold im_Wipe. intros H.
  eapply (foldM_rel shrink); [apply shrink_refl|apply shrink_trans| |exact H].
  intros s x s' _ Hf. simpl in Hf. destruct (st_chans s !! x.1); [|inversion Hf; apply shrink_refl].
  eapply st_delChannel_shrink; eauto.
Qed.

Lemma ch_parse_char_shrink ch st m st' : ch_parse_char ch st m = Some st' -> shrink st.1.1 st'.1.1.
Proof.
  destruct st as [[t op] args]. unfold ch_parse_char. simpl. intros H.
  repeat case_decide; inv_opt; simpl; try apply shrink_refl;
    try (eapply shrink_put_chan; [done|]; simpl; tauto); apply shrink_put_priv.
Qed.
Lemma ch_parseModes_shrink t ch modes op args t' : ch_parseModes t ch modes op args = Some t' -> shrink t t'.
Proof.
  unfold ch_parseModes. intros H. destruct (foldM _ _ _) as [st|] eqn:E; [|done]. simpl in H. inversion H; subst.
  change t with (t, op, args).1.1.
  eapply (foldM_rel (fun a b : istate * bool * list bytes => shrink a.1.1 b.1.1)); [intros; apply shrink_refl| |..|exact E].
  - intros ???. apply shrink_trans.
  - intros ??? _. apply ch_parse_char_shrink.
Qed.

Lemma grow_new_nick t n : grow t (set_st_nicks (put_nick (bump t) (h_next t) (new_nickobj n)) (<[n := h_next t]> (st_nicks t))).
Proof.
  unfold grow, fresh_in. split; [simpl; lia|]. split; intros a Ha.
  - change (oown (put_nick (bump t) (h_next t) (new_nickobj n)) a) in Ha.
    apply oown_put_nick in Ha as [?| ->]; [by left|right; simpl; lia].
  - change (pown (put_nick (bump t) (h_next t) (new_nickobj n)) a) in Ha.
    apply pown_put_nick in Ha as [?|(ch & Hc)]; [by left|]. simpl in Hc. by rewrite lookup_empty in Hc.
Qed.
Lemma grow_new_chan t c : grow t (set_st_chans (put_chan (bump t) (h_next t) (new_chanobj c)) (<[c := h_next t]> (st_chans t))).
Proof.
  unfold grow, fresh_in. split; [simpl; lia|]. split; intros a Ha.
  - change (oown (put_chan (bump t) (h_next t) (new_chanobj c)) a) in Ha.
    apply oown_put_chan in Ha as [?| ->]; [by left|right; simpl; lia].
  - change (pown (put_chan (bump t) (h_next t) (new_chanobj c)) a) in Ha.
    apply pown_put_chan in Ha as [?|(ch & Hc)]; [by left|]. simpl in Hc. by rewrite lookup_empty in Hc.
Qed.

Lemma renick_loop_shrink neu old nk l : forall s s',
  foldM (fun s (e : addr * addr) => c ← h_chan s !! fst e;
           Some (put_chan s (fst e) (co_set_lookup c (<[neu := nk]> (delete old (co_lookup c)))))) s l = Some s' ->
  shrink s s'.
Proof.
  intros s s'. apply (foldM_rel shrink); [apply shrink_refl|apply shrink_trans|].
  intros t x t' _ Hf. inv_opt. eapply shrink_put_chan; [done|]. simpl. tauto.
Qed.

Lemma nk_addChannel_grow t nk ch cp t' : nk_addChannel t nk ch cp = Some t' ->
  h_next t' = h_next t /\ (forall a, oown t' a -> oown t a) /\ forall a, pown t' a -> pown t a \/ a = cp.
Proof.
  unfold nk_addChannel. intros H. inv_opt; [by auto|]. split; [done|]. split; intros a Ha.
  - apply oown_put_nick in Ha as [?| ->]; [done|eapply oown_nick_obj; eauto].
  - apply pown_put_nick in Ha as [?|(ch' & Hc)]; [by left|].
    simpl in Hc. apply lookup_insert_Some in Hc as [[_ <-]|[_ Hc]]; [by right|left; eapply pown_nick_priv; eauto].
Qed.
Lemma ch_addNick_grow t ch nk cp t' : ch_addNick t ch nk cp = Some t' ->
  h_next t' = h_next t /\ (forall a, oown t' a -> oown t a) /\ forall a, pown t' a -> pown t a \/ a = cp.
Proof.
  unfold ch_addNick. intros H. inv_opt; [by auto|]. split; [done|]. split; intros a Ha.
  - apply oown_put_chan in Ha as [?| ->]; [done|eapply oown_chan_obj; eauto].
  - apply pown_put_chan in Ha as [?|(ch' & Hc)]; [by left|].
    simpl in Hc. apply lookup_insert_Some in Hc as [[_ <-]|[_ Hc]]; [by right|left; eapply pown_chan_priv; eauto].
Qed.

Lemma im_step_grow t o t' r : im_step enumA enumN t o = Some (t', r) -> grow t t'.
Proof.
  destruct o; simpl; intros H.
  - (* NewNick *) unfold im_NewNick in H. inv_opt; try apply grow_refl. apply grow_new_nick.
  - unfold im_GetNick in H. inv_opt; apply grow_refl.
  - (* ReNick *) unfold im_ReNick in H. inv_opt; try apply grow_refl. apply shrink_grow.
    eapply shrink_trans; [|eapply renick_loop_shrink; eauto].
    eapply shrink_trans; [|apply shrink_set_st_nicks]. eapply shrink_put_nick; [done|]. simpl. tauto.
  - (* DelNick *) unfold im_DelNick in H. inv_opt; try apply grow_refl. apply shrink_grow. eapply st_delNick_shrink; eauto.
  - unfold im_NickInfo in H. inv_opt; try apply grow_refl. apply shrink_grow. eapply shrink_put_nick; [done|]. simpl. tauto.
  - unfold im_NickModes in H. inv_opt; try apply grow_refl. apply shrink_grow. eapply shrink_put_nick; [done|]. simpl. tauto.
  - unfold im_NewChannel in H. inv_opt; try apply grow_refl. apply grow_new_chan.
  - unfold im_GetChannel in H. inv_opt; apply grow_refl.
  - unfold im_DelChannel in H. inv_opt; try apply grow_refl. apply shrink_grow. eapply st_delChannel_shrink; eauto.
  - unfold im_Topic in H. inv_opt; try apply grow_refl. apply shrink_grow. eapply shrink_put_chan; [done|]. simpl. tauto.
  - unfold im_ChannelModes in H. inv_opt; try apply grow_refl. apply shrink_grow. eapply ch_parseModes_shrink; eauto.
  - unfold im_Me in H. inv_opt; apply grow_refl.
  - unfold im_IsOn in H. inv_opt; apply grow_refl.
  - (* Associate *) unfold im_Associate in H. inv_opt; try apply grow_refl.
    match goal with H1 : ch_addNick _ _ _ _ = Some ?s2, H2 : nk_addChannel ?s2 _ _ _ = Some _ |- _ =>
      apply ch_addNick_grow in H1 as (E1 & O1 & G1); apply nk_addChannel_grow in H2 as (E2 & O2 & G2) end.
    unfold grow, fresh_in. split; [rewrite E2, E1; simpl; lia|]. split; intros a Ha.
    { left. apply (O1 a), (O2 a), Ha. }
    rewrite E2, E1. simpl.
    destruct (G2 a Ha) as [Ha2| ->]; [|right; lia]. destruct (G1 a Ha2) as [Ha1| ->]; [by left|right; lia].
  - (* Dissociate *) unfold im_Dissociate in H. inv_opt; try apply grow_refl; apply shrink_grow.
    + eapply st_delChannel_shrink; eauto.
    + eapply shrink_trans; [eapply shrink_trans; [eapply ch_delNick_shrink|eapply nk_delChannel_shrink]|eapply st_delNick_shrink]; eauto.
    + eapply shrink_trans; [eapply ch_delNick_shrink|eapply nk_delChannel_shrink]; eauto.
  - apply shrink_grow. inv_opt. eapply im_Wipe_shrink; eauto.
Qed.

(* ---------- (F) the tracker and the ChanPrivs heap ---------- *)
(* [hp] is another content of the ChanPrivs heap that agrees with the real one on the tracker's
   own objects: the tracker cannot tell the difference, and leaves the rest of [hp] alone *)
Definition agree (t : istate) (hp : gmap addr privs) : Prop := forall a, pown t a -> hp !! a = h_priv t !! a.
Definition outside (t : istate) (hp hp' : gmap addr privs) : Prop :=
  forall a, ~ pown t a -> (a < h_next t)%positive -> hp' !! a = hp !! a.
Definition pshrink (t t' : istate) : Prop := forall a, pown t' a -> pown t a.
Notation sp hp := (fun t' : istate => set_h_priv t' hp).

Lemma set_h_priv_id t : set_h_priv t (h_priv t) = t.
Proof. by destruct t. Qed.
Lemma shrink_pshrink t t' : shrink t t' -> pshrink t t'.
Proof. intros (_ & _ & P). exact P. Qed.
Lemma agree_self t : agree t (h_priv t). Proof. by intros a _. Qed.
Lemma outside_refl t hp : outside t hp hp. Proof. by intros a _ _. Qed.
Lemma outside_trans t t1 hp hp1 hp2 : grow t t1 -> outside t hp hp1 -> outside t1 hp1 hp2 -> outside t hp hp2.
Proof.
  intros (E & _ & P) O1 O2 a Hn Hl. rewrite O2, O1; [done..| |lia].
  intros Hp. destruct (P a Hp) as [?|F]; [done|]. unfold fresh_in in F. lia.
Qed.

Lemma foldM_comm {A S} (f : S -> A -> option S) (g : S -> S) :
  (forall s a, f (g s) a = g <$> f s a) -> forall l s, foldM f (g s) l = g <$> foldM f s l.
Proof.
  intros H. induction l as [|a l IH]; intros s; [done|]. simpl. rewrite H.
  destruct (f s a) as [s1|]; [|done]. simpl. apply IH.
Qed.
Lemma foldM_ext_in {A S} (f g : S -> A -> option S) l :
  (forall s x, x ∈ l -> f s x = g s x) -> forall s, foldM f s l = foldM g s l.
Proof.
  induction l as [|x l IH]; intros H s; [done|]. simpl. rewrite H by left.
  destruct (g s x); [|done]. apply IH. intros. apply H. by right.
Qed.

Local Arguments nk_addChannel : simpl never.
Local Arguments nk_delChannel : simpl never.
Local Arguments ch_addNick : simpl never.
Local Arguments ch_delNick : simpl never.
Local Arguments st_delNick : simpl never.
Local Arguments st_delChannel : simpl never.
Local Arguments im_nick_snap : simpl never.
Local Arguments im_chan_snap : simpl never.
Local Arguments nick_chan_map : simpl never.
Local Arguments chan_nick_map : simpl never.
Local Arguments nk_isOn : simpl never.
Local Arguments ch_parseModes : simpl never.
Ltac bind_d := repeat (match goal with |- context [mbind _ (?m !! ?k)] => destruct (m !! k) eqn:?; simpl; try done end).

Lemma nk_addChannel_blind t hp nk ch cp : nk_addChannel (set_h_priv t hp) nk ch cp = sp hp <$> nk_addChannel t nk ch cp.
Proof. unfold nk_addChannel. simpl. bind_d. by case_match. Qed.
Lemma nk_delChannel_blind t hp nk ch : nk_delChannel (set_h_priv t hp) nk ch = sp hp <$> nk_delChannel t nk ch.
Proof. unfold nk_delChannel. simpl. bind_d. by case_match. Qed.
Lemma ch_addNick_blind t hp ch nk cp : ch_addNick (set_h_priv t hp) ch nk cp = sp hp <$> ch_addNick t ch nk cp.
Proof. unfold ch_addNick. simpl. bind_d. by case_match. Qed.
Lemma ch_delNick_blind t hp ch nk : ch_delNick (set_h_priv t hp) ch nk = sp hp <$> ch_delNick t ch nk.
Proof. unfold ch_delNick. simpl. bind_d. by case_match. Qed.

Lemma st_delNick_blind t hp nk : st_delNick enumA (set_h_priv t hp) nk = sp hp <$> st_delNick enumA t nk.
Proof.
  unfold st_delNick. simpl. case_decide; [done|]. destruct (h_nick t !! nk) as [o|]; [|done]. simpl.
  change (set_st_nicks (set_h_priv t hp) ?m) with (set_h_priv (set_st_nicks t m) hp).
  apply (foldM_comm _ (sp hp)). intros s e. simpl. bind_d. case_match; [|done].
  rewrite nk_delChannel_blind. destruct (nk_delChannel s nk e.1); [|done]. simpl. apply ch_delNick_blind.
Qed.
Lemma st_delChannel_blind t hp ch : st_delChannel enumA (set_h_priv t hp) ch = sp hp <$> st_delChannel enumA t ch.
Proof.
  unfold st_delChannel. simpl. destruct (h_chan t !! ch) as [c|]; [|done]. simpl.
  change (set_st_chans (set_h_priv t hp) ?m) with (set_h_priv (set_st_chans t m) hp).
  apply (foldM_comm _ (sp hp)). intros s e. simpl. bind_d. case_match; [|done].
  rewrite ch_delNick_blind. destruct (ch_delNick s ch e.1) as [s2|]; [|done]. simpl.
  rewrite nk_delChannel_blind. destruct (nk_delChannel s2 e.1 ch) as [s3|]; [|done]. simpl.
  bind_d. repeat case_decide; try done. apply st_delNick_blind.
Qed.
Lemma im_Wipe_blind t hp : im_Wipe enumA enumN (set_h_priv t hp) = sp hp <$> im_Wipe enumA enumN t.
Proof.
  unfold im_Wipe. simpl. apply (foldM_comm _ (sp hp)). intros s e. simpl. case_match; [|done]. apply st_delChannel_blind.
Qed.

(* a blind step leaves the ChanPrivs heap alone *)
Lemma blind_keeps (f : istate -> option istate) t t' :
  (forall hp, f (set_h_priv t hp) = sp hp <$> f t) -> f t = Some t' -> h_priv t' = h_priv t.
Proof.
  intros B H. specialize (B (h_priv t)). rewrite set_h_priv_id, H in B. simpl in B. injection B as E.
  apply (f_equal h_priv) in E. simpl in E. done.
Qed.

(* the snapshots read ChanPrivs objects through the tracker's own pointers only *)
Lemma nick_chan_map_agree t hp o nk : agree t hp -> h_nick t !! nk = Some o ->
  nick_chan_map enumA (set_h_priv t hp) o = nick_chan_map enumA t o.
Proof.
  intros A Ho. unfold nick_chan_map. apply foldM_ext_in. intros acc [ch cp] Hin. simpl.
  apply enumA_elem in Hin. rewrite (A cp); [done|]. eapply pown_nick_priv; eauto.
Qed.
Lemma im_nick_snap_agree t hp nk : agree t hp -> im_nick_snap enumA (set_h_priv t hp) nk = im_nick_snap enumA t nk.
Proof.
  intros A. unfold im_nick_snap. simpl. destruct (h_nick t !! nk) as [o|] eqn:Ho; [|done]. simpl.
  by erewrite nick_chan_map_agree.
Qed.
Lemma chan_nick_map_agree t hp c ch : agree t hp -> h_chan t !! ch = Some c ->
  chan_nick_map enumA (set_h_priv t hp) c = chan_nick_map enumA t c.
Proof.
  intros A Ho. unfold chan_nick_map. apply foldM_ext_in. intros acc [nk cp] Hin. simpl.
  apply enumA_elem in Hin. rewrite (A cp); [done|]. eapply pown_chan_priv; eauto.
Qed.
Lemma im_chan_snap_agree t hp ch : agree t hp -> im_chan_snap enumA (set_h_priv t hp) ch = im_chan_snap enumA t ch.
Proof.
  intros A. unfold im_chan_snap. simpl. destruct (h_chan t !! ch) as [o|] eqn:Ho; [|done]. simpl.
  by erewrite chan_nick_map_agree.
Qed.
Lemma nk_isOn_agree t hp nk ch : agree t hp -> nk_isOn (set_h_priv t hp) nk ch = nk_isOn t nk ch.
Proof.
  intros A. unfold nk_isOn. simpl. destruct (h_nick t !! nk) as [o|] eqn:Ho; [|done]. simpl.
  destruct (no_chans o !! ch) as [cp|] eqn:Hc; [|done]. rewrite (A cp); [done|]. eapply pown_nick_priv; eauto.
Qed.

Definition step_rel (t : istate) (hp : gmap addr privs) (t' : istate) (hp' : gmap addr privs) : Prop :=
  agree t' hp' /\ outside t hp hp'.
Lemma step_rel_blind t hp t' : agree t hp -> pshrink t t' -> h_priv t' = h_priv t -> step_rel t hp t' hp.
Proof.
  intros A P E. split; [|apply outside_refl]. intros a Ha. rewrite E. apply A, P, Ha.
Qed.

Lemma agree_blind t hp t' : agree t hp -> pshrink t t' -> h_priv t' = h_priv t -> agree t' hp.
Proof. intros A P E a Ha. rewrite E. apply A, P, Ha. Qed.

Lemma pshrink_new_nick t n : pshrink t (set_st_nicks (put_nick (bump t) (h_next t) (new_nickobj n)) (<[n := h_next t]> (st_nicks t))).
Proof.
  intros a Ha. change (pown (put_nick (bump t) (h_next t) (new_nickobj n)) a) in Ha.
  apply pown_put_nick in Ha as [?|(ch & Hc)]; [done|]. simpl in Hc. by rewrite lookup_empty in Hc.
Qed.
Lemma pshrink_new_chan t c : pshrink t (set_st_chans (put_chan (bump t) (h_next t) (new_chanobj c)) (<[c := h_next t]> (st_chans t))).
Proof.
  intros a Ha. change (pown (put_chan (bump t) (h_next t) (new_chanobj c)) a) in Ha.
  apply pown_put_chan in Ha as [?|(ch & Hc)]; [done|]. simpl in Hc. by rewrite lookup_empty in Hc.
Qed.

Definition renick_loop (neu old : name) (nk : addr) (s : istate) (l : list (addr * addr)) : option istate :=
  foldM (fun s (e : addr * addr) => c ← h_chan s !! fst e;
           Some (put_chan s (fst e) (co_set_lookup c (<[neu := nk]> (delete old (co_lookup c)))))) s l.
Lemma renick_loop_blind neu old nk l t hp : renick_loop neu old nk (set_h_priv t hp) l = sp hp <$> renick_loop neu old nk t l.
Proof. unfold renick_loop. apply (foldM_comm _ (sp hp)). intros s e. simpl. by bind_d. Qed.

Notation lift hp := (prod_map (sp hp) id).

Lemma im_NewNick_eq t hp n : agree t hp -> im_NewNick enumA (set_h_priv t hp) n = lift hp <$> im_NewNick enumA t n.
Proof.
  intros A. unfold im_NewNick. destruct n as [|b n]; [done|]. simpl. destruct (st_nicks t !! (b :: n)); [done|].
  match goal with |- context [im_nick_snap _ ?x _] => change x with (set_h_priv (set_st_nicks (put_nick (bump t) (h_next t) (new_nickobj (b :: n))) (<[b :: n := h_next t]> (st_nicks t))) hp) end.
  rewrite im_nick_snap_agree by (eapply agree_blind; [done|apply pshrink_new_nick|done]).
  by destruct (im_nick_snap _ _ _).
Qed.
Lemma im_GetNick_eq t hp n : agree t hp -> im_GetNick enumA (set_h_priv t hp) n = lift hp <$> im_GetNick enumA t n.
Proof.
  intros A. unfold im_GetNick. simpl. destruct (st_nicks t !! n); [|done]. rewrite im_nick_snap_agree by done.
  by destruct (im_nick_snap _ _ _).
Qed.
Lemma im_ReNick_eq t hp old neu : agree t hp -> im_ReNick enumA (set_h_priv t hp) old neu = lift hp <$> im_ReNick enumA t old neu.
Proof.
  intros A. unfold im_ReNick. simpl. destruct (st_nicks t !! old) as [nk|]; [|done]. destruct (st_nicks t !! neu); [done|].
  destruct (h_nick t !! nk) as [o|] eqn:Ho; [|done]. simpl.
  set (o1 := Build_nickobj neu (no_ident o) (no_host o) (no_name o) (no_modes o) (no_lookup o) (no_chans o)).
  set (t1 := set_st_nicks (put_nick t nk o1) (<[neu:=nk]> (delete old (st_nicks t)))).
  change (foldM _ _ (enumA (no_chans o))) with (renick_loop neu old nk (set_h_priv t1 hp) (enumA (no_chans o))) at 1.
  change (foldM _ _ (enumA (no_chans o))) with (renick_loop neu old nk t1 (enumA (no_chans o))).
  rewrite renick_loop_blind. destruct (renick_loop neu old nk t1 _) as [t2|] eqn:E; [|done]. simpl.
  assert (shrink t t2) as S.
  { eapply shrink_trans; [|eapply renick_loop_shrink; exact E]. eapply shrink_trans; [|apply shrink_set_st_nicks].
    eapply shrink_put_nick; [done|]. simpl. tauto. }
  rewrite im_nick_snap_agree.
  - by destruct (im_nick_snap _ _ _).
  - eapply agree_blind; [done|by apply shrink_pshrink|].
    eapply (blind_keeps (fun t => renick_loop neu old nk t (enumA (no_chans o))) t1); [|exact E]. intros. apply renick_loop_blind.
Qed.
Lemma im_DelNick_eq t hp n : agree t hp -> im_DelNick enumA (set_h_priv t hp) n = lift hp <$> im_DelNick enumA t n.
Proof.
  intros A. unfold im_DelNick. simpl. destruct (st_nicks t !! n) as [nk|]; [|done]. case_decide; [done|].
  rewrite st_delNick_blind. destruct (st_delNick enumA t nk) as [t1|] eqn:E; [|done]. simpl.
  rewrite im_nick_snap_agree.
  - by destruct (im_nick_snap _ _ _).
  - eapply agree_blind; [done|eapply shrink_pshrink, st_delNick_shrink; eauto|].
    eapply (blind_keeps (fun t => st_delNick enumA t nk)); [|exact E]. intros. apply st_delNick_blind.
Qed.
Lemma im_NickInfo_eq t hp n i h r0 : agree t hp -> im_NickInfo enumA (set_h_priv t hp) n i h r0 = lift hp <$> im_NickInfo enumA t n i h r0.
Proof.
  intros A. unfold im_NickInfo. simpl. destruct (st_nicks t !! n) as [nk|]; [|done].
  destruct (h_nick t !! nk) as [o|] eqn:Ho; [|done]. simpl.
  match goal with |- context [im_nick_snap _ (put_nick (set_h_priv t hp) ?a ?b) _] =>
    change (put_nick (set_h_priv t hp) a b) with (set_h_priv (put_nick t a b) hp) end.
  rewrite im_nick_snap_agree.
  - by destruct (im_nick_snap _ _ _).
  - eapply agree_blind; [done| |done]. eapply shrink_pshrink, shrink_put_nick; [done|]. simpl. tauto.
Qed.
Lemma im_NickModes_eq t hp n m : agree t hp -> im_NickModes enumA (set_h_priv t hp) n m = lift hp <$> im_NickModes enumA t n m.
Proof.
  intros A. unfold im_NickModes. simpl. destruct (st_nicks t !! n) as [nk|]; [|done].
  destruct (h_nick t !! nk) as [o|] eqn:Ho; [|done]. simpl.
  match goal with |- context [im_nick_snap _ (put_nick (set_h_priv t hp) ?a ?b) _] =>
    change (put_nick (set_h_priv t hp) a b) with (set_h_priv (put_nick t a b) hp) end.
  rewrite im_nick_snap_agree.
  - by destruct (im_nick_snap _ _ _).
  - eapply agree_blind; [done| |done]. eapply shrink_pshrink, shrink_put_nick; [done|]. simpl. tauto.
Qed.
Lemma im_NewChannel_eq t hp c : agree t hp -> im_NewChannel enumA (set_h_priv t hp) c = lift hp <$> im_NewChannel enumA t c.
Proof.
  intros A. unfold im_NewChannel. destruct c as [|b c]; [done|]. simpl. destruct (st_chans t !! (b :: c)); [done|].
  match goal with |- context [im_chan_snap _ ?x _] => change x with (set_h_priv (set_st_chans (put_chan (bump t) (h_next t) (new_chanobj (b :: c))) (<[b :: c := h_next t]> (st_chans t))) hp) end.
  rewrite im_chan_snap_agree by (eapply agree_blind; [done|apply pshrink_new_chan|done]).
  by destruct (im_chan_snap _ _ _).
Qed.
Lemma im_GetChannel_eq t hp c : agree t hp -> im_GetChannel enumA (set_h_priv t hp) c = lift hp <$> im_GetChannel enumA t c.
Proof.
  intros A. unfold im_GetChannel. simpl. destruct (st_chans t !! c); [|done]. rewrite im_chan_snap_agree by done.
  by destruct (im_chan_snap _ _ _).
Qed.
Lemma im_DelChannel_eq t hp c : agree t hp -> im_DelChannel enumA (set_h_priv t hp) c = lift hp <$> im_DelChannel enumA t c.
Proof.
  intros A. unfold im_DelChannel. simpl. destruct (st_chans t !! c) as [ch|]; [|done].
  rewrite st_delChannel_blind. destruct (st_delChannel enumA t ch) as [t1|] eqn:E; [|done]. simpl.
  rewrite im_chan_snap_agree.
  - by destruct (im_chan_snap _ _ _).
  - eapply agree_blind; [done|eapply shrink_pshrink, st_delChannel_shrink; eauto|].
    eapply (blind_keeps (fun t => st_delChannel enumA t ch)); [|exact E]. intros. apply st_delChannel_blind.
Qed.
Lemma im_Topic_eq t hp c tp : agree t hp -> im_Topic enumA (set_h_priv t hp) c tp = lift hp <$> im_Topic enumA t c tp.
Proof.
  intros A. unfold im_Topic. simpl. destruct (st_chans t !! c) as [ch|]; [|done].
  destruct (h_chan t !! ch) as [o|] eqn:Ho; [|done]. simpl.
  match goal with |- context [im_chan_snap _ (put_chan (set_h_priv t hp) ?a ?b) _] =>
    change (put_chan (set_h_priv t hp) a b) with (set_h_priv (put_chan t a b) hp) end.
  rewrite im_chan_snap_agree.
  - by destruct (im_chan_snap _ _ _).
  - eapply agree_blind; [done| |done]. eapply shrink_pshrink, shrink_put_chan; [done|]. simpl. tauto.
Qed.
Lemma im_Me_eq t hp : agree t hp -> im_Me enumA (set_h_priv t hp) = lift hp <$> im_Me enumA t.
Proof. intros A. unfold im_Me. simpl. rewrite im_nick_snap_agree by done. by destruct (im_nick_snap _ _ _). Qed.
Lemma im_IsOn_eq t hp c n : agree t hp -> im_IsOn (set_h_priv t hp) c n = lift hp <$> im_IsOn t c n.
Proof.
  intros A. unfold im_IsOn. simpl. destruct (st_nicks t !! n); [|done]. destruct (st_chans t !! c); [|done].
  rewrite nk_isOn_agree by done. by destruct (nk_isOn _ _ _).
Qed.
Lemma im_Dissociate_eq t hp c n : agree t hp -> im_Dissociate enumA (set_h_priv t hp) c n = sp hp <$> im_Dissociate enumA t c n.
Proof.
  intros A. unfold im_Dissociate. simpl. destruct (st_chans t !! c) as [ch|]; [|done]. destruct (st_nicks t !! n) as [nk|]; [|done].
  rewrite nk_isOn_agree by done. destruct (nk_isOn t nk ch) as [r|]; [|done]. simpl.
  destruct (negb r.2); [done|]. case_decide; [apply st_delChannel_blind|].
  rewrite ch_delNick_blind. destruct (ch_delNick t ch nk) as [t1|]; [|done]. simpl.
  rewrite nk_delChannel_blind. destruct (nk_delChannel t1 nk ch) as [t2|]; [|done]. simpl.
  destruct (h_nick t2 !! nk); [|done]. simpl. case_decide; [|done]. apply st_delNick_blind.
Qed.

Lemma ch_parse_char_rel ch t op args hp m st' : agree t hp -> ch_parse_char ch (t, op, args) m = Some st' ->
  exists hp', ch_parse_char ch (set_h_priv t hp, op, args) m = Some (set_h_priv st'.1.1 hp', st'.1.2, st'.2)
              /\ agree st'.1.1 hp' /\ outside t hp hp'.
Proof.
  intros A H. unfold ch_parse_char in *. simpl in *.
  repeat case_decide; inv_opt; simpl.
  all: try match goal with Hc : co_nicks _ !! _ = Some ?cp |- _ => rewrite (A cp) by (eapply pown_chan_priv; eauto) end.
  all: try (exists hp; split; [simplify_option_eq; reflexivity|split; [first [done|eapply agree_blind; [done|eapply shrink_pshrink, shrink_put_chan; [done|simpl; tauto]|done]]|apply outside_refl]]).
  (* a privilege letter: the ChanPrivs object is reached through ch.lookup / ch.nicks *)
  match goal with Hc : co_nicks _ !! _ = Some ?cp, Hp : priv_char _ _ _ = Some ?p' |- _ =>
    assert (pown t cp) as Pc by (eapply pown_chan_priv; eauto); exists (<[cp := p']> hp);
    split; [simplify_option_eq; reflexivity|]; split;
    [ intros a Ha; change (pown t a) in Ha; simpl; destruct (decide (a = cp)) as [->|Hne];
      [by rewrite !lookup_insert | rewrite !lookup_insert_ne by done; by apply A]
    | intros a Hn _; rewrite lookup_insert_ne; [done|]; by intros -> ] end.
Qed.

Lemma ch_parse_fold_rel ch modes : forall t op args hp st', agree t hp ->
  foldM (ch_parse_char ch) (t, op, args) modes = Some st' ->
  exists hp', foldM (ch_parse_char ch) (set_h_priv t hp, op, args) modes = Some (set_h_priv st'.1.1 hp', st'.1.2, st'.2)
              /\ agree st'.1.1 hp' /\ outside t hp hp'.
Proof.
  induction modes as [|m modes IH]; intros t op args hp st' A H; simpl in H.
  - inversion H; subst. exists hp. simpl. split; [done|]. split; [done|apply outside_refl].
  - destruct (ch_parse_char ch (t, op, args) m) as [[[t1 op1] args1]|] eqn:E; [|done].
    destruct (ch_parse_char_rel _ _ _ _ _ _ _ A E) as (hp1 & E1 & A1 & O1). simpl in *.
    destruct (IH _ _ _ _ _ A1 H) as (hp2 & E2 & A2 & O2).
    exists hp2. rewrite E1. split; [exact E2|]. split; [done|].
    eapply outside_trans; [|exact O1|exact O2]. apply shrink_grow. apply (ch_parse_char_shrink _ _ _ _ E).
Qed.

Lemma im_ChannelModes_rel t hp c modes args t' r : agree t hp -> im_ChannelModes enumA t c modes args = Some (t', r) ->
  exists hp', im_ChannelModes enumA (set_h_priv t hp) c modes args = Some (set_h_priv t' hp', r) /\ step_rel t hp t' hp'.
Proof.
  intros A H. unfold im_ChannelModes in *. simpl. destruct (st_chans t !! c) as [ch|].
  2:{ inversion H; subst. exists hp. split; [done|]. split; [done|apply outside_refl]. }
  unfold ch_parseModes in *. destruct (foldM _ (t, false, args) modes) as [st'|] eqn:E; [|done]. simpl in H.
  destruct (ch_parse_fold_rel _ _ _ _ _ _ _ A E) as (hp' & E' & A' & O'). rewrite E'. simpl.
  rewrite im_chan_snap_agree by done. destruct (im_chan_snap enumA st'.1.1 ch); [|done]. simpl in *.
  inversion H; subst. exists hp'. done.
Qed.

Lemma im_Associate_rel t hp c n t' r : agree t hp -> im_Associate t c n = Some (t', r) ->
  exists hp', im_Associate (set_h_priv t hp) c n = Some (set_h_priv t' hp', r) /\ step_rel t hp t' hp'.
Proof.
  intros A H. unfold im_Associate in *. simpl.
  destruct (st_chans t !! c) as [ch|]; [|inversion H; subst; exists hp; split; [done|split; [done|apply outside_refl]]].
  destruct (st_nicks t !! n) as [nk|]; [|inversion H; subst; exists hp; split; [done|split; [done|apply outside_refl]]].
  rewrite nk_isOn_agree by done. destruct (nk_isOn t nk ch) as [ro|]; [|done]. simpl in *.
  destruct ro.2; [inversion H; subst; exists hp; split; [done|split; [done|apply outside_refl]]|].
  set (cp := h_next t) in *. set (hp1 := <[cp := no_privs]> hp).
  change (put_priv (bump (set_h_priv t hp)) cp no_privs) with (set_h_priv (put_priv (bump t) cp no_privs) hp1).
  set (t1 := put_priv (bump t) cp no_privs) in *.
  rewrite ch_addNick_blind. destruct (ch_addNick t1 ch nk cp) as [t2|] eqn:E2; [|done]. simpl in *.
  rewrite nk_addChannel_blind. destruct (nk_addChannel t2 nk ch cp) as [t3|] eqn:E3; [|done]. simpl in *.
  assert (h_priv t3 = h_priv t1) as HP.
  { etrans; [eapply (blind_keeps (fun t => nk_addChannel t nk ch cp)); [|exact E3]; intros; apply nk_addChannel_blind|].
    eapply (blind_keeps (fun t => ch_addNick t ch nk cp)); [|exact E2]; intros; apply ch_addNick_blind. }
  rewrite HP in *. unfold t1 in H at 1. simpl in H. rewrite lookup_insert in H. simpl in H. inversion H; subst t' r.
  exists hp1. split; [unfold hp1; rewrite lookup_insert; done|].
  apply ch_addNick_grow in E2 as (N2 & _ & G2). apply nk_addChannel_grow in E3 as (N3 & _ & G3). split.
  - intros a Ha. rewrite HP. unfold t1, hp1. simpl. destruct (decide (a = cp)) as [->|Hne].
    + by rewrite !lookup_insert.
    + rewrite !lookup_insert_ne by done. apply A. destruct (G3 a Ha) as [Ha2|?]; [|done]. by destruct (G2 a Ha2).
  - intros a Hn Hl. unfold hp1. rewrite lookup_insert_ne; [done|]. unfold cp. lia.
Qed.

Definition lift_res hp (x : istate * result) : istate * result := (set_h_priv x.1 hp, x.2).

(* every other method: blind *)
Definition blind_op (o : op) : Prop :=
  match o with OAssociate _ _ | OChannelModes _ _ _ => False | _ => True end.
Lemma im_step_blind_eq t hp o : blind_op o -> agree t hp ->
  im_step enumA enumN (set_h_priv t hp) o = lift_res hp <$> im_step enumA enumN t o.
Proof.
  intros B A. destruct o; simpl in *; try done.
  - rewrite im_NewNick_eq by done. by destruct (im_NewNick _ _ _) as [[??]|].
  - rewrite im_GetNick_eq by done. by destruct (im_GetNick _ _ _) as [[??]|].
  - rewrite im_ReNick_eq by done. by destruct (im_ReNick _ _ _ _) as [[??]|].
  - rewrite im_DelNick_eq by done. by destruct (im_DelNick _ _ _) as [[??]|].
  - rewrite im_NickInfo_eq by done. by destruct (im_NickInfo _ _ _ _ _ _) as [[??]|].
  - rewrite im_NickModes_eq by done. by destruct (im_NickModes _ _ _ _) as [[??]|].
  - rewrite im_NewChannel_eq by done. by destruct (im_NewChannel _ _ _) as [[??]|].
  - rewrite im_GetChannel_eq by done. by destruct (im_GetChannel _ _ _) as [[??]|].
  - rewrite im_DelChannel_eq by done. by destruct (im_DelChannel _ _ _) as [[??]|].
  - rewrite im_Topic_eq by done. by destruct (im_Topic _ _ _ _) as [[??]|].
  - rewrite im_Me_eq by done. by destruct (im_Me _ _) as [[??]|].
  - rewrite im_IsOn_eq by done. by destruct (im_IsOn _ _ _) as [[??]|].
  - rewrite im_Dissociate_eq by done. by destruct (im_Dissociate _ _ _ _).
  - rewrite im_Wipe_blind. by destruct (im_Wipe _ _ _).
Qed.

Lemma im_step_pshrink t o t' r : blind_op o -> im_step enumA enumN t o = Some (t', r) -> pshrink t t'.
Proof.
  intros B H. destruct (im_step_grow _ _ _ _ H) as (E & _ & P).
  assert (h_next t' = h_next t -> pshrink t t') as K.
  { intros En a Ha. destruct (P a Ha) as [?|F]; [done|]. unfold fresh_in in F. lia. }
  assert (pshrink t t) as R by (by intros ??).
  destruct o; simpl in *; try done.
  - unfold im_NewNick in H. inv_opt; try done. apply pshrink_new_nick.
  - unfold im_GetNick in H. inv_opt; done.
  - unfold im_ReNick in H. inv_opt; try done. apply shrink_pshrink.
    eapply shrink_trans; [|eapply renick_loop_shrink; eauto].
    eapply shrink_trans; [|apply shrink_set_st_nicks]. eapply shrink_put_nick; [done|]. simpl. tauto.
  - unfold im_DelNick in H. inv_opt; try done. eapply shrink_pshrink, st_delNick_shrink; eauto.
  - unfold im_NickInfo in H. inv_opt; try done. by apply K.
  - unfold im_NickModes in H. inv_opt; try done. by apply K.
  - unfold im_NewChannel in H. inv_opt; try done. apply pshrink_new_chan.
  - unfold im_GetChannel in H. inv_opt; done.
  - unfold im_DelChannel in H. inv_opt; try done. eapply shrink_pshrink, st_delChannel_shrink; eauto.
  - unfold im_Topic in H. inv_opt; try done. by apply K.
  - unfold im_Me in H. inv_opt; done.
  - unfold im_IsOn in H. inv_opt; done.
  - unfold im_Dissociate in H. inv_opt; try done; apply K.
    + eapply st_delChannel_shrink; eauto.
    + etrans; [eapply st_delNick_shrink; eauto|]. etrans; [eapply nk_delChannel_shrink; eauto|]. eapply ch_delNick_shrink; eauto.
    + etrans; [eapply nk_delChannel_shrink; eauto|]. eapply ch_delNick_shrink; eauto.
  - inv_opt. eapply shrink_pshrink, im_Wipe_shrink; eauto.
Qed.

(* (F): a method run on a ChanPrivs heap that differs OUTSIDE the tracker's own objects does the
   same thing, returns the same snapshot, and leaves those other objects alone *)
Theorem im_step_rel t hp o t' r : agree t hp -> im_step enumA enumN t o = Some (t', r) ->
  exists hp', im_step enumA enumN (set_h_priv t hp) o = Some (set_h_priv t' hp', r) /\ step_rel t hp t' hp'.
Proof.
  intros A H. assert (blind_op o \/ ~ blind_op o) as [B|NB] by (destruct o; simpl; tauto).
  - exists hp. rewrite im_step_blind_eq, H by done. split; [done|].
    apply step_rel_blind; [done|eapply im_step_pshrink; eauto|].
    pose proof (im_step_blind_eq t (h_priv t) o B (agree_self t)) as E. rewrite set_h_priv_id, H in E.
    simpl in E. injection E as E. apply (f_equal h_priv) in E. simpl in E. done.
  - destruct o; simpl in NB; try tauto; simpl in *.
    + destruct (im_ChannelModes enumA t c modes args) as [[t1 r1]|] eqn:E; [|done]. simpl in H. inversion H; subst.
      destruct (im_ChannelModes_rel _ _ _ _ _ _ _ A E) as (hp' & E' & SR). exists hp'. rewrite E'. done.
    + destruct (im_Associate t c n) as [[t1 r1]|] eqn:E; [|done]. simpl in H. inversion H; subst.
      destruct (im_Associate_rel _ _ _ _ _ _ A E) as (hp' & E' & SR). exists hp'. rewrite E'. done.
Qed.

(* with [hp] the heap itself: a method writes tracker-owned or fresh ChanPrivs objects only *)
Corollary im_step_frame t o t' r a : im_step enumA enumN t o = Some (t', r) ->
  ~ pown t a -> (a < h_next t)%positive -> h_priv t' !! a = h_priv t !! a.
Proof.
  intros H Hn Hl. destruct (im_step_rel t (h_priv t) o t' r (agree_self t)) as (hp' & E & _ & O); [done|].
  rewrite set_h_priv_id, H in E. injection E as E. apply (f_equal h_priv) in E. simpl in E. rewrite E. by apply O.
Qed.

End Frame.
