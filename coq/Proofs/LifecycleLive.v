(* Proofs/LifecycleLive.v — C07: deadlock freedom of the teardown (Appendix B, I7).
   In every reachable state in which a closer sits in its drain loop, the closer itself, the
   waiter or one of the connection's counted goroutines can take a step: whatever the inbound
   backlog, the outbound backlog and the state of the handler (idle, running, blocked in Raw). *)
From Coq Require Import List Arith Bool Lia.
From Verif Require Import Lts LifecycleLts LifecycleBase LifecycleInv LifecycleInvB LifecycleInvC LifecycleInvD LifecycleInvE.
Import ListNotations.

Section Live.
  Variables (hm : nat) (hl : bool).
  Notation step := (fstep hm hl).

  Definition enabled (s : St) (t : Thr) : Prop := exists ch, step s (t, ch) <> None.

  Ltac run_step Ep := unfold fstep, lstep; rewrite Ep; cbn -[Nat.ltb Nat.min qcap].

  (* the facts a closer in its drain loop provides *)
  Lemma drain_facts s t g id ret : Inv s -> pcs s t = PClose (C3 g) id ret ->
    cur s = g /\ in_ref s = g /\ out_ref s = g /\ cancelled s g = true /\ sock_closed s g = true
    /\ is_env t = false /\ (pcs s (Waiter g) = T1 \/ pcs s (Waiter g) = PDone).
  Proof.
    intros Hinv Hp. destruct (i_t _ Hinv t) as (Hwf & _ & _ & Hc & _). rewrite Hp in Hc, Hwf. cbn [cinv] in Hc.
    destruct Hc as (A & B & _). destruct (A g eq_refl) as [A1 _]. destruct (B g eq_refl) as (B1 & B2 & B3 & B4).
    destruct (i_refs _ Hinv) as (R1 & R2 & R3).
    assert (1 <= g) by (apply (i_ests _ Hinv), (i_tds _ Hinv); eauto with lc).
    assert (cur s = nq s) by (destruct R3; lia).
    repeat split; auto; try congruence.
    - destruct t; try reflexivity. cbn in Hwf. discriminate.
    - apply (i_c3 _ Hinv _ _ _ _ Hp).
  Qed.

  (* a counted goroutine of the generation being torn down is never blocked once both queues
     are empty *)
  Lemma counted_enabled s t g : Inv s -> in4 t g -> wgc (pcs s t) = 1 ->
    cur s = g -> in_ref s = g -> out_ref s = g -> cancelled s g = true -> sock_closed s g = true ->
    inq s g = 0 -> outq s g = 0 -> enabled s t.
  Proof.
    intros Hinv Hin Hw Hcur Hir Hor Hcan Hsock Hi Ho.
    destruct (i_t _ Hinv t) as (Hwf & _).
    destruct Hin as [-> | [-> | [-> | ->]]]; destruct (pcs s _) eqn:Ep; try discriminate Hw;
      cbn [wf_pc] in Hwf; try contradiction; try subst rw.
    (* recv *)
    - exists 0. run_step Ep. discriminate.
    - exists 1. run_step Ep. rewrite Hsock. cbn. discriminate.
    - exists 0. run_step Ep. rewrite Hir, Hi. cbn. discriminate.
    - exists 0. run_step Ep. discriminate.
    (* runLoop *)
    - exists 0. run_step Ep. discriminate.
    - exists 0. run_step Ep. rewrite Hcan. discriminate.
    - exists 0. run_step Ep. discriminate.
    - exists 0. destruct k; run_step Ep; [discriminate|]. unfold push_out. rewrite Hor, Ho. cbn. discriminate.
    - exists 0. run_step Ep. discriminate.
    (* send *)
    - exists 0. run_step Ep. discriminate.
    - exists 0. run_step Ep. rewrite Hcan. discriminate.
    - exists 0. run_step Ep. rewrite Hcur, Hsock. cbn. discriminate.
    - exists 0. run_step Ep. discriminate.
    - exists 0. run_step Ep. discriminate.
    (* ping *)
    - exists 0. run_step Ep. rewrite Hcan. discriminate.
    - exists 0. run_step Ep. unfold push_out. rewrite Hor, Ho. cbn. discriminate.
  Qed.

  Theorem drain_not_stuck s t g id ret : Inv s -> pcs s t = PClose (C3 g) id ret ->
    exists t', In t' [Recv g; Loop g; Send g; Ping g; Waiter g; t] /\ enabled s t'.
  Proof.
    intros Hinv Hp. destruct (drain_facts s t g id ret Hinv Hp) as (Hcur & Hir & Hor & Hcan & Hsock & Henv & Hwt).
    destruct (inq s g) as [|n] eqn:Hi.
    2: { exists t. split; [cbn; tauto|]. exists 0. run_step Hp. rewrite Henv, Hir, Hi. discriminate. }
    destruct (outq s g) as [|n] eqn:Ho.
    2: { exists t. split; [cbn; tauto|]. exists 1. run_step Hp. rewrite Henv, Hor, Ho. discriminate. }
    destruct Hwt as [Hw|Hw].
    2: { exists t. split; [cbn; tauto|]. exists 2. run_step Hp. rewrite Henv, Hw. discriminate. }
    destruct (wg s) eqn:Hwg.
    { exists (Waiter g). split; [cbn; tauto|]. exists 0. run_step Hw. rewrite Hwg. discriminate. }
    pose proof (i_wg _ Hinv) as Hsum. rewrite Hwg, Hcur in Hsum. unfold wsum, wsumf in Hsum.
    assert (Hex : exists t', in4 t' g /\ wgc (pcs s t') = 1).
    { assert (forall p, wgc p = 0 \/ wgc p = 1) by (intros p; destruct p; cbn; auto).
      destruct (H (pcs s (Recv g))); [|exists (Recv g); unfold in4; auto].
      destruct (H (pcs s (Loop g))); [|exists (Loop g); unfold in4; auto].
      destruct (H (pcs s (Send g))); [|exists (Send g); unfold in4; auto].
      destruct (H (pcs s (Ping g))); [|exists (Ping g); unfold in4; auto]. lia. }
    destruct Hex as (t' & Hin & Hw1). exists t'. split.
    - destruct Hin as [-> | [-> | [-> | ->]]]; cbn; tauto.
    - eapply counted_enabled; eauto.
  Qed.

  (* the other program points of the teardown are plain statements: always enabled *)
  Lemma teardown_step_enabled s t g id ret : Inv s ->
    pcs s t = PClose (C2 g) id ret \/ pcs s t = PClose (C4 g) id ret -> enabled s t.
  Proof.
    intros Hinv [Hp|Hp]; exists 0; destruct (i_t _ Hinv t) as (Hwf & _); rewrite Hp in Hwf;
      assert (Henv : is_env t = false) by (destruct t; try reflexivity; cbn in Hwf; discriminate);
      run_step Hp; rewrite Henv; discriminate.
  Qed.
End Live.
