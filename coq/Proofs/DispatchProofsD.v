(* Proofs/DispatchProofsD.v — C16, progress half: the event loop never waits for a background
   thread; while work remains some NON-background thread is enabled; a natural-number measure
   strictly decreases with every non-background step and is untouched by background steps.
   Hence any schedule that keeps running enabled non-background threads delivers every line,
   whatever the background handlers do (block forever, panic, run slowly). *)
From Coq Require Import List Arith Bool Lia.
From Verif Require Import Lts DispatchLts DispatchProofsA.
Import ListNotations.
Local Open Scope nat_scope.

Definition is_bg (t : tid) : bool :=
  match t with
  | TBgDisp _ | THandler (GBg _) _ | TPanic (GBg _) _ => true
  | _ => false
  end.

(* ---------- the threads the loop waits for ---------- *)
Fixpoint pending (g : gid) (l : list hpc) (i : nat) : list tid :=
  match l with
  | [] => []
  | p :: l' => (if is_done p then [] else [THandler g i]) ++ pending g l' (S i)
  end.

(* runLoop in intHandlers.dispatch waits for the internal handlers, h_001 among them waits for
   the foreground CONNECTED handlers; in fgHandlers.dispatch for the foreground handlers; in the
   select for recv *)
Definition waits (s : st) : list tid :=
  match lpc s with
  | LInt _ => pending GInt (g_int s) 0 ++ pending GConnFg (g_conn s) 0
  | LFg _ => pending GFg (g_fg s) 0
  | LIdle => [TRecv]
  | LDone => []
  end.

Lemma pending_not_bg g l i t : (forall key, g <> GBg key) -> In t (pending g l i) -> is_bg t = false.
Proof.
  intros Hg. revert i. induction l as [|p l IH]; intros i; simpl; [tauto|].
  intros H. apply in_app_or in H as [H|H]; [|eauto].
  destruct (is_done p); [destruct H|]. destruct H as [<-|[]]. destruct g; simpl; auto.
  exfalso. eapply Hg; eauto.
Qed.

Lemma pending_in g l off i p :
  nth_error l i = Some p -> is_done p = false -> In (THandler g (off + i)) (pending g l off).
Proof.
  revert off i. induction l as [|q l IH]; intros off [|i]; simpl; try discriminate.
  - intros H Hp. inversion H; subst. rewrite Hp. rewrite Nat.add_0_r. now left.
  - intros H Hp. apply in_or_app. right. replace (off + S i) with (S off + i) by lia. now apply IH.
Qed.

Lemma not_all_done g : all_done g = false -> exists i p, nth_error g i = Some p /\ is_done p = false.
Proof.
  induction g as [|q g IH]; simpl; [discriminate|].
  destruct (is_done q) eqn:E; simpl.
  - intros H. destruct (IH H) as (i & p & H1 & H2). exists (S i), p. auto.
  - intros _. exists 0, q. auto.
Qed.

Theorem bg_isolated s t : In t (TLoop :: waits s) -> is_bg t = false.
Proof.
  intros [<-|H]; [reflexivity|]. unfold waits in H. destruct (lpc s).
  - destruct H as [<-|[]]. reflexivity.
  - apply in_app_or in H as [H|H]; eapply pending_not_bg; eauto; discriminate.
  - eapply pending_not_bg; eauto; discriminate.
  - destruct H.
Qed.

(* ---------- only h_001 ever nests ---------- *)
Definition plainpc (p : hpc) : Prop := match p with HNest _ | HNestW _ => False | _ => True end.

Lemma Forall_hupd {B} (P : B -> Prop) l i x : Forall P l -> P x -> Forall P (hupd l i x).
Proof.
  intros H Hx. revert i. induction H as [|y l Hy Hl IH]; intros [|i]; simpl; constructor; auto.
Qed.

Lemma Forall_repeat {B} (P : B -> Prop) x n : P x -> Forall P (repeat x n).
Proof. intros H. induction n; simpl; constructor; auto. Qed.

Lemma hspec_plain pc a pc' o : hstep_spec false pc a pc' o -> plainpc pc'.
Proof. intros H; inversion H; simpl; auto. Qed.

Section D.
  Variable sess : session.

  Definition InvN (s : st) : Prop :=
    Forall plainpc (g_fg s) /\ Forall plainpc (g_conn s) /\ Forall plainpc (g_disc s).

  Ltac inv H := inversion H; subst; clear H.

  Lemma InvN_init : InvN init.
  Proof. repeat split; constructor. Qed.

  Lemma InvN_step s t s' : InvN s -> step sess s t = Some s' -> InvN s'.
  Proof.
    intros (N1 & N2 & N3) Hs.
    assert (Hh : forall g i a, step_handler sess s g i a = Some s' -> InvN s').
    { clear Hs. intros g i a Hs. destruct g as [| | | |key]; simpl in Hs.
      - destruct (lpc s) as [|k|k|]; try discriminate.
        destruct (nth_error (g_int s) i) as [pc|]; [|destruct a; discriminate].
        destruct pc, a; simpl in Hs; try discriminate; try (inv Hs; repeat split; simpl; auto; fail).
        + inv Hs. repeat split; simpl; auto. apply Forall_repeat. exact I.
        + destruct (all_done (g_conn s)); inv Hs. repeat split; simpl; auto.
      - destruct (lpc s); try discriminate.
        apply plain_inv in Hs as (pc & pc' & o & Hn & Hsp & ->).
        pose proof (hspec_plain _ _ _ _ Hsp) as Hp.
        destruct o; repeat split; simpl; auto using Forall_hupd.
      - destruct (lpc s); try discriminate.
        apply plain_inv in Hs as (pc & pc' & o & Hn & Hsp & ->).
        pose proof (hspec_plain _ _ _ _ Hsp) as Hp.
        destruct o; repeat split; simpl; auto using Forall_hupd.
      - apply plain_inv in Hs as (pc & pc' & o & Hn & Hsp & ->).
        pose proof (hspec_plain _ _ _ _ Hsp) as Hp.
        destruct o; repeat split; simpl; auto using Forall_hupd.
      - destruct (bg_find key (bgs s)) as [[g|]|]; try discriminate.
        apply plain_inv in Hs as (pc & pc' & o & Hn & Hsp & ->).
        destruct o; repeat split; simpl; auto. }
    destruct t as [| | | | |key|g i|g i]; simpl in Hs; eauto.
    - destruct (rhold s).
      + destruct (Nat.ltb (length (inq s)) cap_in); inv Hs. repeat split; auto.
      + destruct (Nat.ltb (rpos s) (length (lines sess))); inv Hs. repeat split; auto.
    - destruct (lpc s).
      + destruct (inq s); inv Hs. repeat split; auto.
      + destruct (all_done (g_int s)); inv Hs. repeat split; simpl; auto. apply Forall_repeat. exact I.
      + destruct (all_done (g_fg s)); inv Hs. repeat split; auto.
      + discriminate.
    - destruct (lpc s); try discriminate. destruct (cancelled s); inv Hs. repeat split; auto.
    - destruct (cpc s).
      + destruct (can_close sess); inv Hs. repeat split; auto.
      + destruct (lpc s); inv Hs. repeat split; simpl; auto. apply Forall_repeat. exact I.
      + destruct (all_done (g_disc s)); inv Hs. repeat split; auto.
      + discriminate.
    - destruct (cpc s); try discriminate. destruct (inq s); inv Hs. repeat split; auto.
    - destruct (bg_find key (bgs s)) as [[g|]|]; inv Hs. repeat split; auto.
  Qed.

  (* ---------- progress ---------- *)
  Definition work_remains (s : st) : bool :=
    match lpc s with
    | LInt _ | LFg _ => true
    | LIdle => negb (match inq s with [] => true | _ => false end)
               || (match rhold s with Some _ => true | None => false end)
               || Nat.ltb (rpos s) (length (lines sess))
    | LDone => false
    end.

  Lemma plain_enabled s g setg kd k i pc :
    nth_error g i = Some pc -> plainpc pc -> is_done pc = false ->
    plain s g setg kd k i AStep <> None.
  Proof.
    intros Hn Hp Hd. unfold plain. rewrite Hn. destruct pc; simpl in *; try discriminate; tauto.
  Qed.

  Lemma Forall_nth {B} (P : B -> Prop) l i x : Forall P l -> nth_error l i = Some x -> P x.
  Proof. intros H Hn. rewrite Forall_forall in H. apply H. eapply nth_error_In; eauto. Qed.

  Theorem progress s :
    InvN s -> work_remains s = true ->
    exists t, In t (TLoop :: waits s) /\ step sess s t <> None.
  Proof.
    intros (N1 & N2 & N3) Hw. unfold work_remains in Hw. unfold waits.
    destruct (lpc s) as [|k|k|] eqn:El; try discriminate.
    - (* in the select *)
      destruct (inq s) as [|k q] eqn:Eq.
      + exists TRecv. split; [right; now left|]. simpl.
        destruct (rhold s) as [k|] eqn:Eh.
        * rewrite Eq. simpl. discriminate.
        * simpl in Hw. rewrite Hw. discriminate.
      + exists TLoop. split; [now left|]. simpl. rewrite El, Eq. discriminate.
    - (* waiting for the internal handlers *)
      destruct (all_done (g_int s)) eqn:Ed.
      + exists TLoop. split; [now left|]. simpl. rewrite El, Ed. discriminate.
      + destruct (not_all_done _ Ed) as (i & pc & Hn & Hd).
        assert (Hin : In (THandler GInt i) (pending GInt (g_int s) 0)) by (apply (pending_in GInt _ 0 i pc); auto).
        destruct pc; try discriminate;
          try (exists (THandler GInt i); split; [right; apply in_or_app; now left|];
               simpl; rewrite El, Hn; simpl; discriminate).
        (* h_001 in its nested wg.Wait: a foreground CONNECTED handler can move *)
        destruct (all_done (g_conn s)) eqn:Ec.
        * exists (THandler GInt i). split; [right; apply in_or_app; now left|].
          simpl. rewrite El, Hn, Ec. discriminate.
        * destruct (not_all_done _ Ec) as (j & pc' & Hn' & Hd').
          exists (THandler GConnFg j). split.
          -- right. apply in_or_app. right. apply (pending_in GConnFg _ 0 j pc'); auto.
          -- simpl. rewrite El. eapply plain_enabled; eauto. eapply (Forall_nth _ _ _ _ N2); eauto.
    - (* waiting for the foreground handlers *)
      destruct (all_done (g_fg s)) eqn:Ed.
      + exists TLoop. split; [now left|]. simpl. rewrite El, Ed. discriminate.
      + destruct (not_all_done _ Ed) as (i & pc & Hn & Hd).
        exists (THandler GFg i). split.
        * right. apply (pending_in GFg _ 0 i pc); auto.
        * simpl. rewrite El. eapply plain_enabled; eauto. eapply (Forall_nth _ _ _ _ N1); eauto.
  Qed.

  (* ---------- the measure ---------- *)
  Definition remP (p : hpc) : nat :=
    match p with HReady => 4 | HRun => 3 | HPanicked => 2 | HRet => 1 | _ => 0 end.
  Definition remI (p : hpc) : nat :=
    match p with
    | HReady => 6 + 4 * c_fg sess | HRun => 5 + 4 * c_fg sess | HNest _ => 4 + 4 * c_fg sess
    | HNestW _ => 3 | HPanicked => 2 | HRet => 1 | HDone => 0
    end.
  Definition sumP (g : list hpc) : nat := list_sum (map remP g).
  Definition sumI (g : list hpc) : nat := list_sum (map remI g).
  (* all the non-background steps line k will still cause once it is in the queue *)
  Definition W (k : nat) : nat :=
    3 + eff_int (line_of sess k) * (6 + 4 * c_fg sess) + 4 * n_fg (line_of sess k).
  Definition loop_term (s : st) : nat :=
    match lpc s with LIdle => 1 | LInt k => 3 + 4 * n_fg (line_of sess k) | LFg _ => 2 | LDone => 0 end.
  Definition closer_term (s : st) : nat :=
    match cpc s with CIdle => 3 + 4 * d_fg sess | CWait => 2 + 4 * d_fg sess | CDisp => 1 | CDone => 0 end.
  Definition unread (s : st) : list nat := seq (rpos s) (length (lines sess) - rpos s).

  Definition mu (s : st) : nat :=
    list_sum (map (fun k => W k + 2) (unread s)) + list_sum (map (fun k => W k + 1) (optl (rhold s)))
    + list_sum (map W (inq s))
    + loop_term s + sumI (g_int s) + sumP (g_fg s) + sumP (g_conn s) + sumP (g_disc s) + closer_term s.

  Lemma sum_hupd (f : hpc -> nat) g i pc pc' :
    nth_error g i = Some pc -> list_sum (map f (hupd g i pc')) + f pc = list_sum (map f g) + f pc'.
  Proof.
    revert i. induction g as [|q g IH]; intros [|i]; simpl; try discriminate.
    - intros H; inv H. lia.
    - intros H. specialize (IH i H). lia.
  Qed.

  Lemma sum_repeat (f : hpc -> nat) x n : list_sum (map f (repeat x n)) = n * f x.
  Proof. induction n as [|n IHn]; simpl; [reflexivity|]. rewrite IHn. lia. Qed.

  Lemma list_sum_cons x l : list_sum (x :: l) = x + list_sum l.
  Proof. reflexivity. Qed.
  Lemma list_sum_nil : list_sum [] = 0.
  Proof. reflexivity. Qed.

  Lemma list_sum_snoc l x : list_sum (l ++ [x]) = list_sum l + x.
  Proof. rewrite list_sum_app. simpl. lia. Qed.

  Lemma remP_dec pc a pc' o : hstep_spec false pc a pc' o -> remP pc' < remP pc.
  Proof. intros H; inversion H; simpl; lia. Qed.

  Lemma remI_dec nest pc a pc' o : hstep_spec nest pc a pc' o -> remI pc' < remI pc.
  Proof. intros H; inversion H; destruct nest; simpl; lia. Qed.

  Lemma mu_emit s o kd k i : mu (emit s o kd k i) = mu s.
  Proof. destruct o; reflexivity. Qed.

  Lemma hstep_spec_total nest pc a pc' o : hstep nest pc a = Some (pc', o) -> hstep_spec nest pc a pc' o.
  Proof. apply hstep_inv. Qed.

  Ltac prj := cbn [rpos rhold inq lpc applied cancelled cpc g_int g_fg g_conn g_disc bgs hist
                   set_rpos set_rhold set_inq set_lpc set_applied set_cancelled set_cpc set_g_int
                   set_g_fg set_g_conn set_g_disc set_bgs set_hist optl map] in *.

  (* background steps do not touch the measure; every other step strictly decreases it *)
  Theorem measure_step s t s' :
    step sess s t = Some s' ->
    if is_bg t then mu s' = mu s else mu s' < mu s.
  Proof.
    intros Hs.
    assert (Hh : forall g i a, step_handler sess s g i a = Some s' ->
                 match g with GBg _ => mu s' = mu s | _ => mu s' < mu s end).
    { clear Hs. intros g i a Hs. destruct g as [| | | |key]; simpl in Hs.
      - destruct (lpc s) as [|k|k|] eqn:El; try discriminate.
        destruct (nth_error (g_int s) i) as [pc|] eqn:En; [|destruct a; discriminate].
        pose proof (fun x => sum_hupd remI _ _ _ x En) as Hsum.
        destruct pc, a; simpl in Hs; try discriminate.
        + inv Hs. specialize (Hsum HRun). unfold mu, sumI, loop_term, closer_term, unread in *. prj. cbn [remI] in *. lia.
        + inv Hs. match goal with |- context [hupd _ _ ?x] => specialize (Hsum x) end.
          unfold mu, sumI, loop_term, closer_term, unread in *. prj.
          destruct (welcome (line_of sess k) && Nat.eqb i 0); cbn [remI] in *; lia.
        + inv Hs. match goal with |- context [hupd _ _ ?x] => specialize (Hsum x) end.
          unfold mu, sumI, loop_term, closer_term, unread in *. prj.
          destruct (welcome (line_of sess k) && Nat.eqb i 0); cbn [remI] in *; lia.
        + inv Hs. specialize (Hsum (HNestW p)).
          unfold mu, sumI, sumP, loop_term, closer_term, unread in *. prj.
          rewrite sum_repeat. cbn [remI remP] in *. lia.
        + destruct (all_done (g_conn s)); inv Hs.
          match goal with |- context [hupd _ _ ?x] => specialize (Hsum x) end.
          unfold mu, sumI, loop_term, closer_term, unread in *. prj. destruct p; cbn [remI] in *; lia.
        + inv Hs. specialize (Hsum HRet). unfold mu, sumI, loop_term, closer_term, unread in *. prj. cbn [remI] in *. lia.
        + inv Hs. specialize (Hsum HDone). unfold mu, sumI, loop_term, closer_term, unread in *. prj. cbn [remI] in *. lia.
      - destruct (lpc s) eqn:El; try discriminate.
        apply plain_inv in Hs as (pc & pc' & o & Hn & Hsp & ->). rewrite mu_emit.
        pose proof (sum_hupd remP _ _ _ pc' Hn) as Hsum. pose proof (remP_dec _ _ _ _ Hsp).
        unfold mu, sumP, loop_term, closer_term, unread in *. prj. lia.
      - destruct (lpc s) eqn:El; try discriminate.
        apply plain_inv in Hs as (pc & pc' & o & Hn & Hsp & ->). rewrite mu_emit.
        pose proof (sum_hupd remP _ _ _ pc' Hn) as Hsum. pose proof (remP_dec _ _ _ _ Hsp).
        unfold mu, sumP, loop_term, closer_term, unread in *. prj. lia.
      - apply plain_inv in Hs as (pc & pc' & o & Hn & Hsp & ->). rewrite mu_emit.
        pose proof (sum_hupd remP _ _ _ pc' Hn) as Hsum. pose proof (remP_dec _ _ _ _ Hsp).
        unfold mu, sumP, loop_term, closer_term, unread in *. prj. lia.
      - destruct (bg_find key (bgs s)) as [[g|]|]; try discriminate.
        apply plain_inv in Hs as (pc & pc' & o & Hn & Hsp & ->). rewrite mu_emit. reflexivity. }
    destruct t as [| | | | |key|g i|g i]; simpl in Hs.
    - (* TRecv *) cbn [is_bg].
      destruct (rhold s) as [k|] eqn:Eh.
      + destruct (Nat.ltb (length (inq s)) cap_in); inv Hs.
        unfold mu, loop_term, closer_term, unread. prj. rewrite Eh. prj.
        rewrite map_app, list_sum_app. cbn [map]. rewrite ?list_sum_cons, ?list_sum_nil. lia.
      + destruct (Nat.ltb (rpos s) (length (lines sess))) eqn:El; inv Hs. apply Nat.ltb_lt in El.
        unfold mu, loop_term, closer_term, unread. prj. rewrite Eh. prj.
        replace (length (lines sess) - rpos s) with (S (length (lines sess) - S (rpos s))) by lia.
        cbn [seq map]. rewrite ?list_sum_cons, ?list_sum_nil. lia.
    - (* TLoop *) cbn [is_bg].
      destruct (lpc s) as [|k|k|] eqn:El.
      + destruct (inq s) as [|k q] eqn:Eq; inv Hs.
        unfold mu, sumI, loop_term, closer_term, unread. prj. rewrite El, Eq, sum_repeat. prj.
        rewrite ?list_sum_cons. unfold W. cbn [remI]. lia.
      + destruct (all_done (g_int s)); inv Hs.
        unfold mu, sumP, loop_term, closer_term, unread. prj. rewrite El, sum_repeat. cbn [remP]. lia.
      + destruct (all_done (g_fg s)); inv Hs.
        unfold mu, loop_term, closer_term, unread. prj. rewrite El. lia.
      + discriminate.
    - (* TLoopQuit *) cbn [is_bg].
      destruct (lpc s) eqn:El; try discriminate. destruct (cancelled s); inv Hs.
      unfold mu, loop_term, closer_term, unread. prj. rewrite El. lia.
    - (* TCloser *) cbn [is_bg].
      destruct (cpc s) eqn:Ec.
      + destruct (can_close sess); inv Hs. unfold mu, loop_term, closer_term, unread. prj. rewrite Ec. lia.
      + destruct (lpc s) eqn:El; inv Hs.
        unfold mu, sumP, loop_term, closer_term, unread. prj. rewrite Ec, El, sum_repeat. cbn [remP]. lia.
      + destruct (all_done (g_disc s)); inv Hs. unfold mu, loop_term, closer_term, unread. prj. rewrite Ec. lia.
      + discriminate.
    - (* TDrain *) cbn [is_bg].
      destruct (cpc s) eqn:Ec; try discriminate. destruct (inq s) as [|k q] eqn:Eq; inv Hs.
      unfold mu, loop_term, closer_term, unread. prj. rewrite Ec, Eq. prj. rewrite ?list_sum_cons. unfold W. lia.
    - (* TBgDisp *) cbn [is_bg].
      destruct (bg_find key (bgs s)) as [[g|]|]; inv Hs. reflexivity.
    - specialize (Hh g i AStep Hs). destruct g; cbn [is_bg]; auto.
    - specialize (Hh g i APanic Hs). destruct g; cbn [is_bg]; auto.
  Qed.

  (* effective non-background steps of a schedule *)
  Fixpoint eff_nb (s : st) (sched : list tid) : nat :=
    match sched with
    | [] => 0
    | t :: r => match step sess s t with
                | Some s' => (if is_bg t then 0 else 1) + eff_nb s' r
                | None => eff_nb s r
                end
    end.

  (* in EVERY schedule the number of effective non-background steps is bounded by the measure *)
  Theorem measure_bound sched : forall s, eff_nb s sched + mu (run (step sess) s sched) <= mu s.
  Proof.
    induction sched as [|t r IH]; intros s; simpl; [lia|].
    unfold step'. destruct (step sess s t) as [s'|] eqn:E; [|apply IH].
    pose proof (measure_step _ _ _ E) as Hm. specialize (IH s').
    destruct (is_bg t); lia.
  Qed.

  (* from every state satisfying the invariant, running only non-background threads finishes
     all outstanding work, within mu steps: background handlers cannot delay delivery *)
  Theorem can_finish_without_bg : forall n s, mu s <= n -> InvN s ->
    exists sched, Forall (fun t => is_bg t = false) sched /\ length sched <= n
                  /\ work_remains (run (step sess) s sched) = false.
  Proof.
    induction n as [|n IH]; intros s Hn HN.
    - destruct (work_remains s) eqn:Ew.
      + destruct (progress s HN Ew) as (t & Hin & Hen).
        destruct (step sess s t) as [s'|] eqn:E; [|congruence].
        pose proof (measure_step _ _ _ E) as Hm. rewrite (bg_isolated _ _ Hin) in Hm. lia.
      + exists []. repeat split; auto.
    - destruct (work_remains s) eqn:Ew.
      + destruct (progress s HN Ew) as (t & Hin & Hen).
        destruct (step sess s t) as [s'|] eqn:E; [|congruence].
        pose proof (measure_step _ _ _ E) as Hm. rewrite (bg_isolated _ _ Hin) in Hm.
        destruct (IH s') as (r & Hr1 & Hr2 & Hr3); [lia|eapply InvN_step; eauto|].
        exists (t :: r). repeat split.
        * constructor; [eapply bg_isolated; eauto|exact Hr1].
        * simpl. lia.
        * simpl. unfold step'. rewrite E. exact Hr3.
      + exists []. repeat split; auto. simpl. lia.
  Qed.

  Theorem InvN_run sched : InvN (run (step sess) init sched).
  Proof. apply invariant_run; [apply InvN_init|]. intros s t s'. apply InvN_step. Qed.

  (* ---------- the disconnect is not held up by background threads either ---------- *)
  Definition InvK (s : st) : Prop := cpc s = CIdle \/ cancelled s = true.

  Lemma InvK_step s t s' : InvK s -> step sess s t = Some s' -> InvK s'.
  Proof.
    intros HK Hs.
    assert (Hh : forall g i a, step_handler sess s g i a = Some s' -> InvK s').
    { clear Hs. intros g i a Hs. unfold InvK in *. destruct g as [| | | |key]; simpl in Hs.
      - destruct (lpc s) as [|k|k|]; try discriminate.
        destruct (nth_error (g_int s) i) as [pc|]; [|destruct a; discriminate].
        destruct pc, a; simpl in Hs; try discriminate; try (inv Hs; simpl; auto; fail).
        destruct (all_done (g_conn s)); inv Hs. simpl; auto.
      - destruct (lpc s); try discriminate.
        apply plain_inv in Hs as (pc & pc' & o & Hn & Hsp & ->). destruct o; simpl; auto.
      - destruct (lpc s); try discriminate.
        apply plain_inv in Hs as (pc & pc' & o & Hn & Hsp & ->). destruct o; simpl; auto.
      - apply plain_inv in Hs as (pc & pc' & o & Hn & Hsp & ->). destruct o; simpl; auto.
      - destruct (bg_find key (bgs s)) as [[g|]|]; try discriminate.
        apply plain_inv in Hs as (pc & pc' & o & Hn & Hsp & ->). destruct o; simpl; auto. }
    unfold InvK in *.
    destruct t as [| | | | |key|g i|g i]; simpl in Hs; eauto.
    - destruct (rhold s).
      + destruct (Nat.ltb (length (inq s)) cap_in); inv Hs. auto.
      + destruct (Nat.ltb (rpos s) (length (lines sess))); inv Hs. auto.
    - destruct (lpc s).
      + destruct (inq s); inv Hs. auto.
      + destruct (all_done (g_int s)); inv Hs. auto.
      + destruct (all_done (g_fg s)); inv Hs. auto.
      + discriminate.
    - destruct (lpc s); try discriminate. destruct (cancelled s) eqn:Ecn; inv Hs. simpl. auto.
    - destruct (cpc s) eqn:Ec.
      + destruct (can_close sess); inv Hs. simpl. auto.
      + destruct (lpc s); inv Hs. simpl. destruct HK; [discriminate|auto].
      + destruct (all_done (g_disc s)); inv Hs. simpl. destruct HK; [discriminate|auto].
      + discriminate.
    - destruct (cpc s); try discriminate. destruct (inq s); inv Hs. simpl. destruct HK; [discriminate|auto].
    - destruct (bg_find key (bgs s)) as [[g|]|]; inv Hs. auto.
  Qed.

  Theorem InvK_run sched : InvK (run (step sess) init sched).
  Proof. apply invariant_run; [now left|]. intros s t s'. apply InvK_step. Qed.

  (* once Close / EOF has cancelled the connection and until DISCONNECTED has been dispatched to
     completion, some NON-background thread is enabled: the loop finishing its dispatch and
     leaving, the closer, or a foreground DISCONNECTED handler — whatever background handlers do *)
  Theorem closer_progress s :
    InvN s -> InvK s -> cpc s = CWait \/ cpc s = CDisp ->
    exists t, is_bg t = false /\ step sess s t <> None.
  Proof.
    intros HN HK Hc. pose proof HN as (N1 & N2 & N3).
    destruct Hc as [Hc|Hc].
    - destruct HK as [HK|HK]; [congruence|].
      destruct (lpc s) as [|k|k|] eqn:El.
      + exists TLoopQuit. split; [reflexivity|]. simpl. rewrite El, HK. discriminate.
      + assert (Hw : work_remains s = true) by (unfold work_remains; now rewrite El).
        destruct (progress s HN Hw) as (t & H1 & H2). exists t. split; [eapply bg_isolated; eauto|exact H2].
      + assert (Hw : work_remains s = true) by (unfold work_remains; now rewrite El).
        destruct (progress s HN Hw) as (t & H1 & H2). exists t. split; [eapply bg_isolated; eauto|exact H2].
      + exists TCloser. split; [reflexivity|]. simpl. rewrite Hc, El. discriminate.
    - destruct (all_done (g_disc s)) eqn:Ed.
      + exists TCloser. split; [reflexivity|]. simpl. rewrite Hc, Ed. discriminate.
      + destruct (not_all_done _ Ed) as (i & pc & Hn & Hd).
        exists (THandler GDiscFg i). split; [reflexivity|].
        simpl. eapply plain_enabled; eauto. eapply (Forall_nth _ _ _ _ N3); eauto.
  Qed.
End D.
