(* Proofs/TrackerRefine2.v — C12 refinement, part 2: the methods whose code ranges over Go maps
   while deleting (Dissociate, DelNick, DelChannel, Wipe).
   Method: three ATOMIC graph edits, each preserving [rep_inv] with a simple effect on [abs]:
     unlink   remove one membership from both sides        (abs: delete the pair)
     drop_nick  forget a tracked nick that is on no channel (abs: delete the nick)
     drop_chan  forget a tracked channel that has no nick   (abs: delete the channel)
   The code deletes the st.nicks / st.chans entry BEFORE its loop; the loop bodies never read
   that map, so the deletion commutes to the end and every loop iteration runs between
   [rep_inv] states.  Hence each loop is an induction over ANY enumeration of the entries. *)
From Verif Require Import TrackerSpec TrackerImpl TrackerSpecFacts TrackerSpecLoops TrackerRefine.
Open Scope Z_scope.

(* ---------- atomic edit 1: unlink ---------- *)
Definition unlink_co (co : chanobj) (n : name) (nk : addr) : chanobj :=
  co_set_maps co (delete n (co_lookup co)) (delete nk (co_nicks co)).
Definition unlink_no (o : nickobj) (c : name) (ch : addr) : nickobj :=
  no_set_maps o (delete c (no_lookup o)) (delete ch (no_chans o)).
Definition unlink_state (s : istate) (ch nk : addr) (co : chanobj) (o : nickobj) : istate :=
  put_nick (put_chan s ch (unlink_co co (no_nick o) nk)) nk (unlink_no o (co_name co) ch).

Section Unlink.
Variables (s : istate) (c n : name) (ch nk cp : addr) (co : chanobj) (o : nickobj).
Hypothesis I : rep_inv s.
Hypothesis Hc : st_chans s !! c = Some ch.
Hypothesis Hn : st_nicks s !! n = Some nk.
Hypothesis Hco : h_chan s !! ch = Some co.
Hypothesis Ho : h_nick s !! nk = Some o.
Hypothesis Hon : no_chans o !! ch = Some cp.

Let su := unlink_state s ch nk co o.

Lemma unl_names : co_name co = c /\ no_nick o = n.
Proof using I Hc Hn Hco Ho.
  destruct (ri_chans s I _ _ Hc) as (? & ? & ?). destruct (ri_nicks s I _ _ Hn) as (? & ? & ?). split; congruence.
Qed.
Lemma unl_on_chan : co_nicks co !! nk = Some cp.
Proof using I Hc Hn Hco Ho Hon.
  destruct (ri_nk_chans s I _ _ _ _ _ Hn Ho Hon) as (co' & Hco' & _ & G). congruence.
Qed.

Lemma unl_h_chan a : h_chan su !! a = if decide (a = ch) then Some (unlink_co co (no_nick o) nk) else h_chan s !! a.
Proof. simpl. case_decide as E; [subst; by rewrite lookup_insert|by rewrite lookup_insert_ne]. Qed.
Lemma unl_h_nick a : h_nick su !! a = if decide (a = nk) then Some (unlink_no o (co_name co) ch) else h_nick s !! a.
Proof. simpl. case_decide as E; [subst; by rewrite lookup_insert|by rewrite lookup_insert_ne]. Qed.

Lemma unl_chan_entry ch' co' nk' cp' :
  h_chan su !! ch' = Some co' -> co_nicks co' !! nk' = Some cp' ->
  (ch' <> ch \/ nk' <> nk) /\ exists co0, h_chan s !! ch' = Some co0 /\ co_nicks co0 !! nk' = Some cp'.
Proof using Hco.
  intros H1 H2. rewrite unl_h_chan in H1. case_decide as E.
  - subst ch'. inversion H1; subst co'. simpl in H2. destruct (decide (nk' = nk)) as [->|N'].
    + by rewrite lookup_delete in H2.
    + rewrite lookup_delete_ne in H2 by done. eauto.
  - eauto.
Qed.
Lemma unl_nick_entry nk' o' ch' cp' :
  h_nick su !! nk' = Some o' -> no_chans o' !! ch' = Some cp' ->
  (ch' <> ch \/ nk' <> nk) /\ exists o0, h_nick s !! nk' = Some o0 /\ no_chans o0 !! ch' = Some cp'.
Proof using Ho.
  intros H1 H2. rewrite unl_h_nick in H1. case_decide as E.
  - subst nk'. inversion H1; subst o'. simpl in H2. destruct (decide (ch' = ch)) as [->|N'].
    + by rewrite lookup_delete in H2.
    + rewrite lookup_delete_ne in H2 by done. eauto.
  - eauto.
Qed.
Lemma unl_chan_keep ch' co0 nk' cp' :
  h_chan s !! ch' = Some co0 -> co_nicks co0 !! nk' = Some cp' -> (ch' <> ch \/ nk' <> nk) ->
  exists co', h_chan su !! ch' = Some co' /\ co_nicks co' !! nk' = Some cp' /\ co_name co' = co_name co0.
Proof using Hco.
  intros H1 H2 D. rewrite unl_h_chan. case_decide as E.
  - subst ch'. assert (co0 = co) as -> by congruence. eexists; split; [done|]. simpl. split; [|done].
    destruct D as [D|D]; [done|]. by rewrite lookup_delete_ne.
  - eauto.
Qed.
Lemma unl_nick_keep nk' o0 ch' cp' :
  h_nick s !! nk' = Some o0 -> no_chans o0 !! ch' = Some cp' -> (ch' <> ch \/ nk' <> nk) ->
  exists o', h_nick su !! nk' = Some o' /\ no_chans o' !! ch' = Some cp' /\ no_nick o' = no_nick o0.
Proof using Ho.
  intros H1 H2 D. rewrite unl_h_nick. case_decide as E.
  - subst nk'. assert (o0 = o) as -> by congruence. eexists; split; [done|]. simpl. split; [|done].
    destruct D as [D|D]; [|done]. by rewrite lookup_delete_ne.
  - eauto.
Qed.

Lemma rep_inv_unlink : rep_inv su.
Proof using All.
  destruct unl_names as [Nc Nn]. pose proof unl_on_chan as Hon'.
  split.
  - intros k nk' H. change (st_nicks su) with (st_nicks s) in H.
    destruct (ri_nicks s I _ _ H) as (o0 & Ho0 & Hname). rewrite unl_h_nick. case_decide as E.
    + subst nk'. eexists; split; [done|]. simpl. congruence.
    + eauto.
  - intros k ch' H. change (st_chans su) with (st_chans s) in H.
    destruct (ri_chans s I _ _ H) as (co0 & Hco0 & Hname). rewrite unl_h_chan. case_decide as E.
    + subst ch'. eexists; split; [done|]. simpl. congruence.
    + eauto.
  - apply (ri_me s I).
  - intros k nk' o' ch' cp' H1 H2 H3. change (st_nicks su) with (st_nicks s) in H1.
    change (st_chans su) with (st_chans s).
    destruct (unl_nick_entry _ _ _ _ H2 H3) as (D & o0 & Ho0 & Hch0).
    destruct (ri_nk_chans s I _ _ _ _ _ H1 Ho0 Hch0) as (co0 & Hco0 & G1 & G2).
    destruct (unl_chan_keep _ _ _ _ Hco0 G2 D) as (co' & K1 & K2 & K3). exists co'. rewrite K3. eauto.
  - intros k nk' o' c' ch' H1 H2. change (st_nicks su) with (st_nicks s) in H1.
    change (st_chans su) with (st_chans s). rewrite unl_h_nick in H2. case_decide as E.
    + subst nk'. inversion H2; subst o'. simpl. rewrite Nc. destruct (decide (c' = c)) as [->|N'].
      * rewrite lookup_delete. split; [done|]. intros [G1 [x G2]].
        assert (ch' = ch) as -> by congruence. by rewrite lookup_delete in G2.
      * rewrite lookup_delete_ne by done. rewrite (ri_nk_lookup s I _ _ _ _ _ H1 Ho).
        split; intros [G1 G2]; (split; [done|]).
        -- assert (ch' <> ch) by (intros ->; apply N'; eapply st_chans_inj; eauto). by rewrite lookup_delete_ne.
        -- assert (ch' <> ch) by (intros ->; apply N'; eapply st_chans_inj; eauto). by rewrite lookup_delete_ne in G2.
    + apply (ri_nk_lookup s I _ _ _ _ _ H1 H2).
  - intros c' ch' co' nk' cp' H1 H2 H3. change (st_chans su) with (st_chans s) in H1.
    change (st_nicks su) with (st_nicks s). change (h_priv su) with (h_priv s).
    destruct (unl_chan_entry _ _ _ _ H2 H3) as (D & co0 & Hco0 & Hnk0).
    destruct (ri_ch_nicks s I _ _ _ _ _ H1 Hco0 Hnk0) as (o0 & Ho0 & G1 & G2 & G3).
    destruct (unl_nick_keep _ _ _ _ Ho0 G2 D) as (o' & K1 & K2 & K3). exists o'. rewrite K3. eauto.
  - intros c' ch' co' k nk' H1 H2. change (st_chans su) with (st_chans s) in H1.
    change (st_nicks su) with (st_nicks s). rewrite unl_h_chan in H2. case_decide as E.
    + subst ch'. inversion H2; subst co'. simpl. rewrite Nn. destruct (decide (k = n)) as [->|N'].
      * rewrite lookup_delete. split; [done|]. intros [G1 [x G2]].
        assert (nk' = nk) as -> by congruence. by rewrite lookup_delete in G2.
      * rewrite lookup_delete_ne by done. rewrite (ri_ch_lookup s I _ _ _ _ _ H1 Hco).
        split; intros [G1 G2]; (split; [done|]).
        -- assert (nk' <> nk) by (intros ->; apply N'; eapply st_nicks_inj; eauto). by rewrite lookup_delete_ne.
        -- assert (nk' <> nk) by (intros ->; apply N'; eapply st_nicks_inj; eauto). by rewrite lookup_delete_ne in G2.
    + apply (ri_ch_lookup s I _ _ _ _ _ H1 H2).
  - intros c1 ch1 co1 nk1 c2 ch2 co2 nk2 cp' H1 H2 H3 H4 H5 H6.
    change (st_chans su) with (st_chans s) in H1, H4.
    destruct (unl_chan_entry _ _ _ _ H2 H3) as (_ & co01 & Hco01 & Hnk01).
    destruct (unl_chan_entry _ _ _ _ H5 H6) as (_ & co02 & Hco02 & Hnk02).
    apply (ri_unshared s I _ _ _ _ _ _ _ _ _ H1 Hco01 Hnk01 H4 Hco02 Hnk02).
  - intros a H. change (h_next su) with (h_next s). apply (ri_fresh s I).
    change (h_priv su) with (h_priv s) in H. rewrite unl_h_nick, unl_h_chan in H.
    destruct H as [H|[H|H]]; [left|right; left|right; right]; try done; case_decide; subst; eauto.
Qed.

Lemma abs_unlink :
  abs su = {| ts_me := ts_me (abs s); ts_nicks := ts_nicks (abs s); ts_chans := ts_chans (abs s);
              ts_member := delete (c, n) (ts_member (abs s)) |}.
Proof using All.
  destruct unl_names as [Nc Nn]. pose proof unl_on_chan as Hon'.
  apply tstate_ext; simpl.
  - rewrite !abs_me_eq. change (st_me su) with (st_me s). rewrite unl_h_nick. case_decide as E; [|done].
    rewrite E, Ho. done.
  - apply map_eq. intros k. rewrite !abs_nicks. change (st_nicks su) with (st_nicks s).
    destruct (st_nicks s !! k) as [nk'|] eqn:Hk; [|done]. simpl. rewrite unl_h_nick. case_decide as E; [|done].
    subst. by rewrite Ho.
  - apply map_eq. intros k. rewrite !abs_chans. change (st_chans su) with (st_chans s).
    destruct (st_chans s !! k) as [ch'|] eqn:Hk; [|done]. simpl. rewrite unl_h_chan. case_decide as E; [|done].
    subst. by rewrite Hco.
  - apply map_eq. intros [k m]. rewrite abs_member. change (st_chans su) with (st_chans s).
    change (h_priv su) with (h_priv s).
    destruct (decide ((k, m) = (c, n))) as [E|N].
    + inversion E; subst k m. rewrite lookup_delete, Hc. simpl. rewrite unl_h_chan, decide_True by done. simpl.
      rewrite Nn, lookup_delete. done.
    + rewrite lookup_delete_ne by done. rewrite abs_member.
      destruct (st_chans s !! k) as [ch'|] eqn:Hk; [|done]. simpl. rewrite unl_h_chan. case_decide as E; [|done].
      subst ch'. assert (k = c) as -> by (eapply st_chans_inj; eauto). rewrite Hco. simpl.
      assert (m <> n) by congruence. rewrite Nn. rewrite lookup_delete_ne by done.
      destruct (co_lookup co !! m) as [nk'|] eqn:L; [|done]. simpl.
      apply (ri_ch_lookup s I _ _ _ _ _ Hc Hco) in L as [L1 _].
      assert (nk' <> nk) by (intros ->; apply H; eapply st_nicks_inj; eauto).
      by rewrite lookup_delete_ne.
Qed.

(* the two orders in which the code performs the edit *)
Lemma unlink_nick_first : (nk_delChannel s nk ch ≫= fun s2 => ch_delNick s2 ch nk) = Some su.
Proof using All.
  pose proof unl_on_chan as Hon'.
  unfold nk_delChannel. rewrite Ho, Hco. simpl. rewrite Hon. simpl.
  unfold ch_delNick. simpl. rewrite Hco, lookup_insert. simpl. rewrite Hon'. done.
Qed.
Lemma unlink_chan_first : (ch_delNick s ch nk ≫= fun s2 => nk_delChannel s2 nk ch) = Some su.
Proof using All.
  pose proof unl_on_chan as Hon'.
  unfold ch_delNick. rewrite Ho, Hco. simpl. rewrite Hon'. simpl.
  unfold nk_delChannel. simpl. rewrite Ho, lookup_insert. simpl. rewrite Hon. done.
Qed.
End Unlink.

(* ---------- atomic edit 2: forget a tracked nick that is on no channel ---------- *)
Section DropNick.
Variables (s : istate) (n : name) (nk : addr) (o : nickobj).
Hypothesis I : rep_inv s.
Hypothesis Hn : st_nicks s !! n = Some nk.
Hypothesis Ho : h_nick s !! nk = Some o.
Hypothesis Hempty : no_chans o = ∅.
Hypothesis Hme : nk <> st_me s.

Let sd := set_st_nicks s (delete n (st_nicks s)).

Lemma rep_inv_drop_nick : rep_inv sd.
Proof using All.
  assert (SUB : forall k nk', delete n (st_nicks s) !! k = Some nk' -> st_nicks s !! k = Some nk' /\ k <> n).
  { intros k nk' H. apply lookup_delete_Some in H as [? ?]. done. }
  split; simpl.
  - intros k nk' H. destruct (SUB _ _ H). by apply (ri_nicks s I).
  - apply (ri_chans s I).
  - destruct (ri_me s I) as (k & Hk). exists k. rewrite lookup_delete_ne; [done|]. intros <-. congruence.
  - intros k nk' o' ch' cp' H1 H2 H3. destruct (SUB _ _ H1). by apply (ri_nk_chans s I _ _ _ _ _ H H2 H3).
  - intros k nk' o' c' ch' H1 H2. destruct (SUB _ _ H1). by apply (ri_nk_lookup s I _ _ _ _ _ H H2).
  - intros c' ch' co' nk' cp' H1 H2 H3. destruct (ri_ch_nicks s I _ _ _ _ _ H1 H2 H3) as (o0 & Ho0 & G1 & G2 & G3).
    exists o0. repeat split; try done. rewrite lookup_delete_ne; [done|]. intros E.
    rewrite <- E in G1. assert (nk' = nk) as -> by congruence. assert (o0 = o) as -> by congruence.
    rewrite Hempty in G2. by rewrite lookup_empty in G2.
  - intros c' ch' co' k nk' H1 H2. rewrite (ri_ch_lookup s I _ _ _ _ _ H1 H2).
    destruct (decide (k = n)) as [->|N].
    + rewrite lookup_delete. split; [|by intros [? _]]. intros [G1 [x G2]]. exfalso.
      assert (nk' = nk) as -> by congruence.
      destruct (ri_ch_nicks s I _ _ _ _ _ H1 H2 G2) as (o0 & Ho0 & _ & G3 & _).
      assert (o0 = o) as -> by congruence. rewrite Hempty in G3. by rewrite lookup_empty in G3.
    + by rewrite lookup_delete_ne.
  - apply (ri_unshared s I).
  - apply (ri_fresh s I).
Qed.

Lemma abs_drop_nick :
  abs sd = {| ts_me := ts_me (abs s); ts_nicks := delete n (ts_nicks (abs s)); ts_chans := ts_chans (abs s);
              ts_member := ts_member (abs s) |}.
Proof using All.
  apply tstate_ext; simpl.
  - by rewrite !abs_me_eq.
  - apply map_eq. intros k. rewrite abs_nicks. simpl. destruct (decide (k = n)) as [->|N].
    + by rewrite !lookup_delete.
    + rewrite !lookup_delete_ne by done. by rewrite abs_nicks.
  - apply map_eq. intros k. by rewrite !abs_chans.
  - apply map_eq. intros [k m]. by rewrite !abs_member.
Qed.
End DropNick.

(* ---------- atomic edit 3: forget a tracked channel that has no nick ---------- *)
Section DropChan.
Variables (s : istate) (c : name) (ch : addr) (co : chanobj).
Hypothesis I : rep_inv s.
Hypothesis Hc : st_chans s !! c = Some ch.
Hypothesis Hco : h_chan s !! ch = Some co.
Hypothesis Hempty : co_nicks co = ∅.

Let sd := set_st_chans s (delete c (st_chans s)).

Lemma rep_inv_drop_chan : rep_inv sd.
Proof using All.
  assert (SUB : forall k ch', delete c (st_chans s) !! k = Some ch' -> st_chans s !! k = Some ch' /\ k <> c).
  { intros k ch' H. apply lookup_delete_Some in H as [? ?]. done. }
  split; simpl.
  - apply (ri_nicks s I).
  - intros k ch' H. destruct (SUB _ _ H). by apply (ri_chans s I).
  - apply (ri_me s I).
  - intros k nk' o' ch' cp' H1 H2 H3. destruct (ri_nk_chans s I _ _ _ _ _ H1 H2 H3) as (co0 & Hco0 & G1 & G2).
    exists co0. repeat split; try done. rewrite lookup_delete_ne; [done|]. intros E.
    rewrite <- E in G1. assert (ch' = ch) as -> by congruence. assert (co0 = co) as -> by congruence.
    rewrite Hempty in G2. by rewrite lookup_empty in G2.
  - intros k nk' o' c' ch' H1 H2. rewrite (ri_nk_lookup s I _ _ _ _ _ H1 H2).
    destruct (decide (c' = c)) as [->|N].
    + rewrite lookup_delete. split; [|by intros [? _]]. intros [G1 [x G2]]. exfalso.
      assert (ch' = ch) as -> by congruence.
      destruct (ri_nk_chans s I _ _ _ _ _ H1 H2 G2) as (co0 & Hco0 & _ & G3).
      assert (co0 = co) as -> by congruence. rewrite Hempty in G3. by rewrite lookup_empty in G3.
    + by rewrite lookup_delete_ne.
  - intros c' ch' co' nk' cp' H1 H2 H3. destruct (SUB _ _ H1). by apply (ri_ch_nicks s I _ _ _ _ _ H H2 H3).
  - intros c' ch' co' k nk' H1 H2. destruct (SUB _ _ H1). by apply (ri_ch_lookup s I _ _ _ _ _ H H2).
  - intros c1 ch1 co1 nk1 c2 ch2 co2 nk2 cp' H1 H2 H3 H4 H5 H6. destruct (SUB _ _ H1). destruct (SUB _ _ H4).
    by apply (ri_unshared s I _ _ _ _ _ _ _ _ _ H H2 H3 H7 H5 H6).
  - apply (ri_fresh s I).
Qed.

Lemma abs_drop_chan :
  abs sd = {| ts_me := ts_me (abs s); ts_nicks := ts_nicks (abs s); ts_chans := delete c (ts_chans (abs s));
              ts_member := ts_member (abs s) |}.
Proof using All.
  apply tstate_ext; simpl.
  - by rewrite !abs_me_eq.
  - apply map_eq. intros k. by rewrite !abs_nicks.
  - apply map_eq. intros k. rewrite abs_chans. simpl. destruct (decide (k = c)) as [->|N].
    + by rewrite !lookup_delete.
    + rewrite !lookup_delete_ne by done. by rewrite abs_chans.
  - apply map_eq. intros [k m]. rewrite !abs_member. simpl. destruct (decide (k = c)) as [->|N].
    + rewrite lookup_delete, Hc. simpl. rewrite Hco. simpl.
      destruct (co_lookup co !! m) as [nk'|]; [|done]. simpl. by rewrite Hempty, lookup_empty.
    + by rewrite lookup_delete_ne.
Qed.
End DropChan.

(* ---------- "on no channel" on both sides ---------- *)
Lemma no_chans_empty_no_pair s n nk o : rep_inv s -> st_nicks s !! n = Some nk -> h_nick s !! nk = Some o ->
  (no_chans o = ∅ <-> no_pair (ts_member (abs s)) n).
Proof.
  intros I Hn Ho. rewrite no_pair_spec. split.
  - intros E c. destruct (st_chans s !! c) as [ch|] eqn:Hc.
    + rewrite (abs_member_nick_side s c n ch nk o) by done. by rewrite E, lookup_empty.
    + by rewrite abs_member, Hc.
  - intros H. apply map_eq. intros ch. rewrite lookup_empty.
    destruct (no_chans o !! ch) as [cp|] eqn:L; [|done]. exfalso.
    destruct (ri_nk_chans s I _ _ _ _ _ Hn Ho L) as (co & Hco & Hc & Hnk).
    destruct (ri_ch_nicks s I _ _ _ _ _ Hc Hco Hnk) as (_ & _ & _ & _ & [p Hp]).
    specialize (H (co_name co)). rewrite (abs_member_nick_side s _ n ch nk o) in H by done.
    rewrite L in H. simpl in H. congruence.
Qed.

Lemma co_nicks_empty_no_member s c ch co : rep_inv s -> st_chans s !! c = Some ch -> h_chan s !! ch = Some co ->
  (co_nicks co = ∅ <-> forall n, ts_member (abs s) !! (c, n) = None).
Proof.
  intros I Hc Hco. split.
  - intros E n. rewrite abs_member, Hc. simpl. rewrite Hco. simpl.
    destruct (co_lookup co !! n); [|done]. simpl. by rewrite E, lookup_empty.
  - intros H. apply map_eq. intros nk. rewrite lookup_empty.
    destruct (co_nicks co !! nk) as [cp|] eqn:L; [|done]. exfalso.
    destruct (ri_ch_nicks s I _ _ _ _ _ Hc Hco L) as (o & Ho & Hn & Hch & [p Hp]).
    specialize (H (no_nick o)). rewrite (abs_member_nick_side s c _ ch nk o) in H by done.
    rewrite Hch in H. simpl in H. congruence.
Qed.

Lemma me_name s n nk : rep_inv s -> st_nicks s !! n = Some nk -> (nk = st_me s <-> n = ts_me (abs s)).
Proof.
  intros I Hn. destruct (abs_me s I) as (o & Ho & Hme & ->). split.
  - intros ->. eapply st_nicks_inj; eauto.
  - intros ->. congruence.
Qed.

Lemma foldM_commute {A S} (f : S -> A -> option S) (g : S -> S) :
  (forall s a, f (g s) a = g <$> f s a) -> forall l s, foldM f (g s) l = g <$> foldM f s l.
Proof.
  intros H. induction l as [|a l IH]; intros s; [done|]. simpl. rewrite H.
  destruct (f s a) as [s1|]; [|done]. simpl. apply IH.
Qed.

Lemma sorted_of_map_empty {A} : sorted_of_map (∅ : gmap name A) = [].
Proof. unfold sorted_of_map. by rewrite map_to_list_empty. Qed.

Section Refine2.
Variable enumA : gmap addr addr -> list (addr * addr).
Variable enumN : gmap name addr -> list (name * addr).
Hypothesis enumA_perm : forall m, enumA m ≡ₚ map_to_list m.
Hypothesis enumN_perm : forall m, enumN m ≡ₚ map_to_list m.

Lemma enumA_nodup m : NoDup (enumA m).*1.
Proof. rewrite enumA_perm. apply NoDup_fst_map_to_list. Qed.

(* ---------- st.delNick ---------- *)
Definition delnick_body (nk : addr) (s : istate) (e : addr * addr) : option istate :=
  h_nick s !! nk ≫= fun o' =>
  match no_chans o' !! fst e with
  | None => Some s
  | Some _ => nk_delChannel s nk (fst e) ≫= fun s2 => ch_delNick s2 (fst e) nk
  end.

Lemma st_delNick_unfold s nk o : nk <> st_me s -> h_nick s !! nk = Some o ->
  st_delNick enumA s nk =
  foldM (delnick_body nk) (set_st_nicks s (delete (no_nick o) (st_nicks s))) (enumA (no_chans o)).
Proof. intros N Ho. unfold st_delNick. rewrite decide_False by done. rewrite Ho. done. Qed.

Lemma delnick_body_commute nk m s e :
  delnick_body nk (set_st_nicks s m) e = (fun s' => set_st_nicks s' m) <$> delnick_body nk s e.
Proof.
  unfold delnick_body, nk_delChannel, ch_delNick. simpl.
  destruct (h_nick s !! nk) as [o|]; [|done]. simpl.
  destruct (no_chans o !! e.1); [|done].
  destruct (h_chan s !! e.1) as [co|] eqn:E3; [|done]. simpl.
  rewrite ?E3. simpl. rewrite !lookup_insert. simpl.
  destruct (co_nicks co !! nk); done.
Qed.

(* the loop, started in a state where the nick is still tracked: any list of distinct current
   memberships is unlinked one by one, every intermediate state satisfying [rep_inv] *)
Lemma delnick_loop n nk l : forall s, rep_inv s -> st_nicks s !! n = Some nk -> NoDup l.*1 ->
  (forall e, e ∈ l -> exists o, h_nick s !! nk = Some o /\ no_chans o !! fst e = Some (snd e)) ->
  exists s' o o', foldM (delnick_body nk) s l = Some s' /\ rep_inv s'
    /\ st_nicks s' = st_nicks s /\ st_chans s' = st_chans s /\ st_me s' = st_me s
    /\ h_nick s !! nk = Some o /\ h_nick s' !! nk = Some o'
    /\ nick_attr o' = nick_attr o /\ no_nick o' = no_nick o
    /\ (forall ch cp, no_chans o' !! ch = Some cp -> no_chans o !! ch = Some cp /\ ch ∉ l.*1)
    /\ ts_me (abs s') = ts_me (abs s) /\ ts_nicks (abs s') = ts_nicks (abs s) /\ ts_chans (abs s') = ts_chans (abs s)
    /\ (forall c' n', n' <> n -> ts_member (abs s') !! (c', n') = ts_member (abs s) !! (c', n')).
Proof.
  induction l as [|[ch cp] l IH]; intros s I Hn ND Hl.
  - destruct (ri_nicks s I _ _ Hn) as (o & Ho & _). exists s, o, o. simpl. split; [done|]. split; [exact I|]. do 7 (split; [done|]).
    split; [|by repeat split]. intros ch cp H. split; [done|]. apply not_elem_of_nil.
  - destruct (Hl (ch, cp)) as (o & Ho & Hon); [by left|]. simpl in Hon.
    destruct (ri_nk_chans s I _ _ _ _ _ Hn Ho Hon) as (co & Hco & Hc & Hnk).
    pose proof (unlink_nick_first s (co_name co) n ch nk cp co o I Hc Hn Hco Ho Hon) as U.
    pose proof (rep_inv_unlink s (co_name co) n ch nk cp co o I Hc Hn Hco Ho Hon) as IU.
    pose proof (abs_unlink s (co_name co) n ch nk cp co o I Hc Hn Hco Ho Hon) as AU.
    set (su := unlink_state s ch nk co o) in *.
    simpl in ND. apply NoDup_cons in ND as [NI ND].
    destruct (IH su IU Hn ND) as (s' & o1 & o' & F & I' & E1 & E2 & E3 & Ho1 & Ho' & A1 & A2 & A3 & B1 & B2 & B3 & B4).
    { intros [ch' cp'] He. exists (unlink_no o (co_name co) ch). split; [simpl; by rewrite lookup_insert|].
      simpl. destruct (Hl (ch', cp')) as (o0 & Ho0 & Hon0); [by right|]. assert (o0 = o) as -> by congruence.
      rewrite lookup_delete_ne; [done|]. intros <-. apply NI. apply elem_of_list_fmap. exists (ch, cp'). done. }
    assert (o1 = unlink_no o (co_name co) ch) as -> by (simpl in Ho1; rewrite lookup_insert in Ho1; congruence).
    exists s', o, o'. split.
    { simpl. unfold delnick_body at 1. rewrite Ho. simpl. rewrite Hon. rewrite U. exact F. }
    split; [done|]. split; [done|]. split; [done|]. split; [done|]. split; [done|]. split; [done|].
    split; [by rewrite A1|]. split; [by rewrite A2|]. split.
    { intros ch' cp' H. destruct (A3 _ _ H) as [G1 G2]. simpl in G1.
      destruct (decide (ch' = ch)) as [->|N]; [by rewrite lookup_delete in G1|].
      rewrite lookup_delete_ne in G1 by done. split; [done|]. simpl. rewrite not_elem_of_cons. done. }
    rewrite B1, B2, B3, AU. simpl. repeat split; try done.
    intros c' n' N. rewrite B4 by done. rewrite AU. simpl. rewrite lookup_delete_ne; [done|congruence].
Qed.

Lemma refines_DelNick n : refines_op enumA enumN (ODelNick n).
Proof.
  intros s I. simpl. unfold im_DelNick, sp_DelNick, with_res.
  destruct (st_nicks s !! n) as [nk|] eqn:Hn; [|rewrite abs_nicks_None by done; simpl; eauto 10].
  destruct (ri_nicks s I _ _ Hn) as (o & Ho & Hname).
  rewrite (abs_nicks_Some s n nk o) by done.
  pose proof (me_name s n nk I Hn) as ME.
  destruct (decide (nk = st_me s)) as [E|N].
  { rewrite decide_True by (by apply ME). simpl. eauto 10. }
  rewrite decide_False by (intros E; apply N; by apply ME).
  rewrite (st_delNick_unfold s nk o) by done.
  rewrite (foldM_commute (delnick_body nk) (fun s' => set_st_nicks s' (delete (no_nick o) (st_nicks s))))
    by (intros; apply delnick_body_commute).
  destruct (delnick_loop n nk (enumA (no_chans o)) s I Hn (enumA_nodup _)) as
    (s' & o0 & o' & F & I' & E1 & E2 & E3 & Ho0 & Ho' & A1 & A2 & A3 & B1 & B2 & B3 & B4).
  { intros [ch cp] He. apply (enumA_elem enumA enumA_perm) in He. eauto. }
  assert (o0 = o) as -> by congruence.
  rewrite F. simpl.
  assert (Hempty : no_chans o' = ∅).
  { apply map_eq. intros ch. rewrite lookup_empty. destruct (no_chans o' !! ch) as [cp|] eqn:L; [|done].
    destruct (A3 _ _ L) as [G1 G2]. exfalso. apply G2. apply elem_of_list_fmap. exists (ch, cp). split; [done|].
    by apply (enumA_elem enumA enumA_perm). }
  assert (Hn' : st_nicks s' !! n = Some nk) by (by rewrite E1).
  assert (N' : nk <> st_me s') by (by rewrite E3).
  pose proof (rep_inv_drop_nick s' n nk o' I' Hn' Ho' Hempty N') as IF.
  pose proof (abs_drop_nick s' n nk o' I' Hn' Ho' Hempty N') as AF.
  rewrite E1 in IF, AF. rewrite Hname.
  unfold im_nick_snap. simpl. rewrite Ho'. simpl. unfold nick_chan_map. rewrite Hempty.
  rewrite (enumA_empty enumA enumA_perm). simpl. rewrite sorted_of_map_empty.
  eexists _, _. split; [done|]. split; [exact IF|]. split.
  - rewrite AF. apply tstate_ext; simpl; try done.
    + by rewrite B2.
    + apply map_eq. intros [c' n']. rewrite drop_nick_pairs_lookup. case_decide as E.
      * subst n'. apply (no_chans_empty_no_pair s' n nk o' I' Hn' Ho') in Hempty.
        rewrite no_pair_spec in Hempty. apply Hempty.
      * by apply B4.
  - f_equal. f_equal. unfold bare_nick_snap. rewrite A2, Hname.
    unfold nick_attr in A1. inversion A1. simpl. by f_equal.
Qed.

(* ---------- st.delChannel ---------- *)
Definition delchan_body (ch : addr) (s : istate) (e : addr * addr) : option istate :=
  h_chan s !! ch ≫= fun c' =>
  match co_nicks c' !! fst e with
  | None => Some s
  | Some _ =>
      ch_delNick s ch (fst e) ≫= fun s2 => nk_delChannel s2 (fst e) ch ≫= fun s3 =>
      h_nick s3 !! fst e ≫= fun o =>
      if decide (no_chans o = ∅) then
        if decide (fst e = st_me s3) then Some s3 else st_delNick enumA s3 (fst e)
      else Some s3
  end.

Lemma st_delChannel_unfold s ch co : h_chan s !! ch = Some co ->
  st_delChannel enumA s ch =
  foldM (delchan_body ch) (set_st_chans s (delete (co_name co) (st_chans s))) (enumA (co_nicks co)).
Proof. intros Hco. unfold st_delChannel. rewrite Hco. done. Qed.

Lemma delnick_body_commute_c nk m s e :
  delnick_body nk (set_st_chans s m) e = (fun s' => set_st_chans s' m) <$> delnick_body nk s e.
Proof.
  unfold delnick_body, nk_delChannel, ch_delNick. simpl.
  destruct (h_nick s !! nk) as [o|]; [|done]. simpl.
  destruct (no_chans o !! e.1); [|done].
  destruct (h_chan s !! e.1) as [co|] eqn:E3; [|done]. simpl.
  rewrite ?E3. simpl. rewrite !lookup_insert. simpl.
  destruct (co_nicks co !! nk); done.
Qed.

Lemma st_delNick_commute_c s nk m :
  st_delNick enumA (set_st_chans s m) nk = (fun s' => set_st_chans s' m) <$> st_delNick enumA s nk.
Proof.
  unfold st_delNick. simpl. case_decide; [done|].
  destruct (h_nick s !! nk) as [o|]; [|done]. simpl.
  exact (foldM_commute (delnick_body nk) (fun s' => set_st_chans s' m)
           (fun s0 a => delnick_body_commute_c nk m s0 a) (enumA (no_chans o))
           (set_st_nicks s (delete (no_nick o) (st_nicks s)))).
Qed.

Lemma delchan_body_commute ch m s e :
  delchan_body ch (set_st_chans s m) e = (fun s' => set_st_chans s' m) <$> delchan_body ch s e.
Proof.
  unfold delchan_body, nk_delChannel, ch_delNick. simpl.
  destruct (h_chan s !! ch) as [co|] eqn:E1; [|done]. simpl.
  destruct (co_nicks co !! e.1) eqn:E2; [|done].
  destruct (h_nick s !! e.1) as [o|] eqn:E3; [|done]. simpl.
  rewrite ?E2. simpl. rewrite ?E3, ?lookup_insert. simpl.
  destruct (no_chans o !! ch); simpl; rewrite ?lookup_insert; simpl.
  - case_decide; [|done]. case_decide; [done|].
    apply (st_delNick_commute_c (put_nick (put_chan s ch _) e.1 _) e.1 m).
  - rewrite E3. simpl. case_decide; [|done]. case_decide; [done|].
    apply (st_delNick_commute_c (put_chan s ch _) e.1 m).
Qed.

(* one iteration of delChannel's loop, in a state where the channel is still tracked *)
Lemma delchan_iter c ch s nk cp co : rep_inv s -> st_chans s !! c = Some ch -> h_chan s !! ch = Some co ->
  co_nicks co !! nk = Some cp ->
  exists s1 n o, delchan_body ch s (nk, cp) = Some s1 /\ rep_inv s1 /\ h_nick s !! nk = Some o /\ no_nick o = n
    /\ is_Some (ts_member (abs s) !! (c, n)) /\ abs s1 = sp_unlink_gc (abs s) c n
    /\ st_chans s1 = st_chans s /\ st_me s1 = st_me s /\ h_chan s1 = <[ch := unlink_co co n nk]> (h_chan s).
Proof.
  intros I Hc Hco Hnk.
  destruct (ri_ch_nicks s I _ _ _ _ _ Hc Hco Hnk) as (o & Ho & Hn & Hon & [p Hp]).
  set (n := no_nick o) in *.
  pose proof (unlink_chan_first s c n ch nk cp co o I Hc Hn Hco Ho Hon) as U.
  pose proof (rep_inv_unlink s c n ch nk cp co o I Hc Hn Hco Ho Hon) as IU.
  pose proof (abs_unlink s c n ch nk cp co o I Hc Hn Hco Ho Hon) as AU.
  destruct (unl_names s c n ch nk co o I Hc Hn Hco Ho) as [Nc _].
  set (su := unlink_state s ch nk co o) in *.
  set (o' := unlink_no o (co_name co) ch).
  assert (Ho' : h_nick su !! nk = Some o') by (simpl; by rewrite lookup_insert).
  assert (Hn' : st_nicks su !! n = Some nk) by done.
  pose proof (no_chans_empty_no_pair su n nk o' IU Hn' Ho') as NP. rewrite AU in NP. simpl in NP.
  pose proof (me_name s n nk I Hn) as ME.
  assert (MEM : is_Some (ts_member (abs s) !! (c, n))).
  { rewrite (abs_member_nick_side s c n ch nk o) by done. rewrite Hon. simpl. eauto. }
  assert (BODY : delchan_body ch s (nk, cp) =
                 (if decide (no_chans o' = ∅) then
                    if decide (nk = st_me su) then Some su else st_delNick enumA su nk
                  else Some su)).
  { unfold delchan_body. simpl fst. rewrite Hco. simpl. rewrite Hnk.
    destruct (ch_delNick s ch nk) as [s2|]; simpl in U |- *; [|done]. rewrite U. simpl.
    rewrite lookup_insert. done. }
  rewrite BODY.
  destruct (decide (no_chans o' = ∅)) as [Hempty|Hne].
  - destruct (decide (nk = st_me su)) as [E|N].
    + exists su, n, o. repeat (split; [done|]). split; [|done].
      rewrite AU. unfold sp_unlink_gc. f_equal. rewrite decide_False; [done|]. intros [X _]. apply X. by apply ME.
    + rewrite (st_delNick_unfold su nk o') by done. rewrite Hempty, (enumA_empty enumA enumA_perm). simpl.
      change (no_nick o') with n.
      pose proof (rep_inv_drop_nick su n nk o' IU Hn' Ho' Hempty N) as ID.
      pose proof (abs_drop_nick su n nk o' IU Hn' Ho' Hempty N) as AD.
      eexists _, n, o. split; [done|]. split; [exact ID|]. repeat (split; [done|]). split; [|done].
      etrans; [exact AD|]. rewrite AU. unfold sp_unlink_gc. simpl. f_equal. rewrite decide_True; [done|]. split.
      * intros X. apply N. change (st_me su) with (st_me s). by apply ME.
      * by apply NP.
  - exists su, n, o. repeat (split; [done|]). split; [|done].
    rewrite AU. unfold sp_unlink_gc. f_equal. rewrite decide_False; [done|]. intros [_ X]. apply Hne. by apply NP.
Qed.

Lemma delchan_loop c ch l : forall s, rep_inv s -> st_chans s !! c = Some ch -> NoDup l.*1 ->
  (forall e, e ∈ l -> exists co, h_chan s !! ch = Some co /\ co_nicks co !! fst e = Some (snd e)) ->
  exists s' co co', foldM (delchan_body ch) s l = Some s' /\ rep_inv s'
    /\ st_chans s' = st_chans s /\ st_me s' = st_me s
    /\ h_chan s !! ch = Some co /\ h_chan s' !! ch = Some co'
    /\ chan_attr co' = chan_attr co /\ co_name co' = co_name co
    /\ (forall nk cp, co_nicks co' !! nk = Some cp -> co_nicks co !! nk = Some cp /\ nk ∉ l.*1)
    /\ csteps c (abs s) (abs s').
Proof.
  induction l as [|[nk cp] l IH]; intros s I Hc ND Hl.
  - destruct (ri_chans s I _ _ Hc) as (co & Hco & _). exists s, co, co. simpl.
    split; [done|]. split; [exact I|]. do 6 (split; [done|]). split; [|constructor].
    intros nk cp H. split; [done|]. apply not_elem_of_nil.
  - destruct (Hl (nk, cp)) as (co & Hco & Hnk); [by left|]. simpl in Hnk.
    destruct (delchan_iter c ch s nk cp co I Hc Hco Hnk) as (s1 & n & o & B & I1 & Ho & Hname & MEM & A1 & E1 & E2 & E3).
    simpl in ND. apply NoDup_cons in ND as [NI ND].
    assert (Hc1 : st_chans s1 !! c = Some ch) by (by rewrite E1).
    destruct (IH s1 I1 Hc1 ND) as (s' & co1 & co' & F & I' & G1 & G2 & Hco1 & Hco' & A2 & A3 & A4 & CS).
    { intros [nk' cp'] He. exists (unlink_co co n nk). split; [rewrite E3; by rewrite lookup_insert|].
      simpl. destruct (Hl (nk', cp')) as (co0 & Hco0 & Hon0); [by right|]. assert (co0 = co) as -> by congruence.
      rewrite lookup_delete_ne; [done|]. intros <-. apply NI. apply elem_of_list_fmap. exists (nk, cp'). done. }
    assert (co1 = unlink_co co n nk) as -> by (rewrite E3, lookup_insert in Hco1; congruence).
    exists s', co, co'. split; [simpl; rewrite B; exact F|]. split; [done|].
    split; [congruence|]. split; [congruence|]. split; [done|]. split; [done|].
    split; [by rewrite A2|]. split; [by rewrite A3|]. split.
    + intros nk' cp' H. destruct (A4 _ _ H) as [K1 K2]. simpl in K1.
      destruct (decide (nk' = nk)) as [->|N]; [by rewrite lookup_delete in K1|].
      rewrite lookup_delete_ne in K1 by done. split; [done|]. simpl. rewrite not_elem_of_cons. done.
    + apply (cs_step c (abs s) n); [done|]. by rewrite <- A1.
Qed.

(* st.delChannel as a whole *)
Lemma delChannel_ok s c ch : rep_inv s -> st_chans s !! c = Some ch ->
  exists s' co co', st_delChannel enumA s ch = Some s' /\ rep_inv s' /\ abs s' = sp_drop_channel (abs s) c
    /\ h_chan s !! ch = Some co /\ h_chan s' !! ch = Some co' /\ chan_attr co' = chan_attr co
    /\ co_name co' = c /\ co_nicks co' = ∅ /\ st_chans s' = delete c (st_chans s).
Proof.
  intros I Hc. destruct (ri_chans s I _ _ Hc) as (co & Hco & Hname).
  rewrite (st_delChannel_unfold s ch co) by done.
  rewrite (foldM_commute (delchan_body ch) (fun s' => set_st_chans s' (delete (co_name co) (st_chans s))))
    by (intros; apply delchan_body_commute).
  destruct (delchan_loop c ch (enumA (co_nicks co)) s I Hc (enumA_nodup _)) as
    (s' & co0 & co' & F & I' & G1 & G2 & Hco0 & Hco' & A2 & A3 & A4 & CS).
  { intros [nk cp] He. apply (enumA_elem enumA enumA_perm) in He. eauto. }
  assert (co0 = co) as -> by congruence.
  rewrite F. simpl.
  assert (Hempty : co_nicks co' = ∅).
  { apply map_eq. intros nk. rewrite lookup_empty. destruct (co_nicks co' !! nk) as [cp|] eqn:L; [|done].
    destruct (A4 _ _ L) as [K1 K2]. exfalso. apply K2. apply elem_of_list_fmap. exists (nk, cp). split; [done|].
    by apply (enumA_elem enumA enumA_perm). }
  assert (Hc' : st_chans s' !! c = Some ch) by (by rewrite G1).
  pose proof (rep_inv_drop_chan s' c ch co' I' Hc' Hco' Hempty) as IF.
  pose proof (abs_drop_chan s' c ch co' I' Hc' Hco' Hempty) as AF.
  rewrite G1 in IF, AF. rewrite Hname.
  eexists _, co, co'. split; [done|]. split; [exact IF|]. split.
  - rewrite AF. apply (csteps_drop_channel c (abs s) (abs s') CS).
    by apply (co_nicks_empty_no_member s' c ch co' I' Hc' Hco').
  - repeat (split; [done|]). split; [congruence|]. done.
Qed.

Lemma refines_DelChannel c : refines_op enumA enumN (ODelChannel c).
Proof.
  intros s I. simpl. unfold im_DelChannel, sp_DelChannel, with_res.
  destruct (st_chans s !! c) as [ch|] eqn:Hc; [|rewrite abs_chans_None by done; simpl; eauto 10].
  destruct (delChannel_ok s c ch I Hc) as (s' & co & co' & F & I' & A & Hco & Hco' & A2 & A3 & Hempty & _).
  rewrite (abs_chans_Some s c ch co) by done. rewrite F. simpl.
  unfold im_chan_snap. rewrite Hco'. simpl. unfold chan_nick_map. rewrite Hempty, (enumA_empty enumA enumA_perm). simpl.
  rewrite sorted_of_map_empty.
  eexists _, _. split; [done|]. split; [exact I'|]. split; [exact A|].
  f_equal. f_equal. unfold bare_chan_snap. rewrite A3. unfold chan_attr in A2. inversion A2. simpl. by f_equal.
Qed.

Lemma refines_Dissociate c n : refines_op enumA enumN (ODissociate c n).
Proof.
  intros s I. simpl. unfold im_Dissociate, sp_Dissociate.
  rewrite abs_chans, abs_nicks.
  destruct (st_chans s !! c) as [ch|] eqn:Hc; simpl; [|eauto 10].
  destruct (ri_chans s I _ _ Hc) as (co & Hco & Hcname). rewrite Hco. simpl.
  destruct (st_nicks s !! n) as [nk|] eqn:Hn; simpl; [|eauto 10].
  destruct (ri_nicks s I _ _ Hn) as (o & Ho & Hname). rewrite Ho. simpl.
  rewrite (abs_member_nick_side s c n ch nk o) by done.
  unfold nk_isOn. rewrite Ho. simpl.
  destruct (no_chans o !! ch) as [cp|] eqn:Hon; simpl; [|eauto 10].
  destruct (ri_nk_chans s I _ _ _ _ _ Hn Ho Hon) as (co0 & Hco0 & _ & Hnk).
  assert (co0 = co) as -> by congruence.
  destruct (ri_ch_nicks s I _ _ _ _ _ Hc Hco Hnk) as (_ & _ & _ & _ & [p Hp]).
  rewrite Hp. simpl.
  pose proof (me_name s n nk I Hn) as ME.
  destruct (decide (nk = st_me s)) as [E|N].
  - rewrite decide_True by (by apply ME).
    destruct (delChannel_ok s c ch I Hc) as (s' & _ & _ & F & I' & A & _).
    rewrite F. simpl. eauto 10.
  - rewrite decide_False by (intros E; apply N; by apply ME).
    destruct (delchan_iter c ch s nk cp co I Hc Hco Hnk) as (s1 & n' & o' & B & I1 & Ho' & Hname' & _ & A1 & _).
    assert (o' = o) as -> by congruence. assert (n' = n) as -> by congruence.
    assert (TAIL : (ch_delNick s ch nk ≫= fun s1 => nk_delChannel s1 nk ch ≫= fun s2 =>
                    h_nick s2 !! nk ≫= fun o => if decide (no_chans o = ∅) then st_delNick enumA s2 nk else Some s2)
                   = delchan_body ch s (nk, cp)).
    { pose proof (unlink_chan_first s c n ch nk cp co o I Hc Hn Hco Ho Hon) as U.
      unfold delchan_body. simpl fst. rewrite Hco. simpl. rewrite Hnk.
      destruct (ch_delNick s ch nk) as [s2|]; simpl in U |- *; [|done]. rewrite U. simpl.
      rewrite lookup_insert. simpl. case_decide; [|done]. by rewrite decide_False. }
    rewrite TAIL, B. simpl. eexists _, _. split; [done|]. split; [exact I1|]. split; [|done].
    rewrite A1. unfold sp_unlink_gc. f_equal.
    destruct (decide (no_pair (delete (c, n) (ts_member (abs s))) n)) as [P|P].
    + rewrite decide_True; [done|]. split; [|done]. intros X. apply N. by apply ME.
    + rewrite decide_False; [done|]. by intros [_ ?].
Qed.

(* ---------- Wipe ---------- *)
Lemma abs_sp_inv s : rep_inv s -> sp_inv (abs s).
Proof.
  intros I. split.
  - destruct (abs_me s I) as (o & Ho & Hn & ->). rewrite (abs_nicks_Some s _ _ o) by done. eauto.
  - intros c n [p H]. rewrite abs_member in H.
    destruct (st_chans s !! c) as [ch|] eqn:Hc; [|done]. simpl in H.
    destruct (h_chan s !! ch) as [co|] eqn:Hco; [|done]. simpl in H.
    destruct (co_lookup co !! n) as [nk|] eqn:L; [|done].
    apply (ri_ch_lookup s I _ _ _ _ _ Hc Hco) in L as [L1 _].
    destruct (ri_nicks s I _ _ L1) as (o & Ho & _).
    rewrite (abs_chans_Some s c ch co), (abs_nicks_Some s n nk o) by done. eauto.
Qed.

Definition wipe_body (s : istate) (e : name * addr) : option istate :=
  match st_chans s !! fst e with
  | Some ch => st_delChannel enumA s ch
  | None => Some s
  end.

Lemma wipe_loop l : forall s, rep_inv s -> NoDup l.*1 ->
  (forall e, e ∈ l -> st_chans s !! fst e = Some (snd e)) ->
  exists s', foldM wipe_body s l = Some s' /\ rep_inv s' /\ wsteps (abs s) (abs s')
    /\ (forall c ch, st_chans s' !! c = Some ch -> st_chans s !! c = Some ch /\ c ∉ l.*1).
Proof.
  induction l as [|[c ch] l IH]; intros s I ND Hl.
  - exists s. simpl. split; [done|]. split; [done|]. split; [constructor|].
    intros c ch H. split; [done|]. apply not_elem_of_nil.
  - pose proof (Hl (c, ch) (elem_of_list_here _ _)) as Hc. simpl in Hc.
    destruct (delChannel_ok s c ch I Hc) as (s1 & co & _ & F & I1 & A1 & Hco & _ & _ & _ & _ & E1).
    simpl in ND. apply NoDup_cons in ND as [NI ND].
    destruct (IH s1 I1 ND) as (s' & F' & I' & W & S).
    { intros [c' ch'] He. simpl. rewrite E1. rewrite lookup_delete_ne.
      - apply (Hl (c', ch')). by right.
      - intros <-. apply NI. apply elem_of_list_fmap. exists (c, ch'). done. }
    exists s'. split.
    { simpl. unfold wipe_body at 1. simpl. rewrite Hc, F. exact F'. }
    split; [done|]. split.
    + apply (ws_step (abs s) c); [rewrite (abs_chans_Some s c ch co) by done; eauto|]. by rewrite <- A1.
    + intros c' ch' H. destruct (S _ _ H) as [K1 K2]. rewrite E1 in K1.
      apply lookup_delete_Some in K1 as [K0 K1]. split; [done|]. simpl. rewrite not_elem_of_cons. done.
Qed.

Lemma refines_Wipe : refines_op enumA enumN OWipe.
Proof.
  intros s I. simpl. unfold im_Wipe.
  assert (ND : NoDup (enumN (st_chans s)).*1) by (rewrite enumN_perm; apply NoDup_fst_map_to_list).
  destruct (wipe_loop (enumN (st_chans s)) s I ND) as (s' & F & I' & W & S).
  { intros [c ch] He. rewrite enumN_perm in He. by apply elem_of_map_to_list in He. }
  change (foldM _ s (enumN (st_chans s))) with (foldM wipe_body s (enumN (st_chans s))).
  rewrite F. eexists _, _. split; [done|]. split; [done|]. split; [|done]. simpl.
  apply (wsteps_wipe (abs s) (abs s') (abs_sp_inv s I) W).
  apply map_eq. intros c. rewrite lookup_empty, abs_chans.
  destruct (st_chans s' !! c) as [ch|] eqn:L; [|done]. exfalso.
  destruct (S _ _ L) as [K1 K2]. apply K2. apply elem_of_list_fmap. exists (c, ch). split; [done|].
  rewrite enumN_perm. by apply elem_of_map_to_list.
Qed.

End Refine2.
