(* Proofs/NickProofs.v — lemmas about Model/NickHandlers.v (C17). *)
From Verif Require Import GoBytes LineLib Line LineSend Split Commands NewNick NickHandlers.
From Verif Require Import GoBytesFacts LineSendFacts LineTotal LineRoundTrip LineDeliver CommandsProofs NewNickProofs.
Open Scope Z_scope.

(* ================= small facts ================= *)
Lemma nick_lines_eq n : nick_lines n = [cut_newlines (s_NICK ++ s_sp ++ n)].
Proof. reflexivity. Qed.

Lemma clean_NICK_sp : clean s_NICK_sp.
Proof. repeat constructor. Qed.

Lemma nick_lines_shape n : nick_lines n = [s_NICK_sp ++ cut_nl n].
Proof.
  rewrite nick_lines_eq. change (s_NICK ++ s_sp ++ n) with (s_NICK_sp ++ n).
  rewrite cut_newlines_cut_nl, cut_nl_app by exact clean_NICK_sp. reflexivity.
Qed.

Lemma strip_prefix_app p s : strip_prefix (p ++ s) p = Some s.
Proof. unfold strip_prefix. rewrite has_prefix_app, skipn_len_app. reflexivity. Qed.

Lemma nick_requests_lines n : nick_requests (nick_lines n) = [cut_nl n].
Proof. rewrite nick_lines_shape. cbn [nick_requests flat_map]. rewrite strip_prefix_app. reflexivity. Qed.

Lemma filter_nick_lines n : filter is_nick_line (nick_lines n) = nick_lines n.
Proof. rewrite nick_lines_shape. cbn [filter]. unfold is_nick_line. rewrite has_prefix_app. reflexivity. Qed.

Lemma nick_requests_filter outs : nick_requests (filter is_nick_line outs) = nick_requests outs.
Proof.
  induction outs as [|l outs IH]; [reflexivity|]. cbn [filter]. unfold is_nick_line at 1.
  destruct (has_prefix l s_NICK_sp) eqn:E.
  - cbn [nick_requests flat_map]. fold (nick_requests (filter is_nick_line outs)). fold (nick_requests outs).
    now rewrite IH.
  - cbn [nick_requests flat_map]. fold (nick_requests outs). unfold strip_prefix. rewrite E. exact IH.
Qed.

Lemma list_beq_refl l : list_beq l l = true.
Proof. induction l as [|x l IH]; [reflexivity|]. cbn. now rewrite beq_refl. Qed.

Lemma opt_beq'_refl o : opt_beq' o o = true.
Proof. destruct o; cbn; [apply beq_refl|reflexivity]. Qed.

Lemma opt_beq'_eq a b : opt_beq' a b = true <-> a = b.
Proof.
  destruct a, b; cbn; try (split; congruence).
  rewrite beq_eq. split; congruence.
Qed.

(* ================= Config().Me and Me() are never nil ================= *)
Definition nn (s : cstate) : Prop := cfg_me s <> None.

Lemma do_Me_nn s : nn s -> nn (fst (do_Me s)) /\ snd (do_Me s) <> None.
Proof.
  unfold nn, do_Me. destruct (c_st s) as [t|]; cbn; intros H; split; try discriminate; exact H.
Qed.

Lemma do_Me_st s : c_st (fst (do_Me s)) = c_st s.
Proof. unfold do_Me. destruct (c_st s) eqn:E; cbn; [reflexivity|exact E]. Qed.

Lemma do_Me_cfg s : cfg_me (fst (do_Me s)) = snd (do_Me s).
Proof. unfold do_Me. destruct (c_st s); reflexivity. Qed.

Lemma me_nick_of_do_Me s : me_nick_of (fst (do_Me s)) = me_nick_of s.
Proof. unfold me_nick_of, do_Me. destruct (c_st s) eqn:E; cbn; try rewrite E; reflexivity. Qed.

Lemma renick_keep_nn s t old neu : nn s -> nn (renick_keep s t old neu).
Proof.
  unfold nn, renick_keep. destruct (tk_ReNick t old neu) as [t' [r|]]; cbn; [discriminate|auto].
Qed.

Section WithGen.
  Variable new_nick : bytes -> bytes.
  Notation h_001 := (h_001 ).
  Notation h_433 := (h_433 new_nick).
  Notation handle := (handle new_nick).
  Notation client_step := (client_step new_nick).
  Notation client_run := (client_run new_nick).

  Lemma h_001_nn s l : nn s -> nn (ho_st (h_001 s l)).
  Proof.
    intros H. unfold NickHandlers.h_001, h_001_with.
    destruct (do_Me s) as [s1 me] eqn:E.
    pose proof (do_Me_nn s H) as [H1 H2]. rewrite E in H1, H2. cbn [fst snd] in H1, H2.
    destruct (welcome_pre l) as [[nick uh]|]; [|exact H1].
    destruct me as [m|]; [|exact H1].
    destruct (c_st s1) as [t|].
    - cbn [ho_st done]. apply renick_keep_nn, H1.
    - destruct (cfg_me s1) as [c|]; [|exact H1]. cbn. discriminate.
  Qed.

  Lemma h_433_nn s l : nn s -> nn (ho_st (h_433 s l)).
  Proof.
    intros H. unfold NickHandlers.h_433, h_433_with.
    destruct (do_Me s) as [s1 me] eqn:E.
    pose proof (do_Me_nn s H) as [H1 H2]. rewrite E in H1, H2. cbn [fst snd] in H1, H2.
    destruct (elem_at (l_args l) 1) as [refused|]; [|exact H1].
    destruct (negb (argslen l 1)); [exact H1|].
    destruct me as [m|]; [|exact H1].
    destruct (beq refused (nk_nick m)); [|exact H1].
    destruct (c_st s1) as [t|].
    - cbn [ho_st done]. apply renick_keep_nn, H1.
    - destruct (cfg_me s1) as [c|]; [|exact H1]. cbn. discriminate.
  Qed.

  Lemma h_NICK_nn s l : nn s -> nn (ho_st (h_NICK s l)).
  Proof.
    intros H. unfold h_NICK. destruct (c_st s); [exact H|].
    destruct (cfg_me s) as [c|] eqn:E; [|exact H].
    destruct (beq (l_nick l) (nk_nick c)); [|exact H].
    destruct (elem_at (l_args l) 0); [cbn; discriminate|exact H].
  Qed.

  Lemma h_STNICK_nn s l : nn s -> nn (ho_st (h_STNICK s l)).
  Proof.
    intros H. unfold h_STNICK. destruct (elem_at (l_args l) 0); [|exact H].
    destruct (c_st s); exact H.
  Qed.

  Lemma handle_nn s l : nn s -> nn (ho_st (handle s l)).
  Proof.
    intros H. unfold NickHandlers.handle, handle_with.
    destruct (beq (l_cmd l) c_001); [apply h_001_nn, H|].
    destruct (beq (l_cmd l) c_433); [apply h_433_nn, H|].
    destruct (beq (l_cmd l) c_NICK); [|exact H].
    destruct (c_st s); [|apply h_NICK_nn, H].
    unfold seq_h. cbn [ho_st]. apply h_STNICK_nn, h_NICK_nn, H.
  Qed.

  Lemma client_step_nn s i : nn s -> nn (ho_st (client_step s i)).
  Proof.
    intros H. destruct i as [raw| |n|n|n]; unfold NickHandlers.client_step, client_step_with.
    - destruct (recv_one raw) as [[l|]|]; [apply handle_nn, H|exact H|exact H].
    - apply do_Me_nn, H.
    - exact H.
    - destruct (c_st s); exact H.
    - destruct (c_st s); exact H.
  Qed.

  Lemma client_run_nn is : forall s, nn s -> nn (client_run s is).
  Proof.
    induction is as [|i is IH]; intros s H; [exact H|].
    cbn [NickHandlers.client_run client_run_with]. apply IH, client_step_nn, H.
  Qed.

  Lemma client0_nn track nick ident name : nn (client0 track nick ident name).
  Proof.
    unfold client0, client_init, nn.
    destruct track; [|cbn; discriminate].
    unfold enable_tracking. cbn [c_st cfg_me]. cbn. discriminate.
  Qed.

  (* C17_never_nil: for ANY input sequence (any server lines, any user/tracker actions) *)
  Theorem never_nil track nick ident name is :
    let s := client_run (client0 track nick ident name) is in
    cfg_me s <> None /\ snd (do_Me s) <> None.
  Proof.
    cbv zeta. pose proof (client_run_nn is _ (client0_nn track nick ident name)) as H.
    split; [exact H|apply do_Me_nn, H].
  Qed.
End WithGen.

(* ================= the tracker part ================= *)
Definition others_of (s : cstate) : list bytes :=
  match c_st s with Some t => map nk_nick (tr_others t) | None => [] end.
Definition tracking (s : cstate) : bool := match c_st s with Some _ => true | None => false end.

Lemma existsb_has_nick n l : existsb (has_nick n) l = true <-> In n (map nk_nick l).
Proof.
  rewrite existsb_exists, in_map_iff. unfold has_nick. split.
  - intros (r & Hr & E). apply beq_eq in E. eauto.
  - intros (r & E & Hr). exists r. rewrite beq_eq. auto.
Qed.

Lemma tk_tracked_spec t n :
  tk_tracked t n = true <-> nk_nick (tr_me t) = n \/ In n (map nk_nick (tr_others t)).
Proof. unfold tk_tracked. rewrite orb_true_iff, beq_eq, existsb_has_nick. tauto. Qed.

Lemma tk_tracked_me t : tk_tracked t (nk_nick (tr_me t)) = true.
Proof. apply tk_tracked_spec. now left. Qed.

Lemma tk_tracked_false t n :
  nk_nick (tr_me t) <> n -> ~ In n (map nk_nick (tr_others t)) -> tk_tracked t n = false.
Proof.
  intros H1 H2. destruct (tk_tracked t n) eqn:E; [|reflexivity].
  apply tk_tracked_spec in E. tauto.
Qed.

Lemma tk_ReNick_me t neu :
  tk_ReNick t (nk_nick (tr_me t)) neu =
  if tk_tracked t neu then (t, None)
  else ({| tr_me := set_nick (tr_me t) neu; tr_others := tr_others t |}, Some (set_nick (tr_me t) neu)).
Proof.
  unfold tk_ReNick. rewrite tk_tracked_me. cbn [negb].
  destruct (tk_tracked t neu); [reflexivity|]. now rewrite beq_refl.
Qed.

Lemma tk_NickInfo_me t i h n :
  tk_NickInfo t (nk_nick (tr_me t)) i h n =
  ({| tr_me := set_info (tr_me t) i h n; tr_others := tr_others t |}, Some (set_info (tr_me t) i h n)).
Proof. unfold tk_NickInfo. now rewrite beq_refl. Qed.

Definition rename (a b o : bytes) : bytes := if beq o a then b else o.

Lemma map_rename_notin a b l : ~ In a l -> map (rename a b) l = l.
Proof.
  induction l as [|x l IH]; intros H; [reflexivity|]. cbn [map]. unfold rename at 1.
  destruct (beq x a) eqn:E.
  - apply beq_eq in E. subst. exfalso. apply H. now left.
  - rewrite IH; [reflexivity|]. intros Hin. apply H. now right.
Qed.

Lemma find_has_nick_some a l : In a (map nk_nick l) -> exists r, find (has_nick a) l = Some r.
Proof.
  intros H. apply existsb_has_nick in H. destruct (find (has_nick a) l) eqn:E; [eauto|].
  apply existsb_exists in H as (r & Hr & Hn). pose proof (find_none _ _ E r Hr) as F. congruence.
Qed.

(* renaming another user *)
Lemma tk_ReNick_other t a b :
  nk_nick (tr_me t) <> a -> nk_nick (tr_me t) <> b -> ~ In b (map nk_nick (tr_others t)) ->
  tr_me (fst (tk_ReNick t a b)) = tr_me t /\
  map nk_nick (tr_others (fst (tk_ReNick t a b))) = map (rename a b) (map nk_nick (tr_others t)).
Proof.
  intros Ha Hb Hbo. unfold tk_ReNick.
  destruct (tk_tracked t a) eqn:Ta; cbn [negb].
  - rewrite (tk_tracked_false t b Hb Hbo).
    apply beq_neq in Ha. rewrite Ha.
    apply tk_tracked_spec in Ta as [Ta|Ta]; [apply beq_neq in Ha; contradiction|].
    destruct (find_has_nick_some a _ Ta) as (r & ->). cbn [fst tr_me tr_others]. split; [reflexivity|].
    rewrite !map_map. apply map_ext. intros x. unfold rename, has_nick.
    destruct (beq (nk_nick x) a); reflexivity.
  - cbn [fst]. split; [reflexivity|]. rewrite map_rename_notin; [reflexivity|].
    intros Hin. assert (tk_tracked t a = true) by (apply tk_tracked_spec; now right). congruence.
Qed.

Lemma tk_NewNick_facts t a :
  tr_me (fst (tk_NewNick t a)) = tr_me t /\
  incl (map nk_nick (tr_others (fst (tk_NewNick t a)))) (a :: map nk_nick (tr_others t)).
Proof.
  unfold tk_NewNick. destruct (beq a []); [split; [reflexivity|apply incl_tl, incl_refl]|].
  destruct (tk_tracked t a); [split; [reflexivity|apply incl_tl, incl_refl]|].
  cbn [fst tr_me tr_others]. split; [reflexivity|]. rewrite map_app. cbn [map bare_nick nk_nick].
  intros x Hx. apply in_app_iff in Hx as [Hx|[<-|[]]]; [now right|now left].
Qed.

Lemma tk_DelNick_facts t a :
  tr_me (fst (tk_DelNick t a)) = tr_me t /\
  incl (map nk_nick (tr_others (fst (tk_DelNick t a)))) (map nk_nick (tr_others t)).
Proof.
  unfold tk_DelNick. destruct (beq (nk_nick (tr_me t)) a); [split; [reflexivity|apply incl_refl]|].
  destruct (find (has_nick a) (tr_others t)); [|split; [reflexivity|apply incl_refl]].
  cbn [fst tr_me tr_others]. split; [reflexivity|].
  intros x Hx. apply in_map_iff in Hx as (r & <- & Hr). apply filter_In in Hr as [Hr _].
  now apply in_map.
Qed.

(* ================= handlers on lines of a known shape ================= *)
Lemma welcome_pre_ok l nick : target l = Ok nick -> exists uh, welcome_pre l = Ok (nick, uh).
Proof.
  intros Ht. unfold welcome_pre. rewrite Ht. cbn [bind].
  destruct (text l) as [t|] eqn:Et; [|exfalso; exact (text_total l Et)]. cbn [bind].
  assert (Hs : exists t', (if negb (last_index t s_space =? -1) then slice_from t (last_index t s_space + 1) else Ok t) = Ok t').
  { destruct (negb (last_index t s_space =? -1)) eqn:E; [|eauto].
    pose proof (last_index_range t s_space) as Hr. change (len s_space) with 1 in Hr.
    rewrite slice_from_ok by lia. eauto. }
  destruct Hs as (t' & ->). cbn [bind].
  destruct (parse_user_host t') as [uh|] eqn:Eu; [|exfalso; exact (parse_user_host_total_ascii t' Eu)].
  cbn [bind]. eauto.
Qed.

Section WithGen2.
  Variable new_nick : bytes -> bytes.
  Notation h_433 := (h_433 new_nick).
  Notation handle := (handle new_nick).

  (* ---------- 001 ---------- *)
  Lemma h_001_spec s l nick : nn s -> target l = Ok nick -> ~ In nick (others_of s) ->
    let o := h_001 s l in
    ho_panic o = false /\ ho_out o = [] /\ nn (ho_st o) /\ others_of (ho_st o) = others_of s
    /\ tracking (ho_st o) = tracking s /\ me_nick_of (ho_st o) = Some nick.
  Proof.
    intros Hn Ht Ho. cbv zeta. unfold h_001, h_001_with.
    destruct (welcome_pre_ok l nick Ht) as (uh & ->).
    unfold me_nick_of, others_of, tracking, do_Me, nn in *.
    destruct (c_st s) as [t|] eqn:Est.
    - cbn [tk_Me c_st cfg_me].
      set (t1 := match uh with Some (_, i, h) => fst (tk_NickInfo t (nk_nick (tr_me t)) i h (nk_name (tr_me t))) | None => t end).
      assert (Ht1 : tr_others t1 = tr_others t /\ nk_nick (tr_me t1) = nk_nick (tr_me t)).
      { subst t1. destruct uh as [[[? i] h]|]; [|tauto]. rewrite tk_NickInfo_me. cbn. tauto. }
      destruct Ht1 as [Ho1 Hm1].
      unfold renick_keep. rewrite <- Hm1, tk_ReNick_me.
      destruct (tk_tracked t1 nick) eqn:Tr.
      + apply tk_tracked_spec in Tr as [Tr|Tr]; [|rewrite Ho1 in Tr; contradiction].
        cbn. rewrite Ho1, Tr. repeat split; try reflexivity; discriminate.
      + cbn. rewrite Ho1. repeat split; try reflexivity; discriminate.
    - destruct (cfg_me s) as [c|] eqn:Ec; [|contradiction]. cbn [c_st cfg_me].
      rewrite ?Est, ?Ec. cbn. destruct uh as [[[? i] h]|]; cbn; repeat split; try reflexivity; discriminate.
  Qed.

  (* ---------- 433 with at least two arguments ---------- *)
  Lemma h_433_spec s l a0 r rest : nn s -> l_args l = a0 :: r :: rest ->
    let o := h_433 s l in
    ho_panic o = false /\ ho_out o = nick_lines (new_nick r) /\ nn (ho_st o)
    /\ others_of (ho_st o) = others_of s /\ tracking (ho_st o) = tracking s
    /\ me_nick_of (ho_st o) =
       (if opt_beq' (me_nick_of s) (Some r)
           && match c_st s with Some t => negb (tk_tracked t (new_nick r)) | None => true end
        then Some (new_nick r) else me_nick_of s).
  Proof.
    intros Hn Ha. cbv zeta. unfold NickHandlers.h_433, h_433_with.
    assert (Hal : argslen l 1 = true).
    { unfold argslen. rewrite Ha. unfold llen. cbn [length]. destruct (Z.of_nat (S (S (length rest))) <=? 1) eqn:E; [lia|reflexivity]. }
    rewrite Ha, !elem_at_1, Hal. cbn [negb].
    unfold me_nick_of, others_of, tracking, do_Me, nn in *.
    destruct (c_st s) as [t|] eqn:Est.
    - cbn [tk_Me c_st cfg_me snd option_map opt_beq'].
      rewrite (beq_sym r). destruct (beq (nk_nick (tr_me t)) r) eqn:E; cbn [andb].
      + unfold renick_keep. rewrite tk_ReNick_me.
        destruct (tk_tracked t (new_nick r)); cbn; repeat split; try reflexivity; discriminate.
      + cbn. repeat split; try reflexivity; discriminate.
    - destruct (cfg_me s) as [c|] eqn:Ec; [|contradiction]. cbn [c_st cfg_me snd option_map opt_beq'].
      rewrite ?Est, ?Ec. cbn [option_map opt_beq']. rewrite (beq_sym r).
      destruct (beq (nk_nick c) r) eqn:E; cbn; rewrite ?Est, ?Ec; cbn; repeat split; try reflexivity; try discriminate; congruence.
  Qed.

  (* a 433 with fewer than two arguments: the handler panics at line.Args[1], before anything
     is sent; only the assignment made by conn.Me() has happened *)
  Lemma h_433_short s l : llen (l_args l) < 2 ->
    h_433 s l = panic (fst (do_Me s)) [].
  Proof.
    intros H. unfold NickHandlers.h_433, h_433_with. destruct (do_Me s) as [s1 me].
    assert (E : elem_at (l_args l) 1 = Panic).
    { unfold elem_at. fold (llen (l_args l)). destruct ((0 <=? 1) && (1 <? llen (l_args l))) eqn:E; [lia|reflexivity]. }
    rewrite E. reflexivity.
  Qed.

  (* ---------- NICK ---------- *)
  (* the client's own nick changes (confirmed request or forced by the server) *)
  Lemma nick_self_spec s l cur x : nn s -> l_cmd l = c_NICK -> l_nick l = cur -> l_args l = [x] ->
    me_nick_of s = Some cur -> x <> cur -> ~ In x (others_of s) ->
    let o := handle s l in
    ho_out o = [] /\ nn (ho_st o) /\ others_of (ho_st o) = others_of s
    /\ tracking (ho_st o) = tracking s /\ me_nick_of (ho_st o) = Some x.
  Proof.
    intros Hn Hc Hk Ha Hm Hx Ho. cbv zeta. unfold NickHandlers.handle, handle_with. rewrite Hc. cbn [beq c_NICK c_001 c_433 N.eqb Pos.eqb andb].
    change (beq c_NICK c_NICK) with true. cbv iota.
    unfold me_nick_of, others_of, tracking, do_Me, nn in *.
    destruct (c_st s) as [t|] eqn:Est.
    - unfold seq_h, h_NICK, h_STNICK. rewrite Est. cbn [ho_st done ho_out app]. rewrite Ha, elem_at_0, Est, Hk.
      cbn [snd tk_Me option_map] in Hm. injection Hm as Hm. rewrite <- Hm, tk_ReNick_me.
      rewrite tk_tracked_false; [|rewrite Hm; congruence|exact Ho].
      cbn. repeat split; try reflexivity. exact Hn.
    - unfold h_NICK. rewrite Est. destruct (cfg_me s) as [c|] eqn:Ec; [|contradiction].
      cbn [snd option_map] in Hm. injection Hm as Hm. rewrite Hk, Hm, beq_refl, Ha, elem_at_0.
      cbn. repeat split; try reflexivity; discriminate.
  Qed.

  (* another user's nick changes *)
  Lemma nick_other_spec s l cur a b : nn s -> l_cmd l = c_NICK -> l_nick l = a -> l_args l = [b] ->
    me_nick_of s = Some cur -> a <> cur -> b <> cur -> ~ In b (others_of s) ->
    let o := handle s l in
    ho_out o = [] /\ nn (ho_st o) /\ others_of (ho_st o) = map (rename a b) (others_of s)
    /\ tracking (ho_st o) = tracking s /\ me_nick_of (ho_st o) = Some cur.
  Proof.
    intros Hn Hc Hk Ha Hm Hac Hbc Ho. cbv zeta. unfold NickHandlers.handle, handle_with. rewrite Hc.
    change (beq c_NICK c_001) with false. change (beq c_NICK c_433) with false. change (beq c_NICK c_NICK) with true. cbv iota.
    unfold me_nick_of, others_of, tracking, do_Me, nn in *.
    destruct (c_st s) as [t|] eqn:Est.
    - unfold seq_h, h_NICK, h_STNICK. rewrite Est. cbn [ho_st done ho_out app]. rewrite Ha, elem_at_0, Est, Hk.
      cbn [snd tk_Me option_map] in Hm. injection Hm as Hm.
      destruct (tk_ReNick_other t a b) as [H1 H2]; [congruence|congruence|exact Ho|].
      cbn [ho_st done ho_out c_st cfg_me snd tk_Me option_map]. rewrite H1, H2, Hm. repeat split; try reflexivity. exact Hn.
    - unfold h_NICK. rewrite Est. destruct (cfg_me s) as [c|] eqn:Ec; [|contradiction].
      cbn [snd option_map] in Hm. injection Hm as Hm. rewrite Hk.
      assert (E : beq a (nk_nick c) = false) by (apply beq_neq; congruence). rewrite E.
      cbn. rewrite Est, Ec. cbn. repeat split; try reflexivity; try discriminate. now rewrite Hm.
  Qed.

  (* lines the nick handlers do not look at *)
  Lemma handle_noise s l : nick_cmd (l_cmd l) = false -> handle s l = done s [].
  Proof.
    unfold nick_cmd. intros H. apply orb_false_iff in H as [H H3]. apply orb_false_iff in H as [H1 H2].
    unfold NickHandlers.handle, handle_with. now rewrite H1, H2, H3.
  Qed.

  (* h_NICK and h_STNICK commute (they are started in parallel): while tracking h_NICK does nothing *)
  Lemma nick_handlers_commute s l t : c_st s = Some t ->
    ho_st (seq_h h_NICK h_STNICK s l) = ho_st (seq_h h_STNICK h_NICK s l)
    /\ ho_out (seq_h h_NICK h_STNICK s l) = ho_out (seq_h h_STNICK h_NICK s l).
  Proof.
    intros Hs. unfold seq_h, h_NICK, h_STNICK. rewrite Hs. cbn [ho_st done ho_out].
    destruct (elem_at (l_args l) 0); cbn; rewrite ?Hs; cbn; split; reflexivity.
  Qed.
End WithGen2.

(* ================= the server's lines ================= *)
Lemma nick_ok_parts n : nick_ok n = true -> name_ok n = true /\ middle_ok n = true.
Proof. unfold nick_ok. intros H. now apply andb_true_iff in H. Qed.

Lemma word_byte_trailing c : word_byte c = true -> trailing_byte c = true.
Proof.
  unfold word_byte, trailing_byte. intros H. apply andb_true_iff in H as [H1 H2]. rewrite H2. cbn [andb].
  destruct (N.eqb c b_cr) eqn:E1; [apply N.eqb_eq in E1; subst; discriminate|].
  destruct (N.eqb c b_lf) eqn:E2; [apply N.eqb_eq in E2; subst; discriminate|]. reflexivity.
Qed.

Lemma nick_ok_trailing n : nick_ok n = true -> forallb trailing_byte n = true.
Proof.
  intros H. apply nick_ok_parts in H as [_ H]. unfold middle_ok, word_ok in H.
  apply andb_true_iff in H as [H _]. apply andb_true_iff in H as [_ H].
  apply forallb_forall. intros c Hc. apply word_byte_trailing. exact (forallb_In _ _ _ H Hc).
Qed.

Lemma nick_ok_clean n : nick_ok n = true -> clean n.
Proof.
  intros H. apply nick_ok_trailing in H. apply Forall_forall. intros c Hc.
  pose proof (forallb_In _ _ _ H Hc) as T. unfold trailing_byte in T.
  apply andb_true_iff in T as [T T3]. apply andb_true_iff in T as [_ T2].
  unfold is_nl. apply negb_true_iff in T2, T3. unfold b_cr, b_lf in *. now rewrite T2, T3.
Qed.

Lemma middle_ok_star : middle_ok s_star = true. Proof. reflexivity. Qed.

Lemma wf_coll cur x : middle_ok cur = true -> middle_ok x = true -> wf_msg (coll_msg cur x) = true.
Proof. intros H1 H2. unfold wf_msg, coll_msg, smsg. cbn. now rewrite H1, H2. Qed.

Lemma wf_ignore cur x : middle_ok cur = true -> middle_ok x = true -> wf_msg (ignore_msg cur x) = true.
Proof. intros H1 H2. unfold wf_msg, ignore_msg, smsg. cbn. now rewrite H1, H2. Qed.

Lemma name_ok_trailing w : name_ok w = true -> forallb trailing_byte w = true.
Proof.
  unfold name_ok, word_ok. intros H. apply andb_true_iff in H as [H _]. apply andb_true_iff in H as [H _].
  apply andb_true_iff in H as [_ H].
  apply forallb_forall. intros c Hc. apply word_byte_trailing. exact (forallb_In _ _ _ H Hc).
Qed.

Lemma wf_welcome_with n tail : nick_ok n = true -> match tail with Some uh => uh_ok uh | None => true end = true ->
  wf_msg (welcome_msg_with n tail) = true.
Proof.
  intros H Ht. pose proof (nick_ok_trailing n H) as Hn. apply nick_ok_parts in H as [_ Hm].
  unfold wf_msg, welcome_msg_with, smsg. cbn [mtags msrc verb middles trailing tags_ok src_ok map].
  unfold middles_ok. cbn [length Nat.leb forallb snd]. rewrite Hm.
  unfold trailing_ok. rewrite !forallb_app, Hn.
  destruct tail as [[u h]|].
  - unfold uh_ok in Ht. cbn [fst snd] in Ht. apply andb_true_iff in Ht as [Hu Hh].
    rewrite !forallb_app, (name_ok_trailing u Hu), (name_ok_trailing h Hh). reflexivity.
  - reflexivity.
Qed.

Lemma wf_welcome n : nick_ok n = true -> wf_msg (welcome_msg n) = true.
Proof. intros H. apply wf_welcome_with; [exact H|reflexivity]. Qed.

Lemma wf_nick_msg_from old uh neu : nick_ok old = true -> uh_ok uh = true -> nick_ok neu = true ->
  wf_msg (nick_msg_from old uh neu) = true.
Proof.
  intros H1 Hu H2. apply nick_ok_parts in H1 as [H1 _]. apply nick_ok_parts in H2 as [_ H2].
  unfold uh_ok in Hu. apply andb_true_iff in Hu as [Hu Hh].
  unfold wf_msg, nick_msg_from. cbn. now rewrite H1, H2, Hu, Hh.
Qed.

Lemma wf_nick_msg old neu : nick_ok old = true -> nick_ok neu = true -> wf_msg (nick_msg old neu) = true.
Proof. intros H1 H2. apply wf_nick_msg_from; [exact H1|reflexivity|exact H2]. Qed.

Lemma exp_coll cur x :
  l_cmd (expected (coll_msg cur x)) = c_433 /\ l_args (expected (coll_msg cur x)) = [cur; x; s_inuse].
Proof. split; reflexivity. Qed.
Lemma exp_ignore cur x : l_cmd (expected (ignore_msg cur x)) = c_432.
Proof. reflexivity. Qed.
Lemma exp_welcome_with n tail :
  l_cmd (expected (welcome_msg_with n tail)) = c_001 /\ target (expected (welcome_msg_with n tail)) = Ok n.
Proof. split; reflexivity. Qed.
Lemma exp_nick_from old uh neu :
  l_cmd (expected (nick_msg_from old uh neu)) = c_NICK /\ l_nick (expected (nick_msg_from old uh neu)) = old
  /\ l_args (expected (nick_msg_from old uh neu)) = [neu].
Proof. repeat split; reflexivity. Qed.
Lemma exp_nick old neu :
  l_cmd (expected (nick_msg old neu)) = c_NICK /\ l_nick (expected (nick_msg old neu)) = old
  /\ l_args (expected (nick_msg old neu)) = [neu].
Proof. apply exp_nick_from. Qed.

(* ================= the invariant of conformant runs ================= *)
Lemma in_use_spec srv n : in_use srv n = true <-> In n (sv_others srv).
Proof.
  unfold in_use. rewrite existsb_exists. split.
  - intros (x & Hx & E). apply beq_eq in E. now subst.
  - intros H. exists n. split; [exact H|apply beq_refl].
Qed.
Lemma in_use_false srv n : in_use srv n = false <-> ~ In n (sv_others srv).
Proof. rewrite <- in_use_spec. destruct (in_use srv n); split; congruence. Qed.

Record Inv (w : world) : Prop := {
  inv_nn : nn (w_cli w);
  inv_sub : incl (others_of (w_cli w)) (sv_others (w_srv w));
  inv_oth : Forall (fun o => nick_ok o = true) (sv_others (w_srv w));
  inv_reg : sv_reg (w_srv w) = true ->
            me_nick_of (w_cli w) = Some (sv_nick (w_srv w))
            /\ ~ In (sv_nick (w_srv w)) (sv_others (w_srv w))
            /\ nick_ok (sv_nick (w_srv w)) = true
}.

Lemma srv_post_fields srv outs :
  sv_reg (srv_post srv outs) = sv_reg srv /\ sv_nick (srv_post srv outs) = sv_nick srv
  /\ sv_others (srv_post srv outs) = sv_others srv.
Proof. repeat split. Qed.

Lemma set_pending_id srv : set_pending srv (sv_pending srv) = srv.
Proof. destruct srv; reflexivity. Qed.

Lemma srv_post_nil srv : srv_post srv [] = srv.
Proof. unfold srv_post. cbn [nick_requests flat_map]. rewrite app_nil_r. apply set_pending_id. Qed.

Section World.
  Variable new_nick : bytes -> bytes.
  Notation handle := (handle new_nick).
  Notation client_step := (client_step new_nick).
  Notation feed := (feed new_nick).
  Notation wstep := (wstep new_nick).
  Notation wrun := (wrun new_nick).
  Notation observe := (observe new_nick).

  Lemma feed_one s i : feed s [i] = (ho_st (client_step s i), ho_out (client_step s i)).
  Proof. unfold NickHandlers.feed. cbn [feed_with]. now rewrite app_nil_r. Qed.

  Lemma feed_nil s : feed s [] = (s, []).
  Proof. reflexivity. Qed.

  Lemma step_line s m : wf_msg m = true ->
    client_step s (InLine (wire m)) = handle s (expected m).
  Proof.
    intros H. unfold NickHandlers.client_step, client_step_with. now rewrite (recv_roundtrip m H).
  Qed.

  Lemma cur_or_star_ok w : Inv w -> middle_ok (cur_or_star (w_srv w)) = true.
  Proof.
    intros I. unfold cur_or_star. destruct (sv_reg (w_srv w)) eqn:E; [|reflexivity].
    destruct (inv_reg w I E) as (_ & _ & H). now apply nick_ok_parts in H.
  Qed.

  (* what one enabled event does to the client, as far as the invariant is concerned *)
  Lemma wstep_unfold w e :
    wstep w e =
    let '(en, srv1, ins) := srv_pre (w_srv w) e in
    let '(cli1, outs) := feed (w_cli w) ins in
    ({| w_cli := cli1; w_srv := srv_post srv1 outs; w_ok := w_ok w && en |}, outs).
  Proof. reflexivity. Qed.

  Lemma srv_pre_enabled srv e : enabled srv e = true ->
    srv_pre srv e = (true, fst (match e with ERaw _ => (srv, []) | _ => srv_act srv e end), snd (srv_act srv e)).
  Proof. intros H. unfold srv_pre. rewrite H. destruct e; reflexivity. Qed.

  Lemma incl_rename a b l1 l2 : incl l1 l2 -> incl (map (rename a b) l1) (map (rename a b) l2).
  Proof. intros H x Hx. apply in_map_iff in Hx as (y & <- & Hy). apply in_map, H, Hy. Qed.

  Lemma Forall_rename a b l : nick_ok b = true -> Forall (fun o => nick_ok o = true) l ->
    Forall (fun o => nick_ok o = true) (map (rename a b) l).
  Proof.
    intros Hb H. apply Forall_forall. intros x Hx. apply in_map_iff in Hx as (y & <- & Hy).
    unfold rename. destruct (beq y a); [exact Hb|]. rewrite Forall_forall in H. now apply H.
  Qed.

  Lemma in_rename_inv a b x l : In x (map (rename a b) l) -> x = b \/ In x l.
  Proof.
    intros H. apply in_map_iff in H as (y & <- & Hy). unfold rename. destruct (beq y a); [now left|now right].
  Qed.

  Theorem step_inv w e : Inv w -> enabled (w_srv w) e = true -> Inv (fst (wstep w e)).
  Proof.
    intros I En. rewrite wstep_unfold, (srv_pre_enabled _ _ En).
    destruct I as [Inn Isub Ioth Ireg]. pose proof (Build_Inv w Inn Isub Ioth Ireg) as I.
    destruct e as [|on tail|y|uh| |y uh|a b|a|a|a| |l]; cbn [enabled] in En; cbn [srv_act fst snd].
    - (* EColl *)
      destruct (sv_pending (w_srv w)) as [|x rest] eqn:Ep; [discriminate|].
      apply andb_true_iff in En as [Hx Hne]. cbn [fst snd].
      pose proof (nick_ok_parts x Hx) as [_ Hxm].
      rewrite feed_one, step_line by (apply wf_coll; [apply cur_or_star_ok, I|exact Hxm]).
      destruct (exp_coll (cur_or_star (w_srv w)) x) as [Ec Ea].
      unfold NickHandlers.handle, handle_with. rewrite Ec. change (beq c_433 c_001) with false. change (beq c_433 c_433) with true. cbv iota.
      destruct (h_433_spec new_nick (w_cli w) _ _ _ _ Inn Ea) as (_ & _ & Hn' & Ho' & _ & Hm').
      cbn [fst w_cli w_srv]. constructor; cbn [w_cli w_srv].
      + exact Hn'.
      + rewrite Ho'. exact Isub.
      + exact Ioth.
      + cbn [srv_post set_pending sv_reg sv_nick sv_others]. intros Hr. destruct (Ireg Hr) as (Hm & Hno & Hok).
        split; [|split; assumption]. rewrite Hm'. rewrite Hr in Hne. cbn [andb] in Hne.
        apply negb_true_iff in Hne. rewrite Hm. cbn [opt_beq']. rewrite beq_sym, Hne. reflexivity.
    - (* EWelcome *)
      set (n := match on with Some n => n | None => hd [] (sv_pending (w_srv w)) end).
      assert (Hn : sv_reg (w_srv w) = false /\ nick_ok n = true /\ in_use (w_srv w) n = false
                   /\ match tail with Some uh => uh_ok uh | None => true end = true).
      { subst n. destruct on as [n|].
        - apply andb_true_iff in En as [En H4]. apply andb_true_iff in En as [En H3]. apply andb_true_iff in En as [H1 H2].
          apply negb_true_iff in H1, H3. auto.
        - apply andb_true_iff in En as [En H4]. apply andb_true_iff in En as [H1 En]. apply negb_true_iff in H1.
          destruct (sv_pending (w_srv w)) as [|x rest]; [discriminate|].
          apply andb_true_iff in En as [H2 H3]. apply negb_true_iff in H3. cbn [hd]. auto. }
      destruct Hn as (Hr & Hok & Hu & Htl). apply in_use_false in Hu.
      rewrite feed_one, step_line by (apply wf_welcome_with; assumption).
      destruct (exp_welcome_with n tail) as [Ec Et].
      unfold NickHandlers.handle, handle_with. rewrite Ec. change (beq c_001 c_001) with true. cbv iota.
      destruct (h_001_spec new_nick (w_cli w) _ n Inn Et) as (_ & _ & Hn' & Ho' & _ & Hm').
      { intros Hin. apply Hu, Isub, Hin. }
      cbn [fst w_cli w_srv]. constructor; cbn [w_cli w_srv srv_post set_pending set_current sv_reg sv_nick sv_others].
      + exact Hn'.
      + rewrite Ho'. exact Isub.
      + exact Ioth.
      + intros _. auto.
    - (* EReq *)
      rewrite feed_one. cbn [NickHandlers.client_step client_step_with ho_st done ho_out fst w_cli w_srv].
      constructor; cbn [w_cli w_srv srv_post set_pending sv_reg sv_nick sv_others]; assumption.
    - (* EConfirm *)
      apply andb_true_iff in En as [En Huh]. apply andb_true_iff in En as [Hr En].
      destruct (sv_pending (w_srv w)) as [|x rest] eqn:Ep; [discriminate|].
      apply andb_true_iff in En as [En Hne]. apply andb_true_iff in En as [Hx Hu].
      apply negb_true_iff in Hne, Hu. apply in_use_false in Hu. apply beq_neq in Hne.
      destruct (Ireg Hr) as (Hm & Hno & Hok). cbn [fst snd].
      rewrite feed_one, step_line by (apply wf_nick_msg_from; assumption).
      destruct (exp_nick_from (sv_nick (w_srv w)) uh x) as (Ec & Ek & Ea).
      destruct (nick_self_spec new_nick (w_cli w) _ _ x Inn Ec Ek Ea Hm Hne) as (_ & Hn' & Ho' & _ & Hm').
      { intros Hin. apply Hu, Isub, Hin. }
      cbn [fst w_cli w_srv]. constructor; cbn [w_cli w_srv srv_post set_pending set_current sv_reg sv_nick sv_others].
      + exact Hn'.
      + rewrite Ho'. exact Isub.
      + exact Ioth.
      + intros _. auto.
    - (* EIgnore *)
      destruct (sv_pending (w_srv w)) as [|x rest] eqn:Ep; [discriminate|]. cbn [fst snd].
      rewrite feed_one, step_line.
      2:{ apply wf_ignore; [apply cur_or_star_ok, I|]. destruct (nick_ok x) eqn:E; [now apply nick_ok_parts in E|reflexivity]. }
      rewrite handle_noise by reflexivity.
      cbn [ho_st done ho_out fst w_cli w_srv]. constructor; cbn [w_cli w_srv srv_post set_pending sv_reg sv_nick sv_others]; assumption.
    - (* EForce *)
      apply andb_true_iff in En as [En Huh]. apply andb_true_iff in En as [En Hne]. apply andb_true_iff in En as [En Hu]. apply andb_true_iff in En as [Hr Hy].
      apply negb_true_iff in Hne, Hu. apply in_use_false in Hu. apply beq_neq in Hne.
      destruct (Ireg Hr) as (Hm & Hno & Hok).
      rewrite feed_one, step_line by (apply wf_nick_msg_from; assumption).
      destruct (exp_nick_from (sv_nick (w_srv w)) uh y) as (Ec & Ek & Ea).
      destruct (nick_self_spec new_nick (w_cli w) _ _ y Inn Ec Ek Ea Hm Hne) as (_ & Hn' & Ho' & _ & Hm').
      { intros Hin. apply Hu, Isub, Hin. }
      cbn [fst w_cli w_srv]. constructor; cbn [w_cli w_srv srv_post set_pending set_current sv_reg sv_nick sv_others].
      + exact Hn'.
      + rewrite Ho'. exact Isub.
      + exact Ioth.
      + intros _. auto.
    - (* EOther *)
      apply andb_true_iff in En as [En Hne]. apply andb_true_iff in En as [En Hu]. apply andb_true_iff in En as [En Hb].
      apply andb_true_iff in En as [En Ha]. apply andb_true_iff in En as [Hr Hau].
      apply negb_true_iff in Hne, Hu. apply in_use_false in Hu. apply beq_neq in Hne. apply in_use_spec in Hau.
      destruct (Ireg Hr) as (Hm & Hno & Hok).
      assert (Hac : a <> sv_nick (w_srv w)) by (intros ->; contradiction).
      rewrite feed_one, step_line by (apply wf_nick_msg; assumption).
      destruct (exp_nick a b) as (Ec & Ek & Ea).
      destruct (nick_other_spec new_nick (w_cli w) _ _ a b Inn Ec Ek Ea Hm Hac Hne) as (_ & Hn' & Ho' & _ & Hm').
      { intros Hin. apply Hu, Isub, Hin. }
      cbn [fst w_cli w_srv]. constructor; cbn [w_cli w_srv srv_post set_pending set_others sv_reg sv_nick sv_others].
      + exact Hn'.
      + rewrite Ho'. change (fun o => if beq o a then b else o) with (rename a b). apply incl_rename, Isub.
      + change (fun o => if beq o a then b else o) with (rename a b). apply Forall_rename; assumption.
      + intros _. split; [exact Hm'|]. split; [|exact Hok].
        change (fun o => if beq o a then b else o) with (rename a b).
        intros Hin. apply in_rename_inv in Hin as [Hin|Hin]; [congruence|contradiction].
    - (* ENew *)
      apply andb_true_iff in En as [En Hne]. apply andb_true_iff in En as [Ha Hu].
      rewrite feed_nil. cbn [fst w_cli w_srv]. constructor; cbn [w_cli w_srv srv_post set_pending set_others sv_reg sv_nick sv_others].
      + exact Inn.
      + apply incl_appl, Isub.
      + apply Forall_app. split; [exact Ioth|]. constructor; [exact Ha|constructor].
      + intros Hr. destruct (Ireg Hr) as (Hm & Hno & Hok). split; [exact Hm|]. split; [|exact Hok].
        rewrite Hr in Hne. cbn [andb] in Hne. apply negb_true_iff, beq_neq in Hne.
        intros Hin. apply in_app_iff in Hin as [Hin|[Hin|[]]]; [contradiction|congruence].
    - (* ETrack *)
      apply in_use_spec in En. rewrite feed_one.
      unfold NickHandlers.client_step, client_step_with.
      destruct (c_st (w_cli w)) as [t|] eqn:Est.
      + destruct (tk_NewNick_facts t a) as [Hme Hinc].
        cbn [ho_st done ho_out fst w_cli w_srv]. constructor; cbn [w_cli w_srv srv_post set_pending sv_reg sv_nick sv_others].
        * exact Inn.
        * unfold others_of in *. rewrite Est in Isub. cbn [c_st]. intros x Hx. apply Hinc in Hx as [<-|Hx]; [exact En|apply Isub, Hx].
        * exact Ioth.
        * intros Hr. destruct (Ireg Hr) as (Hm & Hno & Hok). split; [|split; assumption].
          unfold me_nick_of, do_Me in *. rewrite Est in Hm. cbn [c_st snd tk_Me option_map] in *. now rewrite Hme.
      + cbn [ho_st done ho_out fst w_cli w_srv]. constructor; cbn [w_cli w_srv srv_post set_pending sv_reg sv_nick sv_others]; assumption.
    - (* EForget *)
      rewrite feed_one. unfold NickHandlers.client_step, client_step_with.
      destruct (c_st (w_cli w)) as [t|] eqn:Est.
      + destruct (tk_DelNick_facts t a) as [Hme Hinc].
        cbn [ho_st done ho_out fst w_cli w_srv]. constructor; cbn [w_cli w_srv srv_post set_pending sv_reg sv_nick sv_others].
        * exact Inn.
        * unfold others_of in *. rewrite Est in Isub. cbn [c_st]. intros x Hx. apply Isub, Hinc, Hx.
        * exact Ioth.
        * intros Hr. destruct (Ireg Hr) as (Hm & Hno & Hok). split; [|split; assumption].
          unfold me_nick_of, do_Me in *. rewrite Est in Hm. cbn [c_st snd tk_Me option_map] in *. now rewrite Hme.
      + cbn [ho_st done ho_out fst w_cli w_srv]. constructor; cbn [w_cli w_srv srv_post set_pending sv_reg sv_nick sv_others]; assumption.
    - (* EMe *)
      rewrite feed_one. cbn [NickHandlers.client_step client_step_with ho_st done ho_out fst w_cli w_srv].
      constructor; cbn [w_cli w_srv srv_post set_pending sv_reg sv_nick sv_others].
      + apply do_Me_nn, Inn.
      + unfold others_of. rewrite do_Me_st. exact Isub.
      + exact Ioth.
      + intros Hr. rewrite me_nick_of_do_Me. exact (Ireg Hr).
    - (* ERaw: noise *)
      rewrite feed_one. unfold NickHandlers.client_step, client_step_with. unfold is_noise in En.
      destruct (recv_one (l ++ s_crlf)) as [[ln|]|].
      + apply negb_true_iff in En. rewrite (handle_noise new_nick _ _ En).
        cbn [ho_st done ho_out fst w_cli w_srv]. constructor; cbn [w_cli w_srv srv_post set_pending sv_reg sv_nick sv_others]; assumption.
      + cbn [ho_st done ho_out fst w_cli w_srv]. constructor; cbn [w_cli w_srv srv_post set_pending sv_reg sv_nick sv_others]; assumption.
      + cbn [ho_st done ho_out fst w_cli w_srv]. constructor; cbn [w_cli w_srv srv_post set_pending sv_reg sv_nick sv_others]; assumption.
  Qed.
End World.

(* ================= runs ================= *)
Section Runs.
  Variable new_nick : bytes -> bytes.
  Notation handle := (handle new_nick).
  Notation client_step := (client_step new_nick).
  Notation feed := (feed new_nick).
  Notation wstep := (wstep new_nick).
  Notation wrun := (wrun new_nick).
  Notation observe := (observe new_nick).
  Notation conformant := (conformant new_nick).

  Lemma wstep_ok w e : w_ok (fst (wstep w e)) = w_ok w && enabled (w_srv w) e.
  Proof.
    rewrite wstep_unfold. unfold srv_pre.
    destruct e; try (destruct (enabled (w_srv w) _) eqn:E; cbn [fst snd];
      destruct (feed _ _); reflexivity).
  Qed.

  Lemma wrun_ok_mono es : forall w, w_ok (wrun w es) = true -> w_ok w = true.
  Proof.
    induction es as [|e es IH]; intros w H; [exact H|].
    cbn [NickHandlers.wrun wrun_with] in H. fold (wstep w e) in H. apply IH in H. rewrite wstep_ok in H.
    now apply andb_true_iff in H.
  Qed.

  Lemma wrun_inv es : forall w, Inv w -> w_ok (wrun w es) = true -> Inv (wrun w es).
  Proof.
    induction es as [|e es IH]; intros w I H; [exact I|].
    cbn [NickHandlers.wrun wrun_with] in *. fold (wstep w e) in *. apply IH; [|exact H].
    apply wrun_ok_mono in H. rewrite wstep_ok in H. apply andb_true_iff in H as [_ H].
    now apply step_inv.
  Qed.

  Lemma client0_others track nick ident name : others_of (client0 track nick ident name) = [].
  Proof.
    unfold client0. destruct track; [|reflexivity].
    unfold enable_tracking, client_init. cbn [c_st cfg_me].
    unfold others_of. cbn [ho_st done c_st]. unfold tk_NickInfo, tk_new. cbn [tr_me bare_nick nk_nick].
    rewrite beq_refl. reflexivity.
  Qed.

  Lemma world0_inv track nick ident name others0 :
    w_ok (world0 track nick ident name others0) = true -> Inv (world0 track nick ident name others0).
  Proof.
    cbn [world0 w_ok]. intros H. constructor; cbn [world0 w_cli w_srv server0 sv_reg sv_others].
    - apply client0_nn.
    - rewrite client0_others. apply incl_nil_l.
    - apply Forall_forall. intros x Hx. exact (forallb_In _ _ _ H Hx).
    - discriminate.
  Qed.

  (* C17_me_tracks_server: after ANY conformant script (any length, any events in any enabled
     order, Me() called anywhere or nowhere), once the welcome has been sent Me() reports the
     nick the server uses for the client — tracking on or off, ANY generator *)
  Theorem me_tracks_server track nick ident name others0 es :
    let w0 := world0 track nick ident name others0 in
    conformant w0 es = true ->
    sv_reg (w_srv (wrun w0 es)) = true ->
    me_nick_of (w_cli (wrun w0 es)) = Some (sv_nick (w_srv (wrun w0 es))).
  Proof.
    cbv zeta. unfold NickHandlers.conformant. intros Hc Hr.
    pose proof (wrun_ok_mono es _ Hc) as H0.
    pose proof (wrun_inv es _ (world0_inv track nick ident name others0 H0) Hc) as I.
    exact (proj1 (inv_reg _ I Hr)).
  Qed.

  (* ---------- the server alone: the nick it uses is always a sendable one ---------- *)
  Definition SrvInv (srv : server) : Prop := sv_reg srv = true -> nick_ok (sv_nick srv) = true.

  Lemma srv_pre_inv srv e : SrvInv srv -> SrvInv (snd (fst (srv_pre srv e))).
  Proof.
    intros I. unfold srv_pre. destruct (enabled srv e) eqn:En.
    2:{ destruct e; exact I. }
    destruct e as [|on tail|y|uh| |y uh|a b|a|a|a| |l]; cbn [enabled] in En; cbn [srv_act fst snd]; try exact I.
    - destruct (sv_pending srv); exact I.
    - intros _. cbn [set_pending set_current sv_nick]. destruct on as [n|].
      + apply andb_true_iff in En as [En _]. apply andb_true_iff in En as [En _]. now apply andb_true_iff in En as [_ En].
      + apply andb_true_iff in En as [En _]. apply andb_true_iff in En as [_ En]. destruct (sv_pending srv) as [|x rest]; [discriminate|].
        now apply andb_true_iff in En as [En _].
    - apply andb_true_iff in En as [En _]. apply andb_true_iff in En as [_ En]. destruct (sv_pending srv) as [|x rest]; [discriminate|].
      intros _. cbn [fst set_pending set_current sv_nick].
      apply andb_true_iff in En as [En _]. now apply andb_true_iff in En as [En _].
    - destruct (sv_pending srv); exact I.
    - intros _. cbn [set_current sv_nick]. apply andb_true_iff in En as [En _]. apply andb_true_iff in En as [En _].
      apply andb_true_iff in En as [En _]. now apply andb_true_iff in En as [_ En].
  Qed.

  Lemma wstep_srv w e : w_srv (fst (wstep w e)) = srv_post (snd (fst (srv_pre (w_srv w) e))) (snd (wstep w e)).
  Proof.
    rewrite wstep_unfold. destruct (srv_pre (w_srv w) e) as [[en srv1] ins]. destruct (feed (w_cli w) ins). reflexivity.
  Qed.

  Lemma wstep_nn w e : nn (w_cli w) -> nn (w_cli (fst (wstep w e))).
  Proof.
    intros H. rewrite wstep_unfold. destruct (srv_pre (w_srv w) e) as [[en srv1] ins].
    assert (G : forall is s, nn s -> nn (fst (feed s is))).
    { induction is as [|i is IH]; intros s Hs; [exact Hs|].
      unfold NickHandlers.feed in *. cbn [feed_with].
      specialize (IH (ho_st (client_step_with handle s i)) (client_step_nn new_nick s i Hs)).
      destruct (feed_with handle (ho_st (client_step_with handle s i)) is). exact IH. }
    specialize (G ins (w_cli w) H). destruct (feed (w_cli w) ins). exact G.
  Qed.

  (* C17_collision_answer, in a run: whatever the state *)
  Lemma refused_433 w e r : nn (w_cli w) -> SrvInv (w_srv w) -> refused_of (w_srv w) e = Some r ->
    filter is_nick_line (snd (wstep w e)) = nick_lines (new_nick r)
    /\ (me_nick_of (w_cli (fst (wstep w e))) = me_nick_of (w_cli w)
        \/ (me_nick_of (w_cli w) = Some r /\ me_nick_of (w_cli (fst (wstep w e))) = Some (new_nick r))).
  Proof.
    intros Hn Hs Hr. rewrite wstep_unfold.
    assert (Hspec : forall l a0 rest, l_cmd l = c_433 -> l_args l = a0 :: r :: rest ->
              let o := handle (w_cli w) l in
              filter is_nick_line (ho_out o) = nick_lines (new_nick r)
              /\ (me_nick_of (ho_st o) = me_nick_of (w_cli w)
                  \/ (me_nick_of (w_cli w) = Some r /\ me_nick_of (ho_st o) = Some (new_nick r)))).
    { intros l a0 rest Hc Ha. cbv zeta. unfold NickHandlers.handle, handle_with. rewrite Hc.
      change (beq c_433 c_001) with false. change (beq c_433 c_433) with true. cbv iota.
      destruct (h_433_spec new_nick (w_cli w) l a0 r rest Hn Ha) as (_ & Ho & _ & _ & _ & Hm).
      rewrite Ho, filter_nick_lines. split; [reflexivity|]. rewrite Hm.
      destruct (opt_beq' (me_nick_of (w_cli w)) (Some r)) eqn:E; cbn [andb]; [|now left].
      apply opt_beq'_eq in E.
      destruct (match c_st (w_cli w) with Some t => negb (tk_tracked t (new_nick r)) | None => true end); [now right|now left]. }
    destruct e; cbn [refused_of] in Hr; try discriminate.
    - (* EColl *)
      destruct (enabled (w_srv w) EColl) eqn:En; [|discriminate].
      rewrite (srv_pre_enabled _ _ En). cbn [enabled] in En. cbn [srv_act].
      destruct (sv_pending (w_srv w)) as [|x rest] eqn:Ep; [discriminate|]. injection Hr as ->.
      apply andb_true_iff in En as [Hx _]. cbn [fst snd].
      assert (Hc : middle_ok (cur_or_star (w_srv w)) = true).
      { unfold cur_or_star. destruct (sv_reg (w_srv w)) eqn:E; [|reflexivity]. specialize (Hs E). now apply nick_ok_parts in Hs. }
      rewrite feed_one, step_line by (apply wf_coll; [exact Hc|now apply nick_ok_parts in Hx]).
      cbn [fst snd w_cli].
      destruct (exp_coll (cur_or_star (w_srv w)) r) as [Ec Ea]. exact (Hspec _ _ _ Ec Ea).
    - (* ERaw *)
      unfold srv_pre. cbn [srv_act snd]. rewrite feed_one. cbn [fst snd w_cli].
      unfold NickHandlers.client_step, client_step_with.
      destruct (recv_one (l ++ s_crlf)) as [[ln|]|]; try discriminate.
      destruct (beq (l_cmd ln) c_433) eqn:Ec; [|discriminate]. apply beq_eq in Ec.
      destruct (l_args ln) as [|a0 [|r' rest]] eqn:Ea; try discriminate. injection Hr as ->.
      exact (Hspec _ _ _ Ec Ea).
  Qed.

  Lemma walk_holds es : forall w, nn (w_cli w) -> SrvInv (w_srv w) -> (w_ok w = true -> Inv w) ->
    C17_walk new_nick (w_srv w) (w_ok w) (me_nick_of (w_cli w)) es (observe w es) = true.
  Proof.
    induction es as [|e es IH]; intros w Hn Hs Hi; [reflexivity|].
    cbn [NickHandlers.observe observe_with C17_walk].
    destruct (wstep_with handle w e) as [w1 outs] eqn:Ew. fold (wstep w e) in Ew.
    pose proof (wstep_srv w e) as Hsrv. pose proof (wstep_ok w e) as Hok.
    pose proof (wstep_nn w e Hn) as Hn1. pose proof (srv_pre_inv (w_srv w) e Hs) as Hs1.
    pose proof (refused_433 w e) as Hcoll.
    rewrite Ew in Hsrv, Hok, Hn1, Hcoll. cbn [fst snd] in Hsrv, Hok, Hn1, Hcoll.
    assert (Hen : fst (fst (srv_pre (w_srv w) e)) = enabled (w_srv w) e).
    { unfold srv_pre. destruct e; try (destruct (enabled (w_srv w) _); reflexivity). }
    destruct (srv_pre (w_srv w) e) as [[en srv1] ins]. cbn [fst snd] in *. subst en.
    cbn [o_nicks o_cfg o_me o_cfg2 o_conn].
    assert (Esrv : srv_post srv1 (filter is_nick_line outs) = w_srv w1).
    { rewrite Hsrv. unfold srv_post. now rewrite nick_requests_filter. }
    rewrite Esrv, <- Hok.
    assert (Hi1 : w_ok w1 = true -> Inv w1).
    { intros H1. rewrite Hok in H1. apply andb_true_iff in H1 as [H0 He].
      pose proof (step_inv new_nick w e (Hi H0) He) as I. fold (wstep w e) in I. now rewrite Ew in I. }
    assert (Hs1' : SrvInv (w_srv w1)).
    { rewrite Hsrv. intros H. apply Hs1. exact H. }
    (* never nil *)
    pose proof (do_Me_nn _ Hn1) as [_ Hme]. unfold nn in Hn1.
    unfold cfg_nick_of.
    destruct (cfg_me (w_cli w1)) as [c|] eqn:Ec; [|contradiction].
    assert (Em : exists m, me_nick_of (w_cli w1) = Some m).
    { unfold me_nick_of. destruct (snd (do_Me (w_cli w1))); [cbn; eauto|contradiction]. }
    destruct Em as (m & Em). rewrite !Em. cbn [option_map andb].
    assert (Ec2 : exists c2, cfg_me (fst (do_Me (w_cli w1))) = Some c2).
    { assert (H : nn (w_cli w1)) by (unfold nn; rewrite Ec; discriminate).
      apply do_Me_nn in H as [H _]. unfold nn in H. destruct (cfg_me (fst (do_Me (w_cli w1)))); [eauto|contradiction]. }
    destruct Ec2 as (c2 & Ec2). rewrite Ec2. cbn [option_map is_nil].
    assert (Econn : existsb (fun b : bool => b) (map (fun _ : cinput => false) (filter is_welcome_in ins)) = false).
    { induction (filter is_welcome_in ins) as [|x l IHl]; [reflexivity|exact IHl]. }
    rewrite Econn. cbn [negb andb].
    (* tracks the server *)
    assert (Ht : (if w_ok w1 && sv_reg (w_srv w1) then opt_beq' (Some m) (Some (sv_nick (w_srv w1))) else true) = true).
    { destruct (w_ok w1 && sv_reg (w_srv w1)) eqn:E; [|reflexivity]. apply andb_true_iff in E as [E1 E2].
      destruct (inv_reg _ (Hi1 E1) E2) as (H & _). rewrite Em in H.
      rewrite H. apply opt_beq'_refl. }
    rewrite Ht. cbn [andb].
    (* collision answer *)
    assert (Hc : match refused_of (w_srv w) e with
                 | Some r => list_beq (filter is_nick_line outs) (nick_lines (new_nick r))
                             && (opt_beq' (Some m) (me_nick_of (w_cli w))
                                 || (opt_beq' (me_nick_of (w_cli w)) (Some r) && opt_beq' (Some m) (Some (new_nick r))))
                 | None => true
                 end = true).
    { destruct (refused_of (w_srv w) e) as [r|] eqn:Er; [|reflexivity].
      destruct (Hcoll r Hn Hs eq_refl) as [H1 H2]. rewrite H1, list_beq_refl. cbn [andb].
      rewrite Em in H2.
      destruct H2 as [H2|[H2 H3]].
      - rewrite H2, opt_beq'_refl. reflexivity.
      - rewrite H2, H3, !opt_beq'_refl. apply orb_true_r. }
    rewrite Hc. cbn [andb].
    (* the marker's Me() and the rest *)
    specialize (IH (fst (wstep_with handle w1 EMe))).
    fold (wstep w1 EMe) in *.
    rewrite wstep_srv in IH. rewrite wstep_ok in IH. cbn [enabled] in IH. rewrite andb_true_r in IH.
    assert (E1 : srv_pre (w_srv w1) EMe = (true, w_srv w1, [InMe])) by reflexivity.
    assert (E2 : wstep w1 EMe = ({| w_cli := fst (do_Me (w_cli w1)); w_srv := srv_post (w_srv w1) []; w_ok := w_ok w1 && true |}, [])).
    { rewrite wstep_unfold, E1, feed_one. reflexivity. }
    rewrite E1, E2 in IH. cbn [fst snd w_cli] in IH. rewrite srv_post_nil, me_nick_of_do_Me in IH.
    rewrite Em in IH.
    rewrite E2. cbn [fst]. rewrite srv_post_nil.
    apply IH.
    - apply do_Me_nn. unfold nn. rewrite Ec. discriminate.
    - exact Hs1'.
    - intros H1. specialize (Hi1 H1). destruct Hi1 as [A B C D].
      constructor; cbn [w_cli w_srv].
      + apply do_Me_nn, A.
      + unfold others_of. rewrite do_Me_st. exact B.
      + exact C.
      + rewrite me_nick_of_do_Me. exact D.
  Qed.

  Theorem C17_holds track nick ident name others0 es :
    let w0 := world0 track nick ident name others0 in
    C17_ok new_nick w0 es (observe w0 es) = true.
  Proof.
    cbv zeta. unfold C17_ok. apply walk_holds.
    - apply client0_nn.
    - intros H. discriminate.
    - apply world0_inv.
  Qed.
End Runs.

(* ================= registration: any number of collisions ================= *)
Lemma iter_succ_r {A} k (f : A -> A) x : Nat.iter (S k) f x = Nat.iter k f (f x).
Proof. induction k as [|k IH]; [reflexivity|]. cbn [Nat.iter nat_rect] in *. now rewrite IH. Qed.

Section Registration.
  Variable new_nick : bytes -> bytes.
  Notation wstep := (wstep new_nick).
  Notation wrun := (wrun new_nick).

  Definition first_nick (nick : bytes) : bytes := if beq nick [] then s_idiot else nick.

  Record RegInv (w : world) (n : bytes) : Prop := {
    ri_nn : nn (w_cli w);
    ri_me : me_nick_of (w_cli w) = Some n;
    ri_oth : others_of (w_cli w) = [];
    ri_pend : sv_pending (w_srv w) = [n];
    ri_reg : sv_reg (w_srv w) = false
  }.

  Lemma reg_step w n : RegInv w n -> nick_ok n = true -> nick_ok (new_nick n) = true ->
    RegInv (fst (wstep w EColl)) (new_nick n)
    /\ w_ok (fst (wstep w EColl)) = w_ok w
    /\ snd (wstep w EColl) = nick_lines (new_nick n).
  Proof.
    intros [Hn Hm Ho Hp Hr] Hk Hk'.
    assert (En : enabled (w_srv w) EColl = true).
    { cbn [enabled]. now rewrite Hp, Hk, Hr. }
    rewrite wstep_unfold, (srv_pre_enabled _ _ En). cbn [srv_act]. rewrite Hp. cbn [fst snd].
    assert (Hc : cur_or_star (w_srv w) = s_star) by (unfold cur_or_star; now rewrite Hr).
    rewrite Hc, feed_one, step_line by (apply wf_coll; [reflexivity|now apply nick_ok_parts in Hk]).
    destruct (exp_coll s_star n) as [Ec Ea].
    unfold handle, handle_with. rewrite Ec. change (beq c_433 c_001) with false. change (beq c_433 c_433) with true. cbv iota.
    destruct (h_433_spec new_nick (w_cli w) _ _ _ _ Hn Ea) as (_ & Hout & Hn' & Ho' & _ & Hm').
    cbn [fst snd w_cli w_srv w_ok]. split; [|split; [now rewrite andb_true_r|exact Hout]].
    constructor; cbn [w_cli w_srv].
    - exact Hn'.
    - rewrite Hm', Hm, opt_beq'_refl. cbn [andb].
      destruct (c_st (w_cli w)) as [t|] eqn:Est; [|reflexivity].
      destruct (tk_tracked t (new_nick n)) eqn:Tr; [|reflexivity]. cbn [negb].
      apply tk_tracked_spec in Tr. unfold others_of in Ho. rewrite Est in Ho. rewrite Ho in Tr.
      destruct Tr as [Tr|[]]. unfold me_nick_of, do_Me in Hm. rewrite Est in Hm. cbn in Hm. congruence.
    - rewrite Ho'. exact Ho.
    - rewrite Hout. unfold srv_post. cbn [set_pending sv_pending app]. rewrite nick_requests_lines.
      now rewrite cut_nl_id by (apply nick_ok_clean, Hk').
    - cbn [srv_post set_pending sv_reg]. exact Hr.
  Qed.

  Lemma reg_run k : forall w n, RegInv w n ->
    (forall j, (j <= k)%nat -> nick_ok (Nat.iter j new_nick n) = true) ->
    RegInv (wrun w (repeat EColl k)) (Nat.iter k new_nick n) /\ w_ok (wrun w (repeat EColl k)) = w_ok w.
  Proof.
    induction k as [|k IH]; intros w n I Hk; [split; [exact I|reflexivity]|].
    cbn [repeat NickHandlers.wrun wrun_with]. fold (wstep w EColl).
    destruct (reg_step w n I (Hk 0%nat (Nat.le_0_l _)) (Hk 1%nat ltac:(lia))) as (I' & Hok & _).
    destruct (IH _ _ I') as [I'' Hok''].
    { intros j Hj. rewrite <- iter_succ_r. apply Hk. lia. }
    rewrite <- iter_succ_r in I''. split; [exact I''|]. now rewrite Hok''.
  Qed.

  Lemma world0_reg track nick ident name others0 :
    RegInv (world0 track nick ident name others0) (first_nick nick) \/ ~ clean (first_nick nick).
  Proof.
    destruct (Forall_dec (fun c => is_nl c = false) (fun c => bool_dec (is_nl c) false) (first_nick nick)) as [Hc|Hc]; [left|now right].
    assert (Hme : forall tr, cfg_nick_of (client0 tr nick ident name) = Some (first_nick nick)
                           /\ me_nick_of (client0 tr nick ident name) = Some (first_nick nick)).
    { intros tr. unfold client0, client_init, first_nick.
      assert (E : beq (if beq ident [] then s_goirc else ident) [] = false).
      { destruct (beq ident []) eqn:E; [reflexivity|exact E]. }
      rewrite E, orb_false_r.
      destruct tr; destruct (beq nick []); unfold enable_tracking, cfg_nick_of, me_nick_of, do_Me;
        cbn [c_st cfg_me ho_st done]; unfold tk_NickInfo, tk_new; cbn [tr_me bare_nick nk_nick];
        rewrite ?beq_refl; split; reflexivity. }
    constructor; cbn [world0 w_cli w_srv server0 sv_pending sv_reg].
    - apply client0_nn.
    - apply Hme.
    - apply client0_others.
    - destruct (Hme track) as [H _]. unfold cfg_nick_of in H.
      destruct (cfg_me (client0 track nick ident name)) as [m|]; [|discriminate]. cbn in H. injection H as ->.
      now rewrite nick_requests_lines, cut_nl_id.
    - reflexivity.
  Qed.

  (* After k collisions during registration (433 for the nick last requested, k arbitrary) the
     client's Me() is the k-th iterate of the generator on its first nick — exactly the nick
     it requested last, which is the server's only pending request — for ANY generator whose
     iterates are sendable nicks, tracking on or off. *)
  Theorem registration_collisions track nick ident name others0 k :
    let n0 := first_nick nick in
    let w := wrun (world0 track nick ident name others0) (repeat EColl k) in
    (forall j, (j <= k)%nat -> nick_ok (Nat.iter j new_nick n0) = true) ->
    me_nick_of (w_cli w) = Some (Nat.iter k new_nick n0)
    /\ sv_pending (w_srv w) = [Nat.iter k new_nick n0]
    /\ sv_reg (w_srv w) = false
    /\ w_ok w = forallb nick_ok others0.
  Proof.
    cbv zeta. intros Hk.
    destruct (world0_reg track nick ident name others0) as [I|Hc].
    2:{ exfalso. apply Hc, nick_ok_clean, (Hk 0%nat), Nat.le_0_l. }
    destruct (reg_run k _ _ I Hk) as [[_ Hm _ Hp Hr] Hok]. repeat split; assumption.
  Qed.
End Registration.

(* ================= C17_collision_answer at the handler ================= *)
Theorem collision_answer new_nick s l a0 r rest :
  cfg_me s <> None -> l_cmd l = c_433 -> l_args l = a0 :: r :: rest ->
  let o := handle new_nick s l in
  ho_panic o = false
  /\ ho_out o = [s_NICK ++ s_sp ++ cut_newlines (new_nick r)]
  /\ me_nick_of (ho_st o) =
     (if opt_beq' (me_nick_of s) (Some r)
         && match c_st s with Some t => negb (tk_tracked t (new_nick r)) | None => true end
      then Some (new_nick r) else me_nick_of s).
Proof.
  intros Hn Hc Ha. cbv zeta. unfold handle, handle_with. rewrite Hc.
  change (beq c_433 c_001) with false. change (beq c_433 c_433) with true. cbv iota.
  destruct (h_433_spec new_nick s l a0 r rest Hn Ha) as (Hp & Ho & _ & _ & _ & Hm).
  split; [exact Hp|]. split; [|exact Hm]. rewrite Ho, nick_lines_shape, cut_newlines_cut_nl. reflexivity.
Qed.

Theorem collision_short new_nick s l : l_cmd l = c_433 -> llen (l_args l) < 2 ->
  handle new_nick s l = panic (fst (do_Me s)) [].
Proof.
  intros Hc H. unfold handle, handle_with. rewrite Hc.
  change (beq c_433 c_001) with false. change (beq c_433 c_433) with true. cbv iota.
  now apply h_433_short.
Qed.
