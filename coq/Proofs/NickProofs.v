(* Proofs/NickProofs.v — lemmas about Model/NickHandlers.v (C17). *)
From Verif Require Import GoBytes LineLib Line LineSend Split Commands NewNick NickHandlers.
From Verif Require Import GoBytesFacts LineSendFacts LineTotal LineRoundTrip LineDeliver CommandsProofs NewNickProofs.
Open Scope Z_scope.

(* ================= small facts ================= *)
Lemma nick_lines_eq n : nick_lines n = [cut_newlines (s_NICK ++ s_sp ++ n)].
Proof. reflexivity. Qed.

Lemma clean_NICK_sp : clean s_NICK_sp.
Proof. repeat constructor. Qed.

Lemma nick_lines_shape n : nick_lines n = [s_NICK_sp ++ cut_nl n].
Proof.
  rewrite nick_lines_eq. change (s_NICK ++ s_sp ++ n) with (s_NICK_sp ++ n).
  rewrite cut_newlines_cut_nl, cut_nl_app by exact clean_NICK_sp. reflexivity.
Qed.

Lemma strip_prefix_app p s : strip_prefix (p ++ s) p = Some s.
Proof. unfold strip_prefix. rewrite has_prefix_app, skipn_len_app. reflexivity. Qed.

Lemma nick_requests_lines n : nick_requests (nick_lines n) = [cut_nl n].
Proof. rewrite nick_lines_shape. cbn [nick_requests flat_map]. rewrite strip_prefix_app. reflexivity. Qed.

Lemma filter_nick_lines n : filter is_nick_line (nick_lines n) = nick_lines n.
Proof. rewrite nick_lines_shape. cbn [filter]. unfold is_nick_line. rewrite has_prefix_app. reflexivity. Qed.

Lemma nick_requests_filter outs : nick_requests (filter is_nick_line outs) = nick_requests outs.
Proof.
  induction outs as [|l outs IH]; [reflexivity|]. cbn [filter]. unfold is_nick_line at 1.
  destruct (has_prefix l s_NICK_sp) eqn:E.
  - cbn [nick_requests flat_map]. fold (nick_requests (filter is_nick_line outs)). fold (nick_requests outs).
    now rewrite IH.
  - cbn [nick_requests flat_map]. fold (nick_requests outs). unfold strip_prefix. rewrite E. exact IH.
Qed.

Lemma list_beq_refl l : list_beq l l = true.
Proof. induction l as [|x l IH]; [reflexivity|]. cbn. now rewrite beq_refl. Qed.

Lemma opt_beq'_refl o : opt_beq' o o = true.
Proof. destruct o; cbn; [apply beq_refl|reflexivity]. Qed.

Lemma opt_beq'_eq a b : opt_beq' a b = true <-> a = b.
Proof.
  destruct a, b; cbn; try (split; congruence).
  rewrite beq_eq. split; congruence.
Qed.

(* ================= Config().Me and Me() are never nil ================= *)
Definition nn (s : cstate) : Prop := cfg_me s <> None.

Lemma do_Me_nn s : nn s -> nn (fst (do_Me s)) /\ snd (do_Me s) <> None.
Proof.
  unfold nn, do_Me. destruct (c_st s) as [t|]; cbn; intros H; split; try discriminate; exact H.
Qed.

Lemma do_Me_st s : c_st (fst (do_Me s)) = c_st s.
Proof. unfold do_Me. destruct (c_st s) eqn:E; cbn; [reflexivity|exact E]. Qed.

Lemma do_Me_cfg s : cfg_me (fst (do_Me s)) = snd (do_Me s).
Proof. unfold do_Me. destruct (c_st s); reflexivity. Qed.

Lemma me_nick_of_do_Me s : me_nick_of (fst (do_Me s)) = me_nick_of s.
Proof. unfold me_nick_of, do_Me. destruct (c_st s) eqn:E; cbn; try rewrite E; reflexivity. Qed.

Lemma renick_keep_nn s t old neu : nn s -> nn (renick_keep s t old neu).
Proof.
  unfold nn, renick_keep. destruct (tk_ReNick t old neu) as [t' [r|]]; cbn; [discriminate|auto].
Qed.

Section WithGen.
  Variable new_nick : bytes -> bytes.
  Notation h_001 := (h_001 ).
  Notation h_433 := (h_433 new_nick).
  Notation handle := (handle new_nick).
  Notation client_step := (client_step new_nick).
  Notation client_run := (client_run new_nick).

  Lemma h_001_nn s l : nn s -> nn (ho_st (h_001 s l)).
  Proof.
    intros H. unfold NickHandlers.h_001, h_001_with.
    destruct (do_Me s) as [s1 me] eqn:E.
    pose proof (do_Me_nn s H) as [H1 H2]. rewrite E in H1, H2. cbn [fst snd] in H1, H2.
    destruct (welcome_pre l) as [[nick uh]|]; [|exact H1].
    destruct me as [m|]; [|exact H1].
    destruct (c_st s1) as [t|].
    - cbn [ho_st done]. apply renick_keep_nn, H1.
    - destruct (cfg_me s1) as [c|]; [|exact H1]. cbn. discriminate.
  Qed.

  Lemma h_433_nn s l : nn s -> nn (ho_st (h_433 s l)).
  Proof.
    intros H. unfold NickHandlers.h_433, h_433_with.
    destruct (do_Me s) as [s1 me] eqn:E.
    pose proof (do_Me_nn s H) as [H1 H2]. rewrite E in H1, H2. cbn [fst snd] in H1, H2.
    destruct (elem_at (l_args l) 1) as [refused|]; [|exact H1].
    destruct (negb (argslen l 1)); [exact H1|].
    destruct me as [m|]; [|exact H1].
    destruct (beq refused (nk_nick m)); [|exact H1].
    destruct (c_st s1) as [t|].
    - cbn [ho_st done]. apply renick_keep_nn, H1.
    - destruct (cfg_me s1) as [c|]; [|exact H1]. cbn. discriminate.
  Qed.

  Lemma h_NICK_nn s l : nn s -> nn (ho_st (h_NICK s l)).
  Proof.
    intros H. unfold h_NICK. destruct (c_st s); [exact H|].
    destruct (cfg_me s) as [c|] eqn:E; [|exact H].
    destruct (beq (l_nick l) (nk_nick c)); [|exact H].
    destruct (elem_at (l_args l) 0); [cbn; discriminate|exact H].
  Qed.

  Lemma h_STNICK_nn s l : nn s -> nn (ho_st (h_STNICK s l)).
  Proof.
    intros H. unfold h_STNICK. destruct (elem_at (l_args l) 0); [|exact H].
    destruct (c_st s); exact H.
  Qed.

  Lemma handle_nn s l : nn s -> nn (ho_st (handle s l)).
  Proof.
    intros H. unfold NickHandlers.handle, handle_with.
    destruct (beq (l_cmd l) c_001); [apply h_001_nn, H|].
    destruct (beq (l_cmd l) c_433); [apply h_433_nn, H|].
    destruct (beq (l_cmd l) c_NICK); [|exact H].
    destruct (c_st s); [|apply h_NICK_nn, H].
    unfold seq_h. cbn [ho_st]. apply h_STNICK_nn, h_NICK_nn, H.
  Qed.

  Lemma client_step_nn s i : nn s -> nn (ho_st (client_step s i)).
  Proof.
    intros H. destruct i as [raw| |n|n|n]; unfold NickHandlers.client_step, client_step_with.
    - destruct (recv_one raw) as [[l|]|]; [apply handle_nn, H|exact H|exact H].
    - apply do_Me_nn, H.
    - exact H.
    - destruct (c_st s); exact H.
    - destruct (c_st s); exact H.
  Qed.

  Lemma client_run_nn is : forall s, nn s -> nn (client_run s is).
  Proof.
    induction is as [|i is IH]; intros s H; [exact H|].
    cbn [NickHandlers.client_run client_run_with]. apply IH, client_step_nn, H.
  Qed.

  Lemma client0_nn track nick ident name : nn (client0 track nick ident name).
  Proof.
    unfold client0, client_init, nn.
    destruct track; [|cbn; discriminate].
    unfold enable_tracking. cbn [c_st cfg_me]. cbn. discriminate.
  Qed.

  (* C17_never_nil: for ANY input sequence (any server lines, any user/tracker actions) *)
  Theorem never_nil track nick ident name is :
    let s := client_run (client0 track nick ident name) is in
    cfg_me s <> None /\ snd (do_Me s) <> None.
  Proof.
    cbv zeta. pose proof (client_run_nn is _ (client0_nn track nick ident name)) as H.
    split; [exact H|apply do_Me_nn, H].
  Qed.
End WithGen.

(* ================= the tracker part ================= *)
Definition others_of (s : cstate) : list bytes :=
  match c_st s with Some t => map nk_nick (tr_others t) | None => [] end.
Definition tracking (s : cstate) : bool := match c_st s with Some _ => true | None => false end.

Lemma existsb_has_nick n l : existsb (has_nick n) l = true <-> In n (map nk_nick l).
Proof.
  rewrite existsb_exists, in_map_iff. unfold has_nick. split.
  - intros (r & Hr & E). apply beq_eq in E. eauto.
  - intros (r & E & Hr). exists r. rewrite beq_eq. auto.
Qed.

Lemma tk_tracked_spec t n :
  tk_tracked t n = true <-> nk_nick (tr_me t) = n \/ In n (map nk_nick (tr_others t)).
Proof. unfold tk_tracked. rewrite orb_true_iff, beq_eq, existsb_has_nick. tauto. Qed.

Lemma tk_tracked_me t : tk_tracked t (nk_nick (tr_me t)) = true.
Proof. apply tk_tracked_spec. now left. Qed.

Lemma tk_tracked_false t n :
  nk_nick (tr_me t) <> n -> ~ In n (map nk_nick (tr_others t)) -> tk_tracked t n = false.
Proof.
  intros H1 H2. destruct (tk_tracked t n) eqn:E; [|reflexivity].
  apply tk_tracked_spec in E. tauto.
Qed.

Lemma tk_ReNick_me t neu :
  tk_ReNick t (nk_nick (tr_me t)) neu =
  if tk_tracked t neu then (t, None)
  else ({| tr_me := set_nick (tr_me t) neu; tr_others := tr_others t |}, Some (set_nick (tr_me t) neu)).
Proof.
  unfold tk_ReNick. rewrite tk_tracked_me. cbn [negb].
  destruct (tk_tracked t neu); [reflexivity|]. now rewrite beq_refl.
Qed.

Lemma tk_NickInfo_me t i h n :
  tk_NickInfo t (nk_nick (tr_me t)) i h n =
  ({| tr_me := set_info (tr_me t) i h n; tr_others := tr_others t |}, Some (set_info (tr_me t) i h n)).
Proof. unfold tk_NickInfo. now rewrite beq_refl. Qed.

Definition rename (a b o : bytes) : bytes := if beq o a then b else o.

Lemma map_rename_notin a b l : ~ In a l -> map (rename a b) l = l.
Proof.
  induction l as [|x l IH]; intros H; [reflexivity|]. cbn [map]. unfold rename at 1.
  destruct (beq x a) eqn:E.
  - apply beq_eq in E. subst. exfalso. apply H. now left.
  - rewrite IH; [reflexivity|]. intros Hin. apply H. now right.
Qed.

Lemma find_has_nick_some a l : In a (map nk_nick l) -> exists r, find (has_nick a) l = Some r.
Proof.
  intros H. apply existsb_has_nick in H. destruct (find (has_nick a) l) eqn:E; [eauto|].
  apply existsb_exists in H as (r & Hr & Hn). pose proof (find_none _ _ E r Hr) as F. congruence.
Qed.

(* renaming another user *)
Lemma tk_ReNick_other t a b :
  nk_nick (tr_me t) <> a -> nk_nick (tr_me t) <> b -> ~ In b (map nk_nick (tr_others t)) ->
  tr_me (fst (tk_ReNick t a b)) = tr_me t /\
  map nk_nick (tr_others (fst (tk_ReNick t a b))) = map (rename a b) (map nk_nick (tr_others t)).
Proof.
  intros Ha Hb Hbo. unfold tk_ReNick.
  destruct (tk_tracked t a) eqn:Ta; cbn [negb].
  - rewrite (tk_tracked_false t b Hb Hbo).
    apply beq_neq in Ha. rewrite Ha.
    apply tk_tracked_spec in Ta as [Ta|Ta]; [apply beq_neq in Ha; contradiction|].
    destruct (find_has_nick_some a _ Ta) as (r & ->). cbn [fst tr_me tr_others]. split; [reflexivity|].
    rewrite !map_map. apply map_ext. intros x. unfold rename, has_nick.
    destruct (beq (nk_nick x) a); reflexivity.
  - cbn [fst]. split; [reflexivity|]. rewrite map_rename_notin; [reflexivity|].
    intros Hin. assert (tk_tracked t a = true) by (apply tk_tracked_spec; now right). congruence.
Qed.

Lemma tk_NewNick_facts t a :
  tr_me (fst (tk_NewNick t a)) = tr_me t /\
  incl (map nk_nick (tr_others (fst (tk_NewNick t a)))) (a :: map nk_nick (tr_others t)).
Proof.
  unfold tk_NewNick. destruct (beq a []); [split; [reflexivity|apply incl_tl, incl_refl]|].
  destruct (tk_tracked t a); [split; [reflexivity|apply incl_tl, incl_refl]|].
  cbn [fst tr_me tr_others]. split; [reflexivity|]. rewrite map_app. cbn [map bare_nick nk_nick].
  intros x Hx. apply in_app_iff in Hx as [Hx|[<-|[]]]; [now right|now left].
Qed.

Lemma tk_DelNick_facts t a :
  tr_me (fst (tk_DelNick t a)) = tr_me t /\
  incl (map nk_nick (tr_others (fst (tk_DelNick t a)))) (map nk_nick (tr_others t)).
Proof.
  unfold tk_DelNick. destruct (beq (nk_nick (tr_me t)) a); [split; [reflexivity|apply incl_refl]|].
  destruct (find (has_nick a) (tr_others t)); [|split; [reflexivity|apply incl_refl]].
  cbn [fst tr_me tr_others]. split; [reflexivity|].
  intros x Hx. apply in_map_iff in Hx as (r & <- & Hr). apply filter_In in Hr as [Hr _].
  now apply in_map.
Qed.

(* ================= handlers on lines of a known shape ================= *)
Lemma welcome_pre_ok l nick : target l = Ok nick -> exists uh, welcome_pre l = Ok (nick, uh).
Proof.
  intros Ht. unfold welcome_pre. rewrite Ht. cbn [bind].
  destruct (text l) as [t|] eqn:Et; [|exfalso; exact (text_total l Et)]. cbn [bind].
  assert (Hs : exists t', (if negb (last_index t s_space =? -1) then slice_from t (last_index t s_space + 1) else Ok t) = Ok t').
  { destruct (negb (last_index t s_space =? -1)) eqn:E; [|eauto].
    pose proof (last_index_range t s_space) as Hr. change (len s_space) with 1 in Hr.
    rewrite slice_from_ok by lia. eauto. }
  destruct Hs as (t' & ->). cbn [bind].
  destruct (parse_user_host t') as [uh|] eqn:Eu; [|exfalso; exact (parse_user_host_total_ascii t' Eu)].
  cbn [bind]. eauto.
Qed.

Section WithGen2.
  Variable new_nick : bytes -> bytes.
  Notation h_433 := (h_433 new_nick).
  Notation handle := (handle new_nick).

  (* ---------- 001 ---------- *)
  Lemma h_001_spec s l nick : nn s -> target l = Ok nick -> ~ In nick (others_of s) ->
    let o := h_001 s l in
    ho_panic o = false /\ ho_out o = [] /\ nn (ho_st o) /\ others_of (ho_st o) = others_of s
    /\ tracking (ho_st o) = tracking s /\ me_nick_of (ho_st o) = Some nick.
  Proof.
    intros Hn Ht Ho. cbv zeta. unfold h_001, h_001_with.
    destruct (welcome_pre_ok l nick Ht) as (uh & ->).
    unfold do_Me, others_of, tracking, me_nick_of in *. unfold nn in *.
    destruct (c_st s) as [t|] eqn:Est.
    - cbn [tk_Me c_st cfg_me].
      set (t1 := match uh with Some (_, i, h) => fst (tk_NickInfo t (nk_nick (tr_me t)) i h (nk_name (tr_me t))) | None => t end).
      assert (Ht1 : tr_others t1 = tr_others t /\ nk_nick (tr_me t1) = nk_nick (tr_me t)).
      { subst t1. destruct uh as [[[? i] h]|]; [|tauto]. rewrite tk_NickInfo_me. cbn. tauto. }
      destruct Ht1 as [Ho1 Hm1].
      unfold renick_keep. rewrite <- Hm1, tk_ReNick_me.
      destruct (tk_tracked t1 nick) eqn:Tr.
      + apply tk_tracked_spec in Tr as [Tr|Tr]; [|rewrite Ho1 in Tr; contradiction].
        cbn. rewrite Ho1, Tr. repeat split; try reflexivity; discriminate.
      + cbn. rewrite Ho1. repeat split; try reflexivity; discriminate.
    - destruct (cfg_me s) as [c|] eqn:Ec; [|contradiction]. cbn [c_st cfg_me].
      rewrite ?Est, ?Ec. cbn. destruct uh as [[[? i] h]|]; cbn; repeat split; try reflexivity; discriminate.
  Qed.

  (* ---------- 433 with at least two arguments ---------- *)
  Lemma h_433_spec s l a0 r rest : nn s -> l_args l = a0 :: r :: rest ->
    let o := h_433 s l in
    ho_panic o = false /\ ho_out o = nick_lines (new_nick r) /\ nn (ho_st o)
    /\ others_of (ho_st o) = others_of s /\ tracking (ho_st o) = tracking s
    /\ me_nick_of (ho_st o) =
       (if opt_beq' (me_nick_of s) (Some r)
           && match c_st s with Some t => negb (tk_tracked t (new_nick r)) | None => true end
        then Some (new_nick r) else me_nick_of s).
  Proof.
    intros Hn Ha. cbv zeta. unfold NickHandlers.h_433, h_433_with.
    assert (Hal : argslen l 1 = true).
    { unfold argslen. rewrite Ha. unfold llen. cbn [length]. destruct (Z.of_nat (S (S (length rest))) <=? 1) eqn:E; [lia|reflexivity]. }
    rewrite Ha, !elem_at_1, Hal. cbn [negb].
    unfold do_Me, others_of, tracking, me_nick_of in *. unfold nn in *.
    destruct (c_st s) as [t|] eqn:Est.
    - cbn [tk_Me c_st cfg_me snd option_map opt_beq'].
      rewrite (beq_sym r). destruct (beq (nk_nick (tr_me t)) r) eqn:E; cbn [andb].
      + unfold renick_keep. rewrite tk_ReNick_me.
        destruct (tk_tracked t (new_nick r)); cbn; repeat split; try reflexivity; discriminate.
      + cbn. repeat split; try reflexivity; discriminate.
    - destruct (cfg_me s) as [c|] eqn:Ec; [|contradiction]. cbn [c_st cfg_me snd option_map opt_beq'].
      rewrite Ec. cbn [option_map opt_beq']. rewrite (beq_sym r).
      destruct (beq (nk_nick c) r) eqn:E; cbn; rewrite ?Ec; repeat split; try reflexivity; try discriminate; congruence.
  Qed.

  (* a 433 with fewer than two arguments: the handler panics at line.Args[1], before anything
     is sent; only the assignment made by conn.Me() has happened *)
  Lemma h_433_short s l : llen (l_args l) < 2 ->
    h_433 s l = panic (fst (do_Me s)) [].
  Proof.
    intros H. unfold NickHandlers.h_433, h_433_with. destruct (do_Me s) as [s1 me].
    assert (E : elem_at (l_args l) 1 = Panic).
    { unfold elem_at. fold (llen (l_args l)). destruct ((0 <=? 1) && (1 <? llen (l_args l))) eqn:E; [lia|reflexivity]. }
    rewrite E. reflexivity.
  Qed.

  (* ---------- NICK ---------- *)
  (* the client's own nick changes (confirmed request or forced by the server) *)
  Lemma nick_self_spec s l cur x : nn s -> l_cmd l = c_NICK -> l_nick l = cur -> l_args l = [x] ->
    me_nick_of s = Some cur -> x <> cur -> ~ In x (others_of s) ->
    let o := handle s l in
    ho_out o = [] /\ nn (ho_st o) /\ others_of (ho_st o) = others_of s
    /\ tracking (ho_st o) = tracking s /\ me_nick_of (ho_st o) = Some x.
  Proof.
    intros Hn Hc Hk Ha Hm Hx Ho. cbv zeta. unfold NickHandlers.handle, handle_with. rewrite Hc. cbn [beq c_NICK c_001 c_433 N.eqb Pos.eqb andb].
    change (beq c_NICK c_NICK) with true. cbv iota.
    unfold others_of, tracking, me_nick_of, do_Me, nn in *.
    destruct (c_st s) as [t|] eqn:Est.
    - unfold seq_h, h_NICK, h_STNICK. rewrite Est. cbn [ho_st done ho_out app]. rewrite Ha, elem_at_0, Est, Hk.
      cbn [snd tk_Me option_map] in Hm. injection Hm as Hm. rewrite <- Hm, tk_ReNick_me.
      rewrite tk_tracked_false; [|rewrite Hm; congruence|exact Ho].
      cbn. repeat split; try reflexivity. exact Hn.
    - unfold h_NICK. rewrite Est. destruct (cfg_me s) as [c|] eqn:Ec; [|contradiction].
      cbn [snd option_map] in Hm. injection Hm as Hm. rewrite Hk, Hm, beq_refl, Ha, elem_at_0.
      cbn. repeat split; try reflexivity; discriminate.
  Qed.

  (* another user's nick changes *)
  Lemma nick_other_spec s l cur a b : nn s -> l_cmd l = c_NICK -> l_nick l = a -> l_args l = [b] ->
    me_nick_of s = Some cur -> a <> cur -> b <> cur -> ~ In b (others_of s) ->
    let o := handle s l in
    ho_out o = [] /\ nn (ho_st o) /\ others_of (ho_st o) = map (rename a b) (others_of s)
    /\ tracking (ho_st o) = tracking s /\ me_nick_of (ho_st o) = Some cur.
  Proof.
    intros Hn Hc Hk Ha Hm Hac Hbc Ho. cbv zeta. unfold NickHandlers.handle, handle_with. rewrite Hc.
    change (beq c_NICK c_001) with false. change (beq c_NICK c_433) with false. change (beq c_NICK c_NICK) with true. cbv iota.
    unfold others_of, tracking, me_nick_of, do_Me, nn in *.
    destruct (c_st s) as [t|] eqn:Est.
    - unfold seq_h, h_NICK, h_STNICK. rewrite Est. cbn [ho_st done ho_out app]. rewrite Ha, elem_at_0, Est, Hk.
      cbn [snd tk_Me option_map] in Hm. injection Hm as Hm.
      destruct (tk_ReNick_other t a b) as [H1 H2]; [congruence|congruence|exact Ho|].
      cbn [ho_st done ho_out c_st cfg_me snd tk_Me option_map]. rewrite H1, H2, Hm. repeat split; try reflexivity. exact Hn.
    - unfold h_NICK. rewrite Est. destruct (cfg_me s) as [c|] eqn:Ec; [|contradiction].
      cbn [snd option_map] in Hm. injection Hm as Hm. rewrite Hk.
      assert (E : beq a (nk_nick c) = false) by (apply beq_neq; congruence). rewrite E.
      cbn. rewrite Est, Ec. cbn. repeat split; try reflexivity; try discriminate. now rewrite Hm.
  Qed.

  (* lines the nick handlers do not look at *)
  Lemma handle_noise s l : nick_cmd (l_cmd l) = false -> handle s l = done s [].
  Proof.
    unfold nick_cmd. intros H. apply orb_false_iff in H as [H H3]. apply orb_false_iff in H as [H1 H2].
    unfold NickHandlers.handle, handle_with. now rewrite H1, H2, H3.
  Qed.

  (* h_NICK and h_STNICK commute (they are started in parallel): while tracking h_NICK does nothing *)
  Lemma nick_handlers_commute s l t : c_st s = Some t ->
    ho_st (seq_h h_NICK h_STNICK s l) = ho_st (seq_h h_STNICK h_NICK s l)
    /\ ho_out (seq_h h_NICK h_STNICK s l) = ho_out (seq_h h_STNICK h_NICK s l).
  Proof.
    intros Hs. unfold seq_h, h_NICK, h_STNICK. rewrite Hs. cbn [ho_st done ho_out].
    destruct (elem_at (l_args l) 0); cbn; rewrite ?Hs; cbn; split; reflexivity.
  Qed.
End WithGen2.
