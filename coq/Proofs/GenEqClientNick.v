(* Proofs/GenEqClientNick.v — stage 4: the generated h_001 / h_433 (Gen/GoFuncs.v), with tracking ON,
   are the composed client model's GENERIC handlers Client.g_001 / g_433 (Model/Client.v), for
   EVERY state type T and every Tracker record whose Me / NickInfo / ReNick are the functions the
   generic handlers are instantiated with (Me_ must leave the state alone, as st.Me() does; of
   NickInfo only the new state matters: the handlers drop its result).  Same statement shape as
   for the NickHandlers instances: Panic exactly when the model panics, else the model's state
   (and lines).  Client.v is on the std++ side: Required, not Imported. *)
From Verif Require Import GoBytes LineLib GoBytesFacts Line Split Commands NewNick NickHandlers.
From Verif Require Import GoFuncs GenEqTac GenEqLine GenEqCmd GenEqHandlers.
From Verif Require Client.
Open Scope Z_scope.

Section Generic.
  Context {T : Type}.
  Variable trk : @go_state_Tracker unit unit T.
  Variable Me_ : T -> option nickrec.
  Variable NickInfo_ : T -> bytes -> bytes -> bytes -> bytes -> T.
  Variable ReNick_ : T -> bytes -> bytes -> T * option nickrec.
  Variable new_nick : bytes -> bytes.
  Hypothesis HMe : forall t, go_state_Tracker_Me trk t = (t, onick (Me_ t)).
  Hypothesis HInfo : forall t a b c d, fst (go_state_Tracker_NickInfo trk t a b c d) = NickInfo_ t a b c d.
  Hypothesis HReNick : forall t a b,
    go_state_Tracker_ReNick trk t a b = (fst (ReNick_ t a b), onick (snd (ReNick_ t a b))).

  Definition of_gout (r : Client.gout T) : res (option (@go_state_Nick unit) * option T) :=
    if Client.go_panic r then Panic
    else Ok (onick (Client.g_me (Client.go_st r)), Some (Client.g_trk (Client.go_st r))).
  Definition of_gout_out (r : Client.gout T) : res (option (@go_state_Nick unit) * option T * list bytes) :=
    if Client.go_panic r then Panic
    else Ok (onick (Client.g_me (Client.go_st r)), Some (Client.g_trk (Client.go_st r)), Client.go_out r).

  Lemma go_Me_generic me t :
    go_client_Conn_Me trk me (Some t) = Ok (onick (Me_ t), Some t, onick (Me_ t)).
  Proof. go_unfold @go_client_Conn_Me. cbn [go_is_some bind]. rewrite HMe. reflexivity. Qed.

  Ltac g_crunch :=
    repeat first
      [ progress cbn [bind fst snd negb go_is_some onick option_map nick_tuple
                      nk_nick nk_ident nk_host nk_name
                      go_state_Nick_get_Nick go_state_Nick_get_Name user_host_results
                      Client.go_panic Client.go_st Client.g_me Client.g_trk Client.go_out
                      Client.gdone Client.gpanic]
      | rewrite HReNick
      | match goal with
        | |- context [go_state_Tracker_NickInfo trk ?a ?b ?c ?d ?e] =>
            let E := fresh "E" in
            destruct (go_state_Tracker_NickInfo trk a b c d e) as [? ?] eqn:E;
            apply (f_equal fst) in E; rewrite HInfo in E; cbn [fst] in E; subst
        | |- context [ReNick_ ?a ?b ?c] => destruct (ReNick_ a b c) as [? [?|]] eqn:?
        end
      | hd_case ];
    try reflexivity; try congruence.

  Lemma go_h_001_generic s l :
    go_client_Conn_h_001 trk (onick (Client.g_me s)) (Some (Client.g_trk s)) (l_args l) (l_cmd l) (l_nick l)
    = of_gout (Client.g_001 Me_ NickInfo_ ReNick_ s l).
  Proof.
    go_unfold @go_client_Conn_h_001. rewrite go_Me_generic. cbn [bind]. cbv beta iota zeta.
    rewrite go_Line_Target_eq, go_Line_Text_eq.
    unfold Client.g_001, Client.g_do_Me, Client.g_renick, welcome_pre, of_gout, s_space.
    cbn [fst snd Client.g_trk Client.g_me].
    destruct (target l) as [nick|]; [|reflexivity]. cbn [bind].
    destruct (text l) as [t|]; [|reflexivity]. cbn [bind]. cbv zeta.
    destruct (negb (last_index t [32%N] =? -1));
      [destruct (slice_from t (last_index t [32%N] + 1)) as [t'|]; [|reflexivity]|];
      cbn [bind]; rewrite go_parseUserHost_eq; unfold parse_user_host;
      (destruct (parse_user_host_with trim_space _) as [[[[? ?] ?]|]|]; [| |reflexivity]);
      destruct (Me_ (Client.g_trk s)) as [[n i h nm]|]; timeout 60 g_crunch.
  Qed.

  Lemma go_h_433_generic s l :
    go_client_Conn_h_433 trk (onick (Client.g_me s)) new_nick (Some (Client.g_trk s)) (l_args l)
    = of_gout_out (Client.g_433 Me_ ReNick_ new_nick s l).
  Proof.
    go_unfold @go_client_Conn_h_433. rewrite go_Me_generic. cbn [bind]. cbv beta iota zeta.
    unfold Client.g_433, Client.g_do_Me, Client.g_renick, of_gout_out, nick_lines, argslen.
    cbn [fst snd Client.g_trk Client.g_me].
    destruct (elem_at (l_args l) 1) as [a1|]; [|reflexivity]. cbn [bind].
    rewrite (go_Nick_eq {| cc_split_len := 0; cc_quit_message := [] |}).
    go_unfold go_client_Line_argslen.
    destruct (emit to_upper MNick _ _) as [ls|] eqn:Hemit; [|unfold emit in Hemit; discriminate].
    cbn [bind app].
    destruct (llen (l_args l) <=? 1); cbn [bind negb];
      destruct (Me_ (Client.g_trk s)) as [[n i h nm]|]; timeout 60 g_crunch.
  Qed.
End Generic.
