(* Proofs/LifecycleInvD.v — preservation of the per-thread part [tinv] of the lifecycle
   invariant: what every thread knows at its program point survives every step of every
   thread (continuation of LifecycleInvC.v). *)
From Coq Require Import List Arith Bool Lia.
From Verif Require Import Lts LifecycleLts LifecycleBase LifecycleInv LifecycleInvB LifecycleInvC.
Import ListNotations.

(* an event logged by ANOTHER thread that cannot invalidate what thread t' knows at pc p *)
Definition ev_safe (t' : Thr) (p : pc) (e : Ev) : Prop :=
  conn_ev_of t' e = false /\
  match e with
  | EReg g => forall ck inh ret, p <> PConn (K4 g) ck inh ret /\ p <> PConn (K5 g) ck inh ret
  | EConnRet _ (Some g) => forall ck inh ret, p <> PConn (K6 g) ck inh ret /\ p <> PConn (K7 g) ck inh ret
  | EDisc g => forall c id ret, p = PClose c id ret -> cgen c = Some g -> pre_disc c = false
  | EEstab _ _ => forall ck inh ret, p <> PConn K3 ck inh ret
  | _ => True
  end.

Lemma tinv_log s t' p e : tinv s t' p -> ev_safe t' p e -> tinv (log e s) t' p.
Proof.
  intros (Hwf & Hm & Hk & Hc & Hg) (Hce & Hs). unfold tinv.
  split; [exact Hwf|]. split; [exact Hm|]. split; [|split].
  - unfold kinv in *. destruct p; auto. destruct k; hsimpl; rewrite ?Hce; auto;
      repeat match goal with H : _ /\ _ |- _ => destruct H end; repeat split; auto;
      (intros [X|X]; [auto|]; destruct e; try contradiction; try (destruct r; try contradiction);
       first [eapply Hs; reflexivity
             |destruct X as [->|[]];
              first [eapply (proj1 (Hs _ _ _)); reflexivity|eapply (proj2 (Hs _ _ _)); reflexivity]]).
  - unfold cinv in *. destruct p; auto. destruct Hc as (A & B & C). split; [|split; [exact B|exact C]].
    intros g Hg'. destruct (A g Hg') as [A1 A2]. hsimpl. split; [auto|].
    destruct (pre_disc c) eqn:Hp; cbv iota in A2 |- *; rewrite in_app_iff; [|auto].
    intros [A'|A']; [auto|]. destruct e; try contradiction. destruct A' as [->|[]].
    specialize (Hs _ _ _ eq_refl Hg'). congruence.
  - intros g Hg' Hn. hsimpl. left. auto.
Qed.

(* wg.Done by somebody else: whoever knows wg = 0 still does *)
Lemma tinv_wg_pred s t' p : tinv s t' p -> tinv (set_wg (pred (wg s)) s) t' p.
Proof.
  intros (Hwf & Hm & Hk & Hc & Hg). unfold tinv.
  split; [exact Hwf|]. split; [exact Hm|]. split; [|split; [|exact Hg]].
  - unfold kinv in *. destruct p; auto. destruct k; psimpl; auto.
    + destruct Hk as (A & B & C). rewrite C. auto.
    + destruct Hk as (A & B & C & D). rewrite C. auto.
  - unfold cinv in *. destruct p; auto. destruct Hc as (A & B & C). split; [exact A|split; [exact B|]].
    destruct c; auto. psimpl. rewrite C. reflexivity.
Qed.

(* the context is cancelled / the server closes: flags only ever become true *)
Lemma tinv_cancel s t' p g : tinv s t' p -> tinv (set_cancelled (updf (cancelled s) g true) s) t' p.
Proof.
  intros (Hwf & Hm & Hk & Hc & Hg). unfold tinv.
  split; [exact Hwf|]. split; [exact Hm|]. split; [exact Hk|split; [|exact Hg]].
  unfold cinv in *. destruct p; auto. destruct Hc as (A & B & C). split; [exact A|split; [|exact C]].
  intros g0 Hg0. destruct (B g0 Hg0) as (B1 & B2 & B3 & B4). psimpl. repeat split; auto.
  unfold updf. destruct (Nat.eqb g0 g); auto.
Qed.

(* conn.mu changes hands: threads that do not hold it are not concerned *)
Lemma tinv_set_mu s t' p m : holds p = false -> tinv s t' p -> tinv (set_mu m s) t' p.
Proof. intros Hh Ht. apply (tinv_nonholder s); auto. Qed.

Lemma tinv_setpc s t' p ta q : tinv s t' p -> tinv (setpc ta q s) t' p.
Proof. intros H. exact H. Qed.

Section Steps.
  Variables (hm : nat) (hl : bool).
  Notation step := (fstep hm hl).

  Ltac begin Hinv H :=
    match type of H with step _ (?t, _) = _ => facts Hinv t end;
    step_inv H; try use_Ht; hsimpl.

  Ltac nonholder Hinv :=
    match goal with
    | |- holds (pcs ?s0 ?t') = false =>
        let Hh := fresh in
        destruct (holds (pcs s0 t')) eqn:Hh; [|reflexivity]; exfalso;
        apply (holder_is _ _ Hinv) in Hh; congruence
    end.

  Ltac evsafe Hinv Ho :=
    split;
    [cbn [conn_ev_of]; try reflexivity;
     match goal with |- thr_eqb ?a ?b = false => destruct (thr_eqb_spec a b); [congruence|reflexivity] end
    |try exact I;
     try (intros ck0 inh0 ret0; split; intros Heq; rewrite Heq in Ho;
          destruct Ho as (_ & _ & Hk0 & _); cbn [kinv] in Hk0;
          match goal with
          | Hn : ?t' <> ?ta |- _ =>
              apply Hn; eapply (estab_same _ _ _ _ Hinv); [apply Hk0|]; intuition eauto
          end);
     try (intros c0 id0 ret0 Heq Hcg; exfalso; rewrite Heq in Ho;
          destruct Ho as (_ & _ & _ & Hc0 & _); cbn [cinv] in Hc0; destruct Hc0 as (Hc0 & _);
          destruct (Hc0 _ Hcg) as [Hc0' _];
          match goal with
          | Hn : ?t' <> ?ta |- _ => apply Hn; eapply (closer_same _ _ _ _ Hinv); eauto
          end);
     try (intros ck0 inh0 ret0 Heq;
          match goal with
          | Hn : ?t' <> ?ta |- _ =>
              apply Hn; assert (mu _ = Some t') by (apply (holder_is _ _ Hinv); rewrite Heq; reflexivity); congruence
          end)].

  Ltac other_tac Hinv Ho :=
    rewrite updt_other by assumption;
    first [exact Ho
          |apply tinv_wg_pred; exact Ho
          |apply tinv_set_mu; [nonholder Hinv|exact Ho]
          |eapply tinv_nonholder; [| |exact Ho]; [nonholder Hinv|reflexivity]
          |apply tinv_log;
           [first [exact Ho
                  |apply tinv_cancel; exact Ho
                  |apply tinv_set_mu; [nonholder Hinv|exact Ho]
                  |eapply tinv_nonholder; [| |exact Ho]; [nonholder Hinv|reflexivity]]
           |evsafe Hinv Ho]].

  Lemma step_t s tid s' : Inv s -> step s tid = Some s' -> forall t', tinv s' t' (pcs s' t').
  Proof.
    intros Hinv H t'. destruct tid as [t ch]. pose proof (i_t _ Hinv t') as Ho.
    pose proof (i_ests _ Hinv) as Hests. pose proof (i_rets _ Hinv) as Hrets.
    pose proof (i_discs _ Hinv) as Hdiscs. pose proof (i_regs _ Hinv) as Hregs.
    begin Hinv H.
    1,2: apply tinv_log; [first [exact Ho|apply tinv_cancel; exact Ho]|split; [reflexivity|exact I]].
    all: try (match goal with
              | E : pcs ?s0 ?ta = _ |- tinv _ _ (updt (pcs ?s0) ?ta _ _) =>
                  destruct (thr_eqb_spec t' ta) as [->|Hne]; [rewrite updt_same|other_tac Hinv Ho]
              end).
    (* rw := conn.io at the start of recv / runLoop / send: still the own generation *)
    all: try (match goal with
              | E : pcs ?s0 (?X ?g0) = _ |- tinv _ (?X ?g0) _ =>
                  assert (g0 = cur s0)
                    by (apply (counted_cur s0 (X g0) g0 Hinv); [unfold in4; auto|rewrite E; reflexivity])
              end).
    all: try (match goal with
              | |- tinv _ ?ta ?p =>
                  lazymatch p with updt _ _ _ _ => fail | pcs _ _ => fail | _ => idtac end;
                  is_var ta; destruct ta; cbn [wf_pc close_wf gthr] in *; try contradiction
              end).
    all: try (match goal with
              | |- tinv _ _ (fin_pc ?i ?r) => unfold fin_pc, after in *; try (is_var i; destruct i); try (is_var r; destruct r)
              | |- tinv _ _ (after ?r) => unfold fin_pc, after in *; try (is_var r; destruct r)
              end).
    all: try (match goal with |- tinv _ _ ?p => lazymatch p with updt _ _ _ _ => fail | _ => idtac end end;
              unfold tinv; unfold close_wf in *; try (specialize (Hgt _ eq_refl));
              cbn [wf_pc holds kinv cinv close_wf cgen pre_disc td_pc gthr]; hsimpl;
              rewrite ?thr_eqb_refl; cbn [is_call is_estab]; rewrite ?Nat.eqb_refl;
              repeat split; auto; try discriminate; try congruence; intros; cbn [cgen] in *;
              try (match goal with
                   | E1 : pcs ?s0 (Waiter (cur ?s0)) = PDone |- wg ?s0 = 0 =>
                       destruct (i_wd _ Hinv _ E1) as [_ Hw0]; rewrite (i_wg _ Hinv); exact Hw0
                   end);
              repeat match goal with
                     | Hx : Some _ = Some _ |- _ => injection Hx as Hx; try subst
                     | Hx : None = Some _ |- _ => discriminate Hx
                     | Hx : _ /\ _ |- _ => destruct Hx
                     end;
              try (apply Hgt; [reflexivity|discriminate]; fail);
              try (apply Hgt; discriminate);
              rewrite ?updf_same; try reflexivity;
              try (apply in_or_app; right; left; reflexivity);
              try (subst; match goal with Hx : negb (?a =? ?b) = false |- _ => apply negb_false_iff, Nat.eqb_eq in Hx; congruence end);
              try (intros Hd; apply (i_discs _ Hinv) in Hd; apply (i_tds _ Hinv) in Hd; destruct Hd as [_ Hd];
                   destruct (Hconn ltac:(assumption)) as [Hcn _]; specialize (Hd Hcn); congruence);
              intuition (subst; eauto with lc; try discriminate; try congruence; try lia)).
    all: try (match goal with Hx : In (S (nq ?s0)) (ests _) |- _ => apply Hests in Hx; lia end).
    all: try (match goal with
              | E : pcs ?s0 ?ta = PConn K1 _ _ _ |- wg ?s0 = 0 =>
                  destruct (Nat.eq_dec (wg s0) 0) as [|Hnz]; [assumption|exfalso];
                  destruct (i_wgl _ Hinv ltac:(lia)) as [Hcn|(t0 & Hm0 & Htd0)];
                  [congruence|assert (t0 = ta) by congruence; subst; rewrite E in Htd0; discriminate]
              end).
    all: try (apply in_or_app; left; assumption).
    all: try (match goal with
              | E1 : pcs ?s0 (Waiter ?g1) = PDone |- wg ?s0 = 0 =>
                  destruct (i_wd _ Hinv _ E1) as [_ Hw0]; rewrite (i_wg _ Hinv);
                  replace (cur s0) with g1 by congruence; exact Hw0
              end).
    all: try (match goal with Hx : negb (?a =? ?b) = false |- _ => apply negb_false_iff, Nat.eqb_eq in Hx; congruence end).
    (* C2: the closer spawns its waiter *)
    1: { assert (Hnw : t <> Waiter g) by (intros ->; cbn in Hwf; exact Hwf).
         destruct (thr_eqb_spec t' t) as [->|Hne].
         - rewrite updt_same. destruct (i_t _ Hinv t) as (A & B & C & D & F). rewrite E in *.
           unfold tinv. split; [|split; [exact B|split; [exact C|split; [exact D|]]]].
           + destruct t; cbn [wf_pc close_wf cgen] in *; auto; try contradiction; try discriminate A; try exact A;
               destruct A as (A1 & A2 & A3); (split; [intros [|]; discriminate|split; assumption]).
           + intros g0 Hg0 _. apply F; [exact Hg0|discriminate].
         - rewrite updt_other by assumption. destruct (thr_eqb_spec t' (Waiter g)) as [->|Hne2].
           + rewrite updt_same. unfold tinv. cbn. repeat split; auto; try discriminate.
             intros g0 [=<-] _. apply (i_tds _ Hinv). assumption.
           + rewrite updt_other by assumption. exact Ho. }
    (* K3: dial succeeded, postConnect, connected = true *)
    all: destruct Hk as (Hcall & Hcn & Hwz & Hcur & Hnq1 & Hnin); rewrite Hri in *;
      assert (Hidle : forall X, gthr X = Some (nq s) -> pcs s X = PIdle)
        by (intros X HX; apply (gthr_idle s X (nq s) Hinv HX Hnin));
      assert (Hnt : forall X, gthr X = Some (nq s) -> t <> X)
        by (intros X HX ->; rewrite (Hidle _ HX) in E; discriminate);
      destruct (thr_eqb_spec t' t) as [->|Hne];
      [rewrite updt_same; unfold tinv; cbn [wf_pc holds kinv cinv]; hsimpl; rewrite thr_eqb_refl;
       cbn [is_estab]; rewrite Nat.eqb_refl;
       repeat split; auto;
       [destruct t; cbn [wf_pc] in *; auto; try contradiction
       |intros Hx; apply Hnin; apply Hregs; tauto
       |intros g0 Hg0 _; apply in_or_app; left; apply Hgt; [exact Hg0|discriminate]]
      |rewrite updt_other by assumption].
    all: try (destruct t; cbn [wf_pc] in *; auto; try contradiction; try discriminate Hwf; fail).
    all: unfold updt;
      repeat match goal with
             | |- context [thr_eqb ?x ?a] => is_var x; destruct (thr_eqb_spec x a) as [->|]
             end;
      try (exfalso; cbn in Hwf; discriminate Hwf);
      lazymatch goal with
      | |- tinv _ _ (pcs _ _) =>
          apply tinv_setpc; apply tinv_log;
          [eapply tinv_nonholder; [| |exact Ho]; [nonholder Hinv|reflexivity]
          |split; [cbn [conn_ev_of]; destruct (thr_eqb_spec t' t); [congruence|reflexivity]
                  |intros ck0 inh0 ret0 Heq; apply Hne;
                   assert (mu s = Some t') by (apply (holder_is _ _ Hinv); rewrite Heq; reflexivity); congruence]]
      | |- _ =>
          unfold tinv; cbn [wf_pc holds kinv cinv gthr]; repeat split; auto; try discriminate;
          intros g0 Hg0 _; injection Hg0 as <-; psimpl; rewrite ests_snoc; apply in_or_app; right; left; reflexivity
      end.
  Qed.
End Steps.
