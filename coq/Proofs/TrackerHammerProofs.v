(* Proofs/TrackerHammerProofs.v — C14: what [C14_hammer_ok] says. *)
From Verif Require Import TrackerSpec TrackerImpl TrackerObs TrackerAlias TrackerC14.
Open Scope Z_scope.

Lemma prefix_states_lookup ws : forall s j, (j <= length ws)%nat ->
  prefix_states s ws !! j = Some (fst (sp_run s (take j ws))).
Proof.
  induction ws as [|w ws IH]; intros s [|j] Hj; simpl in *; try done; try lia.
  rewrite IH by lia. destruct (sp_step s w) as [s1 r1]. simpl. by destruct (sp_run s1 (take j ws)).
Qed.
Lemma prefix_states_length ws : forall s, length (prefix_states s ws) = S (length ws).
Proof. induction ws as [|w ws IH]; intros s; simpl; [done|]. by rewrite IH. Qed.

Lemma query_keeps_state s q : is_query q = true -> fst (sp_step s q) = s.
Proof.
  destruct q; simpl; try done; intros _.
  unfold sp_IsOn. by repeat case_match.
Qed.

Theorem hammer_ok_says me setup ws reads : C14_hammer_ok me setup ws reads = true ->
  forall r, In r reads ->
    is_query (r_q r) = true /\
    exists j, (r_lo r <= j <= r_hi r)%nat /\ (j <= length ws)%nat /\
      r_obs r = enc_result (snd (sp_step (fst (sp_run (C14_conc_start me setup) (take j ws))) (r_q r))).
Proof.
  unfold C14_hammer_ok. rewrite forallb_forall. intros H r Hr. specialize (H r Hr).
  unfold read_ok in H. apply andb_true_iff in H as [Hq H]. apply andb_true_iff in Hq as [Hq Hle]. apply Nat.leb_le in Hle. split; [done|].
  apply existsb_exists in H as (s & Hin & Hs). apply elem_of_list_In, elem_of_list_lookup in Hin as (i & Hi).
  apply lookup_take_Some in Hi as (Hi & Hlt). rewrite lookup_drop in Hi.
  set (s0 := C14_conc_start me setup) in *.
  assert (r_lo r + i <= length ws)%nat as Hlen.
  { apply lookup_lt_Some in Hi. rewrite prefix_states_length in Hi. lia. }
  rewrite prefix_states_lookup in Hi by done. inversion Hi; subst s.
  exists (r_lo r + i)%nat. split; [lia|]. split; [done|].
  unfold obs_eqb in Hs. apply bool_decide_eq_true in Hs. rewrite <- Hs. unfold sp_step_obs.
  by destruct (sp_step _ (r_q r)).
Qed.

(* ---------- NickInfo is a last-writer-wins register on one nick ---------- *)
Lemma ni_overwrite s n i h r i' h' r' a : ts_nicks s !! n = Some a ->
  sp_NickInfo (fst (sp_NickInfo s n i h r)) n i' h' r' = sp_NickInfo s n i' h' r'.
Proof.
  intros H. unfold sp_NickInfo. rewrite H. simpl. rewrite lookup_insert. simpl. rewrite insert_insert. done.
Qed.
Lemma ni_keeps_tracked s n i h r a : ts_nicks s !! n = Some a ->
  exists a', ts_nicks (fst (sp_NickInfo s n i h r)) !! n = Some a'.
Proof. intros H. unfold sp_NickInfo. rewrite H. simpl. rewrite lookup_insert. eauto. Qed.

(* what a sequential run of NickInfo n / GetNick n calls returns: [cur] = the state a GetNick sees *)
Fixpoint ni_expect (s0 cur : tstate) (ops : list op) : list result :=
  match ops with
  | [] => []
  | o :: ops' => if is_ni o then snd (sp_step s0 o) :: ni_expect s0 (fst (sp_step s0 o)) ops'
                 else snd (sp_step cur o) :: ni_expect s0 cur ops'
  end.

Lemma ni_run s0 n a0 : ts_nicks s0 !! n = Some a0 -> forall ops cur,
  Forall (fun o => ni_shape n o = true) ops ->
  (exists a, ts_nicks cur !! n = Some a) ->
  (forall i h r, sp_NickInfo cur n i h r = sp_NickInfo s0 n i h r) ->
  snd (sp_run cur ops) = ni_expect s0 cur ops.
Proof.
  intros H0. induction ops as [|o ops IH]; intros cur F (a & Ha) P; [done|].
  inversion F as [|? ? Fo Fops]; subst. simpl.
  destruct o; simpl in Fo; try done; apply bool_decide_eq_true in Fo; subst; simpl.
  - (* GetNick: the state does not move *)
    unfold with_res. simpl. rewrite <- (IH cur Fops); [|eauto|done]. by destruct (sp_run cur ops).
  - (* NickInfo: behaves as from the start state, and the next reader sees its value *)
    unfold with_res. simpl. rewrite P.
    rewrite <- (IH (fst (sp_NickInfo s0 n ident host rname)) Fops).
    + by destruct (sp_run _ ops).
    + eapply ni_keeps_tracked; eauto.
    + intros i h r. eapply ni_overwrite; eauto.
Qed.

Theorem ni_sequential s0 n a0 ops : ts_nicks s0 !! n = Some a0 ->
  Forall (fun o => ni_shape n o = true) ops -> snd (sp_run s0 ops) = ni_expect s0 s0 ops.
Proof. intros H F. eapply ni_run; eauto. Qed.

(* a NickInfo result carries exactly the call's own three strings *)
Lemma ni_result_own s n a i h r : ts_nicks s !! n = Some a ->
  exists sn, snd (sp_NickInfo s n i h r) = Some sn /\ sn_nick sn = n /\ sn_ident sn = i /\ sn_host sn = h /\ sn_name sn = r.
Proof.
  intros H. unfold sp_NickInfo. rewrite H. simpl. unfold nick_snapshot. simpl. rewrite lookup_insert. eauto 10.
Qed.
