(* Proofs/TrackerHammerProofs.v — C14: what [C14_hammer_ok] says. *)
From Verif Require Import TrackerSpec TrackerImpl TrackerObs TrackerAlias TrackerC14.
Open Scope Z_scope.

Lemma prefix_states_lookup ws : forall s j, (j <= length ws)%nat ->
  prefix_states s ws !! j = Some (fst (sp_run s (take j ws))).
Proof.
  induction ws as [|w ws IH]; intros s [|j] Hj; simpl in *; try done; try lia.
  rewrite IH by lia. destruct (sp_step s w) as [s1 r1]. simpl. by destruct (sp_run s1 (take j ws)).
Qed.
Lemma prefix_states_length ws : forall s, length (prefix_states s ws) = S (length ws).
Proof. induction ws as [|w ws IH]; intros s; simpl; [done|]. by rewrite IH. Qed.

Lemma query_keeps_state s q : is_query q = true -> fst (sp_step s q) = s.
Proof.
  destruct q; simpl; try done; intros _.
  unfold sp_IsOn. by repeat case_match.
Qed.

Theorem hammer_ok_says me setup ws reads : C14_hammer_ok me setup ws reads = true ->
  forall r, In r reads ->
    is_query (r_q r) = true /\
    exists j, (r_lo r <= j <= r_hi r)%nat /\ (j <= length ws)%nat /\
      r_obs r = enc_result (snd (sp_step (fst (sp_run (C14_conc_start me setup) (take j ws))) (r_q r))).
Proof.
  unfold C14_hammer_ok. rewrite forallb_forall. intros H r Hr. specialize (H r Hr).
  unfold read_ok in H. apply andb_true_iff in H as [Hq H]. apply andb_true_iff in Hq as [Hq Hle]. apply Nat.leb_le in Hle. split; [done|].
  apply existsb_exists in H as (s & Hin & Hs). apply elem_of_list_In, elem_of_list_lookup in Hin as (i & Hi).
  apply lookup_take_Some in Hi as (Hi & Hlt). rewrite lookup_drop in Hi.
  set (s0 := C14_conc_start me setup) in *.
  assert (r_lo r + i <= length ws)%nat as Hlen.
  { apply lookup_lt_Some in Hi. rewrite prefix_states_length in Hi. lia. }
  rewrite prefix_states_lookup in Hi by done. inversion Hi; subst s.
  exists (r_lo r + i)%nat. split; [lia|]. split; [done|].
  unfold obs_eqb in Hs. apply bool_decide_eq_true in Hs. rewrite <- Hs. unfold sp_step_obs.
  by destruct (sp_step _ (r_q r)).
Qed.
