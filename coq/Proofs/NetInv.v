(* Proofs/NetInv.v — C13: well-formedness of network states ([wf_net]: the truth is consistent
   and the view holds EXACTLY the client's channels, their memberships and the users sharing
   them) holds initially and is preserved by events.
   PROVED here: the initial state; EConnect, ETopic, EMode, EReplyMode, EReplyWhoChan,
   EReplyWhoNick (events that change no membership) and invalid events of every kind.
   NOT YET PROVED: EJoin, EPart, EKick, EQuit, ENick (the membership bookkeeping); for those the
   exactness of the view is checked dynamically ([exact_dom] in the oracle of ./check C13). *)
From Verif Require Import TrackerSpec TrackerSpecFacts StateHandlers Net NetObs NetProofs NetHandlers NetSim NetModes NetSimEv.
From Verif Require GoBytes LineLib Line LineSend NetDec.
Open Scope Z_scope.

Lemma sp_inv_same_keys t t' : same_keys t t' -> sp_inv t -> sp_inv t'.
Proof.
  intros (Hme & Hn & Hc & Hm) (I1 & I2). split.
  - rewrite Hme. by apply Hn.
  - intros c n Ho. apply Hm in Ho. destruct (I2 _ _ Ho). split; [by apply Hc|by apply Hn].
Qed.

Lemma same_keys_trans t1 t2 t3 : same_keys t1 t2 -> same_keys t2 t3 -> same_keys t1 t3.
Proof.
  intros (A1 & A2 & A3 & A4) (B1 & B2 & B3 & B4). split; [congruence|]. split; [|split].
  - intros n. by rewrite B2.
  - intros c. by rewrite B3.
  - intros c n. by rewrite B4.
Qed.

(* an event that changes no key set of the truth and none of the view *)
Lemma wf_same nt nt' :
  wf_net nt ->
  n_users nt' = n_users nt ->
  (forall c, is_Some (n_chans nt' !! c) <-> is_Some (n_chans nt !! c)) ->
  (forall c a, n_chans nt' !! c = Some a -> is_Some (n_chans nt !! c) ->
     text_ok (ca_topic a) = true
     /\ (cm_key (ca_modes a) = [] \/ LineSend.middle_ok (cm_key (ca_modes a)) = true)
     /\ (cm_limit (ca_modes a) = 0 \/ atoi (GoBytes.dec_of_Z (cm_limit (ca_modes a))) = cm_limit (ca_modes a))) ->
  (forall k, is_Some (n_member nt' !! k) <-> is_Some (n_member nt !! k)) ->
  same_keys (n_view nt) (n_view nt') ->
  wf_net nt'.
Proof.
  intros W Hu Hc Hcv Hm K. pose proof K as (K1 & K2 & K3 & K4).
  assert (Eme : n_me nt' = n_me nt) by exact K1.
  split.
  - by apply (sp_inv_same_keys (n_view nt)); [|apply W].
  - rewrite Eme, Hu. apply W.
  - intros c n Ho. apply Hm in Ho. destruct (wf_mem nt W c n Ho). split; [by apply Hc|by rewrite Hu].
  - rewrite Hu. apply W.
  - intros c a Ha. assert (Hs : is_Some (n_chans nt !! c)) by (apply Hc; rewrite Ha; eauto).
    destruct Hs as [a0 Ha0]. destruct (wf_chans nt W c a0 Ha0) as (Hok & _).
    destruct (Hcv c a Ha) as (? & ? & ?); [rewrite Ha0; eauto|]. done.
  - intros c. rewrite K3, (wf_d1 nt W). unfold onN. by rewrite Eme, Hm.
  - intros c n. rewrite K4, (wf_d2 nt W). unfold onN. by rewrite Eme, !Hm.
  - intros n. rewrite K2, (wf_d3 nt W). unfold onN. rewrite Eme. split.
    + intros [?|(c & H1 & H2)]; [by left|right]. exists c. by rewrite !Hm.
    + intros [?|(c & H1 & H2)]; [by left|right]. exists c. by rewrite <- !Hm.
Qed.

(* ---------- the view updates that change no key ---------- *)
Lemma v_topic_keys t c tp : same_keys t (v_topic t c tp).
Proof.
  unfold v_topic. destruct (ts_chans t !! c) eqn:L; [|apply same_keys_refl].
  split; [done|]. split; [done|]. split; [|done]. intros c'. apply insert_same_dom. rewrite L; eauto.
Qed.

Lemma apply_changes_dom c chs : forall st k,
  is_Some (snd (apply_changes c chs st) !! k) <-> is_Some (snd st !! k).
Proof.
  induction chs as [|m r IH]; intros st k; [done|]. rewrite apply_changes_cons, IH. apply apply_change_dom.
Qed.

Lemma v_modes_keys t c chs : same_keys t (v_modes t c chs).
Proof.
  unfold v_modes. destruct (ts_chans t !! c) as [a|] eqn:L; [|apply same_keys_refl].
  split; [done|]. split; [done|]. split.
  - intros c'. apply insert_same_dom. rewrite L; eauto.
  - intros c' n'. unfold onT. simpl. apply (apply_changes_dom c chs (ca_modes a, ts_member t)).
Qed.

Lemma v_reveal_who_keys t n ui : same_keys t (v_reveal_who t n ui).
Proof.
  unfold v_reveal_who. case_decide; [apply same_keys_refl|].
  destruct (ts_nicks t !! n) eqn:L; [|apply same_keys_refl].
  split; [done|]. split; [|done]. intros n'. apply insert_same_dom. rewrite L; eauto.
Qed.

Lemma fold_who_keys (f : name -> uinfo) (es : list (name * privs)) : forall t,
  same_keys t (fold_left (fun t e => v_reveal_who t (fst e) (f (fst e))) es t).
Proof.
  induction es as [|e r IH]; intros t; [apply same_keys_refl|]. simpl.
  eapply same_keys_trans; [apply v_reveal_who_keys|apply IH].
Qed.

(* modes after valid changes keep a key that is a protocol word and a limit that reads back *)
Definition cm_fine (cm : chanmode) : Prop :=
  (cm_key cm = [] \/ LineSend.middle_ok (cm_key cm) = true)
  /\ (cm_limit cm = 0 \/ atoi (GoBytes.dec_of_Z (cm_limit cm)) = cm_limit cm).

Lemma apply_change_fine mem0 c m st :
  chg_valid mem0 c m = true -> cm_fine (fst st) -> cm_fine (fst (apply_change c st m)).
Proof.
  intros Hv Hf. destruct m as [add x|add k|add l|add x n|add x mask]; simpl.
  - destruct (chan_flag_char x add (fst st)) as [cm'|] eqn:E; [|done]. simpl.
    unfold chan_flag_char in E. destruct Hf as [Hk Hl].
    destruct x as [|p]; [done|]. do 7 (destruct p as [p|p|]; try done); inversion E; subst; split; done.
  - destruct Hf as [Hk Hl]. split; [|done]. simpl in *. destruct add; [by right|by left].
  - destruct Hf as [Hk Hl]. split; [done|]. simpl in *. destruct add; [|by left].
    right. apply andb_prop in Hv. destruct Hv as [H1 H2]. apply Z.ltb_lt in H1. apply Z.leb_le in H2.
    apply NetDec.atoi_dec_of_Z. unfold max_limit in H2. lia.
  - destruct (snd st !! (c, n)); [|done]. by destruct (priv_char x add p).
  - done.
Qed.

Lemma apply_changes_fine mem0 c chs : forall st,
  forallb (chg_valid mem0 c) chs = true -> cm_fine (fst st) -> cm_fine (fst (apply_changes c chs st)).
Proof.
  induction chs as [|m r IH]; intros st Hv Hf; [done|]. simpl in Hv. apply andb_prop in Hv. destruct Hv as [H1 H2].
  rewrite apply_changes_cons. apply IH; [done|]. by apply (apply_change_fine mem0).
Qed.

(* ---------- the initial state ---------- *)
Lemma wf_net0 me ui attr :
  nick_ok me = true -> LineSend.name_ok (ui_user ui) = true -> LineSend.name_ok (ui_host ui) = true ->
  text_ok (ui_real ui) = true -> LineSend.middle_ok (ui_user ui) = true -> LineSend.middle_ok (ui_host ui) = true ->
  wf_net (net0 me ui attr).
Proof.
  intros H1 H2 H3 H4 H5 H6. split; simpl.
  - apply rob_inv_sp_inv. apply rob_inv_view0.
  - unfold n_me. simpl. rewrite lookup_singleton; eauto.
  - intros c n [p Hp]. simpl in Hp. by rewrite lookup_empty in Hp.
  - intros n ui' Hn. destruct (decide (me = n)) as [->|N].
    + rewrite lookup_singleton in Hn. inversion Hn; subst ui'. done.
    + by rewrite lookup_singleton_ne in Hn.
  - intros c a Ha. by rewrite lookup_empty in Ha.
  - intros c. unfold chanT, onN. simpl. rewrite !lookup_empty. split; by intros [? ?].
  - intros c n. unfold onT, onN. simpl. rewrite !lookup_empty. split; [by intros [? ?]|by intros [[? ?] _]].
  - intros n. unfold nickT, onN, n_me. simpl. split.
    + intros [a Ha]. left. destruct (decide (me = n)) as [->|N]; [done|]. by rewrite lookup_singleton_ne in Ha.
    + intros [->|(c & [? Hx] & _)]; [rewrite lookup_singleton; eauto|by rewrite lookup_empty in Hx].
Qed.

(* ---------- preservation, event kind by event kind ---------- *)
Lemma wf_step_invalid nt e : wf_net nt -> ev_valid nt e = false -> wf_net (step nt e).
Proof. intros W Hv. unfold step. by rewrite Hv. Qed.

Lemma wf_step_connect nt n u h r : wf_net nt -> wf_net (step nt (EConnect n u h r)).
Proof.
  intros W. unfold step. destruct (ev_valid nt (EConnect n u h r)) eqn:Hv; cbn [negb]; [|done].
  cbn [ev_valid] in Hv. do 6 (apply andb_prop in Hv; destruct Hv as [Hv ?]).
  match goal with H : bool_decide _ = true |- _ => apply bool_decide_eq_true in H; rename H into Hnew end.
  split; simpl.
  - apply W.
  - unfold n_me. simpl. destruct (wf_me nt W) as [x Hx]. destruct (decide (n = n_me nt)) as [->|N].
    + unfold n_me in *. congruence.
    + fold (n_me nt). rewrite lookup_insert_ne by done. eauto.
  - intros c n' Ho. destruct (wf_mem nt W c n' Ho) as [? [x Hx]]. split; [done|].
    destruct (decide (n = n')) as [->|N]; [rewrite lookup_insert; eauto|rewrite lookup_insert_ne by done; eauto].
  - intros n' ui Hn. destruct (decide (n = n')) as [->|N].
    + rewrite lookup_insert in Hn. inversion Hn; subst. simpl. repeat split; assumption.
    + rewrite lookup_insert_ne in Hn by done. by apply (wf_users nt W).
  - apply W.
  - apply (wf_d1 nt W).
  - apply (wf_d2 nt W).
  - apply (wf_d3 nt W).
Qed.

Lemma wf_step_topic nt a c tp : wf_net nt -> wf_net (step nt (ETopic a c tp)).
Proof.
  intros W. unfold step. destruct (ev_valid nt (ETopic a c tp)) eqn:Hv; cbn [negb]; [|done].
  cbn [ev_valid] in Hv. apply andb_prop in Hv. destruct Hv as [Hv Ht]. apply andb_prop in Hv. destruct Hv as [Hc _].
  apply bool_decide_eq_true in Hc. destruct Hc as [ca Hca].
  apply (wf_same nt); simpl; [done|done| | |done|apply v_topic_keys]; rewrite Hca.
  - intros c'. apply insert_same_dom. rewrite Hca; eauto.
  - intros c' a' Ha' [a0 Ha0]. destruct (decide (c = c')) as [->|N].
    + rewrite lookup_insert in Ha'. inversion Ha'; subst. simpl.
      destruct (wf_chans nt W c' ca Hca) as (_ & _ & ? & ?). done.
    + rewrite lookup_insert_ne in Ha' by done. destruct (wf_chans nt W c' a' Ha') as (_ & ? & ? & ?). done.
Qed.

Lemma wf_step_mode nt a c chs : wf_net nt -> wf_net (step nt (EMode a c chs)).
Proof.
  intros W. unfold step. destruct (ev_valid nt (EMode a c chs)) eqn:Hv; cbn [negb]; [|done].
  cbn [ev_valid] in Hv. apply andb_prop in Hv. destruct Hv as [Hv _]. apply andb_prop in Hv. destruct Hv as [Hv _].
  apply andb_prop in Hv. destruct Hv as [Hv Hch]. apply andb_prop in Hv. destruct Hv as [Hc _].
  apply bool_decide_eq_true in Hc. destruct Hc as [ca Hca]. rewrite Hca.
  apply (wf_same nt); simpl; [done|done| | | |apply v_modes_keys].
  - intros c'. apply insert_same_dom. rewrite Hca; eauto.
  - intros c' a' Ha' [a0 Ha0]. destruct (decide (c = c')) as [->|N].
    + rewrite lookup_insert in Ha'. inversion Ha'; subst. simpl.
      destruct (wf_chans nt W c' ca Hca) as (_ & ? & ? & ?). split; [done|].
      apply (apply_changes_fine (n_member nt) c' chs (ca_modes ca, n_member nt) Hch). done.
    + rewrite lookup_insert_ne in Ha' by done. destruct (wf_chans nt W c' a' Ha') as (_ & ? & ? & ?). done.
  - intros k. apply (apply_changes_dom c chs (ca_modes ca, n_member nt)).
Qed.

Lemma wf_step_replies nt c n :
  wf_net nt -> wf_net (step nt (EReplyMode c)) /\ wf_net (step nt (EReplyWhoChan c)) /\ wf_net (step nt (EReplyWhoNick n)).
Proof.
  intros W. unfold step. cbn [ev_valid negb]. split; [|split].
  2: destruct (chan_ok c); cbn [negb]; [|done].
  3: destruct (nick_ok n); cbn [negb]; [|done].
  - destruct (n_chans nt !! c) as [ca|]; [|done].
    apply (wf_same nt); simpl; [done|done|done| |done|apply v_modes_keys].
    intros c' a' Ha' _. destruct (wf_chans nt W c' a' Ha') as (_ & ? & ? & ?). done.
  - destruct (onb (n_member nt) c (n_me nt)); [|done].
    apply (wf_same nt); simpl; [done|done|done| |done|apply fold_who_keys].
    intros c' a' Ha' _. destruct (wf_chans nt W c' a' Ha') as (_ & ? & ? & ?). done.
  - destruct (n_users nt !! n) as [ui|]; [|done].
    apply (wf_same nt); simpl; [done|done|done| |done|apply v_reveal_who_keys].
    intros c' a' Ha' _. destruct (wf_chans nt W c' a' Ha') as (_ & ? & ? & ?). done.
Qed.

(* ---------- sessions ---------- *)
(* the tracker fed with the lines of each event in turn *)
Fixpoint track (nt : net) (t : tstate) (evs : list event) : tstate :=
  match evs with [] => t | e :: r => track (step nt e) (feed t (lines_for nt e)) r end.

Theorem sim_session evs : forall nt,
  (forall k, wf_net (run_net nt (firstn k evs))) -> Forall (fun e => ev_inclaim e = true) evs ->
  track nt (n_view nt) evs = n_view (run_net nt evs).
Proof.
  induction evs as [|e r IH]; intros nt Hw Hi; [done|]. inversion Hi as [|? ? Hi1 Hi2]; subst. simpl.
  rewrite (sim_step nt e (Hw 0%nat) Hi1). apply IH; [|done]. intros k. exact (Hw (S k)).
Qed.

(* preservation of well-formedness for the kinds proved so far *)
Definition membership_event (e : event) : bool :=
  match e with EJoin _ _ | EPart _ _ _ | EKick _ _ _ _ | EQuit _ _ | ENick _ _ => true | _ => false end.
Theorem wf_step_partial nt e :
  wf_net nt -> (membership_event e = true -> ev_valid nt e = false) -> wf_net (step nt e).
Proof.
  intros W H. destruct e; simpl in H;
    try (apply wf_step_invalid; [done|by apply H]).
  - by apply wf_step_connect.
  - by apply wf_step_topic.
  - by apply wf_step_mode.
  - by apply (wf_step_replies nt c []).
  - by apply (wf_step_replies nt c []).
  - by apply (wf_step_replies nt [] n).
Qed.

(* what the replies reveal is the truth *)
Lemma who_reveals nt n ui a :
  nick_ok n = true ->
  n_users nt !! n = Some ui -> ts_nicks (n_view nt) !! n = Some a -> n <> n_me nt ->
  exists a', ts_nicks (n_view (step nt (EReplyWhoNick n))) !! n = Some a'
             /\ na_ident a' = ui_user ui /\ na_host a' = ui_host ui /\ na_name a' = ui_real ui.
Proof.
  intros Hok Hu Ha Hme. unfold step. cbn [ev_valid]. rewrite Hok. cbn [negb]. rewrite Hu. cbn [n_view set_view].
  unfold v_reveal_who. rewrite decide_False by done. rewrite Ha. cbn. rewrite lookup_insert. eauto.
Qed.
