(* Proofs/GenEqParse.v — the Gallina TRANSLATION (Gen/GoFuncs.v) of client/line.go ParseLine is
   equal to the hand-written model Model/Line.v [parse], for every input, panics included.
   The translation replaces the local [line := &Line{...}] by one variable per field
   (Time, never set by ParseLine, is left out) and returns [None] for nil or [Some] of the
   tuple of fields; the map Line.Tags is an [option tagmap]; the package-level tagsReplacer
   is translated to its list of pairs (go_client_tagsReplacer) used through
   LineLib.replace_pairs. *)
From Verif Require Import GoBytes LineLib GoBytesFacts Line GoFuncs GenEqTac GenEqLine.
Open Scope Z_scope.

Definition line_fields (l : line) :=
  (l_tags l, l_nick l, l_ident l, l_host l, l_src l, l_cmd l, l_raw l, l_args l).

(* the model's parse_with, cut at the two points where the Go code has a join point *)
Definition parse_tail2 (raw : bytes) (tags : option tagmap) (src nick ident host s2 : bytes)
  : res (option line) :=
  r3 <- parse_args_stage fields to_upper s2 ;;
  match r3 with
  | None => Ok None
  | Some (cmd, largs) =>
      b <- is_ctcp_cond cmd largs ;;
      ca <- (if b then ctcp_rewrite to_upper cmd largs else Ok (cmd, largs)) ;;
      Ok (Some {| l_tags := tags; l_nick := nick; l_ident := ident; l_host := host;
                  l_src := src; l_cmd := fst ca; l_raw := raw; l_args := snd ca |})
  end.
Definition parse_tail1 (raw : bytes) (tags : option tagmap) (s1 : bytes) : res (option line) :=
  if beq s1 [] then Ok None
  else
    r2 <- parse_src_stage trim_space s1 ;;
    match r2 with
    | None => Ok None
    | Some ((src, nick, ident, host), s2) => parse_tail2 raw tags src nick ident host s2
    end.
Lemma parse_tails s :
  parse s = if beq s [] then Ok None
            else r1 <- parse_tags_stage s ;;
                 match r1 with None => Ok None | Some (tags, s1) => parse_tail1 s tags s1 end.
Proof. reflexivity. Qed.

Lemma if_andb {A} (a b : bool) (x y : A) :
  (if a && b then x else y) = (if a then if b then x else y else y).
Proof. destruct a, b; reflexivity. Qed.

Lemma go_puh_eq uh :
  go_client_parseUserHost uh
  = (r <- parse_user_host_with trim_space uh ;; Ok (user_host_results r)).
Proof. exact (go_parseUserHost_eq uh). Qed.

(* reduce [x <- Ok v ;; K] at the head of the left-hand side WITHOUT touching the lets of K *)
Ltac pl_bind1 :=
  lazymatch goal with
  | |- bind (Ok ?x) ?f = ?R => change (f x = R); cbv beta
  end.

(* brute-force case analysis; callers bound it with [timeout] so that a source change that makes
   the two sides drift apart fails in bounded time instead of exploring 2^k cases *)
Ltac pl_crunch :=
  repeat first
    [ progress cbn [bind fst snd option_map line_fields app
                    l_tags l_nick l_ident l_host l_src l_cmd l_raw l_args user_host_results]
    | rewrite if_andb
    | rewrite bind_assoc
    | go_case1 ];
  try reflexivity; try (exfalso; unfold llen, len in *; lia).

Lemma go_ParseLine_eq s :
  go_client_ParseLine s = (r <- parse s ;; Ok (option_map line_fields r)).
Proof.
  go_unfold go_client_ParseLine.
  set_loop_of_type loop (list bytes -> option tagmap -> res (option tagmap)).
  (* the loop over the tags = fold_res parse_tag *)
  assert (Hloop : forall l m, loop l (Some m) = (r <- fold_res parse_tag l m ;; Ok (Some r))).
  { induction l as [|x l IH]; intros m; [reflexivity|].
    cbn [fold_res]. unfold loop at 1; fold loop.
    unfold parse_tag at 1, tags_unescape, s_eq.
    change go_client_tagsReplacer with tags_pairs.
    destruct (beq x []); [cbn [bind]; apply IH|].
    cbv zeta. unfold go_map_set.
    repeat (cbn [bind]; try rewrite IH; try go_case1); reflexivity. }
  repeat go_let_any. go_subst_lets.
  rewrite parse_tails. destruct (beq s []) eqn:Es; [reflexivity|].
  cbv beta delta [parse_tags_stage c_at]. rewrite !bind_assoc.
  destruct (byte_at s 0) as [c0|]; [|reflexivity]. pl_bind1.
  go_let_any.
  match goal with k := _ |- _ => rename k into k1 end.
  assert (Hk1 : forall s1 tags, k1 (s1, tags)
                = (r <- parse_tail1 s tags s1 ;; Ok (option_map line_fields r))).
  { intros s1 tags. cbv beta iota delta [k1 parse_tail1].
    destruct (beq s1 []); [reflexivity|].
    cbv beta delta [parse_src_stage c_colon]. rewrite !bind_assoc.
    destruct (byte_at s1 0) as [c1|]; [|reflexivity]. pl_bind1.
    go_let_any.
    match goal with k := _ |- _ => rename k into k2 end.
    assert (Hk2 : forall s2 nick ident host src, k2 (s2, nick, ident, host, src)
              = (r <- parse_tail2 s tags src nick ident host s2 ;; Ok (option_map line_fields r))).
    { intros. unfold k2, parse_tail2, parse_args_stage, is_ctcp_cond, ctcp_rewrite,
        s_space, s_space_colon, s_soh, cmd_PRIVMSG, cmd_NOTICE, cmd_ACTION, cmd_CTCP, cmd_CTCPREPLY.
      cbv beta iota zeta. timeout 60 pl_crunch. }
    clearbody k2. unfold s_space. cbv zeta.
    timeout 60 (repeat first
      [ progress cbn [bind user_host_results]
      | rewrite Hk2 | rewrite go_puh_eq | rewrite bind_assoc
      | match goal with |- context [user_host_results ?o] =>
          is_var o; destruct o as [[[? ?] ?]|] end
      | go_case1 ]);
    try reflexivity. }
  clearbody k1. unfold s_space, c_semi. cbv zeta.
  timeout 60 (repeat first
    [ progress cbn [bind]
    | rewrite Hk1 | rewrite Hloop | rewrite bind_assoc | go_case1 ]);
  try reflexivity.
Qed.
