(* Proofs/LineDeliver.v — C01, second part: the CTCP delivery shapes, the accessors
   Text / Target / Public, recv's CR LF trimming and the framing of a stream. *)
From Verif Require Import GoBytes LineLib Line LineSend GoBytesFacts LineSendFacts LineRoundTrip.
Open Scope Z_scope.

(* ================= CTCP ================= *)
Definition ctcp_payload (v t : bytes) : bytes := [b_soh] ++ v ++ [b_sp] ++ t ++ [b_soh].

Lemma ctcp_verb_nospace v : ctcp_verb_ok v = true -> ~ In 32%N v.
Proof.
  unfold ctcp_verb_ok. intros H Hin. apply andb_true_iff in H as [_ H].
  apply (forallb_In _ _ _ H), ctcp_verb_byte_spec in Hin. tauto.
Qed.

Lemma ctcp_parts_payload v t :
  ctcp_verb_ok v = true -> ctcp_text_ok t = true -> ctcp_parts (ctcp_payload v t) = Some (v, t).
Proof.
  intros Hv Ht. unfold ctcp_payload, ctcp_parts. cbn [app]. rewrite N.eqb_refl.
  replace (rev (v ++ b_sp :: t ++ [b_soh])) with (b_soh :: rev (v ++ b_sp :: t)).
  2:{ replace (v ++ b_sp :: t ++ [b_soh]) with ((v ++ b_sp :: t) ++ [b_soh])
        by (rewrite <- app_assoc; reflexivity).
      rewrite (rev_app_distr (v ++ b_sp :: t)); reflexivity. }
  rewrite N.eqb_refl, rev_involutive.
  unfold b_sp. rewrite split2_byte_found by (now apply ctcp_verb_nospace).
  now rewrite Hv, Ht.
Qed.

(* the three delivery shapes of "\001VERB text\001" sent as the text of a PRIVMSG / NOTICE *)
Theorem ctcp_delivery m n tgt v t :
  wf_msg m = true ->
  middles m = [(n, tgt)] -> trailing m = Some (ctcp_payload v t) ->
  ctcp_verb_ok v = true -> ctcp_text_ok t = true ->
  exists l, parse (render m) = Ok (Some l) /\
    ((to_upper (verb m) = cmd_PRIVMSG -> v = cmd_ACTION ->
        l_cmd l = cmd_ACTION /\ l_args l = [tgt; t])
     /\ (to_upper (verb m) = cmd_PRIVMSG -> v <> cmd_ACTION ->
        l_cmd l = cmd_CTCP /\ l_args l = [v; tgt; t])
     /\ (to_upper (verb m) = cmd_NOTICE ->
        l_cmd l = cmd_CTCPREPLY /\ l_args l = [v; tgt; t])).
Proof.
  intros Hwf Hm Htr Hv Ht. exists (expected m). split; [now apply roundtrip|].
  unfold expected. destruct (exp_src (msrc m)) as [[[? ?] ?] ?]. cbn [l_cmd l_args].
  unfold msg_args. rewrite Hm, Htr. cbn [map snd app]. unfold exp_ctcp.
  rewrite ctcp_parts_payload by assumption. rewrite (ctcp_verb_upper v Hv).
  split; [|split].
  - intros E ->. rewrite E. cbn. split; reflexivity.
  - intros E Hne. rewrite E. cbn.
    destruct (beq v cmd_ACTION) eqn:Eb; [apply beq_eq in Eb; contradiction|]. split; reflexivity.
  - intros E. rewrite E. cbn. destruct (beq v cmd_ACTION); split; reflexivity.
Qed.

(* ================= the accessors, for EVERY line ================= *)
Lemma elem_at_last {A} (l : list A) d : l <> [] -> elem_at l (llen l - 1) = Ok (last l d).
Proof.
  intros H. destruct (exists_last H) as (l' & y & ->).
  unfold elem_at, llen. rewrite app_length. simpl length. rewrite last_last.
  destruct (0 <=? Z.of_nat (length l' + 1) - 1) eqn:E1; [|lia].
  destruct (Z.of_nat (length l' + 1) - 1 <? Z.of_nat (length l' + 1)) eqn:E2; [|lia].
  cbn [andb]. replace (Z.to_nat (Z.of_nat (length l' + 1) - 1)) with (length l') by lia.
  rewrite nth_error_app2 by lia. rewrite Nat.sub_diag. reflexivity.
Qed.

Theorem text_spec l : text l = Ok (spec_text l).
Proof.
  unfold text, spec_text. destruct (l_args l) as [|a args] eqn:E; [reflexivity|].
  assert (E1 : llen (a :: args) >? 0 = true) by (unfold llen; simpl length; lia).
  rewrite E1. apply elem_at_last. discriminate.
Qed.

Lemma is_chan_byte_mem c : is_chan_byte c = mem_byte c [35; 38; 43; 33]%N.
Proof.
  unfold is_chan_byte, mem_byte, c_hash, c_amp, c_plus, c_bang. simpl.
  destruct (N.eqb c 35), (N.eqb c 38), (N.eqb c 43), (N.eqb c 33); reflexivity.
Qed.

Lemma llen_nil_lt {A} n : 0 < n -> (@llen A [] <? n) = true.
Proof. unfold llen; simpl; lia. Qed.

Theorem public_spec l : public l = Ok (spec_public l).
Proof.
  unfold public, spec_public, is_msg3, is_ctcp2.
  destruct (beq (l_cmd l) cmd_PRIVMSG || beq (l_cmd l) cmd_NOTICE || beq (l_cmd l) cmd_ACTION).
  - destruct (l_args l) as [|a0 args]; [reflexivity|].
    assert (E : llen (a0 :: args) <? 1 = false) by (unfold llen; simpl length; lia).
    rewrite E, !elem_at_0. cbn [bind]. destruct a0 as [|c a0]; [reflexivity|].
    cbn [beq bind]. rewrite byte_at_0. cbn [bind starts_chan]. rewrite is_chan_byte_mem.
    now destruct (mem_byte c [35; 38; 43; 33]%N).
  - destruct (beq (l_cmd l) cmd_CTCP || beq (l_cmd l) cmd_CTCPREPLY); [|reflexivity].
    destruct (l_args l) as [|a0 [|a1 args]]; [reflexivity|reflexivity|].
    assert (E : llen (a0 :: a1 :: args) <? 2 = false) by (unfold llen; simpl length; lia).
    rewrite E, !elem_at_1. cbn [bind]. destruct a1 as [|c a1]; [reflexivity|].
    cbn [beq bind]. rewrite byte_at_0. cbn [bind starts_chan]. rewrite is_chan_byte_mem.
    now destruct (mem_byte c [35; 38; 43; 33]%N).
Qed.

Theorem target_spec l : target l = Ok (spec_target l).
Proof.
  unfold target, spec_target, first_arg. rewrite public_spec. cbn [bind].
  unfold is_msg3, is_ctcp2.
  assert (Ha : (if llen (l_args l) >? 0 then elem_at (l_args l) 0 else Ok [])
               = Ok match l_args l with a0 :: _ => a0 | [] => [] end).
  { destruct (l_args l) as [|a0 args]; [reflexivity|].
    assert (E : llen (a0 :: args) >? 0 = true) by (unfold llen; simpl length; lia).
    now rewrite E, elem_at_0. }
  destruct (beq (l_cmd l) cmd_PRIVMSG || beq (l_cmd l) cmd_NOTICE || beq (l_cmd l) cmd_ACTION) eqn:E3.
  - destruct (spec_public l); [exact Ha|reflexivity].
  - destruct (beq (l_cmd l) cmd_CTCP || beq (l_cmd l) cmd_CTCPREPLY) eqn:E2; [|exact Ha].
    destruct (spec_public l) eqn:Ep; [|reflexivity]. cbn [negb].
    unfold spec_public, is_msg3, is_ctcp2 in Ep. rewrite E3, E2 in Ep.
    destruct (l_args l) as [|a0 [|a1 args]]; try discriminate. now rewrite elem_at_1.
Qed.

(* the property predicate holds of the parser's answer: theorem statement = runtime oracle *)
Theorem C01_holds m :
  wf_msg m = true ->
  exists l, parse (render m) = Ok (Some l)
            /\ C01_ok m l (text l) (target l) (public l) = true.
Proof.
  intros H. exists (expected m). split; [now apply roundtrip|].
  unfold C01_ok. rewrite text_spec, target_spec, public_spec. cbn [res_beq].
  rewrite !beq_refl, eqb_reflx, !andb_true_r.
  (* line_eqb is reflexive *)
  unfold line_eqb. rewrite !beq_refl, !andb_true_r.
  assert (Hl : forall a, list_beq a a = true)
    by (induction a as [|x a IH]; simpl; [reflexivity|now rewrite beq_refl]).
  rewrite Hl, andb_true_r.
  destruct (l_tags (expected m)) as [tm|]; [|reflexivity]. cbn [opt_tags_eqb].
  unfold tags_eqb, tags_sub. rewrite andb_diag.
  apply forallb_forall. intros kv _. destruct (tags_get tm (fst kv)); simpl; [apply beq_refl|reflexivity].
Qed.

(* ================= no CR / LF anywhere in a rendered message ================= *)
Definition not_crlf (c : N) : Prop := c <> 13%N /\ c <> 10%N.

Lemma in_join c l d : In c (join l [d]) -> c = d \/ exists x, In x l /\ In c x.
Proof.
  induction l as [|x l IH]; [simpl; tauto|].
  destruct l as [|y l].
  - simpl. intros H. right. exists x. auto.
  - change (join (x :: y :: l) [d]) with (x ++ [d] ++ join (y :: l) [d]).
    rewrite !in_app_iff. intros [H|[H|H]].
    + right. exists x. split; [left; reflexivity|exact H].
    + simpl in H. destruct H as [H|[]]. auto.
    + destruct (IH H) as [E|(z & Hz & Hc)]; [auto|]. right. exists z. split; [right; exact Hz|exact Hc].
Qed.

Lemma word_ok_crlf w c : word_ok w = true -> In c w -> not_crlf c.
Proof.
  unfold word_ok. intros H Hin. apply andb_true_iff in H as [_ H].
  apply (forallb_In _ _ _ H), word_byte_spec in Hin as (Hs & _).
  split; intros ->; discriminate.
Qed.

Lemma key_byte_crlf c : key_byte c = true -> not_crlf c.
Proof. intros H; split; intros ->; discriminate H. Qed.

Lemma render_tags_crlf ot c : tags_ok ot = true -> In c (render_tags ot) -> not_crlf c.
Proof.
  destruct ot as [ts|]; [|simpl; tauto]. unfold tags_ok, render_tags. intros H.
  assert (Hall : forallb mtag_ok ts = true) by (destruct ts; [discriminate|exact H]).
  rewrite !in_app_iff. intros [Hc|[Hc|Hc]].
  - simpl in Hc. destruct Hc as [<-|[]]. split; discriminate.
  - apply in_join in Hc as [->|(x & Hx & Hc)]; [split; discriminate|].
    apply in_map_iff in Hx as (t & <- & Ht). apply (forallb_In _ _ _ Hall) in Ht.
    destruct t as [k [v|]]; unfold mtag_ok, key_ok, render_tag in *; cbn [fst snd] in *.
    + apply andb_true_iff in Ht as [Ht _]. apply andb_true_iff in Ht as [_ Hk].
      rewrite !in_app_iff in Hc. destruct Hc as [Hc|[Hc|Hc]].
      * now apply (forallb_In _ _ _ Hk), key_byte_crlf in Hc.
      * simpl in Hc. destruct Hc as [<-|[]]. split; discriminate.
      * apply escape_clean in Hc. unfold not_crlf. tauto.
    + apply andb_true_iff in Ht as [Ht _]. apply andb_true_iff in Ht as [_ Hk].
      now apply (forallb_In _ _ _ Hk), key_byte_crlf in Hc.
  - simpl in Hc. destruct Hc as [<-|[]]. split; discriminate.
Qed.

Lemma render_src_crlf os c : src_ok os = true -> In c (render_src os) -> not_crlf c.
Proof.
  destruct os as [s|]; [|simpl; tauto]. unfold render_src. intros H.
  rewrite !in_app_iff. intros [Hc|[Hc|Hc]].
  - simpl in Hc. destruct Hc as [<-|[]]. split; discriminate.
  - apply (src_text_nonspace s c H) in Hc. split; intros ->; discriminate.
  - simpl in Hc. destruct Hc as [<-|[]]. split; discriminate.
Qed.

Lemma render_params_crlf ms c :
  forallb (fun p => middle_ok (snd p)) ms = true -> In c (render_params ms) -> not_crlf c.
Proof.
  intros H. unfold render_params. rewrite in_flat_map. intros (p & Hp & Hc).
  unfold render_param in Hc. rewrite in_app_iff in Hc. destruct Hc as [Hc|Hc].
  - apply repeat_spec in Hc. subst c. split; discriminate.
  - apply (forallb_In _ _ _ H) in Hp. unfold middle_ok in Hp. apply andb_true_iff in Hp as [Hp _].
    now apply (word_ok_crlf (snd p)).
Qed.

Lemma render_crlf m c : wf_msg m = true -> In c (render m) -> not_crlf c.
Proof.
  intros Hwf. unfold wf_msg in Hwf.
  apply andb_true_iff in Hwf as [Hwf _]. apply andb_true_iff in Hwf as [Hwf Htr].
  apply andb_true_iff in Hwf as [Hwf Hmid]. apply andb_true_iff in Hwf as [Hwf Hverb].
  apply andb_true_iff in Hwf as [Htags Hsrc].
  destruct (verb_ok_spec _ Hverb) as (_ & _ & _ & _ & _ & Hvw & _).
  unfold middles_ok in Hmid. apply andb_true_iff in Hmid as [_ Hmid].
  unfold render, render_body. rewrite !in_app_iff. intros [Hc|[Hc|[Hc|[Hc|Hc]]]].
  - now apply (render_tags_crlf (mtags m)).
  - now apply (render_src_crlf (msrc m)).
  - now apply (word_ok_crlf (verb m)).
  - now apply (render_params_crlf (middles m)).
  - destruct (trailing m) as [t|]; [|simpl in Hc; contradiction].
    unfold render_trailing in Hc. simpl in Hc. destruct Hc as [<-|[<-|Hc]]; try (split; discriminate).
    unfold trailing_ok in Htr. apply (forallb_In _ _ _ Htr) in Hc. unfold trailing_byte in Hc.
    apply andb_true_iff in Hc as [Hc H10]. apply andb_true_iff in Hc as [_ H13].
    apply negb_true_iff, N.eqb_neq in H10, H13. split; assumption.
Qed.

Lemma render_nonempty m : wf_msg m = true -> render m <> [].
Proof.
  intros Hwf. unfold wf_msg in Hwf.
  apply andb_true_iff in Hwf as [Hwf _]. apply andb_true_iff in Hwf as [Hwf _].
  apply andb_true_iff in Hwf as [Hwf _]. apply andb_true_iff in Hwf as [_ Hverb].
  destruct (verb_ok_spec _ Hverb) as (c & v' & Ev & _).
  unfold render, render_body. rewrite Ev. intros E.
  apply app_eq_nil in E as [_ E]. apply app_eq_nil in E as [_ E]. discriminate.
Qed.

(* ================= recv: Trim(s, "\r\n") then ParseLine ================= *)
Theorem recv_roundtrip m :
  wf_msg m = true -> recv_one (wire m) = Ok (Some (expected m)).
Proof.
  intros Hwf. unfold recv_one, recv_one_with, wire.
  replace (trim (render m ++ [b_cr; b_lf]) s_crlf) with (render m); [now apply roundtrip|].
  symmetry. change (render m ++ [b_cr; b_lf]) with ([] ++ render m ++ [b_cr; b_lf]).
  apply trim_id; try reflexivity.
  - now apply render_nonempty.
  - intros c Hc. apply (render_crlf m c Hwf) in Hc as [H13 H10].
    unfold mem_byte, s_crlf. simpl. apply N.eqb_neq in H13, H10. now rewrite H13, H10.
Qed.

(* ================= a stream of messages: one delivery per message, in order ================= *)
Lemma frames_aux_piece s rest cur :
  ~ In 10%N s -> frames_aux (s ++ 10%N :: rest) cur = (rev cur ++ s ++ [10%N]) :: frames_aux rest [].
Proof.
  revert cur; induction s as [|x s IH]; intros cur H.
  - reflexivity.
  - simpl app. cbn [frames_aux]. unfold b_lf.
    destruct (N.eqb x 10) eqn:E; [apply N.eqb_eq in E; subst; exfalso; apply H; left; reflexivity|].
    rewrite IH by (intros Hin; apply H; right; exact Hin).
    simpl rev. now rewrite <- app_assoc.
Qed.

Lemma frames_wire m rest : wf_msg m = true -> frames (wire m ++ rest) = wire m :: frames rest.
Proof.
  intros Hwf. unfold frames, wire.
  replace ((render m ++ [b_cr; b_lf]) ++ rest) with ((render m ++ [b_cr]) ++ 10%N :: rest)
    by (rewrite <- !app_assoc; reflexivity).
  rewrite frames_aux_piece.
  - simpl rev. simpl app at 1. now rewrite <- app_assoc.
  - rewrite in_app_iff. intros [Hc|Hc].
    + apply (render_crlf m _ Hwf) in Hc as [_ H]. congruence.
    + simpl in Hc. destruct Hc as [Hc|[]]. discriminate.
Qed.

Theorem stream_roundtrip ms :
  Forall (fun m => wf_msg m = true) ms ->
  recv_stream (flat_map wire ms) = map (fun m => Ok (Some (expected m))) ms.
Proof.
  unfold recv_stream. induction 1 as [|m ms Hm _ IH]; [reflexivity|].
  cbn [flat_map]. rewrite frames_wire by exact Hm. cbn [map].
  rewrite recv_roundtrip by exact Hm. now rewrite IH.
Qed.
