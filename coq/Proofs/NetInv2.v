(* Proofs/NetInv2.v — C13: [wf_net] is preserved by the membership events
   (EJoin, EPart, EKick, EQuit, ENick): after each of them the view still holds EXACTLY the
   client's channels, their memberships and the users sharing a channel with the client. *)
From Verif Require Import TrackerSpec TrackerSpecFacts StateHandlers Net NetObs NetProofs NetHandlers NetSim NetModes NetSimEv NetInv.
From Verif Require GoBytes LineLib Line LineSend.
Open Scope Z_scope.

Lemma ins_some `{Countable K} {A} (m : gmap K A) k v k' : is_Some (<[k := v]> m !! k') <-> k = k' \/ is_Some (m !! k').
Proof.
  destruct (decide (k = k')) as [->|N]; [rewrite lookup_insert; split; eauto|].
  rewrite lookup_insert_ne by done. naive_solver.
Qed.
Lemma del_some `{Countable K} {A} (m : gmap K A) k k' : is_Some (delete k m !! k') <-> k <> k' /\ is_Some (m !! k').
Proof. apply lookup_delete_is_Some. Qed.
Lemma none_not_some {A} (o : option A) : o = None <-> ~ is_Some o.
Proof. apply eq_None_not_Some. Qed.

(* ---------- the view after a fold of NAMES entries ---------- *)
Lemma learn_me t n a : ts_me (v_learn_nick t n a) = ts_me t.
Proof. unfold v_learn_nick. by destruct (ts_nicks t !! n). Qed.
Lemma learn_nickT t n a n' : nickT (v_learn_nick t n a) n' <-> n = n' \/ nickT t n'.
Proof.
  unfold v_learn_nick, nickT. destruct (ts_nicks t !! n) eqn:L; simpl.
  - split; [auto|]. intros [<-|?]; [rewrite L; eauto|done].
  - apply ins_some.
Qed.

Lemma reveal_fold c es : forall t,
  let t' := fold_left (v_reveal_name c) es t in
  ts_me t' = ts_me t /\ ts_chans t' = ts_chans t
  /\ (forall n, nickT t' n <-> nickT t n \/ In n (map fst es))
  /\ (forall c' n, onT t' c' n <-> onT t c' n \/ (c' = c /\ In n (map fst es))).
Proof.
  induction es as [|e r IH]; intros t; simpl; [naive_solver|].
  destruct (IH (v_reveal_name c t e)) as (I1 & I2 & I3 & I4). cbv zeta in *.
  rewrite I1, I2. split; [|split; [|split]].
  - unfold v_reveal_name. simpl. apply learn_me.
  - apply reveal_chans.
  - intros n. rewrite I3. unfold v_reveal_name, nickT at 1. simpl. fold (nickT (v_learn_nick t (fst e) new_nickattr) n).
    rewrite learn_nickT. naive_solver.
  - intros c' n. rewrite I4. unfold v_reveal_name, onT at 1. simpl. rewrite ins_some, learn_member.
    unfold onT. naive_solver.
Qed.

(* completeness of the member listing *)
Lemma insert_sorted_In_r {A} k (v : A) l x : x = (k, v) \/ In x l -> In x (insert_sorted k v l).
Proof.
  induction l as [|[k' v'] l IH]; simpl; [naive_solver|]. destruct (bytes_leb k k'); simpl; [naive_solver|].
  intros [?|[?|?]]; [right; apply IH; by left|by left|right; apply IH; by right].
Qed.
Lemma sorted_of_map_In_r {A} (m : gmap name A) k v : m !! k = Some v -> In (k, v) (sorted_of_map m).
Proof.
  intros H. apply elem_of_map_to_list in H. apply elem_of_list_In in H. unfold sorted_of_map.
  induction (map_to_list m) as [|y l IH]; simpl in *; [done|]. apply insert_sorted_In_r.
  destruct H as [->|H]; [by left|right; by apply IH].
Qed.
Lemma chan_members_names nt c n :
  In n (map fst (chan_members nt c)) <-> is_Some (n_users nt !! n) /\ is_Some (n_member nt !! (c, n)).
Proof.
  rewrite in_map_iff. split.
  - intros (e & <- & He). apply chan_members_In in He. destruct He as [? He]. rewrite He. eauto.
  - intros [[ui Hu] [p Hp]]. exists (n, p). split; [done|]. unfold chan_members. apply sorted_of_map_In_r.
    rewrite map_lookup_imap, Hu. simpl. done.
Qed.

(* ---------- EJoin ---------- *)
Lemma wf_step_join nt n c : wf_net nt -> wf_net (step nt (EJoin n c)).
Proof.
  intros W. unfold step. destruct (ev_valid nt (EJoin n c)) eqn:Hv; cbn [negb]; [|done].
  cbn [ev_valid] in Hv.
  apply andb_prop in Hv. destruct Hv as [Hv Hnot]. apply andb_prop in Hv. destruct Hv as [Hu Hc].
  apply bool_decide_eq_true in Hu. destruct Hu as [ui Hui]. apply negb_true_iff, onb_false in Hnot.
  set (fresh := bool_decide (n_chans nt !! c = None)).
  set (chans' := if fresh then <[c := new_chanattr]> (n_chans nt) else n_chans nt).
  set (mem' := <[(c, n) := if fresh then op_privs else no_privs]> (n_member nt)).
  pose proof (wf_view nt W) as Isp. pose proof (wf_d1 nt W) as D1. pose proof (wf_d2 nt W) as D2. pose proof (wf_d3 nt W) as D3.
  pose proof (wf_mem nt W) as Wm.
  set (me := n_me nt) in *.
  assert (Hnot' : ~ is_Some (n_member nt !! (c, n))) by (by apply none_not_some).
  assert (F1 : forall c' n', is_Some (mem' !! (c', n')) <-> (c, n) = (c', n') \/ onN nt c' n') by (intros; apply ins_some).
  assert (F2 : forall c', is_Some (n_chans nt !! c') \/ c' = c -> is_Some (chans' !! c')).
  { intros c' [Hx| ->]; unfold chans', fresh; case_bool_decide as E.
    - apply ins_some. by right.
    - done.
    - rewrite lookup_insert; eauto.
    - destruct (n_chans nt !! c); [eauto|done]. }
  (* the truth part, whatever the view is *)
  assert (T : forall V', ts_me V' = me ->
            let nt' := {| n_users := n_users nt; n_chans := chans'; n_member := mem'; n_view := V' |} in
            is_Some (n_users nt' !! n_me nt')
            /\ (forall c' n', onN nt' c' n' -> is_Some (n_chans nt' !! c') /\ is_Some (n_users nt' !! n'))
            /\ (forall c' a, n_chans nt' !! c' = Some a ->
                  chan_ok c' = true /\ text_ok (ca_topic a) = true
                  /\ (cm_key (ca_modes a) = [] \/ LineSend.middle_ok (cm_key (ca_modes a)) = true)
                  /\ (cm_limit (ca_modes a) = 0 \/ atoi (GoBytes.dec_of_Z (cm_limit (ca_modes a))) = cm_limit (ca_modes a)))).
  { intros V' Hme. cbv zeta. unfold n_me, onN. cbn [n_users n_chans n_member n_view]. rewrite Hme. split; [apply W|]. split.
    - intros c' n' Ho. apply F1 in Ho. destruct Ho as [E|Ho].
      + inversion E; subst. split; [apply F2; by right|rewrite Hui; eauto].
      + destruct (Wm c' n' Ho). split; [apply F2; by left|done].
    - intros c' a. unfold chans', fresh. case_bool_decide as E; [|apply W].
      destruct (decide (c = c')) as [<-|N]; [|rewrite lookup_insert_ne by done; apply W].
      rewrite lookup_insert. intros X. inversion X; subst. simpl. repeat split; auto. }
  destruct (decide (n = me)) as [Eme|Nme].
  - (* the client joins *)
    set (nt1 := {| n_users := n_users nt; n_chans := chans'; n_member := mem'; n_view := n_view nt |}).
    set (topic := ca_topic (default new_chanattr (n_chans nt1 !! c))).
    set (t2 := v_set_member (v_set_chans (n_view nt) (<[c := Build_chanattr topic no_chanmode]> (ts_chans (n_view nt))))
                            (<[(c, ts_me (n_view nt)) := no_privs]> (ts_member (n_view nt)))).
    change (v_self_join (n_view nt) c topic (chan_members nt1 c)) with (fold_left (v_reveal_name c) (chan_members nt1 c) t2).
    destruct (reveal_fold c (chan_members nt1 c) t2) as (R1 & R2 & R3 & R4). cbv zeta in *.
    set (V' := fold_left (v_reveal_name c) (chan_members nt1 c) t2) in *.
    assert (Hme' : ts_me V' = me) by (rewrite R1; done).
    destruct (T V' Hme') as (T1 & T2 & T3).
    assert (Hmem : forall n', In n' (map fst (chan_members nt1 c)) <-> is_Some (mem' !! (c, n'))).
    { intros n'. rewrite chan_members_names. cbn [n_users n_member nt1]. split; [tauto|]. intros Ho. split; [|done].
      apply F1 in Ho. destruct Ho as [E|Ho]; [inversion E; subst; rewrite Hui; eauto|by destruct (Wm c n' Ho)]. }
    assert (C' : forall c', chanT V' c' <-> c = c' \/ chanT (n_view nt) c').
    { intros c'. unfold chanT. rewrite R2. unfold t2. cbn. apply ins_some. }
    assert (N' : forall n', nickT V' n' <-> nickT (n_view nt) n' \/ is_Some (mem' !! (c, n'))).
    { intros n'. rewrite R3, Hmem. unfold nickT, t2. cbn. done. }
    assert (O' : forall c' n', onT V' c' n' <-> onT (n_view nt) c' n' \/ (c' = c /\ is_Some (mem' !! (c, n')))).
    { intros c' n'. rewrite R4, Hmem. unfold onT at 1, t2. cbn. rewrite ins_some. change (ts_me (n_view nt)) with me. rewrite <- Eme.
      split; [|tauto]. intros [[E|?]|?]; [|tauto|tauto]. inversion E; subst. right. split; [done|]. apply F1. by left. }
    change (set_view nt1 V') with {| n_users := n_users nt; n_chans := chans'; n_member := mem'; n_view := V' |}.
    split; [|exact T1|exact T2|apply W|exact T3| | |].
    + (* sp_inv *) split.
      * cbn [n_view]. rewrite Hme'. apply N'. left. apply Isp.
      * cbn [n_view]. intros c' n' Ho. apply O' in Ho. fold (chanT V' c') (nickT V' n'). rewrite C', N'.
        destruct Ho as [Ho|[-> Ho]]; [|tauto].
        destruct Isp as [_ I2]. destruct (I2 _ _ Ho). unfold chanT, nickT. tauto.
    + intros c'. cbn [n_view]. rewrite C', D1. unfold onN, n_me. cbn [n_member n_view]. rewrite Hme', F1. subst n.
      clear -Hnot'. unfold onN. naive_solver.
    + intros c' n'. cbn [n_view]. rewrite O', D2. unfold onN, n_me. cbn [n_member n_view]. rewrite Hme', !F1. subst n.
      clear -Hnot'. unfold onN. naive_solver.
    + intros n'. cbn [n_view]. rewrite N', D3. unfold onN, n_me. cbn [n_member n_view]. rewrite Hme', F1. subst n.
      setoid_rewrite F1. clear -Hnot'. unfold onN. naive_solver.
  - destruct (onb (n_member nt) c me) eqn:Hon.
    + (* somebody joins a channel of the client *)
      apply onb_spec in Hon. fold (onN nt c me) in Hon.
      set (V' := v_other_join (n_view nt) n c (user_or_empty nt n)).
      assert (Hme' : ts_me V' = me) by (unfold V', v_other_join; simpl; apply learn_me).
      destruct (T V' Hme') as (T1 & T2 & T3).
      assert (C' : forall c', chanT V' c' <-> chanT (n_view nt) c').
      { intros c'. unfold chanT, V', v_other_join. simpl. by rewrite learn_chans. }
      assert (N' : forall n', nickT V' n' <-> n = n' \/ nickT (n_view nt) n').
      { intros n'. unfold V', v_other_join, nickT at 1. simpl. apply learn_nickT. }
      assert (O' : forall c' n', onT V' c' n' <-> (c, n) = (c', n') \/ onT (n_view nt) c' n').
      { intros c' n'. unfold V', v_other_join, onT at 1. simpl. rewrite ins_some, learn_member. done. }
      change (set_view _ V') with {| n_users := n_users nt; n_chans := chans'; n_member := mem'; n_view := V' |}.
      split; [|exact T1|exact T2|apply W|exact T3| | |]; cbn [n_view].
      * split.
        -- rewrite Hme'. apply N'. right. apply Isp.
        -- intros c' n' Ho. apply O' in Ho. fold (chanT V' c') (nickT V' n'). rewrite C', N'. destruct Ho as [E|Ho].
           ++ inversion E; subst. split; [by apply D1|by left].
           ++ destruct Isp as [_ I2]. destruct (I2 _ _ Ho). unfold chanT, nickT. tauto.
      * intros c'. rewrite C', D1. unfold onN, n_me. cbn [n_member n_view]. rewrite Hme', F1.
        clear -Nme. naive_solver.
      * intros c' n'. rewrite O', D2. unfold onN, n_me. cbn [n_member n_view]. rewrite Hme', !F1.
        clear -Nme Hon. unfold onN in *. naive_solver.
      * intros n'. rewrite N', D3. unfold onN, n_me. cbn [n_member n_view]. rewrite Hme'. setoid_rewrite F1.
        clear -Nme Hon. unfold onN in *. naive_solver.
    + (* a join the client cannot see *)
      apply onb_false, none_not_some in Hon. fold (onN nt c me) in Hon.
      destruct (T (n_view nt) eq_refl) as (T1 & T2 & T3).
      split; [apply W|exact T1|exact T2|apply W|exact T3| | |]; cbn [n_view].
      * intros c'. rewrite D1. unfold onN, n_me. cbn [n_member n_view]. change (ts_me (n_view nt)) with me. rewrite F1.
        clear -Nme. naive_solver.
      * intros c' n'. rewrite D2. unfold onN, n_me. cbn [n_member n_view]. change (ts_me (n_view nt)) with me. rewrite !F1.
        clear -Nme Hon. unfold onN in *. naive_solver.
      * intros n'. rewrite D3. unfold onN, n_me. cbn [n_member n_view]. change (ts_me (n_view nt)) with me. setoid_rewrite F1.
        clear -Nme Hon. unfold onN in *. naive_solver.
Qed.

(* ---------- EPart / EKick ---------- *)
Lemma not_no_chan_pair mem c : ~ no_chan_pair mem c <-> exists n, is_Some (mem !! (c, n)).
Proof.
  unfold no_chan_pair. rewrite map_not_Forall by (intros; apply _). split.
  - intros ([c' n] & p & L & H). simpl in H. apply dec_stable in H. subst. exists n. rewrite L; eauto.
  - intros (n & p & L). exists (c, n), p. split; [done|]. simpl. by intros H.
Qed.

Lemma wf_leave nt c n : wf_net nt -> onN nt c n -> wf_net (leave nt c n).
Proof.
  intros W Hon. unfold leave.
  set (mem' := delete (c, n) (n_member nt)).
  set (chans' := if decide (no_chan_pair mem' c) then delete c (n_chans nt) else n_chans nt).
  pose proof (wf_view nt W) as Isp. pose proof (wf_d1 nt W) as D1. pose proof (wf_d2 nt W) as D2. pose proof (wf_d3 nt W) as D3.
  pose proof (wf_mem nt W) as Wm.
  set (me := n_me nt) in *.
  assert (F1 : forall c' n', is_Some (mem' !! (c', n')) <-> (c, n) <> (c', n') /\ onN nt c' n') by (intros; apply del_some).
  assert (T : forall V', ts_me V' = me ->
            let nt' := {| n_users := n_users nt; n_chans := chans'; n_member := mem'; n_view := V' |} in
            is_Some (n_users nt' !! n_me nt')
            /\ (forall c' n', onN nt' c' n' -> is_Some (n_chans nt' !! c') /\ is_Some (n_users nt' !! n'))
            /\ (forall c' a, n_chans nt' !! c' = Some a ->
                  chan_ok c' = true /\ text_ok (ca_topic a) = true
                  /\ (cm_key (ca_modes a) = [] \/ LineSend.middle_ok (cm_key (ca_modes a)) = true)
                  /\ (cm_limit (ca_modes a) = 0 \/ atoi (GoBytes.dec_of_Z (cm_limit (ca_modes a))) = cm_limit (ca_modes a)))).
  { intros V' Hme. cbv zeta. unfold n_me, onN. cbn [n_users n_chans n_member n_view]. rewrite Hme. split; [apply W|]. split.
    - intros c' n' Ho. pose proof Ho as Ho'. apply F1 in Ho. destruct Ho as [_ Ho]. destruct (Wm c' n' Ho). split; [|done].
      unfold chans'. case_decide as E; [|done]. apply del_some. split; [|done]. intros <-.
      apply (proj2 (not_no_chan_pair mem' c)); [by exists n'|done].
    - intros c' a. unfold chans'. case_decide as E; [|apply W]. intros X. apply lookup_delete_Some in X. destruct X as [_ X].
      by apply (wf_chans nt W). }
  destruct (decide (onN nt c me)) as [Hme|Hme].
  - assert (Hc : is_Some (ts_chans (n_view nt) !! c)) by (by apply D1).
    assert (Hp : is_Some (ts_member (n_view nt) !! (c, n))) by (by apply D2).
    assert (Hn : is_Some (ts_nicks (n_view nt) !! n)) by (apply D3; right; by exists c).
    destruct Hc as [xa Hc]. destruct Hp as [xp Hp]. destruct Hn as [xn Hn].
    unfold sp_Dissociate. rewrite Hc, Hn, Hp.
    destruct (decide (n = ts_me (n_view nt))) as [Eme|Nme].
    + (* the client leaves: channel forgotten, users no longer shared collected *)
      set (V' := sp_drop_channel (n_view nt) c).
      destruct (T V' eq_refl) as (T1 & T2 & T3).
      assert (C' : forall c', chanT V' c' <-> c <> c' /\ chanT (n_view nt) c') by (intros; apply del_some).
      assert (O' : forall c' n', onT V' c' n' <-> c <> c' /\ onT (n_view nt) c' n').
      { intros c' n'. unfold onT, V'. simpl. rewrite drop_chan_pairs_lookup. case_decide as E.
        - subst c'. split; [by intros [? ?]|by intros [? _]].
        - split; [intros H; split; [congruence|done]|by intros [_ ?]]. }
      assert (N' : forall n', nickT V' n' <->
                   nickT (n_view nt) n' /\ (n' = me \/ ~ onT (n_view nt) c n' \/ exists c0, onT V' c0 n')).
      { intros n'. unfold nickT at 1, V'. rewrite sp_drop_channel_nicks. case_decide as E.
        - split; [|by intros [? _]]. intros H. split; [done|].
          destruct E as [?|[E|E]]; [by left|right; left; by apply none_not_some|right; right; by apply not_no_pair].
        - split; [by intros [? ?]|]. intros [_ X]. exfalso. apply E.
          destruct X as [?|[X|X]]; [by left|right; left; by apply none_not_some|right; right; by apply not_no_pair]. }
      split; [by apply sp_drop_channel_inv|exact T1|exact T2|apply W|exact T3| | |]; cbn [n_view].
      * intros c'. rewrite C', D1. unfold onN, n_me. cbn [n_member n_view]. change (ts_me V') with me. rewrite F1. subst n.
        change (ts_me (n_view nt)) with me. clear. unfold onN. (timeout 20 naive_solver).
      * intros c' n'. rewrite O', D2. unfold onN, n_me. cbn [n_member n_view]. change (ts_me V') with me. rewrite !F1. subst n.
        change (ts_me (n_view nt)) with me. clear. unfold onN. (timeout 20 naive_solver).
      * intros n'. rewrite N'. setoid_rewrite O'. rewrite D3. setoid_rewrite D2.
        unfold onN, n_me. cbn [n_member n_view]. change (ts_me V') with me. setoid_rewrite F1. subst n.
        change (ts_me (n_view nt)) with me. clear. unfold onN. (timeout 20 naive_solver).
    + (* somebody else leaves a channel of the client *)
      change (ts_me (n_view nt)) with me in Nme.
      set (vm' := delete (c, n) (ts_member (n_view nt))).
      set (V' := {| ts_me := ts_me (n_view nt);
                    ts_nicks := if decide (no_pair vm' n) then delete n (ts_nicks (n_view nt)) else ts_nicks (n_view nt);
                    ts_chans := ts_chans (n_view nt); ts_member := vm' |}).
      destruct (T V' eq_refl) as (T1 & T2 & T3).
      assert (O' : forall c' n', onT V' c' n' <-> (c, n) <> (c', n') /\ onT (n_view nt) c' n') by (intros; apply del_some).
      assert (N' : forall n', nickT V' n' <-> nickT (n_view nt) n' /\ (n <> n' \/ exists c0, onT V' c0 n)).
      { intros n'. unfold nickT at 1, V'. cbn [ts_nicks]. case_decide as E.
        - rewrite del_some. split.
          + intros [Hne Hn']. split; [done|by left].
          + intros [Hn' [Hne|X]]; [done|]. exfalso. apply (proj2 (not_no_pair vm' n) X E).
        - split.
          + intros Hn'. split; [done|]. right. by apply not_no_pair.
          + by intros [? _]. }
      assert (Isp' : sp_inv V').
      { pose proof (sp_step_inv (n_view nt) (ODissociate c n) Isp) as H. simpl in H. unfold sp_Dissociate in H.
        rewrite Hc, Hn, Hp, decide_False in H by done. exact H. }
      split; [exact Isp'|exact T1|exact T2|apply W|exact T3| | |]; cbn [n_view].
      * intros c'. unfold chanT at 1. cbn [V' ts_chans]. fold (chanT (n_view nt) c'). rewrite D1.
        unfold onN, n_me. cbn [n_member n_view V' ts_me]. change (ts_me (n_view nt)) with me. rewrite F1.
        clear -Nme. unfold onN. (timeout 20 naive_solver).
      * intros c' n'. rewrite O', D2. unfold onN, n_me. cbn [n_member n_view V' ts_me]. change (ts_me (n_view nt)) with me.
        rewrite !F1. clear -Nme. unfold onN. (timeout 20 naive_solver).
      * intros n'. rewrite N'. setoid_rewrite O'. rewrite D3. setoid_rewrite D2.
        unfold onN, n_me. cbn [n_member n_view V' ts_me]. change (ts_me (n_view nt)) with me. setoid_rewrite F1.
        clear -Nme. unfold onN. split.
        -- intros [[->|(c1 & H1 & H2)] Hs]; [by left|]. right. destruct (decide (n = n')) as [<-|Nn].
           ++ destruct Hs as [?|(c0 & H3 & H4 & H5)]; [done|]. exists c0.
              split; (split; [|done]); [intros E; inversion E; by subst|done].
           ++ exists c1. split; (split; [|done]); intros E; inversion E; by subst.
        -- intros [->|(c0 & [H1 H2] & [H3 H4])].
           ++ split; [by left|left; done].
           ++ split; [right; by exists c0|]. destruct (decide (n = n')) as [<-|Nn]; [right; by exists c0|by left].
  - (* a channel the client is not on *)
    assert (Hc : ts_chans (n_view nt) !! c = None) by (apply none_not_some; intros X; apply Hme; by apply D1).
    rewrite (Dissociate_unknown _ c n Hc).
    assert (Nme : n <> me) by (intros ->; done).
    destruct (T (n_view nt) eq_refl) as (T1 & T2 & T3).
    split; [apply W|exact T1|exact T2|apply W|exact T3| | |]; cbn [n_view].
    + intros c'. rewrite D1. unfold onN, n_me. cbn [n_member n_view]. change (ts_me (n_view nt)) with me. rewrite F1.
      clear -Nme. (timeout 20 naive_solver).
    + intros c' n'. rewrite D2. unfold onN, n_me. cbn [n_member n_view]. change (ts_me (n_view nt)) with me. rewrite !F1.
      clear -Nme Hme. unfold onN in *. (timeout 20 naive_solver).
    + intros n'. rewrite D3. unfold onN, n_me. cbn [n_member n_view]. change (ts_me (n_view nt)) with me. setoid_rewrite F1.
      clear -Nme Hme. unfold onN in *. (timeout 20 naive_solver).
Qed.

Lemma wf_step_part nt n c msg : wf_net nt -> wf_net (step nt (EPart n c msg)).
Proof.
  intros W. unfold step. destruct (ev_valid nt (EPart n c msg)) eqn:Hv; cbn [negb]; [|done].
  cbn [ev_valid] in Hv. apply andb_prop in Hv. destruct Hv as [Hon _]. apply onb_spec in Hon. by apply wf_leave.
Qed.
Lemma wf_step_kick nt a c v msg : wf_net nt -> wf_net (step nt (EKick a c v msg)).
Proof.
  intros W. unfold step. destruct (ev_valid nt (EKick a c v msg)) eqn:Hv; cbn [negb]; [|done].
  cbn [ev_valid] in Hv. apply andb_prop in Hv. destruct Hv as [Hv _]. apply andb_prop in Hv. destruct Hv as [Hon _].
  apply onb_spec in Hon. by apply wf_leave.
Qed.

(* ---------- EQuit ---------- *)
Lemma wf_step_quit nt n msg : wf_net nt -> wf_net (step nt (EQuit n msg)).
Proof.
  intros W. unfold step. destruct (ev_valid nt (EQuit n msg)) eqn:Hv; cbn [negb]; [|done].
  cbn [ev_valid] in Hv. apply andb_prop in Hv. destruct Hv as [Hv _]. apply andb_prop in Hv. destruct Hv as [Hu Hnme].
  apply bool_decide_eq_true in Hu. destruct Hu as [ui Hui]. apply negb_true_iff, bool_decide_eq_false in Hnme.
  set (mem' := drop_nick_pairs n (n_member nt)).
  set (chans' := filter (fun kv : name * chanattr => ~ no_chan_pair mem' (fst kv)) (n_chans nt)).
  pose proof (wf_view nt W) as Isp. pose proof (wf_d1 nt W) as D1. pose proof (wf_d2 nt W) as D2. pose proof (wf_d3 nt W) as D3.
  pose proof (wf_mem nt W) as Wm.
  set (me := n_me nt) in *.
  assert (F1 : forall c' n', is_Some (mem' !! (c', n')) <-> n' <> n /\ onN nt c' n').
  { intros c' n'. unfold mem'. rewrite drop_nick_pairs_lookup. case_decide as E.
    - split; [by intros [? ?]|by intros [? _]].
    - unfold onN. tauto. }
  set (V' := fst (sp_DelNick (n_view nt) n)).
  assert (K : ts_me V' = me /\ ts_chans V' = ts_chans (n_view nt)
              /\ (forall n', nickT V' n' <-> n' <> n /\ nickT (n_view nt) n')
              /\ (forall c' n', onT V' c' n' <-> n' <> n /\ onT (n_view nt) c' n')).
  { unfold V', sp_DelNick. destruct (ts_nicks (n_view nt) !! n) as [a|] eqn:L.
    - rewrite decide_False by done. cbn [fst ts_me ts_chans]. split; [done|]. split; [done|]. split.
      + intros n'. unfold nickT. cbn [ts_nicks]. rewrite del_some. naive_solver.
      + intros c' n'. unfold onT. cbn [ts_member]. rewrite drop_nick_pairs_lookup. case_decide as E.
        * split; [by intros [? ?]|by intros [? _]].
        * tauto.
    - cbn [fst]. split; [done|]. split; [done|]. split.
      + intros n'. split; [|tauto]. intros H. split; [|done]. intros ->. unfold nickT in H. rewrite L in H. by destruct H.
      + intros c' n'. split; [|tauto]. intros H. split; [|done]. intros ->.
        destruct Isp as [_ I2]. destruct (I2 _ _ H) as [_ X]. rewrite L in X. by destruct X. }
  destruct K as (K1 & K2 & K3 & K4).
  assert (Isp' : sp_inv V') by (exact (sp_step_inv (n_view nt) (ODelNick n) Isp)).
  fold mem' chans' V'.
  split; cbn [n_users n_chans n_member n_view].
  - exact Isp'.
  - unfold n_me. cbn [n_view n_users]. rewrite K1. apply del_some. split; [done|apply W].
  - intros c' n' Ho. unfold onN in Ho. cbn [n_member] in Ho. pose proof Ho as Ho'. apply F1 in Ho. destruct Ho as [Hne Ho].
    destruct (Wm c' n' Ho) as [[a Ha] Hx]. split.
    + exists a. apply map_filter_lookup_Some. split; [done|]. simpl. apply not_no_chan_pair. by exists n'.
    + apply del_some. split; [done|done].
  - intros n' ui' Hx. apply lookup_delete_Some in Hx. destruct Hx as [_ Hx]. by apply (wf_users nt W).
  - intros c' a Hx. apply map_filter_lookup_Some in Hx. destruct Hx as [Hx _]. by apply (wf_chans nt W).
  - intros c'. unfold chanT. rewrite K2. fold (chanT (n_view nt) c'). rewrite D1.
    unfold onN, n_me. cbn [n_member n_view]. rewrite K1, F1. clear -Hnme. unfold onN. (timeout 20 naive_solver).
  - intros c' n'. rewrite K4, D2. unfold onN, n_me. cbn [n_member n_view]. rewrite K1, !F1.
    clear -Hnme. unfold onN. (timeout 20 naive_solver).
  - intros n'. rewrite K3, D3. unfold onN, n_me. cbn [n_member n_view]. rewrite K1. setoid_rewrite F1.
    clear -Hnme. unfold onN. (timeout 20 naive_solver).
Qed.

(* ---------- ENick ---------- *)
Lemma swap_flip o w a b : swap_name o w a = b <-> a = swap_name o w b.
Proof. split; [intros <-|intros ->]; by rewrite swap_name_invol. Qed.

Lemma wf_step_nick nt o w : wf_net nt -> wf_net (step nt (ENick o w)).
Proof.
  intros W. unfold step. destruct (ev_valid nt (ENick o w)) eqn:Hv; cbn [negb]; [|done].
  cbn [ev_valid] in Hv. apply andb_prop in Hv. destruct Hv as [Hv Hok]. apply andb_prop in Hv. destruct Hv as [Hu Hw].
  apply bool_decide_eq_true in Hu. destruct Hu as [ui Hui]. apply bool_decide_eq_true in Hw.
  assert (How : o <> w) by (intros ->; congruence).
  set (sg := swap_name o w).
  set (mem' := rekey o w (n_member nt)).
  set (users' := <[w := user_or_empty nt o]> (delete o (n_users nt))).
  pose proof (wf_view nt W) as Isp. pose proof (wf_d1 nt W) as D1. pose proof (wf_d2 nt W) as D2. pose proof (wf_d3 nt W) as D3.
  pose proof (wf_mem nt W) as Wm. pose proof (wf_me nt W) as Wme.
  set (me := n_me nt) in *.
  assert (Hinv : forall x, sg (sg x) = x) by (intros; apply swap_name_invol).
  assert (F1 : forall c' n', is_Some (mem' !! (c', n')) <-> onN nt c' (sg n')) by (intros; unfold mem'; by rewrite rekey_lookup).
  assert (Fu : forall n', is_Some (users' !! n') <-> is_Some (n_users nt !! sg n')).
  { intros n'. unfold users', sg, swap_name. rewrite ins_some, del_some.
    destruct (decide (n' = o)) as [->|N1]; [rewrite Hw; split; [intros [?|[? ?]]; done|by intros [? ?]]|].
    destruct (decide (n' = w)) as [->|N2]; [rewrite Hui; split; eauto|]. naive_solver. }
  assert (Hwv : ts_nicks (n_view nt) !! w = None).
  { apply none_not_some. intros X. apply D3 in X. destruct X as [->|(c0 & _ & X)].
    - rewrite Hw in Wme. by destruct Wme.
    - destruct (Wm _ _ X) as [_ Y]. rewrite Hw in Y. by destruct Y. }
  assert (Hwp : forall c0, ~ onT (n_view nt) c0 w).
  { intros c0 X. destruct Isp as [_ I2]. destruct (I2 _ _ X) as [_ Y]. rewrite Hwv in Y. by destruct Y. }
  set (V' := fst (sp_ReNick (n_view nt) o w)).
  assert (K : ts_me V' = sg me /\ ts_chans V' = ts_chans (n_view nt)
              /\ (forall n', nickT V' n' <-> nickT (n_view nt) (sg n'))
              /\ (forall c' n', onT V' c' n' <-> onT (n_view nt) c' (sg n'))).
  { unfold V', sp_ReNick. destruct (ts_nicks (n_view nt) !! o) as [a|] eqn:L.
    - rewrite Hwv. cbn [fst ts_me ts_chans ts_nicks ts_member]. split; [|split; [done|split]].
      + unfold sg, swap_name. change (ts_me (n_view nt)) with me. case_decide as E.
        * subst o. by rewrite decide_True.
        * rewrite decide_False by done. rewrite decide_False; [done|]. intros E'. destruct Isp as [X _].
          change (ts_me (n_view nt)) with me in X. rewrite E', Hwv in X. by destruct X.
      + intros n'. unfold nickT. cbn [ts_nicks]. rewrite ins_some, del_some. unfold sg, swap_name.
        destruct (decide (n' = o)) as [->|N1]; [rewrite Hwv; split; [intros [?|[? ?]]; done|by intros [? ?]]|].
        destruct (decide (n' = w)) as [->|N2]; [rewrite L; split; eauto|]. naive_solver.
      + intros c' n'. unfold onT. cbn [ts_member]. by rewrite rekey_lookup.
    - cbn [fst].
      assert (Hop : forall c0, ~ onT (n_view nt) c0 o).
      { intros c0 X. destruct Isp as [_ I2]. destruct (I2 _ _ X) as [_ Y]. rewrite L in Y. by destruct Y. }
      assert (Hmo : me <> o).
      { intros E'. destruct Isp as [X _]. change (ts_me (n_view nt)) with me in X. rewrite E', L in X. by destruct X. }
      assert (Hmw : me <> w).
      { intros E'. destruct Isp as [X _]. change (ts_me (n_view nt)) with me in X. rewrite E', Hwv in X. by destruct X. }
      split; [|split; [done|split]].
      + unfold sg, swap_name. change (ts_me (n_view nt)) with me. by rewrite !decide_False.
      + intros n'. unfold sg, swap_name, nickT.
        destruct (decide (n' = o)) as [->|N1]; [rewrite L, Hwv; done|].
        destruct (decide (n' = w)) as [->|N2]; [rewrite L, Hwv; done|done].
      + intros c' n'. unfold sg, swap_name.
        destruct (decide (n' = o)) as [->|N1]; [split; intros X; exfalso; [by apply (Hop c')|by apply (Hwp c')]|].
        destruct (decide (n' = w)) as [->|N2]; [split; intros X; exfalso; [by apply (Hwp c')|by apply (Hop c')]|done]. }
  destruct K as (K1 & K2 & K3 & K4).
  assert (Isp' : sp_inv V') by (exact (sp_step_inv (n_view nt) (OReNick o w) Isp)).
  fold mem' users' V'.
  split; cbn [n_users n_chans n_member n_view].
  - exact Isp'.
  - unfold n_me. cbn [n_view n_users]. rewrite K1. apply Fu. rewrite Hinv. exact Wme.
  - intros c' n' Ho. unfold onN in Ho. cbn [n_member] in Ho. apply F1 in Ho. destruct (Wm _ _ Ho). split; [done|by apply Fu].
  - intros n' ui' Hx. unfold users' in Hx. destruct (decide (w = n')) as [<-|N].
    + rewrite lookup_insert in Hx. inversion Hx; subst ui'. unfold user_or_empty. rewrite Hui. simpl.
      destruct (wf_users nt W o ui Hui) as (_ & ? & ? & ? & ? & ?). done.
    + rewrite lookup_insert_ne in Hx by done. apply lookup_delete_Some in Hx. destruct Hx as [_ Hx]. by apply (wf_users nt W).
  - apply W.
  - intros c'. unfold chanT. rewrite K2. fold (chanT (n_view nt) c'). rewrite D1.
    unfold onN, n_me. cbn [n_member n_view]. rewrite K1, F1, Hinv. done.
  - intros c' n'. rewrite K4, D2. unfold onN, n_me. cbn [n_member n_view]. rewrite K1, !F1, Hinv. done.
  - intros n'. rewrite K3, D3. unfold onN, n_me. cbn [n_member n_view]. rewrite K1. setoid_rewrite F1. rewrite Hinv.
    unfold sg. rewrite (swap_flip o w n' me). done.
Qed.

(* ---------- every event ---------- *)
Theorem wf_step nt e : wf_net nt -> wf_net (step nt e).
Proof.
  intros W. destruct e.
  - by apply wf_step_connect.
  - by apply wf_step_join.
  - by apply wf_step_part.
  - by apply wf_step_kick.
  - by apply wf_step_quit.
  - by apply wf_step_nick.
  - by apply wf_step_topic.
  - by apply wf_step_mode.
  - by apply (wf_step_replies nt c []).
  - by apply (wf_step_replies nt c []).
  - by apply (wf_step_replies nt [] n).
Qed.

Theorem wf_run evs : forall nt, wf_net nt -> wf_net (run_net nt evs).
Proof. induction evs as [|e r IH]; intros nt W; [done|]. simpl. apply IH. by apply wf_step. Qed.
