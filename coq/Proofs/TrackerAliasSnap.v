(* Proofs/TrackerAliasSnap.v — C14, part A: (R) the value a method returns is built from freshly
   allocated objects only, and building it disturbs nothing that existed before.
   [ext_above b s s']: s' differs from s only at addresses >= b (and has the same tracker graph);
   [twin s1 s2]: the same tracker graph and counter, ChanPrivs heaps that agree on the tracker's
   own objects, everything else arbitrary — the tracker cannot tell twins apart. *)
From Verif Require Import TrackerSpec TrackerImpl TrackerAlias TrackerAliasProofs.
Open Scope Z_scope.

Definition same_graph (t t' : istate) : Prop :=
  st_nicks t' = st_nicks t /\ st_chans t' = st_chans t /\ st_me t' = st_me t
  /\ h_nick t' = h_nick t /\ h_chan t' = h_chan t.
Definition heaps_eq_at (s s' : astate) (a : addr) : Prop :=
  h_priv (a_tr s') !! a = h_priv (a_tr s) !! a /\ a_rnick s' !! a = a_rnick s !! a
  /\ a_rchan s' !! a = a_rchan s !! a /\ a_nmode s' !! a = a_nmode s !! a
  /\ a_cmode s' !! a = a_cmode s !! a /\ a_pmap s' !! a = a_pmap s !! a.
Definition ext_above (b : addr) (s s' : astate) : Prop :=
  same_graph (a_tr s) (a_tr s') /\ (a_next s <= a_next s')%positive
  /\ forall a, (a < b)%positive -> heaps_eq_at s s' a.

Lemma same_graph_refl t : same_graph t t. Proof. by repeat split. Qed.
Lemma same_graph_trans t1 t2 t3 : same_graph t1 t2 -> same_graph t2 t3 -> same_graph t1 t3.
Proof. unfold same_graph. intros (?&?&?&?&?) (?&?&?&?&?). repeat split; congruence. Qed.
Lemma same_graph_sym t1 t2 : same_graph t1 t2 -> same_graph t2 t1.
Proof. unfold same_graph. intros (?&?&?&?&?). repeat split; congruence. Qed.
Lemma pown_same_graph t t' a : same_graph t t' -> pown t' a <-> pown t a.
Proof. intros (_&_&_&E1&E2). unfold pown. by rewrite E1, E2. Qed.
Lemma oown_same_graph t t' a : same_graph t t' -> oown t' a <-> oown t a.
Proof. intros (_&_&_&E1&E2). unfold oown. by rewrite E1, E2. Qed.
Lemma owns_same_graph t t' a : same_graph t t' -> owns t' a <-> owns t a.
Proof. intros G. unfold owns. by rewrite pown_same_graph, oown_same_graph. Qed.

Lemma heaps_eq_at_refl s a : heaps_eq_at s s a. Proof. by repeat split. Qed.
Lemma heaps_eq_at_trans s1 s2 s3 a : heaps_eq_at s1 s2 a -> heaps_eq_at s2 s3 a -> heaps_eq_at s1 s3 a.
Proof. unfold heaps_eq_at. intros (?&?&?&?&?&?) (?&?&?&?&?&?). repeat split; congruence. Qed.
Lemma ext_above_refl b s : ext_above b s s.
Proof. split; [apply same_graph_refl|]. split; [reflexivity|]. intros. apply heaps_eq_at_refl. Qed.
Lemma ext_above_trans b s1 s2 s3 : ext_above b s1 s2 -> ext_above b s2 s3 -> ext_above b s1 s3.
Proof.
  intros (G1 & N1 & H1) (G2 & N2 & H2). split; [eapply same_graph_trans; eauto|]. split; [etrans; eauto|].
  intros a Ha. eapply heaps_eq_at_trans; eauto.
Qed.
Lemma ext_above_weaken b b' s s' : (b' <= b)%positive -> ext_above b s s' -> ext_above b' s s'.
Proof. intros L (G & N & H). split; [done|]. split; [done|]. intros a Ha. apply H. lia. Qed.

(* allocations *)
Lemma ne_of_lt (a b : addr) : (a < b)%positive -> b <> a. Proof. lia. Qed.
Ltac alloc_tac := intros L; split; [by repeat split|]; split; [unfold a_next; simpl; lia|];
  intros a Ha; unfold heaps_eq_at; simpl; repeat split; try done;
  rewrite lookup_insert_ne; [done|]; apply ne_of_lt; unfold a_next in *; lia.
Lemma alloc_nmode_ext b s m : (b <= a_next s)%positive -> ext_above b s (alloc_nmode s m). Proof. alloc_tac. Qed.
Lemma alloc_cmode_ext b s m : (b <= a_next s)%positive -> ext_above b s (alloc_cmode s m). Proof. alloc_tac. Qed.
Lemma alloc_pmap_ext b s m : (b <= a_next s)%positive -> ext_above b s (alloc_pmap s m). Proof. alloc_tac. Qed.
Lemma alloc_rnick_ext b s o : (b <= a_next s)%positive -> ext_above b s (alloc_rnick s o). Proof. alloc_tac. Qed.
Lemma alloc_rchan_ext b s o : (b <= a_next s)%positive -> ext_above b s (alloc_rchan s o). Proof. alloc_tac. Qed.
Lemma alloc_priv_ext b s p : (b <= a_next s)%positive -> ext_above b s (alloc_priv s p). Proof. alloc_tac. Qed.

(* ---------- pmap_set ---------- *)
#[global] Typeclasses Opaque pmap_set.
Lemma elem_of_pmap_set (m : gmap name (option addr)) x : x ∈ pmap_set m <-> exists k, m !! k = Some (Some x).
Proof.
  unfold pmap_set. rewrite elem_of_list_to_set, elem_of_list_omap. split.
  - intros ([k v] & Hin & Hv). simpl in Hv. subst v. apply elem_of_map_to_list in Hin. eauto.
  - intros (k & Hk). exists (k, Some x). split; [by apply elem_of_map_to_list|done].
Qed.
Lemma pmap_set_insert (m : gmap name (option addr)) k y x : x ∈ pmap_set (<[k := y]> m) -> y = Some x \/ x ∈ pmap_set m.
Proof.
  rewrite !elem_of_pmap_set. intros (k' & Hk). apply lookup_insert_Some in Hk as [[_ ?]|[_ ?]]; [by left|right; eauto].
Qed.
Lemma pmap_set_empty x : x ∉ pmap_set ∅.
Proof. rewrite elem_of_pmap_set. intros (k & Hk). by rewrite lookup_empty in Hk. Qed.

(* ---------- privs_Copy, copy_into ---------- *)
Lemma privs_Copy_Some s cp s' r : privs_Copy s (Some cp) = Some (s', r) ->
  exists p, h_priv (a_tr s) !! cp = Some p /\ s' = alloc_priv s p /\ r = Some (a_next s).
Proof. unfold privs_Copy. intros H. inv_opt. eauto. Qed.

Lemma copy_into_Some s ac k cp s' : copy_into privs_Copy s ac k cp = Some s' ->
  exists p m, h_priv (a_tr s) !! cp = Some p /\ a_pmap s !! ac = Some m
              /\ s' = set_pmap (alloc_priv s p) (<[ac := <[k := Some (a_next s)]> m]> (a_pmap s)).
Proof.
  unfold copy_into. intros H. destruct (privs_Copy s (Some cp)) as [[s1 r]|] eqn:E; [|done]. simpl in H.
  apply privs_Copy_Some in E as (p & Hp & -> & ->). simpl in H. destruct (a_pmap s !! ac) as [m|] eqn:Hm; [|done].
  simpl in H. inversion H; subst. eauto 10.
Qed.

(* the map under construction at [ac] holds fresh addresses only *)
Definition wf_build (b ac : addr) (s : astate) : Prop :=
  (b <= ac < a_next s)%positive /\
  exists m, a_pmap s !! ac = Some m /\ forall x, x ∈ pmap_set m -> (b <= x < a_next s)%positive.
(* the loop touches the ChanPrivs heap and the map at [ac] only *)
Definition keeps_structs (s s' : astate) : Prop :=
  a_rnick s' = a_rnick s /\ a_rchan s' = a_rchan s /\ a_nmode s' = a_nmode s /\ a_cmode s' = a_cmode s.
Definition build_rel (b ac : addr) (s s' : astate) : Prop :=
  wf_build b ac s -> ext_above b s s' /\ wf_build b ac s' /\ keeps_structs s s'.

Lemma build_rel_refl b ac s : build_rel b ac s s.
Proof. intros W. split; [apply ext_above_refl|]. split; [done|]. by repeat split. Qed.
Lemma build_rel_trans b ac s1 s2 s3 : build_rel b ac s1 s2 -> build_rel b ac s2 s3 -> build_rel b ac s1 s3.
Proof.
  intros R1 R2 W. destruct (R1 W) as (E1 & W1 & K1). destruct (R2 W1) as (E2 & W2 & K2).
  split; [eapply ext_above_trans; eauto|]. split; [done|].
  destruct K1 as (?&?&?&?), K2 as (?&?&?&?). repeat split; congruence.
Qed.
Lemma copy_into_build b ac s k cp s' : copy_into privs_Copy s ac k cp = Some s' -> build_rel b ac s s'.
Proof.
  intros H W. apply copy_into_Some in H as (p & m & Hp & Hm & ->). destruct W as (L & m' & Hm' & Hfresh).
  rewrite Hm in Hm'. inversion Hm'; subst m'. split; [|split].
  - eapply ext_above_trans; [apply (alloc_priv_ext b s p); lia|].
    split; [apply same_graph_refl|]. split; [reflexivity|]. intros a Ha. unfold heaps_eq_at. simpl. repeat split; try done.
    rewrite lookup_insert_ne; [done|]. lia.
  - split; [unfold a_next in *; simpl; lia|]. exists (<[k := Some (a_next s)]> m). split; [simpl; by rewrite lookup_insert|].
    intros x Hx. apply pmap_set_insert in Hx as [E|Hx].
    + inversion E; subst. unfold a_next in *; simpl; lia.
    + specialize (Hfresh x Hx). unfold a_next in *; simpl; lia.
  - by repeat split.
Qed.

Section Snap.
Variable enumA : gmap addr addr -> list (addr * addr).
Variable enumN : gmap name addr -> list (name * addr).
Hypothesis enumA_perm : forall m, enumA m ≡ₚ map_to_list m.
Hypothesis enumN_perm : forall m, enumN m ≡ₚ map_to_list m.

Notation al_Nick := (al_Nick enumA privs_Copy).
Notation al_Channel := (al_Channel enumA privs_Copy).
Notation al_step := (al_step enumA enumN privs_Copy).

(* everything reachable from the result lies in [b, next) *)
Definition fresh_set (b : addr) (s' : astate) (X : gset addr) : Prop := forall x, x ∈ X -> (b <= x < a_next s')%positive.

Lemma al_Nick_fresh s nk s' an : al_Nick s nk = Some (s', an) ->
  ext_above (a_next s) s s' /\ fresh_set (a_next s) s' (reach_nick s' an).
Proof.
  unfold TrackerAlias.al_Nick. intros H. destruct (h_nick (a_tr s) !! nk) as [o|]; [|done]. simpl in H.
  set (b := a_next s) in *. set (s1 := alloc_nmode s (no_modes o)) in *. set (ac := a_next s1) in *.
  set (s2 := alloc_pmap s1 ∅) in *. set (an0 := a_next s2) in *.
  set (s3 := alloc_rnick s2 _) in *.
  destruct (foldM _ s3 _) as [s4|] eqn:E; [|done]. simpl in H. inversion H; subst s' an. clear H.
  assert (ext_above b s s3) as E3.
  { eapply ext_above_trans; [apply alloc_nmode_ext; reflexivity|].
    eapply ext_above_trans; [apply alloc_pmap_ext; unfold b, s1, a_next; simpl; lia|].
    apply alloc_rnick_ext. unfold b, s2, s1, a_next; simpl; lia. }
  assert (wf_build b ac s3) as W3.
  { split; [unfold b, ac, s3, s2, s1, a_next; simpl; lia|]. exists ∅. split.
    - unfold s3, s2, ac. simpl. by rewrite lookup_insert.
    - intros x Hx. by apply pmap_set_empty in Hx. }
  assert (build_rel b ac s3 s4) as R.
  { eapply (foldM_rel (build_rel b ac)); [apply build_rel_refl|apply build_rel_trans| |exact E].
    intros t x t' _ Hf. simpl in Hf. destruct (h_chan (a_tr t) !! x.1); [|done]. eapply copy_into_build; eauto. }
  destruct (R W3) as (E4 & (L4 & m & Hm & Hfresh) & (K1 & _ & _ & _)).
  split; [eapply ext_above_trans; eauto|].
  intros x Hx. unfold reach_nick in Hx. rewrite K1 in Hx.
  assert (a_rnick s3 !! an0 = Some (Build_rnickobj (no_nick o) (no_ident o) (no_host o) (no_name o) (Some b) (Some ac))) as Hn.
  { unfold s3, an0. simpl. by rewrite lookup_insert. }
  rewrite Hn in Hx. simpl in Hx. unfold map_reach in Hx. simpl in Hx. rewrite Hm in Hx.
  assert (b <= an0 < a_next s4)%positive as Ln.
  { destruct E4 as (_ & N4 & _). unfold an0, b, s3, s2, s1, a_next in *; simpl in *; lia. }
  assert (b < a_next s4)%positive by lia.
  set_unfold in Hx. destruct Hx as [Hx|[Hx|[Hx|Hx]]]; [rewrite Hx; lia..|]. by apply Hfresh.
Qed.

Lemma al_Channel_fresh s ch s' an : al_Channel s ch = Some (s', an) ->
  ext_above (a_next s) s s' /\ fresh_set (a_next s) s' (reach_chan s' an).
Proof.
  unfold TrackerAlias.al_Channel. intros H. destruct (h_chan (a_tr s) !! ch) as [o|]; [|done]. simpl in H.
  set (b := a_next s) in *. set (s1 := alloc_cmode s (co_modes o)) in *. set (ac := a_next s1) in *.
  set (s2 := alloc_pmap s1 ∅) in *. set (an0 := a_next s2) in *.
  set (s3 := alloc_rchan s2 _) in *.
  destruct (foldM _ s3 _) as [s4|] eqn:E; [|done]. simpl in H. inversion H; subst s' an. clear H.
  assert (ext_above b s s3) as E3.
  { eapply ext_above_trans; [apply alloc_cmode_ext; reflexivity|].
    eapply ext_above_trans; [apply alloc_pmap_ext; unfold b, s1, a_next; simpl; lia|].
    apply alloc_rchan_ext. unfold b, s2, s1, a_next; simpl; lia. }
  assert (wf_build b ac s3) as W3.
  { split; [unfold b, ac, s3, s2, s1, a_next; simpl; lia|]. exists ∅. split.
    - unfold s3, s2, ac. simpl. by rewrite lookup_insert.
    - intros x Hx. by apply pmap_set_empty in Hx. }
  assert (build_rel b ac s3 s4) as R.
  { eapply (foldM_rel (build_rel b ac)); [apply build_rel_refl|apply build_rel_trans| |exact E].
    intros t x t' _ Hf. simpl in Hf. destruct (h_nick (a_tr t) !! x.1); [|done]. eapply copy_into_build; eauto. }
  destruct (R W3) as (E4 & (L4 & m & Hm & Hfresh) & (_ & K1 & _ & _)).
  split; [eapply ext_above_trans; eauto|].
  intros x Hx. unfold reach_chan in Hx. rewrite K1 in Hx.
  assert (a_rchan s3 !! an0 = Some (Build_rchanobj (co_name o) (co_topic o) (Some b) (Some ac))) as Hn.
  { unfold s3, an0. simpl. by rewrite lookup_insert. }
  rewrite Hn in Hx. simpl in Hx. unfold map_reach in Hx. simpl in Hx. rewrite Hm in Hx.
  assert (b <= an0 < a_next s4)%positive as Ln.
  { destruct E4 as (_ & N4 & _). unfold an0, b, s3, s2, s1, a_next in *; simpl in *; lia. }
  assert (b < a_next s4)%positive by lia.
  set_unfold in Hx. destruct Hx as [Hx|[Hx|[Hx|Hx]]]; [rewrite Hx; lia..|]. by apply Hfresh.
Qed.

Lemma privs_Copy_fresh s cp s' r : privs_Copy s cp = Some (s', r) ->
  ext_above (a_next s) s s' /\ fresh_set (a_next s) s' (opt_set r).
Proof.
  destruct cp as [cp|]; simpl.
  - intros H. apply privs_Copy_Some in H as (p & Hp & -> & ->). split; [apply alloc_priv_ext; reflexivity|].
    intros x Hx. simpl in Hx. set_unfold in Hx. subst. unfold a_next; simpl; lia.
  - intros H. inversion H; subst. split; [apply ext_above_refl|]. intros x Hx. simpl in Hx. set_solver.
Qed.

Local Arguments privs_Copy : simpl never.
Local Arguments TrackerAlias.al_Nick : simpl never.
Local Arguments TrackerAlias.al_Channel : simpl never.
(* (R) one whole method call *)
Lemma al_step_build s o s' v r : al_step s o = Some (s', v, r) ->
  exists t1, im_step enumA enumN (a_tr s) o = Some (t1, r)
             /\ ext_above (h_next t1) (with_tr s t1) s' /\ fresh_set (h_next t1) s' (reach s' v).
Proof.
  unfold TrackerAlias.al_step. intros H. destruct (im_step enumA enumN (a_tr s) o) as [[t1 r1]|] eqn:E; [|done].
  simpl in H. exists t1.
  assert (forall X, fresh_set (h_next t1) (with_tr s t1) X -> X = ∅ -> True) as _ by done.
  assert (ext_above (h_next t1) (with_tr s t1) (with_tr s t1) /\ fresh_set (h_next t1) (with_tr s t1) ∅) as Triv.
  { split; [apply ext_above_refl|]. intros x Hx. set_solver. }
  destruct r1 as [[sn|]|[sc|]|p ok|[p|]|].
  - destruct (nick_target (a_tr s) t1 o) as [nk|]; [|done]. simpl in H.
    destruct (al_Nick (with_tr s t1) nk) as [[s4 an]|] eqn:EN; [|done]. simpl in H. inversion H; subst.
    split; [done|]. apply (al_Nick_fresh _ _ _ _ EN).
  - inversion H; subst. split; [done|]. exact Triv.
  - destruct (chan_target (a_tr s) t1 o) as [ch|]; [|done]. simpl in H.
    destruct (al_Channel (with_tr s t1) ch) as [[s4 an]|] eqn:EN; [|done]. simpl in H. inversion H; subst.
    split; [done|]. apply (al_Channel_fresh _ _ _ _ EN).
  - inversion H; subst. split; [done|]. exact Triv.
  - destruct o; try done. destruct (st_nicks t1 !! n) as [nk|]; [|inversion H; subst; split; [done|exact Triv]].
    destruct (st_chans t1 !! c) as [ch|]; [|inversion H; subst; split; [done|exact Triv]].
    unfold al_isOn in H. simpl in H. destruct (h_nick t1 !! nk) as [ob|]; [|done]. simpl in H.
    destruct (privs_Copy (with_tr s t1) (no_chans ob !! ch)) as [[s4 r4]|] eqn:EC; [|done]. simpl in H. inversion H; subst.
    split; [done|]. destruct (privs_Copy_fresh _ _ _ _ EC) as (X1 & X2). split; [done|].
    intros x Hx. apply X2. simpl in Hx. destruct r4; [|set_solver]. done.
  - destruct o; try done. destruct (st_nicks t1 !! n) as [nk|]; [|done]. simpl in H.
    destruct (st_chans t1 !! c) as [ch|]; [|done]. simpl in H. destruct (h_nick t1 !! nk) as [ob|]; [|done]. simpl in H.
    destruct (no_chans ob !! ch) as [cp|]; [|done]. simpl in H.
    destruct (privs_Copy (with_tr s t1) (Some cp)) as [[s4 r4]|] eqn:EC; [|done]. simpl in H. inversion H; subst.
    split; [done|]. destruct (privs_Copy_fresh _ _ _ _ EC) as (X1 & X2). split; [done|].
    intros x Hx. apply X2. simpl in Hx. destruct r4; [|set_solver]. done.
  - inversion H; subst. split; [done|]. exact Triv.
  - inversion H; subst. split; [done|]. exact Triv.
Qed.

End Snap.

(* ---------- twins ---------- *)
Definition twin (s1 s2 : astate) : Prop :=
  same_graph (a_tr s1) (a_tr s2) /\ h_next (a_tr s2) = h_next (a_tr s1) /\ agree (a_tr s1) (h_priv (a_tr s2)).
Lemma twin_refl s : twin s s.
Proof. split; [apply same_graph_refl|]. split; [done|apply agree_self]. Qed.
Lemma twin_tr s1 s2 : twin s1 s2 -> a_tr s2 = set_h_priv (a_tr s1) (h_priv (a_tr s2)).
Proof.
  intros ((E1 & E2 & E3 & E4 & E5) & E6 & _). destruct (a_tr s1), (a_tr s2). simpl in *. by subst.
Qed.
Lemma twin_of_rel s1 s2 t1' hp' : same_graph (a_tr s1) (a_tr s2) -> agree t1' hp' ->
  twin (with_tr s1 t1') (with_tr s2 (set_h_priv t1' hp')).
Proof. intros _ A. split; [by repeat split|]. split; [done|exact A]. Qed.

Lemma foldM_twin {A S} (T : S -> S -> Prop) (f : S -> A -> option S) l :
  (forall s1 s2 x s1', x ∈ l -> T s1 s2 -> f s1 x = Some s1' -> exists s2', f s2 x = Some s2' /\ T s1' s2') ->
  forall s1 s2 s1', T s1 s2 -> foldM f s1 l = Some s1' -> exists s2', foldM f s2 l = Some s2' /\ T s1' s2'.
Proof.
  induction l as [|x l IH]; intros Hf s1 s2 s1' HT H; simpl in *.
  - inversion H; subst. eauto.
  - destruct (f s1 x) as [sa|] eqn:E; [|done]. destruct (Hf _ _ _ _ (elem_of_list_here _ _) HT E) as (sb & Eb & Tb).
    rewrite Eb. eapply IH; [|exact Tb|exact H]. intros. eapply Hf; eauto. by right.
Qed.

Definition btwin (t0 : istate) (ac : addr) (s1 s2 : astate) : Prop :=
  twin s1 s2 /\ same_graph t0 (a_tr s1) /\ a_pmap s1 !! ac = a_pmap s2 !! ac.

Lemma copy_into_twin t0 ac k cp s1 s2 s1' : pown t0 cp -> btwin t0 ac s1 s2 ->
  copy_into privs_Copy s1 ac k cp = Some s1' -> exists s2', copy_into privs_Copy s2 ac k cp = Some s2' /\ btwin t0 ac s1' s2'.
Proof.
  intros Pc ((G & N & A) & G0 & M) H. apply copy_into_Some in H as (p & m & Hp & Hm & ->).
  assert (pown (a_tr s1) cp) as Pc1 by (by apply (pown_same_graph t0)).
  unfold copy_into, privs_Copy. rewrite (A cp Pc1), Hp. simpl. rewrite <- M, Hm. simpl.
  eexists. split; [reflexivity|]. unfold a_next. rewrite N. split; [|split].
  - split; [destruct G as (?&?&?&?&?); unfold same_graph; simpl; by repeat split|]. split; [simpl; by rewrite N|].
    intros a Ha. change (pown (a_tr s1) a) in Ha. unfold alloc_priv, a_next. simpl. rewrite ?N. destruct (decide (a = h_next (a_tr s1))) as [->|Hne].
    + by rewrite !lookup_insert.
    + rewrite !lookup_insert_ne by done. by apply A.
  - destruct G0 as (?&?&?&?&?); unfold same_graph; simpl; by repeat split.
  - simpl. by rewrite !lookup_insert.
Qed.

Section Twin.
Variable enumA : gmap addr addr -> list (addr * addr).
Variable enumN : gmap name addr -> list (name * addr).
Hypothesis enumA_perm : forall m, enumA m ≡ₚ map_to_list m.
Hypothesis enumN_perm : forall m, enumN m ≡ₚ map_to_list m.
Notation al_Nick := (al_Nick enumA privs_Copy).
Notation al_Channel := (al_Channel enumA privs_Copy).
Notation al_step := (al_step enumA enumN privs_Copy).
Local Arguments privs_Copy : simpl never.
Local Arguments copy_into : simpl never.

Lemma twin_alloc (f : astate -> astate) s1 s2 :
  (forall s, a_tr (f s) = bump (a_tr s)) -> twin s1 s2 -> twin (f s1) (f s2).
Proof.
  intros Hf ((?&?&?&?&?) & N & A). unfold twin. rewrite !Hf. split; [by repeat split|]. split; [simpl; by rewrite N|]. exact A.
Qed.

Lemma al_Nick_twin s1 s2 nk s1' an : twin s1 s2 -> al_Nick s1 nk = Some (s1', an) ->
  exists s2', al_Nick s2 nk = Some (s2', an) /\ twin s1' s2'.
Proof.
  intros T H. unfold TrackerAlias.al_Nick in *. pose proof T as ((G1&G2&G3&G4&G5) & N & A). rewrite G4.
  destruct (h_nick (a_tr s1) !! nk) as [o|] eqn:Ho; [|done]. simpl in *.
  assert (a_next s2 = a_next s1) as N' by exact N. rewrite !N'.
  assert (a_next (alloc_nmode s2 (no_modes o)) = a_next (alloc_nmode s1 (no_modes o))) as N1 by (unfold a_next; simpl; by rewrite N).
  assert (a_next (alloc_pmap (alloc_nmode s2 (no_modes o)) ∅) = a_next (alloc_pmap (alloc_nmode s1 (no_modes o)) ∅)) as N2
    by (unfold a_next; simpl; by rewrite N).
  rewrite ?N1, ?N2.
  set (t0 := a_tr s1).
  match type of H with context [foldM ?f ?s3 ?l] => destruct (foldM f s3 l) as [s4|] eqn:E; [|done] end.
  simpl in H. inversion H; subst s1' an. clear H.
  match type of E with foldM ?f ?s3 ?l = _ =>
    match goal with |- context [foldM ?f2 ?s3' l] =>
      destruct (foldM_twin (btwin (bump (bump (bump t0))) (Pos.succ (a_next s1))) f l) with (s1 := s3) (s2 := s3') (s1' := s4) as (s4' & E' & (T4 & _ & _)) end end.
  - intros u1 u2 [ch cp] u1' Hin BT Hf. simpl in *. pose proof BT as ((Gu & _) & G0 & _).
    assert (h_chan (a_tr u2) = h_chan (a_tr u1)) as -> by (by destruct Gu as (?&?&?&?&?)).
    destruct (h_chan (a_tr u1) !! ch); [|done]. simpl in *. eapply copy_into_twin; [|exact BT|exact Hf].
    rewrite enumA_perm in Hin. apply elem_of_map_to_list in Hin. left. exists nk, o, ch. simpl. done.
  - split; [|split].
    + apply (twin_alloc (fun s => alloc_rnick s _)); [done|]. apply (twin_alloc (fun s => alloc_pmap s _)); [done|].
      by apply (twin_alloc (fun s => alloc_nmode s _)).
    + by repeat split.
    + simpl. unfold a_next. simpl. rewrite ?N. by rewrite !lookup_insert.
  - exact E.
  - rewrite E'. simpl. eauto.
Qed.

Lemma al_Channel_twin s1 s2 nk s1' an : twin s1 s2 -> al_Channel s1 nk = Some (s1', an) ->
  exists s2', al_Channel s2 nk = Some (s2', an) /\ twin s1' s2'.
Proof.
  intros T H. unfold TrackerAlias.al_Channel in *. pose proof T as ((G1&G2&G3&G4&G5) & N & A). rewrite G5.
  destruct (h_chan (a_tr s1) !! nk) as [o|] eqn:Ho; [|done]. simpl in *.
  assert (a_next s2 = a_next s1) as N' by exact N. rewrite !N'.
  assert (a_next (alloc_cmode s2 (co_modes o)) = a_next (alloc_cmode s1 (co_modes o))) as N1 by (unfold a_next; simpl; by rewrite N).
  assert (a_next (alloc_pmap (alloc_cmode s2 (co_modes o)) ∅) = a_next (alloc_pmap (alloc_cmode s1 (co_modes o)) ∅)) as N2
    by (unfold a_next; simpl; by rewrite N).
  rewrite ?N1, ?N2.
  set (t0 := a_tr s1).
  match type of H with context [foldM ?f ?s3 ?l] => destruct (foldM f s3 l) as [s4|] eqn:E; [|done] end.
  simpl in H. inversion H; subst s1' an. clear H.
  match type of E with foldM ?f ?s3 ?l = _ =>
    match goal with |- context [foldM ?f2 ?s3' l] =>
      destruct (foldM_twin (btwin (bump (bump (bump t0))) (Pos.succ (a_next s1))) f l) with (s1 := s3) (s2 := s3') (s1' := s4) as (s4' & E' & (T4 & _ & _)) end end.
  - intros u1 u2 [ch cp] u1' Hin BT Hf. simpl in *. pose proof BT as ((Gu & _) & G0 & _).
    assert (h_nick (a_tr u2) = h_nick (a_tr u1)) as -> by (by destruct Gu as (?&?&?&?&?)).
    destruct (h_nick (a_tr u1) !! ch); [|done]. simpl in *. eapply copy_into_twin; [|exact BT|exact Hf].
    rewrite enumA_perm in Hin. apply elem_of_map_to_list in Hin. right. exists nk, o, ch. simpl. done.
  - split; [|split].
    + apply (twin_alloc (fun s => alloc_rchan s _)); [done|]. apply (twin_alloc (fun s => alloc_pmap s _)); [done|].
      by apply (twin_alloc (fun s => alloc_cmode s _)).
    + by repeat split.
    + simpl. unfold a_next. simpl. rewrite ?N. by rewrite !lookup_insert.
  - exact E.
  - rewrite E'. simpl. eauto.
Qed.


Lemma privs_Copy_twin s1 s2 cp s1' r : twin s1 s2 -> (forall a, cp = Some a -> pown (a_tr s1) a) ->
  privs_Copy s1 cp = Some (s1', r) -> exists s2', privs_Copy s2 cp = Some (s2', r) /\ twin s1' s2'.
Proof.
  intros T Pc H. destruct cp as [cp|]; [|inversion H; subst; eauto].
  apply privs_Copy_Some in H as (p & Hp & -> & ->). pose proof T as (G & N & A).
  unfold privs_Copy. rewrite (A cp (Pc _ eq_refl)), Hp. simpl. unfold a_next. rewrite N. eexists. split; [reflexivity|].
  split; [destruct G as (?&?&?&?&?); unfold same_graph; simpl; by repeat split|]. split; [simpl; by rewrite N|].
  intros a Ha. change (pown (a_tr s1) a) in Ha. unfold alloc_priv, a_next. simpl. rewrite ?N.
  destruct (decide (a = h_next (a_tr s1))) as [->|Hne].
  - by rewrite !lookup_insert.
  - rewrite !lookup_insert_ne by done. by apply A.
Qed.

(* twins stay twins under every method, hand out the same addresses and compute the same snapshot *)
Theorem al_step_twin s1 s2 o s1' v r : twin s1 s2 -> al_step s1 o = Some (s1', v, r) ->
  exists s2', al_step s2 o = Some (s2', v, r) /\ twin s1' s2'.
Proof.
  intros T H. unfold TrackerAlias.al_step in *. rewrite (twin_tr _ _ T).
  destruct (im_step enumA enumN (a_tr s1) o) as [[t1 r1]|] eqn:E; [|done]. simpl in H.
  destruct T as (G & N & A).
  destruct (im_step_rel enumA enumN enumA_perm _ _ _ _ _ A E) as (hp' & E' & A' & _). rewrite E'. simpl.
  assert (twin (with_tr s1 t1) (with_tr s2 (set_h_priv t1 hp'))) as T1 by (by apply twin_of_rel).
  assert (nick_target (set_h_priv (a_tr s1) (h_priv (a_tr s2))) (set_h_priv t1 hp') o = nick_target (a_tr s1) t1 o) as -> by (by destruct o).
  assert (chan_target (set_h_priv (a_tr s1) (h_priv (a_tr s2))) (set_h_priv t1 hp') o = chan_target (a_tr s1) t1 o) as -> by (by destruct o).
  destruct r1 as [[sn|]|[sc|]|p ok|[p|]|].
  - destruct (nick_target (a_tr s1) t1 o) as [nk|]; [|done]. simpl in *.
    destruct (al_Nick (with_tr s1 t1) nk) as [[s4 an]|] eqn:EN; [|done]. simpl in H. inversion H; subst.
    destruct (al_Nick_twin _ _ _ _ _ T1 EN) as (s4' & EN' & T4). rewrite EN'. simpl. eauto.
  - inversion H; subst. eauto.
  - destruct (chan_target (a_tr s1) t1 o) as [ch|]; [|done]. simpl in *.
    destruct (al_Channel (with_tr s1 t1) ch) as [[s4 an]|] eqn:EN; [|done]. simpl in H. inversion H; subst.
    destruct (al_Channel_twin _ _ _ _ _ T1 EN) as (s4' & EN' & T4). rewrite EN'. simpl. eauto.
  - inversion H; subst. eauto.
  - destruct o; try done. simpl in *. destruct (st_nicks t1 !! n) as [nk|]; [|inversion H; subst; eauto].
    destruct (st_chans t1 !! c) as [ch|]; [|inversion H; subst; eauto].
    unfold al_isOn in *. simpl in *. destruct (h_nick t1 !! nk) as [ob|] eqn:Hob; [|done]. simpl in *.
    destruct (privs_Copy (with_tr s1 t1) (no_chans ob !! ch)) as [[s4 r4]|] eqn:EC; [|done]. simpl in H. inversion H; subst.
    destruct (privs_Copy_twin _ _ _ _ _ T1 (fun a Ha => pown_nick_priv t1 nk ob ch a Hob Ha) EC) as (s4' & EC' & T4).
    rewrite EC'. simpl. eauto.
  - destruct o; try done. simpl in *. destruct (st_nicks t1 !! n) as [nk|]; [|done]. simpl in *.
    destruct (st_chans t1 !! c) as [ch|]; [|done]. simpl in *. destruct (h_nick t1 !! nk) as [ob|] eqn:Hob; [|done]. simpl in *.
    destruct (no_chans ob !! ch) as [cp|] eqn:Hcp; [|done]. simpl in *.
    destruct (privs_Copy (with_tr s1 t1) (Some cp)) as [[s4 r4]|] eqn:EC; [|done]. simpl in H. inversion H; subst.
    assert (forall a, Some cp = Some a -> pown t1 a) as Pc.
    { intros a Ea. inversion Ea; subst. eapply pown_nick_priv; eauto. }
    destruct (privs_Copy_twin _ _ _ _ _ T1 Pc EC) as (s4' & EC' & T4). rewrite EC'. simpl. eauto.
  - inversion H; subst. eauto.
  - inversion H; subst. eauto.
Qed.

End Twin.
