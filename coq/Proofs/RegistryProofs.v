(* Proofs/RegistryProofs.v — C04: the doubly-linked-list representation invariant of hSet,
   refinement to the abstract registration list, exactly-once over histories, and the
   interval (linearisability) form of the property predicate. *)
From Verif Require Import GoBytes GoBytesFacts Registry.
Open Scope nat_scope.

(* ================= association lists ================= *)
Lemma alookup_delete_eq {V} (m : amap V) k : alookup (adelete m k) k = None.
Proof.
  induction m as [|[k' v] m IH]; cbn; [reflexivity|].
  destruct (beq k' k) eqn:E; [exact IH|]. cbn. rewrite E. exact IH.
Qed.
Lemma alookup_delete_ne {V} (m : amap V) k k' : k <> k' -> alookup (adelete m k) k' = alookup m k'.
Proof.
  intros Hne. induction m as [|[k0 v] m IH]; cbn; [reflexivity|].
  destruct (beq k0 k) eqn:E.
  - apply beq_eq in E. subst k0. destruct (beq k k') eqn:E2; [apply beq_eq in E2; contradiction|exact IH].
  - cbn. destruct (beq k0 k'); [reflexivity|exact IH].
Qed.
Lemma alookup_insert_eq {V} (m : amap V) k v : alookup (ainsert m k v) k = Some v.
Proof. unfold ainsert. cbn. rewrite beq_refl. reflexivity. Qed.
Lemma alookup_insert_ne {V} (m : amap V) k k' v : k <> k' -> alookup (ainsert m k v) k' = alookup m k'.
Proof.
  intros Hne. unfold ainsert. cbn. destruct (beq k k') eqn:E; [apply beq_eq in E; contradiction|].
  apply alookup_delete_ne. exact Hne.
Qed.

(* ================= heap ================= *)
Lemma length_upd hp i nd : length (upd hp i nd) = length hp.
Proof. revert i. induction hp as [|x hp IH]; intros [|i]; cbn; auto. Qed.
Lemma nth_upd_eq hp i nd : i < length hp -> nth_error (upd hp i nd) i = Some nd.
Proof. revert i. induction hp as [|x hp IH]; intros [|i] H; cbn in *; try lia; auto. apply IH. lia. Qed.
Lemma nth_upd_ne hp i j nd : i <> j -> nth_error (upd hp i nd) j = nth_error hp j.
Proof.
  revert i j. induction hp as [|x hp IH]; intros [|i] [|j] H; cbn; auto; try congruence.
Qed.
Lemma nth_some_lt {A} (l : list A) i x : nth_error l i = Some x -> i < length l.
Proof. intros H. apply nth_error_Some. congruence. Qed.
Lemma hget_ok hp i nd : nth_error hp i = Some nd -> hget hp i = Ok nd.
Proof. unfold hget. intros ->. reflexivity. Qed.
Lemma nth_snoc_old {A} (l : list A) x i : i < length l -> nth_error (l ++ [x]) i = nth_error l i.
Proof. intros H. apply nth_error_app1. exact H. Qed.
Lemma nth_snoc_new {A} (l : list A) x : nth_error (l ++ [x]) (length l) = Some x.
Proof. rewrite nth_error_app2 by lia. rewrite Nat.sub_diag. reflexivity. Qed.

(* ================= the ids of the live nodes of one name ================= *)
Definition live (hp : heap) (n : bytes) (i : nid) : bool :=
  match nth_error hp i with Some nd => n_in nd && beq (n_ev nd) n | None => false end.
Definition ids_of (hp : heap) (n : bytes) : list nid := filter (live hp n) (seq 0 (length hp)).

Lemma In_ids_of hp n i :
  In i (ids_of hp n) <-> exists nd, nth_error hp i = Some nd /\ n_in nd = true /\ n_ev nd = n.
Proof.
  unfold ids_of. rewrite filter_In, in_seq. unfold live. split.
  - intros [_ H]. destruct (nth_error hp i) as [nd|]; [|discriminate].
    apply andb_true_iff in H. destruct H as [H1 H2]. apply beq_eq in H2. eauto.
  - intros (nd & H1 & H2 & H3). split.
    + apply nth_some_lt in H1. lia.
    + rewrite H1, H2, H3, beq_refl. reflexivity.
Qed.
Lemma ids_of_NoDup hp n : NoDup (ids_of hp n).
Proof. apply NoDup_filter, seq_NoDup. Qed.
Lemma filter_len_le {A} (f : A -> bool) l : length (filter f l) <= length l.
Proof. induction l as [|x l IH]; cbn; [lia|]. destruct (f x); cbn; lia. Qed.
Lemma ids_of_length hp n : length (ids_of hp n) <= length hp.
Proof. unfold ids_of. etransitivity; [apply filter_len_le|]. rewrite seq_length. lia. Qed.
Lemma ids_of_ext hp hp' n :
  length hp = length hp' -> (forall i, i < length hp -> live hp n i = live hp' n i) -> ids_of hp n = ids_of hp' n.
Proof.
  intros HL H. unfold ids_of. rewrite <- HL. apply filter_ext_in. intros i Hi. apply in_seq in Hi. apply H. lia.
Qed.
Lemma ids_of_snoc hp nd n :
  ids_of (hp ++ [nd]) n = ids_of hp n ++ (if n_in nd && beq (n_ev nd) n then [length hp] else []).
Proof.
  unfold ids_of. rewrite app_length. cbn [length]. rewrite Nat.add_1_r, seq_S, filter_app. cbn [Nat.add filter].
  f_equal.
  - apply filter_ext_in. intros i Hi. apply in_seq in Hi. unfold live. rewrite nth_snoc_old by lia. reflexivity.
  - unfold live. rewrite nth_snoc_new. destruct (n_in nd && beq (n_ev nd) n); reflexivity.
Qed.
Lemma filter_filter_ext {A} (f g f' : A -> bool) l :
  (forall x, In x l -> f' x = f x && g x) -> filter f' l = filter g (filter f l).
Proof.
  induction l as [|x l IH]; intros H; cbn; [reflexivity|].
  rewrite (H x (or_introl eq_refl)). destruct (f x); cbn.
  - destruct (g x); [f_equal|]; apply IH; intros; apply H; right; assumption.
  - apply IH; intros; apply H; right; assumption.
Qed.
Lemma ids_of_detach hp r hn n :
  nth_error hp r = Some hn ->
  ids_of (upd hp r (detach hn)) n = filter (fun i => negb (Nat.eqb i r)) (ids_of hp n).
Proof.
  intros Hr. unfold ids_of. rewrite length_upd. apply filter_filter_ext. intros i Hi.
  unfold live. destruct (Nat.eqb_spec i r) as [->|Hne].
  - rewrite nth_upd_eq by (eapply nth_some_lt; eauto). cbn. rewrite Hr. rewrite andb_false_r. reflexivity.
  - rewrite nth_upd_ne by congruence. rewrite andb_true_r. reflexivity.
Qed.
Lemma filter_notin_id (l : list nid) r : ~ In r l -> filter (fun i => negb (Nat.eqb i r)) l = l.
Proof.
  induction l as [|x l IH]; intros H; cbn; [reflexivity|].
  destruct (Nat.eqb_spec x r) as [->|Hne]; [exfalso; apply H; left; reflexivity|].
  cbn. f_equal. apply IH. intros Hin. apply H. right. exact Hin.
Qed.
Lemma filter_split_mid (l1 l2 : list nid) r :
  NoDup (l1 ++ r :: l2) -> filter (fun i => negb (Nat.eqb i r)) (l1 ++ r :: l2) = l1 ++ l2.
Proof.
  intros ND. rewrite filter_app. cbn. rewrite Nat.eqb_refl. cbn.
  apply NoDup_remove_2 in ND. rewrite in_app_iff in ND.
  rewrite !filter_notin_id; tauto.
Qed.

(* ================= list segments ================= *)
Definition onext (l : list nid) (nx : option nid) : option nid :=
  match l with [] => nx | y :: _ => Some y end.
Definition olast (p : option nid) (l : list nid) : option nid :=
  match l with [] => p | x :: _ => Some (last l x) end.
Fixpoint chainx (hp : heap) (p : option nid) (l : list nid) (nx : option nid) : Prop :=
  match l with
  | [] => True
  | x :: l' => exists nd, nth_error hp x = Some nd /\ n_prev nd = p /\ n_next nd = onext l' nx
                          /\ chainx hp (Some x) l' nx
  end.

Lemma last_cons_irrel (l : list nid) x d d' : last (x :: l) d = last (x :: l) d'.
Proof. revert x. induction l as [|y l IH]; intros x; [reflexivity|]. cbn [last] in *. apply IH. Qed.
Lemma last_cons_cons (l : list nid) x y d : last (x :: y :: l) d = last (y :: l) d.
Proof. reflexivity. Qed.
Lemma last_app_cons (l1 l2 : list nid) y d : last (l1 ++ y :: l2) d = last (y :: l2) d.
Proof.
  induction l1 as [|x l1 IH]; [reflexivity|].
  cbn [app]. destruct (l1 ++ y :: l2) eqn:E; [destruct l1; discriminate|]. rewrite last_cons_cons. exact IH.
Qed.
Lemma olast_cons p x l : olast p (x :: l) = olast (Some x) l.
Proof.
  destruct l as [|y l]; [reflexivity|]. cbn [olast]. rewrite last_cons_cons. f_equal. apply last_cons_irrel.
Qed.

Lemma last_In (l : list nid) y d : In (last (y :: l) d) (y :: l).
Proof.
  revert y. induction l as [|x l IH]; intros y; [left; reflexivity|].
  rewrite last_cons_cons. right. apply IH.
Qed.
Lemma chainx_frame hp hp' p l nx :
  (forall i, In i l -> nth_error hp' i = nth_error hp i) -> chainx hp p l nx -> chainx hp' p l nx.
Proof.
  revert p. induction l as [|x l IH]; intros p H C; cbn in *; [exact I|].
  destruct C as (nd & H1 & H2 & H3 & H4). exists nd. rewrite H by (left; reflexivity).
  repeat split; auto.
Qed.
Lemma chainx_app hp p l1 l2 nx :
  chainx hp p (l1 ++ l2) nx <-> chainx hp p l1 (onext l2 nx) /\ chainx hp (olast p l1) l2 nx.
Proof.
  revert p. induction l1 as [|x l1 IH]; intros p.
  - cbn. tauto.
  - rewrite olast_cons. cbn [app chainx]. split.
    + intros (nd & H1 & H2 & H3 & H4). apply IH in H4. destruct H4 as [H4 H5]. split; [|exact H5].
      exists nd. repeat split; auto. rewrite H3. destruct l1; reflexivity.
    + intros [(nd & H1 & H2 & H3 & H4) H5]. exists nd. repeat split; auto.
      * rewrite H3. destruct l1; reflexivity.
      * apply IH. split; assumption.
Qed.
Lemma chainx_set_last_next hp p l nx nx' en d :
  chainx hp p l nx -> NoDup l -> l <> [] -> nth_error hp (last l d) = Some en ->
  chainx (upd hp (last l d) (set_next en nx')) p l nx'.
Proof.
  revert p. induction l as [|x l IH]; intros p C ND NE Hl; [congruence|].
  destruct l as [|y l].
  - cbn in *. destruct C as (nd & H1 & H2 & H3 & _). exists (set_next en nx').
    rewrite nth_upd_eq by (eapply nth_some_lt; eauto). rewrite H1 in Hl. inversion Hl; subst en.
    repeat split; auto.
  - rewrite last_cons_cons in *. cbn [chainx] in C. destruct C as (nd & H1 & H2 & H3 & H4).
    cbn [chainx]. exists nd. inversion ND as [|? ? Hnin ND']; subst.
    assert (Hx : last (y :: l) d <> x).
    { intros E. apply Hnin. rewrite <- E. apply last_In. }
    rewrite nth_upd_ne by exact Hx. repeat split; auto.
    apply IH; auto. discriminate.
Qed.
Lemma chainx_set_first_prev hp p p' y l nx yn :
  chainx hp p (y :: l) nx -> nth_error hp y = Some yn -> ~ In y l ->
  chainx (upd hp y (set_prev yn p')) p' (y :: l) nx.
Proof.
  intros C Hy Hnin. cbn [chainx] in *. destruct C as (nd & H1 & H2 & H3 & H4).
  rewrite H1 in Hy. inversion Hy; subst yn. exists (set_prev nd p').
  rewrite nth_upd_eq by (eapply nth_some_lt; eauto). repeat split; auto.
  eapply chainx_frame; [|exact H4]. intros i Hi. apply nth_upd_ne. intros ->. contradiction.
Qed.

(* ================= the representation invariant ================= *)
Definition entry_of (l : list nid) : option hlist :=
  match l with [] => None | x :: _ => Some {| l_start := Some x; l_end := Some (last l x) |} end.
Record dll_ok (s : hset) : Prop := {
  dll_chain : forall n, chainx (hs_heap s) None (ids_of (hs_heap s) n) None;
  dll_set : forall n, alookup (hs_set s) n = entry_of (ids_of (hs_heap s) n);
  dll_out : forall i nd, nth_error (hs_heap s) i = Some nd -> n_in nd = false ->
                         n_next nd = None /\ n_prev nd = None
}.
Lemma dll_ok_init : dll_ok handler_set.
Proof. split; cbn; intros; auto. destruct i; discriminate. Qed.

(* ---------- getHandlers never runs out of fuel and returns the segment ---------- *)
Lemma walk_chain hp l : forall fuel p acc,
  chainx hp p l None -> length l <= fuel -> walk hp fuel (onext l None) acc = Ok (rev acc ++ l).
Proof.
  induction l as [|x l IH]; intros fuel p acc C HL; cbn [onext].
  - destruct fuel; cbn; rewrite app_nil_r; reflexivity.
  - cbn [chainx] in C. destruct C as (nd & H1 & H2 & H3 & H4).
    destruct fuel as [|f]; [cbn in HL; lia|]. cbn [walk]. rewrite (hget_ok _ _ _ H1). cbn [bind].
    rewrite H3. rewrite (IH f (Some x) (x :: acc) H4) by (cbn in HL; lia).
    cbn [rev]. rewrite <- app_assoc. reflexivity.
Qed.
Lemma get_handlers_ok s n : dll_ok s -> hs_get_handlers s n = Ok (ids_of (hs_heap s) n).
Proof.
  intros OK. unfold hs_get_handlers. rewrite (dll_set _ OK n).
  pose proof (dll_chain _ OK n) as C. pose proof (ids_of_length (hs_heap s) n) as HL.
  destruct (ids_of (hs_heap s) n) as [|x l] eqn:E; cbn [entry_of]; [reflexivity|].
  cbn [l_start]. change (Some x) with (onext (x :: l) None).
  rewrite (walk_chain _ _ _ None [] C HL). reflexivity.
Qed.

(* ================= abstraction lemmas ================= *)
(* the handler and the event name of a node never change; nodes are never freed *)
Definition hext (s s' : hset) : Prop :=
  forall i nd, nth_error (hs_heap s) i = Some nd ->
               exists nd', nth_error (hs_heap s') i = Some nd' /\ n_h nd' = n_h nd /\ n_ev nd' = n_ev nd.
Lemma hext_refl s : hext s s.
Proof. intros i nd H. eauto. Qed.
Lemma hext_trans a b c : hext a b -> hext b c -> hext a c.
Proof.
  intros H1 H2 i nd H. destruct (H1 _ _ H) as (nd' & A & B & C). destruct (H2 _ _ A) as (nd'' & A' & B' & C').
  exists nd''. repeat split; congruence.
Qed.

Lemma flat_map_ext_in {A B} (f g : A -> list B) l : (forall x, In x l -> f x = g x) -> flat_map f l = flat_map g l.
Proof.
  induction l as [|x l IH]; intros H; cbn; [reflexivity|]. rewrite H by (left; reflexivity). f_equal.
  apply IH. intros; apply H; right; assumption.
Qed.
Lemma ent_snoc_old hp nd i : i < length hp -> ent (hp ++ [nd]) i = ent hp i.
Proof. intros H. unfold ent. rewrite nth_snoc_old by exact H. reflexivity. Qed.
Lemma ent_upd_same hp e en en' i :
  nth_error hp e = Some en -> n_in en' = n_in en -> n_h en' = n_h en -> n_ev en' = n_ev en ->
  ent (upd hp e en') i = ent hp i.
Proof.
  intros He H1 H2 H3. unfold ent. destruct (Nat.eq_dec e i) as [->|Hne].
  - rewrite nth_upd_eq by (eapply nth_some_lt; eauto). rewrite He, H1, H2, H3. reflexivity.
  - rewrite nth_upd_ne by exact Hne. reflexivity.
Qed.
Lemma live_upd_same hp e en en' n i :
  nth_error hp e = Some en -> n_in en' = n_in en -> n_ev en' = n_ev en ->
  live (upd hp e en') n i = live hp n i.
Proof.
  intros He H1 H3. unfold live. destruct (Nat.eq_dec e i) as [->|Hne].
  - rewrite nth_upd_eq by (eapply nth_some_lt; eauto). rewrite He, H1, H3. reflexivity.
  - rewrite nth_upd_ne by exact Hne. reflexivity.
Qed.
Lemma ids_of_upd_same hp e en en' n :
  nth_error hp e = Some en -> n_in en' = n_in en -> n_ev en' = n_ev en ->
  ids_of (upd hp e en') n = ids_of hp n.
Proof.
  intros. symmetry. apply ids_of_ext; [symmetry; apply length_upd|].
  intros. symmetry. eapply live_upd_same; eauto.
Qed.
Lemma ids_lt hp n i : In i (ids_of hp n) -> i < length hp.
Proof. intros H. apply In_ids_of in H. destruct H as (nd & H & _). eapply nth_some_lt; eauto. Qed.

(* ================= add ================= *)
Lemma add_ok s name h :
  dll_ok s ->
  exists s', hs_add s name h = Ok (s', length (hs_heap s)) /\ dll_ok s'
             /\ abs s' = fst (abs_add (abs s) name h) /\ hext s s'.
Proof.
  intros OK. unfold hs_add. set (ev := to_lower name). destruct s as [st hp]. cbn [hs_set hs_heap] in *.
  pose proof (dll_set _ OK ev) as HS. pose proof (dll_chain _ OK ev) as HC. cbn [hs_set hs_heap] in HS, HC.
  destruct (ids_of hp ev) as [|x l] eqn:E; cbn [entry_of] in HS; rewrite HS.
  - (* first handler of this name *)
    eexists. split; [reflexivity|]. split; [split; cbn [hs_set hs_heap]|split].
    + intros n. rewrite ids_of_snoc. cbn [n_in n_ev andb]. destruct (beq ev n) eqn:En.
      * apply beq_eq in En. subst n. rewrite E. cbn [app chainx onext]. eexists. rewrite nth_snoc_new.
        repeat split; reflexivity.
      * rewrite app_nil_r. eapply chainx_frame; [|apply (dll_chain _ OK n)]. cbn [hs_heap].
        intros i Hi. apply nth_snoc_old. eapply ids_lt; eauto.
    + intros n. rewrite ids_of_snoc. cbn [n_in n_ev andb]. destruct (beq ev n) eqn:En.
      * apply beq_eq in En. subst n. rewrite alookup_insert_eq, E. reflexivity.
      * apply beq_neq in En. rewrite alookup_insert_ne by exact En. rewrite app_nil_r. apply (dll_set _ OK n).
    + intros i nd Hi Hin. destruct (Nat.lt_ge_cases i (length hp)) as [Hlt|Hge].
      * rewrite nth_snoc_old in Hi by exact Hlt. eapply (dll_out _ OK); eauto.
      * assert (i = length hp) by (apply nth_some_lt in Hi; rewrite app_length in Hi; cbn in Hi; lia). subst i.
        rewrite nth_snoc_new in Hi. inversion Hi; subst nd. discriminate.
    + unfold abs, abs_add. cbn [hs_heap fst ar_next ar_regs]. rewrite app_length. cbn [length]. rewrite Nat.add_1_r.
      f_equal. rewrite seq_S, flat_map_app. cbn [Nat.add flat_map]. f_equal.
      * apply flat_map_ext_in. intros i Hi. apply in_seq in Hi. apply ent_snoc_old. lia.
      * unfold ent. rewrite nth_snoc_new. cbn. reflexivity.
    + intros i nd Hi. cbn [hs_heap] in *. exists nd. rewrite nth_snoc_old by (eapply nth_some_lt; eauto). auto.
  - (* appended to the existing list *)
    cbn [l_end l_start]. set (e := last (x :: l) x).
    assert (Hein : In e (ids_of hp ev)) by (rewrite E; apply last_In).
    destruct (proj1 (In_ids_of _ _ _) Hein) as (en & Hen & Henin & Henev).
    rewrite (hget_ok _ _ _ Hen). cbn [bind].
    set (hp1 := upd hp e (set_next en (Some (length hp)))).
    assert (HL1 : length hp1 = length hp) by apply length_upd.
    assert (Hids1 : forall n, ids_of hp1 n = ids_of hp n) by (intros n; eapply ids_of_upd_same; eauto).
    eexists. split; [reflexivity|]. split; [split; cbn [hs_set hs_heap]|split].
    + intros n. rewrite ids_of_snoc, Hids1, HL1. cbn [n_in n_ev andb]. destruct (beq ev n) eqn:En.
      * apply beq_eq in En. subst n. rewrite E. apply chainx_app. cbn [onext]. split.
        -- eapply chainx_frame with (hp := hp1).
           { intros i Hi. apply nth_snoc_old. rewrite HL1. eapply ids_lt. rewrite E. exact Hi. }
           unfold hp1, e. eapply chainx_set_last_next; [exact HC|rewrite <- E; apply ids_of_NoDup|discriminate|exact Hen].
        -- cbn [olast chainx onext]. eexists. rewrite <- HL1, nth_snoc_new.
           repeat split; reflexivity.
      * rewrite app_nil_r. eapply chainx_frame; [|apply (dll_chain _ OK n)]. cbn [hs_heap].
        intros i Hi. rewrite nth_snoc_old by (rewrite HL1; eapply ids_lt; eauto).
        apply nth_upd_ne. intros <-. apply In_ids_of in Hi. destruct Hi as (nd & Hnd & _ & Hev).
        apply beq_neq in En. congruence.
    + intros n. rewrite ids_of_snoc, Hids1, HL1. cbn [n_in n_ev andb]. destruct (beq ev n) eqn:En.
      * apply beq_eq in En. subst n. rewrite alookup_insert_eq, E. cbn [app entry_of]. do 3 f_equal.
        change (x :: l ++ [length hp]) with ((x :: l) ++ [length hp]). rewrite last_app_cons. reflexivity.
      * apply beq_neq in En. rewrite alookup_insert_ne by exact En. rewrite app_nil_r. apply (dll_set _ OK n).
    + intros i nd Hi Hin. destruct (Nat.lt_ge_cases i (length hp)) as [Hlt|Hge].
      * rewrite nth_snoc_old in Hi by (rewrite HL1; exact Hlt). destruct (Nat.eq_dec e i) as [<-|Hne].
        -- unfold hp1 in Hi. rewrite nth_upd_eq in Hi by (eapply nth_some_lt; eauto). inversion Hi; subst nd.
           cbn in Hin. congruence.
        -- unfold hp1 in Hi. rewrite nth_upd_ne in Hi by exact Hne. eapply (dll_out _ OK); eauto.
      * assert (i = length hp1) by (apply nth_some_lt in Hi; rewrite app_length in Hi; cbn in Hi; lia). subst i.
        rewrite nth_snoc_new in Hi. inversion Hi; subst nd. discriminate.
    + unfold abs, abs_add. cbn [hs_heap fst ar_next ar_regs]. rewrite app_length, HL1. cbn [length]. rewrite Nat.add_1_r.
      f_equal. rewrite seq_S, flat_map_app. cbn [Nat.add flat_map]. f_equal.
      * apply flat_map_ext_in. intros i Hi. apply in_seq in Hi. rewrite ent_snoc_old by lia.
        eapply ent_upd_same; eauto.
      * unfold ent. rewrite <- HL1, nth_snoc_new. cbn. reflexivity.
    + intros i nd Hi. cbn [hs_heap] in *. rewrite nth_snoc_old by (rewrite HL1; eapply nth_some_lt; eauto).
      destruct (Nat.eq_dec e i) as [<-|Hne].
      * exists (set_next en (Some (length hp))). unfold hp1. rewrite nth_upd_eq by (eapply nth_some_lt; eauto).
        rewrite Hen in Hi. inversion Hi; subst nd. auto.
      * exists nd. unfold hp1. rewrite nth_upd_ne by exact Hne. auto.
Qed.

(* ================= remove: what the pointer surgery computes ================= *)
Lemma NoDup_app_parts {A} (a b : list A) : NoDup (a ++ b) -> NoDup a /\ NoDup b.
Proof.
  induction a as [|x a IH]; cbn; intros ND; [split; [constructor|exact ND]|].
  inversion ND; subst. destruct (IH H2) as [Ha Hb]. split; [|exact Hb].
  constructor; [|exact Ha]. intros Hin. apply H1. apply in_or_app. left. exact Hin.
Qed.
Lemma NoDup_mid_facts (l1 l2 : list nid) r :
  NoDup (l1 ++ r :: l2) -> ~ In r l1 /\ ~ In r l2 /\ (forall a, In a l1 -> In a l2 -> False) /\ NoDup l1 /\ NoDup l2.
Proof.
  intros ND. pose proof (NoDup_remove_2 _ _ _ ND) as H2. apply NoDup_remove_1 in ND.
  rewrite in_app_iff in H2. repeat split; try tauto.
  - intros a Ha Hb. revert ND Ha Hb. clear. induction l1 as [|x l1 IH]; cbn; intros ND Ha Hb; [tauto|].
    inversion ND; subst. destruct Ha as [->|Ha]; [|eauto]. apply H1. apply in_or_app. right. exact Hb.
  - apply (NoDup_app_parts _ _ ND).
  - apply (NoDup_app_parts _ _ ND).
Qed.

Lemma remove_compute st hp r hn l1 l2 :
  nth_error hp r = Some hn -> n_in hn = true ->
  NoDup (l1 ++ r :: l2) ->
  (forall i, In i (l1 ++ r :: l2) -> exists nd, nth_error hp i = Some nd) ->
  n_prev hn = olast None l1 -> n_next hn = onext l2 None ->
  alookup st (n_ev hn) = entry_of (l1 ++ r :: l2) ->
  exists hp3,
    hs_remove {| hs_set := st; hs_heap := hp |} r =
      Ok {| hs_set := match entry_of (l1 ++ l2) with
                      | Some v => ainsert st (n_ev hn) v
                      | None => adelete st (n_ev hn)
                      end; hs_heap := hp3 |}
    /\ length hp3 = length hp
    /\ nth_error hp3 r = Some (detach hn)
    /\ (forall y l2', l2 = y :: l2' ->
          exists yn, nth_error hp y = Some yn /\ nth_error hp3 y = Some (set_prev yn (olast None l1)))
    /\ (forall x l1', l1 = x :: l1' ->
          exists pn, nth_error hp (last l1 x) = Some pn /\ nth_error hp3 (last l1 x) = Some (set_next pn (onext l2 None)))
    /\ (forall i, i <> r -> (forall y l2', l2 = y :: l2' -> i <> y) ->
                  (forall x l1', l1 = x :: l1' -> i <> last l1 x) -> nth_error hp3 i = nth_error hp i).
Proof.
  intros Hr Hin ND Hex Hp Hn HS.
  destruct (NoDup_mid_facts _ _ _ ND) as (Hr1 & Hr2 & H12 & ND1 & ND2).
  assert (Hrlt : r < length hp) by (eapply nth_some_lt; eauto).
  unfold hs_remove. cbn [hs_set hs_heap]. rewrite (hget_ok _ _ _ Hr). cbn [bind]. rewrite Hin. cbn [negb]. rewrite HS.
  destruct l1 as [|x l1']; destruct l2 as [|y l2']; cbn [olast onext] in Hp, Hn.
  - (* only *)
    cbn [app entry_of]. rewrite Hn. cbn [bind fst snd]. rewrite (hget_ok _ _ _ Hr). cbn [bind]. rewrite Hp.
    cbn [bind fst snd]. rewrite (hget_ok _ _ _ Hr). cbn [bind l_start l_end]. rewrite Hn.
    eexists. split; [reflexivity|]. split; [apply length_upd|]. split; [apply nth_upd_eq; exact Hrlt|].
    split; [intros; discriminate|]. split; [intros; discriminate|].
    intros i Hi _ _. apply nth_upd_ne. congruence.
  - (* first *)
    destruct (Hex y) as (yn & Hy); [right; left; reflexivity|].
    assert (Hyr : y <> r) by (intros ->; apply Hr2; left; reflexivity).
    assert (Hylt : y < length hp) by (eapply nth_some_lt; eauto).
    cbn [app entry_of]. rewrite Hn. rewrite (hget_ok _ _ _ Hy). cbn [bind fst snd].
    unfold hget at 1. rewrite nth_upd_ne by exact Hyr. rewrite Hr. cbn [bind]. rewrite Hp. cbn [bind fst snd].
    unfold hget at 1. rewrite nth_upd_ne by exact Hyr. rewrite Hr. cbn [bind l_start l_end]. rewrite Hn.
    eexists. split.
    { do 3 f_equal. do 2 f_equal. rewrite last_cons_cons. apply last_cons_irrel. }
    split; [rewrite !length_upd; reflexivity|].
    split; [apply nth_upd_eq; rewrite length_upd; exact Hrlt|].
    split.
    { intros y0 l0 Heq. inversion Heq; subst y0 l0. exists yn. split; [exact Hy|].
      rewrite nth_upd_ne by congruence. rewrite nth_upd_eq by exact Hylt. reflexivity. }
    split; [intros; discriminate|].
    intros i Hi Hiy _. rewrite nth_upd_ne by congruence. apply nth_upd_ne. intros ->. eapply Hiy; reflexivity.
  - (* last *)
    remember (last (x :: l1') x) as pv eqn:Epv in *.
    assert (Hpin : In pv (x :: l1')) by (rewrite Epv; apply last_In).
    assert (Hp' : n_prev hn = Some pv) by (rewrite Hp, Epv; reflexivity).
    destruct (Hex pv) as (pn & Hpn); [apply in_or_app; left; exact Hpin|].
    assert (Hpr : pv <> r) by (intros E; apply Hr1; rewrite <- E; exact Hpin).
    assert (Hplt : pv < length hp) by (eapply nth_some_lt; eauto).
    cbn [app entry_of]. rewrite Hn. cbn [bind fst snd]. rewrite (hget_ok _ _ _ Hr). cbn [bind]. rewrite Hp'.
    rewrite (hget_ok _ _ _ Hpn). cbn [bind fst snd].
    unfold hget at 1. rewrite nth_upd_ne by exact Hpr. rewrite Hr. cbn [bind l_start l_end]. rewrite Hn.
    eexists. split.
    { rewrite app_nil_r. cbn [entry_of]. rewrite Epv. reflexivity. }
    split; [rewrite !length_upd; reflexivity|].
    split; [apply nth_upd_eq; rewrite length_upd; exact Hrlt|].
    split; [intros; discriminate|].
    split.
    { intros x0 l0 Heq. inversion Heq; subst x0 l0. exists pn. change (@last nid) with (@last nat). rewrite <- Epv. split; [exact Hpn|].
      rewrite nth_upd_ne by congruence. rewrite nth_upd_eq by exact Hplt. reflexivity. }
    intros i Hi _ Hip. rewrite nth_upd_ne by congruence. apply nth_upd_ne. intros E. subst i.
    eapply Hip; reflexivity.
  - (* middle *)
    remember (last (x :: l1') x) as pv eqn:Epv in *.
    assert (Hpin : In pv (x :: l1')) by (rewrite Epv; apply last_In).
    assert (Hp' : n_prev hn = Some pv) by (rewrite Hp, Epv; reflexivity).
    destruct (Hex pv) as (pn & Hpn); [apply in_or_app; left; exact Hpin|].
    destruct (Hex y) as (yn & Hy); [apply in_or_app; right; right; left; reflexivity|].
    assert (Hpr : pv <> r) by (intros E; apply Hr1; rewrite <- E; exact Hpin).
    assert (Hyr : y <> r) by (intros ->; apply Hr2; left; reflexivity).
    assert (Hyp : y <> pv) by (intros E; apply (H12 pv Hpin); rewrite <- E; left; reflexivity).
    assert (Hplt : pv < length hp) by (eapply nth_some_lt; eauto).
    assert (Hylt : y < length hp) by (eapply nth_some_lt; eauto).
    cbn [app entry_of]. rewrite Hn. rewrite (hget_ok _ _ _ Hy). cbn [bind fst snd].
    unfold hget at 1. rewrite nth_upd_ne by exact Hyr. rewrite Hr. cbn [bind]. rewrite Hp'.
    unfold hget at 1. rewrite nth_upd_ne by exact Hyp. rewrite Hpn. cbn [bind fst snd].
    unfold hget at 1. rewrite nth_upd_ne by exact Hpr. rewrite nth_upd_ne by exact Hyr. rewrite Hr.
    cbn [bind l_start l_end]. rewrite Hn.
    eexists. split.
    { do 3 f_equal. do 2 f_equal. change (x :: l1' ++ r :: y :: l2') with ((x :: l1') ++ r :: y :: l2').
      change (x :: l1' ++ y :: l2') with ((x :: l1') ++ y :: l2').
      rewrite !last_app_cons. rewrite last_cons_cons. reflexivity. }
    split; [rewrite !length_upd; reflexivity|].
    split; [apply nth_upd_eq; rewrite !length_upd; exact Hrlt|].
    split.
    { intros y0 l0 Heq. inversion Heq; subst y0 l0. exists yn. split; [exact Hy|].
      rewrite nth_upd_ne by congruence. rewrite nth_upd_ne by congruence. rewrite nth_upd_eq by exact Hylt.
      rewrite Epv. reflexivity. }
    split.
    { intros x0 l0 Heq. inversion Heq; subst x0 l0. exists pn. change (@last nid) with (@last nat). rewrite <- Epv. split; [exact Hpn|].
      rewrite nth_upd_ne by congruence. rewrite nth_upd_eq by (rewrite length_upd; exact Hplt). reflexivity. }
    intros i Hi Hiy Hip. rewrite nth_upd_ne by congruence. rewrite nth_upd_ne.
    + apply nth_upd_ne. intros ->. eapply Hiy; reflexivity.
    + intros E. subst i. eapply Hip; [reflexivity|exact Epv].
Qed.

Lemma flat_map_filter_pt {A B} (f g : A -> list B) (p : B -> bool) l :
  (forall x, In x l -> f x = filter p (g x)) -> flat_map f l = filter p (flat_map g l).
Proof.
  induction l as [|x l IH]; intros H; cbn; [reflexivity|].
  rewrite filter_app, <- H by (left; reflexivity). f_equal. apply IH. intros; apply H; right; assumption.
Qed.

(* ================= remove preserves the invariant and refines filter ================= *)
Lemma remove_ok s r hn :
  dll_ok s -> nth_error (hs_heap s) r = Some hn -> n_in hn = true ->
  exists s', hs_remove s r = Ok s' /\ dll_ok s' /\ abs s' = abs_remove (abs s) r /\ hext s s'.
Proof.
  intros OK Hr Hin. destruct s as [st hp]. cbn [hs_heap hs_set] in *.
  set (ev := n_ev hn).
  assert (Hrin : In r (ids_of hp ev)) by (apply In_ids_of; eauto).
  destruct (in_split _ _ Hrin) as (l1 & l2 & E).
  pose proof (ids_of_NoDup hp ev) as ND. rewrite E in ND.
  pose proof (dll_chain _ OK ev) as HC. cbn [hs_heap] in HC. rewrite E in HC.
  apply chainx_app in HC. destruct HC as [HA HB]. cbn [chainx] in HB.
  destruct HB as (nd & Hnd & Hp & Hn & HB'). rewrite Hr in Hnd. inversion Hnd; subst nd. clear Hnd.
  pose proof (dll_set _ OK ev) as HS. cbn [hs_heap hs_set] in HS. rewrite E in HS.
  destruct (NoDup_mid_facts _ _ _ ND) as (Hr1 & Hr2 & H12 & ND1 & ND2).
  assert (Hmem : forall i, In i (l1 ++ r :: l2) -> exists nd, nth_error hp i = Some nd /\ n_in nd = true /\ n_ev nd = ev).
  { intros i Hi. rewrite <- E in Hi. apply In_ids_of in Hi. exact Hi. }
  destruct (remove_compute st hp r hn l1 l2 Hr Hin ND) as (hp3 & Hrun & F1 & F2 & F3 & F4 & F5); auto.
  { intros i Hi. destruct (Hmem i Hi) as (nd & ? & _). eauto. }
  (* every node but r keeps its public fields; the touched ones are members of the list *)
  assert (G0 : forall i, i <> r ->
             nth_error hp3 i = nth_error hp i \/
             exists a b, nth_error hp i = Some a /\ nth_error hp3 i = Some b /\ In i (l1 ++ r :: l2)
                         /\ n_in b = n_in a /\ n_ev b = n_ev a /\ n_h b = n_h a).
  { intros i Hir.
    assert (Hy : (exists y l2', l2 = y :: l2' /\ i = y) \/ (forall y l2', l2 = y :: l2' -> i <> y)).
    { destruct l2 as [|y l2']; [right; intros; discriminate|].
      destruct (Nat.eq_dec i y); [left; eauto|right; intros ? ? Heq; inversion Heq; subst; auto]. }
    assert (Hpv : (exists x l1', l1 = x :: l1' /\ i = last l1 x) \/ (forall x l1', l1 = x :: l1' -> i <> last l1 x)).
    { destruct l1 as [|x l1']; [right; intros; discriminate|].
      destruct (Nat.eq_dec i (last (x :: l1') x)); [left; eauto|].
      right. intros x0 l0 Heq. inversion Heq; subst. auto. }
    destruct Hy as [(y & l2' & -> & ->)|Hy].
    { destruct (F3 y l2' eq_refl) as (yn & A & B). right. exists yn, (set_prev yn (olast None l1)).
      repeat split; auto. apply in_or_app. right. right. left. reflexivity. }
    destruct Hpv as [(x & l1' & -> & ->)|Hpv].
    { destruct (F4 x l1' eq_refl) as (pn & A & B). right. exists pn, (set_next pn (onext l2 None)).
      repeat split; auto. apply in_or_app. left. apply last_In. }
    left. apply F5; auto. }
  assert (G1 : forall n i, live hp3 n i = live hp n i && negb (Nat.eqb i r)).
  { intros n i. unfold live. destruct (Nat.eqb_spec i r) as [->|Hne].
    - rewrite F2, Hr. cbn. rewrite andb_false_r. reflexivity.
    - rewrite andb_true_r. destruct (G0 i Hne) as [->|(a & b & A & B & _ & C & D & _)]; [reflexivity|].
      rewrite A, B, C, D. reflexivity. }
  assert (G2 : forall n, ids_of hp3 n = filter (fun i => negb (Nat.eqb i r)) (ids_of hp n)).
  { intros n. unfold ids_of. rewrite F1. apply filter_filter_ext. intros; apply G1. }
  assert (Gev : ids_of hp3 ev = l1 ++ l2) by (rewrite G2, E; apply filter_split_mid; exact ND).
  assert (Gne : forall n, ev <> n -> ids_of hp3 n = ids_of hp n).
  { intros n Hne. rewrite G2. apply filter_notin_id. intros Hi. apply In_ids_of in Hi.
    destruct Hi as (nd & A & _ & B). rewrite Hr in A. inversion A; subst nd. contradiction. }
  assert (Gfr : forall n i, ev <> n -> In i (ids_of hp n) -> nth_error hp3 i = nth_error hp i).
  { intros n i Hne Hi. apply In_ids_of in Hi. destruct Hi as (nd & A & _ & B).
    assert (Hnot : ~ In i (l1 ++ r :: l2)).
    { intros Hi. destruct (Hmem i Hi) as (nd' & A' & _ & B'). congruence. }
    assert (Hir : i <> r) by (intros ->; apply Hnot; apply in_or_app; right; left; reflexivity).
    destruct (G0 i Hir) as [H|(a & b & _ & _ & Hi & _)]; [exact H|contradiction]. }
  eexists. split; [exact Hrun|]. split; [split; cbn [hs_set hs_heap]|split].
  - (* chain *)
    intros n. destruct (beq ev n) eqn:En.
    + apply beq_eq in En. subst n. rewrite Gev. apply chainx_app. split.
      * destruct l1 as [|x l1']; [exact I|]. destruct (F4 x l1' eq_refl) as (pn & Hpn & Hpn3).
        eapply chainx_frame with (hp := upd hp (last (x :: l1') x) (set_next pn (onext l2 None))).
        { intros i Hi. destruct (Nat.eq_dec i (last (x :: l1') x)) as [->|Hne].
          - rewrite nth_upd_eq by (eapply nth_some_lt; eauto). exact Hpn3.
          - rewrite nth_upd_ne by congruence. apply F5.
            + intros ->. contradiction.
            + intros y l2' -> ->. apply (H12 y Hi). left. reflexivity.
            + intros x0 l0 Heq. inversion Heq; subst. exact Hne. }
        eapply chainx_set_last_next; [exact HA|exact ND1|discriminate|exact Hpn].
      * destruct l2 as [|y l2']; [exact I|]. destruct (F3 y l2' eq_refl) as (yn & Hy & Hy3).
        eapply chainx_frame with (hp := upd hp y (set_prev yn (olast None l1))).
        { intros i Hi. destruct (Nat.eq_dec i y) as [->|Hne].
          - rewrite nth_upd_eq by (eapply nth_some_lt; eauto). exact Hy3.
          - rewrite nth_upd_ne by congruence. apply F5.
            + intros ->. contradiction.
            + intros y0 l0 Heq. inversion Heq; subst. exact Hne.
            + intros x l1' -> ->. apply (H12 (last (x :: l1') x)); [apply last_In|exact Hi]. }
        apply chainx_set_first_prev with (p := Some r); [exact HB'|exact Hy|]. inversion ND2; assumption.
    + apply beq_neq in En. rewrite (Gne n En). eapply chainx_frame; [|apply (dll_chain _ OK n)].
      cbn [hs_heap]. intros i Hi. eapply Gfr; eauto.
  - (* set *)
    intros n. destruct (beq ev n) eqn:En.
    + apply beq_eq in En. subst n. rewrite Gev. fold ev.
      destruct (entry_of (l1 ++ l2)); [apply alookup_insert_eq|apply alookup_delete_eq].
    + apply beq_neq in En. rewrite (Gne n En). fold ev. pose proof (dll_set _ OK n) as HSn.
      cbn [hs_set hs_heap] in HSn. rewrite <- HSn.
      destruct (entry_of (l1 ++ l2)); [apply alookup_insert_ne|apply alookup_delete_ne]; exact En.
  - (* detached nodes *)
    intros i nd Hi Hnin. destruct (Nat.eq_dec i r) as [->|Hne].
    + rewrite F2 in Hi. inversion Hi; subst nd. cbn. auto.
    + destruct (G0 i Hne) as [H|(a & b & A & B & Hmi & C & _)].
      * rewrite H in Hi. eapply (dll_out _ OK); eauto.
      * rewrite B in Hi. inversion Hi; subst nd. destruct (Hmem i Hmi) as (a' & A' & Ain & _). congruence.
  - (* abstraction *)
    unfold abs, abs_remove. cbn [hs_heap ar_next ar_regs]. rewrite F1. f_equal.
    apply flat_map_filter_pt. intros i _. unfold ent. destruct (Nat.eq_dec i r) as [->|Hne].
    + rewrite F2, Hr, Hin. cbn. rewrite Nat.eqb_refl. reflexivity.
    + assert (Hk : forall nd, filter (fun e => negb (Nat.eqb (a_id e) r))
                                 (if n_in nd then [{| a_id := i; a_h := n_h nd; a_name := n_ev nd |}] else [])
                              = (if n_in nd then [{| a_id := i; a_h := n_h nd; a_name := n_ev nd |}] else [])).
      { intros nd. destruct (n_in nd); [|reflexivity]. cbn. destruct (Nat.eqb_spec i r); [contradiction|reflexivity]. }
      destruct (G0 i Hne) as [->|(a & b & A & B & _ & C & D & F)].
      * destruct (nth_error hp i); [symmetry; apply Hk|reflexivity].
      * rewrite A, B, C, D, F. symmetry. apply Hk.
  - (* handlers and names are immutable *)
    intros i nd Hi. cbn [hs_heap] in *. destruct (Nat.eq_dec i r) as [->|Hne].
    + rewrite Hr in Hi. inversion Hi; subst nd. exists (detach hn). auto.
    + destruct (G0 i Hne) as [H|(a & b & A & B & _ & _ & D & F)].
      * exists nd. rewrite H. auto.
      * rewrite A in Hi. inversion Hi; subst nd. exists b. auto.
Qed.

(* ================= snapshots ================= *)
Lemma snapshot_ok s cmd : dll_ok s -> hs_snapshot s cmd = Ok (ids_of (hs_heap s) (to_lower cmd)).
Proof. intros OK. apply get_handlers_ok. exact OK. Qed.

Lemma handlers_of_live s s' n L :
  hext s s' ->
  hs_handlers_of s' (filter (live (hs_heap s) n) L)
  = Ok (map a_h (filter (fun e => beq (a_name e) n) (flat_map (ent (hs_heap s)) L))).
Proof.
  intros HX. induction L as [|i L IH]; [reflexivity|].
  cbn [filter flat_map]. rewrite filter_app, map_app. unfold live at 1, ent at 1.
  destruct (nth_error (hs_heap s) i) as [nd|] eqn:Hi; [|exact IH].
  destruct (n_in nd); cbn [andb]; [|exact IH].
  cbn [filter a_name]. destruct (beq (n_ev nd) n); [|exact IH].
  cbn [hs_handlers_of map app a_h]. destruct (HX _ _ Hi) as (nd' & A & B & _).
  unfold hs_handler_of. rewrite (hget_ok _ _ _ A). cbn [bind]. rewrite IH. cbn [bind]. rewrite B. reflexivity.
Qed.
Lemma invoked_ok s s' cmd :
  hext s s' -> hs_handlers_of s' (ids_of (hs_heap s) (to_lower cmd)) = Ok (abs_handlers (abs s) cmd).
Proof. intros HX. unfold ids_of, abs_handlers, abs_entries, abs. cbn [ar_regs]. apply handlers_of_live. exact HX. Qed.

Lemma abs_registered_node s r :
  abs_registered (abs s) r = true -> exists hn, nth_error (hs_heap s) r = Some hn /\ n_in hn = true.
Proof.
  unfold abs_registered, abs. cbn [ar_regs]. intros H. apply existsb_exists in H. destruct H as (e & He & Hid).
  apply in_flat_map in He. destruct He as (i & _ & He). unfold ent in He.
  destruct (nth_error (hs_heap s) i) as [nd|] eqn:Hi; [|contradiction].
  destruct (n_in nd) eqn:Hin; [|contradiction]. destruct He as [<-|[]]. cbn in Hid.
  apply Nat.eqb_eq in Hid. subst i. eauto.
Qed.

(* ================= the three sets of a Conn ================= *)
Lemma tget_tput_eq {A} (c : tri A) k s : tget (tput c k s) k = s.
Proof. destruct k; reflexivity. Qed.
Lemma tget_tput_ne {A} (c : tri A) k k' s : k <> k' -> tget (tput c k s) k' = tget c k'.
Proof. destruct k, k'; intros H; try reflexivity; congruence. Qed.
Lemma tget_tmap {A B} (f : A -> B) c k : tget (tmap f c) k = f (tget c k).
Proof. destruct k; reflexivity. Qed.
Lemma tmap_tput {A B} (f : A -> B) c k s : tmap f (tput c k s) = tput (tmap f c) k (f s).
Proof. destruct k; reflexivity. Qed.
Lemma kind_eq_dec (a b : kind) : {a = b} + {a <> b}.
Proof. decide equality. Qed.

Definition conn_ok (c : conn_sets) : Prop := forall k, dll_ok (tget c k).
Definition cext (c c' : conn_sets) : Prop := forall k, hext (tget c k) (tget c' k).
Lemma conn_ok_init : conn_ok conn_init.
Proof. intros []; apply dll_ok_init. Qed.
Lemma cext_refl c : cext c c.
Proof. intros k. apply hext_refl. Qed.
Lemma cext_trans a b c : cext a b -> cext b c -> cext a c.
Proof. intros H1 H2 k. eapply hext_trans; eauto. Qed.
Lemma conn_ok_put c k s : conn_ok c -> dll_ok s -> conn_ok (tput c k s).
Proof.
  intros H Hs k'. destruct (kind_eq_dec k k') as [<-|Hne]; [rewrite tget_tput_eq; exact Hs|].
  rewrite tget_tput_ne by exact Hne. apply H.
Qed.
Lemma cext_put c k s : hext (tget c k) s -> cext c (tput c k s).
Proof.
  intros Hs k'. destruct (kind_eq_dec k k') as [<-|Hne]; [rewrite tget_tput_eq; exact Hs|].
  rewrite tget_tput_ne by exact Hne. apply hext_refl.
Qed.

Definition step_wf (a : aconn) (st : step) : bool :=
  match st with SRemove k r => abs_registered (tget a k) r | _ => true end.

Definition snaps_agree (c' : conn_sets) (sns : list snap) (hss : list (list hid)) : Prop :=
  Forall2 (fun sn hs => forall c'', cext c' c'' -> invoked c'' sn = Ok hs) sns hss.

Lemma step_refines c st :
  conn_ok c -> step_wf (abs_conn c) st = true ->
  exists c' sns, step_conc c st = Ok (c', sns) /\ conn_ok c' /\ cext c c'
                 /\ abs_conn c' = fst (step_abs (abs_conn c) st)
                 /\ snaps_agree c' sns (snd (step_abs (abs_conn c) st)).
Proof.
  intros OK WF. destruct st as [k name h|k r|k cmd]; cbn [step_conc step_abs fst snd].
  - destruct (add_ok (tget c k) name h (OK k)) as (s' & Hadd & OK' & Habs & HX).
    rewrite Hadd. cbn [bind fst]. do 2 eexists. split; [reflexivity|].
    split; [apply conn_ok_put; assumption|]. split; [apply cext_put; exact HX|].
    split; [|constructor]. unfold abs_conn. rewrite tmap_tput, tget_tmap, Habs. reflexivity.
  - cbn [step_wf] in WF. unfold abs_conn in WF. rewrite tget_tmap in WF.
    destruct (abs_registered_node _ _ WF) as (hn & Hr & Hin).
    destruct (remove_ok (tget c k) r hn (OK k) Hr Hin) as (s' & Hrm & OK' & Habs & HX).
    rewrite Hrm. cbn [bind]. do 2 eexists. split; [reflexivity|].
    split; [apply conn_ok_put; assumption|]. split; [apply cext_put; exact HX|].
    split; [|constructor]. unfold abs_conn. rewrite tmap_tput, tget_tmap, Habs. reflexivity.
  - rewrite (snapshot_ok _ cmd (OK k)). cbn [bind]. do 2 eexists. split; [reflexivity|].
    split; [exact OK|]. split; [apply cext_refl|]. split; [reflexivity|].
    constructor; [|constructor]. intros c'' HX. unfold invoked. cbn [sn_kind sn_nodes].
    unfold abs_conn. rewrite tget_tmap. apply invoked_ok. apply HX.
Qed.

Lemma wf_hist_cons a st h : wf_hist a (st :: h) = step_wf a st && wf_hist (fst (step_abs a st)) h.
Proof. reflexivity. Qed.

Lemma snaps_agree_mono c c' sns hss : cext c c' -> snaps_agree c sns hss -> snaps_agree c' sns hss.
Proof.
  intros HX H. induction H; constructor; auto. intros c'' HX'. apply H. eapply cext_trans; eauto.
Qed.

Theorem run_refines h : forall c,
  conn_ok c -> wf_hist (abs_conn c) h = true ->
  exists c' sns, run_conc c h = Ok (c', sns) /\ conn_ok c' /\ cext c c'
                 /\ abs_conn c' = fst (run_abs (abs_conn c) h)
                 /\ snaps_agree c' sns (snd (run_abs (abs_conn c) h)).
Proof.
  induction h as [|st h IH]; intros c OK WF.
  - cbn. do 2 eexists. split; [reflexivity|]. split; [exact OK|]. split; [apply cext_refl|].
    split; [reflexivity|constructor].
  - rewrite wf_hist_cons in WF. apply andb_true_iff in WF. destruct WF as [WF1 WF2].
    destruct (step_refines c st OK WF1) as (c1 & sn1 & Hs & OK1 & HX1 & Ha1 & Hg1).
    rewrite <- Ha1 in WF2. destruct (IH c1 OK1 WF2) as (c2 & sn2 & Hr & OK2 & HX2 & Ha2 & Hg2).
    cbn [run_conc run_abs]. rewrite Hs. cbn [bind fst snd]. rewrite Hr. cbn [bind fst snd].
    do 2 eexists. split; [reflexivity|]. split; [exact OK2|]. split; [eapply cext_trans; eauto|].
    rewrite <- Ha1. split; [exact Ha2|]. apply Forall2_app; [|exact Hg2].
    eapply snaps_agree_mono; eauto.
Qed.

(* ================= stamped histories: the interval form of the property ================= *)
Fixpoint live_entries (j : nat) (G : list regobs) : list aentry :=
  match G with
  | [] => []
  | e :: G' => (match rg_rm e with
                | None => [{| a_id := j; a_h := rg_h e; a_name := to_lower (rg_name e) |}]
                | Some _ => []
                end) ++ live_entries (S j) G'
  end.
Lemma live_entries_app j G1 G2 : live_entries j (G1 ++ G2) = live_entries j G1 ++ live_entries (j + length G1) G2.
Proof.
  revert j. induction G1 as [|e G1 IH]; intros j; cbn [app live_entries length].
  - rewrite Nat.add_0_r. reflexivity.
  - rewrite IH, <- app_assoc. do 3 f_equal. lia.
Qed.
Lemma live_entries_bound j G e : In e (live_entries j G) -> j <= a_id e < j + length G.
Proof.
  revert j. induction G as [|x G IH]; intros j H; cbn in H; [contradiction|].
  apply in_app_or in H. destruct H as [H|H].
  - destruct (rg_rm x); [contradiction|]. destruct H as [<-|[]]. cbn. lia.
  - apply IH in H. cbn [length]. lia.
Qed.
Lemma filter_all_true {A} (p : A -> bool) l : (forall x, In x l -> p x = true) -> filter p l = l.
Proof.
  induction l as [|x l IH]; intros H; cbn; [reflexivity|]. rewrite H by (left; reflexivity).
  f_equal. apply IH. intros; apply H; right; assumption.
Qed.
Lemma live_entries_mark j G r x :
  live_entries j (mark G r x) = filter (fun e => negb (Nat.eqb (a_id e) (j + r))) (live_entries j G).
Proof.
  revert j r. induction G as [|e G IH]; intros j r; [destruct r; reflexivity|].
  destruct r as [|r]; cbn [mark live_entries rg_rm rg_h rg_name].
  - rewrite filter_app, Nat.add_0_r.
    rewrite (filter_all_true _ (live_entries (S j) G)).
    + f_equal. destruct (rg_rm e); [reflexivity|]. cbn. rewrite Nat.eqb_refl. reflexivity.
    + intros y Hy. apply live_entries_bound in Hy. destruct (Nat.eqb_spec (a_id y) j); [lia|reflexivity].
  - rewrite filter_app, IH. f_equal.
    + destruct (rg_rm e); [reflexivity|]. cbn. destruct (Nat.eqb_spec j (j + S r)); [lia|reflexivity].
    + replace (S j + r) with (j + S r) by lia. reflexivity.
Qed.
Lemma length_mark G r x : length (mark G r x) = length G.
Proof. revert r. induction G as [|e G IH]; intros [|r]; cbn; auto. Qed.

Definition inv1 (k : kind) (a : areg) (G : list regobs) : Prop :=
  ar_next a = length G /\ ar_regs a = live_entries 0 G /\ Forall (fun e => rg_kind e = k) G.
Definition inv3 (a : aconn) (G : tri (list regobs)) : Prop := forall k, inv1 k (tget a k) (tget G k).

Lemma Forall_mark (P : regobs -> Prop) G r x :
  (forall e y, P e -> P {| rg_kind := rg_kind e; rg_name := rg_name e; rg_h := rg_h e; rg_start := rg_start e;
                          rg_ret := rg_ret e; rg_rm := y |}) ->
  Forall P G -> Forall P (mark G r x).
Proof.
  intros HP. revert r. induction G as [|e G IH]; intros [|r] H; cbn [mark]; auto; inversion H; subst; constructor; auto.
Qed.

Lemma inv3_step a G t : inv3 a G -> inv3 (fst (step_abs a (ts_step t))) (collect_step G t).
Proof.
  intros H. unfold collect_step. destruct (ts_step t) as [k n h|k r|k cmd]; cbn [step_abs fst]; [| |exact H].
  - intros k'. destruct (kind_eq_dec k k') as [<-|Hne]; [|rewrite !tget_tput_ne by exact Hne; apply H].
    rewrite !tget_tput_eq. destruct (H k) as (A & B & C). unfold abs_add. cbn [fst]. split; [|split]; cbn [ar_next ar_regs].
    + rewrite app_length. cbn. lia.
    + rewrite live_entries_app, B, A. cbn. reflexivity.
    + apply Forall_app. split; [exact C|]. constructor; [reflexivity|constructor].
  - intros k'. destruct (kind_eq_dec k k') as [<-|Hne]; [|rewrite !tget_tput_ne by exact Hne; apply H].
    rewrite !tget_tput_eq. destruct (H k) as (A & B & C). unfold abs_remove. split; [|split]; cbn [ar_next ar_regs].
    + rewrite length_mark. exact A.
    + rewrite live_entries_mark, B. reflexivity.
    + apply Forall_mark; [|exact C]. intros e y He. exact He.
Qed.

(* counting *)
Lemma countb_app {A} (f : A -> bool) l1 l2 : countb f (l1 ++ l2) = (countb f l1 + countb f l2)%Z.
Proof. unfold countb. rewrite filter_app, app_length. lia. Qed.
Lemma countb_nonneg {A} (f : A -> bool) l : (0 <= countb f l)%Z.
Proof. unfold countb. lia. Qed.
Lemma countb_cons {A} (f : A -> bool) x l : countb f (x :: l) = ((if f x then 1 else 0) + countb f l)%Z.
Proof. unfold countb. cbn [filter]. destruct (f x); cbn [length]; lia. Qed.
Lemma countb_none {A} (f : A -> bool) l : (forall x, In x l -> f x = false) -> countb f l = 0%Z.
Proof.
  induction l as [|x l IH]; intros H; [reflexivity|]. rewrite countb_cons, H by (left; reflexivity).
  rewrite IH; [reflexivity|]. intros; apply H; right; assumption.
Qed.
Lemma countb_Forall2_le {A B} (R : A -> B -> Prop) (f : A -> bool) (g : B -> bool) l l' :
  Forall2 R l l' -> (forall a b, R a b -> f a = true -> g b = true) -> (countb f l <= countb g l')%Z.
Proof.
  intros H HR. induction H as [|a b l l' Hab H IH]; [reflexivity|]. rewrite !countb_cons.
  destruct (f a) eqn:Fa; [rewrite (HR a b Hab Fa); lia|]. destruct (g b); lia.
Qed.
Lemma count_of_counts h l : count_of h (counts_of l) = countb (N.eqb h) l.
Proof.
  unfold count_of, counts_of. induction l as [|x l IH]; [reflexivity|].
  rewrite countb_cons. cbn [map filter fst]. rewrite N.eqb_sym. destruct (N.eqb h x); cbn [map fold_right snd]; lia.
Qed.
Lemma countb_map {A B} (f : A -> B) (p : B -> bool) l : countb p (map f l) = countb (fun x => p (f x)) l.
Proof. induction l as [|x l IH]; [reflexivity|]. cbn [map]. rewrite !countb_cons, IH. reflexivity. Qed.
Lemma countb_filter {A} (p q : A -> bool) l : countb p (filter q l) = countb (fun x => q x && p x) l.
Proof.
  induction l as [|x l IH]; [reflexivity|]. cbn [filter]. rewrite countb_cons. destruct (q x); cbn [andb]; [rewrite countb_cons|]; lia.
Qed.
Lemma countb_live_entries (p : aentry -> bool) j G :
  (forall i i' h n, p {| a_id := i; a_h := h; a_name := n |} = p {| a_id := i'; a_h := h; a_name := n |}) ->
  countb p (live_entries j G)
  = countb (fun e => match rg_rm e with None => p {| a_id := 0; a_h := rg_h e; a_name := to_lower (rg_name e) |}
                                   | Some _ => false end) G.
Proof.
  intros Hp. revert j. induction G as [|e G IH]; intros j; [reflexivity|].
  cbn [live_entries]. rewrite countb_app, countb_cons, IH. f_equal.
  destruct (rg_rm e); [reflexivity|]. rewrite countb_cons. rewrite (Hp j 0). unfold countb. cbn. lia.
Qed.

(* how the records of one set evolve after a snapshot that started at [lo] *)
Definition evolve (lo : Z) (e e' : regobs) : Prop :=
  rg_kind e' = rg_kind e /\ rg_name e' = rg_name e /\ rg_h e' = rg_h e /\ rg_start e' = rg_start e
  /\ rg_ret e' = rg_ret e
  /\ match rg_rm e with
     | Some x => rg_rm e' = Some x
     | None => rg_rm e' = None \/ exists x, rg_rm e' = Some x /\ (lo < snd x)%Z
     end.
Definition evolves (lo : Z) (Gp Gf : list regobs) : Prop :=
  exists Gp' Gnew, Gf = Gp' ++ Gnew /\ Forall2 (evolve lo) Gp Gp' /\ Forall (fun e => (lo < rg_ret e)%Z) Gnew.
Lemma evolve_refl lo e : evolve lo e e.
Proof. unfold evolve. repeat split; auto. destruct (rg_rm e); auto. Qed.
Lemma evolves_refl lo G : evolves lo G G.
Proof.
  exists G, []. rewrite app_nil_r. split; [reflexivity|]. split; [|constructor].
  induction G; constructor; auto using evolve_refl.
Qed.
Lemma mark_app a b r x :
  mark (a ++ b) r x = if r <? length a then mark a r x ++ b else a ++ mark b (r - length a) x.
Proof.
  revert r. induction a as [|e a IH]; intros r; cbn [app length].
  - rewrite Nat.sub_0_r. destruct (Nat.ltb_spec r 0); [lia|reflexivity].
  - destruct r as [|r]; [reflexivity|]. cbn [mark]. rewrite IH.
    change (S r <? S (length a)) with (r <? length a). cbn [Nat.sub]. destruct (r <? length a); reflexivity.
Qed.
Lemma evolve_mark lo Gp Gp' r x :
  (lo < snd x)%Z -> Forall2 (evolve lo) Gp Gp' -> Forall2 (evolve lo) Gp (mark Gp' r x).
Proof.
  intros Hx H. revert r. induction H as [|e e' Gp Gp' He H IH]; intros r; [destruct r; constructor|].
  destruct r as [|r]; cbn [mark]; constructor; auto.
  destruct He as (A & B & C & D & E & F). unfold evolve. cbn. repeat split; auto.
  destruct (rg_rm e) as [y|].
  - rewrite F. reflexivity.
  - destruct F as [->|(y & -> & Hy)]; right; eauto.
Qed.
Lemma evolves_step lo k G t :
  (lo < ts_ret t)%Z -> forall Gp, evolves lo Gp (tget G k) -> evolves lo Gp (tget (collect_step G t) k).
Proof.
  intros Ht Gp (Gp' & Gnew & E & H1 & H2). unfold collect_step.
  destruct (ts_step t) as [k0 n h|k0 r|k0 cmd]; [| |exists Gp', Gnew; auto].
  - destruct (kind_eq_dec k0 k) as [->|Hne]; [|rewrite tget_tput_ne by exact Hne; exists Gp', Gnew; auto].
    rewrite tget_tput_eq, E. eexists Gp', (Gnew ++ [_]). rewrite app_assoc. split; [reflexivity|]. split; [exact H1|].
    apply Forall_app. split; [exact H2|]. constructor; [exact Ht|constructor].
  - destruct (kind_eq_dec k0 k) as [->|Hne]; [|rewrite tget_tput_ne by exact Hne; exists Gp', Gnew; auto].
    rewrite tget_tput_eq, E, mark_app. destruct (r <? length Gp').
    + exists (mark Gp' r (ts_start t, ts_ret t)), Gnew. split; [reflexivity|]. split; [|exact H2].
      apply evolve_mark; [exact Ht|exact H1].
    + exists Gp', (mark Gnew (r - length Gp') (ts_start t, ts_ret t)). split; [reflexivity|]. split; [exact H1|].
      apply Forall_mark; [|exact H2]. intros e y He. exact He.
Qed.
Lemma evolves_collect lo k h : forall G Gp,
  Forall (fun u => (lo < ts_ret u)%Z) h -> evolves lo Gp (tget G k) -> evolves lo Gp (tget (collect G h) k).
Proof.
  induction h as [|t h IH]; intros G Gp HF H; [exact H|]. inversion HF; subst.
  cbn [collect fold_left]. apply IH; [assumption|]. apply evolves_step; assumption.
Qed.

(* what is known at time [hi] about the records made by steps linearised before *)
Definition past (hi : Z) (e : regobs) : Prop :=
  (rg_start e < hi)%Z /\ match rg_rm e with Some x => (fst x < hi)%Z | None => True end.

Lemma kind_eqb_eq a b : kind_eqb a b = true <-> a = b.
Proof. destruct a, b; cbn; split; congruence. Qed.
Lemma countb_all_regs (f : regobs -> bool) (Gf : tri (list regobs)) k :
  (forall k', Forall (fun e => rg_kind e = k') (tget Gf k')) ->
  (forall e, f e = true -> rg_kind e = k) ->
  countb f (all_regs Gf) = countb f (tget Gf k).
Proof.
  intros HK Hf.
  assert (Z0 : forall k', k' <> k -> countb f (tget Gf k') = 0%Z).
  { intros k' Hne. apply countb_none. intros e He. destruct (f e) eqn:Fe; [|reflexivity].
    pose proof (HK k') as HF. rewrite Forall_forall in HF. specialize (HF e He). apply Hf in Fe. congruence. }
  unfold all_regs. rewrite !countb_app.
  pose proof (Z0 KFg) as Zf. pose proof (Z0 KBg) as Zb. pose proof (Z0 KInt) as Zi. cbn [tget] in Zf, Zb, Zi.
  destruct k; cbn [tget].
  - rewrite Zb, Zi by discriminate. lia.
  - rewrite Zf, Zi by discriminate. lia.
  - rewrite Zf, Zb by discriminate. lia.
Qed.
Lemma Forall2_flip_and {A B} (R : A -> B -> Prop) (P : A -> Prop) l l' :
  Forall2 R l l' -> Forall P l -> Forall2 (fun b a => R a b /\ P a) l' l.
Proof. intros H. induction H; intros HP; inversion HP; subst; constructor; auto. Qed.
Lemma Forall2_and {A B} (R : A -> B -> Prop) (P : A -> Prop) l l' :
  Forall2 R l l' -> Forall P l -> Forall2 (fun a b => R a b /\ P a) l l'.
Proof. intros H. induction H; intros HP; inversion HP; subst; constructor; auto. Qed.

Lemma snap_ok_one (a : aconn) (G Gf : tri (list regobs)) k cmd lo hi :
  inv3 a G ->
  (forall k', Forall (fun e => rg_kind e = k') (tget Gf k')) ->
  evolves lo (tget G k) (tget Gf k) ->
  Forall (past hi) (tget G k) ->
  snap_ok (all_regs Gf) {| sp_kind := k; sp_cmd := cmd; sp_lo := lo; sp_hi := hi;
                           sp_counts := counts_of (abs_handlers (tget a k) cmd) |} = true.
Proof.
  intros HI HK (Gp' & Gnew & E & HE & HN) HP.
  set (s := {| sp_kind := k; sp_cmd := cmd; sp_lo := lo; sp_hi := hi;
               sp_counts := counts_of (abs_handlers (tget a k) cmd) |}).
  unfold snap_ok. apply forallb_forall. intros h _. cbn [sp_counts s].
  destruct (HI k) as (_ & HR & HKk).
  set (lp := fun e : regobs => match rg_rm e with
                               | None => beq (to_lower (rg_name e)) (to_lower cmd) && N.eqb (rg_h e) h
                               | Some _ => false end).
  assert (Hc : count_of h (counts_of (abs_handlers (tget a k) cmd)) = countb lp (tget G k)).
  { rewrite count_of_counts. unfold abs_handlers, abs_entries. rewrite countb_map, countb_filter, HR.
    rewrite countb_live_entries by reflexivity. unfold countb. f_equal. f_equal. apply filter_ext.
    intros e. unfold lp. destruct (rg_rm e); [reflexivity|]. cbn [a_name a_h]. rewrite (N.eqb_sym h). reflexivity. }
  rewrite Hc.
  assert (Hm : forall f, (forall e, (matches e s h && f e) = true -> rg_kind e = k)).
  { intros f e H. apply andb_true_iff in H. destruct H as [H _]. unfold matches in H.
    apply andb_true_iff in H. destruct H as [H _]. apply andb_true_iff in H. destruct H as [H _].
    apply kind_eqb_eq in H. exact H. }
  rewrite (countb_all_regs _ Gf k HK (Hm (fun r => must_run r s))).
  rewrite (countb_all_regs _ Gf k HK (Hm (fun r => may_run r s))).
  rewrite E, !countb_app. apply andb_true_iff. split; apply Z.leb_le.
  - (* must <= count *)
    rewrite (countb_none _ Gnew).
    2:{ intros e He. rewrite Forall_forall in HN. specialize (HN e He). unfold must_run. cbn [sp_lo s].
        destruct (Z.ltb_spec (rg_ret e) lo); [lia|]. rewrite andb_false_r. reflexivity. }
    rewrite Z.add_0_r.
    eapply countb_Forall2_le; [apply (Forall2_flip_and _ _ _ _ HE HP)|].
    intros e' e [(A & B & C & D & F & Hrm) [Hs Hpast]] H. cbn beta in *.
    apply andb_true_iff in H. destruct H as [Hma Hmu]. unfold matches in Hma. cbn [sp_kind sp_cmd s] in Hma.
    apply andb_true_iff in Hma. destruct Hma as [Hma Hh]. apply andb_true_iff in Hma. destruct Hma as [_ Hnm].
    unfold must_run in Hmu. cbn [sp_lo sp_hi s] in Hmu. apply andb_true_iff in Hmu. destruct Hmu as [_ Hmu].
    unfold lp. destruct (rg_rm e) as [x|].
    + rewrite Hrm in Hmu. destruct x as [xa xb]. cbn [fst] in Hpast. apply Z.ltb_lt in Hmu. lia.
    + rewrite <- B, <- C, Hnm, Hh. reflexivity.
  - (* count <= may *)
    pose proof (countb_nonneg (fun r => matches r s h && may_run r s) Gnew) as Hnn.
    enough (countb lp (tget G k) <= countb (fun r => matches r s h && may_run r s) Gp')%Z by lia.
    assert (HPK : Forall (fun e => past hi e /\ rg_kind e = k) (tget G k)).
    { rewrite Forall_forall in *. intros e He. split; auto. }
    eapply countb_Forall2_le; [apply (Forall2_and _ _ _ _ HE HPK)|].
    intros e e' [(A & B & C & D & F & Hrm) [[Hs Hpast] Hk]] H. cbn beta.
    unfold lp in H. destruct (rg_rm e) as [x|] eqn:Erm; [discriminate|].
    apply andb_true_iff in H. destruct H as [Hnm Hh].
    apply andb_true_iff. split.
    + unfold matches. cbn [sp_kind sp_cmd s]. rewrite A, B, C, Hk, Hnm, Hh.
      replace (kind_eqb k k) with true by (symmetry; apply kind_eqb_eq; reflexivity). reflexivity.
    + unfold may_run. cbn [sp_lo sp_hi s]. rewrite D. apply andb_true_iff. split; [apply Z.ltb_lt; exact Hs|].
      destruct Hrm as [->|([xa xb] & -> & Hx)]; [reflexivity|]. apply Z.ltb_lt. exact Hx.
Qed.

Lemma inv3_collect th : forall a G, inv3 a G -> inv3 (fst (run_abs a (map ts_step th))) (collect G th).
Proof.
  induction th as [|t th IH]; intros a G H; [exact H|]. cbn [map run_abs collect fold_left fst].
  apply IH. apply inv3_step. exact H.
Qed.

Definition pasts (th : list tstep) (G : tri (list regobs)) : Prop :=
  forall k u, In u th -> Forall (past (ts_ret u)) (tget G k).

Lemma pasts_step t th G :
  consistent (t :: th) -> pasts (t :: th) G -> pasts th (collect_step G t).
Proof.
  intros (Hle & Hlt & _) HP k u Hu. rewrite Forall_forall in Hlt. specialize (Hlt u Hu).
  pose proof (HP k u (or_intror Hu)) as Hk. unfold collect_step.
  destruct (ts_step t) as [k0 n h|k0 r|k0 cmd]; [| |exact Hk].
  - destruct (kind_eq_dec k0 k) as [->|Hne]; [|rewrite tget_tput_ne by exact Hne; exact Hk].
    rewrite tget_tput_eq. apply Forall_app. split; [exact Hk|]. constructor; [|constructor].
    split; cbn; [exact Hlt|exact I].
  - destruct (kind_eq_dec k0 k) as [->|Hne]; [|rewrite tget_tput_ne by exact Hne; exact Hk].
    rewrite tget_tput_eq. clear HP. revert r. induction Hk as [|e G' He Hk IH]; intros [|r]; cbn [mark]; try constructor; auto.
    destruct He as [H1 H2]. split; cbn; [exact H1|]. destruct (rg_rm e); [exact H2|cbn; exact Hlt].
Qed.

Theorem concurrent_gen th : forall a G,
  inv3 a G -> consistent th -> pasts th G ->
  C04_ok (all_regs (collect G th)) (snap_obs th (snd (run_abs a (map ts_step th)))) = true.
Proof.
  induction th as [|t th IH]; intros a G HI HC HP; [reflexivity|].
  pose proof (inv3_step a G t HI) as HI1. pose proof (pasts_step t th G HC HP) as HP1.
  pose proof HC as (Hle & Hlt & HC1).
  specialize (IH _ _ HI1 HC1 HP1).
  cbn [map run_abs snap_obs collect fold_left snd]. fold (collect (collect_step G t) th).
  destruct (ts_step t) as [k n h|k r|k cmd] eqn:Et.
  - cbn [step_abs snd app fst]. cbn [step_abs fst] in IH. exact IH.
  - cbn [step_abs snd app fst]. cbn [step_abs fst] in IH. exact IH.
  - cbn [step_abs snd app fst] in *. unfold C04_ok. cbn [forallb]. apply andb_true_iff. split; [|exact IH].
    assert (EG : collect_step G t = G) by (unfold collect_step; rewrite Et; reflexivity).
    rewrite EG in *.
    apply (snap_ok_one a G (collect G th) k cmd (ts_start t) (ts_ret t) HI).
    + intros k'. pose proof (inv3_collect th a G HI k') as (_ & _ & H). exact H.
    + apply evolves_collect; [exact Hlt|apply evolves_refl].
    + apply (HP k t). left. reflexivity.
Qed.

(* ================= the theorems at the initial state ================= *)
Lemma lower_byte_idem c : lower_byte (lower_byte c) = lower_byte c.
Proof.
  unfold lower_byte. destruct ((65 <=? c)%N && (c <=? 90)%N) eqn:E; [|rewrite E; reflexivity].
  apply andb_true_iff in E. destruct E as [E1 E2]. apply N.leb_le in E1. apply N.leb_le in E2.
  destruct ((65 <=? c + 32)%N && (c + 32 <=? 90)%N) eqn:E3; [|reflexivity].
  apply andb_true_iff in E3. destruct E3 as [_ E3]. apply N.leb_le in E3. lia.
Qed.
Lemma to_lower_idem s : to_lower (to_lower s) = to_lower s.
Proof. unfold to_lower. rewrite map_map. apply map_ext. intros; apply lower_byte_idem. Qed.

(* names that differ only in letter case are the same name, on both paths *)
Lemma case_insensitive_add a n n' h : to_lower n = to_lower n' -> abs_add a n h = abs_add a n' h.
Proof. intros E. unfold abs_add. rewrite E. reflexivity. Qed.
Lemma case_insensitive_dispatch a c c' : to_lower c = to_lower c' -> abs_handlers a c = abs_handlers a c'.
Proof. intros E. unfold abs_handlers, abs_entries. rewrite E. reflexivity. Qed.
Lemma abs_handlers_spec a cmd h :
  In h (abs_handlers a cmd) <-> exists e, In e (ar_regs a) /\ a_name e = to_lower cmd /\ a_h e = h.
Proof.
  unfold abs_handlers, abs_entries. rewrite in_map_iff. split.
  - intros (e & <- & He). apply filter_In in He. destruct He as [He Hn]. apply beq_eq in Hn. eauto.
  - intros (e & He & Hn & <-). exists e. split; [reflexivity|]. apply filter_In. split; [exact He|].
    apply beq_eq. exact Hn.
Qed.

Theorem exactly_once_init h :
  wf_hist aconn_init h = true ->
  exists c sns, run_conc conn_init h = Ok (c, sns) /\ conn_ok c
                /\ abs_conn c = fst (run_abs aconn_init h)
                /\ snaps_agree c sns (snd (run_abs aconn_init h)).
Proof.
  intros WF. destruct (run_refines h conn_init conn_ok_init WF) as (c & sns & A & B & _ & C & D).
  exists c, sns. auto.
Qed.

Lemma inv3_init : inv3 aconn_init (tri_const []).
Proof. intros []; repeat split; constructor. Qed.

(* the abstract registry after a history = the registrations, in order, that no Remove has marked *)
Theorem abs_is_unremoved th k :
  ar_regs (tget (fst (run_abs aconn_init (map ts_step th))) k) = live_entries 0 (tget (collect (tri_const []) th) k).
Proof. destruct (inv3_collect th _ _ inv3_init k) as (_ & H & _). exact H. Qed.

Theorem concurrent_init th :
  consistent th ->
  C04_ok (all_regs (collect (tri_const []) th)) (snap_obs th (snd (run_abs aconn_init (map ts_step th)))) = true.
Proof.
  intros HC. apply concurrent_gen; [apply inv3_init|exact HC|]. intros k u _. destruct k; constructor.
Qed.

(* what the predicate says when no call overlaps the snapshot interval: exactly once each *)
Lemma snap_ok_exact regs s h :
  snap_ok regs s = true -> In h (map rg_h regs ++ map fst (sp_counts s)) ->
  (forall r, In r regs -> must_run r s = may_run r s) ->
  count_of h (sp_counts s) = countb (fun r => matches r s h && must_run r s) regs.
Proof.
  intros H Hin Hex. unfold snap_ok in H. rewrite forallb_forall in H. specialize (H h Hin).
  apply andb_true_iff in H. destruct H as [H1 H2]. apply Z.leb_le in H1. apply Z.leb_le in H2.
  assert (E : countb (fun r => matches r s h && may_run r s) regs = countb (fun r => matches r s h && must_run r s) regs).
  { unfold countb. f_equal. f_equal. apply filter_ext_in. intros r Hr. rewrite (Hex r Hr). reflexivity. }
  lia.
Qed.

(* concrete run + stamps: every behaviour of the pointer model satisfies the runtime predicate *)
Theorem concurrent_conc th :
  consistent th -> wf_hist aconn_init (map ts_step th) = true ->
  exists c sns hss, run_conc conn_init (map ts_step th) = Ok (c, sns)
                    /\ Forall2 (fun sn hs => invoked c sn = Ok hs) sns hss
                    /\ C04_ok (all_regs (collect (tri_const []) th)) (snap_obs th hss) = true.
Proof.
  intros HC WF. destruct (exactly_once_init _ WF) as (c & sns & A & _ & _ & D).
  exists c, sns, (snd (run_abs aconn_init (map ts_step th))). split; [exact A|]. split.
  - clear A. induction D; constructor; auto. apply H. apply cext_refl.
  - apply concurrent_init. exact HC.
Qed.
