(* Proofs/LineSendFacts.v — characterising lemmas about the byte-string functions of
   Lib/GoBytes.v and Lib/LineLib.v on inputs of a known SHAPE ("a ++ sep ++ b where a is
   free of sep", words joined by spaces, ...).  Used by Proofs/LineRoundTrip.v (C01). *)
From Verif Require Import GoBytes LineLib Line LineSend GoBytesFacts.
Open Scope Z_scope.

(* ---------- small list facts ---------- *)
Lemma forallb_In {A} (p : A -> bool) l x : forallb p l = true -> In x l -> p x = true.
Proof. intros H; rewrite forallb_forall in H; auto. Qed.

Lemma mem_byte_In c s : mem_byte c s = true <-> In c s.
Proof.
  unfold mem_byte; rewrite existsb_exists; split.
  - intros (x & Hx & E); apply N.eqb_eq in E; subst; exact Hx.
  - intros H; exists c; split; [exact H|apply N.eqb_refl].
Qed.

Lemma mem_byte_not_In c s : mem_byte c s = false <-> ~ In c s.
Proof.
  rewrite <- mem_byte_In; destruct (mem_byte c s); split; intros; congruence.
Qed.

Lemma firstn_len_app {A} (a b : list A) : firstn (length a) (a ++ b) = a.
Proof. rewrite firstn_app, Nat.sub_diag, firstn_all; simpl; apply app_nil_r. Qed.

Lemma skipn_len_app {A} (a b : list A) : skipn (length a) (a ++ b) = b.
Proof. rewrite skipn_app, Nat.sub_diag, skipn_all; reflexivity. Qed.

Lemma to_nat_len s : Z.to_nat (len s) = length s.
Proof. unfold len; lia. Qed.

(* ---------- slicing a ++ b ++ c ---------- *)
Lemma slice_to_app a b : slice_to (a ++ b) (len a) = Ok a.
Proof.
  rewrite slice_to_ok by (rewrite len_app; pose proof (len_nonneg a); pose proof (len_nonneg b); lia).
  now rewrite to_nat_len, firstn_len_app.
Qed.

Lemma slice_from_app a b : slice_from (a ++ b) (len a) = Ok b.
Proof.
  rewrite slice_from_ok by (rewrite len_app; pose proof (len_nonneg a); pose proof (len_nonneg b); lia).
  now rewrite to_nat_len, skipn_len_app.
Qed.

Lemma slice_app3 a b c : slice (a ++ b ++ c) (len a) (len a + len b) = Ok b.
Proof.
  unfold slice. rewrite !len_app.
  pose proof (len_nonneg a); pose proof (len_nonneg b); pose proof (len_nonneg c).
  destruct (0 <=? len a) eqn:E1; [|lia].
  destruct (len a <=? len a + len b) eqn:E2; [|lia].
  destruct (len a + len b <=? len a + (len b + len c)) eqn:E3; [|lia].
  simpl. replace (len a + len b - len a) with (len b) by lia.
  now rewrite !to_nat_len, skipn_len_app, firstn_len_app.
Qed.

Lemma byte_at_0 c s : byte_at (c :: s) 0 = Ok c.
Proof. unfold byte_at; rewrite len_cons; pose proof (len_nonneg s).
  destruct (0 <=? 0) eqn:E1; [|lia]. destruct (0 <? 1 + len s) eqn:E2; [|lia]. reflexivity. Qed.

Lemma elem_at_0 {A} (x : A) l : elem_at (x :: l) 0 = Ok x.
Proof. unfold elem_at; simpl length.
  destruct (0 <=? 0) eqn:E1; [|lia]. destruct (0 <? Z.of_nat (S (length l))) eqn:E2; [|lia]. reflexivity. Qed.

Lemma elem_at_1 {A} (x y : A) l : elem_at (x :: y :: l) 1 = Ok y.
Proof. unfold elem_at; simpl length.
  destruct (0 <=? 1) eqn:E1; [|lia]. destruct (1 <? Z.of_nat (S (S (length l)))) eqn:E2; [|lia]. reflexivity. Qed.

Lemma elems_from_1 {A} (x : A) l : elems_from (x :: l) 1 = Ok l.
Proof. unfold elems_from; simpl length.
  destruct (0 <=? 1) eqn:E1; [|lia]. destruct (1 <=? Z.of_nat (S (length l))) eqn:E2; [|lia]. reflexivity. Qed.

(* ---------- index of a one-byte separator ---------- *)
Lemma index_aux_byte_first a c b i :
  ~ In c a -> index_aux (a ++ c :: b) [c] i = Z.of_nat i + len a.
Proof.
  revert i; induction a as [|x a IH]; intros i Hn.
  - simpl. rewrite N.eqb_refl. simpl. rewrite len_nil; lia.
  - simpl app. cbn [index_aux has_prefix].
    destruct (N.eqb x c) eqn:E.
    + apply N.eqb_eq in E; subst; exfalso; apply Hn; left; reflexivity.
    + simpl. rewrite IH by (intros H; apply Hn; right; exact H).
      rewrite len_cons; lia.
Qed.

Lemma index_byte_first a c b : ~ In c a -> index (a ++ c :: b) [c] = len a.
Proof. intros H; unfold index; rewrite index_aux_byte_first by exact H; simpl; lia. Qed.

Lemma index_byte_none s c : ~ In c s -> index s [c] = -1.
Proof. apply index_none_iff_byte. Qed.

Lemma split2_byte_found a c b : ~ In c a -> split2 (a ++ c :: b) [c] = [a; b].
Proof.
  intros H; unfold split2. rewrite index_byte_first by exact H.
  pose proof (len_nonneg a). destruct (len a <? 0) eqn:E; [lia|].
  rewrite to_nat_len, firstn_len_app. simpl length.
  replace (a ++ c :: b) with ((a ++ [c]) ++ b) by (rewrite <- app_assoc; reflexivity).
  replace (length a + 1)%nat with (length (a ++ [c])) by (rewrite app_length; reflexivity).
  now rewrite skipn_len_app.
Qed.

Lemma split2_byte_none s c : ~ In c s -> split2 s [c] = [s].
Proof. intros H; unfold split2; rewrite index_byte_none by exact H; reflexivity. Qed.

(* converse: what a two-element result of split2 on a byte tells us *)
Lemma split2_byte_inv s c a b : split2 s [c] = [a; b] -> s = a ++ c :: b /\ ~ In c a.
Proof.
  unfold split2. destruct (index s [c] <? 0) eqn:E; [discriminate|].
  intros H. injection H as Ha Hb.
  destruct (index_found s [c]) as (a' & b' & Hs & Hl & Hmin); [lia|].
  rewrite <- Hl in Ha, Hb. rewrite to_nat_len in Ha, Hb. subst s.
  rewrite firstn_len_app in Ha. subst a'.
  simpl length in Hb.
  replace (a ++ [c] ++ b') with ((a ++ [c]) ++ b') in Hb by (rewrite <- app_assoc; reflexivity).
  replace (length a + 1)%nat with (length (a ++ [c])) in Hb by (rewrite app_length; reflexivity).
  rewrite skipn_len_app in Hb. subst b'.
  split; [reflexivity|].
  intros Hin. apply in_split in Hin as (a1 & a2 & ->).
  specialize (Hmin a1 (a2 ++ [c] ++ b)).
  rewrite <- !app_assoc in Hmin. specialize (Hmin eq_refl).
  rewrite app_length in Hmin; simpl in Hmin; lia.
Qed.

(* ---------- index of the two-byte separator " :" in "word params" ---------- *)
Definition sc : bytes := [32; 58]%N.

Lemma index_aux_step x s sep i :
  has_prefix (x :: s) sep = false -> index_aux (x :: s) sep i = index_aux s sep (S i).
Proof. intros H. cbn [index_aux]. now rewrite H. Qed.

Lemma index_aux_hit s sep i : has_prefix s sep = true -> index_aux s sep i = Z.of_nat i.
Proof. intros H. destruct s; cbn [index_aux]; now rewrite H. Qed.

Lemma has_prefix_sc_nonsp x s : x <> 32%N -> has_prefix (x :: s) sc = false.
Proof. intros H. unfold sc. cbn [has_prefix]. destruct (N.eqb x 32) eqn:E; [apply N.eqb_eq in E; contradiction|reflexivity]. Qed.

Lemma has_prefix_sc_noncolon x y s : y <> 58%N -> has_prefix (x :: y :: s) sc = false.
Proof. intros H. unfold sc. cbn [has_prefix]. destruct (N.eqb y 58) eqn:E; [apply N.eqb_eq in E; contradiction|]. now rewrite andb_false_r. Qed.

Lemma index_aux_sc_word w rest i :
  ~ In 32%N w -> index_aux (w ++ rest) sc i = index_aux rest sc (i + length w).
Proof.
  revert i; induction w as [|x w IH]; intros i Hn.
  - simpl. now rewrite Nat.add_0_r.
  - simpl app. rewrite index_aux_step.
    + rewrite IH by (intros H; apply Hn; right; exact H). f_equal; simpl; lia.
    + apply has_prefix_sc_nonsp. intros ->. apply Hn; left; reflexivity.
Qed.

Lemma index_aux_sc_spaces n y rest i :
  y <> 58%N ->
  index_aux (repeat 32%N n ++ y :: rest) sc i = index_aux (y :: rest) sc (i + n).
Proof.
  intros Hy. revert i; induction n as [|n IH]; intros i.
  - simpl repeat. simpl app. now rewrite Nat.add_0_r.
  - simpl repeat. simpl app. rewrite index_aux_step.
    + rewrite IH. f_equal; lia.
    + destruct n; simpl repeat; simpl app.
      * now apply has_prefix_sc_noncolon.
      * apply has_prefix_sc_noncolon. discriminate.
Qed.

(* ---------- "word params [ :trailing]" ---------- *)
(* a parameter the way the splitter needs it: no space inside, first byte exists and is not ':' *)
Definition mid_shape (w : bytes) : Prop :=
  ~ In 32%N w /\ exists c w', w = c :: w' /\ c <> 58%N.

Lemma index_aux_sc_params ms tail i :
  Forall (fun p => mid_shape (snd p)) ms ->
  index_aux (render_params ms ++ tail) sc i = index_aux tail sc (i + length (render_params ms)).
Proof.
  intros H; revert i; induction H as [|[n w] ms (Hsp & c & w' & Hw & Hc) _ IH]; intros i.
  - simpl. now rewrite Nat.add_0_r.
  - unfold render_params in *. cbn [flat_map]. unfold render_param at 1. cbn [fst snd] in *.
    rewrite <- !app_assoc. subst w.
    change (repeat b_sp (S n) ++ (c :: w') ++ flat_map render_param ms ++ tail)
      with (repeat 32%N (S n) ++ c :: (w' ++ flat_map render_param ms ++ tail)).
    rewrite index_aux_sc_spaces by exact Hc.
    change (c :: w' ++ flat_map render_param ms ++ tail)
      with ((c :: w') ++ flat_map render_param ms ++ tail).
    rewrite index_aux_sc_word by exact Hsp.
    rewrite IH. f_equal. unfold render_param; cbn [fst snd]. rewrite !app_length, repeat_length. lia.
Qed.

Lemma index_sc_found w ms t :
  ~ In 32%N w -> Forall (fun p => mid_shape (snd p)) ms ->
  index (w ++ render_params ms ++ sc ++ t) sc = len (w ++ render_params ms).
Proof.
  intros Hw Hms. unfold index.
  rewrite index_aux_sc_word by exact Hw.
  rewrite index_aux_sc_params by exact Hms.
  rewrite index_aux_hit by apply has_prefix_app.
  unfold len; rewrite app_length; lia.
Qed.

Lemma index_sc_none w ms :
  ~ In 32%N w -> Forall (fun p => mid_shape (snd p)) ms ->
  index (w ++ render_params ms) sc = -1.
Proof.
  intros Hw Hms. unfold index.
  rewrite index_aux_sc_word by exact Hw.
  rewrite <- (app_nil_r (render_params ms)).
  rewrite index_aux_sc_params by exact Hms. reflexivity.
Qed.

Lemma split2_at head sep t :
  index (head ++ sep ++ t) sep = len head -> split2 (head ++ sep ++ t) sep = [head; t].
Proof.
  intros H; unfold split2; rewrite H.
  pose proof (len_nonneg head). destruct (len head <? 0) eqn:E; [lia|].
  rewrite to_nat_len, firstn_len_app.
  rewrite app_assoc, <- app_length, skipn_len_app. reflexivity.
Qed.

Lemma split2_absent s sep : index s sep = -1 -> split2 s sep = [s].
Proof. intros H; unfold split2; rewrite H; reflexivity. Qed.

(* ---------- strings.Fields (ASCII model) on words separated by runs of spaces ---------- *)
Lemma fields_aux_word w rest cur :
  forallb (fun c => negb (is_space c)) w = true ->
  fields_aux (w ++ rest) cur = fields_aux rest (rev w ++ cur).
Proof.
  revert cur; induction w as [|x w IH]; intros cur H.
  - reflexivity.
  - simpl in H. apply andb_true_iff in H as [Hx Hw].
    simpl app. cbn [fields_aux]. destruct (is_space x); [discriminate|].
    rewrite IH by exact Hw. simpl rev. now rewrite <- app_assoc.
Qed.

Lemma fields_aux_spaces0 n rest : fields_aux (repeat 32%N n ++ rest) [] = fields_aux rest [].
Proof. induction n as [|n IH]; [reflexivity|]. simpl repeat; simpl app. cbn [fields_aux is_space]. exact IH. Qed.

Definition word_shape (w : bytes) : Prop :=
  w <> [] /\ forallb (fun c => negb (is_space c)) w = true.

Lemma fields_aux_params ms cur :
  cur <> [] -> Forall (fun p => word_shape (snd p)) ms ->
  fields_aux (render_params ms) cur = rev cur :: map snd ms.
Proof.
  intros Hc H; revert cur Hc; induction H as [|[n w] ms [Hne Hw] _ IH]; intros cur Hc.
  - simpl. destruct cur; [contradiction|reflexivity].
  - unfold render_params in *. cbn [flat_map map snd]. unfold render_param at 1. cbn [fst snd] in *.
    simpl repeat. rewrite <- !app_assoc. simpl app.
    change b_sp with 32%N. cbn [fields_aux is_space].
    destruct cur as [|c0 cur]; [contradiction|].
    f_equal. rewrite fields_aux_spaces0, fields_aux_word by exact Hw.
    rewrite app_nil_r, IH.
    + now rewrite rev_involutive.
    + intros E. apply (f_equal (@rev N)) in E. rewrite rev_involutive in E. simpl in E. contradiction.
Qed.

Lemma fields_words w ms :
  word_shape w -> Forall (fun p => word_shape (snd p)) ms ->
  fields (w ++ render_params ms) = w :: map snd ms.
Proof.
  intros [Hne Hw] Hms. unfold fields.
  rewrite fields_aux_word by exact Hw. rewrite app_nil_r.
  rewrite fields_aux_params; [now rewrite rev_involutive| |exact Hms].
  intros E. apply (f_equal (@rev N)) in E. rewrite rev_involutive in E. simpl in E. contradiction.
Qed.

(* ---------- tag value escaping and the five-pair replacer ---------- *)
Lemma escape_byte_cases x :
  (x = 59%N /\ escape_byte x = [92; 58]%N) \/ (x = 32%N /\ escape_byte x = [92; 115]%N)
  \/ (x = 92%N /\ escape_byte x = [92; 92]%N) \/ (x = 13%N /\ escape_byte x = [92; 114]%N)
  \/ (x = 10%N /\ escape_byte x = [92; 110]%N)
  \/ (x <> 59%N /\ x <> 32%N /\ x <> 92%N /\ x <> 13%N /\ x <> 10%N /\ escape_byte x = [x]).
Proof.
  unfold escape_byte, b_semi, b_sp, b_bsl, b_cr, b_lf.
  destruct (N.eqb x 59) eqn:E1; [apply N.eqb_eq in E1; auto|].
  destruct (N.eqb x 32) eqn:E2; [apply N.eqb_eq in E2; auto|].
  destruct (N.eqb x 92) eqn:E3; [apply N.eqb_eq in E3; auto 6|].
  destruct (N.eqb x 13) eqn:E4; [apply N.eqb_eq in E4; auto 6|].
  destruct (N.eqb x 10) eqn:E5; [apply N.eqb_eq in E5; auto 7|].
  apply N.eqb_neq in E1, E2, E3, E4, E5. do 5 right. auto 7.
Qed.

(* the escaped form never contains ';' or ' ' (nor CR, LF) *)
Lemma escape_clean v c : In c (escape v) -> c <> 59%N /\ c <> 32%N /\ c <> 13%N /\ c <> 10%N.
Proof.
  unfold escape. rewrite in_flat_map. intros (x & _ & Hc).
  destruct (escape_byte_cases x) as [[-> E]|[[-> E]|[[-> E]|[[-> E]|[[-> E]|(H1 & H2 & H3 & H4 & H5 & E)]]]]];
    rewrite E in Hc; simpl in Hc;
    repeat (destruct Hc as [Hc|Hc]; [subst c; repeat split; (discriminate || assumption)|]);
    contradiction.
Qed.

Lemma replace_aux_other c s :
  c <> 92%N -> replace_aux tags_pairs (c :: s) 0 = c :: replace_aux tags_pairs s 0.
Proof.
  intros H. cbn [replace_aux].
  assert (E : try_pairs tags_pairs (c :: s) = None).
  { unfold tags_pairs. cbn [try_pairs has_prefix].
    destruct (N.eqb c 92) eqn:E; [apply N.eqb_eq in E; contradiction|reflexivity]. }
  now rewrite E.
Qed.

(* a stretch without backslash is copied *)
Lemma tags_unescape_plain k rest :
  ~ In 92%N k -> tags_unescape (k ++ rest) = k ++ tags_unescape rest.
Proof.
  unfold tags_unescape, replace_pairs. induction k as [|x k IH]; intros H; [reflexivity|].
  simpl app. rewrite replace_aux_other by (intros ->; apply H; left; reflexivity).
  rewrite IH by (intros Hin; apply H; right; exact Hin). reflexivity.
Qed.

(* THE HEART OF THE TAG PART: unescape (escape v) = v, for every byte string v.
   [escape] never emits a lone backslash, so the left-to-right scan stays aligned. *)
Lemma tags_unescape_escape_app v rest :
  tags_unescape (escape v ++ rest) = v ++ tags_unescape rest.
Proof.
  unfold tags_unescape, replace_pairs. induction v as [|x v IH]; [reflexivity|].
  unfold escape in *. cbn [flat_map]. rewrite <- app_assoc.
  destruct (escape_byte_cases x) as [[-> E]|[[-> E]|[[-> E]|[[-> E]|[[-> E]|(H1 & H2 & H3 & H4 & H5 & E)]]]]];
    rewrite E.
  1-5: simpl app; cbn [replace_aux try_pairs tags_pairs has_prefix N.eqb Pos.eqb andb length Nat.sub];
       rewrite IH; reflexivity.
  simpl app. rewrite replace_aux_other by exact H3. now rewrite IH.
Qed.

Lemma tags_unescape_escape v : tags_unescape (escape v) = v.
Proof.
  rewrite <- (app_nil_r (escape v)), tags_unescape_escape_app.
  unfold tags_unescape, replace_pairs; simpl. apply app_nil_r.
Qed.

(* ---------- strings.Split on ';' of joined pieces free of ';' ---------- *)
Lemma split_byte_aux_piece x s c cur :
  ~ In c x -> split_byte_aux (x ++ s) c cur = split_byte_aux s c (rev x ++ cur).
Proof.
  revert cur; induction x as [|y x IH]; intros cur H; [reflexivity|].
  simpl app. cbn [split_byte_aux].
  destruct (N.eqb y c) eqn:E; [apply N.eqb_eq in E; subst; exfalso; apply H; left; reflexivity|].
  rewrite IH by (intros Hin; apply H; right; exact Hin). simpl rev. now rewrite <- app_assoc.
Qed.

Lemma split_byte_join l c :
  l <> [] -> Forall (fun x => ~ In c x) l -> split_byte (join l [c]) c = l.
Proof.
  intros Hne H. unfold split_byte.
  induction H as [|x l Hx Hl IH]; [contradiction|].
  destruct l as [|y l].
  - simpl join. rewrite <- (app_nil_r x) at 1. rewrite split_byte_aux_piece by exact Hx.
    simpl. now rewrite app_nil_r, rev_involutive.
  - change (join (x :: y :: l) [c]) with (x ++ [c] ++ join (y :: l) [c]).
    rewrite split_byte_aux_piece by exact Hx. simpl app. cbn [split_byte_aux].
    rewrite N.eqb_refl, app_nil_r, rev_involutive. f_equal. apply IH. discriminate.
Qed.

Lemma join_no_byte l c d :
  c <> d -> Forall (fun x => ~ In c x) l -> ~ In c (join l [d]).
Proof.
  intros Hcd H. induction H as [|x l Hx Hl IH]; [simpl; tauto|].
  destruct l as [|y l]; [exact Hx|].
  change (join (x :: y :: l) [d]) with (x ++ [d] ++ join (y :: l) [d]).
  rewrite !in_app_iff. intros [Hin|[Hin|Hin]]; [auto| |auto].
  simpl in Hin. destruct Hin as [Hin|[]]. congruence.
Qed.

(* ---------- strings.Trim ---------- *)
Lemma trim_left_stop x s cut : mem_byte x cut = false -> trim_left (x :: s) cut = x :: s.
Proof. intros H; cbn [trim_left]; now rewrite H. Qed.

Lemma trim_left_strip pre s cut :
  forallb (fun c => mem_byte c cut) pre = true -> trim_left (pre ++ s) cut = trim_left s cut.
Proof.
  induction pre as [|x pre IH]; intros H; [reflexivity|].
  simpl in H. apply andb_true_iff in H as [Hx Hp]. simpl app. cbn [trim_left]. rewrite Hx. auto.
Qed.

(* [core] starts and ends with bytes outside the cutset; [pre] and [post] lie inside it *)
Lemma trim_core pre post cut x y mid :
  forallb (fun c => mem_byte c cut) pre = true ->
  forallb (fun c => mem_byte c cut) post = true ->
  mem_byte x cut = false -> mem_byte y cut = false ->
  forall core, (core = [x] /\ x = y /\ mid = []) \/ core = x :: mid ++ [y] ->
  trim (pre ++ core ++ post) cut = core.
Proof.
  intros Hpre Hpost Hx Hy core Hc. unfold trim, trim_right.
  rewrite trim_left_strip by exact Hpre.
  assert (Hl : trim_left (core ++ post) cut = core ++ post).
  { destruct Hc as [(-> & _ & _)| ->]; simpl app; now apply trim_left_stop. }
  rewrite Hl, rev_app_distr.
  rewrite trim_left_strip by (rewrite forallb_forall in *; intros c Hin; apply Hpost; now apply in_rev).
  destruct Hc as [(-> & -> & _)| ->].
  - change (rev [y]) with [y]. now rewrite trim_left_stop.
  - replace (rev (x :: mid ++ [y])) with (y :: rev (x :: mid))
      by (change (x :: mid ++ [y]) with ((x :: mid) ++ [y]); now rewrite rev_app_distr).
    rewrite trim_left_stop by exact Hy.
    change (y :: rev (x :: mid)) with ([y] ++ rev (x :: mid)).
    now rewrite rev_app_distr, rev_involutive.
Qed.

(* every non-empty list is [x] or x :: mid ++ [y] *)
Lemma ends_of {A} (s : list A) : s <> [] ->
  exists x y mid, ((s = [x] /\ x = y /\ mid = []) \/ s = x :: mid ++ [y]) /\ hd_error s = Some x /\ last s x = y.
Proof.
  intros H. destruct s as [|x s]; [contradiction|].
  destruct (@exists_last _ (x :: s)) as (s' & y & E); [discriminate|].
  destruct s' as [|x' s'].
  - simpl in E. injection E as -> ->. exists y, y, []. repeat split; auto.
  - simpl in E. injection E as <- ->. exists x, y, s'. repeat split; auto.
    change (x :: s' ++ [y]) with ((x :: s') ++ [y]). now rewrite last_last.
Qed.
